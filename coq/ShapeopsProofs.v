(* ShapeopsProofs.v — proofs about the MODEL of the data-moving shape operations (Shapeops.v):
   Shape.Concat / Shape.Repeat, StackDense (simple and view paths), assignArray, denseConcat,
   denseRepeat.  Property C10. *)
From TV Require Import Base Index AP Iter Mem Spec Ops Shapeops IndexProofs IterProofs APProofs OpsProofs.
From TV Require MemProofs.
From Coq Require Import ZifyBool Lia.

Arguments Z.mul : simpl never.
Arguments Z.add : simpl never.
Arguments Z.sub : simpl never.
Arguments Z.leb : simpl never.
Arguments Z.ltb : simpl never.
Arguments Z.eqb : simpl never.
Arguments Z.div : simpl never.
Arguments Z.modulo : simpl never.
Arguments Z.quot : simpl never.
Arguments Z.rem : simpl never.
Arguments Z.min : simpl never.
Arguments Z.of_nat : simpl never.
Arguments Z.to_nat : simpl never.
Arguments Z.testbit : simpl never.

(* ====================================================================================== *)
(*  0. lists                                                                              *)
(* ====================================================================================== *)
Lemma nth_upd_eq {A} (d : A) : forall (l : list A) n v, (n < length l)%nat -> nth n (upd l n v) d = v.
Proof. induction l as [|h t IH]; intros [|n] v H; cbn in *; try lia; [reflexivity|apply IH; lia]. Qed.

Lemma nth_upd_neq {A} (d : A) : forall (l : list A) n m v, n <> m -> nth m (upd l n v) d = nth m l d.
Proof.
  induction l as [|h t IH]; intros [|n] [|m] v H; cbn; try reflexivity; try lia. apply IH. lia.
Qed.

Lemma upd_len {A} (l : list A) n v : length (upd l n v) = length l.
Proof. apply upd_length. Qed.

Lemma upd_twice {A} : forall (l : list A) n x y, upd (upd l n x) n y = upd l n y.
Proof. induction l as [|h t IH]; intros [|n] x y; cbn; try reflexivity. f_equal. apply IH. Qed.

Lemma upd_app_r {A} : forall (l1 l2 : list A) n v, n = length l1 ->
  upd (l1 ++ l2) n v = l1 ++ upd l2 0 v.
Proof.
  induction l1 as [|h t IH]; intros l2 n v ->; cbn [length app upd]; [reflexivity|].
  f_equal. apply IH. reflexivity.
Qed.

Lemma upd_split {A} : forall (l : list A) n v, (n < length l)%nat ->
  upd l n v = firstn n l ++ v :: skipn (S n) l.
Proof.
  induction l as [|h t IH]; intros [|n] v H; cbn [length] in H; try lia; cbn [upd firstn skipn app].
  - reflexivity.
  - f_equal. apply IH. lia.
Qed.

Lemma list_split_nth {A} (d : A) : forall (l : list A) n, (n < length l)%nat ->
  l = firstn n l ++ nth n l d :: skipn (S n) l.
Proof.
  induction l as [|h t IH]; intros [|n] H; cbn [length] in H; try lia; cbn [nth firstn skipn app].
  - reflexivity.
  - f_equal. apply IH. lia.
Qed.

Lemma zget_nth {A} (d : A) (l : list A) i : 0 <= i < zlen l -> zget l i = Some (nth (Z.to_nat i) l d).
Proof.
  intro H. rewrite zget_nth_error by lia. apply nth_error_nth'. unfold zlen in H. lia.
Qed.

Lemma size_app a : forall b, size (a ++ b) = size a * size b.
Proof. induction a as [|x a IH]; intro b; cbn [app size]; [lia|rewrite IH; lia]. Qed.

Lemma size_firstn_skipn n s : size s = size (firstn n s) * size (skipn n s).
Proof. rewrite <- size_app, firstn_skipn. reflexivity. Qed.

Lemma pos_shape_app a b : pos_shape (a ++ b) <-> pos_shape a /\ pos_shape b.
Proof. unfold pos_shape. apply Forall_app. Qed.

Lemma pos_shape_firstn n s : pos_shape s -> pos_shape (firstn n s).
Proof. intro H. rewrite <- (firstn_skipn n s) in H. apply pos_shape_app in H. apply H. Qed.

Lemma pos_shape_skipn n s : pos_shape s -> pos_shape (skipn n s).
Proof. intro H. rewrite <- (firstn_skipn n s) in H. apply pos_shape_app in H. apply H. Qed.

Lemma sumz_app a : forall b, sumz (a ++ b) = sumz a + sumz b.
Proof. induction a as [|x a IH]; intro b; cbn [app sumz]; [lia|rewrite IH; lia]. Qed.

Lemma sumz_repeat r n : sumz (repeat r n) = Z.of_nat n * r.
Proof. induction n as [|n IH]; cbn [repeat sumz]; [lia|rewrite IH; lia]. Qed.

Lemma sumz_nonneg l : Forall (fun r => 0 <= r) l -> 0 <= sumz l.
Proof. induction 1; cbn [sumz]; lia. Qed.

Lemma list_ext_nth {A} (d : A) (l l' : list A) : length l = length l' ->
  (forall i, (i < length l)%nat -> nth i l d = nth i l' d) -> l = l'.
Proof. intros Hl H. apply (nth_ext l l' d d Hl). exact H. Qed.

(* ====================================================================================== *)
(*  S1. the shape calculators                                                             *)
(* ====================================================================================== *)
(* x agrees with s everywhere except (possibly) on the axis *)
Definition agree_off (ax : nat) (s x : list Z) : Prop :=
  length x = length s /\ forall i, i <> ax -> nth i x 0 = nth i s 0.

Lemma concat_dims_spec axis : forall acc shp d r,
  concat_dims acc shp axis d = Some r <->
  length shp = length acc /\
  (forall i, (d + i)%nat <> axis -> (i < length acc)%nat -> nth i shp 0 = nth i acc 0) /\
  length r = length acc /\
  (forall i, (i < length acc)%nat ->
     nth i r 0 = if Nat.eqb (d + i) axis then nth i acc 0 + nth i shp 0 else nth i acc 0).
Proof.
  induction acc as [|a acc IH]; intros [|s shp] d r; cbn [concat_dims length].
  - split.
    + intro H. injection H as <-. repeat split; intros; cbn [length] in *; lia.
    + intros (_ & _ & Hl & _). destruct r; [reflexivity|cbn [length] in Hl; lia].
  - split; [discriminate|]. intros (H & _). lia.
  - split; [discriminate|]. intros (H & _). lia.
  - specialize (IH shp (S d)).
    destruct (Nat.eqb d axis) eqn:Ed.
    + destruct (concat_dims acc shp axis (S d)) as [r'|] eqn:Er.
      * pose proof (proj1 (IH r') eq_refl) as (L1 & A1 & L2 & N1). split.
        -- intro H. injection H as <-. split; [lia|]. split.
           ++ intros [|i] Hi Hlt; [apply Nat.eqb_eq in Ed; lia|]. cbn [nth]. apply A1; lia.
           ++ split; [cbn [length]; lia|]. intros [|i] Hlt; cbn [nth].
              ** rewrite Nat.add_0_r, Ed. reflexivity.
              ** rewrite N1 by lia. replace (d + S i)%nat with (S d + i)%nat by lia. reflexivity.
        -- intros (L1' & A1' & L2' & N1'). f_equal. apply (list_ext_nth 0).
           ++ cbn [length]. lia.
           ++ intros [|i] Hlt; cbn [nth].
              ** specialize (N1' O). cbn [nth] in N1'. rewrite Nat.add_0_r, Ed in N1'. symmetry. apply N1'. lia.
              ** specialize (N1' (S i)). cbn [nth] in N1'. cbn [length] in Hlt. rewrite N1' by lia.
                 rewrite N1 by lia. replace (d + S i)%nat with (S d + i)%nat by lia. reflexivity.
      * split; [discriminate|]. intros (L1' & A1' & L2' & N1'). exfalso.
        destruct r as [|r0 r]; [cbn [length] in L2'; lia|].
        assert (Hs : @None (list Z) = Some r).
        { apply IH. split; [lia|]. split.
          - intros i Hi Hlt. apply (A1' (S i)); lia.
          - split; [cbn [length] in L2'; lia|]. intros i Hlt. specialize (N1' (S i)). cbn [nth] in N1'.
            replace (S d + i)%nat with (d + S i)%nat by lia. apply N1'. lia. }
        discriminate.
    + destruct (a =? s) eqn:Eas; cbn [negb].
      * destruct (concat_dims acc shp axis (S d)) as [r'|] eqn:Er.
        -- pose proof (proj1 (IH r') eq_refl) as (L1 & A1 & L2 & N1). split.
           ++ intro H. injection H as <-. split; [lia|]. split.
              ** intros [|i] Hi Hlt; cbn [nth]; [lia|]. apply A1; lia.
              ** split; [cbn [length]; lia|]. intros [|i] Hlt; cbn [nth].
                 --- rewrite Nat.add_0_r, Ed. reflexivity.
                 --- rewrite N1 by lia. replace (d + S i)%nat with (S d + i)%nat by lia. reflexivity.
           ++ intros (L1' & A1' & L2' & N1'). f_equal. apply (list_ext_nth 0).
              ** cbn [length]. lia.
              ** intros [|i] Hlt; cbn [nth].
                 --- specialize (N1' O). cbn [nth] in N1'. rewrite Nat.add_0_r, Ed in N1'. symmetry. apply N1'. lia.
                 --- specialize (N1' (S i)). cbn [nth] in N1'. cbn [length] in Hlt. rewrite N1' by lia.
                     rewrite N1 by lia. replace (d + S i)%nat with (S d + i)%nat by lia. reflexivity.
        -- split; [discriminate|]. intros (L1' & A1' & L2' & N1'). exfalso.
           destruct r as [|r0 r]; [cbn [length] in L2'; lia|].
           assert (Hs : @None (list Z) = Some r).
           { apply IH. split; [lia|]. split.
             - intros i Hi Hlt. apply (A1' (S i)); lia.
             - split; [cbn [length] in L2'; lia|]. intros i Hlt. specialize (N1' (S i)). cbn [nth] in N1'.
               replace (S d + i)%nat with (d + S i)%nat by lia. apply N1'. lia. }
           discriminate.
      * split; [discriminate|]. intros (_ & A1' & _). exfalso.
        specialize (A1' O). cbn [nth] in A1'. apply Nat.eqb_neq in Ed.
        assert (s = a) by (apply A1'; lia). lia.
Qed.

(* one step of Shape.Concat's fold, on an accumulator that is s with a different axis extent *)
Lemma concat_dims_step ax acc x r : (ax < length acc)%nat ->
  concat_dims acc x ax 0 = Some r <->
  agree_off ax acc x /\ r = upd acc ax (nth ax acc 0 + nth ax x 0).
Proof.
  intro Hax. rewrite concat_dims_spec. split.
  - intros (L & A & Lr & N). split.
    + split; [exact L|]. intros i Hi. destruct (Nat.lt_ge_cases i (length acc)) as [Hlt|Hge].
      * apply A; [cbn; lia|exact Hlt].
      * rewrite !nth_overflow by lia. reflexivity.
    + apply (list_ext_nth 0); [rewrite upd_len; exact Lr|]. intros i Hi. rewrite Lr in Hi.
      rewrite N by exact Hi. cbn [Nat.add]. destruct (Nat.eqb i ax) eqn:E.
      * apply Nat.eqb_eq in E. subst i. rewrite nth_upd_eq by exact Hax. reflexivity.
      * apply Nat.eqb_neq in E. rewrite nth_upd_neq by lia. reflexivity.
  - intros ((L & A) & ->). split; [exact L|]. split; [intros i Hi _; apply A; cbn in Hi; lia|].
    split; [apply upd_len|]. intros i Hi. cbn [Nat.add]. destruct (Nat.eqb i ax) eqn:E.
    + apply Nat.eqb_eq in E. subst i. rewrite nth_upd_eq by exact Hax. reflexivity.
    + apply Nat.eqb_neq in E. rewrite nth_upd_neq by lia. reflexivity.
Qed.

Lemma agree_off_upd ax s v x : agree_off ax (upd s ax v) x <-> agree_off ax s x.
Proof.
  unfold agree_off. rewrite upd_len. split; intros (L & A); (split; [exact L|]); intros i Hi.
  - rewrite A by exact Hi. apply nth_upd_neq. lia.
  - rewrite A by exact Hi. symmetry. apply nth_upd_neq. lia.
Qed.

Lemma concat_fold_none ax : forall ss,
  fold_left (fun acc x => match acc with Some a => concat_dims a x ax 0 | None => None end) ss None = None.
Proof. induction ss as [|x ss IH]; cbn [fold_left]; [reflexivity|exact IH]. Qed.

Lemma concat_fold_spec ax : forall ss acc r, (ax < length acc)%nat ->
  fold_left (fun acc x => match acc with Some a => concat_dims a x ax 0 | None => None end) ss (Some acc) = Some r <->
  Forall (agree_off ax acc) ss /\ r = upd acc ax (nth ax acc 0 + sumz (map (fun x => nth ax x 0) ss)).
Proof.
  induction ss as [|x ss IH]; intros acc r Hax; cbn [fold_left map sumz].
  - split.
    + intro H. injection H as <-. split; [constructor|]. rewrite Z.add_0_r.
      apply (list_ext_nth 0); [rewrite upd_len; reflexivity|]. intros i Hi.
      destruct (Nat.eq_dec i ax) as [->|Hn]; [rewrite nth_upd_eq by lia|rewrite nth_upd_neq by lia]; reflexivity.
    + intros (_ & ->). f_equal. rewrite Z.add_0_r.
      apply (list_ext_nth 0); [rewrite upd_len; reflexivity|]. intros i Hi.
      destruct (Nat.eq_dec i ax) as [->|Hn]; [rewrite nth_upd_eq by lia|rewrite nth_upd_neq by lia]; reflexivity.
  - destruct (concat_dims acc x ax 0) as [a1|] eqn:E1.
    + apply (concat_dims_step ax acc x a1 Hax) in E1. destruct E1 as (Ag & ->).
      rewrite IH by (rewrite upd_len; exact Hax). rewrite nth_upd_eq by exact Hax. rewrite upd_twice.
      split.
      * intros (F & ->). split; [constructor; [exact Ag|]|f_equal; lia].
        eapply Forall_impl; [|exact F]. intros y Hy. apply agree_off_upd in Hy. exact Hy.
      * intros (F & ->). inversion F as [|? ? _ F']; subst. split; [|f_equal; lia].
        eapply Forall_impl; [|exact F']. intros y Hy. apply agree_off_upd. exact Hy.
    + rewrite concat_fold_none. split; [discriminate|]. intros (F & _). exfalso.
      inversion F as [|? ? Ag _]; subst.
      assert (H : concat_dims acc x ax 0 = Some (upd acc ax (nth ax acc 0 + nth ax x 0))).
      { apply concat_dims_step; [exact Hax|]. split; [exact Ag|reflexivity]. }
      congruence.
Qed.

(* Shape.Concat: all ranks equal, the (normalised) axis in range, agreement off the axis; the
   result is s with the axis extent replaced by the sum of the extents *)
Theorem shape_concat_spec s axis ss r :
  shape_concat s axis ss = Some r <->
  let ax := if axis =? -1 then 0 else axis in
  0 <= ax < zlen s /\
  Forall (agree_off (Z.to_nat ax) s) ss /\
  r = upd s (Z.to_nat ax) (nth (Z.to_nat ax) s 0 + sumz (map (fun x => nth (Z.to_nat ax) x 0) ss)).
Proof.
  cbv zeta. unfold shape_concat. set (ax := if axis =? -1 then 0 else axis).
  destruct (forallb (fun x => Nat.eqb (length x) (length s)) ss) eqn:Ef; cbn [negb].
  - destruct ((ax <? 0) || (zlen s <=? ax)) eqn:Eb.
    + split; [discriminate|]. intros (H & _). lia.
    + rewrite concat_fold_spec by (unfold zlen in Eb; lia). split.
      * intros (F & ->). split; [lia|]. split; [exact F|reflexivity].
      * intros (_ & F & ->). split; [exact F|reflexivity].
  - split; [discriminate|]. intros (_ & F & _). exfalso.
    assert (Ht : forallb (fun x => Nat.eqb (length x) (length s)) ss = true).
    { apply forallb_forall. intros x Hx. rewrite Forall_forall in F. destruct (F x Hx) as [L _].
      apply Nat.eqb_eq. exact L. }
    congruence.
Qed.

(* Shape.Repeat, ordinary case: a non-scalar shape and 0 <= axis < rank.  A single count is
   broadcast to the axis extent; a wrong number of counts is refused. *)
Definition bcast_reps (repeats : list Z) (sz : Z) : list Z :=
  match repeats with [r] => repeat r (Z.to_nat sz) | _ => repeats end.

Theorem shape_repeat_spec s axis repeats : 0 <= axis < zlen s ->
  let sz := nth (Z.to_nat axis) s 0 in
  let reps := bcast_reps repeats sz in
  shape_repeat s axis repeats =
  if zlen reps =? sz then Ok (upd s (Z.to_nat axis) (sumz reps), reps, sz, axis) else Err.
Proof.
  intros Hax. cbv zeta. unfold shape_repeat.
  replace (axis =? -1) with false by lia.
  destruct s as [|s0 s']; [unfold zlen in Hax; cbn [length] in Hax; lia|].
  cbn [is_scalar].
  assert (Hv : is_vector (s0 :: s') && negb (is_rowvec (s0 :: s')) && negb (is_colvec (s0 :: s')) && (axis =? 1) = false).
  { destruct (axis =? 1) eqn:E1; [|rewrite andb_false_r; reflexivity].
    destruct s' as [|s1 s'']; [unfold zlen in Hax; cbn [length] in Hax; lia|].
    unfold is_vector. cbn [length]. destruct s'' as [|s2 s3].
    - cbn [Nat.eqb orb]. rewrite orb_false_r.
      destruct (is_colvec [s0; s1]) eqn:Ec; cbn [orb negb andb]; [rewrite andb_false_r; reflexivity|].
      destruct (is_rowvec [s0; s1]) eqn:Er; cbn [orb negb andb]; reflexivity.
    - unfold is_colvec, is_rowvec. cbn [Nat.eqb orb andb]. reflexivity. }
  rewrite Hv. replace (zlen (s0 :: s') <=? axis) with false by lia.
  rewrite (zget_nth 0) by exact Hax. fold (bcast_reps repeats (nth (Z.to_nat axis) (s0 :: s') 0)).
  set (sz := nth (Z.to_nat axis) (s0 :: s') 0). set (reps := bcast_reps repeats sz).
  destruct (zlen reps =? sz) eqn:El; cbn [negb]; [|reflexivity].
  rewrite zset_spec by exact Hax. reflexivity.
Qed.

(* the flattening form *)
Theorem shape_repeat_flat s repeats :
  let reps := bcast_reps repeats (size s) in
  shape_repeat s (-1) repeats =
  if zlen reps =? size s then Ok ([sumz reps], reps, size s, 0) else Err.
Proof.
  cbv zeta. unfold shape_repeat. replace (-1 =? -1) with true by lia.
  fold (bcast_reps repeats (size s)). destruct (zlen (bcast_reps repeats (size s)) =? size s); reflexivity.
Qed.

(* ====================================================================================== *)
(*  1. store primitives: block writes into one destination window                         *)
(* ====================================================================================== *)
Section Prim.
Variable V : Type.
Variable vzero : V.

Notation store := (store V).
Notation win_get := (win_get V).
Notation frame_ok := (frame_ok V).
Notation in_buf := (in_buf V).
Notation cell := (cell V).
Notation wf_dense := (wf_dense V).
Notation get_buf := (get_buf V).
Notation bufs := (bufs V).
Notation tens := (tens V).

Definition vfst : V -> V -> V := fun x _ => x.

(* σ' is σ with the cells [lo, hi) of D's window set to g, nothing else changed *)
Definition wrote (σ σ' : store) (D : dense) (lo hi : Z) (g : Z -> option V) : Prop :=
  frame_ok σ σ' D /\
  (forall p, lo <= p < hi -> win_get σ' D p = g p) /\
  (forall p, ~ (lo <= p < hi) -> win_get σ' D p = win_get σ D p).

Lemma wrote_refl σ D lo g : wrote σ σ D lo lo g.
Proof. split; [apply frame_ok_refl|]. split; [intros p Hp; lia|reflexivity]. Qed.

Lemma wrote_trans σ σ1 σ2 D lo mid hi g : lo <= mid <= hi ->
  wrote σ σ1 D lo mid g -> wrote σ1 σ2 D mid hi g -> wrote σ σ2 D lo hi g.
Proof.
  intros Hm (F1 & W1 & O1) (F2 & W2 & O2). split; [eapply frame_ok_trans; eassumption|]. split.
  - intros p Hp. destruct (Z_lt_dec p mid) as [Hlt|Hge].
    + rewrite O2 by lia. apply W1. lia.
    + apply W2. lia.
  - intros p Hp. rewrite O2 by lia. apply O1. lia.
Qed.

Lemma wrote_ext σ σ' D lo hi g g' : (forall p, lo <= p < hi -> g p = g' p) ->
  wrote σ σ' D lo hi g -> wrote σ σ' D lo hi g'.
Proof.
  intros He (F & W & O). split; [exact F|]. split; [|exact O]. intros p Hp. rewrite <- He by exact Hp. apply W. exact Hp.
Qed.

Lemma wrote_frame σ σ' D lo hi g : wrote σ σ' D lo hi g -> frame_ok σ σ' D.
Proof. intros (F & _). exact F. Qed.

Lemma frame_in_buf σ σ' D E : frame_ok σ σ' D -> in_buf σ E -> in_buf σ' E.
Proof. intros (_ & _ & Hn & _) HE. eapply in_buf_frame; [|exact HE]. exact Hn. Qed.

Lemma frame_sep_get σ σ' D E i : frame_ok σ σ' D -> sep D E -> win_get σ' E i = win_get σ E i.
Proof. intros (_ & _ & _ & _ & Hs & _) HE. apply Hs. exact HE. Qed.

Lemma Forall2_nth {A B} (R : A -> B -> Prop) : forall l l', Forall2 R l l' ->
  forall k a, nth_error l k = Some a -> exists b, nth_error l' k = Some b /\ R a b.
Proof.
  induction 1 as [|x y l l' Hxy _ IH]; intros [|k] a Hk; cbn [nth_error] in *; try discriminate.
  - injection Hk as <-. exists y. split; [reflexivity|exact Hxy].
  - apply IH. exact Hk.
Qed.

Lemma Forall2_length {A B} (R : A -> B -> Prop) : forall l l', Forall2 R l l' -> length l = length l'.
Proof. induction 1; cbn [length]; congruence. Qed.

Lemma win_gather_ok σ d : in_buf σ d -> forall idx, (forall i, In i idx -> 0 <= i < d_len d) ->
  exists vs, win_gather V σ d idx = Some vs /\ Forall2 (fun i v => win_get σ d i = Some v) idx vs.
Proof.
  intros Hd. induction idx as [|i idx IH]; intro Hr; cbn [win_gather].
  - exists []. split; [reflexivity|constructor].
  - destruct (in_buf_win_get V σ d i Hd) as [v Hv]; [apply Hr; left; reflexivity|].
    destruct IH as (vs & E & F); [intros j Hj; apply Hr; right; exact Hj|].
    rewrite Hv, E. exists (v :: vs). split; [reflexivity|constructor; assumption].
Qed.

Ltac projA := cbn [Ops.a_dst Ops.a_cap Ops.a_k Ops.a_kz Ops.a_x Ops.a_y Ops.a_acc src_good fst snd Ops.rd].

Lemma win_scatter_spec σ d idx vs : in_buf σ d -> NoDup idx -> (forall i, In i idx -> 0 <= i < d_len d) ->
  exists σ', win_scatter V σ d idx vs = Some σ' /\ frame_ok σ σ' d /\
    (forall k i v, nth_error idx k = Some i -> nth_error vs k = Some v -> win_get σ' d i = Some v) /\
    (forall i, ~ In i idx -> win_get σ' d i = win_get σ d i).
Proof.
  intros Hd Hnd Hr. rewrite (win_scatter_as_asgs V vzero vfst).
  destruct (schema_map V vzero vfst (pr1 V) σ d false
              (fun p => Ops.mkAsg V d false (fst p) (fst p) (Ops.SConst V (snd p)) (Ops.SConst V (snd p)) false)
              fst (combine idx vs) false Hd) as (σ' & Hrun & Hfr & Hv & Hoth & _).
  - intros [i v] Hin. apply in_combine_l in Hin. split; [|reflexivity].
    unfold asg_good. projA. refine (conj eq_refl (conj eq_refl (conj (Hr i Hin) (conj I I)))).
  - apply combine_NoDup_fst. exact Hnd.
  - exists σ'. rewrite Hrun. cbn [option_map fst]. split; [reflexivity|]. split; [exact Hfr|]. split.
    + intros k i v Hi Hk. pose proof (combine_nth_In _ _ _ _ _ Hi Hk) as Hin.
      pose proof (Hv (i, v) Hin) as Hq. cbn [fst] in Hq. rewrite Hq.
      rewrite (asg_val_plain V vfst (pr1 V) σ _ v v); projA; reflexivity.
    + intros i Hi. apply Hoth. intro Hin. apply Hi. apply in_map_iff in Hin.
      destruct Hin as ([i' v] & Heq & Hin). cbn [fst] in Heq. subst i'. apply in_combine_l in Hin. exact Hin.
Qed.

(* copyDenseSliced between non-aliasing tensors: a block copy *)
Lemma copy_sliced_spec σ dst ds de sr ss se :
  in_buf σ dst -> in_buf σ sr -> sep dst sr ->
  0 <= ds <= de -> de <= d_len dst -> 0 <= ss <= se -> se <= d_len sr ->
  let n := Z.min (de - ds) (se - ss) in
  exists σ', copy_sliced V σ dst ds de sr ss se = Some σ' /\
    wrote σ σ' dst ds (ds + n) (fun p => win_get σ sr (ss + (p - ds))).
Proof.
  intros Hd Hs Hsep Hds Hde Hss Hse n. unfold copy_sliced.
  replace ((d_len dst <? de) || (de <? ds) || (d_len sr <? se) || (se <? ss) || (ds <? 0) || (ss <? 0)) with false by lia.
  fold n.
  destruct (win_gather_ok σ sr Hs (map (fun i => ss + i) (zseq 0 (Z.to_nat n)))) as (vs & Eg & Fg).
  { intros i Hi. apply in_map_iff in Hi. destruct Hi as (j & <- & Hj). apply zseq_In in Hj. lia. }
  rewrite Eg.
  destruct (win_scatter_spec σ dst (map (fun i => ds + i) (zseq 0 (Z.to_nat n))) vs Hd) as (σ' & Es & Fr & Hv & Ho).
  { apply FinFun.Injective_map_NoDup; [intros x y Hxy; lia|apply zseq_NoDup]. }
  { intros i Hi. apply in_map_iff in Hi. destruct Hi as (j & <- & Hj). apply zseq_In in Hj. lia. }
  exists σ'. split; [exact Es|]. split; [exact Fr|]. split.
  - intros p Hp.
    assert (Hk : nth_error (zseq 0 (Z.to_nat n)) (Z.to_nat (p - ds)) = Some (p - ds)).
    { rewrite zseq_nth_error by lia. f_equal. lia. }
    destruct (Forall2_nth _ _ _ Fg (Z.to_nat (p - ds)) (ss + (p - ds))) as (v & Hvk & Hgv).
    { rewrite nth_error_map, Hk. reflexivity. }
    rewrite Hgv. apply (Hv (Z.to_nat (p - ds))); [|exact Hvk].
    rewrite nth_error_map, Hk. cbn [option_map]. f_equal. lia.
  - intros p Hp. apply Ho. intro Hin. apply in_map_iff in Hin. destruct Hin as (j & <- & Hj).
    apply zseq_In in Hj. lia.
Qed.

(* filling a range with one value *)
Lemma win_fill_range σ dst lo n v : in_buf σ dst -> 0 <= lo -> 0 <= n -> lo + n <= d_len dst ->
  exists σ', win_fill V σ dst (map (fun i => lo + i) (zseq 0 (Z.to_nat n))) v = Some σ' /\
    wrote σ σ' dst lo (lo + n) (fun _ => Some v).
Proof.
  intros Hd Hlo Hn Hhi.
  destruct (win_fill_spec V vzero vfst σ dst (map (fun i => lo + i) (zseq 0 (Z.to_nat n))) v Hd) as (σ' & Ef & Fr & Hv & Ho).
  { apply FinFun.Injective_map_NoDup; [intros x y Hxy; lia|apply zseq_NoDup]. }
  { intros i Hi. apply in_map_iff in Hi. destruct Hi as (j & <- & Hj). apply zseq_In in Hj. lia. }
  exists σ'. split; [exact Ef|]. split; [exact Fr|]. split.
  - intros p Hp. apply Hv. apply in_map_iff. exists (p - lo). split; [lia|]. apply zseq_In. lia.
  - intros p Hp. apply Ho. intro Hin. apply in_map_iff in Hin. destruct Hin as (j & <- & Hj).
    apply zseq_In in Hj. lia.
Qed.

(* ---------- the fresh result tensor ---------- *)
Definition fresh_buf (σ : store) : nat := length (bufs σ).

Lemma fresh_eq σ sh : sh <> [] ->
  fresh V vzero σ sh =
  (mkStore V (bufs σ ++ [repeat vzero (Z.to_nat (size sh))]) (tens σ),
   mkDense (length (bufs σ)) 0 (size sh) (mkAP sh (calc_strides sh) 0 true) None false).
Proof. intro H. unfold fresh, add_buf. destruct sh; [congruence|]. reflexivity. Qed.

Lemma fresh_ext σ l : ext_of V σ (mkStore V (bufs σ ++ [l]) (tens σ)).
Proof.
  split; [reflexivity|]. cbn [Mem.bufs]. split; [rewrite app_length; lia|].
  intros k Hk. apply (get_buf_app_l V σ [l] (tens σ) k Hk).
Qed.

Lemma fresh_in_buf σ n tl a o vw : 0 <= n ->
  in_buf (mkStore V (bufs σ ++ [repeat vzero (Z.to_nat n)]) tl) (mkDense (length (bufs σ)) 0 n a o vw).
Proof.
  intro Hn. unfold OpsProofs.in_buf. cbn [d_off d_len d_buf]. rewrite get_buf_app_new.
  unfold zlen. rewrite repeat_length. lia.
Qed.

Lemma ext_of_get_t σ σ' t : ext_of V σ σ' -> get_t V σ' t = get_t V σ t.
Proof. intros (Ht & _). unfold get_t. rewrite Ht. reflexivity. Qed.

Lemma ext_of_in_buf σ σ' d : ext_of V σ σ' -> (d_buf d < length (bufs σ))%nat -> in_buf σ d -> in_buf σ' d.
Proof. intros (_ & _ & Hb) Hd H. unfold OpsProofs.in_buf in *. rewrite Hb by exact Hd. exact H. Qed.

Lemma ext_of_cell σ σ' d c : ext_of V σ σ' -> (d_buf d < length (bufs σ))%nat -> cell σ' d c = cell σ d c.
Proof. intros He Hd. unfold OpsProofs.cell. apply ext_of_win; assumption. Qed.

End Prim.

(* ====================================================================================== *)
(*  2. index arithmetic: inserting / removing an axis, blocks                             *)
(* ====================================================================================== *)
Lemma divmod_block A q i : 0 <= i < A -> (q * A + i) / A = q /\ (q * A + i) mod A = i.
Proof.
  intro Hi. split.
  - symmetry. apply (Z.div_unique_pos (q * A + i) A q i); lia.
  - symmetry. apply (Z.mod_unique_pos (q * A + i) A q i); lia.
Qed.

Lemma size_insert_at a : forall sh k, (a <= length sh)%nat -> size (insert_at a k sh) = k * size sh.
Proof.
  induction a as [|a IH]; intros sh k H; [destruct sh; reflexivity|].
  destruct sh as [|s sh]; [cbn [length] in H; lia|]. cbn [insert_at size]. rewrite IH by (cbn [length] in H; lia). lia.
Qed.

Lemma pos_shape_insert_at a : forall sh k, 1 <= k -> pos_shape sh -> pos_shape (insert_at a k sh).
Proof.
  induction a as [|a IH]; intros sh k Hk Hp.
  - destruct sh; constructor; assumption.
  - destruct sh as [|s sh]; cbn [insert_at]; [repeat constructor; exact Hk|].
    inversion Hp; subst. constructor; [assumption|apply IH; assumption].
Qed.

Lemma insert_at_ne {A} a (x : A) l : insert_at a x l <> [].
Proof. destruct a, l; cbn; congruence. Qed.

Lemma insert_at_length {A} a : forall (x : A) l, (a <= length l)%nat -> length (insert_at a x l) = S (length l).
Proof.
  induction a as [|a IH]; intros x l H; [destruct l; reflexivity|].
  destruct l as [|y l]; [cbn [length] in H; lia|]. cbn [insert_at length]. rewrite IH by (cbn [length] in H; lia). reflexivity.
Qed.

(* the stride of the inserted axis *)
Lemma calc_strides_insert_at a : forall sh k, (a <= length sh)%nat ->
  nth_error (calc_strides (insert_at a k sh)) a = Some (size (skipn a sh)).
Proof.
  induction a as [|a IH]; intros sh k H; [destruct sh; reflexivity|].
  destruct sh as [|s sh]; [cbn [length] in H; lia|]. cbn [insert_at calc_strides nth_error skipn].
  apply IH. cbn [length] in H. lia.
Qed.

(* a coordinate of the stacked box: operand number j at the inserted axis; block arithmetic *)
Lemma stack_index : forall a sh c k, (a <= length sh)%nat -> pos_shape sh -> 1 <= k ->
  inbox (insert_at a k sh) c ->
  exists b j i, 0 <= b < size (firstn a sh) /\ 0 <= j < k /\ 0 <= i < size (skipn a sh) /\
    nth_error c a = Some j /\ inbox sh (remove_nth_s a c) /\
    rk (insert_at a k sh) c = (b * k + j) * size (skipn a sh) + i /\
    rk sh (remove_nth_s a c) = b * size (skipn a sh) + i.
Proof.
  induction a as [|a IH]; intros sh c k Ha Hp Hk Hc.
  - assert (E : insert_at 0 k sh = k :: sh) by (destruct sh; reflexivity). rewrite E in *.
    destruct c as [|j c]; [contradiction|]. destruct Hc as [Hj Hc].
    exists 0, j, (rk sh c). cbn [firstn skipn size nth_error remove_nth_s rk].
    pose proof (rk_bound sh c Hp Hc). repeat split; try lia; try assumption.
  - destruct sh as [|s sh]; [cbn [length] in Ha; lia|]. cbn [insert_at] in *.
    destruct c as [|x c]; [contradiction|]. destruct Hc as [Hx Hc].
    inversion Hp as [|? ? Hs Hp']; subst. cbn [length] in Ha.
    destruct (IH sh c k ltac:(lia) Hp' Hk Hc) as (b & j & i & Hb & Hj & Hi & Hn & Hin & R1 & R2).
    exists (x * size (firstn a sh) + b), j, i. cbn [firstn skipn size nth_error remove_nth_s rk inbox].
    rewrite size_insert_at by lia. rewrite R1, R2.
    pose proof (size_firstn_skipn a sh) as Hsz.
    pose proof (size_pos _ (pos_shape_firstn a sh Hp')) as Hf.
    split; [nia|]. split; [exact Hj|]. split; [exact Hi|]. split; [exact Hn|]. split; [split; assumption|].
    rewrite Hsz. split; ring.
Qed.

(* the axis-th component, with a default *)
Lemma upd_dot st : forall c n x, (n < length c)%nat -> (length st = length c) ->
  dot st (upd c n x) = dot st c + nth n st 0 * (x - nth n c 0).
Proof.
  induction st as [|k st IH]; intros [|y c] [|n] x Hn Hl; cbn [length] in *; try lia; cbn [upd dot nth].
  - lia.
  - rewrite IH by lia. lia.
Qed.

(* ====================================================================================== *)
(*  S2. StackDense                                                                        *)
(* ====================================================================================== *)
Section Stack.
Variable V : Type.
Variable vzero : V.

Notation store := (store V).
Notation win_get := (win_get V).
Notation frame_ok := (frame_ok V).
Notation in_buf := (in_buf V).
Notation cell := (cell V).
Notation wf_dense := (wf_dense V).
Notation get_buf := (get_buf V).
Notation bufs := (bufs V).
Notation tens := (tens V).
Notation get_t := (get_t V).
Notation wrote := (wrote V).
Notation ext_of := (ext_of V).

(* the result of a shape operation: a NEW allocation appended to the store, holding a tensor
   value of shape sh' with row-major strides over exactly its window; every old allocation and
   every registered tensor is unchanged (ext_of) *)
Record fresh_result (σ σ' : store) (ret : dense) (sh' : list Z) : Prop := mk_fresh_result {
  fr_ext : ext_of σ σ';
  fr_len : length (bufs σ') = S (length (bufs σ));
  fr_buf : d_buf ret = length (bufs σ);
  fr_off : d_off ret = 0;
  fr_dlen : d_len ret = size sh';
  fr_shp : shp (d_ap ret) = sh';
  fr_str : str (d_ap ret) = calc_strides sh';
  fr_old : d_old ret = None;
  fr_view : d_view ret = false;
  fr_in : in_buf σ' ret
}.

Lemma fresh_result_intro σ σ' n sh' o :
  let σ1 := mkStore V (bufs σ ++ [repeat vzero (Z.to_nat n)]) (tens σ) in
  let ret := mkDense (length (bufs σ)) 0 n (mkAP sh' (calc_strides sh') o true) None false in
  n = size sh' -> 0 <= n -> frame_ok σ1 σ' ret -> fresh_result σ σ' ret sh'.
Proof.
  intros σ1 ret Hn Hn0 Hf.
  assert (He : ext_of σ σ1) by apply fresh_ext.
  assert (Hi : in_buf σ1 ret) by (apply fresh_in_buf; exact Hn0).
  constructor; try reflexivity; try assumption.
  - eapply ext_of_frame; [exact He| |exact Hf]. cbn [d_buf ret]. lia.
  - destruct Hf as (_ & Hl & _). rewrite Hl. unfold σ1. cbn [Mem.bufs]. rewrite app_length. cbn [length]. lia.
  - eapply frame_in_buf; eassumption.
Qed.

(* ---------- the loops ---------- *)
Definition stack_step (ret : dense) (start A : Z) : store -> list dense -> Z -> option (store * Z) :=
  fix go (σ : store) (l : list dense) (dest : Z) : option (store * Z) :=
  match l with
  | [] => Some (σ, dest)
  | x :: r => match copy_sliced V σ ret dest (d_len ret) x start (start + A) with
              | Some σ' => go σ' r (dest + A)
              | None => None
              end
  end.

Lemma stack_step_nil ret start A σ dest : stack_step ret start A σ [] dest = Some (σ, dest).
Proof. reflexivity. Qed.
Lemma stack_step_cons ret start A σ x r dest :
  stack_step ret start A σ (x :: r) dest =
  match copy_sliced V σ ret dest (d_len ret) x start (start + A) with
  | Some σ' => stack_step ret start A σ' r (dest + A)
  | None => None
  end.
Proof. reflexivity. Qed.

Lemma simple_stack_loop_S f σ ret all A destStart start i batches :
  simple_stack_loop V (S f) σ ret all A destStart start i batches =
  if batches <=? i then Some σ else
  match stack_step ret start A σ all destStart with
  | Some (σ', dest') => simple_stack_loop V f σ' ret all A dest' (start + A) (i + zlen all) batches
  | None => None
  end.
Proof. reflexivity. Qed.

Definition stack0_go (ret : dense) : store -> list dense -> Z -> option store :=
  fix go (σ : store) (l : list dense) (next : Z) : option store :=
  match l with
  | [] => Some σ
  | x :: r => match copy_sliced V σ ret next (d_len ret) x 0 (d_len x) with
              | Some σ' => go σ' r (next + d_len x)
              | None => None
              end
  end.

Lemma stack0_go_nil ret σ next : stack0_go ret σ [] next = Some σ.
Proof. reflexivity. Qed.
Lemma stack0_go_cons ret σ x r next :
  stack0_go ret σ (x :: r) next =
  match copy_sliced V σ ret next (d_len ret) x 0 (d_len x) with
  | Some σ' => stack0_go ret σ' r (next + d_len x)
  | None => None
  end.
Proof. reflexivity. Qed.

(* what the stacking loops put at window position p of the result: block p / A belongs to
   operand (p / A) mod k and is its block (p / A) / k *)
Definition stack_gw (σ : store) (d0 : dense) (all : list dense) (A : Z) (p : Z) : option V :=
  let q := p / A in
  win_get σ (nth (Z.to_nat (q mod zlen all)) all d0) (q / zlen all * A + p mod A).

(* the same in terms of the operand's LOGICAL elements, numbered in row-major order *)
Definition stack_g (σ : store) (d0 : dense) (all : list dense) (sh : list Z) (A : Z) (p : Z) : option V :=
  let q := p / A in
  cell σ (nth (Z.to_nat (q mod zlen all)) all d0) (unrank sh (q / zlen all * A + p mod A)).

Lemma zlen_app {A} (a b : list A) : zlen (a ++ b) = zlen a + zlen b.
Proof. unfold zlen. rewrite app_length. lia. Qed.

Lemma zlen_cons {A} (x : A) l : zlen (x :: l) = zlen l + 1.
Proof. unfold zlen. cbn [length]. lia. Qed.

Lemma zlen_nonneg {A} (l : list A) : 0 <= zlen l.
Proof. unfold zlen. lia. Qed.

Lemma stack_gw_block σ0 d0 pre x r A b i : 0 < A -> 0 <= i < A ->
  stack_gw σ0 d0 (pre ++ x :: r) A ((b * zlen (pre ++ x :: r) + zlen pre) * A + i) = win_get σ0 x (b * A + i).
Proof.
  intros HA Hi. unfold stack_gw. cbv zeta.
  destruct (divmod_block A (b * zlen (pre ++ x :: r) + zlen pre) i Hi) as [-> ->].
  assert (Hj : 0 <= zlen pre < zlen (pre ++ x :: r)).
  { rewrite zlen_app, zlen_cons. pose proof (zlen_nonneg pre). pose proof (zlen_nonneg r). lia. }
  destruct (divmod_block (zlen (pre ++ x :: r)) b (zlen pre) Hj) as [-> ->].
  unfold zlen at 1. rewrite Nat2Z.id. rewrite nth_middle. reflexivity.
Qed.

Lemma stack_step_spec σ0 ret d0 all A b : 0 < A -> 0 <= b ->
  in_buf σ0 ret ->
  (forall x, In x all -> in_buf σ0 x /\ sep ret x /\ (b + 1) * A <= d_len x) ->
  (b * zlen all + zlen all) * A <= d_len ret ->
  forall l pre σ, all = pre ++ l -> frame_ok σ0 σ ret ->
  exists σ', stack_step ret (b * A) A σ l ((b * zlen all + zlen pre) * A) = Some (σ', (b * zlen all + zlen all) * A) /\
    wrote σ σ' ret ((b * zlen all + zlen pre) * A) ((b * zlen all + zlen all) * A) (stack_gw σ0 d0 all A).
Proof.
  intros HA Hb Hret Hops Hlen. induction l as [|x r IH]; intros pre σ Hall Hfr; [rewrite stack_step_nil|rewrite stack_step_cons].
  - rewrite app_nil_r in Hall. subst pre. exists σ. split; [reflexivity|apply wrote_refl].
  - assert (Hk : zlen all = zlen pre + 1 + zlen r) by (rewrite Hall, zlen_app, zlen_cons; lia).
    pose proof (zlen_nonneg pre) as Hp0. pose proof (zlen_nonneg r) as Hr0.
    destruct (Hops x) as (Hx & Hsep & Hlx); [rewrite Hall; apply in_or_app; right; left; reflexivity|].
    set (dest := (b * zlen all + zlen pre) * A).
    assert (Hd1 : dest + A <= d_len ret) by (unfold dest; nia).
    assert (Hd0 : 0 <= dest) by (unfold dest; nia).
    destruct (copy_sliced_spec V vzero σ ret dest (d_len ret) x (b * A) (b * A + A)) as (σ1 & Ec & W1).
    { eapply frame_in_buf; eassumption. } { eapply frame_in_buf; eassumption. } { exact Hsep. }
    { lia. } { lia. } { nia. } { nia. }
    rewrite Ec. replace (Z.min (d_len ret - dest) (b * A + A - b * A)) with A in W1 by lia.
    assert (Hfr1 : frame_ok σ0 σ1 ret) by (eapply frame_ok_trans; [exact Hfr|apply W1]).
    destruct (IH (pre ++ [x]) σ1) as (σ' & Es & W2); [rewrite <- app_assoc; exact Hall|exact Hfr1|].
    replace ((b * zlen all + zlen (pre ++ [x])) * A) with (dest + A) in Es, W2
      by (rewrite zlen_app, zlen_cons; change (zlen (@nil dense)) with 0; unfold dest; ring).
    rewrite Es. exists σ'. split; [reflexivity|].
    eapply wrote_trans; [|eapply wrote_ext; [|exact W1]|exact W2]; [nia|].
    intros p Hp. cbv beta. rewrite (frame_sep_get V σ0 σ ret x _ Hfr Hsep).
    replace p with ((b * zlen all + zlen pre) * A + (p - dest)) at 2 by (unfold dest; ring).
    rewrite Hall. rewrite stack_gw_block by lia. reflexivity.
Qed.

Lemma simple_stack_loop_spec σ0 ret d0 all A O : 0 < A -> 0 < zlen all ->
  in_buf σ0 ret ->
  (forall x, In x all -> in_buf σ0 x /\ sep ret x /\ O * A <= d_len x) ->
  O * zlen all * A <= d_len ret ->
  forall n b σ f, n = Z.to_nat (O - b) -> 0 <= b <= O -> (n < f)%nat -> frame_ok σ0 σ ret ->
  exists σ', simple_stack_loop V f σ ret all A (b * zlen all * A) (b * A) (b * zlen all) (O * zlen all) = Some σ' /\
     wrote σ σ' ret (b * zlen all * A) (O * zlen all * A) (stack_gw σ0 d0 all A).
Proof.
  intros HA Hk Hret Hops Hlen. induction n as [|n IH]; intros b σ f Hn Hb Hf Hfr;
    (destruct f as [|f]; [lia|]); rewrite simple_stack_loop_S.
  - assert (b = O) by lia. subst b. replace (O * zlen all <=? O * zlen all) with true by lia.
    exists σ. split; [reflexivity|apply wrote_refl].
  - assert (Hlt : b < O) by lia. replace (O * zlen all <=? b * zlen all) with false by nia.
    destruct (stack_step_spec σ0 ret d0 all A b HA ltac:(lia) Hret) with (l := all) (pre := @nil dense) (σ := σ)
      as (σ1 & Es & W1); [| |reflexivity|exact Hfr|].
    { intros x Hx. destruct (Hops x Hx) as (H1 & H2 & H3). split; [exact H1|]. split; [exact H2|]. nia. }
    { nia. }
    replace ((b * zlen all + zlen (@nil dense)) * A) with (b * zlen all * A) in Es, W1 by (change (zlen (@nil dense)) with 0; ring).
    rewrite Es.
    destruct (IH (b + 1) σ1 f) as (σ' & El & W2); [lia|lia|lia|eapply frame_ok_trans; [exact Hfr|apply W1]|].
    replace ((b + 1) * zlen all * A) with ((b * zlen all + zlen all) * A) in El, W2 by ring.
    replace ((b + 1) * A) with (b * A + A) in El by ring.
    replace ((b + 1) * zlen all) with (b * zlen all + zlen all) in El by ring.
    rewrite El. exists σ'. split; [reflexivity|].
    eapply wrote_trans; [|exact W1|exact W2]. nia.
Qed.

(* copyDense between non-aliasing windows *)
Lemma copy_raw_wrote σ dst sr : in_buf σ dst -> in_buf σ sr -> 0 <= d_len dst -> 0 <= d_len sr ->
  exists σ', copy_raw V σ dst sr = Ok σ' /\
    wrote σ σ' dst 0 (Z.min (d_len dst) (d_len sr)) (fun p => win_get σ sr p).
Proof.
  intros Hd Hs Hld Hls. unfold copy_raw. set (n := Z.min (d_len dst) (d_len sr)).
  destruct (win_scatter_spec V vzero σ dst (zseq 0 (Z.to_nat n)) (window V σ sr) Hd) as (σ' & Es & Fr & Hv & Ho).
  { apply zseq_NoDup. } { intros i Hi. apply zseq_In in Hi. lia. }
  rewrite Es. exists σ'. split; [reflexivity|]. split; [exact Fr|]. split.
  - intros p Hp. destruct (in_buf_win_get V σ sr p Hs) as [v Ev]; [lia|]. rewrite Ev.
    apply (Hv (Z.to_nat p)).
    + rewrite zseq_nth_error by lia. f_equal. lia.
    + rewrite window_nth by (try exact Hs; lia). rewrite Z2Nat.id by lia. exact Ev.
  - intros p Hp. apply Ho. intro Hin. apply zseq_In in Hin. lia.
Qed.

Lemma stack0_go_spec σ0 ret d0 all A : 0 < A ->
  in_buf σ0 ret ->
  (forall x, In x all -> in_buf σ0 x /\ sep ret x /\ d_len x = A) ->
  zlen all * A <= d_len ret ->
  forall l pre σ, all = pre ++ l -> frame_ok σ0 σ ret ->
  exists σ', stack0_go ret σ l (zlen pre * A) = Some σ' /\
    wrote σ σ' ret (zlen pre * A) (zlen all * A) (stack_gw σ0 d0 all A).
Proof.
  intros HA Hret Hops Hlen. induction l as [|x r IH]; intros pre σ Hall Hfr; [rewrite stack0_go_nil|rewrite stack0_go_cons].
  - rewrite app_nil_r in Hall. subst pre. exists σ. split; [reflexivity|apply wrote_refl].
  - assert (Hk : zlen all = zlen pre + 1 + zlen r) by (rewrite Hall, zlen_app, zlen_cons; lia).
    pose proof (zlen_nonneg pre) as Hp0. pose proof (zlen_nonneg r) as Hr0.
    destruct (Hops x) as (Hx & Hsep & Hlx); [rewrite Hall; apply in_or_app; right; left; reflexivity|].
    set (dest := zlen pre * A).
    assert (Hd1 : dest + A <= d_len ret) by (unfold dest; nia).
    assert (Hd0 : 0 <= dest) by (unfold dest; nia).
    destruct (copy_sliced_spec V vzero σ ret dest (d_len ret) x 0 (d_len x)) as (σ1 & Ec & W1).
    { eapply frame_in_buf; eassumption. } { eapply frame_in_buf; eassumption. } { exact Hsep. }
    { lia. } { lia. } { lia. } { lia. }
    rewrite Ec. replace (Z.min (d_len ret - dest) (d_len x - 0)) with A in W1 by lia.
    assert (Hfr1 : frame_ok σ0 σ1 ret) by (eapply frame_ok_trans; [exact Hfr|apply W1]).
    destruct (IH (pre ++ [x]) σ1) as (σ' & Es & W2); [rewrite <- app_assoc; exact Hall|exact Hfr1|].
    replace (zlen (pre ++ [x]) * A) with (dest + d_len x) in Es, W2
      by (rewrite zlen_app, zlen_cons; change (zlen (@nil dense)) with 0; unfold dest; rewrite Hlx; ring).
    rewrite Es. exists σ'. split; [reflexivity|]. rewrite Hlx in W2.
    eapply wrote_trans; [|eapply wrote_ext; [|exact W1]|exact W2]; [nia|].
    intros p Hp. cbv beta. rewrite (frame_sep_get V σ0 σ ret x _ Hfr Hsep).
    replace p with ((0 * zlen all + zlen pre) * A + (p - dest)) at 2 by (unfold dest; ring).
    rewrite Hall. rewrite stack_gw_block by lia. f_equal; lia.
Qed.

(* ---------- from the window of the result to its logical cells ---------- *)
Lemma stack_q_bounds A k O p : 0 < A -> 0 < k -> 0 <= p < O * k * A ->
  0 <= (p / A) mod k < k /\ 0 <= p / A / k < O /\ 0 <= p mod A < A.
Proof.
  intros HA Hk Hp. pose proof (Z.mod_pos_bound (p / A) k Hk). pose proof (Z.mod_pos_bound p A HA).
  assert (0 <= p / A) by (apply Z.div_pos; lia).
  assert (p / A < O * k) by (apply Z.div_lt_upper_bound; nia).
  assert (0 <= p / A / k) by (apply Z.div_pos; lia).
  assert (p / A / k < O) by (apply Z.div_lt_upper_bound; nia). lia.
Qed.

Lemma stack_gw_g σ d0 all sh A O p : 0 < A -> 0 < zlen all -> size sh = O * A ->
  (forall x, In x all -> wf_dense σ x /\ shp (d_ap x) = sh /\ requires_iterator x = false) ->
  0 <= p < O * zlen all * A ->
  stack_gw σ d0 all A p = stack_g σ d0 all sh A p.
Proof.
  intros HA Hk Hsz Hops Hp. unfold stack_gw, stack_g. cbv zeta.
  destruct (stack_q_bounds A (zlen all) O p HA Hk Hp) as (Hj & Hb & Hi).
  set (j := (p / A) mod zlen all) in *. set (b := p / A / zlen all) in *. set (i := p mod A) in *.
  assert (Hin : In (nth (Z.to_nat j) all d0) all) by (apply nth_In; unfold zlen in Hj; lia).
  destruct (Hops _ Hin) as (W & Hs & Hr). unfold OpsProofs.cell.
  destruct (wf_flag _ _ _ W Hr) as [_ Hl].
  destruct (wf_contig_cover V σ _ (b * A + i) W Hr) as [_ Hd]; [rewrite Hl, Hs, Hsz; nia|].
  rewrite Hs in Hd. rewrite Hd. reflexivity.
Qed.

Definition stack_post (σ σ' : store) (ret : dense) (all : list dense) (a : nat) (sh : list Z) : Prop :=
  fresh_result σ σ' ret (insert_at a (zlen all) sh) /\
  forall c, inbox (insert_at a (zlen all) sh) c ->
    exists j d, nth_error c a = Some j /\ nth_error all (Z.to_nat j) = Some d /\
                cell σ' ret c = cell σ d (remove_nth_s a c).

Lemma stack_cells σ σ1 σ' ret d0 all a sh :
  fresh_result σ σ' ret (insert_at a (zlen all) sh) ->
  ext_of σ σ1 -> 0 < zlen all -> (a <= length sh)%nat -> pos_shape sh ->
  (forall x, In x all -> (d_buf x < length (bufs σ))%nat) ->
  wrote σ1 σ' ret 0 (size (insert_at a (zlen all) sh)) (stack_g σ1 d0 all sh (size (skipn a sh))) ->
  stack_post σ σ' ret all a sh.
Proof.
  intros FR He Hk Ha Hp Hbuf (_ & W & _). split; [exact FR|]. intros c Hc.
  destruct (stack_index a sh c (zlen all) Ha Hp ltac:(lia) Hc) as (b & j & i & Hb & Hj & Hi & Hn & Hin & R1 & R2).
  assert (Hjn : (Z.to_nat j < length all)%nat) by (unfold zlen in Hj; lia).
  exists j, (nth (Z.to_nat j) all d0). split; [exact Hn|]. split; [apply nth_error_nth'; exact Hjn|].
  unfold OpsProofs.cell at 1. rewrite (fr_str _ _ _ _ FR), <- rk_dot, R1.
  pose proof (size_firstn_skipn a sh) as Hsz.
  pose proof (size_pos _ (pos_shape_skipn a sh Hp)) as HA.
  assert (Hq : b * zlen all + j + 1 <= size (firstn a sh) * zlen all) by nia.
  assert (Hq2 : (b * zlen all + j + 1) * size (skipn a sh) <= size (firstn a sh) * zlen all * size (skipn a sh))
    by (apply Z.mul_le_mono_nonneg_r; lia).
  rewrite W by (rewrite size_insert_at by exact Ha; rewrite Hsz; nia).
  unfold stack_g. cbv zeta.
  destruct (divmod_block (size (skipn a sh)) (b * zlen all + j) i Hi) as [-> ->].
  destruct (divmod_block (zlen all) b j Hj) as [-> ->].
  rewrite <- R2, unrank_rk by assumption.
  apply ext_of_cell; [exact He|]. apply Hbuf. apply nth_In. exact Hjn.
Qed.

(* ---------- m_stack with the operands looked up ---------- *)
Lemma flat_map_get σ : forall others ods, Forall2 (fun o d => get_t σ o = Some d) others ods ->
  flat_map (fun o => match get_t σ o with Some d => [d] | None => [] end) others = ods.
Proof. induction 1 as [|o d os ds Ho _ IH]; cbn [flat_map]; [reflexivity|]. rewrite Ho, IH. reflexivity. Qed.

Definition stack_view_data (σ1 : store) (all : list dense) (A batches : Z) : option (list V) :=
  let seqs := map (fun d => match iter_all (d_ap d) with
                            | Some idx => win_gather V σ1 d idx
                            | None => None end) all in
  if negb (forallb (fun s => match s with Some _ => true | None => false end) seqs) then None else
  let vals := map (fun s => match s with Some l => l | None => [] end) seqs in
  Some (view_stack_loop V (Z.to_nat batches) vals (Z.to_nat A)).

Lemma m_stack_unfold σ t axis others dt ods :
  get_t σ t = Some dt -> Forall2 (fun o d => get_t σ o = Some d) others ods ->
  0 <= axis <= zlen (shp (d_ap dt)) -> is_cm (ord (d_ap dt)) = false ->
  let all := dt :: ods in
  let newShape := insert_at (Z.to_nat axis) (zlen all) (shp (d_ap dt)) in
  let σ1 := mkStore V (bufs σ ++ [repeat vzero (Z.to_nat (size newShape))]) (tens σ) in
  let ret := mkDense (length (bufs σ)) 0 (size newShape)
                     (mkAP newShape (calc_strides newShape) (ord (d_ap dt)) true) None false in
  m_stack V vzero σ t axis others =
    if forallb (fun d => negb (requires_iterator d)) all then
      if axis =? 0 then
        match copy_raw V σ1 ret dt with
        | Ok σ2 => match stack0_go ret σ2 ods (d_len dt) with Some σ3 => Ok (σ3, ret) | None => Panic end
        | _ => Panic
        end
      else
        match zget (calc_strides newShape) axis with
        | None => Panic
        | Some A =>
          if A =? 0 then Panic else
          match simple_stack_loop V (S (Z.to_nat (Z.quot (size newShape) A))) σ1 ret all A 0 0 0 (Z.quot (size newShape) A) with
          | Some σ2 => Ok (σ2, ret)
          | None => Panic
          end
        end
    else
      match zget (calc_strides newShape) axis with
      | None => Panic
      | Some A =>
        if A <=? 0 then Panic else
        match stack_view_data σ1 all A (Z.quot (size newShape) A) with
        | None => Panic
        | Some data =>
          let data' := firstn (Z.to_nat (size newShape)) data in
          match win_scatter V σ1 ret (zseq 0 (length data')) data' with
          | Some σ2 => Ok (σ2, ret)
          | None => Panic
          end
        end
      end.
Proof.
  intros Ht Hods Hax Hcm all newShape σ1 ret. unfold m_stack. rewrite Ht.
  rewrite (flat_map_get σ others ods Hods).
  rewrite (Forall2_length _ _ _ Hods), Nat.eqb_refl. cbn [negb].
  replace (zlen (shp (d_ap dt)) + 1 <=? axis) with false by lia. replace (axis <? 0) with false by lia.
  replace (zlen others + 1) with (zlen all)
    by (unfold all; rewrite zlen_cons; unfold zlen; rewrite (Forall2_length _ _ _ Hods); reflexivity).
  fold newShape. unfold default_strides. rewrite Hcm.
  rewrite fresh_eq by apply insert_at_ne. cbv iota beta. cbn [d_buf d_off d_len]. fold σ1. fold ret.
  unfold all at 1. cbn [forallb].
  destruct (negb (requires_iterator dt) && forallb (fun d => negb (requires_iterator d)) ods); [reflexivity|].
  destruct (zget (calc_strides newShape) axis) as [A|]; [|reflexivity].
  destruct (A <=? 0); [reflexivity|]. unfold stack_view_data. cbv zeta. fold all.
  destruct (negb (forallb _ _)); reflexivity.
Qed.

End Stack.

Section StackThm.
Variable V : Type.
Variable vzero : V.

Notation store := (store V).
Notation win_get := (win_get V).
Notation frame_ok := (frame_ok V).
Notation in_buf := (in_buf V).
Notation cell := (cell V).
Notation wf_dense := (wf_dense V).
Notation bufs := (bufs V).
Notation tens := (tens V).
Notation get_t := (get_t V).
Notation wrote := (wrote V).
Notation ext_of := (ext_of V).
Notation stack_post := (stack_post V).

(* facts shared by the three paths *)
Lemma stack_setup σ (all : list dense) sh n tl a o vw :
  (forall x, In x all -> wf_dense σ x /\ shp (d_ap x) = sh) ->
  let σ1 := mkStore V (bufs σ ++ [repeat vzero (Z.to_nat n)]) tl in
  let ret := mkDense (length (bufs σ)) 0 n a o vw in
  tl = tens σ ->
  ext_of σ σ1 /\
  (forall x, In x all -> wf_dense σ1 x /\ in_buf σ1 x /\ sep ret x /\ (d_buf x < length (bufs σ))%nat).
Proof.
  intros Hops σ1 ret ->. assert (He : ext_of σ σ1) by apply fresh_ext. split; [exact He|].
  intros x Hx. destruct (Hops x Hx) as (W & _). pose proof (wf_buf_lt V σ x W) as Hb.
  split; [eapply ext_of_wf; eassumption|]. split; [eapply ext_of_in_buf; [exact He|exact Hb|apply (wf_win _ _ _ W)]|].
  split; [|exact Hb]. left. cbn [d_buf ret]. lia.
Qed.

(* S2, contiguous operands: the axis-0 shortcut and denseSimpleStack *)
Theorem stack_simple_spec σ t axis others dt ods sh :
  get_t σ t = Some dt -> Forall2 (fun o d => get_t σ o = Some d) others ods ->
  (forall x, In x (dt :: ods) -> wf_dense σ x /\ shp (d_ap x) = sh /\ requires_iterator x = false) ->
  0 <= axis <= zlen sh ->
  exists σ' ret, m_stack V vzero σ t axis others = Ok (σ', ret) /\
                 stack_post σ σ' ret (dt :: ods) (Z.to_nat axis) sh.
Proof.
  intros Ht Hods Hops Hax.
  destruct (Hops dt (or_introl eq_refl)) as (Wt & Hst & Hrt).
  rewrite (m_stack_unfold V vzero σ t axis others dt ods Ht Hods) by (rewrite ?Hst; try exact Hax; apply (wf_rm _ _ _ Wt)).
  cbv zeta. rewrite Hst.
  set (all := dt :: ods) in *. set (a := Z.to_nat axis).
  set (newShape := insert_at a (zlen all) sh).
  set (σ1 := mkStore V (bufs σ ++ [repeat vzero (Z.to_nat (size newShape))]) (tens σ)).
  set (ret := mkDense (length (bufs σ)) 0 (size newShape) (mkAP newShape (calc_strides newShape) (ord (d_ap dt)) true) None false).
  assert (Hall : forallb (fun d => negb (requires_iterator d)) all = true).
  { apply forallb_forall. intros x Hx. destruct (Hops x Hx) as (_ & _ & ->). reflexivity. }
  rewrite Hall.
  assert (Hp : pos_shape sh) by (rewrite <- Hst; apply (wf_pos _ _ _ Wt)).
  assert (Ha : (a <= length sh)%nat) by (unfold a, zlen in *; lia).
  assert (Hk : 0 < zlen all) by (unfold all; rewrite zlen_cons; pose proof (zlen_nonneg ods); lia).
  pose proof (size_firstn_skipn a sh) as Hsz.
  pose proof (size_pos _ (pos_shape_skipn a sh Hp)) as HA.
  pose proof (size_pos _ (pos_shape_firstn a sh Hp)) as HO.
  set (A := size (skipn a sh)) in *. set (NO := size (firstn a sh)) in *.
  assert (Hns : size newShape = NO * zlen all * A) by (unfold newShape; rewrite size_insert_at by exact Ha; rewrite Hsz; ring).
  destruct (stack_setup σ all sh (size newShape) (tens σ) (mkAP newShape (calc_strides newShape) (ord (d_ap dt)) true) None false)
    as (He & Hops1); [intros x Hx; destruct (Hops x Hx) as (H1 & H2 & _); split; assumption|reflexivity|].
  fold σ1 in He, Hops1. fold ret in Hops1.
  assert (Hret : in_buf σ1 ret) by (apply fresh_in_buf; lia).
  assert (Hlen : forall x, In x all -> d_len x = size sh).
  { intros x Hx. destruct (Hops x Hx) as (W & Hs & Hr). destruct (wf_flag _ _ _ W Hr) as [_ ->]. rewrite Hs. reflexivity. }
  assert (Hfin : forall σ', wrote σ1 σ' ret 0 (size newShape) (stack_gw V σ1 dt all A) -> stack_post σ σ' ret all a sh).
  { intros σ' W. apply (stack_cells V σ σ1 σ' ret dt all a sh).
    - apply (fresh_result_intro V vzero σ σ' (size newShape) newShape (ord (d_ap dt))); [reflexivity|lia|apply W].
    - exact He.
    - exact Hk.
    - exact Ha.
    - exact Hp.
    - intros x Hx. apply (Hops1 x Hx).
    - fold newShape. fold A. eapply wrote_ext; [|exact W]. intros p Hp'. cbv beta.
      apply (stack_gw_g V σ1 dt all sh A NO); [lia|exact Hk|lia| |lia].
      intros x Hx. destruct (Hops x Hx) as (_ & H2 & H3). destruct (Hops1 x Hx) as (H1 & _). split; [exact H1|]. split; assumption. }
  destruct (axis =? 0) eqn:Eax.
  - (* the axis-0 shortcut *)
    assert (a = 0%nat) by (unfold a; lia).
    assert (HA1 : A = size sh) by (unfold A; replace a with 0%nat; reflexivity).
    assert (HO1 : NO = 1) by (unfold NO; replace a with 0%nat; reflexivity).
    destruct (Hops1 dt (or_introl eq_refl)) as (_ & Hdt1 & Hsept & _).
    destruct (copy_raw_wrote V vzero σ1 ret dt Hret Hdt1) as (σ2 & Ec & W1); [cbn [d_len ret]; lia|rewrite (Hlen dt (or_introl eq_refl)); lia|].
    rewrite Ec. cbn [d_len ret] in W1. rewrite (Hlen dt (or_introl eq_refl)) in W1.
    replace (Z.min (size newShape) (size sh)) with A in W1 by nia.
    destruct (stack0_go_spec V vzero σ1 ret dt all A ltac:(lia) Hret) with (l := ods) (pre := [dt]) (σ := σ2) as (σ3 & Eg & W2).
    { intros x Hx. destruct (Hops1 x Hx) as (_ & H1 & H2 & _). split; [exact H1|]. split; [exact H2|]. rewrite (Hlen x Hx). lia. }
    { cbn [d_len ret]. nia. }
    { reflexivity. }
    { apply W1. }
    replace (zlen [dt] * A) with (d_len dt) in Eg, W2 by (rewrite (Hlen dt (or_introl eq_refl)); change (zlen [dt]) with 1; lia).
    rewrite Eg. exists σ3, ret. split; [reflexivity|]. apply Hfin.
    rewrite (Hlen dt (or_introl eq_refl)), <- HA1 in W2.
    replace (size newShape) with (zlen all * A) by nia.
    eapply wrote_trans; [|eapply wrote_ext; [|exact W1]|exact W2]; [nia|].
    intros p Hp'. cbv beta.
    pose proof (stack_gw_block V σ1 dt [] dt ods A 0 p ltac:(lia) Hp') as Hg.
    cbn [app] in Hg. fold all in Hg. change (zlen (@nil dense)) with 0 in Hg.
    replace ((0 * zlen all + 0) * A + p) with p in Hg by ring. rewrite Hg. f_equal; lia.
  - (* denseSimpleStack *)
    assert (Hz : zget (calc_strides newShape) axis = Some A).
    { rewrite zget_nth_error by lia. fold a. unfold newShape. apply calc_strides_insert_at. exact Ha. }
    rewrite Hz. replace (A =? 0) with false by lia.
    assert (Hq : Z.quot (size newShape) A = NO * zlen all) by (rewrite Hns; apply Z.quot_mul; lia).
    rewrite Hq.
    destruct (simple_stack_loop_spec V vzero σ1 ret dt all A NO ltac:(lia) Hk Hret) with
      (n := Z.to_nat (NO - 0)) (b := 0) (σ := σ1) (f := S (Z.to_nat (NO * zlen all))) as (σ2 & El & W).
    { intros x Hx. destruct (Hops1 x Hx) as (_ & H1 & H2 & _). split; [exact H1|]. split; [exact H2|]. rewrite (Hlen x Hx). lia. }
    { cbn [d_len ret]. lia. }
    { reflexivity. }
    { lia. }
    { assert (NO <= NO * zlen all) by nia. lia. }
    { apply frame_ok_refl. }
    change (0 * zlen all * A) with 0 in El, W. change (0 * A) with 0 in El. change (0 * zlen all) with 0 in El.
    rewrite El. exists σ2, ret. split; [reflexivity|]. apply Hfin. rewrite Hns. exact W.
Qed.

End StackThm.

(* ====================================================================================== *)
(*  S4. Repeat                                                                            *)
(* ====================================================================================== *)
Lemma rep_src_shift : forall reps k i, rep_src reps k i = i + rep_src reps k 0.
Proof.
  induction reps as [|r reps IH]; intros k i; cbn [rep_src]; [lia|].
  destruct (k <? r); [lia|]. rewrite (IH (k - r) (i + 1)), (IH (k - r) (0 + 1)). lia.
Qed.

Lemma rep_src_bound : forall reps k, Forall (fun r => 0 <= r) reps -> 0 <= k < sumz reps ->
  0 <= rep_src reps k 0 < zlen reps.
Proof.
  induction reps as [|r reps IH]; intros k Hr Hk; cbn [rep_src sumz] in *; [lia|].
  inversion Hr as [|? ? Hr0 Hr']; subst. rewrite zlen_cons. destruct (k <? r) eqn:E.
  - pose proof (zlen_nonneg reps). lia.
  - rewrite rep_src_shift. specialize (IH (k - r) Hr' ltac:(lia)). lia.
Qed.

Lemma size_upd ax : forall sh v, (ax < length sh)%nat ->
  size (upd sh ax v) = size (firstn ax sh) * v * size (skipn (S ax) sh).
Proof.
  induction ax as [|ax IH]; intros [|s sh] v H; cbn [length] in H; try lia; cbn [upd size firstn]; rewrite ?skipn_cons, ?skipn_O.
  - cbn [size]. lia.
  - rewrite IH by lia. cbn [size]. ring.
Qed.

Lemma skipn_upd {A} ax : forall (l : list A) v, skipn (S ax) (upd l ax v) = skipn (S ax) l.
Proof. induction ax as [|ax IH]; intros [|x l] v; cbn [upd]; rewrite ?skipn_cons, ?skipn_O; try reflexivity. apply IH. Qed.

Lemma firstn_upd {A} ax : forall (l : list A) v, firstn ax (upd l ax v) = firstn ax l.
Proof. induction ax as [|ax IH]; intros [|x l] v; cbn [upd firstn]; try reflexivity. f_equal. apply IH. Qed.

Lemma upd_nth_same {A} (d : A) ax : forall (l : list A), upd l ax (nth ax l d) = l.
Proof. induction ax as [|ax IH]; intros [|x l]; cbn [upd nth]; try reflexivity. f_equal. apply IH. Qed.

Lemma calc_strides_nth ax : forall sh, (ax < length sh)%nat ->
  nth_error (calc_strides sh) ax = Some (size (skipn (S ax) sh)).
Proof.
  induction ax as [|ax IH]; intros [|s sh] H; cbn [length] in H; try lia; cbn [calc_strides nth_error]; rewrite ?skipn_cons, ?skipn_O.
  - reflexivity.
  - apply IH. lia.
Qed.

Lemma pos_shape_upd ax : forall sh v, pos_shape sh -> 1 <= v -> pos_shape (upd sh ax v).
Proof.
  induction ax as [|ax IH]; intros [|s sh] v Hp Hv; cbn [upd]; try constructor; inversion Hp; subst; try assumption.
  apply IH; assumption.
Qed.

(* coordinates of a box whose axis extent has been replaced: block arithmetic, uniformly in the
   axis extent and the axis coordinate *)
Lemma axis_index ax : forall sh c R, (ax < length sh)%nat -> pos_shape sh -> inbox (upd sh ax R) c ->
  exists b i, 0 <= b < size (firstn ax sh) /\ 0 <= i < size (skipn (S ax) sh) /\
    0 <= nth ax c 0 < R /\ length c = length sh /\
    forall E' e, rk (upd sh ax E') (upd c ax e) = (b * E' + e) * size (skipn (S ax) sh) + i.
Proof.
  induction ax as [|ax IH]; intros [|s sh] c R Hax Hp Hc; cbn [length] in Hax; try lia;
    inversion Hp as [|? ? Hs Hp']; subst; cbn [upd] in Hc; (destruct c as [|y c]; [contradiction|]); destruct Hc as [Hy Hc].
  - exists 0, (rk sh c). cbn [firstn size nth upd rk length]; rewrite ?skipn_cons, ?skipn_O. pose proof (rk_bound sh c Hp' Hc).
    pose proof (inbox_length _ _ Hc). repeat split; try lia.
  - destruct (IH sh c R ltac:(lia) Hp' Hc) as (b & i & Hb & Hi & Hn & Hl & Hrk).
    exists (y * size (firstn ax sh) + b), i. cbn [firstn size nth upd rk length]; rewrite ?skipn_cons, ?skipn_O.
    pose proof (size_pos _ (pos_shape_firstn ax sh Hp')).
    split; [nia|]. split; [exact Hi|]. split; [exact Hn|]. split; [lia|].
    intros E' e. rewrite Hrk, size_upd by lia. ring.
Qed.

Section Repeat.
Variable V : Type.
Variable vzero : V.

Notation store := (store V).
Notation win_get := (win_get V).
Notation frame_ok := (frame_ok V).
Notation in_buf := (in_buf V).
Notation cell := (cell V).
Notation wf_dense := (wf_dense V).
Notation bufs := (bufs V).
Notation tens := (tens V).
Notation get_t := (get_t V).
Notation wrote := (wrote V).
Notation ext_of := (ext_of V).
Notation fresh_result := (fresh_result V).

(* one block copy of fastCopyDenseRepeat is a copyDenseSliced *)
Lemma rep_k_S k σ sr dst srcStart destStart A : 0 < A ->
  0 <= srcStart -> srcStart + A <= d_len sr -> 0 <= destStart -> destStart + A <= d_len dst ->
  rep_k V (S k) σ sr dst srcStart destStart A A =
  match copy_sliced V σ dst destStart (destStart + A) sr srcStart (srcStart + A) with
  | Some σ' => rep_k V k σ' sr dst srcStart (destStart + A) A A
  | None => None
  end.
Proof.
  intros HA Hs0 Hs1 Hd0 Hd1. cbn [rep_k]. unfold copy_sliced.
  replace ((d_len sr <=? srcStart) || (d_len dst <? destStart + A)) with false by lia.
  replace ((d_len dst <? destStart + A) || (A <? 0)) with false by lia.
  replace ((d_len dst <? destStart + A) || (destStart + A <? destStart) || (d_len sr <? srcStart + A) ||
           (srcStart + A <? srcStart) || (destStart <? 0) || (srcStart <? 0)) with false by lia.
  replace (Z.min A (d_len sr - srcStart)) with A by lia.
  replace (Z.min (destStart + A - destStart) (srcStart + A - srcStart)) with A by lia.
  destruct (win_gather V σ sr _); reflexivity.
Qed.

Lemma rep_k_spec σ0 sr dst srcStart A : 0 < A -> in_buf σ0 dst -> in_buf σ0 sr -> sep dst sr ->
  0 <= srcStart -> srcStart + A <= d_len sr ->
  forall k σ destStart, frame_ok σ0 σ dst -> 0 <= destStart -> destStart + Z.of_nat k * A <= d_len dst ->
  exists σ', rep_k V k σ sr dst srcStart destStart A A = Some (σ', destStart + Z.of_nat k * A) /\
    wrote σ σ' dst destStart (destStart + Z.of_nat k * A)
          (fun p => win_get σ0 sr (srcStart + (p - destStart) mod A)).
Proof.
  intros HA Hdst Hsr Hsep Hs0 Hs1. induction k as [|k IH]; intros σ destStart Hfr Hd0 Hd1.
  - cbn [rep_k]. exists σ. replace (destStart + Z.of_nat 0 * A) with destStart by lia.
    split; [reflexivity|apply wrote_refl].
  - rewrite rep_k_S by nia.
    destruct (copy_sliced_spec V vzero σ dst destStart (destStart + A) sr srcStart (srcStart + A)) as (σ1 & Ec & W1).
    { eapply frame_in_buf; eassumption. } { eapply frame_in_buf; eassumption. } { exact Hsep. }
    { lia. } { nia. } { lia. } { lia. }
    rewrite Ec. replace (Z.min (destStart + A - destStart) (srcStart + A - srcStart)) with A in W1 by lia.
    destruct (IH σ1 (destStart + A)) as (σ' & Ek & W2); [eapply frame_ok_trans; [exact Hfr|apply W1]|lia|nia|].
    replace (destStart + A + Z.of_nat k * A) with (destStart + Z.of_nat (S k) * A) in Ek, W2 by lia.
    rewrite Ek. exists σ'. split; [reflexivity|].
    eapply wrote_trans; [|eapply wrote_ext; [|exact W1]|eapply wrote_ext; [|exact W2]]; [nia| |].
    + intros p Hp. cbv beta. rewrite (frame_sep_get V σ0 σ dst sr _ Hfr Hsep). f_equal.
      rewrite Z.mod_small by lia. lia.
    + intros p Hp. cbv beta. f_equal. f_equal.
      replace (p - destStart) with (p - (destStart + A) + 1 * A) by ring. symmetry. apply Z_mod_plus_full.
Qed.

(* the inner loop over the repeat counts, both forms (element broadcast when the strides are 1,
   block copies otherwise) *)
Definition rep_jg (σ0 : store) (sr : dense) (reps : list Z) (A srcStart destStart : Z) (p : Z) : option V :=
  win_get σ0 sr (srcStart + rep_src reps ((p - destStart) / A) 0 * A + (p - destStart) mod A).

Lemma rep_j_spec σ0 sr dst A : 0 < A -> in_buf σ0 dst -> in_buf σ0 sr -> sep dst sr ->
  forall reps σ srcStart destStart, Forall (fun r => 0 <= r) reps -> frame_ok σ0 σ dst ->
  0 <= srcStart -> srcStart + zlen reps * A <= d_len sr ->
  0 <= destStart -> destStart + sumz reps * A <= d_len dst ->
  exists σ', rep_j V reps σ sr dst srcStart destStart A A
             = Some (σ', srcStart + zlen reps * A, destStart + sumz reps * A) /\
    wrote σ σ' dst destStart (destStart + sumz reps * A) (rep_jg σ0 sr reps A srcStart destStart).
Proof.
  intros HA Hdst Hsr Hsep. induction reps as [|r reps IH]; intros σ srcStart destStart Hr Hfr Hs0 Hs1 Hd0 Hd1.
  - cbn [rep_j sumz]. change (zlen (@nil Z)) with 0. exists σ.
    replace (srcStart + 0 * A) with srcStart by lia. replace (destStart + 0 * A) with destStart by lia.
    split; [reflexivity|apply wrote_refl].
  - inversion Hr as [|? ? Hr0 Hr']; subst. rewrite zlen_cons in *. cbn [sumz] in *.
    pose proof (zlen_nonneg reps) as Hz. pose proof (sumz_nonneg reps Hr') as Hsum.
    assert (Hstep : exists σ1, frame_ok σ0 σ1 dst /\
              wrote σ σ1 dst destStart (destStart + r * A) (fun p => win_get σ0 sr (srcStart + (p - destStart) mod A)) /\
              rep_j V (r :: reps) σ sr dst srcStart destStart A A =
              rep_j V reps σ1 sr dst (srcStart + A) (destStart + r * A) A A).
    { cbn [rep_j]. destruct ((A =? 1) && (A =? 1)) eqn:E1.
      - assert (A = 1) by lia. subst A.
        replace ((d_len sr <? srcStart + 1) || (d_len dst <? destStart + r) || (r <? 0)) with false by lia.
        assert (Hsr' : in_buf σ sr) by (eapply frame_in_buf; eassumption).
        destruct (in_buf_win_get V σ sr srcStart Hsr') as [v Ev]; [lia|]. rewrite Ev.
        destruct (win_fill_range V vzero σ dst destStart r v) as (σ1 & Ef & W1); [eapply frame_in_buf; eassumption|lia|lia|lia|].
        rewrite Ef. exists σ1. split; [eapply frame_ok_trans; [exact Hfr|apply W1]|]. split; [|replace (r * 1) with r by lia; reflexivity].
        replace (r * 1) with r by lia. eapply wrote_ext; [|exact W1]. intros p Hp. cbv beta.
        rewrite Z.mod_1_r, Z.add_0_r, <- (frame_sep_get V σ0 σ dst sr _ Hfr Hsep). symmetry. exact Ev.
      - replace (d_len sr <? srcStart) with false by lia.
        destruct (rep_k_spec σ0 sr dst srcStart A HA Hdst Hsr Hsep Hs0 ltac:(nia) (Z.to_nat r) σ destStart Hfr Hd0) as (σ1 & Ek & W1);
          [rewrite Z2Nat.id by lia; nia|].
        rewrite Z2Nat.id in Ek, W1 by lia. rewrite Ek. exists σ1.
        split; [eapply frame_ok_trans; [exact Hfr|apply W1]|]. split; [exact W1|reflexivity]. }
    destruct Hstep as (σ1 & Hfr1 & W1 & ->).
    destruct (IH σ1 (srcStart + A) (destStart + r * A) Hr' Hfr1) as (σ' & Ej & W2); [lia|nia|nia|nia|].
    replace (srcStart + A + zlen reps * A) with (srcStart + (zlen reps + 1) * A) in Ej by ring.
    replace (destStart + r * A + sumz reps * A) with (destStart + (r + sumz reps) * A) in Ej, W2 by ring.
    rewrite Ej. exists σ'. split; [reflexivity|].
    eapply wrote_trans; [|eapply wrote_ext; [|exact W1]|eapply wrote_ext; [|exact W2]]; [nia| |].
    + intros p Hp. cbv beta. unfold rep_jg. cbn [rep_src].
      assert (Hq : 0 <= (p - destStart) / A < r).
      { split; [apply Z.div_pos; lia|apply Z.div_lt_upper_bound; nia]. }
      replace ((p - destStart) / A <? r) with true by lia. f_equal. lia.
    + intros p Hp. cbv beta. unfold rep_jg. cbn [rep_src].
      assert (Hd : (p - destStart) / A = (p - (destStart + r * A)) / A + r).
      { replace (p - destStart) with (p - (destStart + r * A) + r * A) by ring. apply Z.div_add. lia. }
      assert (Hm : (p - destStart) mod A = (p - (destStart + r * A)) mod A).
      { replace (p - destStart) with (p - (destStart + r * A) + r * A) by ring. apply Z_mod_plus_full. }
      assert (Hq : 0 <= (p - (destStart + r * A)) / A) by (apply Z.div_pos; lia).
      rewrite Hd, Hm. replace ((p - (destStart + r * A)) / A + r <? r) with false by lia.
      rewrite (rep_src_shift reps _ (0 + 1)). f_equal.
      replace ((p - (destStart + r * A)) / A + r - r) with ((p - (destStart + r * A)) / A) by lia. ring.
Qed.

(* the whole of fastCopyDenseRepeat: window position p of the result lies in block q = p / A;
   q = o * R + x with o the outer index and x the position along the repeated axis *)
Definition rep_g (σ0 : store) (sr : dense) (reps : list Z) (A : Z) (p : Z) : option V :=
  let q := p / A in
  win_get σ0 sr ((q / sumz reps * zlen reps + rep_src reps (q mod sumz reps) 0) * A + p mod A).

Lemma rep_i_spec σ0 sr dst A reps NO : 0 < A -> in_buf σ0 dst -> in_buf σ0 sr -> sep dst sr ->
  Forall (fun r => 0 <= r) reps ->
  NO * zlen reps * A <= d_len sr -> NO * sumz reps * A <= d_len dst ->
  forall n o σ, n = Z.to_nat (NO - o) -> 0 <= o <= NO -> frame_ok σ0 σ dst ->
  exists σ', rep_i V n reps σ sr dst (o * zlen reps * A) (o * sumz reps * A) A A = Some σ' /\
    wrote σ σ' dst (o * sumz reps * A) (NO * sumz reps * A) (rep_g σ0 sr reps A).
Proof.
  intros HA Hdst Hsr Hsep Hr Hls Hld. pose proof (zlen_nonneg reps) as Hz. pose proof (sumz_nonneg reps Hr) as Hsum.
  induction n as [|n IH]; intros o σ Hn Ho Hfr; cbn [rep_i].
  - assert (o = NO) by lia. subst o. exists σ. split; [reflexivity|apply wrote_refl].
  - destruct (rep_j_spec σ0 sr dst A HA Hdst Hsr Hsep reps σ (o * zlen reps * A) (o * sumz reps * A) Hr Hfr)
      as (σ1 & Ej & W1); [nia|nia|nia|nia|].
    rewrite Ej.
    replace (o * zlen reps * A + zlen reps * A) with ((o + 1) * zlen reps * A) by ring.
    replace (o * sumz reps * A + sumz reps * A) with ((o + 1) * sumz reps * A) in * by ring.
    destruct (IH (o + 1) σ1) as (σ' & Ei & W2); [lia|lia|eapply frame_ok_trans; [exact Hfr|apply W1]|].
    rewrite Ei. exists σ'. split; [reflexivity|].
    eapply wrote_trans; [|eapply wrote_ext; [|exact W1]|exact W2]; [nia|].
    intros p Hp. unfold rep_jg, rep_g. cbv zeta.
    assert (HR : 0 < sumz reps) by nia.
    assert (Hd : p / A = (p - o * sumz reps * A) / A + o * sumz reps).
    { replace p with (p - o * sumz reps * A + (o * sumz reps) * A) at 1 by ring. apply Z.div_add. lia. }
    assert (Hm : p mod A = (p - o * sumz reps * A) mod A).
    { replace p with (p - o * sumz reps * A + (o * sumz reps) * A) at 1 by ring. apply Z_mod_plus_full. }
    set (x := (p - o * sumz reps * A) / A) in *.
    assert (Hx : 0 <= x < sumz reps).
    { split; [apply Z.div_pos; lia|apply Z.div_lt_upper_bound; nia]. }
    rewrite Hd, Hm. replace (x + o * sumz reps) with (o * sumz reps + x) by ring.
    destruct (divmod_block (sumz reps) o x Hx) as [-> ->]. f_equal. ring.
Qed.

End Repeat.

Lemma In_upd {A} ax : forall (l : list A) v x, In x (upd l ax v) -> x = v \/ In x l.
Proof.
  induction ax as [|ax IH]; intros [|y l] v x H; cbn [upd] in H; try contradiction.
  - destruct H as [<-|H]; [left; reflexivity|right; right; exact H].
  - destruct H as [<-|H]; [right; left; reflexivity|]. destruct (IH l v x H) as [->|H']; [left; reflexivity|right; right; exact H'].
Qed.

Section RepeatThm.
Variable V : Type.
Variable vzero : V.

Notation store := (store V).
Notation win_get := (win_get V).
Notation frame_ok := (frame_ok V).
Notation in_buf := (in_buf V).
Notation cell := (cell V).
Notation wf_dense := (wf_dense V).
Notation bufs := (bufs V).
Notation tens := (tens V).
Notation get_t := (get_t V).
Notation wrote := (wrote V).
Notation ext_of := (ext_of V).
Notation fresh_result := (fresh_result V).

Definition repeat_post (σ σ' : store) (ret d : dense) (sh : list Z) (ax : nat) (reps : list Z) : Prop :=
  fresh_result σ σ' ret (upd sh ax (sumz reps)) /\
  forall c, inbox (upd sh ax (sumz reps)) c ->
    cell σ' ret c = cell σ d (upd c ax (rep_src reps (nth ax c 0) 0)).

Lemma contig_no_old σ d : wf_dense σ d -> requires_iterator d = false -> d_old d = None.
Proof.
  intros W Hr. unfold requires_iterator in Hr. pose proof (wf_big _ _ _ W).
  replace (d_len d =? 1) with false in Hr by lia.
  destruct (d_old d); [|reflexivity]. cbn [is_some] in Hr. rewrite orb_true_r in Hr. discriminate.
Qed.

(* the guard of finding F40 / GVectorAxes: when the operand or the result is vector-shaped the
   Go code forces both strides to 1, which is right only if the stride of the repeated axis IS 1 *)
Definition repeat_vec_guard (sh : list Z) (ax : nat) (R : Z) : Prop :=
  is_vector (upd sh ax R) || is_vector sh = true -> size (skipn (S ax) sh) = 1.

Theorem repeat_spec σ t axis repeats d :
  get_t σ t = Some d -> wf_dense σ d -> requires_iterator d = false ->
  let sh := shp (d_ap d) in
  let ax := Z.to_nat axis in
  let reps := bcast_reps repeats (nth ax sh 0) in
  0 <= axis < zlen sh ->
  zlen reps = nth ax sh 0 -> Forall (fun r => 0 <= r) reps ->
  repeat_vec_guard sh ax (sumz reps) ->
  exists σ' ret, m_repeat V vzero σ t axis repeats = Ok (σ', ret) /\ repeat_post σ σ' ret d sh ax reps.
Proof.
  intros Ht W Hr sh ax reps Hax Hlen Hnn Hg.
  destruct (wf_flag _ _ _ W Hr) as [Hstr Hdl]. fold sh in Hstr, Hdl.
  pose proof (wf_pos _ _ _ W) as Hp. fold sh in Hp.
  assert (Haxn : (ax < length sh)%nat) by (unfold ax, zlen in *; lia).
  set (R := sumz reps). set (E := nth ax sh 0) in *.
  set (A := size (skipn (S ax) sh)). set (NO := size (firstn ax sh)).
  pose proof (size_pos _ (pos_shape_skipn (S ax) sh Hp)) as HA. fold A in HA.
  pose proof (size_pos _ (pos_shape_firstn ax sh Hp)) as HO. fold NO in HO.
  pose proof (sumz_nonneg reps Hnn) as HR. fold R in HR.
  assert (Hszs : size sh = NO * E * A).
  { rewrite <- (upd_nth_same 0 ax sh) at 1. apply size_upd. exact Haxn. }
  set (newShape := upd sh ax R).
  assert (Hszn : size newShape = NO * R * A) by (apply size_upd; exact Haxn).
  unfold m_repeat. rewrite Ht. fold sh.
  rewrite (shape_repeat_spec sh axis repeats Hax). cbv zeta. fold ax. fold E. fold reps.
  replace (zlen reps =? E) with true by lia. fold R. fold newShape.
  replace (axis =? -1) with false by lia.
  assert (Hn0 : forallb (fun x => 0 <=? x) newShape = true).
  { apply forallb_forall. intros x Hx. apply In_upd in Hx. destruct Hx as [->|Hx]; [lia|].
    unfold pos_shape in Hp. rewrite Forall_forall in Hp. specialize (Hp x Hx). lia. }
  rewrite Hn0. cbn [negb]. rewrite andb_false_r.
  assert (Hne : newShape <> []).
  { intro Hn. assert (Hl : length newShape = length sh) by apply upd_len. rewrite Hn in Hl. cbn [length] in Hl. lia. }
  rewrite fresh_eq by exact Hne. cbv iota beta.
  set (σ1 := mkStore V (bufs σ ++ [repeat vzero (Z.to_nat (size newShape))]) (tens σ)).
  set (rr := mkDense (length (bufs σ)) 0 (size newShape) (mkAP newShape (calc_strides newShape) 0 true) None false).
  assert (Hsc : is_scalar sh = false) by (destruct sh; [cbn [length] in Haxn; lia|reflexivity]).
  rewrite Hsc. fold NO.
  assert (Hst1 : (if is_vector newShape || is_vector sh then Some 1 else zget (ostrides d) axis) = Some A).
  { destruct (is_vector newShape || is_vector sh) eqn:Ev.
    - f_equal. symmetry. apply Hg. exact Ev.
    - unfold ostrides. rewrite (contig_no_old σ d W Hr). fold sh. rewrite Hstr.
      rewrite zget_nth_error by lia. fold ax. apply calc_strides_nth. exact Haxn. }
  assert (Hst2 : (if is_vector newShape then Some 1 else zget (str (d_ap rr)) axis) = Some A).
  { destruct (is_vector newShape) eqn:Ev.
    - f_equal. symmetry. apply Hg. fold R. fold newShape. rewrite Ev. reflexivity.
    - cbn [rr d_ap str]. rewrite zget_nth_error by lia. fold ax.
      rewrite calc_strides_nth by (unfold newShape; rewrite upd_len; exact Haxn).
      unfold newShape. rewrite skipn_upd. reflexivity. }
  rewrite Hst1, Hst2. replace (axis <? 0) with false by lia.
  assert (He : ext_of σ σ1) by apply fresh_ext.
  pose proof (wf_buf_lt V σ d W) as Hb.
  assert (Hrr : in_buf σ1 rr) by (apply fresh_in_buf; nia).
  assert (Hd1 : in_buf σ1 d) by (eapply ext_of_in_buf; [exact He|exact Hb|apply (wf_win _ _ _ W)]).
  assert (Hsep : sep rr d) by (left; cbn [d_buf rr]; lia).
  destruct (rep_i_spec V vzero σ1 d rr A reps NO ltac:(lia) Hrr Hd1 Hsep Hnn) with (n := Z.to_nat (NO - 0)) (o := 0) (σ := σ1)
    as (σ2 & Ei & Wr).
  { rewrite Hdl, Hszs, Hlen. lia. }
  { cbn [d_len rr]. fold R. lia. }
  { reflexivity. } { lia. } { apply frame_ok_refl. }
  change (0 * zlen reps * A) with 0 in Ei. change (0 * sumz reps * A) with 0 in Ei, Wr.
  replace (Z.to_nat (NO - 0)) with (Z.to_nat NO) in Ei by lia. fold ax. fold NO. rewrite Ei.
  exists σ2, rr. split; [reflexivity|]. split.
  - apply (fresh_result_intro V vzero σ σ2 (size newShape) newShape 0); [reflexivity|nia|apply Wr].
  - fold R. fold newShape. intros c Hc.
    destruct (axis_index ax sh c R Haxn Hp Hc) as (b & i & Hb' & Hi & Hx & Hlc & Hrk).
    set (x := nth ax c 0) in *.
    pose proof (Hrk R x) as H1. unfold x in H1. rewrite upd_nth_same in H1. fold newShape in H1. fold x in H1.
    assert (He' : 0 <= rep_src reps x 0 < zlen reps) by (apply rep_src_bound; [exact Hnn|exact Hx]).
    set (e := rep_src reps x 0) in *.
    pose proof (Hrk E e) as H2. unfold E in H2 at 1. rewrite upd_nth_same in H2. fold A in H1, H2, Hi. fold NO in Hb'.
    unfold OpsProofs.cell. cbn [rr d_ap str]. rewrite <- rk_dot, H1.
    destruct Wr as (_ & Wv & _). fold R in Wv.
    assert (Hq : b * R + x + 1 <= NO * R) by nia.
    assert (Hq2 : (b * R + x + 1) * A <= NO * R * A) by (apply Z.mul_le_mono_nonneg_r; lia).
    rewrite Wv by nia. unfold rep_g. cbv zeta. fold R.
    destruct (divmod_block A (b * R + x) i Hi) as [-> ->].
    destruct (divmod_block R b x Hx) as [-> ->]. fold e.
    rewrite (wf_contig_dot V σ d _ W Hr). fold sh. rewrite H2, Hlen.
    apply ext_of_win; assumption.
Qed.

(* the flattening form (axis = AllAxes = -1): the row-major sequence of logical elements *)
Theorem repeat_flat_spec σ t repeats d :
  get_t σ t = Some d -> wf_dense σ d -> requires_iterator d = false ->
  let sh := shp (d_ap d) in
  let reps := bcast_reps repeats (size sh) in
  zlen reps = size sh -> Forall (fun r => 0 <= r) reps ->
  exists σ' ret, m_repeat V vzero σ t (-1) repeats = Ok (σ', ret) /\
    fresh_result σ σ' ret [sumz reps] /\
    forall x, 0 <= x < sumz reps -> cell σ' ret [x] = cell σ d (unrank sh (rep_src reps x 0)).
Proof.
  intros Ht W Hr sh reps Hlen Hnn.
  destruct (wf_flag _ _ _ W Hr) as [Hstr Hdl]. fold sh in Hstr, Hdl.
  pose proof (wf_pos _ _ _ W) as Hp. fold sh in Hp. pose proof (wf_big _ _ _ W) as Hbig.
  pose proof (sumz_nonneg reps Hnn) as HR. set (R := sumz reps) in *.
  unfold m_repeat. rewrite Ht. fold sh. rewrite shape_repeat_flat. cbv zeta. fold reps.
  replace (zlen reps =? size sh) with true by lia. fold R.
  replace (-1 =? -1) with true by lia.
  assert (Hn0 : forallb (fun x => 0 <=? x) [R] = true) by (cbn [forallb]; lia).
  rewrite Hn0. cbn [negb]. rewrite andb_false_r.
  rewrite fresh_eq by discriminate. cbv iota beta.
  set (σ1 := mkStore V (bufs σ ++ [repeat vzero (Z.to_nat (size [R]))]) (tens σ)).
  set (rr := mkDense (length (bufs σ)) 0 (size [R]) (mkAP [R] (calc_strides [R]) 0 true) None false).
  assert (Hsc : is_scalar sh = false) by (destruct sh; [cbn [size] in Hdl; lia|reflexivity]).
  rewrite Hsc. change (is_vector [R]) with true. cbn [orb]. change (0 <? 0) with false. cbv iota.
  change (Z.to_nat 0) with 0%nat. cbn [firstn size].
  assert (HszR : size [R] = R) by (cbn [size]; lia).
  assert (He : ext_of σ σ1) by apply fresh_ext.
  pose proof (wf_buf_lt V σ d W) as Hb.
  assert (Hrr : in_buf σ1 rr) by (apply fresh_in_buf; lia).
  assert (Hd1 : in_buf σ1 d) by (eapply ext_of_in_buf; [exact He|exact Hb|apply (wf_win _ _ _ W)]).
  assert (Hsep : sep rr d) by (left; cbn [d_buf rr]; lia).
  destruct (rep_i_spec V vzero σ1 d rr 1 reps 1 ltac:(lia) Hrr Hd1 Hsep Hnn) with (n := Z.to_nat (1 - 0)) (o := 0) (σ := σ1)
    as (σ2 & Ei & Wr).
  { rewrite Hdl, Hlen. lia. }
  { cbn [d_len rr]. fold R. lia. }
  { reflexivity. } { lia. } { apply frame_ok_refl. }
  change (0 * zlen reps * 1) with 0 in Ei. change (0 * sumz reps * 1) with 0 in Ei, Wr.
  change (Z.to_nat (1 - 0)) with (Z.to_nat 1) in Ei. rewrite Ei.
  exists σ2, rr. split; [reflexivity|]. split.
  - apply (fresh_result_intro V vzero σ σ2 (size [R]) [R] 0); [reflexivity|lia|apply Wr].
  - intros x Hx. unfold OpsProofs.cell at 1. cbn [rr d_ap str].
    assert (Hp' : dot (calc_strides [R]) [x] = x) by (cbn [calc_strides size dot]; lia).
    rewrite Hp'.
    destruct Wr as (_ & Wv & _). fold R in Wv.
    rewrite Wv by lia. unfold rep_g. cbv zeta. fold R.
    rewrite Z.div_1_r, Z.mod_1_r, Z.div_small, Z.mod_small by lia.
    assert (He' : 0 <= rep_src reps x 0 < zlen reps) by (apply rep_src_bound; [exact Hnn|exact Hx]).
    destruct (wf_contig_cover V σ d (rep_src reps x 0) W Hr) as [_ Hd]; [lia|]. fold sh in Hd.
    unfold OpsProofs.cell. rewrite Hd.
    replace ((0 * zlen reps + rep_src reps x 0) * 1 + 0) with (rep_src reps x 0) by lia.
    apply ext_of_win; assumption.
Qed.

End RepeatThm.

(* ====================================================================================== *)
(*  S3. Concat: slicing the result along the axis                                         *)
(* ====================================================================================== *)
Lemma ext_axis_1 i start en : start < en -> ext_axis i start en 1 = en - start.
Proof.
  intro H. unfold ext_axis. replace (0 <? 1) with true by lia. cbv zeta.
  rewrite Z.rem_1_r, Z.quot_1_r. replace (0 <? 0) with false by lia. cbn [andb].
  replace (en - start <=? 0) with false by lia. reflexivity.
Qed.

Lemma apS_loop_nil_slices : forall shape strides i isvec outer nds nde order,
  length strides = length shape -> pos_shape shape ->
  apS_loop i shape strides [] isvec outer nds nde order = Ok (shape, strides, nds, nde, order).
Proof.
  induction shape as [|sz shape IH]; intros [|stride strides] i isvec outer nds nde order Hl Hp; try discriminate.
  - reflexivity.
  - inversion Hp as [|? ? Hsz Hp']; subst. rewrite apS_loop_step. cbn [hd_sl tl slice_details is_some andb orb].
    replace (1 <? 1) with false by lia. rewrite IH by (cbn [length] in Hl; try lia; exact Hp').
    rewrite ext_axis_1 by lia. unfold eff_step. replace (0 <? 1) with true by lia.
    repeat f_equal; lia.
Qed.

Lemma apS_loop_axis : forall ax shape strides i isvec outer nds nde order start en,
  length strides = length shape -> pos_shape shape -> (ax < length shape)%nat ->
  0 <= start < en -> en <= nth ax shape 0 ->
  apS_loop i shape strides (repeat None ax ++ [Some (start, en, 1)]) isvec outer nds nde order =
  Ok (upd shape ax (en - start), strides,
      nds + start * nth ax strides 0, nde - (nth ax shape 0 - en) * nth ax strides 0,
      if negb isvec && negb (Nat.eqb (i + ax) outer) then Z.lor order NC else order).
Proof.
  induction ax as [|ax IH]; intros [|sz shape] [|stride strides] i isvec outer nds nde order start en Hl Hp Hax Hse Hen;
    cbn [length] in *; try lia; inversion Hp as [|? ? Hsz Hp']; subst; rewrite apS_loop_step.
  - cbn [repeat app hd_sl tl nth upd] in *. unfold slice_details, check_slice.
    replace (negb (en <? start) && negb (start <? 0) && negb ((1 =? 0) && (1 <? en - start)) && negb (sz <=? start) && negb (1 <? 0)) with true by lia.
    replace (Z.min en sz) with en by lia.
    rewrite apS_loop_nil_slices by (try lia; exact Hp').
    rewrite ext_axis_1 by lia. unfold eff_step. replace (0 <? 1) with true by lia.
    replace (1 <? 1) with false by lia. rewrite Nat.add_0_r. cbn [is_some andb]. rewrite orb_false_r.
    repeat f_equal; lia.
  - cbn [repeat app hd_sl tl nth upd slice_details is_some andb orb] in *.
    replace (1 <? 1) with false by lia.
    rewrite IH by (try lia; assumption).
    rewrite ext_axis_1 by lia. unfold eff_step. replace (0 <? 1) with true by lia.
    replace (S i + ax)%nat with (i + S ax)%nat by lia.
    repeat f_equal; lia.
Qed.

Lemma drop_axes_axis : forall ax nsh nst s, length nst = length nsh -> nth ax nsh 0 <> 1 ->
  drop_axes nsh nst (repeat None ax ++ [s]) = (nsh, nst).
Proof.
  assert (Hnil : forall nsh nst, length nst = length nsh -> drop_axes nsh nst [] = (nsh, nst)).
  { induction nsh as [|d nsh IH]; intros [|st nst] Hl; try discriminate; [reflexivity|].
    cbn [drop_axes tl]. rewrite IH by (cbn [length] in Hl; lia). cbn [is_some]. rewrite andb_false_r. reflexivity. }
  induction ax as [|ax IH]; intros [|d nsh] [|st nst] s Hl Hn; try discriminate; try reflexivity.
  - cbn [repeat app drop_axes tl nth] in *. rewrite Hnil by (cbn [length] in Hl; lia).
    replace (d =? 1) with false by lia. reflexivity.
  - cbn [repeat app drop_axes tl nth] in *. rewrite IH by (cbn [length] in Hl; try lia; exact Hn).
    cbn [is_some]. rewrite andb_false_r. reflexivity.
Qed.

Lemma is_vector_NC_false sh ax : (ax < length sh)%nat ->
  is_nc (if negb (is_vector sh) && negb (Nat.eqb (0 + ax) 0) then Z.lor 0 NC else 0) = false ->
  is_vector sh = true \/ ax = 0%nat.
Proof.
  intros Hax H. destruct (is_vector sh); [left; reflexivity|]. destruct ax; [right; reflexivity|].
  cbn in H. discriminate.
Qed.

(* AP.S on the fresh result: the slab [start, en) along the axis, no axis dropped (extent <> 1) *)
Lemma ap_S_slab sh ax start en :
  pos_shape sh -> (ax < length sh)%nat -> 0 <= start < en -> en <= nth ax sh 0 -> en - start <> 1 ->
  let A := size (skipn (S ax) sh) in
  ap_S (mkAP sh (calc_strides sh) 0 true) (size sh) (repeat None ax ++ [Some (start, en, 1)]) =
  Ok (mkAP (upd sh ax (en - start)) (calc_strides sh)
           (if negb (is_vector sh) && negb (Nat.eqb (0 + ax) 0) then Z.lor 0 NC else 0) true,
      start * A, size sh - (nth ax sh 0 - en) * A).
Proof.
  intros Hp Hax Hse Hen Hne A. unfold ap_S. cbn [shp str ord].
  rewrite app_length, repeat_length. cbn [length].
  replace (length sh <? ax + 1)%nat with false by (symmetry; apply Nat.ltb_ge; lia).
  unfold ap_is_vector. cbn [shp]. change (is_cm 0) with false. cbn [negb orb].
  rewrite apS_loop_axis by (try apply calc_strides_length; try assumption).
  rewrite (nth_error_nth _ _ 0 (calc_strides_nth ax sh Hax)). fold A. cbn [Z.add].
  assert (Hsz : size sh = size (firstn ax sh) * nth ax sh 0 * A).
  { rewrite <- (upd_nth_same 0 ax sh) at 1. apply size_upd. exact Hax. }
  pose proof (size_pos _ (pos_shape_firstn ax sh Hp)) as HO.
  pose proof (size_pos _ (pos_shape_skipn (S ax) sh Hp)) as HA. fold A in HA.
  assert (Hne1 : size sh - (nth ax sh 0 - en) * A - (0 + start * A) <> 1).
  { rewrite Hsz. intro Hq.
    assert (Hq' : (size (firstn ax sh) - 1) * nth ax sh 0 * A + (en - start) * A = 1) by lia.
    assert (0 <= (size (firstn ax sh) - 1) * nth ax sh 0 * A) by (apply Z.mul_nonneg_nonneg; [apply Z.mul_nonneg_nonneg|]; lia).
    assert (2 <= (en - start) * A) by nia. lia. }
  replace (size sh - (nth ax sh 0 - en) * A - (0 + start * A) =? 1) with false by lia.
  rewrite drop_axes_axis; [reflexivity|rewrite upd_len; apply calc_strides_length|].
  rewrite nth_upd_eq by exact Hax. exact Hne.
Qed.

(* ====================================================================================== *)
(*  S3. assignArray                                                                       *)
(* ====================================================================================== *)
(* BroadcastStrides on equal shapes: the source strides with 0 on the extent-one axes *)
Fixpoint zero_ones (sh st : list Z) : list Z :=
  match sh, st with
  | s :: sh', k :: st' => (if s =? 1 then 0 else k) :: zero_ones sh' st'
  | _, _ => []
  end.

Lemma bs_loop_same : forall sh st, length st = length sh -> bs_loop sh sh st = Some (zero_ones sh st).
Proof.
  induction sh as [|s sh IH]; intros [|k st] Hl; try discriminate; [reflexivity|].
  cbn [bs_loop zero_ones]. rewrite IH by (cbn [length] in Hl; lia).
  destruct (s =? 1); [reflexivity|]. replace (s =? s) with true by lia. reflexivity.
Qed.

Lemma zero_ones_length : forall sh st, length st = length sh -> length (zero_ones sh st) = length sh.
Proof.
  induction sh as [|s sh IH]; intros [|k st] Hl; try discriminate; [reflexivity|].
  cbn [zero_ones length]. rewrite IH by (cbn [length] in Hl; lia). reflexivity.
Qed.

Lemma dot_zero_ones : forall sh st c, inbox sh c -> dot (zero_ones sh st) c = dot st c.
Proof.
  induction sh as [|s sh IH]; intros [|k st] [|x c] Hc; try contradiction; try reflexivity.
  destruct Hc as [Hx Hc]. cbn [zero_ones dot]. rewrite IH by exact Hc.
  destruct (s =? 1) eqn:E; [|reflexivity]. assert (x = 0) by lia. subst x. lia.
Qed.

Lemma is_vector_rank sh : is_vector sh = true -> length sh = 1%nat \/ length sh = 2%nat.
Proof.
  unfold is_vector, is_colvec, is_rowvec. destruct sh as [|a [|b [|c r]]]; cbn [length Nat.eqb orb]; intro H; try discriminate; auto.
Qed.

Section Assign.
Variable V : Type.
Variable vzero : V.

Notation store := (store V).
Notation win_get := (win_get V).
Notation frame_ok := (frame_ok V).
Notation in_buf := (in_buf V).
Notation cell := (cell V).
Notation wf_dense := (wf_dense V).
Notation bufs := (bufs V).
Notation tens := (tens V).
Notation get_t := (get_t V).
Notation wrote := (wrote V).
Notation ext_of := (ext_of V).

(* a (possibly flag-"unsound") view: like OpsProofs.wf_dense, but a tensor that does not ask for an
   iterator only has to hold its logical elements in row-major order over its window — its
   strides need not be the default ones (slices of row/column vectors keep the parent's) *)
Record wfv (σ : store) (d : dense) : Prop := mk_wfv {
  wv_pos : pos_shape (shp (d_ap d));
  wv_len : length (str (d_ap d)) = length (shp (d_ap d));
  wv_nodup : NoDup (offsets (d_ap d));
  wv_range : forall o, In o (offsets (d_ap d)) -> 0 <= o < d_len d;
  wv_win : in_buf σ d;
  wv_rm : is_cm (ord (d_ap d)) = false;
  wv_flag : requires_iterator d = false ->
            (forall c, inbox (shp (d_ap d)) c -> dot (str (d_ap d)) c = rk (shp (d_ap d)) c) /\
            d_len d = size (shp (d_ap d))
}.

Lemma wf_dense_wfv σ d : wf_dense σ d -> wfv σ d.
Proof.
  intro W. constructor; try apply W.
  intro Hr. destruct (wf_flag _ _ _ W Hr) as [Hs Hl]. split; [|exact Hl].
  intros c _. rewrite Hs. symmetry. apply rk_dot.
Qed.

Lemma wfv_frame σ σ' D d : frame_ok σ σ' D -> wfv σ d -> wfv σ' d.
Proof. intros F W. constructor; try apply W. eapply frame_in_buf; [exact F|apply W]. Qed.

Lemma assign_array_unfold σ dest sr :
  is_scalar (shp (d_ap sr)) = false -> str (d_ap dest) <> [] -> str (d_ap sr) <> [] ->
  length (shp (d_ap dest)) = length (shp (d_ap sr)) ->
  assign_array V σ dest sr =
  match broadcast_strides (shp (d_ap dest)) (shp (d_ap sr)) (str (d_ap dest)) (str (d_ap sr)) with
  | Err => Err
  | Panic => Panic
  | Ok ns =>
    if negb (requires_iterator dest) && negb (requires_iterator sr)
       && has_same_order (ord (d_ap dest)) (ord (d_ap sr))
    then copy_raw V σ dest sr
    else
      match iter_all (d_ap dest), iter_all (mkAP (shp (d_ap sr)) ns (ord (d_ap sr)) true) with
      | Some di, Some si =>
        match copy_seq V σ dest sr di si with Some σ' => Ok σ' | None => Panic end
      | _, _ => Panic
      end
  end.
Proof.
  intros Hs Hd Hr Hl. unfold assign_array. rewrite Hs, Hl, Nat.ltb_irrefl.
  destruct (str (d_ap dest)) eqn:Ed; [congruence|]. destruct (str (d_ap sr)) eqn:Es; [congruence|]. reflexivity.
Qed.

(* the guard: a vector-shaped tensor of rank 2 (row or column vector) is handled through
   BroadcastStrides' one-stride special case, which is only harmless on the raw-copy path *)
Definition assign_vec_guard (dest sr : dense) : Prop :=
  is_vector (shp (d_ap sr)) = true -> length (shp (d_ap sr)) = 2%nat ->
  requires_iterator dest = false /\ requires_iterator sr = false.

Theorem assign_array_spec σ dest sr :
  wfv σ dest -> wfv σ sr -> sep dest sr ->
  shp (d_ap dest) = shp (d_ap sr) -> shp (d_ap sr) <> [] ->
  assign_vec_guard dest sr ->
  exists σ', assign_array V σ dest sr = Ok σ' /\ frame_ok σ σ' dest /\
    (forall c, inbox (shp (d_ap sr)) c -> cell σ' dest c = cell σ sr c) /\
    (forall i, ~ In i (offsets (d_ap dest)) -> win_get σ' dest i = win_get σ dest i).
Proof.
  intros Wd Ws Hsep Hsh Hne Hg. set (sh := shp (d_ap sr)) in *.
  pose proof (wv_pos _ _ Ws) as Hp. fold sh in Hp.
  pose proof (wv_len _ _ Ws) as Hls. fold sh in Hls.
  pose proof (wv_len _ _ Wd) as Hld. rewrite Hsh in Hld.
  assert (Hrank : (0 < length sh)%nat) by (destruct sh; [congruence|cbn [length]; lia]).
  rewrite assign_array_unfold.
  2:{ fold sh. destruct sh; [congruence|reflexivity]. }
  2:{ intro H. rewrite H in Hld. cbn [length] in Hld. lia. }
  2:{ intro H. rewrite H in Hls. cbn [length] in Hls. lia. }
  2:{ rewrite Hsh. reflexivity. }
  rewrite Hsh. fold sh.
  assert (Hbs : exists ns, broadcast_strides sh sh (str (d_ap dest)) (str (d_ap sr)) = Ok ns /\
            ((requires_iterator dest = false /\ requires_iterator sr = false) \/
             (length ns = length sh /\ forall c, inbox sh c -> dot ns c = dot (str (d_ap sr)) c))).
  { unfold broadcast_strides. destruct (is_vector sh) eqn:Ev; cbn [andb].
    - destruct (str (d_ap sr)) as [|s0 st] eqn:Es; [cbn [length] in Hls; lia|].
      exists [s0]. split; [reflexivity|]. destruct (is_vector_rank sh Ev) as [H1|H2].
      + right. rewrite H1 in Hls. destruct st; [|cbn [length] in Hls; lia]. split; [rewrite H1; reflexivity|reflexivity].
      + left. apply Hg; assumption.
    - rewrite Nat.sub_diag, Nat.ltb_irrefl. cbn [skipn repeat app]. rewrite bs_loop_same by exact Hls.
      exists (zero_ones sh (str (d_ap sr))). split; [reflexivity|]. right.
      split; [apply zero_ones_length; exact Hls|]. intros c Hc. apply dot_zero_ones. exact Hc. }
  destruct Hbs as (ns & -> & Hns).
  assert (Hso : has_same_order (ord (d_ap dest)) (ord (d_ap sr)) = true).
  { unfold has_same_order. rewrite (wv_rm _ _ Wd), (wv_rm _ _ Ws). reflexivity. }
  rewrite Hso, andb_true_r.
  destruct (requires_iterator dest) eqn:Erd; cbn [negb andb]; [|destruct (requires_iterator sr) eqn:Ers; cbn [negb andb]].
  3:{ (* the raw copy *)
    destruct (wv_flag _ _ Wd Erd) as [Hdd Hdl]. destruct (wv_flag _ _ Ws Ers) as [Hsd Hsl].
    rewrite Hsh in Hdd, Hdl. fold sh in Hdd, Hdl, Hsd, Hsl.
    pose proof (size_pos sh Hp) as Hsz.
    destruct (copy_raw_wrote V vzero σ dest sr (wv_win _ _ Wd) (wv_win _ _ Ws)) as (σ' & Ec & Fr & Wv & Wo); [lia|lia|].
    rewrite Ec. replace (Z.min (d_len dest) (d_len sr)) with (size sh) in Wv, Wo by lia.
    exists σ'. split; [reflexivity|]. split; [exact Fr|]. split.
    - intros c Hc. unfold OpsProofs.cell. rewrite Hdd, Hsd by exact Hc. apply Wv. apply rk_bound; assumption.
    - intros i Hi. apply Wo. intro Hr. apply Hi. unfold offsets. rewrite Hsh. fold sh.
      apply in_map_iff. exists (unrank sh i). split.
      + rewrite Hdd by (apply unrank_inbox; assumption). apply rk_unrank; assumption.
      + apply coords_In; [exact Hp|]. apply unrank_inbox; assumption. }
  all: (* the two flat iterators *)
    destruct Hns as [[H1 H2]|[Hnl Hnd]]; [congruence|];
    rewrite (iter_all_spec (d_ap dest)) by (try apply (wv_pos _ _ Wd); apply (wv_len _ _ Wd));
    rewrite (iter_all_spec (mkAP sh ns (ord (d_ap sr)) true)) by (cbn [shp str]; assumption);
    cbn [shp str];
    assert (Hoff : map (fun c => dot ns c) (coords sh) = offsets (d_ap sr))
      by (unfold offsets; fold sh; apply map_ext_in; intros c Hc; apply Hnd; apply coords_inbox; assumption);
    rewrite Hoff; fold (offsets (d_ap dest));
    destruct (copy_seq_spec V vzero (vfst V) σ dest sr (offsets (d_ap dest)) (offsets (d_ap sr))
                (wv_win _ _ Wd) (wv_win _ _ Ws) Hsep (wv_nodup _ _ Wd) (wv_range _ _ Wd) (wv_range _ _ Ws))
      as (σ' & Ec & Fr & Hv & Ho);
    rewrite Ec; exists σ'; (split; [reflexivity|]); (split; [exact Fr|]); split;
    [ intros c Hc; unfold OpsProofs.cell; apply Hv; apply zip2_offsets_In; [exact Hsh|rewrite Hsh; exact Hp|rewrite Hsh; exact Hc]
    | intros i Hi; apply Ho; intro Hin; apply Hi; apply in_map_iff in Hin; destruct Hin as ([x y] & Hq & Hin); cbn [fst] in Hq; subst x; apply zip2_fst_In in Hin; apply Hin ].
Qed.

End Assign.

(* ====================================================================================== *)
(*  S3. Concat: the slab views of the result and the loop                                 *)
(* ====================================================================================== *)
Lemma inbox_upd ax : forall sh c E E' y, inbox (upd sh ax E) c -> 0 <= y < E' ->
  inbox (upd sh ax E') (upd c ax y).
Proof.
  induction ax as [|ax IH]; intros [|s sh] [|x c] E E' y Hc Hy; cbn [upd inbox] in *; try contradiction; try exact I.
  - destruct Hc as [_ Hc]. split; assumption.
  - destruct Hc as [Hx Hc]. split; [exact Hx|]. eapply IH; eassumption.
Qed.

Lemma inbox_upd_id ax sh c E : inbox (upd sh ax E) c -> 0 <= nth ax c 0 < nth ax sh 0 -> inbox sh c.
Proof.
  intros Hc Hx. rewrite <- (upd_nth_same 0 ax sh), <- (upd_nth_same 0 ax c). eapply inbox_upd; eassumption.
Qed.

Lemma rk_inj sh c c' : pos_shape sh -> inbox sh c -> inbox sh c' -> rk sh c = rk sh c' -> c = c'.
Proof. intros Hp Hc Hc' E. rewrite <- (unrank_rk sh c Hp Hc), <- (unrank_rk sh c' Hp Hc'), E. reflexivity. Qed.

Lemma skipn_cons_nth {A} : forall n (l : list A) x r, skipn n l = x :: r -> nth_error l n = Some x /\ skipn (S n) l = r.
Proof.
  induction n as [|n IH]; intros [|y l] x r H; cbn [skipn] in H; try discriminate.
  - injection H as -> ->. split; reflexivity.
  - apply IH. exact H.
Qed.

Lemma firstn_S_nth {A} : forall n (l : list A) x, nth_error l n = Some x -> firstn (S n) l = firstn n l ++ [x].
Proof.
  induction n as [|n IH]; intros [|y l] x H; cbn [nth_error] in H; try discriminate.
  - injection H as ->. reflexivity.
  - cbn [firstn app]. f_equal. apply IH. exact H.
Qed.

Lemma sumz_map_split {A} (f : A -> Z) n l : sumz (map f l) = sumz (map f (firstn n l)) + sumz (map f (skipn n l)).
Proof. rewrite <- (firstn_skipn n l) at 1. rewrite map_app, sumz_app. reflexivity. Qed.

Lemma agree_off_eq ax s x : agree_off ax s x -> x = upd s ax (nth ax x 0).
Proof.
  intros [L A]. apply (list_ext_nth 0); [rewrite upd_len; exact L|]. intros i Hi.
  destruct (Nat.eq_dec i ax) as [->|Hn].
  - rewrite nth_upd_eq by lia. reflexivity.
  - rewrite nth_upd_neq by lia. apply A. exact Hn.
Qed.

Lemma is_scalar_equiv_nth sh ax : is_scalar_equiv sh = true -> (ax < length sh)%nat -> nth ax sh 0 = 1.
Proof.
  unfold is_scalar_equiv. intros H Hax. rewrite forallb_forall in H.
  specialize (H (nth ax sh 0) (nth_In _ _ Hax)). lia.
Qed.

(* the view of the fresh result [sh] (allocation b) that covers [start, start + ext) of the axis *)
Definition slab_view (b : nat) (sh : list Z) (ax : nat) (start ext : Z) : dense :=
  let A := size (skipn (S ax) sh) in
  mkDense b (start * A) (size sh - (nth ax sh 0 - (start + ext)) * A - start * A)
          (mkAP (upd sh ax ext) (calc_strides sh)
                (if negb (is_vector sh) && negb (Nat.eqb (0 + ax) 0) then Z.lor 0 NC else 0) true)
          None true.

Section Concat.
Variable V : Type.
Variable vzero : V.

Notation store := (store V).
Notation win_get := (win_get V).
Notation frame_ok := (frame_ok V).
Notation in_buf := (in_buf V).
Notation cell := (cell V).
Notation wf_dense := (wf_dense V).
Notation wfv := (wfv V).
Notation bufs := (bufs V).
Notation tens := (tens V).
Notation get_t := (get_t V).
Notation get_buf := (get_buf V).
Notation ext_of := (ext_of V).
Notation fresh_result := (fresh_result V).

Definition fresh_ret (b : nat) (sh : list Z) : dense :=
  mkDense b 0 (size sh) (mkAP sh (calc_strides sh) 0 true) None false.

Lemma slice_val_slab σ b sh ax start ext :
  pos_shape sh -> (ax < length sh)%nat -> 0 <= start -> 2 <= ext -> start + ext <= nth ax sh 0 ->
  in_buf σ (fresh_ret b sh) ->
  slice_val V σ (fresh_ret b sh) (repeat None ax ++ [Some (start, start + ext, 1)]) = Ok (slab_view b sh ax start ext).
Proof.
  intros Hp Hax Hs He Hen Hin. unfold slice_val, fresh_ret in *. cbn [d_ap d_len d_buf d_off].
  rewrite ap_S_slab by (try assumption; lia). cbv zeta.
  destruct Hin as [_ Hin]. cbn [d_off d_len d_buf] in Hin.
  set (A := size (skipn (S ax) sh)).
  pose proof (size_pos _ (pos_shape_skipn (S ax) sh Hp)) as HA. fold A in HA.
  assert (Hsz : size sh = size (firstn ax sh) * nth ax sh 0 * A).
  { rewrite <- (upd_nth_same 0 ax sh) at 1. apply size_upd. exact Hax. }
  pose proof (size_pos _ (pos_shape_firstn ax sh Hp)) as HO.
  assert (H1 : 0 <= (nth ax sh 0 - (start + ext)) * A) by nia.
  assert (H2 : 0 <= start * A) by nia.
  assert (H3 : (start + ext) * A <= nth ax sh 0 * A) by nia.
  assert (H4 : nth ax sh 0 * A <= size sh) by (rewrite Hsz; nia).
  assert (H5 : (nth ax sh 0 - (start + ext)) * A = nth ax sh 0 * A - (start + ext) * A) by ring.
  assert (H6 : (start + ext) * A = start * A + ext * A) by ring.
  assert (H7 : 0 <= ext * A) by nia.
  replace ((start * A <? 0) || (size sh - (nth ax sh 0 - (start + ext)) * A <? start * A) ||
           (zlen (get_buf σ b) - 0 <? size sh - (nth ax sh 0 - (start + ext)) * A)) with false by lia.
  unfold slab_view. fold A. replace (start + ext - start) with ext by lia. reflexivity.
Qed.

Lemma slab_len sh ax start ext : pos_shape sh -> (ax < length sh)%nat ->
  d_len (slab_view 0 sh ax start ext) =
  (size (firstn ax sh) - 1) * nth ax sh 0 * size (skipn (S ax) sh) + ext * size (skipn (S ax) sh).
Proof.
  intros Hp Hax. unfold slab_view. cbn [d_len].
  assert (Hsz : size sh = size (firstn ax sh) * nth ax sh 0 * size (skipn (S ax) sh)).
  { rewrite <- (upd_nth_same 0 ax sh) at 1. apply size_upd. exact Hax. }
  rewrite Hsz. ring.
Qed.

Lemma slab_wfv σ b sh ax start ext :
  pos_shape sh -> (ax < length sh)%nat -> 0 <= start -> 1 <= ext -> start + ext <= nth ax sh 0 ->
  in_buf σ (fresh_ret b sh) -> wfv σ (slab_view b sh ax start ext).
Proof.
  intros Hp Hax Hs He Hen Hin.
  set (A := size (skipn (S ax) sh)). set (NO := size (firstn ax sh)). set (tot := nth ax sh 0) in *.
  pose proof (size_pos _ (pos_shape_skipn (S ax) sh Hp)) as HA. fold A in HA.
  pose proof (size_pos _ (pos_shape_firstn ax sh Hp)) as HO. fold NO in HO.
  assert (Hsz : size sh = NO * tot * A).
  { rewrite <- (upd_nth_same 0 ax sh) at 1. apply size_upd. exact Hax. }
  assert (Hlen : size sh - (tot - (start + ext)) * A - start * A = (NO - 1) * tot * A + ext * A)
    by (rewrite Hsz; ring).
  assert (Hidx : forall c, inbox (upd sh ax ext) c ->
            exists bb i, 0 <= bb < NO /\ 0 <= i < A /\ 0 <= nth ax c 0 < ext /\
              rk sh c = (bb * tot + nth ax c 0) * A + i /\ rk (upd sh ax ext) c = (bb * ext + nth ax c 0) * A + i).
  { intros c Hc. destruct (axis_index ax sh c ext Hax Hp Hc) as (bb & i & Hb & Hi & Hx & _ & Hrk).
    exists bb, i. split; [exact Hb|]. split; [exact Hi|]. split; [exact Hx|]. split.
    - pose proof (Hrk tot (nth ax c 0)) as H. unfold tot in H at 1. rewrite !upd_nth_same in H. exact H.
    - pose proof (Hrk ext (nth ax c 0)) as H. rewrite upd_nth_same in H. exact H. }
  assert (Hsub : forall c, inbox (upd sh ax ext) c -> inbox sh c).
  { intros c Hc. destruct (Hidx c Hc) as (_ & _ & _ & _ & Hx & _). eapply inbox_upd_id; [exact Hc|fold tot; lia]. }
  assert (Hpe : pos_shape (upd sh ax ext)) by (apply pos_shape_upd; [exact Hp|lia]).
  constructor; cbn [slab_view d_ap shp str ord d_len d_buf d_off]; fold A; fold tot.
  - exact Hpe.
  - rewrite calc_strides_length, upd_len. reflexivity.
  - unfold offsets. cbn [shp str]. apply MemProofs.NoDup_map_on; [apply MemProofs.coords_NoDup; exact Hpe|].
    intros c c' Hc Hc' E. apply coords_inbox in Hc; [|exact Hpe]. apply coords_inbox in Hc'; [|exact Hpe].
    rewrite <- !rk_dot in E. apply (rk_inj sh); auto.
  - intros o Ho. unfold offsets in Ho. cbn [shp str] in Ho. apply in_map_iff in Ho. destruct Ho as (c & <- & Hc).
    apply coords_inbox in Hc; [|exact Hpe]. destruct (Hidx c Hc) as (bb & i & Hb & Hi & Hx & R1 & _).
    rewrite <- rk_dot, R1. rewrite Hlen.
    assert (bb * tot <= (NO - 1) * tot) by nia.
    assert (Hq1 : (bb * tot + nth ax c 0) * A <= ((NO - 1) * tot + (ext - 1)) * A) by (apply Z.mul_le_mono_nonneg_r; lia).
    assert (Hq2 : ((NO - 1) * tot + (ext - 1)) * A = (NO - 1) * tot * A + ext * A - A) by ring.
    assert (Hq3 : 0 <= (bb * tot + nth ax c 0) * A) by (apply Z.mul_nonneg_nonneg; nia).
    lia.
  - destruct Hin as [_ Hin]. cbn [fresh_ret d_off d_len d_buf] in Hin.
    assert (0 <= (tot - (start + ext)) * A) by (apply Z.mul_nonneg_nonneg; lia).
    assert (0 <= start * A) by (apply Z.mul_nonneg_nonneg; lia).
    split; unfold slab_view; cbn [d_off d_len d_buf]; fold A; fold tot; lia.
  - destruct (negb (is_vector sh) && negb (Nat.eqb (0 + ax) 0)); reflexivity.
  - intro Hr.
    assert (Hnn1 : 0 <= (NO - 1) * tot * A) by (apply Z.mul_nonneg_nonneg; [apply Z.mul_nonneg_nonneg|]; lia).
    assert (Hea : 1 <= ext * A) by nia.
    assert (Hcase : NO = 1 \/ tot = ext).
    { unfold requires_iterator in Hr. cbn [slab_view d_len d_ap ord d_old] in Hr. fold A in Hr. fold tot in Hr.
      rewrite Hlen in Hr.
      destruct ((NO - 1) * tot * A + ext * A =? 1) eqn:E1.
      - left. destruct (Z.eq_dec NO 1) as [H1|H1]; [exact H1|exfalso].
        assert (1 <= (NO - 1) * tot * A) by (assert (1 <= (NO - 1) * tot) by nia; nia). lia.
      - replace ((NO - 1) * tot * A + ext * A =? 0) with false in Hr by lia.
        cbn [is_some] in Hr. rewrite !orb_false_r in Hr.
        destruct (is_vector_NC_false sh ax Hax Hr) as [Hv|H0].
        + destruct (is_vector_rank sh Hv) as [L|L].
          * left. assert (ax = 0%nat) by lia. subst ax. reflexivity.
          * destruct sh as [|a [|b' [|? ?]]]; cbn [length] in L; try lia.
            destruct ax as [|[|ax]]; [left; reflexivity| |cbn [length] in Hax; lia].
            unfold is_vector, is_colvec, is_rowvec in Hv. cbn [length Nat.eqb] in Hv. cbn [nth] in tot.
            unfold NO. cbn [firstn size]. rewrite orb_false_r in Hv.
            destruct ((b' =? 1) && (1 <? a)) eqn:Ec; [right; unfold tot in *; lia|]. cbn [orb] in Hv. left. lia.
        + left. subst ax. reflexivity. }
    split.
    + intros c Hc. destruct (Hidx c Hc) as (bb & i & Hb & Hi & Hx & R1 & R2).
      rewrite <- rk_dot, R1, R2.
      assert (Hbt : bb * tot = bb * ext) by (destruct Hcase as [H1|H1]; [assert (bb = 0) by lia; subst bb; ring|rewrite H1; ring]).
      rewrite Hbt. reflexivity.
    + rewrite Hlen, size_upd by exact Hax. fold NO A.
      destruct Hcase as [H1|H1]; [rewrite H1; ring|rewrite H1; ring].
Qed.

(* the cells of a slab are the cells of the result, shifted along the axis *)
Lemma slab_cell σ b sh ax start ext c :
  pos_shape sh -> (ax < length sh)%nat -> 0 <= start -> 1 <= ext -> start + ext <= nth ax sh 0 ->
  in_buf σ (fresh_ret b sh) ->
  inbox sh c -> start <= nth ax c 0 < start + ext ->
  inbox (upd sh ax ext) (upd c ax (nth ax c 0 - start)) /\
  cell σ (fresh_ret b sh) c = cell σ (slab_view b sh ax start ext) (upd c ax (nth ax c 0 - start)).
Proof.
  intros Hp Hax Hs He Hen Hin Hc Hx.
  assert (Hc1 : inbox (upd sh ax ext) (upd c ax (nth ax c 0 - start))).
  { apply (inbox_upd ax sh c (nth ax sh 0)); [rewrite upd_nth_same; exact Hc|lia]. }
  split; [exact Hc1|].
  pose proof (slab_wfv σ b sh ax start ext Hp Hax Hs He Hen Hin) as Wf.
  set (A := size (skipn (S ax) sh)).
  assert (HA : nth ax (calc_strides sh) 0 = A) by (apply nth_error_nth; apply calc_strides_nth; exact Hax).
  assert (Hd : dot (calc_strides sh) (upd c ax (nth ax c 0 - start)) = dot (calc_strides sh) c - start * A).
  { rewrite upd_dot; [rewrite HA; ring| |].
    - rewrite (inbox_length _ _ Hc). exact Hax.
    - rewrite calc_strides_length. symmetry. apply (inbox_length _ _ Hc). }
  pose proof (rk_bound sh c Hp Hc) as Hb. rewrite rk_dot in Hb.
  assert (Hr : 0 <= dot (calc_strides sh) c - start * A < d_len (slab_view b sh ax start ext)).
  { rewrite <- Hd. apply (wv_range V σ _ Wf). unfold offsets. cbn [slab_view d_ap shp str]. apply in_map.
    apply coords_In; [apply pos_shape_upd; [exact Hp|lia]|exact Hc1]. }
  unfold OpsProofs.cell. cbn [fresh_ret slab_view d_ap str]. rewrite Hd.
  rewrite !win_get_peek by (try exact Hr; cbn [d_len]; exact Hb).
  unfold fresh_ret, slab_view. cbn [d_buf d_off]. fold A. f_equal; lia.
Qed.

End Concat.

Lemma inbox_nth : forall s c n, inbox s c -> (n < length s)%nat -> 0 <= nth n c 0 < nth n s 0.
Proof.
  induction s as [|d s IH]; intros [|x c] n Hc Hn; cbn [length] in Hn; try contradiction; try lia.
  destruct Hc as [Hx Hc]. destruct n as [|n]; cbn [nth]; [exact Hx|]. apply IH; [exact Hc|lia].
Qed.

Lemma Forall_firstn_ {A} (P : A -> Prop) : forall n l, Forall P l -> Forall P (firstn n l).
Proof. induction n as [|n IH]; intros [|x l] H; cbn [firstn]; try constructor; inversion H; subst; auto. Qed.

Lemma Forall_skipn_ {A} (P : A -> Prop) : forall n l, Forall P l -> Forall P (skipn n l).
Proof. induction n as [|n IH]; intros [|x l] H; cbn [skipn]; try assumption; inversion H; subst; auto. Qed.

Lemma sumz_map_nonneg {A} (f : A -> Z) l : Forall (fun d => 0 <= f d) l -> 0 <= sumz (map f l).
Proof. induction 1; cbn [map sumz]; lia. Qed.

Section ConcatLoop.
Variable V : Type.
Variable vzero : V.

Notation store := (store V).
Notation win_get := (win_get V).
Notation frame_ok := (frame_ok V).
Notation in_buf := (in_buf V).
Notation cell := (cell V).
Notation wf_dense := (wf_dense V).
Notation wfv := (wfv V).
Notation bufs := (bufs V).
Notation tens := (tens V).
Notation get_t := (get_t V).
Notation get_buf := (get_buf V).
Notation ext_of := (ext_of V).
Notation fresh_result := (fresh_result V).

Definition ext_d (ax : nat) (d : dense) : Z := nth ax (shp (d_ap d)) 0.

(* NumPy's concatenate on logical contents: position x along the axis belongs to the first
   operand whose extent exceeds what is left of x *)
Fixpoint concat_src (σ : store) (all : list dense) (ax : nat) (c : list Z) (x : Z) : option V :=
  match all with
  | [] => None
  | d :: r => if x <? ext_d ax d then cell σ d (upd c ax x) else concat_src σ r ax c (x - ext_d ax d)
  end.

Lemma concat_src_nth σ ax c : forall all n T x, nth_error all n = Some T ->
  Forall (fun d => 0 <= ext_d ax d) all ->
  sumz (map (ext_d ax) (firstn n all)) <= x < sumz (map (ext_d ax) (firstn n all)) + ext_d ax T ->
  concat_src σ all ax c x = cell σ T (upd c ax (x - sumz (map (ext_d ax) (firstn n all)))).
Proof.
  induction all as [|d r IH]; intros [|n] T x Hn Hf Hx; cbn [nth_error] in Hn; try discriminate.
  - injection Hn as ->. cbn [firstn map sumz concat_src] in *. replace (x <? ext_d ax T) with true by lia.
    rewrite Z.sub_0_r. reflexivity.
  - inversion Hf as [|? ? Hd Hf']; subst. cbn [firstn map sumz concat_src] in *.
    pose proof (sumz_map_nonneg (ext_d ax) _ (Forall_firstn_ _ n r Hf')) as Hnn.
    replace (x <? ext_d ax d) with false by lia.
    rewrite (IH n T (x - ext_d ax d) Hn Hf') by lia. f_equal. f_equal. lia.
Qed.

Lemma frame_ok_sub σ σ' v ret : frame_ok σ σ' v ->
  d_buf v = d_buf ret -> d_off ret <= d_off v -> d_off v + d_len v <= d_off ret + d_len ret ->
  frame_ok σ σ' ret.
Proof.
  intros (Ht & Hl & Hn & Ho & Hs & Hw) Hb H1 H2.
  split; [exact Ht|]. split; [exact Hl|]. split; [exact Hn|]. split; [intros b' Hb'; apply Ho; congruence|].
  split.
  - intros E i HE. apply Hs. unfold sep in *. rewrite Hb. destruct HE as [H|[H|H]]; [left; exact H|right; left; lia|right; right; lia].
  - intros p Hp. rewrite <- Hb. apply Hw. lia.
Qed.

Lemma slab_untouched σc σ2 b sh ax start ext c :
  pos_shape sh -> (ax < length sh)%nat -> 0 <= start -> 1 <= ext -> start + ext <= nth ax sh 0 ->
  in_buf σc (fresh_ret b sh) ->
  frame_ok σc σ2 (slab_view b sh ax start ext) ->
  (forall i, ~ In i (offsets (d_ap (slab_view b sh ax start ext))) ->
             win_get σ2 (slab_view b sh ax start ext) i = win_get σc (slab_view b sh ax start ext) i) ->
  inbox sh c -> ~ (start <= nth ax c 0 < start + ext) ->
  cell σ2 (fresh_ret b sh) c = cell σc (fresh_ret b sh) c.
Proof.
  intros Hp Hax Hs He Hen Hin Hfr Hoth Hc Hx.
  set (v := slab_view b sh ax start ext) in *. set (A := size (skipn (S ax) sh)).
  assert (HA : nth ax (calc_strides sh) 0 = A) by (apply nth_error_nth; apply calc_strides_nth; exact Hax).
  pose proof (rk_bound sh c Hp Hc) as Hb. rewrite rk_dot in Hb. set (p := dot (calc_strides sh) c) in *.
  unfold OpsProofs.cell. cbn [fresh_ret d_ap str]. fold p.
  rewrite !win_get_peek by (cbn [d_len]; exact Hb). cbn [d_buf d_off].
  destruct (Z_le_dec (start * A) p) as [H1|H1]; [destruct (Z_lt_dec p (start * A + d_len v)) as [H2|H2]|].
  - (* inside the slab's window: not one of its cells *)
    assert (Hni : ~ In (p - start * A) (offsets (d_ap v))).
    { intro Hi. unfold offsets, v, slab_view in Hi. cbn [d_ap shp str] in Hi. apply in_map_iff in Hi.
      destruct Hi as (c2 & Hd & Hc2). apply coords_inbox in Hc2; [|apply pos_shape_upd; [exact Hp|lia]].
      pose proof (inbox_nth _ _ ax Hc2 ltac:(rewrite upd_len; exact Hax)) as Hx2. rewrite nth_upd_eq in Hx2 by exact Hax.
      assert (Hc3 : inbox sh (upd c2 ax (nth ax c2 0 + start))).
      { rewrite <- (upd_nth_same 0 ax sh) at 1. eapply inbox_upd; [exact Hc2|lia]. }
      assert (Hd3 : dot (calc_strides sh) (upd c2 ax (nth ax c2 0 + start)) = p).
      { rewrite upd_dot; [rewrite HA, Hd; ring| |].
        - rewrite (inbox_length _ _ Hc2), upd_len. exact Hax.
        - rewrite calc_strides_length, (inbox_length _ _ Hc2), upd_len. reflexivity. }
      assert (Heq : c = upd c2 ax (nth ax c2 0 + start)).
      { apply (rk_inj sh); [exact Hp|exact Hc|exact Hc3|]. rewrite !rk_dot. fold p. symmetry. exact Hd3. }
      apply Hx. rewrite Heq. rewrite nth_upd_eq by (rewrite (inbox_length _ _ Hc2), upd_len; exact Hax). lia. }
    pose proof (Hoth _ Hni) as Hq. rewrite !win_get_peek in Hq by lia.
    unfold v, slab_view in Hq. cbn [d_buf d_off] in Hq. fold A in Hq. replace (start * A + (p - start * A)) with p in Hq by ring.
    exact Hq.
  - destruct Hfr as (_ & _ & _ & _ & _ & Hw). specialize (Hw p). unfold v in *. unfold slab_view in *.
    cbn [d_buf d_off d_len] in *. subst A. apply Hw. lia.
  - destruct Hfr as (_ & _ & _ & _ & _ & Hw). specialize (Hw p). unfold v in *. unfold slab_view in *.
    cbn [d_buf d_off d_len] in *. subst A. apply Hw. lia.
Qed.

Lemma slab_vec_contig b sh ax start ext :
  pos_shape sh -> (ax < length sh)%nat -> 0 <= start -> 2 <= ext -> start + ext <= nth ax sh 0 ->
  is_vector (upd sh ax ext) = true -> length sh = 2%nat ->
  requires_iterator (slab_view b sh ax start ext) = false.
Proof.
  intros Hp Hax Hs He Hen Hv Hl.
  pose proof (slab_len sh ax start ext Hp Hax) as Hlen.
  pose proof (size_pos _ (pos_shape_skipn (S ax) sh Hp)) as HA.
  pose proof (size_pos _ (pos_shape_firstn ax sh Hp)) as HO.
  assert (H2 : 2 <= d_len (slab_view b sh ax start ext)).
  { change (d_len (slab_view b sh ax start ext)) with (d_len (slab_view 0 sh ax start ext)). rewrite Hlen.
    assert (0 <= (size (firstn ax sh) - 1) * nth ax sh 0 * size (skipn (S ax) sh))
      by (apply Z.mul_nonneg_nonneg; [apply Z.mul_nonneg_nonneg|]; lia). nia. }
  unfold requires_iterator. replace (d_len (slab_view b sh ax start ext) =? 1) with false by lia.
  replace (d_len (slab_view b sh ax start ext) =? 0) with false by lia.
  cbn [slab_view d_ap ord d_old is_some]. rewrite !orb_false_r.
  assert (Hvs : is_vector sh = true).
  { destruct sh as [|a [|b' [|? ?]]]; cbn [length] in Hl; try lia.
    unfold is_vector, is_colvec, is_rowvec in *. cbn [length Nat.eqb] in *. rewrite orb_false_r in *.
    destruct ax as [|[|ax]]; cbn [upd nth length] in *; lia. }
  rewrite Hvs. reflexivity.
Qed.

Lemma slab_reshape_id b sh start ext v0 r :
  shp (d_ap (slab_view b sh 0 start ext)) = v0 :: r ->
  is_vector (shp (d_ap (slab_view b sh 0 start ext))) = true -> length sh = 2%nat -> 2 <= ext ->
  reshape_val (slab_view b sh 0 start ext) [v0; 1] = slab_view b sh 0 start ext.
Proof.
  intros Hs Hv Hl He. destruct sh as [|a [|b' [|? ?]]]; cbn [length] in Hl; try lia.
  cbn [slab_view d_ap shp upd] in Hs, Hv. injection Hs as <- <-.
  unfold is_vector, is_colvec, is_rowvec in Hv. cbn [length Nat.eqb] in Hv. rewrite orb_false_r in Hv.
  assert (b' = 1) by lia. subst b'.
  unfold reshape_val, slab_view. cbn [d_buf d_off d_len d_ap d_old d_view ord upd Nat.add Nat.eqb negb andb].
  rewrite andb_false_r. unfold default_strides. change (is_cm 0) with false. cbv iota. reflexivity.
Qed.

Lemma concat_loop_cons σ ret axis ti rest start T ext v :
  get_t σ ti = Some T -> zget (shp (d_ap T)) axis = Some ext ->
  slice_val V σ ret (repeat None (Z.to_nat axis) ++ [Some (start, start + ext, 1)]) = Ok v ->
  shp (d_ap v) = shp (d_ap T) -> length (shp (d_ap ret)) = length (shp (d_ap T)) -> 2 <= ext -> 0 <= axis ->
  (axis = 0 -> is_vector (shp (d_ap v)) = true -> zlen (shp (d_ap T)) = 2 ->
   forall v0 r, shp (d_ap v) = v0 :: r -> reshape_val v [v0; 1] = v) ->
  concat_loop V σ ret axis (ti :: rest) start =
  match assign_array V σ v T with
  | Ok σ2 => concat_loop V σ2 ret axis rest (start + ext)
  | Err => Err
  | Panic => Panic
  end.
Proof.
  intros Ht Hz Hsl Hsh Hlen He Hax Hre. cbn [concat_loop]. rewrite Ht, Hz. cbv zeta. rewrite Hsl.
  pose proof (zget_range _ _ _ Hz) as Hzr.
  assert (Hnth : nth (Z.to_nat axis) (shp (d_ap T)) 0 = ext).
  { rewrite (zget_nth 0) in Hz by exact Hzr. congruence. }
  assert (H2 : is_rowvec (shp (d_ap T)) && (axis =? 0) = false).
  { destruct (axis =? 0) eqn:E0; [|apply andb_false_r]. rewrite andb_true_r.
    assert (axis = 0) by lia. subst axis. unfold is_rowvec.
    destruct (shp (d_ap T)) as [|a [|b' [|? ?]]]; try reflexivity. cbn [nth] in Hnth. change (Z.to_nat 0) with 0%nat in Hnth. cbn [nth] in Hnth. lia. }
  assert (H3 : is_scalar_equiv (shp (d_ap v)) && is_scalar_equiv (shp (d_ap T)) = false).
  { destruct (is_scalar_equiv (shp (d_ap T))) eqn:E3; [|apply andb_false_r].
    pose proof (is_scalar_equiv_nth _ (Z.to_nat axis) E3) as Hq. unfold zlen in Hzr. rewrite Hnth in Hq. lia. }
  assert (H4 : zlen (shp (d_ap ret)) - zlen (shp (d_ap v)) = 0) by (unfold zlen; rewrite Hsh, Hlen; lia).
  destruct (is_vector (shp (d_ap v)) && (zlen (shp (d_ap T)) =? 2) && (axis =? 0)) eqn:E1.
  - destruct (shp (d_ap v)) as [|v0 r] eqn:Ev; [cbn in E1; discriminate|].
    rewrite (Hre ltac:(lia) ltac:(destruct (is_vector (v0 :: r)); [reflexivity|discriminate]) ltac:(lia) v0 r eq_refl).
    reflexivity.
  - rewrite H2, H3, H4. change (0 <? 0) with false. cbn [andb]. replace (ext =? 1) with false by lia. reflexivity.
Qed.

End ConcatLoop.

(* ====================================================================================== *)
(*  S3. Concat: operands of extent ONE along the axis (the slice drops the axis and         *)
(*  denseConcat's keep-dims fix-ups put it back)                                           *)
(* ====================================================================================== *)
Lemma drop_axes_nil : forall nsh nst, length nst = length nsh -> drop_axes nsh nst [] = (nsh, nst).
Proof.
  induction nsh as [|d nsh IH]; intros [|st nst] Hl; try discriminate; [reflexivity|].
  cbn [drop_axes tl]. rewrite IH by (cbn [length] in Hl; lia). cbn [is_some]. rewrite andb_false_r. reflexivity.
Qed.

Lemma drop_axes_axis1 : forall ax nsh nst s, length nst = length nsh -> (ax < length nsh)%nat -> nth ax nsh 0 = 1 ->
  drop_axes nsh nst (repeat None ax ++ [Some s]) = (remove_nth_s ax nsh, remove_nth_s ax nst).
Proof.
  induction ax as [|ax IH]; intros [|d nsh] [|st nst] s Hl Hax Hn; cbn [length] in *; try lia.
  - cbn [repeat app drop_axes tl nth remove_nth_s] in *. rewrite drop_axes_nil by lia. subst d.
    change (1 =? 1) with true. reflexivity.
  - cbn [repeat app drop_axes tl nth remove_nth_s] in *. rewrite IH by (try lia; exact Hn).
    cbn [is_some]. rewrite andb_false_r. reflexivity.
Qed.

Lemma remove_upd {A} ax : forall (l : list A) v, remove_nth_s ax (upd l ax v) = remove_nth_s ax l.
Proof. induction ax as [|ax IH]; intros [|x l] v; cbn [upd remove_nth_s]; try reflexivity. f_equal. apply IH. Qed.

Lemma remove_length {A} ax : forall (l : list A), (ax < length l)%nat -> length (remove_nth_s ax l) = (length l - 1)%nat.
Proof.
  induction ax as [|ax IH]; intros [|x l] H; cbn [length] in H; try lia; cbn [remove_nth_s length]; [lia|].
  rewrite IH by lia. lia.
Qed.

Lemma scalar_equiv_size s : pos_shape s -> is_scalar_equiv s = false -> 1 < size s.
Proof.
  unfold is_scalar_equiv. induction 1 as [|d s Hd Hp IH]; cbn [forallb size]; [discriminate|].
  intro H. pose proof (size_pos s Hp). destruct (d =? 1) eqn:E; cbn [andb] in H; [specialize (IH H); nia|nia].
Qed.

Lemma scalar_equiv_size1 s : pos_shape s -> is_scalar_equiv s = true -> size s = 1.
Proof.
  unfold is_scalar_equiv. induction 1 as [|d s Hd Hp IH]; cbn [forallb size]; [reflexivity|].
  intro H. apply andb_prop in H. destruct H as [H1 H2]. rewrite (IH H2). lia.
Qed.

Definition slab_ord (sh : list Z) (ax : nat) : Z :=
  if negb (is_vector sh) && negb (Nat.eqb (0 + ax) 0) then Z.lor 0 NC else 0.

(* AP.S on the fresh result, slab of extent one: the axis is dropped ... *)
Lemma ap_S_slab1 sh ax start :
  pos_shape sh -> (ax < length sh)%nat -> 0 <= start -> start + 1 <= nth ax sh 0 -> size (upd sh ax 1) <> 1 ->
  let A := size (skipn (S ax) sh) in
  ap_S (mkAP sh (calc_strides sh) 0 true) (size sh) (repeat None ax ++ [Some (start, start + 1, 1)]) =
  Ok (mkAP (remove_nth_s ax sh) (remove_nth_s ax (calc_strides sh)) (slab_ord sh ax) true,
      start * A, size sh - (nth ax sh 0 - (start + 1)) * A).
Proof.
  intros Hp Hax Hs Hen Hne A. unfold ap_S. cbn [shp str ord].
  rewrite app_length, repeat_length. cbn [length].
  replace (length sh <? ax + 1)%nat with false by (symmetry; apply Nat.ltb_ge; lia).
  unfold ap_is_vector. cbn [shp]. change (is_cm 0) with false. cbn [negb orb].
  rewrite apS_loop_axis by (try apply calc_strides_length; try assumption; lia).
  rewrite (nth_error_nth _ _ 0 (calc_strides_nth ax sh Hax)). fold A. cbn [Z.add].
  assert (Hsz : size sh = size (firstn ax sh) * nth ax sh 0 * A).
  { rewrite <- (upd_nth_same 0 ax sh) at 1. apply size_upd. exact Hax. }
  pose proof (size_pos _ (pos_shape_firstn ax sh Hp)) as HO.
  pose proof (size_pos _ (pos_shape_skipn (S ax) sh Hp)) as HA. fold A in HA.
  rewrite size_upd in Hne by exact Hax. fold A in Hne.
  assert (Hne1 : size sh - (nth ax sh 0 - (start + 1)) * A - (0 + start * A) <> 1).
  { rewrite Hsz. intro Hq.
    assert (Hq' : (size (firstn ax sh) - 1) * nth ax sh 0 * A + A = 1) by lia.
    assert (H0 : 0 <= (size (firstn ax sh) - 1) * nth ax sh 0 * A) by (apply Z.mul_nonneg_nonneg; [apply Z.mul_nonneg_nonneg|]; lia).
    assert (A = 1) by lia. assert (size (firstn ax sh) = 1) by nia. apply Hne. nia. }
  replace (size sh - (nth ax sh 0 - (start + 1)) * A - (0 + start * A) =? 1) with false by lia.
  replace (start + 1 - start) with 1 by lia.
  rewrite drop_axes_axis1; [|rewrite upd_len; apply calc_strides_length|rewrite upd_len; exact Hax|apply nth_upd_eq; exact Hax].
  rewrite remove_upd. reflexivity.
Qed.

(* ... unless the slab is a single element: then AP.S returns the scalar AP *)
Lemma ap_S_slab_scalar sh ax start :
  pos_shape sh -> (ax < length sh)%nat -> 0 <= start -> start + 1 <= nth ax sh 0 -> size (upd sh ax 1) = 1 ->
  let A := size (skipn (S ax) sh) in
  ap_S (mkAP sh (calc_strides sh) 0 true) (size sh) (repeat None ax ++ [Some (start, start + 1, 1)]) =
  Ok (scalar_ap, start * A, size sh - (nth ax sh 0 - (start + 1)) * A).
Proof.
  intros Hp Hax Hs Hen Hne A. unfold ap_S. cbn [shp str ord].
  rewrite app_length, repeat_length. cbn [length].
  replace (length sh <? ax + 1)%nat with false by (symmetry; apply Nat.ltb_ge; lia).
  unfold ap_is_vector. cbn [shp]. change (is_cm 0) with false. cbn [negb orb].
  rewrite apS_loop_axis by (try apply calc_strides_length; try assumption; lia).
  rewrite (nth_error_nth _ _ 0 (calc_strides_nth ax sh Hax)). fold A. cbn [Z.add].
  assert (Hsz : size sh = size (firstn ax sh) * nth ax sh 0 * A).
  { rewrite <- (upd_nth_same 0 ax sh) at 1. apply size_upd. exact Hax. }
  pose proof (size_pos _ (pos_shape_firstn ax sh Hp)) as HO.
  pose proof (size_pos _ (pos_shape_skipn (S ax) sh Hp)) as HA. fold A in HA.
  rewrite size_upd in Hne by exact Hax. fold A in Hne.
  assert (HA1 : A = 1) by nia. assert (HO1 : size (firstn ax sh) = 1) by nia.
  replace (size sh - (nth ax sh 0 - (start + 1)) * A - (0 + start * A) =? 1) with true by (rewrite Hsz, HA1, HO1; lia).
  reflexivity.
Qed.

Section ConcatOne.
Variable V : Type.
Variable vzero : V.

Notation store := (store V).
Notation win_get := (win_get V).
Notation frame_ok := (frame_ok V).
Notation in_buf := (in_buf V).
Notation cell := (cell V).
Notation wf_dense := (wf_dense V).
Notation wfv := (wfv V).
Notation bufs := (bufs V).
Notation tens := (tens V).
Notation get_t := (get_t V).
Notation get_buf := (get_buf V).
Notation ext_of := (ext_of V).

(* what slice_val returns for a slab of extent one: the window of slab_view b sh ax start 1 *)
Definition slab1_sliced (b : nat) (sh : list Z) (ax : nat) (start : Z) (a : ap) : dense :=
  let A := size (skipn (S ax) sh) in
  mkDense b (start * A) (size sh - (nth ax sh 0 - (start + 1)) * A - start * A) a None true.

Lemma slice_val_slab1_gen σ b sh ax start a' :
  pos_shape sh -> (ax < length sh)%nat -> 0 <= start -> start + 1 <= nth ax sh 0 ->
  in_buf σ (fresh_ret b sh) ->
  ap_S (mkAP sh (calc_strides sh) 0 true) (size sh) (repeat None ax ++ [Some (start, start + 1, 1)]) =
    Ok (a', start * size (skipn (S ax) sh), size sh - (nth ax sh 0 - (start + 1)) * size (skipn (S ax) sh)) ->
  slice_val V σ (fresh_ret b sh) (repeat None ax ++ [Some (start, start + 1, 1)]) = Ok (slab1_sliced b sh ax start a').
Proof.
  intros Hp Hax Hs Hen Hin HS. unfold slice_val, fresh_ret in *. cbn [d_ap d_len d_buf d_off]. rewrite HS.
  destruct Hin as [_ Hin]. cbn [d_off d_len d_buf] in Hin.
  set (A := size (skipn (S ax) sh)) in *.
  pose proof (size_pos _ (pos_shape_skipn (S ax) sh Hp)) as HA. fold A in HA.
  assert (Hsz : size sh = size (firstn ax sh) * nth ax sh 0 * A).
  { rewrite <- (upd_nth_same 0 ax sh) at 1. apply size_upd. exact Hax. }
  pose proof (size_pos _ (pos_shape_firstn ax sh Hp)) as HO.
  assert (H1 : 0 <= (nth ax sh 0 - (start + 1)) * A) by nia.
  assert (H2 : 0 <= start * A) by nia.
  assert (H3 : (start + 1) * A <= nth ax sh 0 * A) by nia.
  assert (H4 : nth ax sh 0 * A <= size sh) by (rewrite Hsz; nia).
  assert (H5 : (nth ax sh 0 - (start + 1)) * A = nth ax sh 0 * A - (start + 1) * A) by ring.
  assert (H6 : (start + 1) * A = start * A + A) by ring.
  replace ((start * A <? 0) || (size sh - (nth ax sh 0 - (start + 1)) * A <? start * A) ||
           (zlen (get_buf σ b) - 0 <? size sh - (nth ax sh 0 - (start + 1)) * A)) with false by lia.
  unfold slab1_sliced. fold A. reflexivity.
Qed.

(* the keep-dims fix-up of denseConcat, as an expression of its own *)
Definition concat_fix (σ : store) (ret : dense) (axis : Z) (ti : nat) (T : dense) (ext : Z) (v : dense)
  : res (store * dense * dense * bool) :=
  let rdims := zlen (shp (d_ap ret)) in
  let isOuter := axis =? 0 in
  let isInner := axis =? zlen (shp (d_ap T)) - 1 in
  if is_vector (shp (d_ap v)) && (zlen (shp (d_ap T)) =? 2) && (axis =? 0) then
    match shp (d_ap v) with
    | v0 :: _ => Ok (σ, reshape_val v [v0; 1], T, false)
    | [] => Panic
    end
  else if is_rowvec (shp (d_ap T)) && (axis =? 0) then
    match shp (d_ap T) with
    | [_; n] => let T' := reshape_val T [n] in Ok (set_t V σ ti T', v, T', false)
    | _ => Panic
    end
  else if is_scalar_equiv (shp (d_ap v)) && is_scalar_equiv (shp (d_ap T)) then
    Ok (σ, v, T, true)
  else
    let diff := rdims - zlen (shp (d_ap v)) in
    if (0 <? diff) && isOuter then
      Ok (σ, reshape_val v (repeat 1 (Z.to_nat diff) ++ shp (d_ap v)), T, false)
    else if (0 <? diff) && isInner then
      let a := d_ap v in
      Ok (σ, mkDense (d_buf v) (d_off v) (d_len v)
                     (mkAP (shp a ++ repeat 1 (Z.to_nat diff)) (str a ++ repeat 1 (Z.to_nat diff)) (ord a) (fin a))
                     (d_old v) (d_view v), T, false)
    else if ext =? 1 then
      let a := d_ap v in
      if zlen (shp a) + 1 <? axis then Err else
      let sh' := insert_at (Z.to_nat axis) 1 (shp a) in
      let st0 := str a ++ [1] in
      let st' := firstn (Z.to_nat axis + 1) st0 ++ skipn (Z.to_nat axis) (str a) in
      Ok (σ, mkDense (d_buf v) (d_off v) (d_len v) (mkAP sh' st' (ord a) (fin a)) (d_old v) (d_view v), T, false)
    else Ok (σ, v, T, false).

Lemma concat_loop_unfold σ ret axis ti rest start T ext v :
  get_t σ ti = Some T -> zget (shp (d_ap T)) axis = Some ext ->
  slice_val V σ ret (repeat None (Z.to_nat axis) ++ [Some (start, start + ext, 1)]) = Ok v ->
  concat_loop V σ ret axis (ti :: rest) start =
  match concat_fix σ ret axis ti T ext v with
  | Err => Err
  | Panic => Panic
  | Ok (σ1, v', T', rawcopy) =>
    match (if rawcopy then copy_raw V σ1 v' T' else assign_array V σ1 v' T') with
    | Ok σ2 => concat_loop V σ2 ret axis rest (start + ext)
    | Err => Err
    | Panic => Panic
    end
  end.
Proof. intros Ht Hz Hsl. cbn [concat_loop]. rewrite Ht, Hz. cbv zeta. rewrite Hsl. reflexivity. Qed.

End ConcatOne.

(* ---------- a vector iterator never looks at the strides ---------- *)
Definition restr (it : fiter) (st : list Z) : fiter :=
  mkIter (it_shape it) st (it_track it) (it_next it) (it_last it) (it_size it) (it_done it)
         (it_vdim it) (it_rev it) (it_scalar it) (it_vec it).

Lemma iter_next_restr it st : it_vec it = true ->
  iter_next (restr it st) = (restr (fst (iter_next it)) st, snd (iter_next it)) /\
  it_vec (fst (iter_next it)) = true.
Proof.
  intro Hv. destruct it as [sh st0 tr nx la sz dn vd rv sc vc]. cbn [it_vec] in Hv. subst vc.
  unfold iter_next, restr.
  cbn [it_done it_scalar it_vec it_rev it_track it_vdim it_size it_next it_shape it_strides it_last].
  destruct dn; [cbn [fst snd it_vec]; split; reflexivity|].
  destruct sc; [cbn [fst snd it_vec]; split; reflexivity|].
  destruct (set_track tr vd _); cbn [fst snd it_vec]; split; reflexivity.
Qed.

Lemma iter_run_restr : forall f it st, it_vec it = true ->
  iter_run f (restr it st) = (let '(it', l, ok) := iter_run f it in (restr it' st, l, ok)).
Proof.
  induction f as [|f IH]; intros it st Hv; cbn [iter_run]; [reflexivity|].
  destruct (iter_next_restr it st Hv) as [E Hv']. rewrite E.
  destruct (iter_next it) as [it1 [i| |]]; cbn [fst snd] in *; try reflexivity.
  rewrite (IH it1 st Hv'). destruct (iter_run f it1) as [[it2 l] ok]. reflexivity.
Qed.

Lemma iter_all_short sh st1 st2 o1 o2 f1 f2 :
  is_vectorlike_shape sh = true -> allones st1 = true -> allones st2 = true ->
  iter_all (mkAP sh st2 o2 f2) = iter_all (mkAP sh st1 o1 f1).
Proof.
  intros Hs H1 H2. unfold iter_all. cbn [shp].
  assert (Hn : new_iter (mkAP sh st2 o2 f2) = restr (new_iter (mkAP sh st1 o1 f1)) st2).
  { unfold new_iter, restr, ap_is_vectorlike, ap_is_scalar. cbn [shp str]. rewrite Hs, H1, H2. reflexivity. }
  rewrite Hn, iter_run_restr.
  - destruct (iter_run _ (new_iter (mkAP sh st1 o1 f1))) as [[it l] ok]. reflexivity.
  - unfold new_iter, ap_is_vectorlike. cbn [it_vec shp str]. rewrite Hs, H1. reflexivity.
Qed.

Lemma remove_last_app {A} : forall ax (l : list A) x, (S ax = length l)%nat -> remove_nth_s ax l ++ [x] = upd l ax x.
Proof.
  induction ax as [|ax IH]; intros [|a l] x H; cbn [length] in H; try lia.
  - destruct l; [reflexivity|cbn [length] in H; lia].
  - cbn [remove_nth_s upd app]. f_equal. apply IH. lia.
Qed.

Lemma insert_remove {A} : forall ax (l : list A) x, (ax < length l)%nat -> insert_at ax x (remove_nth_s ax l) = upd l ax x.
Proof.
  induction ax as [|ax IH]; intros [|a l] x H; cbn [length] in H; try lia.
  - cbn [remove_nth_s upd]. destruct l; reflexivity.
  - cbn [remove_nth_s upd insert_at]. f_equal. apply IH. lia.
Qed.

Lemma unsqueeze_strides {A} (d : A) : forall ax (l : list A) x, (S ax < length l)%nat ->
  firstn (ax + 1) (remove_nth_s ax l ++ [x]) ++ skipn ax (remove_nth_s ax l) = upd l ax (nth (S ax) l d).
Proof.
  induction ax as [|ax IH]; intros [|a l] x H; cbn [length] in H; try lia.
  - destruct l as [|b' l]; [cbn [length] in H; lia|]. reflexivity.
  - cbn [remove_nth_s Nat.add app firstn upd nth]. rewrite skipn_cons. f_equal. apply IH. lia.
Qed.

Lemma dot_upd_left : forall st c ax z, nth ax c 0 = 0 -> dot (upd st ax z) c = dot st c.
Proof.
  induction st as [|k st IH]; intros [|x c] [|ax] z H; cbn [upd dot nth] in *; try reflexivity.
  - subst x. lia.
  - rewrite IH by exact H. reflexivity.
Qed.

Lemma dot_all_zero : forall st c, forallb (fun v => v =? 0) c = true -> dot st c = 0.
Proof.
  induction st as [|k st IH]; intros [|x c] H; cbn [dot forallb] in *; try reflexivity.
  apply andb_prop in H. destruct H as [H1 H2]. rewrite IH by exact H2. lia.
Qed.

Lemma scalar_equiv_not_rowvec s : is_scalar_equiv s = true -> is_rowvec s = false.
Proof.
  unfold is_scalar_equiv, is_rowvec. destruct s as [|a [|b' [|? ?]]]; try reflexivity.
  cbn [forallb]. intro H. lia.
Qed.

Section ConcatStep.
Variable V : Type.
Variable vzero : V.

Notation store := (store V).
Notation win_get := (win_get V).
Notation frame_ok := (frame_ok V).
Notation in_buf := (in_buf V).
Notation cell := (cell V).
Notation wf_dense := (wf_dense V).
Notation wfv := (wfv V).
Notation bufs := (bufs V).
Notation tens := (tens V).
Notation get_t := (get_t V).
Notation get_buf := (get_buf V).
Notation ext_of := (ext_of V).
Notation wrote := (wrote V).

(* two tensor values over the same window *)
Definition same_win (D D' : dense) : Prop := d_buf D = d_buf D' /\ d_off D = d_off D' /\ d_len D = d_len D'.

Lemma same_win_get σ D D' i : same_win D D' -> win_get σ D i = win_get σ D' i.
Proof. intros (Hb & Ho & Hl). unfold Mem.win_get. rewrite Hb, Ho, Hl. reflexivity. Qed.

Lemma same_win_in_buf σ D D' : same_win D D' -> in_buf σ D -> in_buf σ D'.
Proof. intros (Hb & Ho & Hl). unfold OpsProofs.in_buf. rewrite Hb, Ho, Hl. tauto. Qed.

Lemma same_win_frame σ σ' D D' : same_win D D' -> frame_ok σ σ' D -> frame_ok σ σ' D'.
Proof.
  intros (Hb & Ho & Hl) (H1 & H2 & H3 & H4 & H5 & H6).
  split; [exact H1|]. split; [exact H2|]. split; [exact H3|]. split; [rewrite <- Hb; exact H4|].
  split.
  - intros E i HE. apply H5. unfold sep in *. rewrite Hb, Ho, Hl. exact HE.
  - intros p Hp. rewrite <- Hb. apply H6. rewrite Ho, Hl. exact Hp.
Qed.

Lemma same_win_sep D D' E : same_win D D' -> sep D E -> sep D' E.
Proof. intros (Hb & Ho & Hl) H. unfold sep in *. rewrite <- Hb, <- Ho, <- Hl. exact H. Qed.

(* what one iteration of denseConcat has to achieve on the slab of the result *)
Definition slab_assigned (σc σ2 : store) (slab T : dense) : Prop :=
  frame_ok σc σ2 slab /\
  (forall c, inbox (shp (d_ap slab)) c -> cell σ2 slab c = cell σc T c) /\
  (forall i, ~ In i (offsets (d_ap slab)) -> win_get σ2 slab i = win_get σc slab i).

(* the fixed-up view differs from the slab only in strides that agree on the slab's box *)
Lemma restride_offsets slab v' : pos_shape (shp (d_ap slab)) -> shp (d_ap v') = shp (d_ap slab) ->
  (forall c, inbox (shp (d_ap slab)) c -> dot (str (d_ap v')) c = dot (str (d_ap slab)) c) ->
  offsets (d_ap v') = offsets (d_ap slab).
Proof.
  intros Hp Hs Hd. unfold offsets. rewrite Hs. apply map_ext_in. intros c Hc. apply Hd.
  apply coords_inbox; assumption.
Qed.

Lemma wfv_restride σ slab v' : wfv σ slab -> same_win v' slab -> shp (d_ap v') = shp (d_ap slab) ->
  ord (d_ap v') = ord (d_ap slab) -> d_old v' = d_old slab ->
  length (str (d_ap v')) = length (shp (d_ap slab)) ->
  (forall c, inbox (shp (d_ap slab)) c -> dot (str (d_ap v')) c = dot (str (d_ap slab)) c) ->
  wfv σ v' /\ requires_iterator v' = requires_iterator slab.
Proof.
  intros W Hw Hs Ho Hold Hl Hd. pose proof (wv_pos _ _ _ W) as Hp.
  pose proof (restride_offsets slab v' Hp Hs Hd) as Hoff.
  assert (Hri : requires_iterator v' = requires_iterator slab).
  { destruct Hw as (_ & _ & Hlen). unfold requires_iterator. rewrite Hlen, Ho, Hold. reflexivity. }
  split; [|exact Hri]. destruct Hw as (Hb & Hof & Hlen). constructor.
  - rewrite Hs. exact Hp.
  - rewrite Hs. exact Hl.
  - rewrite Hoff. apply (wv_nodup _ _ _ W).
  - rewrite Hoff, Hlen. apply (wv_range _ _ _ W).
  - eapply same_win_in_buf; [|apply (wv_win _ _ _ W)]. unfold same_win. auto.
  - rewrite Ho. apply (wv_rm _ _ _ W).
  - rewrite Hri, Hs, Hlen. intro Hr. destruct (wv_flag _ _ _ W Hr) as [Hf Hsz]. split; [|exact Hsz].
    intros c Hc. rewrite Hd by exact Hc. apply Hf. exact Hc.
Qed.

Lemma restride_assigned σc σ2 slab v' T : pos_shape (shp (d_ap slab)) ->
  same_win v' slab -> shp (d_ap v') = shp (d_ap slab) ->
  (forall c, inbox (shp (d_ap slab)) c -> dot (str (d_ap v')) c = dot (str (d_ap slab)) c) ->
  slab_assigned σc σ2 v' T -> slab_assigned σc σ2 slab T.
Proof.
  intros Hp Hw Hs Hd (F & C & O). split; [eapply same_win_frame; eassumption|]. split.
  - intros c Hc. rewrite <- (C c) by (rewrite Hs; exact Hc). unfold OpsProofs.cell.
    rewrite Hd by exact Hc. symmetry. apply same_win_get. exact Hw.
  - intros i Hi. rewrite <- !(same_win_get _ v' slab i Hw). apply O.
    rewrite (restride_offsets slab v' Hp Hs Hd). exact Hi.
Qed.

(* a raw copy of the source window into a contiguous slab *)
Lemma raw_into_slab σc σ2 slab v' T : wfv σc slab -> requires_iterator slab = false -> same_win v' slab ->
  wrote σc σ2 v' 0 (d_len slab) (fun p => win_get σc T p) ->
  (forall c, inbox (shp (d_ap slab)) c -> dot (str (d_ap T)) c = rk (shp (d_ap slab)) c) ->
  slab_assigned σc σ2 slab T.
Proof.
  intros W Hr Hw (F & Wv & Wo) HT. destruct (wv_flag _ _ _ W Hr) as [Hf Hsz]. pose proof (wv_pos _ _ _ W) as Hp.
  split; [eapply same_win_frame; eassumption|]. split.
  - intros c Hc. unfold OpsProofs.cell. rewrite Hf, HT by exact Hc.
    rewrite <- (same_win_get _ v' slab _ Hw). apply Wv. rewrite Hsz. apply rk_bound; assumption.
  - intros i Hi. rewrite <- !(same_win_get _ v' slab i Hw). apply Wo. intro Hin. apply Hi.
    unfold offsets. apply in_map_iff. exists (unrank (shp (d_ap slab)) i). rewrite Hsz in Hin. split.
    + rewrite Hf by (apply unrank_inbox; assumption). apply rk_unrank; assumption.
    + apply coords_In; [exact Hp|]. apply unrank_inbox; assumption.
Qed.

(* assignArray of a contiguous column vector into a non-contiguous column-vector view: the source
   is walked by a vector iterator that ignores BroadcastStrides' single stride *)
Lemma assign_array_colvec σ dest T n : wfv σ dest -> wf_dense σ T -> sep dest T ->
  shp (d_ap dest) = [n; 1] -> shp (d_ap T) = [n; 1] -> 2 <= n ->
  requires_iterator T = false -> requires_iterator dest = true ->
  exists σ', assign_array V σ dest T = Ok σ' /\ slab_assigned σ σ' dest T.
Proof.
  intros Wd WT Hsep Hsd HsT Hn HrT Hrd.
  destruct (wf_flag _ _ _ WT HrT) as [HstrT HlenT]. rewrite HsT in HstrT, HlenT.
  pose proof (wv_len _ _ _ Wd) as Hld. rewrite Hsd in Hld.
  rewrite assign_array_unfold.
  2:{ rewrite HsT. reflexivity. }
  2:{ intro H. rewrite H in Hld. cbn [length] in Hld. lia. }
  2:{ rewrite HstrT. cbn [calc_strides]. discriminate. }
  2:{ rewrite Hsd, HsT. reflexivity. }
  rewrite Hsd, HsT, HstrT, Hrd. cbn [negb andb calc_strides].
  assert (Hv : is_vector [n; 1] = true).
  { unfold is_vector, is_colvec. replace ((1 =? 1) && (1 <? n)) with true by lia. reflexivity. }
  unfold broadcast_strides. rewrite Hv. cbn [andb].
  rewrite (iter_all_spec (d_ap dest)) by (try apply (wv_pos _ _ _ Wd); apply (wv_len _ _ _ Wd)).
  fold (offsets (d_ap dest)).
  rewrite (iter_all_short [n; 1] [size [1]; size []] [size [1]] 0 (ord (d_ap T)) true true); try reflexivity.
  2:{ unfold is_vectorlike_shape. cbn [filter]. destruct (negb (n =? 1)); reflexivity. }
  assert (HpT : pos_shape [n; 1]) by (repeat constructor; lia).
  rewrite (iter_all_spec (mkAP [n; 1] [size [1]; size []] 0 true) HpT eq_refl).
  cbn [shp str].
  assert (Hoff : map (fun c => dot [size [1]; size []] c) (coords [n; 1]) = offsets (d_ap T)).
  { unfold offsets. rewrite HsT, HstrT. reflexivity. }
  rewrite Hoff.
  destruct (copy_seq_spec V vzero (vfst V) σ dest T (offsets (d_ap dest)) (offsets (d_ap T))
              (wv_win _ _ _ Wd) (wf_win _ _ _ WT) Hsep (wv_nodup _ _ _ Wd) (wv_range _ _ _ Wd) (wf_range _ _ _ WT))
    as (σ' & Ec & Fr & Hvv & Ho).
  rewrite Ec. exists σ'. split; [reflexivity|]. split; [exact Fr|]. split.
  - intros c Hc. unfold OpsProofs.cell. apply Hvv. apply zip2_offsets_In; [rewrite Hsd, HsT; reflexivity|rewrite Hsd; exact HpT|exact Hc].
  - intros i Hi. apply Ho. intro Hin. apply Hi. apply in_map_iff in Hin. destruct Hin as ([x y] & Hq & Hin).
    cbn [fst] in Hq. subst x. apply zip2_fst_In in Hin. apply Hin.
Qed.

(* assignArray of a contiguous row vector (1,n) into a contiguous (n,1)-shaped view: raw copy *)
Lemma assign_array_row_into_col σ v' T n : in_buf σ v' -> wf_dense σ T ->
  d_ap v' = mkAP [n; 1] (calc_strides [n; 1]) 0 true -> d_old v' = None -> d_len v' = n ->
  shp (d_ap T) = [1; n] -> 2 <= n -> requires_iterator T = false ->
  exists σ', assign_array V σ v' T = Ok σ' /\ wrote σ σ' v' 0 n (fun p => win_get σ T p).
Proof.
  intros Hin WT Hap Hold Hlen HsT Hn HrT.
  destruct (wf_flag _ _ _ WT HrT) as [HstrT HlenT]. rewrite HsT in HstrT, HlenT.
  rewrite assign_array_unfold.
  2:{ rewrite HsT. reflexivity. }
  2:{ rewrite Hap. cbn [str calc_strides]. discriminate. }
  2:{ rewrite HstrT. cbn [calc_strides]. discriminate. }
  2:{ rewrite Hap, HsT. reflexivity. }
  rewrite HsT, HstrT, Hap. cbn [shp str ord calc_strides].
  assert (Hv1 : is_vector [n; 1] = true).
  { unfold is_vector, is_colvec. replace ((1 =? 1) && (1 <? n)) with true by lia. reflexivity. }
  assert (Hv2 : is_vector [1; n] = true).
  { unfold is_vector, is_colvec, is_rowvec. replace ((1 =? 1) && (1 <? n)) with true by lia. rewrite orb_true_r. reflexivity. }
  unfold broadcast_strides. rewrite Hv1, Hv2. cbn [andb].
  assert (Hrv : requires_iterator v' = false).
  { unfold requires_iterator. rewrite Hlen, Hap, Hold. cbn [ord is_some].
    replace (n =? 1) with false by lia. replace (n =? 0) with false by lia. reflexivity. }
  rewrite Hrv, HrT. cbn [negb andb].
  assert (Hso : has_same_order 0 (ord (d_ap T)) = true) by (unfold has_same_order; rewrite (wf_rm _ _ _ WT); reflexivity).
  rewrite Hso.
  destruct (copy_raw_wrote V vzero σ v' T Hin (wf_win _ _ _ WT)) as (σ' & Ec & Wr); [lia|cbn [size] in HlenT; lia|].
  rewrite Ec. exists σ'. split; [reflexivity|].
  replace (Z.min (d_len v') (d_len T)) with n in Wr by (cbn [size] in HlenT; lia). exact Wr.
Qed.

End ConcatStep.

Section ConcatMove.
Variable V : Type.
Variable vzero : V.

Notation store := (store V).
Notation win_get := (win_get V).
Notation frame_ok := (frame_ok V).
Notation in_buf := (in_buf V).
Notation cell := (cell V).
Notation wf_dense := (wf_dense V).
Notation wfv := (wfv V).
Notation bufs := (bufs V).
Notation tens := (tens V).
Notation get_t := (get_t V).
Notation get_buf := (get_buf V).
Notation ext_of := (ext_of V).
Notation wrote := (wrote V).
Notation slab_assigned := (slab_assigned V).
Notation ext_d := (ext_d).

(* the data movement of one iteration of denseConcat *)
Definition concat_move (σ : store) (ret : dense) (axis : Z) (ti : nat) (T : dense) (ext : Z) (v : dense) : res store :=
  match concat_fix V σ ret axis ti T ext v with
  | Err => Err
  | Panic => Panic
  | Ok (σ1, v', T', rawcopy) => if rawcopy then copy_raw V σ1 v' T' else assign_array V σ1 v' T'
  end.

Lemma concat_loop_move σ ret axis ti rest start T ext v :
  get_t σ ti = Some T -> zget (shp (d_ap T)) axis = Some ext ->
  slice_val V σ ret (repeat None (Z.to_nat axis) ++ [Some (start, start + ext, 1)]) = Ok v ->
  concat_loop V σ ret axis (ti :: rest) start =
  match concat_move σ ret axis ti T ext v with
  | Ok σ2 => concat_loop V σ2 ret axis rest (start + ext)
  | Err => Err
  | Panic => Panic
  end.
Proof.
  intros Ht Hz Hsl. rewrite (concat_loop_unfold V σ ret axis ti rest start T ext v Ht Hz Hsl). unfold concat_move.
  destruct (concat_fix V σ ret axis ti T ext v) as [[[[σ1 v'] T'] rc]| |]; reflexivity.
Qed.

Lemma wf_dense_rebuf σ σ' d : wf_dense σ d -> in_buf σ' d -> wf_dense σ' d.
Proof. intros W H. destruct W. constructor; assumption. Qed.

(* ---- extent >= 2: no fix-up ---- *)
Lemma concat_fix_plain σ ret axis ti T ext v :
  zget (shp (d_ap T)) axis = Some ext ->
  shp (d_ap v) = shp (d_ap T) -> length (shp (d_ap ret)) = length (shp (d_ap T)) -> 2 <= ext -> 0 <= axis ->
  (axis = 0 -> is_vector (shp (d_ap v)) = true -> zlen (shp (d_ap T)) = 2 ->
   forall v0 r, shp (d_ap v) = v0 :: r -> reshape_val v [v0; 1] = v) ->
  concat_fix V σ ret axis ti T ext v = Ok (σ, v, T, false).
Proof.
  intros Hz Hsh Hlen He Hax Hre. unfold concat_fix. cbv zeta.
  pose proof (zget_range _ _ _ Hz) as Hzr.
  assert (Hnth : nth (Z.to_nat axis) (shp (d_ap T)) 0 = ext).
  { rewrite (zget_nth 0) in Hz by exact Hzr. congruence. }
  assert (H2 : is_rowvec (shp (d_ap T)) && (axis =? 0) = false).
  { destruct (axis =? 0) eqn:E0; [|apply andb_false_r]. rewrite andb_true_r.
    assert (axis = 0) by lia. subst axis. unfold is_rowvec.
    destruct (shp (d_ap T)) as [|a [|b' [|? ?]]]; try reflexivity. change (Z.to_nat 0) with 0%nat in Hnth. cbn [nth] in Hnth. lia. }
  assert (H3 : is_scalar_equiv (shp (d_ap v)) && is_scalar_equiv (shp (d_ap T)) = false).
  { destruct (is_scalar_equiv (shp (d_ap T))) eqn:E3; [|apply andb_false_r].
    pose proof (is_scalar_equiv_nth _ (Z.to_nat axis) E3) as Hq. unfold zlen in Hzr. rewrite Hnth in Hq. lia. }
  assert (H4 : zlen (shp (d_ap ret)) - zlen (shp (d_ap v)) = 0) by (unfold zlen; rewrite Hsh, Hlen; lia).
  destruct (is_vector (shp (d_ap v)) && (zlen (shp (d_ap T)) =? 2) && (axis =? 0)) eqn:E1.
  - destruct (shp (d_ap v)) as [|v0 r] eqn:Ev; [cbn in E1; discriminate|].
    rewrite (Hre ltac:(lia) ltac:(destruct (is_vector (v0 :: r)); [reflexivity|discriminate]) ltac:(lia) v0 r eq_refl).
    reflexivity.
  - rewrite H2, H3, H4. change (0 <? 0) with false. cbn [andb]. replace (ext =? 1) with false by lia. reflexivity.
Qed.

Lemma move_general σc b sh ax ti T start :
  pos_shape sh -> (ax < length sh)%nat -> in_buf σc (fresh_ret b sh) -> wf_dense σc T -> d_buf T <> b ->
  shp (d_ap T) = upd sh ax (ext_d ax T) -> 2 <= ext_d ax T -> 0 <= start -> start + ext_d ax T <= nth ax sh 0 ->
  (is_vector (shp (d_ap T)) = true -> length (shp (d_ap T)) = 2%nat -> requires_iterator T = false) ->
  exists σ2, concat_move σc (fresh_ret b sh) (Z.of_nat ax) ti T (ext_d ax T) (slab_view b sh ax start (ext_d ax T)) = Ok σ2 /\
             slab_assigned σc σ2 (slab_view b sh ax start (ext_d ax T)) T.
Proof.
  intros Hp Hax Hin WT HbT HshT HeT Hstart Hen HgT. set (ext := ext_d ax T) in *.
  set (v := slab_view b sh ax start ext).
  assert (Hlen : length (shp (d_ap T)) = length sh) by (rewrite HshT; apply upd_len).
  assert (Hzg : zget (shp (d_ap T)) (Z.of_nat ax) = Some ext).
  { rewrite (zget_nth 0) by (unfold zlen; rewrite Hlen; lia). rewrite Nat2Z.id. reflexivity. }
  unfold concat_move. rewrite (concat_fix_plain σc (fresh_ret b sh) (Z.of_nat ax) ti T ext v Hzg).
  2:{ cbn [v slab_view d_ap shp]. symmetry. exact HshT. }
  2:{ cbn [fresh_ret d_ap shp]. symmetry. exact Hlen. }
  2:{ exact HeT. }
  2:{ lia. }
  2:{ intros H0 Hv Hz2 v0 r Hs0. assert (ax = 0%nat) by lia. subst ax.
      apply (slab_reshape_id b sh start ext v0 r); [exact Hs0|exact Hv| |exact HeT].
      unfold zlen in Hz2. lia. }
  assert (Wv : wfv σc v) by (apply slab_wfv; try assumption; lia).
  assert (Hsep : sep v T) by (left; cbn [v slab_view d_buf]; congruence).
  destruct (assign_array_spec V vzero σc v T Wv (wf_dense_wfv V σc T WT) Hsep) as (σ2 & Ea & Fr2 & Hcells & Hoth).
  { cbn [v slab_view d_ap shp]. symmetry. exact HshT. }
  { intro Hn. rewrite Hn in Hlen. cbn [length] in Hlen. lia. }
  { intros Hvec Hl2. split; [|apply HgT; assumption].
    apply slab_vec_contig; try assumption; [rewrite <- HshT; exact Hvec|lia]. }
  exists σ2. split; [exact Ea|]. split; [exact Fr2|]. split; [|exact Hoth].
  intros c Hc. apply Hcells. cbn [v slab_view d_ap shp] in Hc. rewrite HshT. exact Hc.
Qed.

Lemma same_win_sym D D' : same_win D D' -> same_win D' D.
Proof. intros (H1 & H2 & H3). unfold same_win. auto. Qed.

Lemma slab1_same_win b sh ax start a' : same_win (slab1_sliced b sh ax start a') (slab_view b sh ax start 1).
Proof. unfold same_win, slab1_sliced, slab_view. cbn [d_buf d_off d_len]. auto. Qed.

Lemma slab_ord_0 sh : slab_ord sh 0 = 0.
Proof. unfold slab_ord. cbn [Nat.add Nat.eqb negb]. rewrite andb_false_r. reflexivity. Qed.

(* ---- extent 1, the operand is a single element: the slab is a scalar view, raw copy ---- *)
Lemma move_scalar σc b sh ax ti T start :
  pos_shape sh -> (ax < length sh)%nat -> in_buf σc (fresh_ret b sh) -> wf_dense σc T -> d_buf T <> b ->
  shp (d_ap T) = upd sh ax 1 -> 0 <= start -> start + 1 <= nth ax sh 0 ->
  is_scalar_equiv (shp (d_ap T)) = true ->
  exists σ2, concat_move σc (fresh_ret b sh) (Z.of_nat ax) ti T 1 (slab1_sliced b sh ax start scalar_ap) = Ok σ2 /\
             slab_assigned σc σ2 (slab_view b sh ax start 1) T.
Proof.
  intros Hp Hax Hin WT HbT HshT Hstart Hen Hse.
  set (v := slab1_sliced b sh ax start scalar_ap). set (slab := slab_view b sh ax start 1).
  assert (Wslab : wfv σc slab) by (apply slab_wfv; try assumption; lia).
  assert (Hsw : same_win v slab) by apply slab1_same_win.
  assert (Hfix : concat_fix V σc (fresh_ret b sh) (Z.of_nat ax) ti T 1 v = Ok (σc, v, T, true)).
  { unfold concat_fix. cbv zeta. cbn [v slab1_sliced d_ap scalar_ap shp].
    change (is_vector []) with false. cbn [andb].
    rewrite (scalar_equiv_not_rowvec _ Hse), Hse. reflexivity. }
  unfold concat_move. rewrite Hfix.
  assert (Hsz1 : size (upd sh ax 1) = 1) by (rewrite <- HshT; apply scalar_equiv_size1; [apply (wf_pos _ _ _ WT)|exact Hse]).
  assert (Hdl : d_len slab = 1).
  { change (d_len slab) with (d_len (slab_view 0 sh ax start 1)). rewrite (slab_len sh ax start 1 Hp Hax).
    rewrite size_upd in Hsz1 by exact Hax.
    pose proof (size_pos _ (pos_shape_firstn ax sh Hp)). pose proof (size_pos _ (pos_shape_skipn (S ax) sh Hp)).
    assert (size (skipn (S ax) sh) = 1) by nia. assert (size (firstn ax sh) = 1) by nia. nia. }
  assert (Hdv : d_len v = 1) by (destruct Hsw as (_ & _ & ->); exact Hdl).
  destruct (copy_raw_wrote V vzero σc v T) as (σ2 & Ec & Wr).
  { eapply same_win_in_buf; [apply same_win_sym; exact Hsw|apply (wv_win _ _ _ Wslab)]. }
  { apply (wf_win _ _ _ WT). } { lia. } { pose proof (wf_big _ _ _ WT). lia. }
  rewrite Ec. exists σ2. split; [reflexivity|].
  apply (raw_into_slab V σc σ2 slab v T Wslab).
  - unfold requires_iterator. rewrite Hdl. reflexivity.
  - exact Hsw.
  - rewrite Hdl. replace (Z.min (d_len v) (d_len T)) with 1 in Wr by (pose proof (wf_big _ _ _ WT); lia). exact Wr.
  - intros c Hc. cbn [slab slab_view d_ap shp] in Hc |- *. rewrite <- HshT in Hc |- *.
    destruct (scalar_equiv_inbox_zero _ c Hse Hc) as (Hz & Hrk & _). rewrite Hrk. apply dot_all_zero. exact Hz.
Qed.

(* ---- extent 1, rank 2, axis 0: a (1,n) row vector; the slab view is reshaped to (n,1) ---- *)
Lemma move_rowvec σc b tot n ti T start :
  pos_shape [tot; n] -> in_buf σc (fresh_ret b [tot; n]) -> wf_dense σc T -> d_buf T <> b ->
  shp (d_ap T) = [1; n] -> 2 <= n -> 0 <= start -> start + 1 <= tot ->
  requires_iterator T = false ->
  exists σ2, concat_move σc (fresh_ret b [tot; n]) 0 ti T 1
               (slab1_sliced b [tot; n] 0 start
                  (mkAP (remove_nth_s 0 [tot; n]) (remove_nth_s 0 (calc_strides [tot; n])) (slab_ord [tot; n] 0) true)) = Ok σ2 /\
             slab_assigned σc σ2 (slab_view b [tot; n] 0 start 1) T.
Proof.
  intros Hp Hin WT HbT HshT Hn Hstart Hen HrT.
  set (sh := [tot; n]) in *.
  set (v := slab1_sliced b sh 0 start (mkAP (remove_nth_s 0 sh) (remove_nth_s 0 (calc_strides sh)) (slab_ord sh 0) true)).
  set (slab := slab_view b sh 0 start 1).
  assert (Wslab : wfv σc slab) by (apply slab_wfv; try assumption; cbn [sh length nth]; lia).
  assert (Hsw : same_win v slab) by apply slab1_same_win.
  set (v' := reshape_val v [n; 1]).
  assert (Hfix : concat_fix V σc (fresh_ret b sh) 0 ti T 1 v = Ok (σc, v', T, false)).
  { unfold concat_fix. cbv zeta. cbn [v slab1_sliced d_ap shp sh remove_nth_s]. rewrite HshT.
    replace (is_vector [n] && (zlen [1; n] =? 2) && (0 =? 0)) with true by reflexivity. reflexivity. }
  unfold concat_move. rewrite Hfix.
  assert (Hdl : d_len slab = n).
  { change (d_len slab) with (d_len (slab_view 0 sh 0 start 1)). rewrite (slab_len sh 0 start 1 Hp) by (cbn [sh length]; lia).
    cbn [sh firstn skipn size nth]. ring. }
  assert (Hsw' : same_win v' slab) by (destruct Hsw as (H1 & H2 & H3); unfold v', reshape_val, same_win; cbn [d_buf d_off d_len]; auto).
  destruct (assign_array_row_into_col V vzero σc v' T n) as (σ2 & Ea & Wr).
  { eapply same_win_in_buf; [apply same_win_sym; exact Hsw'|apply (wv_win _ _ _ Wslab)]. }
  { exact WT. }
  { unfold v', reshape_val. cbn [d_ap v slab1_sliced ord]. rewrite slab_ord_0. reflexivity. }
  { reflexivity. }
  { destruct Hsw' as (_ & _ & ->). exact Hdl. }
  { exact HshT. } { exact Hn. } { exact HrT. }
  rewrite Ea. exists σ2. split; [reflexivity|].
  apply (raw_into_slab V σc σ2 slab v' T Wslab).
  - unfold requires_iterator. rewrite Hdl. cbn [slab slab_view d_ap ord d_old is_some]. fold (slab_ord sh 0). rewrite slab_ord_0.
    replace (n =? 1) with false by lia. replace (n =? 0) with false by lia. reflexivity.
  - exact Hsw'.
  - rewrite Hdl. exact Wr.
  - intros c Hc. cbn [slab slab_view d_ap shp sh upd] in Hc |- *. rewrite <- HshT. apply (wf_contig_dot V σc T c WT HrT).
Qed.

Lemma is_rowvec_rank s : is_rowvec s = true -> length s = 2%nat.
Proof. unfold is_rowvec. destruct s as [|a [|b' [|? ?]]]; try discriminate. reflexivity. Qed.

(* ---- the fixed-up view is the slab up to strides: assignArray does the work ---- *)
Lemma move_assign σc slab v' T : wfv σc slab -> same_win v' slab -> shp (d_ap v') = shp (d_ap slab) ->
  ord (d_ap v') = ord (d_ap slab) -> d_old v' = d_old slab ->
  length (str (d_ap v')) = length (shp (d_ap slab)) ->
  (forall c, inbox (shp (d_ap slab)) c -> dot (str (d_ap v')) c = dot (str (d_ap slab)) c) ->
  wf_dense σc T -> sep slab T -> shp (d_ap slab) = shp (d_ap T) -> shp (d_ap T) <> [] ->
  (is_vector (shp (d_ap T)) = true -> length (shp (d_ap T)) = 2%nat ->
   (requires_iterator slab = false /\ requires_iterator T = false) \/
   (exists n, shp (d_ap T) = [n; 1] /\ 2 <= n /\ requires_iterator T = false /\ requires_iterator slab = true)) ->
  exists σ2, assign_array V σc v' T = Ok σ2 /\ slab_assigned σc σ2 slab T.
Proof.
  intros W Hsw Hs Ho Hold Hl Hd WT Hsep HsT Hne Hg.
  destruct (wfv_restride V σc slab v' W Hsw Hs Ho Hold Hl Hd) as [Wv' Hri].
  assert (Hsep' : sep v' T) by (eapply same_win_sep; [apply same_win_sym; exact Hsw|exact Hsep]).
  pose proof (wv_pos _ _ _ W) as Hp.
  assert (Htr : forall σ2, slab_assigned σc σ2 v' T -> slab_assigned σc σ2 slab T).
  { intros σ2 H. eapply restride_assigned; eassumption. }
  assert (Hcolvec : forall n, shp (d_ap T) = [n; 1] -> 2 <= n -> requires_iterator T = false -> requires_iterator slab = true ->
             exists σ2, assign_array V σc v' T = Ok σ2 /\ slab_assigned σc σ2 slab T).
  { intros n HTn Hn HrT Hrs.
    destruct (assign_array_colvec V vzero σc v' T n Wv' WT Hsep') as (σ2 & Ea & Hsa);
      [rewrite Hs, HsT; exact HTn|exact HTn|exact Hn|exact HrT|rewrite Hri; exact Hrs|].
    exists σ2. split; [exact Ea|apply Htr; exact Hsa]. }
  assert (Hspec : (is_vector (shp (d_ap T)) = true -> length (shp (d_ap T)) = 2%nat ->
                   requires_iterator v' = false /\ requires_iterator T = false) ->
             exists σ2, assign_array V σc v' T = Ok σ2 /\ slab_assigned σc σ2 slab T).
  { intro Hg'. destruct (assign_array_spec V vzero σc v' T Wv' (wf_dense_wfv V σc T WT) Hsep') as (σ2 & Ea & F & C & O);
      [rewrite Hs; exact HsT|exact Hne|exact Hg'|].
    exists σ2. split; [exact Ea|]. apply Htr. split; [exact F|]. split; [|exact O].
    intros c Hc. apply C. rewrite <- HsT, <- Hs. exact Hc. }
  destruct (is_vector (shp (d_ap T))) eqn:Ev; [|apply Hspec; intros; discriminate].
  destruct (Nat.eq_dec (length (shp (d_ap T))) 2) as [L2|L2]; [|apply Hspec; intros; contradiction].
  destruct (Hg eq_refl L2) as [[H1 H2]|(n & HTn & Hn & HrT & Hrs)].
  - apply Hspec. intros _ _. rewrite Hri. split; assumption.
  - apply (Hcolvec n); assumption.
Qed.

(* ---- extent 1, the other shapes: the three keep-dims fix-ups put the axis back ---- *)
Lemma concat_fix_one σ b sh ax ti T start :
  pos_shape sh -> (ax < length sh)%nat -> shp (d_ap T) = upd sh ax 1 ->
  is_scalar_equiv (shp (d_ap T)) = false -> ~ (ax = 0%nat /\ length sh = 2%nat) ->
  let v := slab1_sliced b sh ax start
             (mkAP (remove_nth_s ax sh) (remove_nth_s ax (calc_strides sh)) (slab_ord sh ax) true) in
  exists v' z, concat_fix V σ (fresh_ret b sh) (Z.of_nat ax) ti T 1 v = Ok (σ, v', T, false) /\
    same_win v' (slab_view b sh ax start 1) /\ shp (d_ap v') = upd sh ax 1 /\
    ord (d_ap v') = slab_ord sh ax /\ d_old v' = None /\ str (d_ap v') = upd (calc_strides sh) ax z.
Proof.
  intros Hp Hax HshT Hse Hnot v.
  assert (Hlen : length (shp (d_ap T)) = length sh) by (rewrite HshT; apply upd_len).
  assert (Hr2 : (2 <= length sh)%nat).
  { destruct sh as [|s0 [|s1 sh']]; cbn [length] in *; try lia.
    assert (ax = 0%nat) by lia. subst ax. rewrite HshT in Hse. cbn in Hse. discriminate. }
  assert (Hsw : same_win v (slab_view b sh ax start 1)) by apply slab1_same_win.
  assert (Hdiff : zlen (shp (d_ap (fresh_ret b sh))) - zlen (shp (d_ap v)) = 1).
  { cbn [fresh_ret v slab1_sliced d_ap shp]. unfold zlen. rewrite remove_length by exact Hax. lia. }
  assert (Hc3 : is_scalar_equiv (shp (d_ap v)) && is_scalar_equiv (shp (d_ap T)) = false) by (rewrite Hse; apply andb_false_r).
  unfold concat_fix. cbv zeta. rewrite Hc3, Hdiff. change (0 <? 1) with true. change (Z.to_nat 1) with 1%nat.
  change (1 =? 1) with true. cbn [repeat andb].
  destruct ax as [|ax].
  - (* outer *)
    assert (Hr3 : (3 <= length sh)%nat) by lia.
    assert (Hz2 : (zlen (shp (d_ap T)) =? 2) = false) by (unfold zlen; rewrite Hlen; lia).
    assert (Hrv : is_rowvec (shp (d_ap T)) = false).
    { destruct (is_rowvec (shp (d_ap T))) eqn:E; [|reflexivity]. apply is_rowvec_rank in E. lia. }
    rewrite Hz2, Hrv. change (Z.of_nat 0 =? 0) with true. rewrite andb_false_r. cbn [andb].
    exists (reshape_val v ([1] ++ shp (d_ap v))), (nth 0 (calc_strides sh) 0).
    split; [reflexivity|]. unfold reshape_val. cbn [v slab1_sliced d_ap shp ord d_old d_buf d_off d_len].
    split; [apply slab1_same_win|]. rewrite slab_ord_0.
    destruct sh as [|s0 sh']; [cbn [length] in Hax; lia|].
    cbn [remove_nth_s app upd]. split; [reflexivity|]. split; [reflexivity|]. split; [reflexivity|].
    unfold default_strides. change (is_cm 0) with false. cbv iota. reflexivity.
  - assert (Hne0 : (Z.of_nat (S ax) =? 0) = false) by lia.
    rewrite Hne0, !andb_false_r. cbn [andb].
    destruct (Nat.eq_dec (S (S ax)) (length sh)) as [Hin|Hmid].
    + (* inner *)
      replace (Z.of_nat (S ax) =? zlen (shp (d_ap T)) - 1) with true by (unfold zlen; rewrite Hlen; lia).
      eexists. exists 1. split; [reflexivity|]. cbn [v slab1_sliced d_ap shp str ord d_old d_buf d_off d_len fin d_view].
      split; [apply slab1_same_win|].
      split; [apply remove_last_app; exact Hin|]. split; [reflexivity|]. split; [reflexivity|].
      apply remove_last_app. rewrite calc_strides_length. exact Hin.
    + (* middle *)
      replace (Z.of_nat (S ax) =? zlen (shp (d_ap T)) - 1) with false by (unfold zlen; rewrite Hlen; lia).
      replace (zlen (shp (d_ap v)) + 1 <? Z.of_nat (S ax)) with false
        by (cbn [v slab1_sliced d_ap shp]; unfold zlen; rewrite remove_length by exact Hax; lia).
      rewrite Nat2Z.id.
      eexists. exists (nth (S (S ax)) (calc_strides sh) 0). split; [reflexivity|].
      cbn [v slab1_sliced d_ap shp str ord d_old d_buf d_off d_len fin d_view].
      split; [apply slab1_same_win|].
      split; [apply insert_remove; exact Hax|]. split; [reflexivity|]. split; [reflexivity|].
      apply unsqueeze_strides. rewrite calc_strides_length. lia.
Qed.

(* the extent-one cases that go through assignArray *)
Lemma concat_step_fixup σc b sh ax ti (rest : list nat) start T :
  pos_shape sh -> (ax < length sh)%nat ->
  in_buf σc (fresh_ret b sh) -> wf_dense σc T -> d_buf T <> b ->
  shp (d_ap T) = upd sh ax 1 -> 0 <= start -> start + 1 <= nth ax sh 0 ->
  (is_vector (shp (d_ap T)) = true -> length (shp (d_ap T)) = 2%nat -> requires_iterator T = false) ->
  is_scalar_equiv (shp (d_ap T)) = false -> ~ (ax = 0%nat /\ length sh = 2%nat) ->
  exists σ2,
    match concat_move σc (fresh_ret b sh) (Z.of_nat ax) ti T 1
            (slab1_sliced b sh ax start (mkAP (remove_nth_s ax sh) (remove_nth_s ax (calc_strides sh)) (slab_ord sh ax) true)) with
    | Ok σ2 => concat_loop V σ2 (fresh_ret b sh) (Z.of_nat ax) rest (start + 1)
    | Err => Err
    | Panic => Panic
    end = concat_loop V σ2 (fresh_ret b sh) (Z.of_nat ax) rest (start + 1) /\
    slab_assigned σc σ2 (slab_view b sh ax start 1) T.
Proof.
  intros Hp Hax Hin WT HbT HshT Hstart Hen HgT Ese Hnot.
  assert (Hlen : length (shp (d_ap T)) = length sh) by (rewrite HshT; apply upd_len).
  assert (Wslab : wfv σc (slab_view b sh ax start 1)) by (apply slab_wfv; try assumption; lia).
  assert (Hsep : sep (slab_view b sh ax start 1) T) by (left; cbn [slab_view d_buf]; congruence).
  destruct (concat_fix_one σc b sh ax ti T start Hp Hax HshT Ese Hnot) as (v' & z & Hfix & Hsw & Hsv & Hov & Holdv & Hstv).
  unfold concat_move. rewrite Hfix.
  assert (Hl' : length (str (d_ap v')) = length (shp (d_ap (slab_view b sh ax start 1)))).
  { rewrite Hstv, upd_len, calc_strides_length. cbn [slab_view d_ap shp]. rewrite upd_len. reflexivity. }
  assert (Hd' : forall c, inbox (shp (d_ap (slab_view b sh ax start 1))) c ->
                 dot (str (d_ap v')) c = dot (str (d_ap (slab_view b sh ax start 1))) c).
  { intros c Hc. rewrite Hstv. cbn [slab_view d_ap str shp] in *. apply dot_upd_left.
    pose proof (inbox_nth _ _ ax Hc ltac:(rewrite upd_len; exact Hax)) as Hx. rewrite nth_upd_eq in Hx by exact Hax. lia. }
  assert (Hne' : shp (d_ap T) <> []).
  { intro Hn. rewrite Hn in Hlen. cbn [length] in Hlen. lia. }
  assert (Hg' : is_vector (shp (d_ap T)) = true -> length (shp (d_ap T)) = 2%nat ->
     (requires_iterator (slab_view b sh ax start 1) = false /\ requires_iterator T = false) \/
     (exists n, shp (d_ap T) = [n; 1] /\ 2 <= n /\ requires_iterator T = false /\
                requires_iterator (slab_view b sh ax start 1) = true)).
  { intros Hv L2. pose proof (HgT Hv L2) as HrT.
    destruct (requires_iterator (slab_view b sh ax start 1)) eqn:Ers; [right|left; split; [reflexivity|exact HrT]].
    rewrite Hlen in L2. destruct sh as [|n [|tot [|? ?]]]; cbn [length] in L2; try lia.
    destruct ax as [|[|ax]]; cbn [length] in Hax; try lia.
    - exfalso. apply Hnot. split; reflexivity.
    - cbn [upd] in HshT. exists n. split; [exact HshT|]. split; [|split; [exact HrT|reflexivity]].
      rewrite HshT in Ese. unfold is_scalar_equiv in Ese. cbn [forallb] in Ese. inversion Hp as [|? ? Hn1 _]; subst. lia. }
  destruct (move_assign σc (slab_view b sh ax start 1) v' T Wslab Hsw Hsv Hov Holdv Hl' Hd' WT Hsep (eq_sym HshT) Hne' Hg')
    as (σ2 & Ea & Hsa).
  exists σ2. rewrite Ea. split; [reflexivity|exact Hsa].
Qed.

(* ---- one iteration of denseConcat, every case ---- *)
Lemma concat_step σc b sh ax ti rest start T :
  pos_shape sh -> (ax < length sh)%nat ->
  in_buf σc (fresh_ret b sh) -> get_t σc ti = Some T -> wf_dense σc T -> d_buf T <> b ->
  shp (d_ap T) = upd sh ax (ext_d ax T) -> 1 <= ext_d ax T -> 0 <= start -> start + ext_d ax T <= nth ax sh 0 ->
  (is_vector (shp (d_ap T)) = true -> length (shp (d_ap T)) = 2%nat -> requires_iterator T = false) ->
  exists σ2, concat_loop V σc (fresh_ret b sh) (Z.of_nat ax) (ti :: rest) start
             = concat_loop V σ2 (fresh_ret b sh) (Z.of_nat ax) rest (start + ext_d ax T) /\
             slab_assigned σc σ2 (slab_view b sh ax start (ext_d ax T)) T.
Proof.
  intros Hp Hax Hin Hgt WT HbT HshT HeT Hstart Hen HgT.
  assert (Hlen : length (shp (d_ap T)) = length sh) by (rewrite HshT; apply upd_len).
  assert (Hzg : zget (shp (d_ap T)) (Z.of_nat ax) = Some (ext_d ax T)).
  { rewrite (zget_nth 0) by (unfold zlen; rewrite Hlen; lia). rewrite Nat2Z.id. reflexivity. }
  destruct (Z.eq_dec (ext_d ax T) 1) as [E1|E1].
  2:{ (* extent >= 2 *)
    destruct (move_general σc b sh ax ti T start Hp Hax Hin WT HbT HshT ltac:(lia) Hstart Hen HgT) as (σ2 & Em & Hsa).
    exists σ2. split; [|exact Hsa].
    rewrite (concat_loop_move σc _ _ ti rest start T _ (slab_view b sh ax start (ext_d ax T)) Hgt Hzg); [rewrite Em; reflexivity|].
    rewrite Nat2Z.id. apply slice_val_slab; try assumption. lia. }
  rewrite E1 in *.
  destruct (is_scalar_equiv (shp (d_ap T))) eqn:Ese.
  { (* a single element *)
    destruct (move_scalar σc b sh ax ti T start Hp Hax Hin WT HbT HshT Hstart Hen Ese) as (σ2 & Em & Hsa).
    exists σ2. split; [|exact Hsa].
    rewrite (concat_loop_move σc _ _ ti rest start T _ (slab1_sliced b sh ax start scalar_ap) Hgt Hzg); [rewrite Em; reflexivity|].
    rewrite Nat2Z.id. apply slice_val_slab1_gen; try assumption. apply ap_S_slab_scalar; try assumption.
    rewrite <- HshT. apply scalar_equiv_size1; [apply (wf_pos _ _ _ WT)|exact Ese]. }
  assert (Hsz : size (upd sh ax 1) <> 1).
  { rewrite <- HshT. pose proof (scalar_equiv_size _ (wf_pos _ _ _ WT) Ese). lia. }
  assert (Hsl : slice_val V σc (fresh_ret b sh) (repeat None (Z.to_nat (Z.of_nat ax)) ++ [Some (start, start + 1, 1)])
                = Ok (slab1_sliced b sh ax start (mkAP (remove_nth_s ax sh) (remove_nth_s ax (calc_strides sh)) (slab_ord sh ax) true))).
  { rewrite Nat2Z.id. apply slice_val_slab1_gen; try assumption. apply ap_S_slab1; assumption. }
  rewrite (concat_loop_move σc _ _ ti rest start T _ _ Hgt Hzg Hsl).
  assert (Wslab : wfv σc (slab_view b sh ax start 1)) by (apply slab_wfv; try assumption; lia).
  assert (Hsep : sep (slab_view b sh ax start 1) T) by (left; cbn [slab_view d_buf]; congruence).
  destruct (Nat.eq_dec ax 0) as [Hax0|Hax0]; [destruct (Nat.eq_dec (length sh) 2) as [Hl2|Hl2]|].
  - (* a row vector (1,n) along axis 0 *)
    subst ax. destruct sh as [|tot [|n [|? ?]]]; cbn [length] in Hl2; try lia.
    cbn [upd] in HshT.
    assert (Hn : 2 <= n).
    { rewrite HshT in Ese. unfold is_scalar_equiv in Ese. cbn [forallb] in Ese. inversion Hp as [|? ? _ Hp']; subst.
      inversion Hp' as [|? ? Hn1 _]; subst. lia. }
    destruct (move_rowvec σc b tot n ti T start Hp Hin WT HbT HshT Hn Hstart Hen) as (σ2 & Em & Hsa).
    { apply HgT; [|rewrite HshT; reflexivity]. rewrite HshT. unfold is_vector, is_colvec, is_rowvec.
      replace ((1 =? 1) && (1 <? n)) with true by lia. rewrite orb_true_r. reflexivity. }
    exists σ2. split; [|exact Hsa]. change (Z.of_nat 0) with 0. rewrite Em. reflexivity.
  - apply (concat_step_fixup σc b sh ax ti rest start T); try assumption. lia.
  - apply (concat_step_fixup σc b sh ax ti rest start T); try assumption. lia.
Qed.

End ConcatMove.

Section ConcatThm.
Variable V : Type.
Variable vzero : V.

Notation store := (store V).
Notation win_get := (win_get V).
Notation frame_ok := (frame_ok V).
Notation in_buf := (in_buf V).
Notation cell := (cell V).
Notation wf_dense := (wf_dense V).
Notation wfv := (wfv V).
Notation bufs := (bufs V).
Notation tens := (tens V).
Notation get_t := (get_t V).
Notation get_buf := (get_buf V).
Notation ext_of := (ext_of V).
Notation fresh_result := (fresh_result V).
Notation concat_src := (concat_src V).

(* what Concat needs of an operand, relative to the result shape sh: well-formed, the result's
   shape off the axis; GUARD: row/column vectors (vector shapes of rank 2) contiguous *)
Definition concat_operand (σ : store) (sh : list Z) (ax : nat) (d : dense) : Prop :=
  wf_dense σ d /\ shp (d_ap d) = upd sh ax (ext_d ax d) /\
  (is_vector (shp (d_ap d)) = true -> length (shp (d_ap d)) = 2%nat -> requires_iterator d = false).

Lemma pos_shape_nth s n : pos_shape s -> (n < length s)%nat -> 1 <= nth n s 0.
Proof. intros Hp Hn. unfold pos_shape in Hp. rewrite Forall_forall in Hp. apply Hp. apply nth_In. exact Hn. Qed.

Lemma concat_operand_ext σ sh ax d : (ax < length sh)%nat -> concat_operand σ sh ax d -> 1 <= ext_d ax d.
Proof.
  intros Hax (W & Hs & _). unfold ext_d. apply pos_shape_nth; [apply (wf_pos _ _ _ W)|]. rewrite Hs, upd_len. exact Hax.
Qed.

Lemma concat_loop_spec σ σ1 sh ax all :
  let b := length (bufs σ) in
  let ret := fresh_ret b sh in
  pos_shape sh -> (ax < length sh)%nat ->
  ext_of σ σ1 -> in_buf σ1 ret ->
  (forall d, In d all -> concat_operand σ sh ax d) ->
  nth ax sh 0 = sumz (map (ext_d ax) all) ->
  forall ids n σc, Forall2 (fun i d => get_t σ i = Some d) ids (skipn n all) ->
  frame_ok σ1 σc ret ->
  (forall c, inbox sh c -> nth ax c 0 < sumz (map (ext_d ax) (firstn n all)) ->
             cell σc ret c = concat_src σ all ax c (nth ax c 0)) ->
  exists σ', concat_loop V σc ret (Z.of_nat ax) ids (sumz (map (ext_d ax) (firstn n all))) = Ok σ' /\
    frame_ok σ1 σ' ret /\
    (forall c, inbox sh c -> cell σ' ret c = concat_src σ all ax c (nth ax c 0)).
Proof.
  intros b ret Hp Hax He Hin1 Hall Htot.
  assert (Hnn : Forall (fun d => 0 <= ext_d ax d) all).
  { apply Forall_forall. intros d Hd. pose proof (concat_operand_ext σ sh ax d Hax (Hall d Hd)). lia. }
  induction ids as [|ti ids IH]; intros n σc Hids Hfr Hinv.
  - destruct (skipn n all) as [|T0 ds0] eqn:Hsk; [|inversion Hids].
    exists σc. cbn [concat_loop]. split; [reflexivity|]. split; [exact Hfr|].
    intros c Hc. apply Hinv; [exact Hc|].
    pose proof (sumz_map_split (ext_d ax) n all) as Hsp. rewrite Hsk in Hsp. cbn [map sumz] in Hsp.
    pose proof (inbox_nth _ _ ax Hc Hax). lia.
  - destruct (skipn n all) as [|T ds'] eqn:Hsk; [inversion Hids|].
    inversion Hids as [|? ? ? ? HtT Hids']; subst.
    destruct (skipn_cons_nth _ _ _ _ Hsk) as [HnT Hsk'].
    assert (HinT : In T all) by (eapply nth_error_In; exact HnT).
    pose proof (concat_operand_ext σ sh ax T Hax (Hall T HinT)) as HeT.
    destruct (Hall T HinT) as (WT & HshT & HgT).
    set (start := sumz (map (ext_d ax) (firstn n all))) in *. set (ext := ext_d ax T) in *.
    assert (Hstart : 0 <= start) by (apply sumz_map_nonneg; apply Forall_firstn_; exact Hnn).
    assert (Hnext : sumz (map (ext_d ax) (firstn (S n) all)) = start + ext).
    { rewrite (firstn_S_nth _ _ _ HnT), map_app, sumz_app. cbn [map sumz]. fold ext. unfold start. lia. }
    assert (Hen : start + ext <= nth ax sh 0).
    { rewrite Htot, (sumz_map_split (ext_d ax) (S n) all), Hnext.
      pose proof (sumz_map_nonneg (ext_d ax) _ (Forall_skipn_ _ (S n) all Hnn)). lia. }
    assert (Hinc : in_buf σc ret) by (eapply frame_in_buf; eassumption).
    set (v := slab_view b sh ax start ext).
    assert (Hgt : get_t σc ti = Some T).
    { destruct Hfr as (Ht & _). destruct He as (Ht1 & _). unfold Mem.get_t in *. rewrite Ht, Ht1. exact HtT. }
    pose proof (wf_buf_lt V σ T WT) as HbT.
    assert (WT1 : wf_dense σ1 T) by (eapply ext_of_wf; eassumption).
    assert (WTc : wf_dense σc T).
    { apply (wf_dense_rebuf V σ1 σc T WT1). eapply frame_in_buf; [exact Hfr|apply (wf_win _ _ _ WT1)]. }
    destruct (concat_step V vzero σc b sh ax ti ids start T Hp Hax Hinc Hgt WTc ltac:(unfold b; lia) HshT HeT Hstart Hen HgT)
      as (σ2 & El & Fr2 & Hcells & Hoth).
    fold ret in El. fold ext in El, Fr2, Hcells, Hoth. fold v in Fr2, Hcells, Hoth. rewrite El.
    assert (Wv : wfv σc v) by (apply slab_wfv; assumption).
    assert (Fr2r : frame_ok σc σ2 ret).
    { eapply frame_ok_sub; [exact Fr2|reflexivity| |].
      - cbn [ret fresh_ret v slab_view d_off]. pose proof (size_pos _ (pos_shape_skipn (S ax) sh Hp)). nia.
      - destruct (wv_win _ _ _ Wv) as [_ Hw]. destruct Hinc as [_ Hi]. cbn [ret fresh_ret d_off d_len d_buf] in *.
        pose proof (slab_len sh ax start ext Hp Hax) as Hsl'.
        change (d_len (slab_view 0 sh ax start ext)) with (d_len v) in Hsl'.
        cbn [v slab_view d_off d_len]. pose proof (size_pos _ (pos_shape_skipn (S ax) sh Hp)).
        assert (0 <= (nth ax sh 0 - (start + ext)) * size (skipn (S ax) sh)) by (apply Z.mul_nonneg_nonneg; lia).
        lia. }
    rewrite <- Hnext. apply (IH (S n) σ2).
    + rewrite Hsk'. exact Hids'.
    + eapply frame_ok_trans; eassumption.
    + rewrite Hnext. intros c Hc Hx.
      destruct (Z_lt_dec (nth ax c 0) start) as [Hlt|Hge].
      * rewrite <- (Hinv c Hc Hlt). apply (slab_untouched V σc σ2 b sh ax start ext c); try assumption. lia.
      * pose proof (inbox_nth _ _ ax Hc Hax) as Hxr.
        destruct (slab_cell V σ2 b sh ax start ext c Hp Hax Hstart HeT Hen) as [Hc1 Hcv];
          [eapply frame_in_buf; eassumption|exact Hc|lia|].
        fold ret in Hcv. fold v in Hcv. rewrite Hcv.
        rewrite Hcells by exact Hc1.
        rewrite (concat_src_nth V σ ax c all n T (nth ax c 0) HnT Hnn) by (fold start; fold ext; lia).
        fold start. unfold OpsProofs.cell.
        rewrite (frame_sep_get V σ1 σc ret T _ Hfr) by (left; cbn [ret fresh_ret d_buf]; unfold b; lia).
        apply ext_of_win; assumption.
Qed.

Definition concat_post (σ σ' : store) (ret : dense) (all : list dense) (ax : nat) (sh : list Z) : Prop :=
  fresh_result σ σ' ret sh /\
  forall c, inbox sh c -> cell σ' ret c = concat_src σ all ax c (nth ax c 0).

(* S3: Concat *)
Theorem concat_spec σ t axis others a ods :
  get_t σ t = Some a -> Forall2 (fun o d => get_t σ o = Some d) others ods ->
  0 <= axis < zlen (shp (d_ap a)) ->
  let ax := Z.to_nat axis in
  let all := a :: ods in
  let sh := upd (shp (d_ap a)) ax (sumz (map (ext_d ax) all)) in
  (forall d, In d all -> wf_dense σ d /\ agree_off ax (shp (d_ap a)) (shp (d_ap d)) /\
     (is_vector (shp (d_ap d)) = true -> length (shp (d_ap d)) = 2%nat -> requires_iterator d = false)) ->
  exists σ' ret, m_concat V vzero σ t axis others = Ok (σ', ret) /\ concat_post σ σ' ret all ax sh.
Proof.
  intros Ht Hods Hax ax all sh Hall.
  set (s0 := shp (d_ap a)) in *.
  assert (Haxn : (ax < length s0)%nat) by (unfold ax, zlen in *; lia).
  unfold m_concat. rewrite Ht. rewrite (flat_map_get V σ others ods Hods).
  rewrite (Forall2_length _ _ _ Hods), Nat.eqb_refl. cbn [negb]. fold s0.
  assert (Hsc : shape_concat s0 axis (map (fun d => shp (d_ap d)) ods) = Some sh).
  { apply shape_concat_spec. cbv zeta. replace (axis =? -1) with false by lia. fold ax. split; [exact Hax|]. split.
    - apply Forall_forall. intros x Hx. apply in_map_iff in Hx. destruct Hx as (d & <- & Hd).
      destruct (Hall d (or_intror Hd)) as (_ & Hag & _). exact Hag.
    - unfold sh, all. cbn [map sumz]. rewrite map_map. reflexivity. }
  rewrite Hsc.
  assert (Hlsh : length sh = length s0) by apply upd_len.
  assert (Hne : sh <> []) by (intro Hn; rewrite Hn in Hlsh; cbn [length] in Hlsh; lia).
  rewrite fresh_eq by exact Hne. cbv iota beta. replace (axis <? 0) with false by lia.
  set (σ1 := mkStore V (bufs σ ++ [repeat vzero (Z.to_nat (size sh))]) (tens σ)).
  fold (fresh_ret (length (bufs σ)) sh).
  assert (Hops : forall d, In d all -> concat_operand σ sh ax d).
  { intros d Hd. destruct (Hall d Hd) as (W & Hag & Hg). split; [exact W|]. split; [|exact Hg].
    unfold sh. rewrite upd_twice. apply agree_off_eq. exact Hag. }
  assert (Hext1 : forall d, In d all -> 1 <= ext_d ax d).
  { intros d Hd. destruct (Hall d Hd) as (W & (Hl & _) & _). unfold ext_d. apply pos_shape_nth; [apply (wf_pos _ _ _ W)|].
    rewrite Hl. exact Haxn. }
  assert (Hp : pos_shape sh).
  { apply pos_shape_upd.
    - destruct (Hall a (or_introl eq_refl)) as (W & _). apply (wf_pos _ _ _ W).
    - unfold all. cbn [map sumz]. pose proof (Hext1 a (or_introl eq_refl)).
      assert (0 <= sumz (map (ext_d ax) ods)).
      { apply sumz_map_nonneg. apply Forall_forall. intros d Hd. pose proof (Hext1 d (or_intror Hd)). lia. }
      lia. }
  pose proof (size_pos sh Hp) as Hsz.
  assert (He : ext_of σ σ1) by apply fresh_ext.
  assert (Hin1 : in_buf σ1 (fresh_ret (length (bufs σ)) sh)) by (apply fresh_in_buf; lia).
  destruct (concat_loop_spec σ σ1 sh ax all Hp ltac:(lia) He Hin1 Hops) with (ids := t :: others) (n := 0%nat) (σc := σ1)
    as (σ' & El & Fr & Hcells).
  { unfold sh. rewrite nth_upd_eq by exact Haxn. reflexivity. }
  { cbn [skipn]. constructor; assumption. }
  { apply frame_ok_refl. }
  { intros c Hc Hx. cbn [firstn map sumz] in Hx. pose proof (inbox_nth _ _ ax Hc ltac:(lia)). lia. }
  cbn [firstn map sumz] in El. unfold ax in El. rewrite Z2Nat.id in El by lia. rewrite El.
  exists σ', (fresh_ret (length (bufs σ)) sh). split; [reflexivity|]. split; [|exact Hcells].
  apply (fresh_result_intro V vzero σ σ' (size sh) sh 0); [reflexivity|lia|exact Fr].
Qed.

(* the explicit form: operand number j covers [start_j, start_j + extent_j) of the axis *)
Corollary concat_post_nth σ σ' ret all ax sh : concat_post σ σ' ret all ax sh ->
  Forall (fun d => 0 <= ext_d ax d) all ->
  forall j d c, nth_error all j = Some d -> inbox sh c ->
    let start := sumz (map (ext_d ax) (firstn j all)) in
    start <= nth ax c 0 < start + ext_d ax d ->
    cell σ' ret c = cell σ d (upd c ax (nth ax c 0 - start)).
Proof.
  intros (_ & Hc) Hnn j d c Hj Hin start Hx. rewrite (Hc c Hin). apply concat_src_nth; assumption.
Qed.

End ConcatThm.

(* ====================================================================================== *)
(*  S2, view path: doViewStack over the operands' iterator sequences                      *)
(* ====================================================================================== *)
Lemma concat_all_nil {A} : forall (ls : list (list A)), (forall l, In l ls -> l = []) -> concat ls = [].
Proof.
  induction ls as [|l ls IH]; intro H; cbn [concat]; [reflexivity|].
  rewrite (H l (or_introl eq_refl)), IH; [reflexivity|]. intros l' Hl'. apply H. right. exact Hl'.
Qed.

Lemma view_stack_loop_nil {A} (n : nat) : forall f (its : list (list A)), (forall l, In l its -> l = []) ->
  view_stack_loop A f its n = [].
Proof.
  induction f as [|f IH]; intros its H; cbn [view_stack_loop]; [reflexivity|].
  rewrite concat_all_nil, IH; [reflexivity| |].
  - intros l Hl. apply in_map_iff in Hl. destruct Hl as (l0 & <- & Hl0). rewrite (H l0 Hl0). destruct n; reflexivity.
  - intros l Hl. apply in_map_iff in Hl. destruct Hl as (l0 & <- & Hl0). rewrite (H l0 Hl0). destruct n; reflexivity.
Qed.

Lemma concat_length_const {A} (n : nat) : forall (ls : list (list A)), (forall l, In l ls -> length l = n) ->
  length (concat ls) = (length ls * n)%nat.
Proof.
  induction ls as [|l ls IH]; intro H; cbn [concat length]; [reflexivity|].
  rewrite app_length, (H l (or_introl eq_refl)), IH; [lia|]. intros l' Hl'. apply H. right. exact Hl'.
Qed.

Lemma concat_nth_const {A} (n : nat) : forall (ls : list (list A)) j i, (forall l, In l ls -> length l = n) ->
  (j < length ls)%nat -> (i < n)%nat ->
  nth_error (concat ls) (j * n + i) = nth_error (nth j ls []) i.
Proof.
  induction ls as [|l ls IH]; intros j i H Hj Hi; cbn [length] in Hj; [lia|].
  pose proof (H l (or_introl eq_refl)) as Hl. cbn [concat]. destruct j as [|j]; cbn [nth].
  - rewrite nth_error_app1 by lia. reflexivity.
  - rewrite nth_error_app2 by lia. replace (S j * n + i - length l)%nat with (j * n + i)%nat by lia.
    apply IH; [intros l' Hl'; apply H; right; exact Hl'|lia|exact Hi].
Qed.

Lemma nth_map_nil {A} (f : list A -> list A) (its : list (list A)) j : (j < length its)%nat ->
  nth j (map f its) [] = f (nth j its []).
Proof. intro Hj. rewrite (nth_indep _ [] (f []))  by (rewrite map_length; exact Hj). apply map_nth. Qed.

Lemma view_stack_loop_nth {A} (n : nat) : forall (NO : nat) (its : list (list A)) f, (0 < n)%nat ->
  (forall l, In l its -> length l = (NO * n)%nat) -> (NO <= f)%nat ->
  length (view_stack_loop A f its n) = (NO * length its * n)%nat /\
  forall b j i, (b < NO)%nat -> (j < length its)%nat -> (i < n)%nat ->
    nth_error (view_stack_loop A f its n) ((b * length its + j) * n + i) = nth_error (nth j its []) (b * n + i).
Proof.
  induction NO as [|NO IH]; intros its f Hn Hl Hf.
  - rewrite view_stack_loop_nil; [split; [reflexivity|intros; lia]|].
    intros l Hin. specialize (Hl l Hin). destruct l; [reflexivity|cbn [length] in Hl; lia].
  - destruct f as [|f]; [lia|]. cbn [view_stack_loop].
    assert (Hh : forall l, In l (map (firstn n) its) -> length l = n).
    { intros l Hin. apply in_map_iff in Hin. destruct Hin as (l0 & <- & Hl0). rewrite firstn_length, (Hl l0 Hl0). lia. }
    assert (Ht : forall l, In l (map (skipn n) its) -> length l = (NO * n)%nat).
    { intros l Hin. apply in_map_iff in Hin. destruct Hin as (l0 & <- & Hl0). rewrite skipn_length, (Hl l0 Hl0). lia. }
    destruct (IH (map (skipn n) its) f Hn Ht ltac:(lia)) as [IHl IHn]. rewrite map_length in IHl, IHn.
    pose proof (concat_length_const n _ Hh) as Hcl. rewrite map_length in Hcl.
    split; [rewrite app_length, Hcl, IHl; lia|].
    intros b j i Hb Hj Hi. destruct b as [|b].
    + rewrite nth_error_app1 by (rewrite Hcl; nia). cbn [Nat.mul Nat.add].
      rewrite concat_nth_const by (try rewrite map_length; assumption).
      rewrite nth_map_nil by exact Hj. apply MemProofs.nth_error_firstn_lt. exact Hi.
    + rewrite nth_error_app2 by (rewrite Hcl; nia). rewrite Hcl.
      replace ((S b * length its + j) * n + i - length its * n)%nat with ((b * length its + j) * n + i)%nat by nia.
      rewrite IHn by (try lia; assumption). rewrite nth_map_nil by exact Hj.
      rewrite MemProofs.nth_error_skipn_add. f_equal. lia.
Qed.

Section StackView.
Variable V : Type.
Variable vzero : V.

Notation store := (store V).
Notation win_get := (win_get V).
Notation frame_ok := (frame_ok V).
Notation in_buf := (in_buf V).
Notation cell := (cell V).
Notation wf_dense := (wf_dense V).
Notation bufs := (bufs V).
Notation tens := (tens V).
Notation get_t := (get_t V).
Notation wrote := (wrote V).
Notation ext_of := (ext_of V).
Notation stack_post := (stack_post V).

(* the iterator sequence of a well-formed operand: its logical elements in row-major order *)
Definition lin_vals (σ : store) (x : dense) (vs : list V) : Prop :=
  Forall2 (fun o v => win_get σ x o = Some v) (offsets (d_ap x)) vs.

Lemma stack_seqs σ1 : forall all, (forall x, In x all -> wf_dense σ1 x) ->
  exists vals,
    map (fun d => match iter_all (d_ap d) with Some idx => win_gather V σ1 d idx | None => None end) all = map Some vals /\
    Forall2 (lin_vals σ1) all vals.
Proof.
  induction all as [|x all IH]; intro Hw.
  - exists []. split; [reflexivity|constructor].
  - destruct IH as (vals & Em & F); [intros y Hy; apply Hw; right; exact Hy|].
    pose proof (Hw x (or_introl eq_refl)) as W.
    destruct (win_gather_ok V σ1 x (wf_win _ _ _ W) (offsets (d_ap x)) (wf_range _ _ _ W)) as (vs & Eg & Fg).
    exists (vs :: vals). cbn [map]. rewrite Em.
    rewrite (iter_all_spec (d_ap x) (wf_pos _ _ _ W) (wf_len _ _ _ W)). fold (offsets (d_ap x)). rewrite Eg.
    split; [reflexivity|constructor; assumption].
Qed.

Lemma stack_view_data_eq σ1 all A batches : (forall x, In x all -> wf_dense σ1 x) ->
  exists vals, stack_view_data V σ1 all A batches = Some (view_stack_loop V (Z.to_nat batches) vals (Z.to_nat A)) /\
               Forall2 (lin_vals σ1) all vals.
Proof.
  intro Hw. destruct (stack_seqs σ1 all Hw) as (vals & Em & F). exists vals. split; [|exact F].
  unfold stack_view_data. rewrite Em.
  assert (H1 : forallb (fun s : option (list V) => match s with Some _ => true | None => false end) (map Some vals) = true).
  { apply forallb_forall. intros s Hs. apply in_map_iff in Hs. destruct Hs as (l & <- & _). reflexivity. }
  rewrite H1. cbn [negb]. rewrite map_map. cbn beta iota. rewrite map_id. reflexivity.
Qed.

Lemma lin_vals_nth σ x vs sh m : wf_dense σ x -> shp (d_ap x) = sh -> lin_vals σ x vs -> 0 <= m < size sh ->
  nth_error vs (Z.to_nat m) = cell σ x (unrank sh m) /\ length vs = Z.to_nat (size sh).
Proof.
  intros W Hs F Hm. split.
  - assert (Ho : nth_error (offsets (d_ap x)) (Z.to_nat m) = Some (dot (str (d_ap x)) (unrank sh m))).
    { unfold offsets. rewrite Hs. rewrite nth_error_map, MemProofs.nth_error_coords by exact Hm. reflexivity. }
    destruct (Forall2_nth _ _ _ F _ _ Ho) as (v & Hv & Hg). rewrite Hv. unfold OpsProofs.cell. symmetry. exact Hg.
  - rewrite <- (Forall2_length _ _ _ F), offsets_length, Hs. reflexivity.
Qed.

(* S2, at least one operand needs an iterator: denseViewStack *)
Theorem stack_view_spec σ t axis others dt ods sh :
  get_t σ t = Some dt -> Forall2 (fun o d => get_t σ o = Some d) others ods ->
  (forall x, In x (dt :: ods) -> wf_dense σ x /\ shp (d_ap x) = sh) ->
  forallb (fun d => negb (requires_iterator d)) (dt :: ods) = false ->
  0 <= axis <= zlen sh ->
  exists σ' ret, m_stack V vzero σ t axis others = Ok (σ', ret) /\
                 stack_post σ σ' ret (dt :: ods) (Z.to_nat axis) sh.
Proof.
  intros Ht Hods Hops Hnc Hax.
  destruct (Hops dt (or_introl eq_refl)) as (Wt & Hst).
  rewrite (m_stack_unfold V vzero σ t axis others dt ods Ht Hods) by (rewrite ?Hst; try exact Hax; apply (wf_rm _ _ _ Wt)).
  cbv zeta. rewrite Hst, Hnc.
  set (all := dt :: ods) in *. set (a := Z.to_nat axis).
  set (newShape := insert_at a (zlen all) sh).
  set (σ1 := mkStore V (bufs σ ++ [repeat vzero (Z.to_nat (size newShape))]) (tens σ)).
  set (ret := mkDense (length (bufs σ)) 0 (size newShape) (mkAP newShape (calc_strides newShape) (ord (d_ap dt)) true) None false).
  assert (Hp : pos_shape sh) by (rewrite <- Hst; apply (wf_pos _ _ _ Wt)).
  assert (Ha : (a <= length sh)%nat) by (unfold a, zlen in *; lia).
  assert (Hk : 0 < zlen all) by (unfold all; rewrite zlen_cons; pose proof (zlen_nonneg ods); lia).
  pose proof (size_firstn_skipn a sh) as Hsz.
  pose proof (size_pos _ (pos_shape_skipn a sh Hp)) as HA.
  pose proof (size_pos _ (pos_shape_firstn a sh Hp)) as HO.
  set (A := size (skipn a sh)) in *. set (NO := size (firstn a sh)) in *.
  assert (Hns : size newShape = NO * zlen all * A) by (unfold newShape; rewrite size_insert_at by exact Ha; rewrite Hsz; ring).
  destruct (stack_setup V vzero σ all sh (size newShape) (tens σ) (mkAP newShape (calc_strides newShape) (ord (d_ap dt)) true) None false)
    as (He & Hops1); [exact Hops|reflexivity|].
  fold σ1 in He, Hops1. fold ret in Hops1.
  assert (Hret : in_buf σ1 ret) by (apply fresh_in_buf; lia).
  assert (Hz : zget (calc_strides newShape) axis = Some A).
  { rewrite zget_nth_error by lia. fold a. unfold newShape. apply calc_strides_insert_at. exact Ha. }
  rewrite Hz. replace (A <=? 0) with false by lia.
  assert (Hq : Z.quot (size newShape) A = NO * zlen all) by (rewrite Hns; apply Z.quot_mul; lia).
  rewrite Hq.
  destruct (stack_view_data_eq σ1 all A (NO * zlen all)) as (vals & Ed & Fv); [intros x Hx; apply (Hops1 x Hx)|].
  rewrite Ed. cbv zeta.
  set (data := view_stack_loop V (Z.to_nat (NO * zlen all)) vals (Z.to_nat A)).
  assert (Hvl : length vals = length all) by (symmetry; apply (Forall2_length _ _ _ Fv)).
  assert (Hvlen : forall l, In l vals -> length l = (Z.to_nat NO * Z.to_nat A)%nat).
  { intros l Hl. apply In_nth_error in Hl. destruct Hl as (j & Hj).
    assert (Hjl : (j < length all)%nat) by (rewrite <- Hvl; apply nth_error_Some; congruence).
    destruct (nth_error all j) as [x|] eqn:Ex; [|apply nth_error_None in Ex; lia].
    destruct (Forall2_nth _ _ _ Fv _ _ Ex) as (vs & Hvs & Hlin). assert (vs = l) by congruence. subst vs.
    destruct (Hops1 x (nth_error_In _ _ Ex)) as (W1 & _). destruct (Hops x (nth_error_In _ _ Ex)) as (_ & Hsx).
    destruct (lin_vals_nth σ1 x l sh 0 W1 Hsx Hlin) as [_ ->]; [lia|]. rewrite Hsz. nia. }
  destruct (view_stack_loop_nth (Z.to_nat A) (Z.to_nat NO) vals (Z.to_nat (NO * zlen all)) ltac:(lia) Hvlen) as [Hdl Hdn].
  { assert (NO <= NO * zlen all) by nia. lia. }
  fold data in Hdl, Hdn.
  assert (Hdl' : length data = Z.to_nat (size newShape)).
  { rewrite Hdl, Hvl, Hns. unfold zlen. nia. }
  rewrite firstn_all2 by lia.
  destruct (win_scatter_spec V vzero σ1 ret (zseq 0 (length data)) data Hret) as (σ' & Es & Fr & Hv & Ho).
  { apply zseq_NoDup. } { intros i Hi. apply zseq_In in Hi. cbn [d_len ret]. lia. }
  rewrite Es. exists σ', ret. split; [reflexivity|].
  apply (stack_cells V σ σ1 σ' ret dt all a sh).
  - apply (fresh_result_intro V vzero σ σ' (size newShape) newShape (ord (d_ap dt))); [reflexivity|lia|exact Fr].
  - exact He.
  - exact Hk.
  - exact Ha.
  - exact Hp.
  - intros x Hx. apply (Hops1 x Hx).
  - fold newShape. fold A. split; [exact Fr|]. split.
    + intros p Hp'. rewrite Hns in Hp'.
      destruct (stack_q_bounds A (zlen all) NO p ltac:(lia) Hk Hp') as (Hj & Hb & Hi).
      unfold stack_g. cbv zeta.
      set (j := (p / A) mod zlen all) in *. set (bb := p / A / zlen all) in *. set (i := p mod A) in *.
      pose proof (Z.div_mod p A ltac:(lia)) as Hd1. pose proof (Z.div_mod (p / A) (zlen all) ltac:(lia)) as Hd2.
      fold i in Hd1. fold j in Hd2. fold bb in Hd2.
      assert (Hpe : p = (bb * zlen all + j) * A + i) by (rewrite Hd1 at 1; rewrite Hd2 at 1; ring).
      assert (Hjn : (Z.to_nat j < length all)%nat) by (unfold zlen in Hj; lia).
      destruct (nth_error all (Z.to_nat j)) as [x|] eqn:Ex; [|apply nth_error_None in Ex; lia].
      rewrite (nth_error_nth _ _ dt Ex).
      destruct (Forall2_nth _ _ _ Fv _ _ Ex) as (vs & Hvs & Hlin).
      destruct (Hops1 x (nth_error_In _ _ Ex)) as (W1 & _). destruct (Hops x (nth_error_In _ _ Ex)) as (_ & Hsx).
      destruct (lin_vals_nth σ1 x vs sh (bb * A + i) W1 Hsx Hlin) as [Hnv _]; [rewrite Hsz; nia|].
      rewrite <- Hnv.
      assert (Hdp : nth_error data (Z.to_nat p) = nth_error vs (Z.to_nat (bb * A + i))).
      { assert (Hnat : Z.to_nat p = ((Z.to_nat bb * length vals + Z.to_nat j) * Z.to_nat A + Z.to_nat i)%nat).
        { apply Nat2Z.inj. rewrite Z2Nat.id by lia.
          rewrite Nat2Z.inj_add, Nat2Z.inj_mul, Nat2Z.inj_add, Nat2Z.inj_mul, !Z2Nat.id by lia.
          rewrite Hvl. exact Hpe. }
        rewrite Hnat. rewrite Hdn by (try rewrite Hvl; lia). rewrite (nth_error_nth _ _ [] Hvs). f_equal. nia. }
      destruct (nth_error data (Z.to_nat p)) as [v|] eqn:Edp.
      * rewrite <- Hdp. apply (Hv (Z.to_nat p)); [|exact Edp]. rewrite zseq_nth_error by lia. f_equal. lia.
      * apply nth_error_None in Edp. lia.
    + intros p Hp'. apply Ho. intro Hin. apply zseq_In in Hin. lia.
Qed.

(* S2: both paths *)
Theorem stack_spec σ t axis others dt ods sh :
  get_t σ t = Some dt -> Forall2 (fun o d => get_t σ o = Some d) others ods ->
  (forall x, In x (dt :: ods) -> wf_dense σ x /\ shp (d_ap x) = sh) ->
  0 <= axis <= zlen sh ->
  exists σ' ret, m_stack V vzero σ t axis others = Ok (σ', ret) /\
                 stack_post σ σ' ret (dt :: ods) (Z.to_nat axis) sh.
Proof.
  intros Ht Hods Hops Hax.
  destruct (forallb (fun d => negb (requires_iterator d)) (dt :: ods)) eqn:Ef.
  - apply stack_simple_spec; try assumption. intros x Hx. destruct (Hops x Hx) as [W Hs].
    split; [exact W|]. split; [exact Hs|]. rewrite forallb_forall in Ef. specialize (Ef x Hx).
    destruct (requires_iterator x); [discriminate|reflexivity].
  - apply stack_view_spec; assumption.
Qed.

End StackView.

(* ====================================================================================== *)
(*  S5. refusals                                                                          *)
(* ====================================================================================== *)
Section Refuse.
Variable V : Type.
Variable vzero : V.
Notation store := (store V).
Notation get_t := (get_t V).

(* Concat: operands whose shapes do not fit are refused.  (The result type carries no store in
   the Err case: the caller's state is the unchanged σ.) *)
Theorem concat_refuses σ t axis others a ods :
  get_t σ t = Some a -> Forall2 (fun o d => get_t σ o = Some d) others ods ->
  let ax := if axis =? -1 then 0 else axis in
  ~ (0 <= ax < zlen (shp (d_ap a)) /\
     Forall (agree_off (Z.to_nat ax) (shp (d_ap a))) (map (fun d => shp (d_ap d)) ods)) ->
  m_concat V vzero σ t axis others = Err.
Proof.
  intros Ht Hods ax Hn. unfold m_concat. rewrite Ht, (flat_map_get V σ others ods Hods).
  rewrite (Forall2_length _ _ _ Hods), Nat.eqb_refl. cbn [negb].
  destruct (shape_concat (shp (d_ap a)) axis (map (fun d => shp (d_ap d)) ods)) as [r|] eqn:E; [|reflexivity].
  apply shape_concat_spec in E. cbv zeta in E. destruct E as (H1 & H2 & _). exfalso. apply Hn. split; assumption.
Qed.

(* Stack refuses only an axis beyond rank + 1 — it never compares the operands' shapes (see
   stack_shape_unchecked below) *)
Theorem stack_refuses_axis σ t axis others dt ods :
  get_t σ t = Some dt -> Forall2 (fun o d => get_t σ o = Some d) others ods ->
  zlen (shp (d_ap dt)) + 1 <= axis ->
  m_stack V vzero σ t axis others = Err.
Proof.
  intros Ht Hods Hax. unfold m_stack. rewrite Ht, (flat_map_get V σ others ods Hods).
  rewrite (Forall2_length _ _ _ Hods), Nat.eqb_refl. cbn [negb].
  replace (zlen (shp (d_ap dt)) + 1 <=? axis) with true by lia. reflexivity.
Qed.

(* Repeat: a wrong number of counts is refused *)
Theorem repeat_refuses σ t axis repeats d :
  get_t σ t = Some d -> 0 <= axis < zlen (shp (d_ap d)) ->
  zlen (bcast_reps repeats (nth (Z.to_nat axis) (shp (d_ap d)) 0)) <> nth (Z.to_nat axis) (shp (d_ap d)) 0 ->
  m_repeat V vzero σ t axis repeats = Err.
Proof.
  intros Ht Hax Hn. unfold m_repeat. rewrite Ht, (shape_repeat_spec _ axis repeats Hax). cbv zeta.
  replace (zlen (bcast_reps repeats (nth (Z.to_nat axis) (shp (d_ap d)) 0)) =? nth (Z.to_nat axis) (shp (d_ap d)) 0) with false by lia.
  reflexivity.
Qed.

Theorem repeat_flat_refuses σ t repeats d :
  get_t σ t = Some d ->
  zlen (bcast_reps repeats (size (shp (d_ap d)))) <> size (shp (d_ap d)) ->
  m_repeat V vzero σ t (-1) repeats = Err.
Proof.
  intros Ht Hn. unfold m_repeat. rewrite Ht, shape_repeat_flat. cbv zeta.
  replace (zlen (bcast_reps repeats (size (shp (d_ap d)))) =? size (shp (d_ap d))) with false by lia.
  reflexivity.
Qed.

End Refuse.

(* ====================================================================================== *)
(*  concrete witnesses (V := Z)                                                           *)
(* ====================================================================================== *)
(* the logical contents of a tensor VALUE, row-major *)
Definition cells_of (σ : store Z) (d : dense) : list (option Z) :=
  map (cell Z σ d) (coords (shp (d_ap d))).

Definition show_res (r : res (store Z * dense)) : res (list Z * list (option Z)) :=
  match r with Ok (σ, d) => Ok (shp (d_ap d), cells_of σ d) | Err => Err | Panic => Panic end.

(* 0: contiguous 2x2 [[1,2],[3,4]];  1: lazily transposed 2x2, logical [[10,30],[20,40]];
   2: contiguous 2x3;  3: contiguous 3x2;  4: contiguous 2x1;  5: contiguous 1x3;
   6: a step-2 view of shape 1x3 over [1..6], logical [[1,3,5]] *)
Definition exσ10 : store Z :=
  mkStore Z [[1;2;3;4]; [10;20;30;40]; [1;2;3;4;5;6]; [7;8;9;10;11;12]; [5;6]; [1;2;3]; [1;2;3;4;5;6]]
   [mkDense 0 0 4 (mkAP [2;2] [2;1] 0 true) None false;
    mkDense 1 0 4 (mkAP [2;2] [1;2] 4 true) (Some (mkAP [2;2] [2;1] 0 true)) false;
    mkDense 2 0 6 (mkAP [2;3] [3;1] 0 true) None false;
    mkDense 3 0 6 (mkAP [3;2] [2;1] 0 true) None false;
    mkDense 4 0 2 (mkAP [2;1] [1;1] 0 true) None false;
    mkDense 5 0 3 (mkAP [1;3] [3;1] 0 true) None false;
    mkDense 6 0 5 (mkAP [1;3] [6;2] 2 true) None true].

Example exσ10_wf : forallb (wf_denseb Z exσ10) (tens Z exσ10) = true.
Proof. vm_compute. reflexivity. Qed.

(* S5: StackDense does NOT compare the operands' shapes: a 2x2 and a 3x2 are "stacked" into a
   2x2x2 (the last row of the second operand is dropped) instead of being refused *)
Example stack_shape_unchecked :
  show_res (m_stack Z 0 exσ10 0 0 [3%nat]) =
  Ok ([2; 2; 2], map Some [1; 2; 3; 4; 7; 8; 9; 10]).
Proof. vm_compute. reflexivity. Qed.

(* the result of Stack inherits the data-order bits of the receiver (here Transposed = 4),
   although its strides are the row-major ones *)
Example stack_order_flag_inherited :
  match m_stack Z 0 exσ10 1 1 [0%nat] with
  | Ok (_, ret) => (ord (d_ap ret), str (d_ap ret))
  | _ => (0, [])
  end = (4, [4; 2; 1]).
Proof. vm_compute. reflexivity. Qed.

(* S4: Repeat ignores the access pattern of a lazily transposed source: it repeats the blocks of
   the STORAGE order.  NumPy: repeat([[10,30],[20,40]], 2, axis 0) = [[10,30],[10,30],[20,40],[20,40]] *)
Example repeat_view_refuted :
  cells_of exσ10 (mkDense 1 0 4 (mkAP [2;2] [1;2] 4 true) (Some (mkAP [2;2] [2;1] 0 true)) false)
    = map Some [10; 30; 20; 40] /\
  show_res (m_repeat Z 0 exσ10 1 0 [2]) = Ok ([4; 2], map Some [10; 20; 10; 20; 30; 40; 30; 40]).
Proof. vm_compute. split; reflexivity. Qed.

(* S4: the vector guard is needed — a contiguous (1,3) repeated once along axis 0 (finding F40),
   and a contiguous (2,3) repeated with counts [1;0] (result shape (1,3)) both lose elements *)
Example repeat_vec_guard_needed :
  show_res (m_repeat Z 0 exσ10 5 0 [1]) = Ok ([1; 3], map Some [1; 0; 0]) /\
  show_res (m_repeat Z 0 exσ10 2 0 [1; 0]) = Ok ([1; 3], map Some [1; 0; 0]).
Proof. vm_compute. split; reflexivity. Qed.

(* S3: the vector guard of assignArray / Concat is needed: row vectors (1,3) with a
   non-contiguous source, resp. a non-contiguous destination, make the Go code panic
   (BroadcastStrides returns ONE stride for vector shapes; the flat iterator then indexes
   strides[1]) *)
Example assign_vec_guard_needed :
  let σ := mkStore Z [[0;0;0;0;0;0]; [1;2;3;4;5;6]; [1;2;3]] [] in
  let slab := mkDense 0 0 3 (mkAP [1;3] [6;1] 0 true) None true in        (* contiguous slab of a fresh (1,6) *)
  let stepped := mkDense 1 0 5 (mkAP [1;3] [6;2] 2 true) None true in     (* [[1,3,5]] *)
  let stepdst := mkDense 0 0 5 (mkAP [1;3] [6;2] 2 true) None true in
  let plain := mkDense 2 0 3 (mkAP [1;3] [3;1] 0 true) None false in
  assign_array Z σ slab stepped = Panic /\ assign_array Z σ stepdst plain = Panic.
Proof. vm_compute. split; reflexivity. Qed.

Example concat_vec_guard_needed :
  m_concat Z 0 exσ10 5 1 [6%nat] = Panic /\ m_concat Z 0 exσ10 6 1 [5%nat] = Panic.
Proof. vm_compute. split; reflexivity. Qed.

(* operands of extent one along the axis go through the keep-dims fix-ups of denseConcat:
   (2,2) ++ (2,1) along axis 1, (1,3) ++ (1,3) along axis 0 *)
Example concat_extent_one_instances :
  show_res (m_concat Z 0 exσ10 0 1 [4%nat]) = Ok ([2; 3], map Some [1; 2; 5; 3; 4; 6]) /\
  show_res (m_concat Z 0 exσ10 5 0 [5%nat]) = Ok ([2; 3], map Some [1; 2; 3; 1; 2; 3]).
Proof. vm_compute. split; reflexivity. Qed.

