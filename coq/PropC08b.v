(* PropC08b.v — C08, several axes: "Summing, or taking the maximum or minimum of, any tensor along
   any SET of axes equals folding its logical elements along those axes".

   PropC08.v stops at the NESTED lane folds (C08_reduce_axes / C08_reduce_axes_partial: one fold per
   reduced axis, smallest axis first) and at MODEL = SPEC for ONE axis (C08_reduce_axis_spec).  This
   file closes the gap: for an ASSOCIATIVE and COMMUTATIVE operation the nested folds are the SPEC's
   single fold over the row-major enumeration of the reduced sub-box (Spec.spec_reduce_vals), so
   MODEL = SPEC for any set of axes (C08_reduce_axes_spec — the statement announced in the comment
   above C08_reduce_axes_partial).  Commutativity is really needed (C08_commutativity_needed): the
   axis loop folds the smallest axis first, i.e. innermost, where the SPEC's row-major fold has it
   outermost.

   Only statements; every proof is `exact <lemma of ReduceProofs2>`.

   Vocabulary (ReduceProofs.v / ReduceProofs2.v):
     fold_hd vzero op l        := fold_left op (tl l) (hd l)     -- from the first element ([] -> vzero)
     fold1 vzero op fz l       := if fz then fold_left op l vzero else fold_hd vzero op l
     lane_of g sh a c'         := [ g (insert_at a k c') | k = 0 .. sh[a]-1 ]
     red_fun vzero op fz axes k sh g := (shape, logical array) after the axis loop (nested lane folds)
     fold_axes_seq vzero op axs sh g := the same with fold_hd on every lane, the axes given as
                                  positions in what is left (so ANY order of the axes can be written)
     axes_seq_ok axs n         := each of these positions is in range
     insert_coord, spec_reduce_vals := Spec.v *)
From TV Require Import Base Index AP Iter Mem Spec Reduce IndexProofs IterProofs APProofs MemProofs ReduceProofs ReduceProofs2.
From Coq Require Import Sorted Permutation.

(* ====================================================================================== *)
(*  T1 — list algebra                                                                      *)
(* ====================================================================================== *)
(* associativity only: the fold of a concatenation is the fold of the folds of the pieces *)
Theorem C08_fold_concat : forall (V : Type) (vzero : V) (op : V -> V -> V),
  (forall a b c : V, op a (op b c) = op (op a b) c) ->
  forall ls : list (list V), Forall (fun l : list V => l <> []) ls ->
  fold_hd vzero op (concat ls) = fold_hd vzero op (map (fold_hd vzero op) ls).
Proof. exact fold_hd_concat. Qed.
Print Assumptions C08_fold_concat.

(* the same from zero, zero being a left unit *)
Theorem C08_fold_zero_concat : forall (V : Type) (vzero : V) (op : V -> V -> V),
  (forall a b c : V, op a (op b c) = op (op a b) c) -> (forall x : V, op vzero x = x) ->
  forall ls : list (list V), Forall (fun l : list V => l <> []) ls ->
  fold_left op (concat ls) vzero = fold_left op (map (fun l : list V => fold_left op l vzero) ls) vzero.
Proof. exact fold_left_zero_concat. Qed.
Print Assumptions C08_fold_zero_concat.

(* associativity and commutativity: the fold is the same in any order of the elements *)
Theorem C08_fold_perm : forall (V : Type) (vzero : V) (op : V -> V -> V),
  (forall a b c : V, op a (op b c) = op (op a b) c) -> (forall a b : V, op a b = op b a) ->
  forall l l' : list V, Permutation l l' -> fold_hd vzero op l = fold_hd vzero op l'.
Proof. exact fold_hd_perm. Qed.
Print Assumptions C08_fold_perm.

(* ... and two nested folds can be exchanged *)
Theorem C08_fold_interchange : forall (V : Type) (vzero : V) (op : V -> V -> V),
  (forall a b c : V, op a (op b c) = op (op a b) c) -> (forall a b : V, op a b = op b a) ->
  forall (A B : Type) (F : A -> B -> V) (xs : list A) (ys : list B), xs <> [] -> ys <> [] ->
  fold_hd vzero op (map (fun x : A => fold_hd vzero op (map (F x) ys)) xs)
  = fold_hd vzero op (map (fun y : B => fold_hd vzero op (map (fun x : A => F x y) xs)) ys).
Proof. exact fold_hd_interchange. Qed.
Print Assumptions C08_fold_interchange.

(* the row-major enumeration of a box: k ascending in front of the enumeration of the rest *)
Theorem C08_coords_cons : forall (d : Z) (s : list Z), 0 <= d -> pos_shape s ->
  coords (d :: s) = flat_map (fun k : Z => map (cons k) (coords s)) (zseq 0 (Z.to_nat d)).
Proof. exact coords_cons. Qed.
Print Assumptions C08_coords_cons.

Theorem C08_coords_app : forall s1 s2 : list Z, pos_shape s1 -> pos_shape s2 ->
  coords (s1 ++ s2) = flat_map (fun c1 : list Z => map (app c1) (coords s2)) (coords s1).
Proof. exact coords_app. Qed.
Print Assumptions C08_coords_app.

(* associativity only: the fold over the box d :: s is the fold over k < d of the folds over s —
   from the first element, from zero (left unit), and for fold1 *)
Theorem C08_fold_box_cons : forall (V : Type) (vzero : V) (op : V -> V -> V),
  (forall a b c : V, op a (op b c) = op (op a b) c) ->
  forall (g : list Z -> V) (d : Z) (s : list Z), 0 <= d -> pos_shape s ->
  fold_hd vzero op (map g (coords (d :: s)))
  = fold_hd vzero op
      (map (fun k : Z => fold_hd vzero op (map (fun c : list Z => g (k :: c)) (coords s))) (zseq 0 (Z.to_nat d))).
Proof. exact fold_box_cons. Qed.
Print Assumptions C08_fold_box_cons.

Theorem C08_fold_zero_box_cons : forall (V : Type) (vzero : V) (op : V -> V -> V),
  (forall a b c : V, op a (op b c) = op (op a b) c) ->
  forall (g : list Z -> V) (d : Z) (s : list Z), (forall x : V, op vzero x = x) -> 0 <= d -> pos_shape s ->
  fold_left op (map g (coords (d :: s))) vzero
  = fold_left op
      (map (fun k : Z => fold_left op (map (fun c : list Z => g (k :: c)) (coords s)) vzero) (zseq 0 (Z.to_nat d)))
      vzero.
Proof. exact fold_zero_box_cons. Qed.
Print Assumptions C08_fold_zero_box_cons.

Theorem C08_fold1_box_cons : forall (V : Type) (vzero : V) (op : V -> V -> V),
  (forall a b c : V, op a (op b c) = op (op a b) c) ->
  forall (from_zero : bool) (g : list Z -> V) (d : Z) (s : list Z),
  (from_zero = true -> forall x : V, op vzero x = x) -> 0 <= d -> pos_shape s ->
  fold1 vzero op from_zero (map g (coords (d :: s)))
  = fold1 vzero op from_zero
      (map (fun k : Z => fold1 vzero op from_zero (map (fun c : list Z => g (k :: c)) (coords s)))
           (zseq 0 (Z.to_nat d))).
Proof. exact fold1_box_cons. Qed.
Print Assumptions C08_fold1_box_cons.

(* associativity and commutativity: ANY axis of a box can be folded first ... *)
Theorem C08_fold_box_axis : forall (V : Type) (vzero : V) (op : V -> V -> V),
  (forall a b c : V, op a (op b c) = op (op a b) c) -> (forall a b : V, op a b = op b a) ->
  forall (g : list Z -> V) (sh : list Z) (a : nat), pos_shape sh -> (a < length sh)%nat ->
  fold_hd vzero op (map g (coords sh))
  = fold_hd vzero op (map (fun c' : list Z => fold_hd vzero op (lane_of g sh a c')) (coords (remove_nth a sh))).
Proof. exact fold_box_axis. Qed.
Print Assumptions C08_fold_box_axis.

(* ... so folding axes one at a time IN ANY ORDER leaves the fold of the box unchanged; with all
   the axes folded, the single value left is the fold of the row-major enumeration *)
Theorem C08_fold_box_any_order : forall (V : Type) (vzero : V) (op : V -> V -> V),
  (forall a b c : V, op a (op b c) = op (op a b) c) -> (forall a b : V, op a b = op b a) ->
  forall (axs : list nat) (sh : list Z) (g : list Z -> V), pos_shape sh -> axes_seq_ok axs (length sh) ->
  fold_hd vzero op (map (snd (fold_axes_seq vzero op axs sh g)) (coords (fst (fold_axes_seq vzero op axs sh g))))
  = fold_hd vzero op (map g (coords sh)).
Proof. exact fold_box_any_order. Qed.
Print Assumptions C08_fold_box_any_order.

Theorem C08_fold_box_all_axes_any_order : forall (V : Type) (vzero : V) (op : V -> V -> V),
  (forall a b c : V, op a (op b c) = op (op a b) c) -> (forall a b : V, op a b = op b a) ->
  forall (axs : list nat) (sh : list Z) (g : list Z -> V),
  pos_shape sh -> axes_seq_ok axs (length sh) -> length axs = length sh ->
  snd (fold_axes_seq vzero op axs sh g) [] = fold_hd vzero op (map g (coords sh)).
Proof. exact fold_box_all_axes_any_order. Qed.
Print Assumptions C08_fold_box_all_axes_any_order.

(* ====================================================================================== *)
(*  T2 — the nested lane folds of the axis loop = the SPEC's single fold                   *)
(* ====================================================================================== *)
(* strictly increasing in-range axes (possibly all of them), positive extents: the loop's shape is
   the SPEC's outer shape; its value at c' is the SPEC's fold — written exactly as in
   Spec.spec_reduce_vals — over the row-major enumeration of the inner box *)
Theorem C08_nested_folds_eq_spec_fold : forall (V : Type) (vzero : V) (op : V -> V -> V) (from_zero : bool),
  (forall a b c : V, op a (op b c) = op (op a b) c) -> (forall a b : V, op a b = op b a) ->
  (from_zero = true -> forall v : V, op vzero v = v) ->
  forall (axes sh : list Z) (g : list Z -> V),
  StronglySorted Z.lt axes -> Forall (fun ax : Z => 0 <= ax < zlen sh) axes -> pos_shape sh ->
  let dims := zseq 0 (length sh) in
  let outer_sh := map (fun i : Z => znth 0 sh i) (filter (fun i : Z => negb (existsb (Z.eqb i) axes)) dims) in
  let inner_sh := map (fun i : Z => znth 0 sh i) (filter (fun i : Z => existsb (Z.eqb i) axes) dims) in
  fst (red_fun vzero op from_zero axes 0 sh g) = outer_sh /\
  forall c' : list Z, inbox outer_sh c' ->
    let vs := map (fun ic : list Z => g (insert_coord axes c' ic)) (coords inner_sh) in
    (if from_zero then Some (fold_left op vs vzero)
     else match vs with [] => None | v :: r => Some (fold_left op r v) end)
    = Some (snd (red_fun vzero op from_zero axes 0 sh g) c').
Proof. exact red_fun_eq_spec_fold. Qed.
Print Assumptions C08_nested_folds_eq_spec_fold.

(* the SPEC only tests membership: it depends on the SET of axes *)
Theorem C08_spec_axes_perm : forall (V : Type) (vzero : V) (f : V -> V -> V) (from_zero : bool)
    (ς : sstate V) (x : sten) (axes axes' : list Z),
  Permutation axes axes' ->
  spec_reduce_vals V vzero f from_zero ς x axes = spec_reduce_vals V vzero f from_zero ς x axes'.
Proof. intro V. exact (@spec_reduce_vals_perm V). Qed.
Print Assumptions C08_spec_axes_perm.

(* ====================================================================================== *)
(*  T3 — MODEL = SPEC for a set of axes                                                    *)
(* ====================================================================================== *)
(* the hypotheses of C08_reduce_axes_partial (axes accepted by the axis loop and not taken by the
   all-axes shortcut) plus: distinct axes; op associative and commutative, zero a left unit for Sum;
   x / ς an abstract tensor holding the operand's logical content (as in C08_reduce_axis_spec) *)
Theorem C08_reduce_axes_spec : forall (V : Type) (vzero : V) (op : V -> V -> V) (from_zero : bool)
    (σ : store V) (t : nat) (d0 : dense) (along : list Z) (g : list Z -> V) (ς : sstate V) (x : sten),
  let sh := shp (d_ap d0) in
  (forall a b c : V, op a (op b c) = op (op a b) c) -> (forall a b : V, op a b = op b a) ->
  (from_zero = true -> forall v : V, op vzero v = v) ->
  get_t V σ t = Some d0 -> rwf σ d0 -> content σ d0 g ->
  (is_materializable d0 = false -> requires_iterator d0 = false /\ is_cm (ord (d_ap d0)) = false) ->
  shortcut along sh = false -> axes_ok (sort_z along) 0 sh -> NoDup along ->
  s_shape x = sh ->
  (forall c : list Z, inbox sh c ->
     nth (nth (Z.to_nat (rank_rm sh c)) (s_cells x) 0%nat) (s_vals V ς) vzero = g c) ->
  let sh' := map (fun i : Z => znth 0 sh i)
                 (filter (fun i : Z => negb (existsb (Z.eqb i) along)) (zseq 0 (length sh))) in
  exists r : list V,
    m_reduce V vzero op from_zero σ t along = (Ok (sh', r), along) /\
    spec_reduce_vals V vzero op from_zero ς x along = (sh', map Some r).
Proof. exact m_reduce_multi_axis_spec. Qed.
Print Assumptions C08_reduce_axes_spec.

(* user-level form (the hypotheses of C08_reduce_axes): distinct in-range axes, in any order, fewer
   than the rank, reduceDefault guard along the loop (automatic up to rank 3: C08_axes_guard_rank3) *)
Theorem C08_reduce_axes_set_spec : forall (V : Type) (vzero : V) (op : V -> V -> V) (from_zero : bool)
    (σ : store V) (t : nat) (d0 : dense) (along : list Z) (g : list Z -> V) (ς : sstate V) (x : sten),
  let sh := shp (d_ap d0) in
  (forall a b c : V, op a (op b c) = op (op a b) c) -> (forall a b : V, op a b = op b a) ->
  (from_zero = true -> forall v : V, op vzero v = v) ->
  get_t V σ t = Some d0 -> rwf σ d0 -> content σ d0 g ->
  (is_materializable d0 = false -> requires_iterator d0 = false /\ is_cm (ord (d_ap d0)) = false) ->
  along <> [] -> NoDup along -> Forall (fun ax : Z => 0 <= ax < zlen sh) along ->
  (length along < length sh)%nat -> axes_guard (sort_z along) 0 sh ->
  s_shape x = sh ->
  (forall c : list Z, inbox sh c ->
     nth (nth (Z.to_nat (rank_rm sh c)) (s_cells x) 0%nat) (s_vals V ς) vzero = g c) ->
  let sh' := map (fun i : Z => znth 0 sh i)
                 (filter (fun i : Z => negb (existsb (Z.eqb i) along)) (zseq 0 (length sh))) in
  exists r : list V,
    m_reduce V vzero op from_zero σ t along = (Ok (sh', r), along) /\
    spec_reduce_vals V vzero op from_zero ς x along = (sh', map Some r).
Proof. exact m_reduce_axes_set_spec. Qed.
Print Assumptions C08_reduce_axes_set_spec.

(* ====================================================================================== *)
(*  T4 — non-vacuity; commutativity is needed                                              *)
(* ====================================================================================== *)
(* Sum of the contiguous 2x3x2 tensor 0..11 along the unsorted axes [2;0]: every hypothesis of
   C08_reduce_axes_spec holds; both sides are ([3], [14;22;30]) *)
Theorem C08_reduce_axes_spec_example :
  let d0 := rm_dense [2; 3; 2] in
  let σ := mkStore Z [zseq 0 12] [d0] in
  let g := fun c => match cell Z σ d0 c with Some v => v | None => 0 end in
  let x := mkSten [2; 3; 2] (seq 0 12) None 0 false false in
  let ς := mkSS Z (zseq 0 12) [x] in
  let along := [2; 0] in
  let sh := shp (d_ap d0) in
  ((forall a b c : Z, a + (b + c) = a + b + c) /\ (forall a b : Z, a + b = b + a) /\
   (true = true -> forall v : Z, 0 + v = v) /\
   get_t Z σ 0 = Some d0 /\ rwf σ d0 /\ content σ d0 g /\
   (is_materializable d0 = false -> requires_iterator d0 = false /\ is_cm (ord (d_ap d0)) = false) /\
   shortcut along sh = false /\ axes_ok (sort_z along) 0 sh /\ NoDup along /\
   s_shape x = sh /\
   (forall c, inbox sh c -> nth (nth (Z.to_nat (rank_rm sh c)) (s_cells x) O) (s_vals Z ς) 0 = g c)) /\
  m_reduce Z 0 Z.add true σ 0 along = (Ok ([3], [14; 22; 30]), along) /\
  spec_reduce_vals Z 0 Z.add true ς x along = ([3], map Some [14; 22; 30]).
Proof. exact multi_axis_spec_example. Qed.
Print Assumptions C08_reduce_axes_spec_example.

(* associativity and the unit law alone are not enough — lists under concatenation: the loop lists
   the 2x2 box with its first axis running fastest, the SPEC with its first axis running slowest *)
Theorem C08_commutativity_needed_nested_folds :
  let op := @app Z in
  let g := fun c : list Z => [rank_rm [2; 2] c] in
  (forall a b c, op a (op b c) = op (op a b) c) /\ (forall v, op [] v = v) /\
  snd (red_fun [] op true [0; 1] 0 [2; 2] g) [] = [0; 2; 1; 3] /\
  fold_left op (map (fun ic => g (insert_coord [0; 1] [] ic)) (coords [2; 2])) [] = [0; 1; 2; 3].
Proof. exact commutativity_needed_red_fun. Qed.
Print Assumptions C08_commutativity_needed_nested_folds.

(* the same on Sum itself: the 2x2x2 tensor whose element number k is the list [k], "summed" along
   {0,2} with concatenation: MODEL [0;4;1;5], SPEC [0;1;4;5]; all other hypotheses hold *)
Theorem C08_commutativity_needed :
  let op := @app Z in
  let d0 := rm_dense [2; 2; 2] in
  let σ := mkStore (list Z) [map (fun k => [k]) (zseq 0 8)] [d0] in
  let x := mkSten [2; 2; 2] (seq 0 8) None 0 false false in
  let ς := mkSS (list Z) (map (fun k => [k]) (zseq 0 8)) [x] in
  (forall a b c, op a (op b c) = op (op a b) c) /\ (forall v, op [] v = v) /\
  rwf σ d0 /\ shortcut [0; 2] [2; 2; 2] = false /\ axes_ok (sort_z [0; 2]) 0 [2; 2; 2] /\
  m_reduce (list Z) [] op true σ 0 [0; 2] = (Ok ([2], [[0; 4; 1; 5]; [2; 6; 3; 7]]), [0; 2]) /\
  spec_reduce_vals (list Z) [] op true ς x [0; 2] = ([2], map Some [[0; 1; 4; 5]; [2; 3; 6; 7]]) /\
  ~ (forall a b, op a b = op b a).
Proof. exact commutativity_needed. Qed.
Print Assumptions C08_commutativity_needed.
