(* MemProofs.v — proofs about the dense-tensor-over-a-store MODEL of Mem.v (C03, C04, C13).
   Arbitrary element type V.  Everything is stated on ABSOLUTE buffer positions
   (allocation id, index into the allocation), so aliasing between tensors is visible. *)
From TV Require Import Base Index AP Iter Mem Spec Guards IndexProofs IterProofs APProofs.
From Coq Require Import ZifyBool.

Arguments Z.mul : simpl never.
Arguments Z.add : simpl never.
Arguments Z.sub : simpl never.
Arguments Z.leb : simpl never.
Arguments Z.ltb : simpl never.
Arguments Z.eqb : simpl never.
Arguments Z.div : simpl never.
Arguments Z.modulo : simpl never.
Arguments Z.min : simpl never.
Arguments Z.of_nat : simpl never.
Arguments Z.to_nat : simpl never.

(* ====================================================================================== *)
(*  0. generic list facts                                                                 *)
(* ====================================================================================== *)
Lemma nth_upd_same {A} (d : A) : forall (l : list A) n v, (n < length l)%nat -> nth n (upd l n v) d = v.
Proof. induction l as [|h t IH]; intros [|n] v H; cbn in *; try lia; auto. apply IH. lia. Qed.

Lemma nth_upd_other {A} (d : A) : forall (l : list A) n m v, n <> m -> nth m (upd l n v) d = nth m l d.
Proof. induction l as [|h t IH]; intros [|n] [|m] v H; cbn; auto; try congruence. Qed.

Lemma upd_nil_nth {A} (L : list (list A)) : forall b n (v : A),
  nth b (upd L b (upd (nth b L []) n v)) [] = upd (nth b L []) n v.
Proof.
  induction L as [|h t IH]; intros [|b] n v; cbn [nth upd]; try reflexivity.
  apply IH.
Qed.

Lemma upd_same_id {A} : forall (l : list A) n x, nth_error l n = Some x -> upd l n x = l.
Proof.
  induction l as [|h t IH]; intros [|n] x H; cbn in *; try discriminate.
  - congruence.
  - f_equal. apply IH. exact H.
Qed.

Lemma upd_upd {A} : forall (l : list A) n x y, upd (upd l n x) n y = upd l n y.
Proof. induction l as [|h t IH]; intros [|n] x y; cbn; auto. f_equal. apply IH. Qed.

Lemma nth_error_app_last {A} (l : list A) x : nth_error (l ++ [x]) (length l) = Some x.
Proof. rewrite nth_error_app2 by lia. rewrite Nat.sub_diag. reflexivity. Qed.

Lemma nth_app_last {A} (d : A) (l : list A) x : nth (length l) (l ++ [x]) d = x.
Proof. rewrite app_nth2 by lia. rewrite Nat.sub_diag. reflexivity. Qed.

Lemma nth_error_firstn_lt {A} : forall (l : list A) n k, (k < n)%nat ->
  nth_error (firstn n l) k = nth_error l k.
Proof.
  induction l as [|h t IH]; intros [|n] [|k] H; cbn; try lia; try reflexivity.
  apply IH. lia.
Qed.

Lemma nth_error_skipn_add {A} : forall (l : list A) m k,
  nth_error (skipn m l) k = nth_error l (m + k).
Proof.
  induction l as [|h t IH]; intros [|m] k; cbn; try reflexivity.
  - destruct k; reflexivity.
  - apply IH.
Qed.

Lemma zget_firstn_skipn {A} (l : list A) (m n i : Z) : 0 <= m -> 0 <= i < n ->
  zget (firstn (Z.to_nat n) (skipn (Z.to_nat m) l)) i = zget l (m + i).
Proof.
  intros Hm Hi. unfold zget.
  replace (i <? 0) with false by lia. replace (m + i <? 0) with false by lia.
  rewrite nth_error_firstn_lt by lia.
  rewrite nth_error_skipn_add. f_equal. lia.
Qed.

Lemma firstn_skipn_length {A} (l : list A) (m n : Z) : 0 <= m -> 0 <= n -> m + n <= zlen l ->
  zlen (firstn (Z.to_nat n) (skipn (Z.to_nat m) l)) = n.
Proof.
  intros Hm Hn Hl. unfold zlen in *. rewrite firstn_length, skipn_length. lia.
Qed.

Lemma NoDup_map_on {A B} (f : A -> B) : forall l : list A, NoDup l ->
  (forall x y, In x l -> In y l -> f x = f y -> x = y) -> NoDup (map f l).
Proof.
  induction l as [|a l IH]; intros Hn Hinj; cbn [map]; [constructor|].
  inversion Hn as [|? ? Hna Hnl]; subst. constructor.
  - intro Hin. apply in_map_iff in Hin as (y & Hy & Hyl).
    assert (y = a) by (apply Hinj; [right; exact Hyl|left; reflexivity|exact Hy]). subst. contradiction.
  - apply IH; [exact Hnl|]. intros x y Hx Hy. apply Hinj; right; assumption.
Qed.

Lemma NoDup_map_inj_on {A B} (f : A -> B) : forall l : list A, NoDup (map f l) ->
  forall x y, In x l -> In y l -> f x = f y -> x = y.
Proof.
  induction l as [|a l IH]; intros Hn x y Hx Hy E; cbn in *; [tauto|].
  inversion Hn as [|? ? Hna Hnl]; subst.
  destruct Hx as [<-|Hx], Hy as [<-|Hy]; auto.
  - exfalso. apply Hna. rewrite E. apply in_map. exact Hy.
  - exfalso. apply Hna. rewrite <- E. apply in_map. exact Hx.
Qed.

Lemma all_distinct_NoDup l : all_distinct l = true -> NoDup l.
Proof.
  induction l as [|x l IH]; cbn [all_distinct]; intro H; [constructor|].
  apply andb_true_iff in H as [H1 H2]. constructor; [|apply IH; exact H2].
  intro Hin. apply negb_true_iff in H1.
  assert (existsb (Z.eqb x) l = true); [|congruence].
  apply existsb_exists. exists x. split; [exact Hin|lia].
Qed.

Lemma NoDup_all_distinct l : NoDup l -> all_distinct l = true.
Proof.
  induction 1 as [|x l Hx Hn IH]; cbn [all_distinct]; [reflexivity|].
  rewrite IH, andb_true_r. apply negb_true_iff.
  destruct (existsb (Z.eqb x) l) eqn:E; [|reflexivity].
  apply existsb_exists in E as (y & Hy & Hxy). assert (x = y) by lia. subst. contradiction.
Qed.

(* ---------- coordinates of a box ---------- *)
Lemma coords_In s c : pos_shape s -> (In c (coords s) <-> inbox s c).
Proof.
  intro Hp. unfold coords. rewrite in_map_iff. split.
  - intros (k & <- & Hk). apply APProofs.zseq_In in Hk. apply unrank_inbox; [exact Hp|].
    pose proof (size_pos s Hp). lia.
  - intro Hb. exists (rk s c). split; [apply unrank_rk; assumption|].
    apply APProofs.zseq_In. pose proof (rk_bound s c Hp Hb). lia.
Qed.

Lemma coords_NoDup s : pos_shape s -> NoDup (coords s).
Proof.
  intro Hp. unfold coords. apply NoDup_map_on; [apply APProofs.zseq_NoDup|].
  intros x y Hx Hy E. apply APProofs.zseq_In in Hx, Hy. pose proof (size_pos s Hp).
  rewrite <- (rk_unrank s x Hp), <- (rk_unrank s y Hp), E by lia. reflexivity.
Qed.

Lemma coords_length s : length (coords s) = Z.to_nat (size s).
Proof. unfold coords. rewrite map_length, APProofs.zseq_length. reflexivity. Qed.

Lemma nth_error_coords s k : 0 <= k < size s -> nth_error (coords s) (Z.to_nat k) = Some (unrank s k).
Proof.
  intro Hk. unfold coords. rewrite nth_error_map, APProofs.zseq_nth_error by lia.
  cbn. f_equal. f_equal. lia.
Qed.

Lemma copy_prefix_same_length {A} : forall (a b : list A), length a = length b -> copy_prefix a b = b.
Proof.
  induction a as [|x a IH]; intros [|y b] H; cbn in *; try discriminate; try reflexivity.
  f_equal. apply IH. lia.
Qed.

Lemma calc_strides_nonneg s : pos_shape s -> Forall (fun k => 0 <= k) (calc_strides s).
Proof.
  induction 1 as [|d s Hd Hs IH]; cbn [calc_strides]; constructor; [|exact IH].
  pose proof (size_pos s Hs). lia.
Qed.

(* ---------- At index arithmetic ---------- *)
Lemma ltoi_loop_no_panic sh st v : forall cs i a, ltoi_loop sh st v i cs a <> Panic.
Proof.
  induction cs as [|c cs IH]; intros i a; cbn [ltoi_loop]; [discriminate|].
  destruct (nth_error sh i); [|discriminate].
  destruct ((z <=? c) || (c <? 0)); [discriminate|].
  destruct (if v then nth_error st 0 else nth_error st i); [apply IH|discriminate].
Qed.

Lemma at_index_no_panic s st c : at_index s st c <> Panic.
Proof.
  unfold at_index, ltoi. destruct (negb _); [discriminate|].
  destruct (is_scalar_equiv s); [destruct (forallb _ c); discriminate|apply ltoi_loop_no_panic].
Qed.

(* Ltoi with one stride per axis is the dot product on in-box coordinates *)
Lemma ltoi_dot s st c : length st = length s -> inbox s c -> ltoi s st c = Ok (dot st c).
Proof.
  intros Hl Hb. unfold ltoi. destruct (is_scalar_equiv s) eqn:He.
  - destruct (scalar_equiv_inbox_zero s c He Hb) as (A & _ & _). rewrite A. f_equal.
    clear - A. revert st. induction c as [|x c IH]; intros [|k st]; cbn [dot]; try reflexivity.
    cbn [forallb] in A. apply andb_true_iff in A as [Hx A]. rewrite <- (IH A st).
    assert (x = 0) by lia. subst. lia.
  - destruct (is_vector s && (length st =? 1)%nat) eqn:Ev.
    + apply andb_true_iff in Ev as [_ Hl1]. apply Nat.eqb_eq in Hl1.
      destruct st as [|k [|? ?]]; cbn in Hl1; try discriminate.
      destruct s as [|n [|? ?]]; cbn in Hl; try discriminate.
      destruct c as [|x [|? ?]]; cbn in Hb; try tauto.
      cbn. destruct ((n <=? x) || (x <? 0)) eqn:E; [lia|]. f_equal. lia.
    + rewrite ltoi_loop_dot; [|exact Hl|exact Hb]. cbn [skipn]. f_equal; lia.
Qed.

Lemma at_index_dot s st c : length st = length s -> inbox s c -> at_index s st c = Ok (dot st c).
Proof.
  intros Hl Hb. unfold at_index. rewrite (inbox_length s c Hb), Nat.eqb_refl. cbn [negb].
  apply ltoi_dot; assumption.
Qed.

Lemma at_index_err s st c : length st = length s -> ~ inbox s c -> at_index s st c = Err.
Proof.
  intros Hl Hb. pose proof (at_index_ok_iff s st c (or_introl Hl)) as H.
  pose proof (at_index_no_panic s st c) as Hp.
  destruct (at_index s st c) as [i| |]; [|reflexivity|congruence].
  cbn in H. symmetry in H. apply inboxb_spec in H. contradiction.
Qed.

Lemma dot_calc_strides_rank s c : length c = length s -> dot (calc_strides s) c = rank_rm s c.
Proof. intro H. rewrite <- rk_dot, rank_rm_rk by exact H. reflexivity. Qed.

(* ====================================================================================== *)
(*  1. the store: absolute positions, single writes, sequences of writes                  *)
(* ====================================================================================== *)
Local Arguments bufs {V}.
Local Arguments tens {V}.

Section MemProofs.
Variable V : Type.
Variable vzero : V.

Local Notation get_buf := (get_buf V).
Local Notation get_t := (get_t V).
Local Notation set_buf := (set_buf V).
Local Notation set_t := (set_t V).
Local Notation win_get := (win_get V).
Local Notation win_set := (win_set V).

(* the value at absolute position p of allocation b *)
Definition bget (σ : store V) (b : nat) (p : Z) : option V := zget (get_buf σ b) p.

Definition store_upd (σ : store V) (b : nat) (p : Z) (v : V) : store V :=
  set_buf σ b (upd (get_buf σ b) (Z.to_nat p) v).

Fixpoint writes (σ : store V) (b : nat) (ws : list (Z * V)) : store V :=
  match ws with [] => σ | (p, v) :: r => writes (store_upd σ b p v) b r end.

(* nothing but buffer contents changed *)
Definition frame_eq (σ σ' : store V) : Prop :=
  tens σ' = tens σ /\ length (bufs σ') = length (bufs σ) /\
  forall b, zlen (get_buf σ' b) = zlen (get_buf σ b).

Lemma frame_eq_refl σ : frame_eq σ σ.
Proof. repeat split. Qed.

Lemma frame_eq_trans σ1 σ2 σ3 : frame_eq σ1 σ2 -> frame_eq σ2 σ3 -> frame_eq σ1 σ3.
Proof.
  intros (A1 & B1 & C1) (A2 & B2 & C2). split; [congruence|]. split; [congruence|].
  intro b. rewrite C2. apply C1.
Qed.

Lemma get_buf_store_upd_same σ b p v :
  get_buf (store_upd σ b p v) b = upd (get_buf σ b) (Z.to_nat p) v.
Proof. unfold store_upd, Mem.get_buf, Mem.set_buf. cbn [bufs]. apply upd_nil_nth. Qed.

Lemma get_buf_store_upd_other σ b b' p v : b' <> b ->
  get_buf (store_upd σ b p v) b' = get_buf σ b'.
Proof.
  intro H. unfold store_upd, Mem.get_buf, Mem.set_buf. cbn [bufs]. apply nth_upd_other. congruence.
Qed.

Lemma store_upd_frame σ b p v : frame_eq σ (store_upd σ b p v).
Proof.
  split; [reflexivity|]. split; [unfold store_upd, Mem.set_buf; cbn [bufs]; apply upd_length|].
  intro b'. destruct (Nat.eq_dec b' b) as [->|Hn].
  - rewrite get_buf_store_upd_same. unfold zlen. rewrite upd_length. reflexivity.
  - rewrite get_buf_store_upd_other by exact Hn. reflexivity.
Qed.

Lemma bget_upd_same σ b p v : 0 <= p < zlen (get_buf σ b) -> bget (store_upd σ b p v) b p = Some v.
Proof.
  intro Hp. unfold bget. rewrite get_buf_store_upd_same. unfold zget.
  replace (p <? 0) with false by lia. apply nth_error_upd_same. unfold zlen in Hp. lia.
Qed.

Lemma bget_upd_other σ b b' p q v : 0 <= p -> (b' <> b \/ q <> p) ->
  bget (store_upd σ b p v) b' q = bget σ b' q.
Proof.
  intros Hp H. unfold bget. destruct (Nat.eq_dec b' b) as [->|Hn].
  - destruct H as [H|H]; [congruence|]. rewrite get_buf_store_upd_same. unfold zget.
    destruct (q <? 0) eqn:Eq; [reflexivity|]. apply nth_error_upd_other. lia.
  - rewrite get_buf_store_upd_other by exact Hn. reflexivity.
Qed.

Lemma writes_frame b : forall ws σ, frame_eq σ (writes σ b ws).
Proof.
  induction ws as [|[p v] r IH]; intro σ; cbn [writes]; [apply frame_eq_refl|].
  eapply frame_eq_trans; [apply store_upd_frame|apply IH].
Qed.

Lemma writes_other_buf b b' q : b' <> b -> forall ws σ, bget (writes σ b ws) b' q = bget σ b' q.
Proof.
  intro Hn. induction ws as [|[p v] r IH]; intro σ; cbn [writes]; [reflexivity|].
  rewrite IH. unfold bget. rewrite get_buf_store_upd_other by exact Hn. reflexivity.
Qed.

Lemma writes_get_buf_other b b' : b' <> b -> forall ws σ, get_buf (writes σ b ws) b' = get_buf σ b'.
Proof.
  intro Hn. induction ws as [|[p v] r IH]; intro σ; cbn [writes]; [reflexivity|].
  rewrite IH. apply get_buf_store_upd_other. exact Hn.
Qed.

(* last write wins; stated for the two cases we need *)
Lemma writes_spec b : forall ws σ,
  (forall q w, In (q, w) ws -> 0 <= q < zlen (get_buf σ b)) ->
  forall p,
  (~ In p (map fst ws) -> bget (writes σ b ws) b p = bget σ b p) /\
  (forall v, In p (map fst ws) -> (forall w, In (p, w) ws -> w = v) ->
             bget (writes σ b ws) b p = Some v).
Proof.
  induction ws as [|[q w] r IH]; intros σ Hr p; cbn [writes map fst In].
  - split; [reflexivity|tauto].
  - assert (Hq : 0 <= q < zlen (get_buf σ b)) by (apply (Hr q w); left; reflexivity).
    assert (Hr' : forall q0 w0, In (q0, w0) r -> 0 <= q0 < zlen (get_buf (store_upd σ b q w) b)).
    { intros q0 w0 Hin. destruct (store_upd_frame σ b q w) as (_ & _ & Hl). rewrite Hl.
      apply (Hr q0 w0). right. exact Hin. }
    destruct (IH (store_upd σ b q w) Hr' p) as [I1 I2]. split.
    + intro Hn. rewrite I1 by tauto. apply bget_upd_other; [lia|]. right. intro; subst; tauto.
    + intros v Hin Hall. destruct (in_dec Z.eq_dec p (map fst r)) as [Hi|Hi].
      * apply I2; [exact Hi|]. intros w0 Hw0. apply Hall. right. exact Hw0.
      * rewrite I1 by exact Hi. destruct Hin as [->|Hin]; [|contradiction].
        rewrite bget_upd_same by exact Hq. f_equal. apply Hall. left. reflexivity.
Qed.

Lemma NoDup_fst_functional {A B} : forall (ws : list (A * B)) p v w,
  NoDup (map fst ws) -> In (p, v) ws -> In (p, w) ws -> v = w.
Proof.
  induction ws as [|[q u] r IH]; intros p v w Hn H1 H2; cbn in *; [tauto|].
  inversion Hn as [|? ? Hq Hr]; subst.
  destruct H1 as [H1|H1], H2 as [H2|H2].
  - congruence.
  - injection H1 as -> ->. exfalso. apply Hq. apply in_map_iff. exists (p, w). split; auto.
  - injection H2 as -> ->. exfalso. apply Hq. apply in_map_iff. exists (p, v). split; auto.
  - eapply IH; eauto.
Qed.

Lemma writes_NoDup_get b ws σ p v :
  (forall q w, In (q, w) ws -> 0 <= q < zlen (get_buf σ b)) ->
  NoDup (map fst ws) -> In (p, v) ws -> bget (writes σ b ws) b p = Some v.
Proof.
  intros Hr Hn Hin. apply (writes_spec b ws σ Hr p).
  - apply in_map_iff. exists (p, v). split; auto.
  - intros w Hw. eapply NoDup_fst_functional; eauto.
Qed.

(* ====================================================================================== *)
(*  2. well-formedness (the metadata invariant of C13) and the logical content            *)
(* ====================================================================================== *)
(* an access pattern addresses distinct cells inside a window of length len *)
Definition wf_ap (len : Z) (a : ap) : Prop :=
  pos_shape (shp a) /\ length (str a) = length (shp a) /\
  Forall (fun k => 0 <= k) (str a) /\
  (forall c, inbox (shp a) c -> 0 <= dot (str a) c < len) /\
  (forall c c', inbox (shp a) c -> inbox (shp a) c' -> dot (str a) c = dot (str a) c' -> c = c').

(* the window lies inside its allocation *)
Definition wf_win (σ : store V) (d : dense) : Prop :=
  0 <= d_off d /\ 0 <= d_len d /\ d_off d + d_len d <= zlen (get_buf σ (d_buf d)).

Definition wf_dense (σ : store V) (d : dense) : Prop :=
  wf_win σ d /\ wf_ap (d_len d) (d_ap d) /\ (forall o, d_old d = Some o -> wf_ap (d_len d) o).

(* logical content: the element at coordinate c, and its absolute position *)
Definition cell (σ : store V) (d : dense) (c : list Z) : option V :=
  win_get σ d (dot (str (d_ap d)) c).
Definition pos (d : dense) (c : list Z) : Z := d_off d + dot (str (d_ap d)) c.

Lemma wf_ap_len_pos len a : wf_ap len a -> 0 < len.
Proof.
  intros (Hp & _ & _ & Hb & _). specialize (Hb _ (inbox_zeros _ Hp)). lia.
Qed.

Lemma wf_dense_buf_lt σ d : wf_dense σ d -> (d_buf d < length (bufs σ))%nat.
Proof.
  intros ((H0 & H1 & H2) & Ha & _). apply wf_ap_len_pos in Ha.
  destruct (Nat.lt_ge_cases (d_buf d) (length (bufs σ))) as [H|H]; [exact H|].
  unfold Mem.get_buf in H2. rewrite nth_overflow in H2 by exact H. unfold zlen in H2. cbn [length] in H2. lia.
Qed.

Lemma wf_dense_frame σ σ' d : (forall b, zlen (get_buf σ' b) = zlen (get_buf σ b)) ->
  wf_dense σ d -> wf_dense σ' d.
Proof.
  intros Hl (Hw & Ha & Ho). split; [|split; assumption].
  unfold wf_win in *. rewrite Hl. exact Hw.
Qed.

Lemma win_get_bget σ d i : 0 <= i < d_len d -> win_get σ d i = bget σ (d_buf d) (d_off d + i).
Proof.
  intro Hi. unfold Mem.win_get, bget. replace ((i <? 0) || (d_len d <=? i)) with false by lia.
  reflexivity.
Qed.

Lemma bget_some σ b p : 0 <= p < zlen (get_buf σ b) -> exists v, bget σ b p = Some v.
Proof. intro H. apply zget_some. exact H. Qed.

Lemma cell_bget σ d c : wf_dense σ d -> inbox (shp (d_ap d)) c ->
  cell σ d c = bget σ (d_buf d) (pos d c).
Proof.
  intros (_ & (_ & _ & _ & Hb & _) & _) Hc. unfold cell, pos. apply win_get_bget. apply Hb. exact Hc.
Qed.

Lemma pos_in_buf σ d c : wf_dense σ d -> inbox (shp (d_ap d)) c ->
  0 <= pos d c < zlen (get_buf σ (d_buf d)).
Proof.
  intros ((H0 & H1 & H2) & (_ & _ & _ & Hb & _) & _) Hc. specialize (Hb c Hc). unfold pos. lia.
Qed.

Lemma win_set_ok σ d i v : wf_win σ d -> 0 <= i < d_len d ->
  win_set σ d i v = Some (store_upd σ (d_buf d) (d_off d + i) v).
Proof.
  intros (H0 & H1 & H2) Hi. unfold Mem.win_set, zset.
  replace ((i <? 0) || (d_len d <=? i)) with false by lia.
  replace ((d_off d + i <? 0) || (zlen (get_buf σ (d_buf d)) <=? d_off d + i)) with false by lia.
  reflexivity.
Qed.

Lemma wf_win_frame σ σ' d : (forall b, zlen (get_buf σ' b) = zlen (get_buf σ b)) ->
  wf_win σ d -> wf_win σ' d.
Proof. intros Hl Hw. unfold wf_win in *. rewrite Hl. exact Hw. Qed.

(* ====================================================================================== *)
(*  P1 — At / SetAt                                                                       *)
(* ====================================================================================== *)
Theorem m_at_cell σ t d c : get_t σ t = Some d -> wf_dense σ d -> inbox (shp (d_ap d)) c ->
  exists v, m_at V σ t c = Ok v /\ cell σ d c = Some v /\ bget σ (d_buf d) (pos d c) = Some v.
Proof.
  intros Ht Hwf Hc. pose proof (cell_bget σ d c Hwf Hc) as Hcb.
  destruct (bget_some σ (d_buf d) (pos d c) (pos_in_buf σ d c Hwf Hc)) as [v Hv].
  exists v. rewrite Hcb. split; [|split; exact Hv].
  destruct Hwf as (_ & (_ & Hl & _) & _).
  unfold m_at. change (Mem.get_t V σ t) with (get_t σ t). rewrite Ht, (at_index_dot _ _ _ Hl Hc).
  unfold cell in Hcb. rewrite Hcb, Hv. reflexivity.
Qed.

Theorem m_at_outside σ t d c : get_t σ t = Some d -> length (str (d_ap d)) = length (shp (d_ap d)) ->
  ~ inbox (shp (d_ap d)) c -> m_at V σ t c = Err.
Proof.
  intros Ht Hl Hc. unfold m_at. change (Mem.get_t V σ t) with (get_t σ t).
  rewrite Ht, (at_index_err _ _ _ Hl Hc). reflexivity.
Qed.

Theorem m_setat_frame σ t d c v : get_t σ t = Some d -> wf_dense σ d -> inbox (shp (d_ap d)) c ->
  exists σ', m_setat V σ t c v = Ok σ' /\ frame_eq σ σ' /\
    bget σ' (d_buf d) (pos d c) = Some v /\
    forall b p, (b <> d_buf d \/ p <> pos d c) -> bget σ' b p = bget σ b p.
Proof.
  intros Ht Hwf Hc. pose proof (pos_in_buf σ d c Hwf Hc) as Hp.
  exists (store_upd σ (d_buf d) (pos d c) v).
  destruct Hwf as (Hw & (_ & Hl & _ & Hb & _) & _).
  split; [|split; [apply store_upd_frame|split]].
  - unfold m_setat. change (Mem.get_t V σ t) with (get_t σ t). rewrite Ht, (at_index_dot _ _ _ Hl Hc).
    change (Mem.win_set V) with win_set. rewrite (win_set_ok σ d _ v Hw (Hb c Hc)). reflexivity.
  - apply bget_upd_same. exact Hp.
  - intros b p H. apply bget_upd_other; [lia|exact H].
Qed.

Theorem m_setat_outside σ t d c v : get_t σ t = Some d ->
  length (str (d_ap d)) = length (shp (d_ap d)) ->
  ~ inbox (shp (d_ap d)) c -> m_setat V σ t c v = Err.
Proof.
  intros Ht Hl Hc. unfold m_setat. change (Mem.get_t V σ t) with (get_t σ t).
  rewrite Ht, (at_index_err _ _ _ Hl Hc). reflexivity.
Qed.

(* ====================================================================================== *)
(*  3. sequences of window writes as absolute writes                                      *)
(* ====================================================================================== *)
Lemma frame_eq_lens σ σ' : frame_eq σ σ' -> forall b, zlen (get_buf σ' b) = zlen (get_buf σ b).
Proof. intros (_ & _ & H). exact H. Qed.

Lemma win_fill_writes d v : forall idx σ, wf_win σ d -> Forall (fun i => 0 <= i < d_len d) idx ->
  win_fill V σ d idx v = Some (writes σ (d_buf d) (map (fun i => (d_off d + i, v)) idx)).
Proof.
  induction idx as [|i r IH]; intros σ Hw Hr; cbn [win_fill map writes]; [reflexivity|].
  inversion Hr as [|? ? Hi Hr']; subst.
  change (Mem.win_set V) with win_set. rewrite (win_set_ok σ d i v Hw Hi).
  apply IH; [|exact Hr']. eapply wf_win_frame; [|exact Hw]. apply frame_eq_lens, store_upd_frame.
Qed.

Lemma win_scatter_writes d : forall idx vs σ, wf_win σ d -> Forall (fun i => 0 <= i < d_len d) idx ->
  win_scatter V σ d idx vs
  = Some (writes σ (d_buf d) (combine (map (fun i => d_off d + i) idx) vs)).
Proof.
  induction idx as [|i r IH]; intros [|v vs] σ Hw Hr; cbn [win_scatter map combine writes];
    try reflexivity.
  inversion Hr as [|? ? Hi Hr']; subst.
  change (Mem.win_set V) with win_set. rewrite (win_set_ok σ d i v Hw Hi).
  apply IH; [|exact Hr']. eapply wf_win_frame; [|exact Hw]. apply frame_eq_lens, store_upd_frame.
Qed.

Lemma win_gather_spec d σ : wf_win σ d -> forall idx, Forall (fun i => 0 <= i < d_len d) idx ->
  exists l, win_gather V σ d idx = Some l /\
            Forall2 (fun i v => bget σ (d_buf d) (d_off d + i) = Some v) idx l.
Proof.
  intros Hw. induction idx as [|i r IH]; intro Hr; cbn [win_gather].
  - exists []. split; [reflexivity|constructor].
  - inversion Hr as [|? ? Hi Hr']; subst. destruct (IH Hr') as (l & El & Fl).
    change (Mem.win_get V) with win_get. rewrite (win_get_bget σ d i Hi).
    destruct Hw as (H0 & H1 & H2).
    destruct (bget_some σ (d_buf d) (d_off d + i)) as [v Hv]; [lia|].
    rewrite Hv, El. exists (v :: l). split; [reflexivity|]. constructor; assumption.
Qed.

Lemma reads_exist σ b (f : Z -> Z) : forall si, Forall (fun j => 0 <= f j < zlen (get_buf σ b)) si ->
  exists vals, Forall2 (fun j v => bget σ b (f j) = Some v) si vals.
Proof.
  induction si as [|j r IH]; intro Hr.
  - exists []. constructor.
  - inversion Hr as [|? ? Hj Hr']; subst. destruct (IH Hr') as (l & Fl).
    destruct (bget_some σ b (f j) Hj) as [v Hv]. exists (v :: l). constructor; assumption.
Qed.

Lemma Forall2_nth_error {A B} (R : A -> B -> Prop) : forall l l', Forall2 R l l' ->
  forall k x, nth_error l k = Some x -> exists y, nth_error l' k = Some y /\ R x y.
Proof.
  induction 1 as [|a b l l' Hab HF IH]; intros [|k] x Hk; cbn in *; try discriminate.
  - injection Hk as <-. eauto.
  - apply IH. exact Hk.
Qed.

Lemma Forall2_len {A B} (R : A -> B -> Prop) : forall l l', Forall2 R l l' -> length l = length l'.
Proof. induction 1; cbn; congruence. Qed.

Lemma Forall2_imp {A B} (R R' : A -> B -> Prop) : (forall a b, R a b -> R' a b) ->
  forall l l', Forall2 R l l' -> Forall2 R' l l'.
Proof. intros H. induction 1; constructor; auto. Qed.

Lemma nth_error_combine {A B} : forall (l1 : list A) (l2 : list B) k x y,
  nth_error l1 k = Some x -> nth_error l2 k = Some y -> nth_error (combine l1 l2) k = Some (x, y).
Proof.
  induction l1 as [|a l1 IH]; intros [|b l2] [|k] x y H1 H2; cbn in *; try discriminate.
  - congruence.
  - apply IH; assumption.
Qed.

Lemma map_fst_combine {A B} : forall (l1 : list A) (l2 : list B), length l1 = length l2 ->
  map fst (combine l1 l2) = l1.
Proof.
  induction l1 as [|a l1 IH]; intros [|b l2] H; cbn in *; try discriminate; try reflexivity.
  f_equal. apply IH. lia.
Qed.

(* storage.CopyIter between two different allocations *)
Lemma copy_seq_writes dst src : d_buf dst <> d_buf src -> forall di si vals σ,
  Forall (fun j => 0 <= j) si ->
  Forall2 (fun j v => bget σ (d_buf src) (d_off src + j) = Some v) si vals ->
  length di = length si ->
  Forall (fun i => 0 <= i /\ 0 <= d_off dst + i < zlen (get_buf σ (d_buf dst))) di ->
  copy_seq V σ dst src di si
  = Some (writes σ (d_buf dst) (combine (map (fun i => d_off dst + i) di) vals)).
Proof.
  intro Hne. induction di as [|i di IH]; intros [|j si] vals σ Hs HF Hl Hr; cbn in Hl; try discriminate.
  - reflexivity.
  - inversion HF as [|? v ? vals' Hv HF']; subst.
    inversion Hs as [|? ? Hj Hs']; subst.
    inversion Hr as [|? ? [Hi Hi'] Hr']; subst.
    cbn [copy_seq map combine writes]. unfold cap_get, cap_set.
    replace (j <? 0) with false by lia. replace (i <? 0) with false by lia.
    fold (bget σ (d_buf src) (d_off src + j)). rewrite Hv.
    unfold zset. change (Mem.get_buf V) with get_buf.
    replace ((d_off dst + i <? 0) || (zlen (get_buf σ (d_buf dst)) <=? d_off dst + i)) with false by lia.
    change (Mem.set_buf V σ (d_buf dst) (upd (get_buf σ (d_buf dst)) (Z.to_nat (d_off dst + i)) v))
      with (store_upd σ (d_buf dst) (d_off dst + i) v).
    apply IH.
    + exact Hs'.
    + eapply Forall2_imp; [|exact HF']. cbn beta. intros a b Hb.
      rewrite bget_upd_other; [exact Hb|lia|left; congruence].
    + lia.
    + eapply Forall_impl; [|exact Hr']. cbn beta. intros a Ha.
      rewrite (frame_eq_lens _ _ (store_upd_frame σ (d_buf dst) (d_off dst + i) v)). exact Ha.
Qed.

(* ---------- the offsets of a well-formed access pattern ---------- *)
Lemma offsets_In len a p : wf_ap len a ->
  (In p (offsets a) <-> exists c, inbox (shp a) c /\ p = dot (str a) c).
Proof.
  intros (Hp & _). unfold offsets. rewrite in_map_iff. split.
  - intros (c & <- & Hc). exists c. split; [apply coords_In; assumption|reflexivity].
  - intros (c & Hc & ->). exists c. split; [reflexivity|apply coords_In; assumption].
Qed.

Lemma offsets_NoDup len a : wf_ap len a -> NoDup (offsets a).
Proof.
  intros (Hp & _ & _ & _ & Hinj). unfold offsets. apply NoDup_map_on; [apply coords_NoDup; exact Hp|].
  intros x y Hx Hy. apply Hinj; apply coords_In; assumption.
Qed.

Lemma offsets_range len a : wf_ap len a -> Forall (fun i => 0 <= i < len) (offsets a).
Proof.
  intro Hwf. apply Forall_forall. intros i Hi. apply (offsets_In len a i Hwf) in Hi as (c & Hc & ->).
  destruct Hwf as (_ & _ & _ & Hb & _). apply Hb. exact Hc.
Qed.

(* a well-formed pattern over a window of exactly size-many cells addresses every cell *)
Lemma offsets_full len a : wf_ap len a -> len = size (shp a) ->
  forall i, 0 <= i < len -> In i (offsets a).
Proof.
  intros Hwf Hlen i Hi.
  apply (NoDup_length_incl (offsets_NoDup len a Hwf) (l' := zseq 0 (Z.to_nat len))).
  - rewrite offsets_length, APProofs.zseq_length. lia.
  - intros x Hx. apply APProofs.zseq_In.
    pose proof (offsets_range len a Hwf) as Hr. rewrite Forall_forall in Hr. specialize (Hr x Hx). lia.
  - apply APProofs.zseq_In. lia.
Qed.

Lemma iter_all_offsets len a : wf_ap len a -> iter_all a = Some (offsets a).
Proof. intros (Hp & Hl & _). apply iter_all_spec; assumption. Qed.

Lemma wf_ap_rowmajor sh : pos_shape sh -> wf_ap (size sh) (mkAP sh (calc_strides sh) 0 true).
Proof.
  intro Hp. unfold wf_ap. cbn [shp str].
  split; [exact Hp|]. split; [apply calc_strides_length|]. split; [apply calc_strides_nonneg; exact Hp|].
  split.
  - intros c Hc. rewrite <- rk_dot. apply rk_bound; assumption.
  - intros c c' Hc Hc' E. rewrite <- !rk_dot in E.
    rewrite <- (unrank_rk sh c Hp Hc), <- (unrank_rk sh c' Hp Hc'), E. reflexivity.
Qed.

(* ====================================================================================== *)
(*  P3 — whole-tensor writes touch exactly the tensor's own cells                          *)
(* ====================================================================================== *)
(* σ' is σ with value v at every cell of d and nothing else changed *)
Definition filled (σ σ' : store V) (d : dense) (v : V) : Prop :=
  frame_eq σ σ' /\
  (forall b p, b <> d_buf d -> bget σ' b p = bget σ b p) /\
  (forall c, inbox (shp (d_ap d)) c -> bget σ' (d_buf d) (pos d c) = Some v) /\
  (forall p, (forall c, inbox (shp (d_ap d)) c -> p <> pos d c) ->
             bget σ' (d_buf d) p = bget σ (d_buf d) p).

Lemma win_fill_cells σ d idx v : wf_dense σ d ->
  (forall i, In i idx <-> exists c, inbox (shp (d_ap d)) c /\ i = dot (str (d_ap d)) c) ->
  exists σ', win_fill V σ d idx v = Some σ' /\ filled σ σ' d v.
Proof.
  intros Hwf Hidx. pose proof Hwf as (Hw & Ha & _). pose proof Ha as (_ & _ & _ & Hb & _).
  set (ws := map (fun i => (d_off d + i, v)) idx).
  assert (Hrange : Forall (fun i => 0 <= i < d_len d) idx).
  { apply Forall_forall. intros i Hi. apply Hidx in Hi as (c & Hc & ->). apply Hb. exact Hc. }
  exists (writes σ (d_buf d) ws). split; [apply win_fill_writes; assumption|].
  assert (Hws : forall q w, In (q, w) ws -> 0 <= q < zlen (get_buf σ (d_buf d))).
  { intros q w Hin. apply in_map_iff in Hin as (i & E & Hi). injection E as <- <-.
    rewrite Forall_forall in Hrange. specialize (Hrange i Hi). destruct Hw as (H0 & H1 & H2). lia. }
  assert (Hfst : forall p, In p (map fst ws) <-> exists i, In i idx /\ p = d_off d + i).
  { intro p. unfold ws. rewrite map_map. cbn [fst]. rewrite in_map_iff. split.
    - intros (i & <- & Hi). eauto.
    - intros (i & Hi & ->). eauto. }
  split; [apply writes_frame|]. split; [|split].
  - intros b p Hne. apply writes_other_buf. exact Hne.
  - intros c Hc. apply (writes_spec (d_buf d) ws σ Hws (pos d c)).
    + apply Hfst. exists (dot (str (d_ap d)) c). split; [apply Hidx; eauto|reflexivity].
    + intros w Hin. apply in_map_iff in Hin as (i & E & _). congruence.
  - intros p Hp. apply (writes_spec (d_buf d) ws σ Hws p).
    intro Hin. apply Hfst in Hin as (i & Hi & ->). apply Hidx in Hi as (c & Hc & ->).
    apply (Hp c Hc). reflexivity.
Qed.

Lemma fill_dispatch σ d v : wf_dense σ d ->
  (is_materializable d = true \/ d_len d = size (shp (d_ap d))) ->
  exists σ',
    (if is_materializable d then
       match iter_all (d_ap d) with
       | None => Panic
       | Some idx => match win_fill V σ d idx v with Some σ' => Ok σ' | None => Panic end
       end
     else match win_fill V σ d (zseq 0 (Z.to_nat (d_len d))) v with Some σ' => Ok σ' | None => Panic end)
    = Ok σ' /\ filled σ σ' d v.
Proof.
  intros Hwf Hcase. pose proof Hwf as (Hw & Ha & _).
  destruct (is_materializable d) eqn:Em.
  - rewrite (iter_all_offsets _ _ Ha).
    destruct (win_fill_cells σ d (offsets (d_ap d)) v Hwf) as (σ' & E & F).
    { intro i. apply (offsets_In _ _ i Ha). }
    exists σ'. rewrite E. split; [reflexivity|exact F].
  - destruct Hcase as [Hc|Hlen]; [discriminate|].
    destruct (win_fill_cells σ d (zseq 0 (Z.to_nat (d_len d))) v Hwf) as (σ' & E & F).
    { intro i. rewrite APProofs.zseq_In. rewrite <- (offsets_In _ _ i Ha). split.
      - intro Hi. apply (offsets_full _ _ Ha Hlen). lia.
      - intro Hi. pose proof (offsets_range _ _ Ha) as Hr. rewrite Forall_forall in Hr.
        specialize (Hr i Hi). lia. }
    exists σ'. rewrite E. split; [reflexivity|exact F].
Qed.

Theorem m_memset_frame σ t d v : get_t σ t = Some d -> wf_dense σ d ->
  (is_materializable d = true \/ d_len d = size (shp (d_ap d))) ->
  exists σ', m_memset V σ t v = Ok σ' /\ filled σ σ' d v.
Proof.
  intros Ht Hwf Hcase. unfold m_memset. change (Mem.get_t V σ t) with (get_t σ t). rewrite Ht.
  apply fill_dispatch; assumption.
Qed.

Theorem m_zero_frame σ t d : get_t σ t = Some d -> wf_dense σ d ->
  (is_materializable d = true \/ d_len d = size (shp (d_ap d))) ->
  exists σ', m_zero V vzero σ t = Ok σ' /\ filled σ σ' d vzero.
Proof.
  intros Ht Hwf Hcase. unfold m_zero. change (Mem.get_t V σ t) with (get_t σ t). rewrite Ht.
  apply fill_dispatch; assumption.
Qed.

(* ====================================================================================== *)
(*  P4 — copies                                                                            *)
(* ====================================================================================== *)
(* σ' extends σ: old allocations and old tensors are still there, unchanged *)
Definition extends (σ σ' : store V) : Prop :=
  (forall b, (b < length (bufs σ))%nat -> get_buf σ' b = get_buf σ b) /\
  (forall t d, get_t σ t = Some d -> get_t σ' t = Some d).

Lemma extends_wf σ σ' d : extends σ σ' -> wf_dense σ d -> wf_dense σ' d.
Proof.
  intros [Hb _] Hwf. pose proof (wf_dense_buf_lt σ d Hwf) as Hlt.
  destruct Hwf as (Hw & Ha & Ho). split; [|split; assumption].
  unfold wf_win in *. rewrite Hb by exact Hlt. exact Hw.
Qed.

Lemma extends_bget σ σ' b p : extends σ σ' -> (b < length (bufs σ))%nat -> bget σ' b p = bget σ b p.
Proof. intros [Hb _] Hlt. unfold bget. rewrite Hb by exact Hlt. reflexivity. Qed.

Lemma nth_error_offsets a c : pos_shape (shp a) -> inbox (shp a) c ->
  nth_error (offsets a) (Z.to_nat (rk (shp a) c)) = Some (dot (str a) c).
Proof.
  intros Hp Hc. unfold offsets. pose proof (rk_bound _ _ Hp Hc) as Hr.
  rewrite nth_error_map, nth_error_coords by exact Hr. rewrite unrank_rk by assumption. reflexivity.
Qed.

(* dst's cells receive src's elements coordinate by coordinate; nothing else changes *)
Definition copied (σ σ' : store V) (dst src : dense) : Prop :=
  frame_eq σ σ' /\
  (forall b p, b <> d_buf dst -> bget σ' b p = bget σ b p) /\
  (forall c, inbox (shp (d_ap dst)) c ->
             bget σ' (d_buf dst) (pos dst c) = bget σ (d_buf src) (pos src c)) /\
  (forall p, (forall c, inbox (shp (d_ap dst)) c -> p <> pos dst c) ->
             bget σ' (d_buf dst) p = bget σ (d_buf dst) p).

Lemma copy_iter_spec σ dst src : wf_dense σ dst -> wf_dense σ src -> d_buf dst <> d_buf src ->
  shp (d_ap dst) = shp (d_ap src) ->
  exists σ', copy_iter V σ dst src = Ok σ' /\ copied σ σ' dst src.
Proof.
  intros Hwd Hws Hne Hsh.
  pose proof Hwd as (Hwind & Had & _). pose proof Hws as (Hwins & Has & _).
  unfold copy_iter. rewrite (iter_all_offsets _ _ Had), (iter_all_offsets _ _ Has).
  pose proof (offsets_range _ _ Had) as Hrd. pose proof (offsets_range _ _ Has) as Hrs.
  destruct Hwind as (D0 & D1 & D2). destruct Hwins as (S0 & S1 & S2).
  destruct (reads_exist σ (d_buf src) (fun j => d_off src + j) (offsets (d_ap src))) as (vals & HF).
  { eapply Forall_impl; [|exact Hrs]. cbn beta. intros a Ha. lia. }
  assert (Hlen : length (offsets (d_ap dst)) = length (offsets (d_ap src))).
  { rewrite !offsets_length, Hsh. reflexivity. }
  set (ws := combine (map (fun i => d_off dst + i) (offsets (d_ap dst))) vals).
  exists (writes σ (d_buf dst) ws). split.
  { rewrite (copy_seq_writes dst src Hne _ _ vals σ); [reflexivity| |exact HF|exact Hlen|].
    - eapply Forall_impl; [|exact Hrs]. cbn beta. intros a Ha. lia.
    - eapply Forall_impl; [|exact Hrd]. cbn beta. intros a Ha. lia. }
  assert (Hfst : map fst ws = map (fun i => d_off dst + i) (offsets (d_ap dst))).
  { apply map_fst_combine. rewrite map_length, Hlen. apply (Forall2_len _ _ _ HF). }
  assert (Hws' : forall q w, In (q, w) ws -> 0 <= q < zlen (get_buf σ (d_buf dst))).
  { intros q w Hin. apply in_combine_l in Hin. apply in_map_iff in Hin as (i & <- & Hi).
    rewrite Forall_forall in Hrd. specialize (Hrd i Hi). lia. }
  assert (Hnd : NoDup (map fst ws)).
  { rewrite Hfst. apply NoDup_map_on; [apply (offsets_NoDup _ _ Had)|]. intros; lia. }
  split; [apply writes_frame|]. split; [|split].
  - intros b p Hb. apply writes_other_buf. exact Hb.
  - intros c Hc. pose proof Had as (Hpd & _). pose proof Has as (Hps & _).
    pose proof (nth_error_offsets _ c Hpd Hc) as Nd.
    assert (Hc' : inbox (shp (d_ap src)) c) by (rewrite <- Hsh; exact Hc).
    pose proof (nth_error_offsets _ c Hps Hc') as Ns. rewrite <- Hsh in Ns.
    destruct (Forall2_nth_error _ _ _ HF _ _ Ns) as (v & Nv & Hv).
    fold (pos src c) in Hv. rewrite Hv.
    apply writes_NoDup_get; [exact Hws'|exact Hnd|].
    eapply nth_error_In. apply nth_error_combine; [|exact Nv].
    erewrite map_nth_error; [reflexivity|exact Nd].
  - intros p Hp. apply (writes_spec (d_buf dst) ws σ Hws' p). rewrite Hfst.
    intro Hin. apply in_map_iff in Hin as (i & <- & Hi).
    apply (offsets_In _ _ i Had) in Hi as (c & Hc & ->). apply (Hp c Hc). reflexivity.
Qed.

(* stored in logical (row-major) order over exactly its window *)
Definition contig (d : dense) : Prop :=
  str (d_ap d) = calc_strides (shp (d_ap d)) /\ d_len d = size (shp (d_ap d)).

Lemma window_nth σ d k : wf_win σ d -> 0 <= k < d_len d ->
  nth_error (window V σ d) (Z.to_nat k) = bget σ (d_buf d) (d_off d + k).
Proof.
  intros (H0 & H1 & H2) Hk. unfold window, bget. change (Mem.get_buf V) with get_buf.
  rewrite <- zget_firstn_skipn with (n := d_len d) by lia.
  unfold zget. replace (k <? 0) with false by lia. reflexivity.
Qed.

Lemma window_length σ d : wf_win σ d -> zlen (window V σ d) = d_len d.
Proof. intros (H0 & H1 & H2). unfold window. apply firstn_skipn_length; assumption. Qed.

Lemma contig_pos d c : contig d -> pos d c = d_off d + rk (shp (d_ap d)) c.
Proof. intros [Hs _]. unfold pos. rewrite Hs, rk_dot. reflexivity. Qed.

Lemma copy_raw_spec σ dst src : wf_dense σ dst -> wf_dense σ src -> d_buf dst <> d_buf src ->
  shp (d_ap dst) = shp (d_ap src) -> contig dst -> contig src ->
  exists σ', copy_raw V σ dst src = Ok σ' /\ copied σ σ' dst src.
Proof.
  intros Hwd Hws Hne Hsh Hcd Hcs.
  pose proof Hwd as (Hwind & Had & _). pose proof Hws as (Hwins & Has & _).
  pose proof Had as (Hpd & _). pose proof Hcd as [_ Hld]. pose proof Hcs as [_ Hls].
  set (sh := shp (d_ap dst)) in *. pose proof (size_pos sh Hpd) as Hsz.
  unfold copy_raw. replace (Z.min (d_len dst) (d_len src)) with (size sh) by (rewrite Hld, Hls, <- Hsh; lia).
  assert (Hrange : Forall (fun i => 0 <= i < d_len dst) (zseq 0 (Z.to_nat (size sh)))).
  { apply Forall_forall. intros i Hi. apply APProofs.zseq_In in Hi. lia. }
  rewrite (win_scatter_writes dst _ (window V σ src) σ Hwind Hrange).
  set (ws := combine (map (fun i => d_off dst + i) (zseq 0 (Z.to_nat (size sh)))) (window V σ src)).
  exists (writes σ (d_buf dst) ws). split; [reflexivity|].
  assert (Hfst : map fst ws = map (fun i => d_off dst + i) (zseq 0 (Z.to_nat (size sh)))).
  { apply map_fst_combine. rewrite map_length, APProofs.zseq_length.
    pose proof (window_length σ src Hwins) as Hwl. unfold zlen in Hwl. rewrite <- Hsh in Hls. lia. }
  destruct Hwind as (D0 & D1 & D2).
  assert (Hws' : forall q w, In (q, w) ws -> 0 <= q < zlen (get_buf σ (d_buf dst))).
  { intros q w Hin. apply in_combine_l in Hin. apply in_map_iff in Hin as (i & <- & Hi).
    apply APProofs.zseq_In in Hi. lia. }
  assert (Hnd : NoDup (map fst ws)).
  { rewrite Hfst. apply NoDup_map_on; [apply APProofs.zseq_NoDup|]. intros; lia. }
  split; [apply writes_frame|]. split; [|split].
  - intros b p Hb. apply writes_other_buf. exact Hb.
  - intros c Hc. pose proof (rk_bound sh c Hpd Hc) as Hr.
    rewrite (contig_pos dst c Hcd), (contig_pos src c Hcs). fold sh. rewrite <- Hsh. fold sh.
    destruct Hwins as (S0 & S1 & S2).
    destruct (bget_some σ (d_buf src) (d_off src + rk sh c)) as [v Hv]; [rewrite <- Hsh in Hls; lia|].
    rewrite Hv. apply writes_NoDup_get; [exact Hws'|exact Hnd|].
    eapply nth_error_In with (n := Z.to_nat (rk sh c)). apply nth_error_combine.
    + erewrite map_nth_error; [|apply APProofs.zseq_nth_error; lia]. f_equal. lia.
    + rewrite window_nth; [exact Hv|repeat split; assumption|rewrite <- Hsh in Hls; lia].
  - intros p Hp. apply (writes_spec (d_buf dst) ws σ Hws' p). rewrite Hfst.
    intro Hin. apply in_map_iff in Hin as (i & <- & Hi). apply APProofs.zseq_In in Hi.
    apply (Hp (unrank sh i)); [apply unrank_inbox; [exact Hpd|lia]|].
    rewrite (contig_pos dst _ Hcd). fold sh. rewrite rk_unrank by (auto; lia). reflexivity.
Qed.

(* copyDenseIter and tensor.Copy, different allocations, equal shapes, sound contiguity flags *)
Theorem copy_dense_iter_spec σ dst src : wf_dense σ dst -> wf_dense σ src ->
  d_buf dst <> d_buf src -> shp (d_ap dst) = shp (d_ap src) ->
  (requires_iterator dst = false -> contig dst) -> (requires_iterator src = false -> contig src) ->
  exists σ', copy_dense_iter V σ dst src = Ok σ' /\ copied σ σ' dst src.
Proof.
  intros Hwd Hws Hne Hsh Hfd Hfs. unfold copy_dense_iter.
  destruct (requires_iterator dst) eqn:Ed; [apply copy_iter_spec; assumption|].
  destruct (requires_iterator src) eqn:Es; [apply copy_iter_spec; assumption|].
  cbn [negb andb]. destruct (has_same_order _ _).
  - apply copy_raw_spec; auto.
  - apply copy_iter_spec; assumption.
Qed.

Theorem m_copy_spec σ dt st dst src : get_t σ dt = Some dst -> get_t σ st = Some src ->
  wf_dense σ dst -> wf_dense σ src ->
  d_buf dst <> d_buf src -> shp (d_ap dst) = shp (d_ap src) ->
  (requires_iterator dst = false -> contig dst) -> (requires_iterator src = false -> contig src) ->
  exists σ', m_copy V σ dt st = Ok σ' /\ copied σ σ' dst src.
Proof.
  intros Hd Hs Hwd Hws Hne Hsh Hfd Hfs. unfold m_copy.
  change (Mem.get_t V) with get_t. rewrite Hd, Hs.
  destruct (requires_iterator src || requires_iterator dst) eqn:E.
  - apply copy_dense_iter_spec; assumption.
  - apply orb_false_iff in E as [E1 E2]. apply copy_raw_spec; auto.
Qed.

(* Clone *)
Theorem m_clone_fresh_equal σ t d : get_t σ t = Some d -> wf_dense σ d ->
  exists σ' d', m_clone V σ t = Ok (σ', length (tens σ)) /\
    get_t σ' (length (tens σ)) = Some d' /\
    d' = mkDense (length (bufs σ)) 0 (d_len d) (d_ap d) (d_old d) false /\
    wf_dense σ' d' /\ extends σ σ' /\
    length (bufs σ') = S (length (bufs σ)) /\ length (tens σ') = S (length (tens σ)) /\
    forall c, inbox (shp (d_ap d)) c -> cell σ' d' c = cell σ d c.
Proof.
  intros Ht Hwf. pose proof Hwf as (Hw & Ha & Ho).
  unfold m_clone. change (Mem.get_t V σ t) with (get_t σ t). rewrite Ht.
  unfold add_buf, add_t. cbn [bufs tens].
  set (d' := mkDense (length (bufs σ)) 0 (d_len d) (d_ap d) (d_old d) false).
  set (σ' := mkStore V (bufs σ ++ [window V σ d]) (tens σ ++ [d'])).
  exists σ', d'.
  assert (Hnew : get_buf σ' (length (bufs σ)) = window V σ d).
  { unfold Mem.get_buf, σ'. cbn [bufs]. apply nth_app_last. }
  assert (Hwl := window_length σ d Hw).
  assert (Hwf' : wf_dense σ' d').
  { split; [|split; [exact Ha|exact Ho]]. unfold wf_win, d'. cbn [d_off d_len d_buf].
    rewrite Hnew, Hwl. destruct Hw as (H0 & H1 & H2). lia. }
  split; [reflexivity|]. split; [unfold Mem.get_t, σ'; cbn [tens]; apply nth_error_app_last|].
  split; [reflexivity|]. split; [exact Hwf'|]. split; [|split; [|split]].
  - split.
    + intros b Hb. unfold Mem.get_buf, σ'. cbn [bufs]. apply app_nth1. exact Hb.
    + intros t0 d0 H0. unfold Mem.get_t, σ' in *. cbn [tens]. rewrite nth_error_app1; [exact H0|].
      apply nth_error_Some_lt in H0. exact H0.
  - unfold σ'. cbn [bufs]. rewrite app_length. cbn. lia.
  - unfold σ'. cbn [tens]. rewrite app_length. cbn. lia.
  - intros c Hc. rewrite (cell_bget σ' d' c Hwf' Hc), (cell_bget σ d c Hwf Hc).
    destruct Ha as (_ & _ & _ & Hb & _). specialize (Hb c Hc).
    unfold bget at 1. unfold pos, d'. cbn [d_buf d_off d_ap]. rewrite Hnew.
    unfold window. destruct Hw as (H0 & H1 & H2). change (Mem.get_buf V) with get_buf.
    rewrite zget_firstn_skipn by lia. reflexivity.
Qed.

(* Materialize *)
Theorem m_materialize_noop σ t d : get_t σ t = Some d -> is_materializable d = false ->
  m_materialize V vzero σ t = Ok (σ, t).
Proof.
  intros Ht Hm. unfold m_materialize. change (Mem.get_t V σ t) with (get_t σ t). rewrite Ht, Hm.
  reflexivity.
Qed.

Lemma zlen_repeat {A} (x : A) n : zlen (repeat x n) = Z.of_nat n.
Proof. unfold zlen. rewrite repeat_length. reflexivity. Qed.

Theorem m_materialize_fresh_equal σ t d : get_t σ t = Some d -> wf_dense σ d ->
  is_materializable d = true -> (requires_iterator d = false -> contig d) ->
  let sh := shp (d_ap d) in
  exists σ' d', m_materialize V vzero σ t = Ok (σ', length (tens σ)) /\
    get_t σ' (length (tens σ)) = Some d' /\
    d' = mkDense (length (bufs σ)) 0 (size sh) (mkAP sh (calc_strides sh) 0 true) None false /\
    wf_dense σ' d' /\ contig d' /\ zlen (get_buf σ' (length (bufs σ))) = size sh /\
    extends σ σ' /\
    length (bufs σ') = S (length (bufs σ)) /\ length (tens σ') = S (length (tens σ)) /\
    forall c, inbox sh c -> cell σ' d' c = cell σ d c.
Proof.
  intros Ht Hwf Hm Hflag sh. pose proof Hwf as (Hw & Ha & Ho). pose proof Ha as (Hp & _).
  pose proof (size_pos _ Hp) as Hsz. fold sh in Hsz.
  unfold m_materialize. change (Mem.get_t V σ t) with (get_t σ t). rewrite Ht, Hm. cbn [negb].
  fold sh. replace (if is_scalar sh then 1 else size sh) with (size sh) by (destruct sh; reflexivity).
  unfold add_buf.
  set (nd := mkDense (length (bufs σ)) 0 (size sh) (mkAP sh (calc_strides sh) 0 true) None false).
  set (σ1 := mkStore V (bufs σ ++ [repeat vzero (Z.to_nat (size sh))]) (tens σ)).
  assert (Hnew : get_buf σ1 (length (bufs σ)) = repeat vzero (Z.to_nat (size sh))).
  { unfold Mem.get_buf, σ1. cbn [bufs]. apply nth_app_last. }
  assert (Hext1 : extends σ σ1).
  { split.
    - intros b Hb. unfold Mem.get_buf, σ1. cbn [bufs]. apply app_nth1. exact Hb.
    - intros t0 d0 H0. exact H0. }
  assert (Hwnd : wf_dense σ1 nd).
  { split; [|split; [apply wf_ap_rowmajor; exact Hp|discriminate]].
    unfold wf_win, nd. cbn [d_off d_len d_buf]. rewrite Hnew, zlen_repeat. lia. }
  assert (Hwd1 : wf_dense σ1 d) by (apply (extends_wf σ σ1); assumption).
  pose proof (wf_dense_buf_lt σ d Hwf) as Hlt.
  assert (Hcn : contig nd) by (split; reflexivity).
  destruct (copy_dense_iter_spec σ1 nd d Hwnd Hwd1) as (σ2 & E2 & (Hfr & Hoth & Hcells & _)).
  { unfold nd. cbn [d_buf]. lia. }
  { reflexivity. }
  { intros _. exact Hcn. }
  { exact Hflag. }
  rewrite E2. unfold add_t. destruct Hfr as (Ft & Fb & Fl). rewrite Ft. cbn [tens σ1].
  set (σ' := mkStore V (bufs σ2) (tens σ ++ [nd])).
  exists σ', nd.
  assert (Hbg : forall b p, bget σ' b p = bget σ2 b p) by reflexivity.
  assert (Hgb : forall b, get_buf σ' b = get_buf σ2 b) by reflexivity.
  assert (Hwf' : wf_dense σ' nd).
  { apply (wf_dense_frame σ1 σ'); [|exact Hwnd]. intro b. rewrite Hgb. apply Fl. }
  assert (Hext : extends σ σ').
  { split.
    - intros b Hb. rewrite Hgb. destruct Hext1 as [H1 _]. rewrite <- (H1 b Hb).
      assert (Hne : b <> d_buf nd) by (unfold nd; cbn [d_buf]; lia).
      (* buffers other than the fresh one keep their whole contents *)
      apply nth_error_ext_eq.
      intros k. pose proof (Hoth b (Z.of_nat k) Hne) as Hk. unfold bget, zget in Hk.
      replace (Z.of_nat k <? 0) with false in Hk by lia. rewrite Nat2Z.id in Hk. exact Hk.
    - intros t0 d0 H0. unfold Mem.get_t, σ' in *. cbn [tens]. rewrite nth_error_app1; [exact H0|].
      apply nth_error_Some_lt in H0. exact H0. }
  split; [reflexivity|]. split; [unfold Mem.get_t, σ'; cbn [tens]; apply nth_error_app_last|].
  split; [reflexivity|]. split; [exact Hwf'|]. split; [exact Hcn|].
  split; [rewrite Hgb, Fl, Hnew, zlen_repeat; lia|]. split; [exact Hext|]. split; [|split].
  - unfold σ'. cbn [bufs]. rewrite Fb. unfold σ1. cbn [bufs]. rewrite app_length. cbn. lia.
  - unfold σ'. cbn [tens]. rewrite app_length. cbn. lia.
  - intros c Hc. rewrite (cell_bget σ' nd c Hwf' Hc), (cell_bget σ d c Hwf Hc).
    rewrite Hbg. rewrite (Hcells c Hc). apply (extends_bget σ σ1); assumption.
Qed.

(* ====================================================================================== *)
(*  P2 — views alias their parent: Slice, T, UT                                            *)
(* ====================================================================================== *)
Lemma ap_S_src_inbox a len sl a' s e : pos_shape (shp a) -> ap_S a len sl = Ok (a', s, e) ->
  forall c, inbox (extents 0 (shp a) sl) c -> inbox (shp a) (src_coord (shp a) sl c).
Proof.
  intros Hp H. apply ap_S_ok_inv in H as (_ & nsh & nst & o & isvec & outer & Hr & _).
  pose proof (apS_loop_extents _ _ _ _ _ _ _ _ _ _ _ _ _ _ Hr) as <-.
  exact (apS_loop_src_inbox _ _ _ _ _ _ _ _ _ _ _ _ _ _ Hp Hr).
Qed.

Lemma ap_S_zeros_inbox a len sl a' s e : length (str a) = length (shp a) ->
  Forall (fun k => 0 <= k) (str a) -> pos_shape (shp a) ->
  any_axis slice_count_zero (shp a) sl = false -> ap_S a len sl = Ok (a', s, e) ->
  inbox (extents 0 (shp a) sl) (map (fun _ => 0) (shp a)).
Proof.
  intros Hl Hst Hp Hz H. apply ap_S_ok_inv in H as (_ & nsh & nst & o & isvec & outer & Hr & _).
  pose proof (apS_loop_extents _ _ _ _ _ _ _ _ _ _ _ _ _ _ Hr) as <-.
  destruct (apS_loop_spec _ _ _ _ _ _ _ _ _ _ _ _ _ _ Hl Hr) as (L1 & _ & _).
  destruct (apS_loop_window _ _ _ _ _ _ _ _ _ _ _ _ _ _ Hl Hst Hp Hz Hr) as (_ & _ & Hzero & _).
  rewrite (map_const_length 0 (shp a) nsh) by congruence. exact Hzero.
Qed.

Lemma wf_ap_slice len a sl a' s e : wf_ap len a ->
  any_axis slice_count_zero (shp a) sl = false -> ap_S a len sl = Ok (a', s, e) ->
  0 <= s /\ s < e /\ e <= len /\ wf_ap (e - s) a'.
Proof.
  intros (Hp & Hl & Hst & Hb & Hinj) Hz H.
  destruct (ap_S_window a len sl a' s e Hl Hst Hp Hb Hz H) as (W0 & W1 & W2 & W3).
  destruct (ap_S_closure a len sl a' s e Hl H) as (C1 & C2 & C3).
  split; [exact W0|]. split; [exact W1|]. split; [exact W2|].
  split; [apply C3; assumption|]. split; [exact C1|]. split; [apply C2; exact Hst|].
  split; [exact W3|]. exact (ap_S_injective a len sl a' s e Hl Hp Hinj H).
Qed.

Theorem m_slice_aliases σ t d sl σ' t' : get_t σ t = Some d -> wf_dense σ d ->
  any_axis slice_count_zero (shp (d_ap d)) sl = false ->
  m_slice V σ t sl = Ok (σ', t') ->
  let sh := shp (d_ap d) in
  exists d', t' = length (tens σ) /\ σ' = mkStore V (bufs σ) (tens σ ++ [d']) /\
    d_buf d' = d_buf d /\ d_view d' = true /\ d_old d' = None /\
    d_off d <= d_off d' /\ d_off d' + d_len d' <= d_off d + d_len d /\
    wf_dense σ' d' /\
    (d_len d' <> 1 ->
       shp (d_ap d') = drop_all (extents 0 sh sl) (drop_flags (extents 0 sh sl) sl) /\
       forall c, inbox (shp (d_ap d')) c ->
         inbox sh (src_coord sh sl (expand (extents 0 sh sl) sl c)) /\
         pos d' c = pos d (src_coord sh sl (expand (extents 0 sh sl) sl c))) /\
    (d_len d' = 1 ->
       d_ap d' = scalar_ap /\ inbox sh (src_coord sh sl (map (fun _ => 0) sh)) /\
       pos d' [] = pos d (src_coord sh sl (map (fun _ => 0) sh))).
Proof.
  intros Ht Hwf Hz H sh. pose proof Hwf as ((W0 & W1 & W2) & Ha & _).
  pose proof Ha as (Hp & Hl & Hst & _).
  unfold m_slice in H. change (Mem.get_t V σ t) with (get_t σ t) in H. rewrite Ht in H.
  destruct (ap_S (d_ap d) (d_len d) sl) as [[[a' s] e]| |] eqn:ES; try discriminate.
  destruct (_ || _) eqn:Eg in H; [discriminate|]. unfold add_t in H. injection H as <- <-.
  destruct (wf_ap_slice _ _ _ _ _ _ Ha Hz ES) as (S0 & S1 & S2 & Ha').
  set (d' := mkDense (d_buf d) (d_off d + s) (e - s) a' None true).
  exists d'. split; [reflexivity|]. split; [reflexivity|].
  split; [reflexivity|]. split; [reflexivity|]. split; [reflexivity|].
  unfold d'. cbn [d_off d_len d_ap d_buf d_old].
  split; [lia|]. split; [lia|]. split; [|split].
  - split; [|split; [exact Ha'|discriminate]].
    unfold wf_win. cbn [d_off d_len d_buf].
    unfold Mem.get_buf in *. cbn [bufs]. lia.
  - intro Hne. destruct (ap_S_offset _ _ _ _ _ _ Hl ES Hne) as (Hshp & Hmap).
    split; [exact Hshp|]. intros c Hc. destruct (Hmap c Hc) as (Hi & Hd).
    split; [apply (ap_S_src_inbox _ _ _ _ _ _ Hp ES); exact Hi|].
    unfold pos. cbn [d_off d_ap]. fold sh in Hd. lia.
  - intro He. destruct (ap_S_offset_scalar _ _ _ _ _ _ Hl ES He) as (-> & Hd).
    split; [reflexivity|]. split.
    + apply (ap_S_src_inbox _ _ _ _ _ _ Hp ES).
      apply (ap_S_zeros_inbox _ _ _ _ _ _ Hl Hst Hp Hz ES).
    + unfold pos. cbn [d_off d_ap]. fold sh in Hd. lia.
Qed.

Lemma get_t_set_t_same σ t d d' : get_t σ t = Some d -> get_t (set_t σ t d') t = Some d'.
Proof.
  intro H. unfold Mem.get_t, Mem.set_t in *. cbn [tens]. apply nth_error_upd_same.
  apply nth_error_Some_lt in H. exact H.
Qed.

Lemma get_t_set_t_other σ t t0 d' : t0 <> t -> get_t (set_t σ t d') t0 = get_t σ t0.
Proof. intro H. unfold Mem.get_t, Mem.set_t. cbn [tens]. apply nth_error_upd_other. congruence. Qed.

Lemma wf_dense_set_t σ t x d : wf_dense σ d -> wf_dense (set_t σ t x) d.
Proof. intro H. exact H. Qed.

Theorem m_T_aliases σ t d axes : get_t σ t = Some d -> wf_dense σ d -> d_old d = None ->
  let a := d_ap d in let n := length (shp a) in let p := axes_or_rev n axes in
  is_scalar_equiv (shp a) = false -> is_vector (shp a) = false ->
  is_permb p n = true -> p <> zseq 0 n ->
  exists d', m_T V σ t axes = Ok (set_t σ t d') /\
    d' = mkDense (d_buf d) (d_off d) (d_len d)
                 (mkAP (permute 0 p (shp a)) (permute 0 p (str a)) (Z.lor (ord a) TR) true)
                 (Some a) (d_view d) /\
    wf_dense (set_t σ t d') d' /\
    forall c, inbox (shp (d_ap d')) c ->
      inbox (shp a) (unpermute p c) /\ pos d' c = pos d (unpermute p c).
Proof.
  intros Ht Hwf Hold a n p Hse Hv Hp Hid. pose proof Hwf as (Hw & Ha & _).
  pose proof Ha as (Hps & Hl & Hst & Hb & Hinj).
  destruct (ap_T_offset a axes Hl Hse Hv Hp Hid) as (HT & Hmap). fold n p in HT, Hmap.
  destruct (ap_T_closure a p n (d_len d) Hp eq_refl Hl) as (C1 & C2 & C3 & C4 & C5).
  eexists. split; [|split; [reflexivity|]].
  - unfold m_T. change (Mem.get_t V σ t) with (get_t σ t). rewrite Ht. fold a. rewrite HT, Hold.
    reflexivity.
  - split.
    + apply wf_dense_set_t. split; [exact Hw|]. cbn [d_len d_ap d_old]. split.
      * split; [apply C3; exact Hps|]. split; [exact C1|]. split; [apply C2; exact Hst|].
        split; [apply C4; exact Hb|apply C5; exact Hinj].
      * intros o Ho. injection Ho as <-. exact Ha.
    + cbn [d_ap shp]. intros c Hc.
      assert (Hlc : length c = n).
      { apply inbox_length in Hc. rewrite permute_length in Hc.
        destruct (is_permb_spec p n Hp) as (Hlp & _). lia. }
      destruct (Hmap c Hlc) as (Hd & Hi). split; [apply Hi; exact Hc|].
      unfold pos. cbn [d_off d_ap str]. fold a. rewrite Hd. reflexivity.
Qed.

Lemma ut_dense_of_T d tr : d_old d = None ->
  ut_dense (mkDense (d_buf d) (d_off d) (d_len d) tr (Some (d_ap d)) (d_view d)) = d.
Proof. destruct d as [b o l a old v]. cbn. intros ->. reflexivity. Qed.

Lemma set_t_set_t_id σ t d d' : get_t σ t = Some d -> set_t (set_t σ t d') t d = σ.
Proof.
  intro H. unfold Mem.set_t, Mem.get_t in *. cbn [bufs tens]. rewrite upd_upd, (upd_same_id _ _ _ H).
  destruct σ; reflexivity.
Qed.

Lemma set_t_id σ t d : get_t σ t = Some d -> set_t σ t d = σ.
Proof.
  intro H. unfold Mem.set_t, Mem.get_t in *. rewrite (upd_same_id _ _ _ H). destruct σ; reflexivity.
Qed.

(* UT undoes a lazy T on a tensor with nothing pending: the whole store is as before *)
Theorem T_UT_id σ t d axes σ1 : get_t σ t = Some d -> d_old d = None ->
  m_T V σ t axes = Ok σ1 -> m_UT V σ1 t = Ok σ.
Proof.
  intros Ht Hold H. unfold m_T in H. change (Mem.get_t V σ t) with (get_t σ t) in H. rewrite Ht in H.
  destruct (ap_T (d_ap d) axes) as [tr ax| | |]; try discriminate.
  - rewrite Hold in H. injection H as <-. unfold m_UT.
    change (Mem.get_t V) with get_t. rewrite (get_t_set_t_same σ t d _ Ht).
    rewrite (ut_dense_of_T d tr Hold). change (Mem.set_t V) with set_t.
    rewrite (set_t_set_t_id σ t d _ Ht). reflexivity.
  - injection H as <-. unfold m_UT. change (Mem.get_t V) with get_t. rewrite Ht.
    unfold ut_dense. rewrite Hold. change (Mem.set_t V) with set_t. rewrite (set_t_id σ t d Ht).
    reflexivity.
Qed.

(* aliasing made observable: a SetAt through one tensor is read by At through another exactly
   when the two coordinates name the same absolute position; otherwise At is unaffected *)
Theorem setat_at_alias σ t1 d1 c1 t2 d2 c2 v :
  get_t σ t1 = Some d1 -> get_t σ t2 = Some d2 -> wf_dense σ d1 -> wf_dense σ d2 ->
  inbox (shp (d_ap d1)) c1 -> inbox (shp (d_ap d2)) c2 ->
  exists σ', m_setat V σ t1 c1 v = Ok σ' /\
    ((d_buf d1 = d_buf d2 /\ pos d1 c1 = pos d2 c2) -> m_at V σ' t2 c2 = Ok v) /\
    (~ (d_buf d1 = d_buf d2 /\ pos d1 c1 = pos d2 c2) -> m_at V σ' t2 c2 = m_at V σ t2 c2).
Proof.
  intros H1 H2 W1 W2 I1 I2.
  destruct (m_setat_frame σ t1 d1 c1 v H1 W1 I1) as (σ' & E & Hfr & Hsame & Hother).
  exists σ'. split; [exact E|].
  assert (H2' : get_t σ' t2 = Some d2) by (unfold Mem.get_t; rewrite (proj1 Hfr); exact H2).
  assert (W2' : wf_dense σ' d2) by (apply (wf_dense_frame σ); [apply frame_eq_lens; exact Hfr|exact W2]).
  destruct (m_at_cell σ' t2 d2 c2 H2' W2' I2) as (v' & Ev' & _ & Bv').
  split.
  - intros [Eb Ep]. rewrite <- Eb, <- Ep, Hsame in Bv'. congruence.
  - intro Hn. destruct (m_at_cell σ t2 d2 c2 H2 W2 I2) as (v0 & Ev0 & _ & Bv0).
    rewrite Hother in Bv'; [congruence|].
    destruct (Nat.eq_dec (d_buf d2) (d_buf d1)) as [Eb|Eb]; [|left; exact Eb].
    right. intro Ep. apply Hn. split; congruence.
Qed.

(* a write through a slice is read through the parent at the source coordinate, and vice versa *)
Theorem slice_write_through σ t d sl σ' t' : get_t σ t = Some d -> wf_dense σ d ->
  any_axis slice_count_zero (shp (d_ap d)) sl = false ->
  m_slice V σ t sl = Ok (σ', t') ->
  let sh := shp (d_ap d) in
  exists d', get_t σ' t' = Some d' /\ get_t σ' t = Some d /\
    (d_len d' <> 1 -> forall c v, inbox (shp (d_ap d')) c ->
       let src := src_coord sh sl (expand (extents 0 sh sl) sl c) in
       (exists σ2, m_setat V σ' t' c v = Ok σ2 /\ m_at V σ2 t src = Ok v) /\
       (exists σ2, m_setat V σ' t src v = Ok σ2 /\ m_at V σ2 t' c = Ok v)).
Proof.
  intros Ht Hwf Hz H sh.
  destruct (m_slice_aliases σ t d sl σ' t' Ht Hwf Hz H)
    as (d' & -> & -> & Hb & _ & _ & _ & _ & Hwf' & Hmap & _).
  assert (Hg' : get_t (mkStore V (bufs σ) (tens σ ++ [d'])) (length (tens σ)) = Some d').
  { unfold Mem.get_t. cbn [tens]. apply nth_error_app_last. }
  assert (Hg : get_t (mkStore V (bufs σ) (tens σ ++ [d'])) t = Some d).
  { unfold Mem.get_t in *. cbn [tens]. rewrite nth_error_app1; [exact Ht|].
    apply nth_error_Some_lt in Ht. exact Ht. }
  assert (Hwfd : wf_dense (mkStore V (bufs σ) (tens σ ++ [d'])) d) by exact Hwf.
  exists d'. split; [exact Hg'|]. split; [exact Hg|].
  intros Hne c v Hc src. destruct (Hmap Hne) as (_ & Hm). destruct (Hm c Hc) as (Hi & Hp).
  fold sh in Hi, Hp. fold src in Hi, Hp. split.
  - destruct (setat_at_alias _ _ d' c t d src v Hg' Hg Hwf' Hwfd Hc Hi) as (σ2 & E & Ha & _).
    exists σ2. split; [exact E|]. apply Ha. split; assumption.
  - destruct (setat_at_alias _ _ d src _ d' c v Hg Hg' Hwfd Hwf' Hi Hc) as (σ2 & E & Ha & _).
    exists σ2. split; [exact E|]. apply Ha. split; [symmetry; assumption|symmetry; assumption].
Qed.

(* ====================================================================================== *)
(*  P5 — physical transposition keeps the logical content                                  *)
(* ====================================================================================== *)
Lemma wf_ap_ext len a b : shp a = shp b -> str a = str b -> wf_ap len a -> wf_ap len b.
Proof. unfold wf_ap. intros -> ->. tauto. Qed.

(* a vector stored in a window of exactly its size already has default strides, cell-wise *)
Lemma vector_dot_default len a c : wf_ap len a -> len = size (shp a) -> is_vector (shp a) = true ->
  inbox (shp a) c -> dot (str a) c = dot (calc_strides (shp a)) c.
Proof.
  intros (Hp & Hl & Hst & Hb & Hinj) Hlen Hv Hc.
  unfold is_vector, is_colvec, is_rowvec in Hv.
  destruct (shp a) as [|n [|m [|? ?]]] eqn:Es; cbn in Hv; try discriminate.
  - destruct (str a) as [|k [|? ?]]; try discriminate.
    destruct c as [|x [|? ?]]; cbn in Hc; try tauto. cbn [calc_strides size dot].
    destruct (Z.eq_dec x 0) as [->|Hx]; [lia|].
    pose proof (Hb [n - 1] ltac:(cbn; lia)) as B. cbn [dot size] in B, Hlen.
    pose proof (Hinj [0] [1] ltac:(cbn; lia) ltac:(cbn; lia)) as I. cbn [dot] in I.
    assert (k = 1); [|subst; lia].
    assert (k <> 0) by (intro; subst k; specialize (I ltac:(lia)); discriminate). nia.
  - destruct (str a) as [|k0 [|k1 [|? ?]]]; try discriminate.
    destruct c as [|x [|y [|? ?]]]; cbn in Hc; try tauto. cbn [calc_strides size dot] in *.
    inversion Hp as [|? ? Hn Hp']; subst. inversion Hp' as [|? ? Hm _]; subst.
    assert (Hcase : (m = 1 /\ 1 < n) \/ (n = 1 /\ 1 < m)) by lia.
    destruct Hcase as [[-> Hn1]|[-> Hm1]].
    + assert (y = 0) by lia. subst y.
      destruct (Z.eq_dec x 0) as [->|Hx]; [lia|].
      pose proof (Hb [n - 1; 0] ltac:(cbn; lia)) as B. cbn [dot] in B.
      pose proof (Hinj [0; 0] [1; 0] ltac:(cbn; lia) ltac:(cbn; lia)) as I. cbn [dot] in I.
      assert (k0 = 1); [|subst; lia].
      assert (k0 <> 0) by (intro; subst k0; specialize (I ltac:(lia)); discriminate). nia.
    + assert (x = 0) by lia. subst x.
      destruct (Z.eq_dec y 0) as [->|Hy]; [lia|].
      pose proof (Hb [0; m - 1] ltac:(cbn; lia)) as B. cbn [dot] in B.
      pose proof (Hinj [0; 0] [0; 1] ltac:(cbn; lia) ltac:(cbn; lia)) as I. cbn [dot] in I.
      assert (k1 = 1); [|subst; lia].
      assert (k1 <> 0) by (intro; subst k1; specialize (I ltac:(lia)); discriminate). nia.
Qed.

Theorem m_transpose_d_logical_id σ d o : wf_dense σ d -> d_old d = Some o ->
  is_cm (ord (d_ap d)) = false -> is_scalar (shp (d_ap d)) = false ->
  d_len d = size (shp (d_ap d)) ->
  let sh := shp (d_ap d) in
  exists σ' d', m_transpose_d V σ d = Ok (σ', d') /\
    d' = mkDense (d_buf d) (d_off d) (d_len d)
                 (mkAP sh (calc_strides sh) (ord (d_ap d)) (fin (d_ap d))) None (d_view d) /\
    wf_dense σ' d' /\ frame_eq σ σ' /\
    (forall b p, b <> d_buf d -> bget σ' b p = bget σ b p) /\
    (forall p, ~ (d_off d <= p < d_off d + d_len d) -> bget σ' (d_buf d) p = bget σ (d_buf d) p) /\
    (forall c, inbox sh c -> cell σ' d' c = cell σ d c).
Proof.
  intros Hwf Hold Hcm Hsc Hlen sh. pose proof Hwf as (Hw & Ha & _).
  pose proof Ha as (Hp & Hl & Hst & Hb & Hinj). pose proof (size_pos _ Hp) as Hsz. fold sh in Hsz.
  unfold m_transpose_d. rewrite Hold, Hsc. unfold default_strides. rewrite Hcm. fold sh.
  rewrite copy_prefix_same_length by (rewrite calc_strides_length; exact Hl).
  set (d' := mkDense (d_buf d) (d_off d) (d_len d)
                     (mkAP sh (calc_strides sh) (ord (d_ap d)) (fin (d_ap d))) None (d_view d)).
  assert (Ha' : wf_ap (d_len d) (d_ap d')).
  { rewrite Hlen. fold sh. apply (wf_ap_ext _ (mkAP sh (calc_strides sh) 0 true)); try reflexivity.
    apply wf_ap_rowmajor. exact Hp. }
  assert (Hwf'0 : wf_dense σ d') by (split; [exact Hw|split; [exact Ha'|discriminate]]).
  destruct (is_vector sh) eqn:Ev.
  - exists σ, d'. split; [reflexivity|]. split; [reflexivity|]. split; [exact Hwf'0|].
    split; [apply frame_eq_refl|]. split; [reflexivity|]. split; [reflexivity|].
    intros c Hc. unfold cell. unfold d' at 2. cbn [d_ap str].
    pose proof (vector_dot_default _ _ c Ha Hlen Ev Hc) as Hvd. fold sh in Hvd. rewrite <- Hvd.
    rewrite !win_get_bget by (apply Hb; exact Hc). reflexivity.
  - rewrite (iter_all_offsets _ _ Ha).
    pose proof (offsets_range _ _ Ha) as Hro.
    destruct (win_gather_spec d σ Hw _ Hro) as (tmp & Eg & HF). rewrite Eg.
    assert (Hlt : zlen tmp = size sh).
    { unfold zlen. rewrite <- (Forall2_len _ _ _ HF), offsets_length. fold sh. lia. }
    replace (Z.min (d_len d) (zlen tmp)) with (size sh) by (fold sh in Hlen; lia).
    assert (Hrange : Forall (fun i => 0 <= i < d_len d) (zseq 0 (Z.to_nat (size sh)))).
    { apply Forall_forall. intros i Hi. apply APProofs.zseq_In in Hi. fold sh in Hlen. lia. }
    rewrite (win_scatter_writes d _ tmp σ Hw Hrange).
    set (ws := combine (map (fun i => d_off d + i) (zseq 0 (Z.to_nat (size sh)))) tmp).
    exists (writes σ (d_buf d) ws), d'.
    assert (Hfst : map fst ws = map (fun i => d_off d + i) (zseq 0 (Z.to_nat (size sh)))).
    { apply map_fst_combine. rewrite map_length, APProofs.zseq_length. unfold zlen in Hlt. lia. }
    pose proof Hw as (W0 & W1 & W2). fold sh in Hlen.
    assert (Hws' : forall q w, In (q, w) ws -> 0 <= q < zlen (get_buf σ (d_buf d))).
    { intros q w Hin. apply in_combine_l in Hin. apply in_map_iff in Hin as (i & <- & Hi).
      apply APProofs.zseq_In in Hi. lia. }
    assert (Hnd : NoDup (map fst ws)).
    { rewrite Hfst. apply NoDup_map_on; [apply APProofs.zseq_NoDup|]. intros; lia. }
    pose proof (writes_frame (d_buf d) ws σ) as Hfr.
    assert (Hwf' : wf_dense (writes σ (d_buf d) ws) d').
    { apply (wf_dense_frame σ); [apply frame_eq_lens; exact Hfr|exact Hwf'0]. }
    split; [reflexivity|]. split; [reflexivity|]. split; [exact Hwf'|]. split; [exact Hfr|].
    split; [|split].
    + intros b p Hne. apply writes_other_buf. exact Hne.
    + intros p Hp'. apply (writes_spec (d_buf d) ws σ Hws' p). rewrite Hfst.
      intro Hin. apply in_map_iff in Hin as (i & <- & Hi). apply APProofs.zseq_In in Hi. lia.
    + intros c Hc. rewrite (cell_bget _ d' c Hwf' Hc), (cell_bget σ d c Hwf Hc).
      pose proof (rk_bound sh c Hp Hc) as Hr.
      assert (Hpos : pos d' c = d_off d + rk sh c).
      { unfold pos, d'. cbn [d_off d_ap str]. rewrite rk_dot. reflexivity. }
      pose proof (nth_error_offsets _ c Hp Hc) as No. fold sh in No.
      destruct (Forall2_nth_error _ _ _ HF _ _ No) as (v & Nv & Hv).
      fold (pos d c) in Hv. rewrite Hv, Hpos. unfold d'. cbn [d_buf].
      apply writes_NoDup_get; [exact Hws'|exact Hnd|].
      eapply nth_error_In with (n := Z.to_nat (rk sh c)). apply nth_error_combine; [|exact Nv].
      erewrite map_nth_error; [|apply APProofs.zseq_nth_error; lia]. f_equal. lia.
Qed.

Theorem m_transpose_logical_id σ t d o : get_t σ t = Some d -> wf_dense σ d -> d_old d = Some o ->
  is_cm (ord (d_ap d)) = false -> is_scalar (shp (d_ap d)) = false ->
  d_len d = size (shp (d_ap d)) ->
  let sh := shp (d_ap d) in
  exists σ' d', m_transpose V σ t = Ok σ' /\ get_t σ' t = Some d' /\
    d' = mkDense (d_buf d) (d_off d) (d_len d)
                 (mkAP sh (calc_strides sh) (ord (d_ap d)) (fin (d_ap d))) None (d_view d) /\
    wf_dense σ' d' /\ length (tens σ') = length (tens σ) /\
    (forall t0, t0 <> t -> get_t σ' t0 = get_t σ t0) /\
    (forall b, zlen (get_buf σ' b) = zlen (get_buf σ b)) /\
    (forall b p, b <> d_buf d -> bget σ' b p = bget σ b p) /\
    (forall p, ~ (d_off d <= p < d_off d + d_len d) -> bget σ' (d_buf d) p = bget σ (d_buf d) p) /\
    (forall c, inbox sh c -> cell σ' d' c = cell σ d c).
Proof.
  intros Ht Hwf Hold Hcm Hsc Hlen sh.
  destruct (m_transpose_d_logical_id σ d o Hwf Hold Hcm Hsc Hlen)
    as (σ1 & d' & E & Hd' & Hwf' & (Ft & Fb & Fl) & Hoth & Hout & Hcell).
  exists (set_t σ1 t d'), d'. unfold m_transpose. change (Mem.get_t V σ t) with (get_t σ t).
  rewrite Ht, E. split; [reflexivity|].
  assert (Ht1 : get_t σ1 t = Some d) by (unfold Mem.get_t; rewrite Ft; exact Ht).
  split; [apply (get_t_set_t_same σ1 t d d' Ht1)|]. split; [exact Hd'|]. split; [exact Hwf'|].
  split; [unfold Mem.set_t; cbn [tens]; rewrite upd_length, Ft; reflexivity|].
  split; [intros t0 Hne; rewrite get_t_set_t_other by exact Hne; unfold Mem.get_t; rewrite Ft; reflexivity|].
  split; [exact Fl|]. split; [exact Hoth|]. split; [exact Hout|exact Hcell].
Qed.

(* ====================================================================================== *)
(*  P6 — the metadata invariant is preserved (C13); Reshape                                *)
(* ====================================================================================== *)
(* every tensor of the store is well-formed *)
Definition wf_store (σ : store V) : Prop := forall t d, get_t σ t = Some d -> wf_dense σ d.

Lemma wf_store_frame σ σ' : frame_eq σ σ' -> wf_store σ -> wf_store σ'.
Proof.
  intros (Ft & _ & Fl) H t d Hg. apply (wf_dense_frame σ); [exact Fl|]. apply (H t).
  unfold Mem.get_t in *. rewrite <- Ft. exact Hg.
Qed.

Lemma nth_error_upd_inv {A} (l : list A) n v x : nth_error (upd l n v) n = Some x -> x = v.
Proof.
  intro H. destruct (Nat.lt_ge_cases n (length l)) as [Hlt|Hge].
  - rewrite nth_error_upd_same in H by exact Hlt. congruence.
  - assert (nth_error (upd l n v) n = None) by (apply nth_error_None; rewrite upd_length; exact Hge).
    congruence.
Qed.

Lemma wf_store_set_t σ t d' : wf_store σ -> wf_dense σ d' -> wf_store (set_t σ t d').
Proof.
  intros H Hd t0 d0 Hg. apply wf_dense_set_t. destruct (Nat.eq_dec t0 t) as [->|Hne].
  - unfold Mem.get_t, Mem.set_t in Hg. cbn [tens] in Hg. apply nth_error_upd_inv in Hg. subst. exact Hd.
  - rewrite get_t_set_t_other in Hg by exact Hne. apply (H t0). exact Hg.
Qed.

Lemma wf_store_add_t σ d' : wf_store σ -> wf_dense σ d' -> wf_store (mkStore V (bufs σ) (tens σ ++ [d'])).
Proof.
  intros H Hd t0 d0 Hg. change (wf_dense σ d0). unfold Mem.get_t in Hg. cbn [tens] in Hg.
  destruct (Nat.lt_ge_cases t0 (length (tens σ))) as [Hlt|Hge].
  - rewrite nth_error_app1 in Hg by exact Hlt. apply (H t0). exact Hg.
  - rewrite nth_error_app2 in Hg by exact Hge.
    destruct (t0 - length (tens σ))%nat as [|k]; cbn in Hg.
    + injection Hg as <-. exact Hd.
    + destruct k; discriminate.
Qed.

Lemma win_set_frame σ d i v σ' : win_set σ d i v = Some σ' -> frame_eq σ σ'.
Proof.
  unfold Mem.win_set, zset. destruct (_ || _); [discriminate|]. destruct (_ || _); [discriminate|].
  intro H. injection H as <-. apply (store_upd_frame σ (d_buf d) (d_off d + i) v).
Qed.

Lemma win_fill_frame d v : forall idx σ σ', win_fill V σ d idx v = Some σ' -> frame_eq σ σ'.
Proof.
  induction idx as [|i r IH]; intros σ σ' H; cbn [win_fill] in H.
  - injection H as <-. apply frame_eq_refl.
  - destruct (Mem.win_set V σ d i v) as [σ1|] eqn:E; [|discriminate].
    eapply frame_eq_trans; [apply (win_set_frame _ _ _ _ _ E)|apply (IH _ _ H)].
Qed.

Theorem meta_inv_setat σ t c v σ' : wf_store σ -> m_setat V σ t c v = Ok σ' -> wf_store σ'.
Proof.
  intros Hs H. unfold m_setat in H. destruct (Mem.get_t V σ t) as [d|]; [|discriminate].
  destruct (at_index _ _ c) as [i| |]; try discriminate.
  destruct (Mem.win_set V σ d i v) as [σ1|] eqn:E; [|discriminate]. injection H as <-.
  apply (wf_store_frame σ); [exact (win_set_frame _ _ _ _ _ E)|exact Hs].
Qed.

Theorem meta_inv_memset σ t v σ' : wf_store σ -> m_memset V σ t v = Ok σ' -> wf_store σ'.
Proof.
  intros Hs H. unfold m_memset in H. destruct (Mem.get_t V σ t) as [d|]; [|discriminate].
  destruct (is_materializable d).
  - destruct (iter_all (d_ap d)) as [idx|]; [|discriminate].
    destruct (win_fill V σ d idx v) as [σ1|] eqn:E; [|discriminate]. injection H as <-.
    apply (wf_store_frame σ); [exact (win_fill_frame _ _ _ _ _ E)|exact Hs].
  - destruct (win_fill V σ d _ v) as [σ1|] eqn:E; [|discriminate]. injection H as <-.
    apply (wf_store_frame σ); [exact (win_fill_frame _ _ _ _ _ E)|exact Hs].
Qed.

Theorem meta_inv_zero σ t σ' : wf_store σ -> m_zero V vzero σ t = Ok σ' -> wf_store σ'.
Proof.
  intros Hs H. unfold m_zero in H. destruct (Mem.get_t V σ t) as [d|]; [|discriminate].
  destruct (is_materializable d).
  - destruct (iter_all (d_ap d)) as [idx|]; [|discriminate].
    destruct (win_fill V σ d idx vzero) as [σ1|] eqn:E; [|discriminate]. injection H as <-.
    apply (wf_store_frame σ); [exact (win_fill_frame _ _ _ _ _ E)|exact Hs].
  - destruct (win_fill V σ d _ vzero) as [σ1|] eqn:E; [|discriminate]. injection H as <-.
    apply (wf_store_frame σ); [exact (win_fill_frame _ _ _ _ _ E)|exact Hs].
Qed.

Theorem meta_inv_slice σ t d sl σ' t' : wf_store σ -> get_t σ t = Some d ->
  any_axis slice_count_zero (shp (d_ap d)) sl = false ->
  m_slice V σ t sl = Ok (σ', t') -> wf_store σ'.
Proof.
  intros Hs Ht Hz H.
  destruct (m_slice_aliases σ t d sl σ' t' Ht (Hs t d Ht) Hz H) as (d' & _ & -> & _ & _ & _ & _ & _ & Hwf' & _).
  apply wf_store_add_t; [exact Hs|exact Hwf'].
Qed.

Theorem meta_inv_T σ t d axes σ' : wf_store σ -> get_t σ t = Some d -> d_old d = None ->
  let a := d_ap d in let n := length (shp a) in let p := axes_or_rev n axes in
  is_scalar_equiv (shp a) = false -> is_vector (shp a) = false ->
  is_permb p n = true -> p <> zseq 0 n ->
  m_T V σ t axes = Ok σ' -> wf_store σ'.
Proof.
  intros Hs Ht Hold a n p Hse Hv Hp Hid H.
  destruct (m_T_aliases σ t d axes Ht (Hs t d Ht) Hold Hse Hv Hp Hid) as (d' & E & _ & Hwf' & _).
  fold a n p in E. rewrite E in H. injection H as <-.
  apply wf_store_set_t; [exact Hs|exact Hwf'].
Qed.

Lemma wf_dense_ut σ d : wf_dense σ d -> wf_dense σ (ut_dense d).
Proof.
  intros (Hw & Ha & Ho). unfold ut_dense. destruct (d_old d) as [o|] eqn:E.
  - split; [exact Hw|]. split; [apply Ho; reflexivity|discriminate].
  - split; [exact Hw|]. split; [exact Ha|]. rewrite E. discriminate.
Qed.

Theorem meta_inv_UT σ t σ' : wf_store σ -> m_UT V σ t = Ok σ' -> wf_store σ'.
Proof.
  intros Hs H. unfold m_UT in H. destruct (Mem.get_t V σ t) as [d|] eqn:Ht; [|discriminate].
  injection H as <-. apply wf_store_set_t; [exact Hs|]. apply wf_dense_ut. apply (Hs t). exact Ht.
Qed.

Lemma wf_store_extends σ σ' dn : wf_store σ -> extends σ σ' ->
  length (tens σ') = S (length (tens σ)) -> get_t σ' (length (tens σ)) = Some dn ->
  wf_dense σ' dn -> wf_store σ'.
Proof.
  intros Hs Hext Hlen Hn Hwn t0 d0 Hg.
  pose proof (nth_error_Some_lt _ _ _ Hg) as Hlt.
  destruct (Nat.eq_dec t0 (length (tens σ))) as [->|Hne].
  - change (Mem.get_t V σ' (length (tens σ)) = Some d0) in Hg. congruence.
  - destruct (nth_error (tens σ) t0) as [x|] eqn:Ex.
    + pose proof (proj2 Hext t0 x Ex) as Hx.
      assert (d0 = x) by (unfold Mem.get_t in Hx, Hg; congruence). subst.
      apply (extends_wf σ σ' x Hext). apply (Hs t0). exact Ex.
    + apply nth_error_None in Ex. lia.
Qed.

Theorem meta_inv_clone σ t σ' t' : wf_store σ -> m_clone V σ t = Ok (σ', t') -> wf_store σ'.
Proof.
  intros Hs H. destruct (get_t σ t) as [d|] eqn:Ht.
  - destruct (m_clone_fresh_equal σ t d Ht (Hs t d Ht)) as (σ2 & d' & E & Hg & _ & Hwf' & Hext & _ & Hl & _).
    rewrite E in H. injection H as <- <-.
    exact (wf_store_extends σ σ2 d' Hs Hext Hl Hg Hwf').
  - unfold m_clone in H. change (Mem.get_t V σ t) with (get_t σ t) in H. rewrite Ht in H. discriminate.
Qed.

Theorem meta_inv_materialize σ t d σ' t' : wf_store σ -> get_t σ t = Some d ->
  (requires_iterator d = false -> contig d) ->
  m_materialize V vzero σ t = Ok (σ', t') -> wf_store σ'.
Proof.
  intros Hs Ht Hflag H. destruct (is_materializable d) eqn:Em.
  - destruct (m_materialize_fresh_equal σ t d Ht (Hs t d Ht) Em Hflag)
      as (σ2 & d' & E & Hg & _ & Hwf' & _ & _ & Hext & _ & Hl & _).
    rewrite E in H. injection H as <- <-.
    exact (wf_store_extends σ σ2 d' Hs Hext Hl Hg Hwf').
  - rewrite (m_materialize_noop σ t d Ht Em) in H. injection H as <- <-. exact Hs.
Qed.

Theorem meta_inv_transpose σ t d o σ' : wf_store σ -> get_t σ t = Some d -> d_old d = Some o ->
  is_cm (ord (d_ap d)) = false -> is_scalar (shp (d_ap d)) = false ->
  d_len d = size (shp (d_ap d)) ->
  m_transpose V σ t = Ok σ' -> wf_store σ'.
Proof.
  intros Hs Ht Hold Hcm Hsc Hlen H.
  destruct (m_transpose_logical_id σ t d o Ht (Hs t d Ht) Hold Hcm Hsc Hlen)
    as (σ2 & d' & E & Hg & _ & Hwf' & _ & Hoth & Hl & _).
  rewrite E in H. injection H as <-. intros t0 d0 Hg0.
  destruct (Nat.eq_dec t0 t) as [->|Hne].
  - assert (d0 = d') by congruence. subst. exact Hwf'.
  - rewrite (Hoth t0 Hne) in Hg0. apply (wf_dense_frame σ); [exact Hl|]. apply (Hs t0). exact Hg0.
Qed.

(* Reshape of a contiguous row-major tensor with nothing pending *)
Theorem reshape_spec σ t d dims : get_t σ t = Some d -> wf_dense σ d -> d_old d = None ->
  d_view d = false -> is_cm (ord (d_ap d)) = false -> contig d ->
  pos_shape dims -> size dims = size (shp (d_ap d)) ->
  exists d', m_reshape V σ t dims = Ok (set_t σ t d', false) /\
    d' = mkDense (d_buf d) (d_off d) (d_len d) (mkAP dims (calc_strides dims) (ord (d_ap d)) true)
                 None false /\
    bufs (set_t σ t d') = bufs σ /\ get_t (set_t σ t d') t = Some d' /\
    wf_dense (set_t σ t d') d' /\ contig d' /\
    forall k, 0 <= k < size dims ->
      cell (set_t σ t d') d' (unrank dims k) = cell σ d (unrank (shp (d_ap d)) k).
Proof.
  intros Ht Hwf Hold Hview Hcm Hc Hpd Hsz. pose proof Hwf as (Hw & Ha & _). pose proof Ha as (Hp & _).
  pose proof Hc as [Hstr Hlen].
  set (d' := mkDense (d_buf d) (d_off d) (d_len d) (mkAP dims (calc_strides dims) (ord (d_ap d)) true)
                     None false).
  assert (Ha' : wf_ap (d_len d) (d_ap d')).
  { rewrite Hlen, <- Hsz. apply (wf_ap_ext _ (mkAP dims (calc_strides dims) 0 true)); try reflexivity.
    apply wf_ap_rowmajor. exact Hpd. }
  assert (Hwf' : wf_dense (set_t σ t d') d').
  { apply wf_dense_set_t. split; [exact Hw|split; [exact Ha'|discriminate]]. }
  assert (Hc' : contig d') by (split; [reflexivity|cbn [d' d_len d_ap shp]; congruence]).
  exists d'. split; [|split; [reflexivity|split; [reflexivity|split; [apply (get_t_set_t_same σ t d d' Ht)|]]]].
  - unfold m_reshape. change (Mem.get_t V σ t) with (get_t σ t). rewrite Ht.
    replace (size (shp (d_ap d)) =? size dims) with true by lia. cbn [negb].
    rewrite Hview, Hold. cbn [andb is_some]. cbv zeta.
    cbn [d_view d_len d_ap d_buf d_off d_old ord]. rewrite Hview, Hold.
    unfold default_strides. rewrite Hcm.
    replace (d_len d =? size dims) with true by lia. cbn [negb andb].
    destruct dims as [|x r]; reflexivity.
  - split; [exact Hwf'|]. split; [exact Hc'|]. intros k Hk.
    assert (Hk' : 0 <= k < size (shp (d_ap d))) by lia.
    pose proof (unrank_inbox dims k Hpd Hk) as Hi'. pose proof (unrank_inbox _ k Hp Hk') as Hi.
    rewrite (cell_bget _ d' _ Hwf' Hi'), (cell_bget σ d _ Hwf Hi).
    rewrite (contig_pos d' _ Hc'), (contig_pos d _ Hc). cbn [d' d_ap shp d_off d_buf].
    rewrite !rk_unrank by assumption. reflexivity.
Qed.

(* Reshape with a lazy transpose pending: the data is first moved (Transpose), then the new
   shape is installed; the flat row-major sequence of the TRANSPOSED tensor is preserved *)
Theorem reshape_spec_pending σ t d o dims : get_t σ t = Some d -> wf_dense σ d -> d_old d = Some o ->
  d_view d = false -> is_cm (ord (d_ap d)) = false -> is_scalar (shp (d_ap d)) = false ->
  d_len d = size (shp (d_ap d)) ->
  pos_shape dims -> size dims = size (shp (d_ap d)) ->
  exists σ' d', m_reshape V σ t dims = Ok (σ', false) /\ get_t σ' t = Some d' /\
    d' = mkDense (d_buf d) (d_off d) (d_len d) (mkAP dims (calc_strides dims) (ord (d_ap d)) true)
                 None false /\
    wf_dense σ' d' /\ contig d' /\
    (forall b, zlen (get_buf σ' b) = zlen (get_buf σ b)) /\
    (forall b p, b <> d_buf d -> bget σ' b p = bget σ b p) /\
    (forall p, ~ (d_off d <= p < d_off d + d_len d) -> bget σ' (d_buf d) p = bget σ (d_buf d) p) /\
    forall k, 0 <= k < size dims ->
      cell σ' d' (unrank dims k) = cell σ d (unrank (shp (d_ap d)) k).
Proof.
  intros Ht Hwf Hold Hview Hcm Hsc Hlen Hpd Hsz. pose proof Hwf as (Hw & Ha & _). pose proof Ha as (Hp & _).
  destruct (m_transpose_d_logical_id σ d o Hwf Hold Hcm Hsc Hlen)
    as (σ1 & d1 & E & Hd1 & Hwf1 & (Ft & Fb & Fl) & Hoth & Hout & Hcell).
  set (d' := mkDense (d_buf d) (d_off d) (d_len d) (mkAP dims (calc_strides dims) (ord (d_ap d)) true)
                     None false).
  assert (Ha' : wf_ap (d_len d) (d_ap d')).
  { rewrite Hlen, <- Hsz. apply (wf_ap_ext _ (mkAP dims (calc_strides dims) 0 true)); try reflexivity.
    apply wf_ap_rowmajor. exact Hpd. }
  assert (Hwf' : wf_dense (set_t σ1 t d') d').
  { apply wf_dense_set_t. split; [|split; [exact Ha'|discriminate]].
    apply (wf_win_frame σ σ1 d' Fl). exact Hw. }
  assert (Hc' : contig d') by (split; [reflexivity|cbn [d' d_len d_ap shp]; congruence]).
  assert (Hc1 : contig d1) by (subst d1; split; [reflexivity|exact Hlen]).
  assert (Ht1 : get_t σ1 t = Some d) by (unfold Mem.get_t; rewrite Ft; exact Ht).
  exists (set_t σ1 t d'), d'. split; [|split; [apply (get_t_set_t_same σ1 t d d' Ht1)|split; [reflexivity|]]].
  - unfold m_reshape. change (Mem.get_t V σ t) with (get_t σ t). rewrite Ht.
    replace (size (shp (d_ap d)) =? size dims) with true by lia. cbn [negb].
    rewrite Hview, Hold. cbn [andb is_some]. rewrite E. cbv zeta. subst d1.
    cbn [d_view d_len d_ap d_buf d_off d_old ord]. rewrite Hview.
    unfold default_strides. rewrite Hcm.
    replace (d_len d =? size dims) with true by lia. cbn [negb andb].
    destruct dims as [|x r]; reflexivity.
  - split; [exact Hwf'|]. split; [exact Hc'|]. split; [exact Fl|]. split; [exact Hoth|].
    split; [exact Hout|]. intros k Hk.
    assert (Hk' : 0 <= k < size (shp (d_ap d))) by lia.
    pose proof (unrank_inbox dims k Hpd Hk) as Hi'. pose proof (unrank_inbox _ k Hp Hk') as Hi.
    rewrite <- (Hcell _ Hi).
    assert (Hi1 : inbox (shp (d_ap d1)) (unrank (shp (d_ap d)) k)) by (subst d1; exact Hi).
    rewrite (cell_bget _ d' _ Hwf' Hi'), (cell_bget σ1 d1 _ Hwf1 Hi1).
    rewrite (contig_pos d' _ Hc'), (contig_pos d1 _ Hc1). subst d1. cbn [d' d_ap shp d_off d_buf].
    rewrite !rk_unrank by assumption. reflexivity.
Qed.

Theorem reshape_refuses σ t d dims : get_t σ t = Some d -> size dims <> size (shp (d_ap d)) ->
  m_reshape V σ t dims = Ok (σ, true).
Proof.
  intros Ht Hsz. unfold m_reshape. change (Mem.get_t V σ t) with (get_t σ t). rewrite Ht.
  replace (size (shp (d_ap d)) =? size dims) with false by lia. reflexivity.
Qed.

(* ====================================================================================== *)
(*  the invariant is the model's observable meta_inv_obs, and is decidable                 *)
(* ====================================================================================== *)
Lemma ltoi_offsets a : pos_shape (shp a) -> length (str a) = length (shp a) ->
  map (fun c => match ltoi (shp a) (str a) c with Ok o => o | _ => -1 end) (coords (shp a)) = offsets a.
Proof.
  intros Hp Hl. unfold offsets. apply map_ext_in. intros c Hc. apply coords_In in Hc; [|exact Hp].
  rewrite ltoi_dot by assumption. reflexivity.
Qed.

Theorem wf_meta_inv_obs σ d : wf_dense σ d -> meta_inv_obs d = (true, true).
Proof.
  intros (_ & Ha & _). pose proof Ha as (Hp & Hl & _). unfold meta_inv_obs.
  rewrite (ltoi_offsets _ Hp Hl). f_equal.
  - apply NoDup_all_distinct. apply (offsets_NoDup _ _ Ha).
  - apply forallb_forall. intros o Ho. pose proof (offsets_range _ _ Ha) as Hr.
    rewrite Forall_forall in Hr. specialize (Hr o Ho). lia.
Qed.

Definition wf_apb (len : Z) (a : ap) : bool :=
  pos_shapeb (shp a) && (length (str a) =? length (shp a))%nat &&
  forallb (fun k => 0 <=? k) (str a) &&
  forallb (fun o => (0 <=? o) && (o <? len)) (offsets a) && all_distinct (offsets a).

Definition wf_denseb (σ : store V) (d : dense) : bool :=
  (0 <=? d_off d) && (0 <=? d_len d) && (d_off d + d_len d <=? zlen (get_buf σ (d_buf d))) &&
  wf_apb (d_len d) (d_ap d) && match d_old d with Some o => wf_apb (d_len d) o | None => true end.

Lemma wf_apb_sound len a : wf_apb len a = true -> wf_ap len a.
Proof.
  unfold wf_apb. intro H. repeat (apply andb_true_iff in H as [H ?]).
  assert (Hp : pos_shape (shp a)).
  { apply Forall_forall. intros x Hx. unfold pos_shapeb in H. rewrite forallb_forall in H.
    specialize (H x Hx). lia. }
  split; [exact Hp|]. split; [apply Nat.eqb_eq; assumption|]. split; [|split].
  - apply Forall_forall. intros x Hx. rewrite forallb_forall in H2. specialize (H2 x Hx). lia.
  - intros c Hc. rewrite forallb_forall in H1.
    assert (Hin : In (dot (str a) c) (offsets a)).
    { unfold offsets. apply in_map. apply coords_In; assumption. }
    specialize (H1 _ Hin). lia.
  - intros c c' Hc Hc' E. apply all_distinct_NoDup in H0. unfold offsets in H0.
    apply (NoDup_map_inj_on _ _ H0); [apply coords_In; assumption|apply coords_In; assumption|exact E].
Qed.

Theorem wf_denseb_sound σ d : wf_denseb σ d = true -> wf_dense σ d.
Proof.
  unfold wf_denseb. intro H. repeat (apply andb_true_iff in H as [H ?]).
  split; [unfold wf_win; lia|]. split; [apply wf_apb_sound; assumption|].
  intros o Ho. rewrite Ho in *. apply wf_apb_sound. assumption.
Qed.

Definition wf_storeb (σ : store V) : bool := forallb (wf_denseb σ) (tens σ).

Theorem wf_storeb_sound σ : wf_storeb σ = true -> wf_store σ.
Proof.
  intros H t d Hg. apply wf_denseb_sound. unfold wf_storeb in H. rewrite forallb_forall in H.
  apply H. eapply nth_error_In. exact Hg.
Qed.

End MemProofs.

(* ====================================================================================== *)
(*  necessity of the hypotheses: concrete counterexamples (V = Z)                          *)
(* ====================================================================================== *)
(* Materialize, raw path, unsound contiguity flag: the row slice [1:3] of a lazily transposed 4x6
   matrix is not flagged non-contiguous (no iterator), its strides are [1;6]; Materialize copies
   the head of its window instead of its elements *)
Theorem materialize_flag_unsound_refuted :
  let σ0 := mkStore Z [] [] in
  exists σ1 σT σ2 dv σ3,
    new_raw Z σ0 false [4; 6] (zseq 0 24) = Ok (σ1, 0%nat) /\ m_T Z σ1 0 [] = Ok σT /\
    m_slice Z σT 0 [Some (1, 3, 1)] = Ok (σ2, 1%nat) /\ get_t Z σ2 1 = Some dv /\
    wf_dense Z σ2 dv /\ is_materializable dv = true /\ requires_iterator dv = false /\
    str (d_ap dv) = [1; 6] /\ calc_strides (shp (d_ap dv)) = [4; 1] /\ flag_soundb dv = false /\
    m_materialize Z 0 σ2 1 = Ok (σ3, 2%nat) /\
    logical Z σ2 1 = map Ok [1; 7; 13; 19; 2; 8; 14; 20] /\
    logical Z σ3 2 = map Ok [1; 2; 3; 4; 5; 6; 7; 8].
Proof.
  cbv zeta. do 5 eexists.
  split; [vm_compute; reflexivity|]. split; [vm_compute; reflexivity|].
  split; [vm_compute; reflexivity|]. split; [vm_compute; reflexivity|].
  split; [apply wf_denseb_sound; vm_compute; reflexivity|].
  repeat (split; [vm_compute; reflexivity|]). vm_compute; reflexivity.
Qed.

(* Memset, whole-window path: a rank-0 tensor built over a 3-element backing (sanity() accepts any
   backing for a scalar shape) owns one cell, position 0; Memset overwrites the whole window *)
Theorem memset_window_refuted :
  let σ0 := mkStore Z [] [] in
  exists σ1 d σ2,
    new_raw Z σ0 false [] [1; 2; 3] = Ok (σ1, 0%nat) /\ get_t Z σ1 0 = Some d /\
    wf_dense Z σ1 d /\ is_materializable d = false /\ d_len d = 3 /\ size (shp (d_ap d)) = 1 /\
    (forall c, inbox (shp (d_ap d)) c -> pos d c = 0) /\
    m_memset Z σ1 0 9 = Ok σ2 /\ bget Z σ1 0 1 = Some 2 /\ bget Z σ2 0 1 = Some 9.
Proof.
  cbv zeta. do 3 eexists.
  split; [vm_compute; reflexivity|]. split; [vm_compute; reflexivity|].
  split; [apply wf_denseb_sound; vm_compute; reflexivity|].
  split; [vm_compute; reflexivity|]. split; [vm_compute; reflexivity|].
  split; [vm_compute; reflexivity|].
  split; [intros [|? ?] Hc; [reflexivity|destruct Hc]|].
  repeat (split; [vm_compute; reflexivity|]). vm_compute; reflexivity.
Qed.
