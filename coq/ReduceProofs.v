(* ReduceProofs.v — property C08: what the reduction kernels, OptimizedReduce, the axis loop,
   StdEng.Sum/Min/Max and the arg-reductions compute, on logical elements.
   Part 0: shared vocabulary; Part 1: R1-R5, R7 (reductions); Part 2: R6 (arg-reductions). *)
From TV Require Import Base Index AP Iter Mem Spec Reduce IndexProofs IterProofs APProofs MemProofs.
From Coq Require Import ZifyBool Lia Permutation Sorted.

Arguments Z.mul : simpl never.
Arguments Z.add : simpl never.
Arguments Z.sub : simpl never.
Arguments Z.leb : simpl never.
Arguments Z.ltb : simpl never.
Arguments Z.eqb : simpl never.
Arguments Z.div : simpl never.
Arguments Z.modulo : simpl never.
Arguments Z.quot : simpl never.
Arguments Z.min : simpl never.
Arguments Z.of_nat : simpl never.
Arguments Z.to_nat : simpl never.
Arguments Z.testbit : simpl never.

(* ---------- coordinates with one axis put back ---------- *)
(* [insert_at a k c']: the coordinate c' of the reduced tensor with k put back at axis a *)
Fixpoint insert_at (n : nat) (k : Z) (c : list Z) : list Z :=
  match n, c with
  | O, _ => k :: c
  | S n', x :: c' => x :: insert_at n' k c'
  | S _, [] => [k]
  end.

Lemma insert_at_app : forall (c1 c2 : list Z) k, insert_at (length c1) k (c1 ++ c2) = c1 ++ k :: c2.
Proof. induction c1 as [|x c1 IH]; intros c2 k; cbn [length insert_at app]; [reflexivity|]. rewrite IH. reflexivity. Qed.

Lemma insert_at_length : forall a k c, length (insert_at a k c) = S (length c).
Proof.
  induction a as [|a IH]; intros k [|x c]; cbn [insert_at length]; try reflexivity.
  rewrite IH. reflexivity.
Qed.

Lemma remove_nth_app {A} : forall (s1 s2 : list A) x, remove_nth (length s1) (s1 ++ x :: s2) = s1 ++ s2.
Proof. induction s1 as [|y s1 IH]; intros s2 x; cbn [length remove_nth app]; [reflexivity|]. rewrite IH. reflexivity. Qed.

Lemma split_at {A} (d : A) : forall a (sh : list A), (a < length sh)%nat ->
  sh = firstn a sh ++ nth a sh d :: skipn (S a) sh.
Proof.
  induction a as [|a IH]; intros [|x sh] H; cbn [length] in H; try lia; cbn [firstn nth skipn app].
  - reflexivity.
  - f_equal. apply IH. lia.
Qed.

Lemma remove_nth_length {A} : forall a (sh : list A), (a < length sh)%nat ->
  length (remove_nth a sh) = (length sh - 1)%nat.
Proof.
  induction a as [|a IH]; intros [|x sh] H; cbn [length] in H; try lia; cbn [remove_nth length].
  - lia.
  - rewrite IH by lia. lia.
Qed.

(* ---------- shapes split in two ---------- *)
Lemma size_app : forall s1 s2, size (s1 ++ s2) = size s1 * size s2.
Proof. induction s1 as [|d s1 IH]; intros s2; cbn [app size]; [lia|]. rewrite IH. lia. Qed.

Lemma pos_shape_app s1 s2 : pos_shape (s1 ++ s2) <-> pos_shape s1 /\ pos_shape s2.
Proof. unfold pos_shape. apply Forall_app. Qed.

Lemma inbox_app : forall s1 s2 c1 c2, length c1 = length s1 ->
  (inbox (s1 ++ s2) (c1 ++ c2) <-> inbox s1 c1 /\ inbox s2 c2).
Proof.
  induction s1 as [|d s1 IH]; intros s2 [|x c1] c2 Hl; cbn [length] in Hl; try discriminate.
  - cbn [app inbox]. tauto.
  - cbn [app inbox]. rewrite IH by lia. tauto.
Qed.

Lemma inbox_app_inv : forall s1 s2 c, inbox (s1 ++ s2) c ->
  exists c1 c2, c = c1 ++ c2 /\ length c1 = length s1 /\ inbox s1 c1 /\ inbox s2 c2.
Proof.
  induction s1 as [|d s1 IH]; intros s2 c H.
  - exists [], c. cbn. tauto.
  - destruct c as [|x c]; cbn [app inbox] in H; [tauto|]. destruct H as [Hx H].
    destruct (IH s2 c H) as (c1 & c2 & -> & Hl & H1 & H2).
    exists (x :: c1), c2. cbn [app length inbox]. repeat split; auto; lia.
Qed.

Lemma rk_app : forall s1 s2 c1 c2, length c1 = length s1 ->
  rk (s1 ++ s2) (c1 ++ c2) = rk s1 c1 * size s2 + rk s2 c2.
Proof.
  induction s1 as [|d s1 IH]; intros s2 [|x c1] c2 Hl; cbn [length] in Hl; try discriminate.
  - cbn [app rk]. lia.
  - cbn [app rk]. rewrite IH by lia. rewrite size_app. lia.
Qed.

(* ---------- chunks ---------- *)
Lemma skipn_add {A} : forall a b (l : list A), skipn a (skipn b l) = skipn (b + a) l.
Proof.
  intros a b; revert a. induction b as [|b IH]; intros a l; cbn [skipn Nat.add]; [reflexivity|].
  destruct l as [|x l]; [destruct a; reflexivity|]. apply IH.
Qed.

Lemma chunks_spec {A} (n : nat) : (0 < n)%nat -> forall m fuel (l : list A),
  length l = (m * n)%nat -> (m < fuel)%nat ->
  chunks fuel n l = map (fun i => firstn n (skipn (i * n) l)) (seq 0 m).
Proof.
  intros Hn. induction m as [|m IH]; intros fuel l Hl Hf.
  - destruct fuel as [|f]; [lia|]. cbn [chunks seq map].
    destruct (length l <? n)%nat eqn:E; [reflexivity|]. apply Nat.ltb_ge in E. lia.
  - destruct fuel as [|f]; [lia|]. cbn [chunks].
    destruct (length l <? n)%nat eqn:E; [apply Nat.ltb_lt in E; nia|].
    cbn [seq map]. rewrite Nat.mul_0_l. cbn [skipn]. f_equal.
    rewrite (IH f (skipn n l)); [|rewrite skipn_length; nia|lia].
    rewrite <- seq_shift, map_map. apply map_ext. intro i.
    rewrite skipn_add. replace (n + i * n)%nat with (S i * n)%nat by lia. reflexivity.
Qed.

Lemma chunks_length {A} (n : nat) : (0 < n)%nat -> forall m fuel (l : list A),
  length l = (m * n)%nat -> (m < fuel)%nat -> length (chunks fuel n l) = m.
Proof. intros Hn m fuel l Hl Hf. rewrite (chunks_spec n Hn m) by assumption. rewrite map_length, seq_length. reflexivity. Qed.

Lemma nth_firstn_lt {A} (d : A) : forall (l : list A) n k, (k < n)%nat -> nth k (firstn n l) d = nth k l d.
Proof.
  induction l as [|x l IH]; intros [|n] [|k] H; cbn [firstn nth]; try reflexivity; try lia. apply IH. lia.
Qed.

Lemma nth_skipn_add {A} (d : A) : forall (l : list A) o k, nth k (skipn o l) d = nth (o + k) l d.
Proof.
  induction l as [|x l IH]; intros [|o] k; cbn [skipn Nat.add]; try reflexivity.
  - destruct k; reflexivity.
  - cbn [nth]. apply IH.
Qed.

Lemma nth_firstn_skipn {A} (d : A) (l : list A) o n k : (k < n)%nat ->
  nth k (firstn n (skipn o l)) d = nth (o + k) l d.
Proof. intro H. rewrite nth_firstn_lt by exact H. apply nth_skipn_add. Qed.

(* ====================================================================================== *)
(*  PART 1 — reductions                                                                    *)
(* ====================================================================================== *)

Arguments Z.mul : simpl never.
Arguments Z.add : simpl never.
Arguments Z.sub : simpl never.
Arguments Z.leb : simpl never.
Arguments Z.ltb : simpl never.
Arguments Z.eqb : simpl never.
Arguments Z.div : simpl never.
Arguments Z.modulo : simpl never.
Arguments Z.quot : simpl never.
Arguments Z.min : simpl never.
Arguments Z.of_nat : simpl never.
Arguments Z.to_nat : simpl never.
Arguments Z.testbit : simpl never.

(* ---------- generic list facts ---------- *)
Lemma map_nth_seq {A} (d : A) : forall l : list A, map (fun j => nth j l d) (seq 0 (length l)) = l.
Proof.
  induction l as [|x l IH]; [reflexivity|]. cbn [length seq map nth]. f_equal.
  rewrite <- seq_shift, map_map. exact IH.
Qed.

Lemma zseq_seq : forall n a, zseq (Z.of_nat a) n = map Z.of_nat (seq a n).
Proof.
  induction n as [|n IH]; intro a; [reflexivity|]. cbn [zseq seq map]. f_equal.
  replace (Z.of_nat a + 1) with (Z.of_nat (S a)) by lia. apply IH.
Qed.

Lemma znth_nth {A} (d : A) (l : list A) i : 0 <= i -> znth d l i = nth (Z.to_nat i) l d.
Proof.
  intro Hi. unfold znth, zget. replace (i <? 0) with false by lia.
  destruct (nth_error l (Z.to_nat i)) as [v|] eqn:E.
  - symmetry. apply nth_error_nth. exact E.
  - symmetry. apply nth_overflow. apply nth_error_None. exact E.
Qed.

Lemma znth_neg {A} (d : A) (l : list A) i : i < 0 -> znth d l i = d.
Proof. intro Hi. unfold znth, zget. replace (i <? 0) with true by lia. reflexivity. Qed.

Lemma znth_upd {A} (d : A) (l : list A) p v q : 0 <= p < zlen l ->
  znth d (upd l (Z.to_nat p) v) q = if q =? p then v else znth d l q.
Proof.
  intro Hp. destruct (q =? p) eqn:E.
  - assert (q = p) by lia. subst q. rewrite znth_nth by lia.
    apply MemProofs.nth_upd_same. unfold zlen in Hp. lia.
  - destruct (Z.ltb_spec q 0) as [Hq|Hq]; [rewrite !znth_neg by lia; reflexivity|].
    rewrite !znth_nth by lia. apply MemProofs.nth_upd_other. lia.
Qed.

Lemma firstn_skipn_map {A} (d : A) (l : list A) o n : (o + n <= length l)%nat ->
  firstn n (skipn o l) = map (fun k => znth d l (Z.of_nat o + k)) (zseq 0 n).
Proof.
  intro H. change 0 with (Z.of_nat 0). rewrite zseq_seq, map_map.
  rewrite <- (map_nth_seq d (firstn n (skipn o l))).
  rewrite firstn_length, skipn_length. replace (Nat.min n (length l - o)) with n by lia.
  apply map_ext_in. intros k Hk. apply in_seq in Hk.
  rewrite nth_firstn_skipn by lia. rewrite znth_nth by lia. f_equal. lia.
Qed.

Section ReduceProofs.
Variable V : Type.
Variable vzero : V.
Variable op : V -> V -> V.
Variable from_zero : bool.

Notation fold_slice := (fold_slice V vzero op from_zero).
Notation reduce_first := (reduce_first V op).
Notation reduce_first_loop := (reduce_first_loop V op).
Notation reduce_last := (reduce_last V vzero op from_zero).
Notation rd_k := (rd_k V op).
Notation rd_j := (rd_j V op).
Notation rd_i := (rd_i V op).
Notation reduce_default := (reduce_default V op).
Notation optimized_reduce := (optimized_reduce V vzero op from_zero).
Notation reduce_axes := (reduce_axes V vzero op from_zero).
Notation m_reduce := (m_reduce V vzero op from_zero).
Notation zn := (znth vzero).

(* ====================================================================================== *)
(*  the two folds the kernels use                                                          *)
(* ====================================================================================== *)
(* from the first element (reduceFirst, reduceDefault; SliceMin/SliceMax) *)
Definition fold_hd (l : list V) : V := match l with [] => vzero | x :: r => fold_left op r x end.
(* what fn(a[start:start+dimSize]) computes in reduceLast and in the all-axes shortcut:
   from zero for Sum, from the first element for Min/Max *)
Definition fold1 (l : list V) : V := if from_zero then fold_left op l vzero else fold_hd l.

Lemma fold_slice_fold1 l : l <> [] -> fold_slice l = Some (fold1 l).
Proof. unfold Reduce.fold_slice, fold1, fold_hd. destruct from_zero; [reflexivity|]. destruct l; [congruence|reflexivity]. Qed.

Lemma fold_slice_from_zero l : from_zero = true -> fold_slice l = Some (fold1 l).
Proof. unfold Reduce.fold_slice, fold1. intros ->. reflexivity. Qed.

(* the two agree as soon as zero is a left unit (Sum), and trivially for Min/Max *)
Lemma fold1_hd : (from_zero = true -> forall x, op vzero x = x) ->
  forall l, l <> [] -> fold1 l = fold_hd l.
Proof.
  intros Hz [|x r] Hl; [congruence|]. unfold fold1, fold_hd. destruct from_zero; [|reflexivity].
  cbn [fold_left]. rewrite Hz by reflexivity. reflexivity.
Qed.

Lemma fold_hd_seq (F : Z -> V) (n : nat) :
  fold_left op (map (fun kk => F (Z.of_nat kk)) (seq 1 n)) (F 0) = fold_hd (map F (zseq 0 (S n))).
Proof.
  cbn [zseq map fold_hd]. change (0 + 1) with (Z.of_nat 1). rewrite zseq_seq, map_map. reflexivity.
Qed.

(* ====================================================================================== *)
(*  R1a — reduceLast                                                                       *)
(* ====================================================================================== *)
Lemma fold_right_opt cs : Forall (fun c : list V => c <> []) cs ->
  fold_right (fun c acc => match fold_slice c, acc with Some v, Some r => Some (v :: r) | _, _ => None end)
             (Some []) cs = Some (map fold1 cs).
Proof.
  induction 1 as [|c cs Hc Hcs IH]; [reflexivity|]. cbn [fold_right map].
  rewrite IH, (fold_slice_fold1 c Hc). reflexivity.
Qed.

(* the m consecutive length-n slices are folded; the rest of retVal is untouched *)
Theorem reduce_last_spec data ret n (m : nat) :
  0 < n -> length data = (m * Z.to_nat n)%nat -> (m <= length ret)%nat ->
  reduce_last data ret n
  = Some (map (fun i => fold1 (firstn (Z.to_nat n) (skipn (i * Z.to_nat n) data))) (seq 0 m) ++ skipn m ret).
Proof.
  intros Hn Hd Hr. unfold Reduce.reduce_last. replace (n <=? 0) with false by lia.
  assert (Hn' : (0 < Z.to_nat n)%nat) by lia.
  rewrite (chunks_spec (Z.to_nat n) Hn' m) by (auto; nia).
  rewrite map_length, seq_length. replace (length ret <? m)%nat with false by (symmetry; apply Nat.ltb_ge; lia).
  rewrite fold_right_opt.
  - rewrite map_map, !map_length, seq_length. reflexivity.
  - apply Forall_forall. intros c Hc. apply in_map_iff in Hc as (i & <- & Hi). apply in_seq in Hi.
    intro E. apply (f_equal (@length V)) in E. rewrite firstn_length, skipn_length in E. cbn [length] in E. nia.
Qed.

(* ====================================================================================== *)
(*  R1b — reduceFirst                                                                      *)
(* ====================================================================================== *)
Lemma reduce_first_loop_spec data s : forall n ret start,
  length ret = s -> (start + n * s <= length data)%nat ->
  reduce_first_loop n ret data s start
  = Some (map (fun j => fold_left op (map (fun k => nth (start + k * s + j) data vzero) (seq 0 n)) (nth j ret vzero))
              (seq 0 s)).
Proof.
  induction n as [|n IH]; intros ret start Hr Hd.
  - cbn [Reduce.reduce_first_loop seq map fold_left]. rewrite <- Hr, map_nth_seq. reflexivity.
  - cbn [Reduce.reduce_first_loop].
    set (chunk := firstn s (skipn start data)).
    assert (Hc : length chunk = s) by (unfold chunk; rewrite firstn_length, skipn_length; nia).
    rewrite Hc, Hr, Nat.ltb_irrefl.
    rewrite IH; [|rewrite map_length, combine_length; lia|nia].
    f_equal. apply map_ext_in. intros j Hj. apply in_seq in Hj.
    cbn [seq map fold_left]. rewrite <- seq_shift, map_map.
    f_equal.
    + apply map_ext. intro k. f_equal. nia.
    + rewrite (nth_indep _ vzero ((fun p : V * V => op (fst p) (snd p)) (vzero, vzero)))
        by (rewrite map_length, combine_length; lia).
      rewrite (map_nth (fun p : V * V => op (fst p) (snd p)) (combine ret chunk) (vzero, vzero) j).
      rewrite combine_nth by lia. cbn [fst snd]. f_equal.
      unfold chunk. rewrite nth_firstn_skipn by lia. f_equal. lia.
Qed.

(* retVal[j] = fold, from data[j], of data[split+j], data[2*split+j], ... *)
Theorem reduce_first_spec data ret split size :
  1 <= size -> 0 <= split -> zlen data = size * split -> zlen ret = split ->
  reduce_first data ret split size
  = Some (map (fun j => fold_left op (map (fun k => nth (k * Z.to_nat split + j) data vzero)
                                          (seq 1 (Z.to_nat size - 1))) (nth j data vzero))
              (seq 0 (Z.to_nat split))).
Proof.
  intros Hsz Hsp Hd Hr. unfold Reduce.reduce_first, zlen in *.
  replace ((split <? 0) || (Z.of_nat (length ret) <? split) || (Z.of_nat (length data) <? split)) with false by nia.
  set (s := Z.to_nat split).
  assert (Hs : (s <= length data)%nat) by (unfold s; nia).
  replace (skipn s ret) with (@nil V) by (symmetry; apply skipn_all2; unfold s; lia).
  rewrite app_nil_r.
  destruct (size <=? 1) eqn:E.
  - assert (size = 1) by lia. subst size. replace (Z.to_nat 1 - 1)%nat with 0%nat by lia.
    cbn [seq map fold_left]. replace s with (length (firstn s data)) at 2 by (rewrite firstn_length; lia).
    f_equal. rewrite <- (map_nth_seq vzero (firstn s data)) at 1. apply map_ext_in. intros j Hj.
    apply in_seq in Hj. rewrite firstn_length in Hj. apply nth_firstn_lt. lia.
  - rewrite reduce_first_loop_spec; [|rewrite firstn_length; lia|unfold s; nia].
    f_equal. apply map_ext_in. intros j Hj. apply in_seq in Hj.
    replace (Z.to_nat (size - 1)) with (Z.to_nat size - 1)%nat by lia.
    rewrite <- seq_shift, map_map. f_equal; try (apply map_ext; intro k; f_equal; nia).
    apply nth_firstn_lt. lia.
Qed.

(* ====================================================================================== *)
(*  R1c — reduceDefault, with its innerStart / strideTrack bookkeeping                     *)
(* ====================================================================================== *)
(* innerStart when the j-loop is at index jj: one step per iteration plus one extra [stride]
   each time strideTrack wraps *)
Definition ist (T jj : Z) : Z := jj + T * (jj / T).

Lemma ist_step T jj : 1 <= T -> 0 <= jj ->
  (if T <=? jj mod T + 1 then (0, ist T jj + T) else (jj mod T + 1, ist T jj))
  = ((jj + 1) mod T, ist T (jj + 1) - 1).
Proof.
  intros HS Hj. unfold ist.
  pose proof (Z.div_mod jj T ltac:(lia)) as Hdm. pose proof (Z.mod_pos_bound jj T ltac:(lia)) as Hb.
  destruct (T <=? jj mod T + 1) eqn:E.
  - assert (Hq : (jj + 1) / T = jj / T + 1) by (symmetry; apply (Z.div_unique _ _ _ 0); lia).
    assert (Hr : (jj + 1) mod T = 0) by (symmetry; apply (Z.mod_unique _ _ (jj / T + 1)); lia).
    rewrite Hq, Hr. f_equal. lia.
  - assert (Hq : (jj + 1) / T = jj / T) by (symmetry; apply (Z.div_unique _ _ _ (jj mod T + 1)); lia).
    assert (Hr : (jj + 1) mod T = jj mod T + 1) by (symmetry; apply (Z.mod_unique _ _ (jj / T)); lia).
    rewrite Hq, Hr. f_equal. lia.
Qed.

Lemma ist_0 T : ist T 0 = 0.
Proof. unfold ist. rewrite Zdiv_0_l. lia. Qed.

Lemma rd_k_spec sliced (D : nat) is T : forall k acc, (k <= D)%nat ->
  (forall kk, (D - k <= kk < D)%nat -> 0 <= is + Z.of_nat kk * T < zlen sliced) ->
  rd_k k D acc sliced is T
  = Some (fold_left op (map (fun kk => zn sliced (is + Z.of_nat kk * T)) (seq (D - k) k)) acc).
Proof.
  induction k as [|k IH]; intros acc Hk Hr; [reflexivity|].
  cbn [Reduce.rd_k]. cbv zeta.
  rewrite (znth_zget vzero sliced) by (apply Hr; lia).
  rewrite IH by (try lia; intros; apply Hr; lia).
  replace (D - k)%nat with (S (D - S k)) by lia. reflexivity.
Qed.

(* value written for index jj of the j-loop, read in the current outer slice *)
Definition dval (sliced : list V) (D : nat) (T jj : Z) : V :=
  fold_hd (map (fun k => zn sliced (ist T jj + k * T)) (zseq 0 D)).

Lemma rd_j_spec sliced (D E : nat) T i : 1 <= T -> (1 <= D)%nat -> 0 <= i ->
  (forall jj kk, 0 <= jj < Z.of_nat E -> (kk < D)%nat -> 0 <= ist T jj + Z.of_nat kk * T < zlen sliced) ->
  forall j ret, (j <= E)%nat -> i * Z.of_nat E + Z.of_nat E <= zlen ret ->
  exists ret', rd_j j E i sliced D T (ist T (Z.of_nat (E - j))) (Z.of_nat (E - j) mod T) ret = Some ret' /\
    length ret' = length ret /\
    forall p, zn ret' p = if (i * Z.of_nat E + Z.of_nat (E - j) <=? p) && (p <? i * Z.of_nat E + Z.of_nat E)
                          then dval sliced D T (p - i * Z.of_nat E) else zn ret p.
Proof.
  intros HS HD Hi Hrng. induction j as [|j IH]; intros ret Hj Hret.
  - exists ret. split; [reflexivity|]. split; [reflexivity|]. intro p.
    replace (_ && _) with false by lia. reflexivity.
  - cbn [Reduce.rd_j]. cbv zeta.
    set (jj := Z.of_nat (E - S j)).
    assert (Hjj : 0 <= jj < Z.of_nat E) by lia.
    pose proof (Hrng jj 0%nat Hjj ltac:(lia)) as H0. replace (ist T jj + Z.of_nat 0 * T) with (ist T jj) in H0 by lia.
    rewrite (znth_zget vzero sliced) by exact H0.
    rewrite rd_k_spec by first [lia | intros kk Hkk; apply Hrng; [exact Hjj|lia]].
    replace (D - (D - 1))%nat with 1%nat by lia.
    set (v := fold_left op _ _).
    rewrite zset_spec by lia.
    rewrite (ist_step T jj HS) by lia.
    replace (ist T (jj + 1) - 1 + 1) with (ist T (jj + 1)) by lia.
    replace (jj + 1) with (Z.of_nat (E - j)) by lia.
    destruct (IH (upd ret (Z.to_nat (i * Z.of_nat E + jj)) v)) as (ret' & E1 & L1 & P1);
      [lia|unfold zlen; rewrite upd_length; exact Hret|].
    exists ret'. split; [exact E1|]. split; [rewrite L1; apply upd_length|].
    intro p. rewrite P1. rewrite znth_upd by lia.
    destruct (p =? i * Z.of_nat E + jj) eqn:Ep.
    + replace (_ && _) with false by lia. replace (_ && _) with true by lia.
      replace (p - i * Z.of_nat E) with jj by lia.
      unfold v, dval. replace D with (S (D - 1)) at 2 by lia.
      rewrite <- (fold_hd_seq (fun k => zn sliced (ist T jj + k * T))).
      replace (ist T jj + 0 * T) with (ist T jj) by lia. reflexivity.
    + destruct ((i * Z.of_nat E + Z.of_nat (E - j) <=? p) && (p <? i * Z.of_nat E + Z.of_nat E)) eqn:Ec.
      * replace (_ && _) with true by lia. reflexivity.
      * replace (_ && _) with false by lia. reflexivity.
Qed.

Definition dval_at (data : list V) (D : nat) (O T i jj : Z) : V :=
  fold_hd (map (fun k => zn data (i * O + ist T jj + k * T)) (zseq 0 D)).

Lemma zn_firstn_skipn (l : list V) (m n x : Z) : 0 <= m -> 0 <= x < n -> zn (firstn (Z.to_nat n) (skipn (Z.to_nat m) l)) x = zn l (m + x).
Proof.
  intros Hm Hx. unfold znth. rewrite MemProofs.zget_firstn_skipn by lia. reflexivity.
Qed.

Lemma rd_i_spec data (D E dim0 : nat) O T : 1 <= T -> (1 <= D)%nat -> (1 <= E)%nat -> 0 <= O ->
  (forall jj kk, 0 <= jj < Z.of_nat E -> (kk < D)%nat -> 0 <= ist T jj + Z.of_nat kk * T < O) ->
  Z.of_nat dim0 * O <= zlen data ->
  forall n ret, (n <= dim0)%nat -> Z.of_nat dim0 * Z.of_nat E <= zlen ret ->
  exists ret', rd_i n dim0 data D O T E ret = Some ret' /\ length ret' = length ret /\
    forall p, zn ret' p = if (Z.of_nat (dim0 - n) * Z.of_nat E <=? p) && (p <? Z.of_nat dim0 * Z.of_nat E)
                          then dval_at data D O T (p / Z.of_nat E) (p mod Z.of_nat E) else zn ret p.
Proof.
  intros HS HD HE HO Hrng Hdata. induction n as [|n IH]; intros ret Hn Hret.
  - exists ret. split; [reflexivity|]. split; [reflexivity|]. intro p.
    replace (_ && _) with false by lia. reflexivity.
  - cbn [Reduce.rd_i]. cbv zeta.
    set (i := Z.of_nat (dim0 - S n)).
    assert (Hi : 0 <= i < Z.of_nat dim0) by lia.
    replace ((i * O <? 0) || (zlen data <? i * O + O) || (O <? 0)) with false by nia.
    set (sliced := firstn (Z.to_nat O) (skipn (Z.to_nat (i * O)) data)).
    assert (Hsl : zlen sliced = O) by (unfold sliced; apply MemProofs.firstn_skipn_length; nia).
    destruct (rd_j_spec sliced D E T i HS HD ltac:(lia)) with (j := E) (ret := ret) as (r1 & E1 & L1 & P1);
      [rewrite Hsl; exact Hrng|lia|nia|].
    replace (E - E)%nat with 0%nat in E1, P1 by lia. change (Z.of_nat 0) with 0 in E1, P1.
    rewrite ist_0, Z.mod_0_l in E1 by lia. rewrite E1.
    destruct (IH r1) as (r2 & E2 & L2 & P2); [lia|unfold zlen in *; rewrite L1; exact Hret|].
    exists r2. split; [exact E2|]. split; [congruence|].
    intro p. rewrite P2, P1.
    destruct ((i * Z.of_nat E + 0 <=? p) && (p <? i * Z.of_nat E + Z.of_nat E)) eqn:Ec.
    + replace (_ && _) with false by nia. replace (_ && _) with true by nia.
      assert (Hq : p / Z.of_nat E = i) by (symmetry; apply (Z.div_unique _ _ _ (p - i * Z.of_nat E)); lia).
      assert (Hr : p mod Z.of_nat E = p - i * Z.of_nat E) by (symmetry; apply (Z.mod_unique _ _ i); lia).
      rewrite Hq, Hr. unfold dval, dval_at. f_equal. apply map_ext_in. intros k Hk. apply zseq_In in Hk.
      unfold sliced. rewrite zn_firstn_skipn; [f_equal; lia|nia|].
      specialize (Hrng (p - i * Z.of_nat E) (Z.to_nat k) ltac:(lia) ltac:(lia)).
      replace (Z.of_nat (Z.to_nat k)) with k in Hrng by lia. exact Hrng.
    + destruct ((Z.of_nat (dim0 - n) * Z.of_nat E <=? p) && (p <? Z.of_nat dim0 * Z.of_nat E)) eqn:Ec2.
      * replace (_ && _) with true by nia. reflexivity.
      * replace (_ && _) with false by nia. reflexivity.
Qed.

(* what the kernel computes AS IT IS, provided all its reads stay inside the outer slice *)
Theorem reduce_default_asis data ret dim0 D O T E :
  0 <= dim0 -> 1 <= D -> 1 <= T -> 1 <= E -> 0 <= O ->
  (forall jj k, 0 <= jj < E -> 0 <= k < D -> 0 <= ist T jj + k * T < O) ->
  dim0 * O <= zlen data -> dim0 * E <= zlen ret ->
  exists r, reduce_default data ret dim0 D O T E = Some r /\ length r = length ret /\
    forall p, zn r p = if (0 <=? p) && (p <? dim0 * E)
                       then fold_hd (map (fun k => zn data ((p / E) * O + ist T (p mod E) + k * T)) (zseq 0 (Z.to_nat D)))
                       else zn ret p.
Proof.
  intros H0 HD HS HE HO Hrng Hdata Hret. unfold Reduce.reduce_default.
  destruct (rd_i_spec data (Z.to_nat D) (Z.to_nat E) (Z.to_nat dim0) O T HS ltac:(lia) ltac:(lia) HO)
    with (n := Z.to_nat dim0) (ret := ret) as (r & E1 & L1 & P1).
  - intros jj kk Hjj Hkk. apply Hrng; lia.
  - lia.
  - lia.
  - lia.
  - exists r. split; [exact E1|]. split; [exact L1|]. intro p. rewrite P1.
    replace (Z.to_nat dim0 - Z.to_nat dim0)%nat with 0%nat by lia.
    replace (Z.of_nat (Z.to_nat dim0)) with dim0 by lia. replace (Z.of_nat (Z.to_nat E)) with E by lia.
    change (Z.of_nat 0 * E) with 0. reflexivity.
Qed.

(* The bookkeeping is the intended index map exactly when the reduced axis has extent 2 or there
   is nothing between axis 0 and the reduced axis (Pn = 1):
     ret[i*(Pn*T) + q*T + r] = fold, k ascending from k = 0, of data[i*(Pn*D*T) + q*(D*T) + k*T + r] *)
Theorem reduce_default_spec data ret dim0 D Pn T :
  0 <= dim0 -> 1 <= D -> 1 <= T -> 1 <= Pn -> (D = 2 \/ Pn = 1) ->
  dim0 * (Pn * D * T) <= zlen data -> dim0 * (Pn * T) <= zlen ret ->
  exists r, reduce_default data ret dim0 D (Pn * D * T) T (Pn * T) = Some r /\ length r = length ret /\
    (forall i q x, 0 <= i < dim0 -> 0 <= q < Pn -> 0 <= x < T ->
       zn r (i * (Pn * T) + q * T + x)
       = fold_hd (map (fun k => zn data (i * (Pn * D * T) + q * (D * T) + k * T + x)) (zseq 0 (Z.to_nat D)))) /\
    (forall p, dim0 * (Pn * T) <= p -> zn r p = zn ret p).
Proof.
  intros H0 HD HS HP Hg Hdata Hret.
  assert (Hist : forall jj, 0 <= jj < Pn * T -> ist T jj = (jj / T) * (D * T) + jj mod T /\ 0 <= jj / T < Pn).
  { intros jj Hjj. unfold ist.
    pose proof (Z.div_mod jj T ltac:(lia)) as Hdm. pose proof (Z.mod_pos_bound jj T ltac:(lia)) as Hb.
    assert (Hq : 0 <= jj / T < Pn).
    { split; [apply Z.div_pos; lia|apply Z.div_lt_upper_bound; lia]. }
    split; [|exact Hq]. destruct Hg as [-> | ->]; [lia|].
    assert (jj / T = 0) by lia. nia. }
  destruct (reduce_default_asis data ret dim0 D (Pn * D * T) T (Pn * T)) as (r & E1 & L1 & P1);
    try assumption; try nia.
  { intros jj k Hjj Hk. destruct (Hist jj Hjj) as [-> Hq].
    pose proof (Z.mod_pos_bound jj T ltac:(lia)) as Hb. nia. }
  exists r. split; [exact E1|]. split; [exact L1|]. split.
  - intros i q x Hi Hq Hx. rewrite P1.
    assert (Hqx : 0 <= q * T + x < Pn * T) by nia.
    assert (Hi1 : i * (Pn * T) + Pn * T <= dim0 * (Pn * T)) by nia.
    assert (Hi0 : 0 <= i * (Pn * T)) by nia.
    replace (_ && _) with true by lia.
    set (p := i * (Pn * T) + q * T + x).
    assert (Hpq : p / (Pn * T) = i) by (symmetry; apply (Z.div_unique _ _ _ (q * T + x)); unfold p; lia).
    assert (Hpr : p mod (Pn * T) = q * T + x) by (symmetry; apply (Z.mod_unique _ _ i); unfold p; lia).
    rewrite Hpq, Hpr. destruct (Hist (q * T + x) Hqx) as [-> _].
    assert (Hq1 : (q * T + x) / T = q) by (symmetry; apply (Z.div_unique _ _ _ x); lia).
    assert (Hq2 : (q * T + x) mod T = x) by (symmetry; apply (Z.mod_unique _ _ q); lia).
    rewrite Hq1, Hq2. f_equal. apply map_ext. intro k. f_equal. lia.
  - intros p Hp. rewrite P1. replace (_ && _) with false by lia. reflexivity.
Qed.
(* ====================================================================================== *)
(*  R2 — OptimizedReduce on a contiguous row-major tensor value                            *)
(* ====================================================================================== *)
(* the lane of a logical array g (shape sh) through c' along axis a, k ascending *)
Definition lane_of (g : list Z -> V) (sh : list Z) (a : nat) (c' : list Z) : list V :=
  map (fun k => g (insert_at a k c')) (zseq 0 (Z.to_nat (nth a sh 0))).
(* the logical array of a row-major window *)
Definition wfun (sh : list Z) (w : list V) (c : list Z) : V := zn w (rank_rm sh c).

Lemma lane_wfun w s1 D s2 c1 c2 : length c1 = length s1 -> length c2 = length s2 ->
  lane_of (wfun (s1 ++ D :: s2) w) (s1 ++ D :: s2) (length s1) (c1 ++ c2)
  = map (fun k => zn w (rk s1 c1 * (D * size s2) + k * size s2 + rk s2 c2)) (zseq 0 (Z.to_nat D)).
Proof.
  intros H1 H2. unfold lane_of. rewrite nth_middle. apply map_ext. intro k.
  rewrite <- H1, insert_at_app. unfold wfun. f_equal.
  rewrite rank_rm_rk by (rewrite !app_length; cbn [length]; lia).
  rewrite rk_app by exact H1. cbn [rk size]. lia.
Qed.

Lemma nth_map_seq {B} (f : nat -> B) (d : B) n j : (j < n)%nat -> nth j (map f (seq 0 n)) d = f j.
Proof.
  intro H. rewrite (nth_indep _ d (f 0%nat)) by (rewrite map_length, seq_length; exact H).
  rewrite map_nth, seq_nth by exact H. reflexivity.
Qed.

Lemma size_scalar_or sh : (if is_scalar sh then 1 else size sh) = size sh.
Proof. destruct sh; reflexivity. Qed.

(* the dispatch, for a row-major operand that needs no iterator and a valid axis *)
Lemma optimized_reduce_head w d axis sh :
  shp (d_ap d) = sh -> requires_iterator d = false -> is_cm (ord (d_ap d)) = false ->
  0 <= axis < zlen sh -> 0 <= size (remove_nth (Z.to_nat axis) sh) ->
  optimized_reduce w d axis =
    let newShape := remove_nth (Z.to_nat axis) sh in
    let ret0 := repeat vzero (Z.to_nat (size newShape)) in
    if axis =? 0 then
      match sh with
      | [] => Panic
      | s0 :: _ =>
        if s0 =? 0 then Panic else
        if (zlen ret0 <? Z.quot (d_len d) s0) || (zlen w <? Z.quot (d_len d) s0) then Panic else
        match reduce_first w ret0 (Z.quot (d_len d) s0) s0 with
        | Some r => Ok (newShape, r)
        | None => Panic
        end
      end
    else if axis =? zlen sh - 1 then
      match reduce_last w ret0 (znth 0 sh axis) with
      | Some r => Ok (newShape, r)
      | None => Panic
      end
    else
      match sh, str (d_ap d) with
      | s0 :: _, st0 :: _ =>
        match zget (str (d_ap d)) axis, calc_strides newShape, zget sh axis with
        | Some stride, e0 :: _, Some dimSize =>
          match reduce_default w ret0 s0 dimSize st0 stride e0 with
          | Some r => Ok (newShape, r)
          | None => Panic
          end
        | _, _, _ => Panic
        end
      | _, _ => Panic
      end.
Proof.
  intros Hsh Hri Hcm Hax Hsz. unfold Reduce.optimized_reduce. rewrite Hsh, Hri, Hcm. cbv zeta.
  replace (zlen sh <=? axis) with false by lia. replace (axis <? 0) with false by lia.
  rewrite size_scalar_or. replace (size (remove_nth (Z.to_nat axis) sh) <? 0) with false by lia.
  cbn [negb]. rewrite !andb_false_r, !andb_true_r, !orb_false_r.
  destruct (axis =? 0) eqn:E0.
  - destruct sh as [|s0 sh']; [reflexivity|]. cbn [is_scalar]. reflexivity.
  - destruct (axis =? zlen sh - 1) eqn:E1; reflexivity.
Qed.

Lemma opt_first w d D s2 :
  shp (d_ap d) = D :: s2 -> pos_shape (D :: s2) -> requires_iterator d = false ->
  is_cm (ord (d_ap d)) = false -> d_len d = D * size s2 -> zlen w = D * size s2 ->
  exists r, optimized_reduce w d 0 = Ok (s2, r) /\ zlen r = size s2 /\
    forall j, 0 <= j < size s2 ->
      zn r j = fold_hd (map (fun k => zn w (k * size s2 + j)) (zseq 0 (Z.to_nat D))).
Proof.
  intros Hsh Hp Hri Hcm Hlen Hw. inversion Hp as [|? ? HD Hp2]; subst.
  pose proof (size_pos s2 Hp2) as HS.
  rewrite (optimized_reduce_head w d 0 (D :: s2) Hsh Hri Hcm) by (unfold zlen; change (Z.to_nat 0) with 0%nat; cbn [length remove_nth]; lia).
  cbv zeta. change (Z.to_nat 0) with 0%nat. cbn [remove_nth]. change (0 =? 0) with true. cbv iota.
  replace (D =? 0) with false by lia.
  assert (Hq : Z.quot (d_len d) D = size s2) by (rewrite Hlen, Z.mul_comm; apply Z.quot_mul; lia).
  rewrite Hq, MemProofs.zlen_repeat.
  replace ((Z.of_nat (Z.to_nat (size s2)) <? size s2) || (zlen w <? size s2)) with false by nia.
  rewrite reduce_first_spec by (try rewrite MemProofs.zlen_repeat; lia).
  eexists. split; [reflexivity|]. split.
  - unfold zlen. rewrite map_length, seq_length. lia.
  - intros j Hj. rewrite znth_nth by lia. rewrite nth_map_seq by lia.
    replace (Z.to_nat D) with (S (Z.to_nat D - 1)) at 2 by lia.
    rewrite <- (fold_hd_seq (fun k => zn w (k * size s2 + j))).
    f_equal.
    + apply map_ext. intro kk. rewrite znth_nth by nia. f_equal. nia.
    + rewrite znth_nth by lia. f_equal.
Qed.

Lemma opt_last w d s1 D :
  s1 <> [] -> shp (d_ap d) = s1 ++ [D] -> pos_shape (s1 ++ [D]) -> requires_iterator d = false ->
  is_cm (ord (d_ap d)) = false -> zlen w = size s1 * D ->
  exists r, optimized_reduce w d (zlen s1) = Ok (s1, r) /\ zlen r = size s1 /\
    forall i, 0 <= i < size s1 ->
      zn r i = fold1 (map (fun k => zn w (i * D + k)) (zseq 0 (Z.to_nat D))).
Proof.
  intros Hne Hsh Hp Hri Hcm Hw. apply pos_shape_app in Hp as [Hp1 Hp2].
  inversion Hp2 as [|? ? HD _]; subst. pose proof (size_pos s1 Hp1) as HA.
  assert (Hl1 : 1 <= zlen s1) by (destruct s1; [congruence|unfold zlen; cbn [length]; lia]).
  assert (Hax : Z.to_nat (zlen s1) = length s1) by (unfold zlen; lia).
  assert (Hrm : remove_nth (Z.to_nat (zlen s1)) (s1 ++ [D]) = s1) by (rewrite Hax, remove_nth_app; apply app_nil_r).
  rewrite (optimized_reduce_head w d (zlen s1) (s1 ++ [D]) Hsh Hri Hcm)
    by (rewrite ?Hrm; unfold zlen in *; rewrite ?app_length; cbn [length]; lia).
  cbv zeta. rewrite Hrm. replace (zlen s1 =? 0) with false by lia.
  replace (zlen s1 =? zlen (s1 ++ [D]) - 1) with true by (unfold zlen; rewrite app_length; cbn [length]; lia).
  replace (znth 0 (s1 ++ [D]) (zlen s1)) with D by (rewrite znth_nth, Hax, nth_middle by lia; reflexivity).
  set (m := Z.to_nat (size s1)).
  rewrite (reduce_last_spec w (repeat vzero m) D m);
    [|lia|unfold zlen in Hw; unfold m; rewrite <- Z2Nat.inj_mul by lia; lia|rewrite repeat_length; lia].
  rewrite skipn_all2 by (rewrite repeat_length; lia). rewrite app_nil_r.
  eexists. split; [reflexivity|]. split.
  - unfold zlen. rewrite map_length, seq_length. unfold m. lia.
  - intros i Hi. rewrite znth_nth by lia. rewrite nth_map_seq by (unfold m; lia).
    f_equal. rewrite (firstn_skipn_map vzero) by (unfold zlen in Hw; nia).
    apply map_ext. intro k. f_equal. nia.
Qed.

Lemma nth_error_calc_strides_app : forall s1 D s2,
  nth_error (calc_strides (s1 ++ D :: s2)) (length s1) = Some (size s2).
Proof. induction s1 as [|a s1 IH]; intros D s2; cbn [app calc_strides length nth_error]; [reflexivity|apply IH]. Qed.

Lemma nth_error_app_mid {A} : forall (s1 : list A) D s2, nth_error (s1 ++ D :: s2) (length s1) = Some D.
Proof. induction s1 as [|a s1 IH]; intros D s2; cbn [app length nth_error]; [reflexivity|apply IH]. Qed.

Lemma opt_default w d s0 s1 D s2 :
  s2 <> [] -> shp (d_ap d) = (s0 :: s1) ++ D :: s2 -> str (d_ap d) = calc_strides (shp (d_ap d)) ->
  pos_shape ((s0 :: s1) ++ D :: s2) -> requires_iterator d = false -> is_cm (ord (d_ap d)) = false ->
  zlen w = s0 * (size s1 * D * size s2) -> (D = 2 \/ size s1 = 1) ->
  exists r, optimized_reduce w d (zlen (s0 :: s1)) = Ok ((s0 :: s1) ++ s2, r) /\
    zlen r = s0 * (size s1 * size s2) /\
    forall i q x, 0 <= i < s0 -> 0 <= q < size s1 -> 0 <= x < size s2 ->
      zn r (i * (size s1 * size s2) + q * size s2 + x)
      = fold_hd (map (fun k => zn w (i * (size s1 * D * size s2) + q * (D * size s2) + k * size s2 + x))
                     (zseq 0 (Z.to_nat D))).
Proof.
  intros Hne Hsh Hstr Hp Hri Hcm Hw Hg. apply pos_shape_app in Hp as [Hp1 Hp2].
  inversion Hp1 as [|? ? H0 Hp1']; subst. inversion Hp2 as [|? ? HD Hp2']; subst.
  pose proof (size_pos s1 Hp1') as HP. pose proof (size_pos s2 Hp2') as HT.
  assert (Hl2 : 1 <= zlen s2) by (destruct s2; [congruence|unfold zlen; cbn [length]; lia]).
  set (ax := zlen (s0 :: s1)).
  assert (Hax : Z.to_nat ax = length (s0 :: s1)) by (unfold ax, zlen; lia).
  assert (Hrm : remove_nth (Z.to_nat ax) ((s0 :: s1) ++ D :: s2) = (s0 :: s1) ++ s2) by (rewrite Hax; apply remove_nth_app).
  assert (Hsz : size ((s0 :: s1) ++ s2) = s0 * (size s1 * size s2)) by (rewrite size_app; cbn [size]; lia).
  rewrite (optimized_reduce_head w d ax _ Hsh Hri Hcm)
    by (rewrite ?Hrm, ?Hsz; unfold ax, zlen in *; rewrite ?app_length; cbn [length] in *; nia).
  cbv zeta. rewrite Hrm, Hsz, Hstr, Hsh.
  replace (ax =? 0) with false by (unfold ax, zlen; cbn [length]; lia).
  replace (ax =? zlen ((s0 :: s1) ++ D :: s2) - 1) with false
    by (unfold ax, zlen in *; rewrite app_length; cbn [length]; lia).
  rewrite !zget_nth_error by (unfold ax, zlen; lia). rewrite Hax.
  rewrite nth_error_calc_strides_app, nth_error_app_mid.
  cbn [app calc_strides]. rewrite !size_app. cbn [size].
  destruct (reduce_default_spec w (repeat vzero (Z.to_nat (s0 * (size s1 * size s2)))) s0 D (size s1) (size s2))
    as (r & E1 & L1 & P1 & _); try lia; try (rewrite Hw; lia); try (rewrite MemProofs.zlen_repeat; nia).
  replace (size s1 * (D * size s2)) with (size s1 * D * size s2) by lia.
  rewrite E1. exists r. split; [reflexivity|]. split.
  - unfold zlen. rewrite L1, repeat_length. nia.
  - exact P1.
Qed.

(* which fold the kernel chosen for axis a of shape sh uses: reduceLast (a the last axis and not
   axis 0) applies fn to the slice — from zero for Sum; reduceFirst and reduceDefault always start
   from the k = 0 element *)
Definition kfold (sh : list Z) (a : nat) : list V -> V :=
  if negb (a =? 0)%nat && (S a =? length sh)%nat then fold1 else fold_hd.

(* the guard under which reduceDefault's bookkeeping is the intended index map *)
Definition default_ok (sh : list Z) (a : nat) : Prop :=
  a = 0%nat \/ S a = length sh \/ nth a sh 0 = 2 \/ size (firstn (a - 1) (tl sh)) = 1.

Lemma inbox_nil_inv c : inbox [] c -> c = [].
Proof. destruct c; cbn; tauto. Qed.

Lemma opt_split w d s1 D s2 :
  shp (d_ap d) = s1 ++ D :: s2 -> str (d_ap d) = calc_strides (shp (d_ap d)) ->
  d_len d = size (s1 ++ D :: s2) -> pos_shape (s1 ++ D :: s2) ->
  requires_iterator d = false -> is_cm (ord (d_ap d)) = false -> zlen w = size (s1 ++ D :: s2) ->
  (s1 = [] \/ s2 = [] \/ D = 2 \/ size (tl s1) = 1) ->
  exists r, optimized_reduce w d (zlen s1) = Ok (s1 ++ s2, r) /\ zlen r = size (s1 ++ s2) /\
    forall c1 c2, inbox s1 c1 -> inbox s2 c2 ->
      zn r (rk s1 c1 * size s2 + rk s2 c2)
      = (match s1, s2 with _ :: _, [] => fold1 | _, _ => fold_hd end)
          (map (fun k => zn w (rk s1 c1 * (D * size s2) + k * size s2 + rk s2 c2)) (zseq 0 (Z.to_nat D))).
Proof.
  intros Hsh Hstr Hlen Hp Hri Hcm Hw Hg. rewrite size_app in Hlen, Hw. cbn [size] in Hlen, Hw.
  destruct s1 as [|s0 s1].
  - cbn [app size] in *. destruct (opt_first w d D s2 Hsh Hp Hri Hcm) as (r & E & L & P); [lia|lia|].
    exists r. split; [exact E|]. split; [exact L|].
    intros c1 c2 H1 H2. apply inbox_nil_inv in H1. subst c1. cbn [rk].
    inversion Hp as [|? ? _ Hp2]; subst. pose proof (rk_bound s2 c2 Hp2 H2) as Hb.
    replace (0 * size s2 + rk s2 c2) with (rk s2 c2) by lia. rewrite P by lia.
    f_equal; try (apply map_ext; intro k; f_equal; lia).
  - destruct s2 as [|t0 s2].
    + destruct (opt_last w d (s0 :: s1) D ltac:(congruence) Hsh Hp Hri Hcm) as (r & E & L & P);
        [cbn [size] in *; lia|].
      exists r. rewrite app_nil_r. split; [exact E|]. split; [exact L|].
      intros c1 c2 H1 H2. apply inbox_nil_inv in H2. subst c2. change (rk [] []) with 0. change (size []) with 1.
      apply pos_shape_app in Hp as [Hp1 _]. pose proof (rk_bound _ c1 Hp1 H1) as Hb.
      replace (rk (s0 :: s1) c1 * 1 + 0) with (rk (s0 :: s1) c1) by lia. rewrite P by lia.
      f_equal; try (apply map_ext; intro k; f_equal; lia).
    + destruct (opt_default w d s0 s1 D (t0 :: s2) ltac:(congruence) Hsh Hstr Hp Hri Hcm) as (r & E & L & P).
      * cbn [size] in *. lia.
      * destruct Hg as [Hg|[Hg|[Hg|Hg]]]; try discriminate; [left; exact Hg|right; exact Hg].
      * exists r. split; [exact E|]. split; [rewrite size_app; cbn [size] in *; lia|].
        intros c1 c2 H1 H2. destruct c1 as [|i c1]; [cbn in H1; tauto|]. cbn [inbox] in H1. destruct H1 as [Hi H1].
        apply pos_shape_app in Hp as [Hp1 Hp2]. inversion Hp1 as [|? ? _ Hp1']; subst.
        inversion Hp2 as [|? ? _ Hp2']; subst.
        pose proof (rk_bound s1 c1 Hp1' H1) as Hb1. pose proof (rk_bound _ c2 Hp2' H2) as Hb2.
        set (T := size (t0 :: s2)) in *. set (x := rk (t0 :: s2) c2) in *.
        change (rk (s0 :: s1) (i :: c1)) with (i * size s1 + rk s1 c1).
        replace ((i * size s1 + rk s1 c1) * T + x) with (i * (size s1 * T) + rk s1 c1 * T + x) by lia.
        rewrite P by lia. f_equal; try (apply map_ext; intro k; f_equal; lia).
Qed.

(* R2 *)
Theorem optimized_reduce_spec w d axis :
  let sh := shp (d_ap d) in
  let a := Z.to_nat axis in
  requires_iterator d = false -> is_cm (ord (d_ap d)) = false ->
  str (d_ap d) = calc_strides sh -> d_len d = size sh -> pos_shape sh -> zlen w = size sh ->
  0 <= axis < zlen sh -> default_ok sh a ->
  exists r, optimized_reduce w d axis = Ok (remove_nth a sh, r) /\ zlen r = size (remove_nth a sh) /\
    forall c', inbox (remove_nth a sh) c' ->
      zn r (rank_rm (remove_nth a sh) c') = kfold sh a (lane_of (wfun sh w) sh a c').
Proof.
  intros sh a Hri Hcm Hstr Hlen Hp Hw Hax Hg.
  assert (Ha : (a < length sh)%nat) by (unfold a, zlen in *; lia).
  pose proof (split_at 0 a sh Ha) as Hsplit.
  set (s1 := firstn a sh) in *. set (D := nth a sh 0) in *. set (s2 := skipn (S a) sh) in *.
  assert (Hl1 : length s1 = a) by (unfold s1; rewrite firstn_length; lia).
  assert (Hax' : axis = zlen s1) by (unfold zlen; lia).
  assert (Hlsh : length sh = (a + S (length s2))%nat) by (rewrite Hsplit at 1; rewrite app_length; cbn [length]; lia).
  destruct (opt_split w d s1 D s2) as (r & E & L & P); try assumption; try (rewrite <- Hsplit; assumption).
  { unfold default_ok in Hg. destruct Hg as [Hg|[Hg|[Hg|Hg]]].
    - left. destruct s1; [reflexivity|cbn [length] in Hl1; lia].
    - right; left. destruct s2; [reflexivity|cbn [length] in Hlsh; lia].
    - right; right; left. exact Hg.
    - right; right; right. unfold s1. destruct sh as [|x sh']; [cbn [length] in Ha; lia|].
      destruct a as [|a']; [cbn; reflexivity|]. cbn [firstn tl]. cbn [tl] in Hg.
      replace (S a' - 1)%nat with a' in Hg by lia. exact Hg. }
  assert (Hrm : remove_nth a sh = s1 ++ s2) by (rewrite Hsplit at 1; rewrite <- Hl1; apply remove_nth_app).
  exists r. rewrite Hrm, Hax'. split; [exact E|]. split; [exact L|].
  intros c' Hc. destruct (inbox_app_inv s1 s2 c' Hc) as (c1 & c2 & -> & Hlc1 & H1 & H2).
  rewrite rank_rm_rk by (rewrite !app_length; apply inbox_length in H2; lia).
  rewrite rk_app by exact Hlc1. rewrite P by assumption.
  assert (Hlane : lane_of (wfun sh w) sh a (c1 ++ c2)
          = map (fun k => zn w (rk s1 c1 * (D * size s2) + k * size s2 + rk s2 c2)) (zseq 0 (Z.to_nat D))).
  { rewrite Hsplit at 1 2. rewrite <- Hl1. apply lane_wfun; [exact Hlc1|apply inbox_length; exact H2]. }
  rewrite Hlane. unfold kfold.
  destruct s1 as [|x1 s1'];
    [replace (a =? 0)%nat with true by (symmetry; apply Nat.eqb_eq; cbn [length] in Hl1; lia); reflexivity|].
  replace (a =? 0)%nat with false by (symmetry; apply Nat.eqb_neq; cbn [length] in Hl1; lia).
  cbn [negb andb]. destruct s2 as [|x2 s2'].
  - replace (S a =? length sh)%nat with true by (symmetry; apply Nat.eqb_eq; cbn [length] in Hlsh; lia). reflexivity.
  - replace (S a =? length sh)%nat with false by (symmetry; apply Nat.eqb_neq; cbn [length] in Hlsh; lia). reflexivity.
Qed.

(* unified: when zero is a left unit of op (Sum) — or for Min/Max, always — every path is the fold
   from the k = 0 element *)
Corollary optimized_reduce_spec_unit w d axis :
  let sh := shp (d_ap d) in
  let a := Z.to_nat axis in
  (from_zero = true -> forall x, op vzero x = x) ->
  requires_iterator d = false -> is_cm (ord (d_ap d)) = false ->
  str (d_ap d) = calc_strides sh -> d_len d = size sh -> pos_shape sh -> zlen w = size sh ->
  0 <= axis < zlen sh -> default_ok sh a ->
  exists r, optimized_reduce w d axis = Ok (remove_nth a sh, r) /\ zlen r = size (remove_nth a sh) /\
    forall c', inbox (remove_nth a sh) c' ->
      zn r (rank_rm (remove_nth a sh) c') = fold_hd (lane_of (wfun sh w) sh a c').
Proof.
  intros sh a Hz Hri Hcm Hstr Hlen Hp Hw Hax Hg.
  destruct (optimized_reduce_spec w d axis Hri Hcm Hstr Hlen Hp Hw Hax Hg) as (r & E & L & P).
  exists r. split; [exact E|]. split; [exact L|]. intros c' Hc. etransitivity; [apply (P c' Hc)|]. fold sh a.
  unfold kfold. destruct (negb (a =? 0)%nat && (S a =? length sh)%nat); [|reflexivity].
  apply fold1_hd; [exact Hz|]. unfold lane_of.
  assert (Ha : (a < length sh)%nat) by (unfold a, zlen in *; lia).
  assert (HD : 1 <= nth a sh 0).
  { unfold pos_shape in Hp. rewrite Forall_forall in Hp. apply Hp. apply nth_In. exact Ha. }
  destruct (Z.to_nat (nth a sh 0)) as [|n] eqn:En; [lia|]. cbn [zseq map]. discriminate.
Qed.
(* ====================================================================================== *)
(*  R3 / R4 — StdEng.Sum/Min/Max on a tensor of the store                                  *)
(* ====================================================================================== *)
(* the caller's axes slice is never modified *)
Theorem m_reduce_axes_unchanged σ t along : snd (m_reduce σ t along) = along.
Proof.
  unfold Reduce.m_reduce. destruct (get_t V σ t) as [d0|]; [|reflexivity].
  destruct (is_materializable d0).
  - destruct (add_buf V σ _) as [σ1 b]. destruct (copy_dense_iter V σ1 _ d0); try reflexivity.
    destruct (is_monotonic along) as [mono incr1]. destruct (_ || _); [|reflexivity].
    destruct (fold_slice _); reflexivity.
  - destruct (is_monotonic along) as [mono incr1]. destruct (_ || _); [|reflexivity].
    destruct (fold_slice _); reflexivity.
Qed.

(* well-formed operand: MemProofs' metadata invariant plus soundness of the contiguity flag *)
Definition rwf (σ : store V) (d : dense) : Prop :=
  wf_dense V σ d /\ (requires_iterator d = false -> contig d).

(* g is the logical content of d *)
Definition content (σ : store V) (d : dense) (g : list Z -> V) : Prop :=
  forall c, inbox (shp (d_ap d)) c -> cell V σ d c = Some (g c).

Lemma content_exists σ d : wf_dense V σ d -> exists g, content σ d g.
Proof.
  intro W. exists (fun c => match cell V σ d c with Some v => v | None => vzero end).
  intros c Hc. rewrite (cell_bget V σ d c W Hc).
  destruct (bget_some V σ (d_buf d) (pos d c) (pos_in_buf V σ d c W Hc)) as [v ->]. reflexivity.
Qed.

(* what happens after the operand has been fetched / materialised *)
Definition reduce_tail (d : dense) (w : list V) (along : list Z) : res (list Z * list V) * list Z :=
  let '(mono, incr1) := is_monotonic along in
  if (mono && incr1 && (zlen along =? zlen (shp (d_ap d)))) || (zlen along =? 0) then
    match fold_slice w with
    | Some v => (Ok ([], [v]), along)
    | None => (Panic, along)
    end
  else (reduce_axes (sort_z along) 0 w d, along).

(* a contiguous window lists the logical elements in row-major order *)
Lemma window_contig σ d g : wf_dense V σ d -> contig d -> content σ d g ->
  window V σ d = map g (coords (shp (d_ap d))).
Proof.
  intros W [Hs Hl] Hg. pose proof W as (Hwin & (Hp & _) & _).
  pose proof (window_length V σ d Hwin) as Hwl. pose proof (size_pos _ Hp) as Hsz.
  apply nth_error_ext_eq. intro k.
  destruct (Z.ltb_spec (Z.of_nat k) (size (shp (d_ap d)))) as [Hk|Hk].
  - rewrite <- (Nat2Z.id k) at 1. rewrite window_nth by (auto; lia).
    rewrite <- (Nat2Z.id k) at 2. rewrite nth_error_map, nth_error_coords by lia. cbn [option_map].
    pose proof (unrank_inbox _ (Z.of_nat k) Hp ltac:(lia)) as Hb.
    rewrite <- (Hg _ Hb). unfold cell. rewrite Hs, <- rk_dot, rk_unrank by (auto; lia).
    apply eq_sym, win_get_bget. lia.
  - transitivity (@None V); [|symmetry]; apply nth_error_None.
    + unfold zlen in Hwl. lia.
    + rewrite map_length, coords_length. lia.
Qed.

Lemma wfun_content sh g c : pos_shape sh -> inbox sh c -> wfun sh (map g (coords sh)) c = g c.
Proof.
  intros Hp Hc. unfold wfun. pose proof (rank_rm_bound sh c Hp Hc) as Hb.
  rewrite znth_nth by lia. erewrite nth_error_nth; [reflexivity|].
  rewrite nth_error_map, nth_error_coords by lia. cbn [option_map]. rewrite unrank_rank by assumption. reflexivity.
Qed.

(* the temporary of the materialisation step *)
Lemma materialize_tmp σ d0 : wf_dense V σ d0 -> (requires_iterator d0 = false -> contig d0) ->
  let sh := shp (d_ap d0) in
  let nd := mkDense (length (bufs V σ)) 0 (size sh) (mkAP sh (calc_strides sh) 0 true) None false in
  let σ1 := mkStore V (bufs V σ ++ [repeat vzero (Z.to_nat (size sh))]) (tens V σ) in
  exists σ2, copy_dense_iter V σ1 nd d0 = Ok σ2 /\ wf_dense V σ2 nd /\
    forall c, inbox sh c -> cell V σ2 nd c = cell V σ d0 c.
Proof.
  intros Hwf Hflag sh nd σ1. pose proof Hwf as (Hw & Ha & Ho). pose proof Ha as (Hp & _).
  pose proof (size_pos _ Hp) as Hsz. fold sh in Hsz.
  assert (Hnew : get_buf V σ1 (length (bufs V σ)) = repeat vzero (Z.to_nat (size sh))).
  { unfold get_buf, σ1. cbn [bufs]. apply nth_app_last. }
  assert (Hext1 : extends V σ σ1).
  { split.
    - intros b Hb. unfold get_buf, σ1. cbn [bufs]. apply app_nth1. exact Hb.
    - intros t0 d1 H0. exact H0. }
  assert (Hwnd : wf_dense V σ1 nd).
  { split; [|split; [apply wf_ap_rowmajor; exact Hp|discriminate]].
    unfold wf_win, nd. cbn [d_off d_len d_buf]. rewrite Hnew, zlen_repeat. lia. }
  assert (Hwd1 : wf_dense V σ1 d0) by (apply (extends_wf V σ σ1); assumption).
  pose proof (wf_dense_buf_lt V σ d0 Hwf) as Hlt.
  assert (Hcn : contig nd) by (split; reflexivity).
  destruct (copy_dense_iter_spec V σ1 nd d0 Hwnd Hwd1) as (σ2 & E2 & (Hfr & Hoth & Hcells & _)).
  { unfold nd. cbn [d_buf]. lia. }
  { reflexivity. }
  { intros _. exact Hcn. }
  { exact Hflag. }
  exists σ2. split; [exact E2|].
  destruct Hfr as (Ft & Fb & Fl).
  assert (Hwf' : wf_dense V σ2 nd) by (apply (wf_dense_frame V σ1 σ2); [exact Fl|exact Hwnd]).
  split; [exact Hwf'|].
  intros c Hc. rewrite (cell_bget V σ2 nd c Hwf' Hc), (cell_bget V σ d0 c Hwf Hc).
  rewrite (Hcells c Hc). apply (extends_bget V σ σ1); assumption.
Qed.

(* source normalisation: m_reduce works on a contiguous row-major tensor value whose window
   lists the operand's logical elements in row-major order *)
Lemma m_reduce_src σ t d0 along g :
  get_t V σ t = Some d0 -> rwf σ d0 -> content σ d0 g ->
  (is_materializable d0 = false -> requires_iterator d0 = false) ->
  let sh := shp (d_ap d0) in
  exists d, m_reduce σ t along = reduce_tail d (map g (coords sh)) along /\
    shp (d_ap d) = sh /\ str (d_ap d) = calc_strides sh /\ d_len d = size sh /\
    requires_iterator d = false /\
    (is_cm (ord (d_ap d)) = false \/ (is_materializable d0 = false /\ d = d0)).
Proof.
  intros Ht [Hwf Hflag] Hg Hnm sh. pose proof Hwf as (_ & (Hp & _) & _).
  pose proof (size_pos _ Hp) as Hsz. fold sh in Hsz.
  unfold Reduce.m_reduce. rewrite Ht. destruct (is_materializable d0) eqn:Em.
  - fold sh. rewrite size_scalar_or. unfold add_buf.
    destruct (materialize_tmp σ d0 Hwf Hflag) as (σ2 & E2 & W2 & C2). fold sh in E2, W2, C2.
    rewrite E2.
    set (nd := mkDense (length (bufs V σ)) 0 (size sh) (mkAP sh (calc_strides sh) 0 true) None false) in *.
    exists nd.
    assert (Hwin : window V σ2 nd = map g (coords sh)).
    { apply (window_contig σ2 nd g W2); [split; reflexivity|].
      intros c Hc. rewrite (C2 c Hc). apply Hg. exact Hc. }
    rewrite Hwin. split; [reflexivity|]. split; [reflexivity|]. split; [reflexivity|]. split; [reflexivity|].
    split; [|left; reflexivity].
    unfold requires_iterator, nd. cbn [d_len d_ap d_old ord is_some].
    destruct (size sh =? 1) eqn:E1; [reflexivity|]. replace (size sh =? 0) with false by lia. reflexivity.
  - specialize (Hnm eq_refl). destruct (Hflag Hnm) as [Hs Hl]. exists d0.
    rewrite (window_contig σ d0 g Hwf (conj Hs Hl) Hg). fold sh.
    split; [reflexivity|]. split; [reflexivity|]. split; [exact Hs|]. split; [exact Hl|].
    split; [exact Hnm|]. right. split; reflexivity.
Qed.
Lemma inbox_insert_at : forall a sh c' k, (a < length sh)%nat -> inbox (remove_nth a sh) c' ->
  0 <= k < nth a sh 0 -> inbox sh (insert_at a k c').
Proof.
  induction a as [|a IH]; intros [|x sh] c' k Ha Hc Hk; cbn [length] in Ha; try lia.
  - cbn [remove_nth nth insert_at inbox] in *. tauto.
  - cbn [remove_nth nth] in *. destruct c' as [|y c']; cbn [inbox] in Hc; [tauto|].
    cbn [insert_at inbox]. split; [tauto|]. apply IH; [lia|tauto|exact Hk].
Qed.

Lemma pos_shape_remove_nth : forall a sh, pos_shape sh -> pos_shape (remove_nth a sh).
Proof.
  induction a as [|a IH]; intros [|x sh] Hp; cbn [remove_nth]; try exact Hp; inversion Hp; subst; auto.
  constructor; auto. apply IH. assumption.
Qed.

Lemma lane_content sh g a c' : pos_shape sh -> (a < length sh)%nat -> inbox (remove_nth a sh) c' ->
  lane_of (wfun sh (map g (coords sh))) sh a c' = lane_of g sh a c'.
Proof.
  intros Hp Ha Hc. unfold lane_of. apply map_ext_in. intros k Hk. apply zseq_In in Hk.
  apply wfun_content; [exact Hp|]. apply inbox_insert_at; [exact Ha|exact Hc|lia].
Qed.

Lemma lane_ext sh g g' a c' : (a < length sh)%nat -> inbox (remove_nth a sh) c' ->
  (forall c, inbox sh c -> g c = g' c) -> lane_of g sh a c' = lane_of g' sh a c'.
Proof.
  intros Ha Hc He. unfold lane_of. apply map_ext_in. intros k Hk. apply zseq_In in Hk.
  apply He. apply inbox_insert_at; [exact Ha|exact Hc|lia].
Qed.

Lemma coords_nonempty sh : pos_shape sh -> forall g : list Z -> V, map g (coords sh) <> [].
Proof.
  intros Hp g E. apply (f_equal (@length V)) in E. rewrite map_length, coords_length in E.
  pose proof (size_pos sh Hp). cbn [length] in E. lia.
Qed.

Lemma is_monotonic_zseq a n : is_monotonic (zseq a n) = (true, true).
Proof.
  pose proof (mono1_zseq a n) as H. unfold mono1 in H.
  destruct (is_monotonic (zseq a n)) as [[|] [|]]; try discriminate; reflexivity.
Qed.

(* R4 — the all-axes shortcut: the fold of the (materialised) window, which lists the logical
   elements in row-major order.  NOTE the trigger: ANY monotone-by-one list of the right length,
   whatever its values (see m_reduce_bad_axes_accepted_refuted below). *)
Theorem m_reduce_all_axes σ t d0 along g :
  get_t V σ t = Some d0 -> rwf σ d0 -> content σ d0 g ->
  (is_materializable d0 = false -> requires_iterator d0 = false) ->
  (along = [] \/ (is_monotonic along = (true, true) /\ length along = length (shp (d_ap d0)))) ->
  m_reduce σ t along = (Ok ([], [fold1 (map g (coords (shp (d_ap d0))))]), along).
Proof.
  intros Ht Hr Hg Hnm Hal. pose proof Hr as ((_ & (Hp & _) & _) & _).
  destruct (m_reduce_src σ t d0 along g Ht Hr Hg Hnm) as (d & E & Hsh & _). rewrite E.
  unfold reduce_tail. rewrite Hsh.
  rewrite (fold_slice_fold1 _ (coords_nonempty _ Hp g)).
  destruct Hal as [-> | [Hm Hl]];
    [cbn [is_monotonic]; change (zlen (@nil Z) =? 0) with true; rewrite orb_true_r; reflexivity|]. rewrite Hm. unfold zlen. rewrite Hl, Z.eqb_refl. reflexivity.
Qed.

Corollary m_reduce_all_axes_zseq σ t d0 g :
  get_t V σ t = Some d0 -> rwf σ d0 -> content σ d0 g ->
  (is_materializable d0 = false -> requires_iterator d0 = false) ->
  let along := zseq 0 (length (shp (d_ap d0))) in
  m_reduce σ t along = (Ok ([], [fold1 (map g (coords (shp (d_ap d0))))]), along).
Proof.
  intros Ht Hr Hg Hnm along. apply m_reduce_all_axes; try assumption.
  right. split; [apply is_monotonic_zseq|apply zseq_length].
Qed.

(* R3 — one axis of a tensor of rank >= 2 *)
Theorem m_reduce_single_axis σ t d0 axis g :
  let sh := shp (d_ap d0) in
  let a := Z.to_nat axis in
  get_t V σ t = Some d0 -> rwf σ d0 -> content σ d0 g ->
  (is_materializable d0 = false -> requires_iterator d0 = false /\ is_cm (ord (d_ap d0)) = false) ->
  (2 <= length sh)%nat -> 0 <= axis < zlen sh -> default_ok sh a ->
  exists r, m_reduce σ t [axis] = (Ok (remove_nth a sh, r), [axis]) /\ zlen r = size (remove_nth a sh) /\
    forall c', inbox (remove_nth a sh) c' ->
      zn r (rank_rm (remove_nth a sh) c') = kfold sh a (lane_of g sh a c').
Proof.
  intros sh a Ht Hr Hg Hnm Hrank Hax Hgd. pose proof Hr as ((_ & (Hp & _) & _) & _).
  destruct (m_reduce_src σ t d0 [axis] g Ht Hr Hg (fun H => proj1 (Hnm H))) as (d & E & Hsh & Hstr & Hlen & Hri & Hcm).
  fold sh in Hsh, Hstr, Hlen. rewrite E. fold sh. unfold reduce_tail. cbn [is_monotonic mono_loop].
  rewrite Hsh. replace (zlen [axis] =? zlen sh) with false by (unfold zlen in *; cbn [length]; lia).
  change (zlen [axis] =? 0) with false. cbn [andb orb sort_z fold_right insert_z Reduce.reduce_axes].
  rewrite Hsh. replace (axis - 0) with axis by lia. replace (zlen sh <=? axis) with false by lia.
  assert (Hcm' : is_cm (ord (d_ap d)) = false).
  { destruct Hcm as [Hc|[Hm ->]]; [exact Hc|apply (Hnm Hm)]. }
  set (w := map g (coords sh)).
  destruct (optimized_reduce_spec w d axis) as (r & Eo & L & P); rewrite ?Hsh; try assumption.
  { unfold w, zlen. rewrite map_length, coords_length. pose proof (size_pos sh Hp). lia. }
  rewrite Hsh in Eo. fold a in Eo. rewrite Eo.
  exists r. split; [reflexivity|]. split; [rewrite Hsh in L; exact L|].
  intros c' Hc. rewrite Hsh in P. fold a in P. rewrite (P c' Hc). f_equal.
  apply lane_content; [exact Hp| |exact Hc]. unfold a, zlen in *. lia.
Qed.

(* rank 1: the single axis is "all axes" — the shortcut folds the window with fn (from zero for Sum) *)
Theorem m_reduce_single_axis_rank1 σ t d0 D g :
  get_t V σ t = Some d0 -> rwf σ d0 -> content σ d0 g ->
  (is_materializable d0 = false -> requires_iterator d0 = false) ->
  shp (d_ap d0) = [D] ->
  m_reduce σ t [0] = (Ok (remove_nth 0 [D], [fold1 (lane_of g [D] 0 [])]), [0]).
Proof.
  intros Ht Hr Hg Hnm Hsh.
  rewrite (m_reduce_all_axes σ t d0 [0] g Ht Hr Hg Hnm) by (right; rewrite Hsh; split; reflexivity).
  rewrite Hsh. cbn [remove_nth].
  assert (Hc : map g (coords [D]) = lane_of g [D] 0 []).
  { unfold lane_of, coords. cbn [nth insert_at size]. rewrite Z.mul_1_r, map_map. apply map_ext. intro k.
    cbn [unrank size]. rewrite Z.div_1_r. reflexivity. }
  rewrite Hc. reflexivity.
Qed.

(* ====================================================================================== *)
(*  R5 — several axes: the axis loop                                                       *)
(* ====================================================================================== *)
(* the nested folds: shape and logical content after reducing the (sorted) axes in turn, the
   axes being renumbered ax - (number already removed) *)
Fixpoint red_fun (axes : list Z) (reduced : Z) (sh : list Z) (g : list Z -> V) : list Z * (list Z -> V) :=
  match axes with
  | [] => (sh, g)
  | ax :: rest =>
    let a := Z.to_nat (ax - reduced) in
    red_fun rest (reduced + 1) (remove_nth a sh) (fun c' => kfold sh a (lane_of g sh a c'))
  end.

(* every renumbered axis is in range and passes the reduceDefault guard *)
Fixpoint axes_ok (axes : list Z) (reduced : Z) (sh : list Z) : Prop :=
  match axes with
  | [] => True
  | ax :: rest =>
    let a := Z.to_nat (ax - reduced) in
    0 <= ax - reduced < zlen sh /\ default_ok sh a /\ axes_ok rest (reduced + 1) (remove_nth a sh)
  end.

Lemma red_fun_ext : forall axes reduced sh g g', axes_ok axes reduced sh ->
  (forall c, inbox sh c -> g c = g' c) ->
  fst (red_fun axes reduced sh g) = fst (red_fun axes reduced sh g') /\
  forall c, inbox (fst (red_fun axes reduced sh g)) c ->
    snd (red_fun axes reduced sh g) c = snd (red_fun axes reduced sh g') c.
Proof.
  induction axes as [|ax rest IH]; intros reduced sh g g' Hok He; cbn [red_fun fst snd].
  - split; [reflexivity|exact He].
  - cbn [axes_ok] in Hok. destruct Hok as (Hr & _ & Hok). apply IH; [exact Hok|].
    intros c Hc. f_equal. apply lane_ext; [unfold zlen in Hr; lia|exact Hc|exact He].
Qed.

Theorem reduce_axes_spec : forall axes reduced w d g,
  let sh := shp (d_ap d) in
  requires_iterator d = false -> is_cm (ord (d_ap d)) = false ->
  str (d_ap d) = calc_strides sh -> d_len d = size sh -> pos_shape sh -> zlen w = size sh ->
  (forall c, inbox sh c -> wfun sh w c = g c) -> axes_ok axes reduced sh ->
  let sh' := fst (red_fun axes reduced sh g) in
  exists w', reduce_axes axes reduced w d = Ok (sh', w') /\ zlen w' = size sh' /\
    forall c', inbox sh' c' -> zn w' (rank_rm sh' c') = snd (red_fun axes reduced sh g) c'.
Proof.
  induction axes as [|ax rest IH]; intros reduced w d g sh Hri Hcm Hstr Hlen Hp Hw Hg Hok sh'.
  - exists w. split; [reflexivity|]. split; [exact Hw|]. intros c' Hc. apply Hg. exact Hc.
  - cbn [axes_ok] in Hok. destruct Hok as (Hr & Hgd & Hok).
    cbn [Reduce.reduce_axes]. fold sh. replace (zlen sh <=? ax - reduced) with false by lia.
    destruct (optimized_reduce_spec w d (ax - reduced) Hri Hcm Hstr Hlen Hp Hw Hr Hgd) as (r & Eo & L & P).
    fold sh in Eo, L, P. set (a := Z.to_nat (ax - reduced)) in *. rewrite Eo. rewrite size_scalar_or.
    set (sh1 := remove_nth a sh) in *.
    set (d1 := mkDense 0 0 (size sh1) (mkAP sh1 (calc_strides sh1) 0 true) None false).
    assert (Hp1 : pos_shape sh1) by (apply pos_shape_remove_nth; exact Hp).
    pose proof (size_pos sh1 Hp1) as Hsz1.
    assert (Hri1 : requires_iterator d1 = false).
    { unfold requires_iterator, d1. cbn [d_len d_ap d_old ord is_some].
      destruct (size sh1 =? 1); [reflexivity|]. replace (size sh1 =? 0) with false by lia. reflexivity. }
    set (g1 := fun c' => kfold sh a (lane_of g sh a c')).
    assert (Hg1 : forall c, inbox sh1 c -> wfun sh1 r c = g1 c).
    { intros c Hc. unfold wfun. rewrite (P c Hc). unfold g1. f_equal.
      apply lane_ext; [unfold a, zlen in *; lia|exact Hc|exact Hg]. }
    destruct (IH (reduced + 1) r d1 g1 Hri1 eq_refl eq_refl eq_refl Hp1 L Hg1 Hok) as (w' & E' & L' & P').
    exists w'. split; [exact E'|]. split; [exact L'|exact P'].
Qed.
(* ---------- sort.Slice(along) and the renumbering ---------- *)
Lemma insert_z_perm x : forall l, Permutation (insert_z x l) (x :: l).
Proof.
  induction l as [|y r IH]; cbn [insert_z]; [apply Permutation_refl|].
  destruct (x <=? y); [apply Permutation_refl|].
  eapply perm_trans; [apply perm_skip, IH|apply perm_swap].
Qed.

Lemma sort_z_perm : forall l, Permutation (sort_z l) l.
Proof.
  induction l as [|x l IH]; [apply Permutation_refl|]. unfold sort_z in *. cbn [fold_right].
  eapply perm_trans; [apply insert_z_perm|apply perm_skip, IH].
Qed.

Lemma insert_z_sorted x : forall l, StronglySorted Z.le l -> StronglySorted Z.le (insert_z x l).
Proof.
  induction l as [|y r IH]; intro Hs; cbn [insert_z].
  - constructor; constructor.
  - inversion Hs as [|? ? Hr Hy]; subst. destruct (x <=? y) eqn:E.
    + constructor; [exact Hs|]. constructor; [lia|]. rewrite Forall_forall in *. intros z Hz. specialize (Hy z Hz). lia.
    + constructor; [apply IH; exact Hr|]. rewrite Forall_forall in *. intros z Hz.
      apply (Permutation_in _ (insert_z_perm x r)) in Hz. destruct Hz as [<-|Hz]; [lia|apply Hy; exact Hz].
Qed.

Lemma sort_z_sorted : forall l, StronglySorted Z.le (sort_z l).
Proof.
  induction l as [|x l IH]; [constructor|]. unfold sort_z in *. cbn [fold_right]. apply insert_z_sorted. exact IH.
Qed.

Lemma sorted_le_lt : forall l, StronglySorted Z.le l -> NoDup l -> StronglySorted Z.lt l.
Proof.
  induction 1 as [|x l Hs IH Hx]; intro Hn; [constructor|]. inversion Hn as [|? ? Hnx Hnl]; subst.
  constructor; [apply IH; exact Hnl|]. rewrite Forall_forall in *. intros z Hz. specialize (Hx z Hz).
  assert (x <> z) by (intro; subst; contradiction). lia.
Qed.

Lemma sort_z_strict l : NoDup l -> StronglySorted Z.lt (sort_z l).
Proof.
  intro Hn. apply sorted_le_lt; [apply sort_z_sorted|].
  apply (Permutation_NoDup (Permutation_sym (sort_z_perm l)) Hn).
Qed.

(* only the reduceDefault guard, along the renumbered axes *)
Fixpoint axes_guard (axes : list Z) (reduced : Z) (sh : list Z) : Prop :=
  match axes with
  | [] => True
  | ax :: rest =>
    let a := Z.to_nat (ax - reduced) in
    default_ok sh a /\ axes_guard rest (reduced + 1) (remove_nth a sh)
  end.

(* strictly increasing in-range axes stay in range under the renumbering *)
Lemma axes_ok_sorted : forall axes reduced sh, StronglySorted Z.lt axes ->
  Forall (fun ax => reduced <= ax < reduced + zlen sh) axes ->
  axes_guard axes reduced sh -> axes_ok axes reduced sh.
Proof.
  induction axes as [|ax rest IH]; intros reduced sh Hs Hr Hg; [exact I|].
  inversion Hs as [|? ? Hs' Hlt]; subst. inversion Hr as [|? ? Hax Hr']; subst.
  cbn [axes_guard] in Hg. destruct Hg as [Hg Hg']. cbn [axes_ok].
  split; [lia|]. split; [exact Hg|]. apply IH; [exact Hs'| |exact Hg'].
  assert (Hl : zlen (remove_nth (Z.to_nat (ax - reduced)) sh) = zlen sh - 1).
  { unfold zlen in *. rewrite remove_nth_length by lia. lia. }
  rewrite Forall_forall in *. intros z Hz. specialize (Hlt z Hz). specialize (Hr' z Hz). lia.
Qed.

(* up to rank 3 the guard always holds (the kernel is only wrong from rank 4 on) *)
Lemma default_ok_rank3 sh a : (a < length sh)%nat -> (length sh <= 3)%nat -> default_ok sh a.
Proof.
  intros Ha Hl. unfold default_ok. destruct a as [|[|a]]; [left; reflexivity| |right; left; lia].
  right; right; right. reflexivity.
Qed.

Lemma axes_guard_rank3 : forall axes reduced sh, (length sh <= 3)%nat ->
  StronglySorted Z.lt axes -> Forall (fun ax => reduced <= ax < reduced + zlen sh) axes ->
  axes_guard axes reduced sh.
Proof.
  induction axes as [|ax rest IH]; intros reduced sh Hl Hs Hr; [exact I|].
  inversion Hs as [|? ? Hs' Hlt]; subst. inversion Hr as [|? ? Hax Hr']; subst.
  cbn [axes_guard]. split; [apply default_ok_rank3; [unfold zlen in Hax; lia|exact Hl]|].
  assert (Hl' : length (remove_nth (Z.to_nat (ax - reduced)) sh) = (length sh - 1)%nat)
    by (apply remove_nth_length; unfold zlen in Hax; lia).
  apply IH; [lia|exact Hs'|].
  rewrite Forall_forall in *. intros z Hz. specialize (Hlt z Hz). specialize (Hr' z Hz). unfold zlen in *. lia.
Qed.

(* the all-axes test of reduce() *)
Definition shortcut (along sh : list Z) : bool :=
  let '(mono, incr1) := is_monotonic along in
  (mono && incr1 && (zlen along =? zlen sh)) || (zlen along =? 0).

(* R5 on a tensor of the store: the axes are sorted in a private copy, then reduced in turn *)
Theorem m_reduce_axes_spec σ t d0 along g :
  let sh := shp (d_ap d0) in
  get_t V σ t = Some d0 -> rwf σ d0 -> content σ d0 g ->
  (is_materializable d0 = false -> requires_iterator d0 = false /\ is_cm (ord (d_ap d0)) = false) ->
  shortcut along sh = false -> axes_ok (sort_z along) 0 sh ->
  let sh' := fst (red_fun (sort_z along) 0 sh g) in
  exists w', m_reduce σ t along = (Ok (sh', w'), along) /\ zlen w' = size sh' /\
    forall c', inbox sh' c' -> zn w' (rank_rm sh' c') = snd (red_fun (sort_z along) 0 sh g) c'.
Proof.
  intros sh Ht Hr Hg Hnm Hsc Hok sh'. pose proof Hr as ((_ & (Hp & _) & _) & _).
  destruct (m_reduce_src σ t d0 along g Ht Hr Hg (fun H => proj1 (Hnm H))) as (d & E & Hsh & Hstr & Hlen & Hri & Hcm).
  fold sh in Hsh, Hstr, Hlen. rewrite E. fold sh. unfold reduce_tail. rewrite Hsh.
  unfold shortcut in Hsc. destruct (is_monotonic along) as [mono incr1]. rewrite Hsc.
  assert (Hcm' : is_cm (ord (d_ap d)) = false).
  { destruct Hcm as [Hc|[Hm ->]]; [exact Hc|apply (Hnm Hm)]. }
  destruct (reduce_axes_spec (sort_z along) 0 (map g (coords sh)) d g) as (w' & E' & L' & P');
    rewrite ?Hsh; try assumption.
  - unfold zlen. rewrite map_length, coords_length. pose proof (size_pos sh Hp). lia.
  - intros c Hc. apply wfun_content; assumption.
  - rewrite Hsh in E', L', P'. rewrite E'. exists w'. split; [reflexivity|]. split; [exact L'|exact P'].
Qed.

(* ====================================================================================== *)
(*  R7 — refusals (general lemmas)                                                         *)
(* ====================================================================================== *)
(* an operand that needs an iterator and is not materialised is refused by every kernel path *)
Lemma optimized_reduce_iter_refused w d axis :
  requires_iterator d = true -> 0 <= axis < zlen (shp (d_ap d)) -> pos_shape (shp (d_ap d)) ->
  optimized_reduce w d axis = Err.
Proof.
  intros Hri Hax Hp. unfold Reduce.optimized_reduce. cbv zeta. rewrite Hri.
  replace (zlen (shp (d_ap d)) <=? axis) with false by lia. replace (axis <? 0) with false by lia.
  rewrite size_scalar_or.
  pose proof (size_pos _ (pos_shape_remove_nth (Z.to_nat axis) _ Hp)) as Hs.
  replace (size (remove_nth (Z.to_nat axis) (shp (d_ap d))) <? 0) with false by lia. reflexivity.
Qed.

(* a column-major operand is refused ("NYI: colmajor") on the first and on the last axis *)
Lemma optimized_reduce_cm_refused w d axis :
  requires_iterator d = false -> is_cm (ord (d_ap d)) = true -> pos_shape (shp (d_ap d)) ->
  (axis = 0 \/ axis = zlen (shp (d_ap d)) - 1) -> 0 <= axis < zlen (shp (d_ap d)) ->
  optimized_reduce w d axis = Err.
Proof.
  intros Hri Hcm Hp Hcase Hax. unfold Reduce.optimized_reduce. cbv zeta. rewrite Hri, Hcm.
  replace (zlen (shp (d_ap d)) <=? axis) with false by lia. replace (axis <? 0) with false by lia.
  rewrite size_scalar_or.
  pose proof (size_pos _ (pos_shape_remove_nth (Z.to_nat axis) _ Hp)) as Hs.
  replace (size (remove_nth (Z.to_nat axis) (shp (d_ap d))) <? 0) with false by lia.
  cbn [negb]. rewrite !andb_false_r, !andb_true_r. cbn [orb].
  destruct (axis =? zlen (shp (d_ap d)) - 1) eqn:E1; [reflexivity|].
  destruct (axis =? 0) eqn:E0; [reflexivity|]. lia.
Qed.

(* an axis beyond the rank is an error, at the kernel and in the axis loop *)
Lemma optimized_reduce_axis_refused w d axis : zlen (shp (d_ap d)) <= axis -> optimized_reduce w d axis = Err.
Proof. intro H. unfold Reduce.optimized_reduce. cbv zeta. replace (_ <=? axis) with true by lia. reflexivity. Qed.

(* ---------- explicit forms: the result list is the row-major list of the lane folds ---------- *)
Lemma pointwise_to_map sh' (r : list V) (F : list Z -> V) : pos_shape sh' -> zlen r = size sh' ->
  (forall c', inbox sh' c' -> zn r (rank_rm sh' c') = F c') -> r = map F (coords sh').
Proof.
  intros Hp Hl HF. pose proof (size_pos sh' Hp) as Hsz.
  apply (nth_ext _ _ vzero vzero).
  - rewrite map_length, coords_length. unfold zlen in Hl. lia.
  - intros i Hi. unfold zlen in Hl.
    assert (Hi' : 0 <= Z.of_nat i < size sh') by lia.
    pose proof (unrank_inbox sh' _ Hp Hi') as Hb.
    specialize (HF _ Hb). rewrite rank_unrank in HF by assumption.
    rewrite znth_nth, Nat2Z.id in HF by lia. rewrite HF.
    symmetry. apply nth_error_nth. rewrite nth_error_map.
    rewrite <- (Nat2Z.id i) at 1. rewrite nth_error_coords by lia. reflexivity.
Qed.

Theorem m_reduce_single_axis_explicit σ t d0 axis g :
  let sh := shp (d_ap d0) in
  let a := Z.to_nat axis in
  get_t V σ t = Some d0 -> rwf σ d0 -> content σ d0 g ->
  (is_materializable d0 = false -> requires_iterator d0 = false /\ is_cm (ord (d_ap d0)) = false) ->
  (2 <= length sh)%nat -> 0 <= axis < zlen sh -> default_ok sh a ->
  m_reduce σ t [axis]
  = (Ok (remove_nth a sh, map (fun c' => kfold sh a (lane_of g sh a c')) (coords (remove_nth a sh))), [axis]).
Proof.
  intros sh a Ht Hr Hg Hnm Hrank Hax Hgd. pose proof Hr as ((_ & (Hp & _) & _) & _).
  destruct (m_reduce_single_axis σ t d0 axis g Ht Hr Hg Hnm Hrank Hax Hgd) as (r & E & L & P).
  fold sh a in E, L, P. rewrite E. do 3 f_equal.
  apply pointwise_to_map; [apply pos_shape_remove_nth; exact Hp|exact L|exact P].
Qed.

Lemma red_fun_pos : forall axes reduced sh g, pos_shape sh -> pos_shape (fst (red_fun axes reduced sh g)).
Proof.
  induction axes as [|ax rest IH]; intros reduced sh g Hp; [exact Hp|].
  cbn [red_fun]. apply IH. apply pos_shape_remove_nth. exact Hp.
Qed.

(* several axes, user-level: distinct in-range axes, not all of them *)
Theorem m_reduce_multi_axis σ t d0 along g :
  let sh := shp (d_ap d0) in
  get_t V σ t = Some d0 -> rwf σ d0 -> content σ d0 g ->
  (is_materializable d0 = false -> requires_iterator d0 = false /\ is_cm (ord (d_ap d0)) = false) ->
  along <> [] -> NoDup along -> Forall (fun ax => 0 <= ax < zlen sh) along ->
  (length along < length sh)%nat -> axes_guard (sort_z along) 0 sh ->
  let sh' := fst (red_fun (sort_z along) 0 sh g) in
  m_reduce σ t along = (Ok (sh', map (snd (red_fun (sort_z along) 0 sh g)) (coords sh')), along).
Proof.
  intros sh Ht Hr Hg Hnm Hne Hnd Hrng Hlen Hgd sh'. pose proof Hr as ((_ & (Hp & _) & _) & _).
  assert (Hok : axes_ok (sort_z along) 0 sh).
  { apply axes_ok_sorted; [apply sort_z_strict; exact Hnd| |exact Hgd].
    apply (Permutation_Forall (Permutation_sym (sort_z_perm along))).
    eapply Forall_impl; [|exact Hrng]. cbn beta. intros ax Hax. lia. }
  assert (Hsc : shortcut along sh = false).
  { unfold shortcut. destruct (is_monotonic along) as [mono incr1].
    replace (zlen along =? zlen sh) with false by (unfold zlen; lia).
    replace (zlen along =? 0) with false by (destruct along; [congruence|unfold zlen; cbn [length]; lia]).
    rewrite andb_false_r. reflexivity. }
  destruct (m_reduce_axes_spec σ t d0 along g Ht Hr Hg Hnm Hsc Hok) as (w' & E & L & P).
  fold sh sh' in E, L, P. rewrite E. do 3 f_equal.
  apply pointwise_to_map; [apply red_fun_pos; exact Hp|exact L|exact P].
Qed.

(* the layout does not affect the result: two operands (of any two stores) with the same shape
   and the same logical content give the same answer *)
Corollary m_reduce_layout_independent σ t d0 σ' t' d0' axis g :
  get_t V σ t = Some d0 -> rwf σ d0 -> content σ d0 g ->
  (is_materializable d0 = false -> requires_iterator d0 = false /\ is_cm (ord (d_ap d0)) = false) ->
  get_t V σ' t' = Some d0' -> rwf σ' d0' -> content σ' d0' g ->
  (is_materializable d0' = false -> requires_iterator d0' = false /\ is_cm (ord (d_ap d0')) = false) ->
  shp (d_ap d0') = shp (d_ap d0) ->
  (2 <= length (shp (d_ap d0)))%nat -> 0 <= axis < zlen (shp (d_ap d0)) ->
  default_ok (shp (d_ap d0)) (Z.to_nat axis) ->
  m_reduce σ' t' [axis] = m_reduce σ t [axis].
Proof.
  intros Ht Hr Hg Hnm Ht' Hr' Hg' Hnm' Hsh Hrank Hax Hgd.
  rewrite (m_reduce_single_axis_explicit σ t d0 axis g Ht Hr Hg Hnm Hrank Hax Hgd).
  rewrite (m_reduce_single_axis_explicit σ' t' d0' axis g Ht' Hr' Hg' Hnm'); rewrite Hsh; auto.
Qed.

(* R7 at the level of Sum/Min/Max: a non-view operand whose flags ask for an iterator is refused *)
Lemma m_reduce_iter_refused σ t d0 axis :
  get_t V σ t = Some d0 -> is_materializable d0 = false -> requires_iterator d0 = true ->
  pos_shape (shp (d_ap d0)) -> (2 <= length (shp (d_ap d0)))%nat -> 0 <= axis < zlen (shp (d_ap d0)) ->
  m_reduce σ t [axis] = (Err, [axis]).
Proof.
  intros Ht Hm Hri Hp Hrank Hax. unfold Reduce.m_reduce. rewrite Ht, Hm.
  cbn [is_monotonic mono_loop].
  replace (zlen [axis] =? zlen (shp (d_ap d0))) with false by (unfold zlen in *; cbn [length]; lia).
  change (zlen [axis] =? 0) with false. cbn [andb orb sort_z fold_right insert_z Reduce.reduce_axes].
  replace (axis - 0) with axis by lia. replace (zlen (shp (d_ap d0)) <=? axis) with false by lia.
  rewrite optimized_reduce_iter_refused by assumption. reflexivity.
Qed.

End ReduceProofs.

Arguments fold_hd {V}.
Arguments fold1 {V}.
Arguments lane_of {V}.
Arguments wfun {V}.
Arguments kfold {V}.
Arguments rwf {V}.
Arguments content {V}.
Arguments red_fun {V}.

(* a computable logical-content function, for examples *)
Lemma content_default {V} (vzero : V) σ d : wf_dense V σ d ->
  content σ d (fun c => match cell V σ d c with Some v => v | None => vzero end).
Proof.
  intros W c Hc. rewrite (cell_bget V σ d c W Hc).
  destruct (bget_some V σ (d_buf d) (pos d c) (pos_in_buf V σ d c W Hc)) as [v ->]. reflexivity.
Qed.

(* ====================================================================================== *)
(*  R1c / R7 — what the model makes false, and the necessity of the guards (V = Z)          *)
(* ====================================================================================== *)
Definition rm_dense (sh : list Z) : dense :=
  mkDense 0 0 (size sh) (mkAP sh (calc_strides sh) 0 true) None false.
Definition cm_dense (sh : list Z) : dense :=
  mkDense 0 0 (size sh) (mkAP sh (calc_strides_cm sh) CM true) None false.

(* reduceDefault's innerStart bookkeeping is NOT the index map of a reduction when the reduced
   axis has extent <> 2 and there is more than one index between axis 0 and it: Sum along axis 2
   of the contiguous 2x2x3x2 tensor 0..23 silently returns wrong values *)
Example reduce_default_refuted :
  let sh := [2; 2; 3; 2] in
  let w := zseq 0 24 in
  optimized_reduce Z 0 Z.add true w (rm_dense sh) 2 = Ok ([2; 2; 2], [6; 9; 18; 21; 42; 45; 54; 57]) /\
  map (fun c' => fold_hd 0 Z.add (lane_of (wfun 0 sh w) sh 2 c')) (coords [2; 2; 2])
    = [6; 9; 24; 27; 42; 45; 60; 63] /\
  ~ default_ok sh 2.
Proof.
  cbv zeta. split; [vm_compute; reflexivity|]. split; [vm_compute; reflexivity|].
  unfold default_ok. cbn. intros [H|[H|[H|H]]]; discriminate.
Qed.

(* the guard of optimized_reduce_spec is therefore needed; with extent 1 the kernel even runs out
   of its slice (index panic) *)
Example default_ok_guard_needed :
  exists sh w r, pos_shape sh /\ zlen w = size sh /\
    optimized_reduce Z 0 Z.add true w (rm_dense sh) 2 = Ok (remove_nth 2 sh, r) /\
    r <> map (fun c' => fold_hd 0 Z.add (lane_of (wfun 0 sh w) sh 2 c')) (coords (remove_nth 2 sh)).
Proof.
  exists [2; 2; 3; 2], (zseq 0 24). eexists. split; [repeat constructor; lia|].
  split; [reflexivity|]. split; [vm_compute; reflexivity|]. vm_compute. discriminate.
Qed.

Example reduce_default_extent1_panics :
  optimized_reduce Z 0 Z.add true (zseq 0 16) (rm_dense [2; 2; 1; 4]) 2 = Panic.
Proof. vm_compute. reflexivity. Qed.

(* a column-major operand: Err on the first and on the last axis ("NYI: colmajor"); on a middle
   axis reduceDefault is entered with column-major strides and runs out of its slice (Go panic) —
   refused, not folded wrongly *)
Example colmajor_refused :
  optimized_reduce Z 0 Z.add true (zseq 0 6) (cm_dense [2; 3]) 0 = Err /\
  optimized_reduce Z 0 Z.add true (zseq 0 6) (cm_dense [2; 3]) 1 = Err /\
  optimized_reduce Z 0 Z.add true (zseq 0 12) (cm_dense [2; 3; 2]) 1 = Panic /\
  m_reduce Z 0 Z.add true (mkStore Z [zseq 0 12] [cm_dense [2; 3; 2]]) 0 [1] = (Panic, [1]) /\
  m_reduce Z 0 Z.add true (mkStore Z [zseq 0 6] [cm_dense [2; 3]]) 0 [0] = (Err, [0]).
Proof. repeat split; vm_compute; reflexivity. Qed.

(* the all-axes test looks only at the NUMBER of axes and at their being consecutive: axes 7 and 8
   of a matrix are accepted and everything is summed; the caller's slice is left as it was *)
Example m_reduce_bad_axes_accepted_refuted :
  m_reduce Z 0 Z.add true (mkStore Z [zseq 0 6] [rm_dense [2; 3]]) 0 [7; 8] = (Ok ([], [15]), [7; 8]).
Proof. vm_compute. reflexivity. Qed.

(* unsorted axes are sorted in a private copy; repeated or negative axes panic *)
Example m_reduce_axes_misc :
  m_reduce Z 0 Z.add true (mkStore Z [zseq 0 24] [rm_dense [2; 3; 4]]) 0 [2; 0] = (Ok ([3], [60; 92; 124]), [2; 0]) /\
  m_reduce Z 0 Z.add true (mkStore Z [zseq 0 24] [rm_dense [2; 3; 4]]) 0 [0; 0] = (Panic, [0; 0]) /\
  m_reduce Z 0 Z.add true (mkStore Z [zseq 0 24] [rm_dense [2; 3; 4]]) 0 [-1] = (Panic, [-1]) /\
  m_reduce Z 0 Z.add true (mkStore Z [zseq 0 24] [rm_dense [2; 3; 4]]) 0 [3] = (Err, [3]).
Proof. repeat split; vm_compute; reflexivity. Qed.

(* the left-unit hypothesis of the unified statements is needed: with an op for which the start
   value is not neutral, the last axis (fold from zero) and the other axes (fold from the first
   element) differ *)
Example unit_guard_needed :
  let op := fun a b => a + b + 1 in
  let sh := [2; 2] in
  let w := [1; 2; 3; 4] in
  optimized_reduce Z 0 op true w (rm_dense sh) 1 = Ok ([2], [5; 9]) /\
  map (fun c' => fold_hd 0 op (lane_of (wfun 0 sh w) sh 1 c')) (coords [2]) = [4; 8].
Proof. split; vm_compute; reflexivity. Qed.

(* flag soundness (second half of rwf) is needed: the row slice [1:3] of a lazily transposed 4x6
   matrix is not flagged non-contiguous; the materialisation copies the head of its window, and
   Sum along axis 0 adds the wrong elements *)
Example m_reduce_flag_guard_needed :
  let σ0 := mkStore Z [] [] in
  exists σ1 σT σ2 dv,
    new_raw Z σ0 false [4; 6] (zseq 0 24) = Ok (σ1, 0%nat) /\ m_T Z σ1 0 [] = Ok σT /\
    m_slice Z σT 0 [Some (1, 3, 1)] = Ok (σ2, 1%nat) /\ get_t Z σ2 1 = Some dv /\
    wf_dense Z σ2 dv /\ requires_iterator dv = false /\ ~ contig dv /\
    logical Z σ2 1 = map Ok [1; 7; 13; 19; 2; 8; 14; 20] /\
    m_reduce Z 0 Z.add true σ2 1 [0] = (Ok ([4], [6; 8; 10; 12]), [0]).
Proof.
  cbv zeta. do 4 eexists.
  split; [vm_compute; reflexivity|]. split; [vm_compute; reflexivity|].
  split; [vm_compute; reflexivity|]. split; [vm_compute; reflexivity|].
  split; [apply wf_denseb_sound; vm_compute; reflexivity|].
  split; [vm_compute; reflexivity|].
  split; [intros [Hs _]; vm_compute in Hs; discriminate|].
  split; vm_compute; reflexivity.
Qed.

(* ====================================================================================== *)
(*  PART 2 — arg-reductions (R6)                                                           *)
(* ====================================================================================== *)

Arguments Z.mul : simpl never.
Arguments Z.add : simpl never.
Arguments Z.sub : simpl never.
Arguments Z.leb : simpl never.
Arguments Z.ltb : simpl never.
Arguments Z.eqb : simpl never.
Arguments Z.div : simpl never.
Arguments Z.modulo : simpl never.
Arguments Z.quot : simpl never.
Arguments Z.min : simpl never.
Arguments Z.of_nat : simpl never.
Arguments Z.to_nat : simpl never.
Arguments Z.testbit : simpl never.

(* ---------- generic list facts ---------- *)
Lemma zlen_app {A} (l1 l2 : list A) : zlen (l1 ++ l2) = zlen l1 + zlen l2.
Proof. unfold zlen. rewrite app_length. lia. Qed.

Lemma zlen_cons {A} (x : A) l : zlen (x :: l) = 1 + zlen l.
Proof. unfold zlen. cbn [length]. lia. Qed.

Lemma zlen_nonneg {A} (l : list A) : 0 <= zlen l.
Proof. unfold zlen. lia. Qed.

Lemma nth_map_lt {A B} (f : A -> B) (dA : A) (dB : B) : forall (l : list A) q, (q < length l)%nat ->
  nth q (map f l) dB = f (nth q l dA).
Proof.
  induction l as [|x l IH]; intros [|q] H; cbn [length] in H; try lia; cbn [map nth]; [reflexivity|].
  apply IH. lia.
Qed.



Lemma filter_all {A} (f : A -> bool) : forall l, (forall x, In x l -> f x = true) -> filter f l = l.
Proof.
  induction l as [|x l IH]; intro H; cbn [filter]; [reflexivity|].
  rewrite (H x) by (left; reflexivity). f_equal. apply IH. intros y Hy. apply H. right. exact Hy.
Qed.

Lemma filter_neq_zseq : forall n1 n2 a,
  filter (fun i => negb (i =? a + Z.of_nat n1)) (zseq a (n1 + S n2))
  = zseq a n1 ++ zseq (a + Z.of_nat n1 + 1) n2.
Proof.
  induction n1 as [|n1 IH]; intros n2 a.
  - cbn [Nat.add zseq filter app]. replace (a =? a + Z.of_nat 0) with true by lia. cbn [negb].
    replace (a + Z.of_nat 0 + 1) with (a + 1) by lia.
    apply filter_all. intros x Hx. apply APProofs.zseq_In in Hx. lia.
  - cbn [Nat.add zseq filter app]. replace (a =? a + Z.of_nat (S n1)) with false by lia. cbn [negb].
    f_equal. replace (a + Z.of_nat (S n1)) with (a + 1 + Z.of_nat n1) by lia. apply IH.
Qed.

Lemma arg_axes_split n1 n2 :
  arg_axes (Z.of_nat (n1 + S n2)) (Z.of_nat n1)
  = zseq 0 n1 ++ zseq (Z.of_nat n1 + 1) n2 ++ [Z.of_nat n1].
Proof.
  unfold arg_axes. rewrite Nat2Z.id.
  pose proof (filter_neq_zseq n1 n2 0) as H. replace (0 + Z.of_nat n1) with (Z.of_nat n1) in H by lia.
  rewrite H, <- app_assoc. reflexivity.
Qed.

Lemma map_znth_zseq {A} (d : A) (l1 l2 l3 : list A) :
  map (znth d (l1 ++ l2 ++ l3)) (zseq (zlen l1) (length l2)) = l2.
Proof.
  apply nth_error_ext_eq. intro k. destruct (Nat.lt_ge_cases k (length l2)) as [Hk|Hk].
  - rewrite nth_error_map, APProofs.zseq_nth_error by exact Hk. cbn [option_map].
    unfold znth, zlen. rewrite zget_nth_error by lia.
    replace (Z.to_nat (Z.of_nat (length l1) + Z.of_nat k)) with (length l1 + k)%nat by lia.
    rewrite nth_error_app2 by lia. replace (length l1 + k - length l1)%nat with k by lia.
    rewrite nth_error_app1 by exact Hk.
    destruct (nth_error l2 k) eqn:E; [reflexivity|]. apply nth_error_None in E. lia.
  - transitivity (@None A); [|symmetry]; apply nth_error_None;
      [rewrite map_length, APProofs.zseq_length|]; lia.
Qed.

Lemma permute_arg_axes {A} (d : A) (l1 l2 : list A) y :
  permute d (arg_axes (zlen (l1 ++ y :: l2)) (zlen l1)) (l1 ++ y :: l2) = l1 ++ l2 ++ [y].
Proof.
  unfold zlen. rewrite app_length. cbn [length]. rewrite arg_axes_split.
  unfold permute. rewrite !map_app. f_equal; [|f_equal].
  - pose proof (map_znth_zseq d [] l1 (y :: l2)) as H. cbn [app] in H. exact H.
  - pose proof (map_znth_zseq d (l1 ++ [y]) l2 []) as H. rewrite app_nil_r, <- app_assoc in H.
    cbn [app] in H. unfold zlen in H. rewrite app_length in H. cbn [length] in H.
    replace (Z.of_nat (length l1 + 1)) with (Z.of_nat (length l1) + 1) in H by lia. exact H.
  - cbn [map]. f_equal. pose proof (map_znth_zseq d l1 [y] l2) as H. cbn [app length zseq map] in H.
    injection H as H. exact H.
Qed.

Lemma arg_axes_perm n1 n2 : is_permb (arg_axes (Z.of_nat (n1 + S n2)) (Z.of_nat n1)) (n1 + S n2) = true.
Proof.
  apply is_permb_intro.
  - rewrite arg_axes_split, !app_length, !APProofs.zseq_length. cbn [length]. lia.
  - intros x Hx. rewrite arg_axes_split, !in_app_iff, !APProofs.zseq_In. cbn [In]. lia.
Qed.

Lemma arg_axes_not_id n1 n2 :
  arg_axes (Z.of_nat (n1 + S (S n2))) (Z.of_nat n1) <> zseq 0 (n1 + S (S n2)).
Proof.
  unfold arg_axes. replace (zseq 0 (n1 + S (S n2))) with (zseq 0 (S (n1 + S n2))) by (f_equal; lia).
  rewrite (IterProofs.zseq_snoc (n1 + S n2)). intro H. apply app_inj_tail in H as [_ H]. lia.
Qed.

Lemma arg_axes_last n : arg_axes (Z.of_nat (S n)) (Z.of_nat n) = zseq 0 (S n).
Proof.
  pose proof (arg_axes_split n 0) as H. replace (n + 1)%nat with (S n) in H by lia. rewrite H.
  change (zseq (Z.of_nat n + 1) 0) with (@nil Z). cbn [app]. rewrite IterProofs.zseq_snoc. reflexivity.
Qed.

(* ---------- moving the last coordinate back to its axis ---------- *)
Definition mv (ax : nat) (c : list Z) : list Z := insert_at ax (last c 0) (removelast c).

Lemma mv_app c1 c2 k : mv (length c1) (c1 ++ c2 ++ [k]) = c1 ++ k :: c2.
Proof.
  unfold mv. rewrite app_assoc, removelast_last, last_last. apply insert_at_app.
Qed.

Lemma mv_snoc ax c k : mv ax (c ++ [k]) = insert_at ax k c.
Proof. unfold mv. rewrite removelast_last, last_last. reflexivity. Qed.

Lemma dot_app : forall a1 a2 b1 b2, length a1 = length b1 ->
  dot (a1 ++ a2) (b1 ++ b2) = dot a1 b1 + dot a2 b2.
Proof.
  induction a1 as [|x a1 IH]; intros a2 [|y b1] b2 H; cbn [length] in H; try discriminate; cbn [app dot].
  - lia.
  - rewrite IH by lia. lia.
Qed.

Lemma dot_move t1 t2 T c1 c2 k : length t1 = length c1 -> length t2 = length c2 ->
  dot (t1 ++ t2 ++ [T]) (c1 ++ c2 ++ [k]) = dot (t1 ++ T :: t2) (c1 ++ k :: c2).
Proof.
  intros H1 H2. rewrite !dot_app by assumption.
  change (T :: t2) with ([T] ++ t2). change (k :: c2) with ([k] ++ c2).
  rewrite dot_app by reflexivity. lia.
Qed.

Lemma inbox_move s1 s2 D c1 c2 k : length c1 = length s1 -> length c2 = length s2 ->
  (inbox (s1 ++ s2 ++ [D]) (c1 ++ c2 ++ [k]) <-> inbox (s1 ++ D :: s2) (c1 ++ k :: c2)).
Proof.
  intros H1 H2. rewrite !inbox_app by assumption.
  change (D :: s2) with ([D] ++ s2). change (k :: c2) with ([k] ++ c2).
  rewrite inbox_app by reflexivity. tauto.
Qed.

Lemma inbox_move_inv s1 s2 D c : inbox (s1 ++ s2 ++ [D]) c ->
  exists c1 c2 k, c = c1 ++ c2 ++ [k] /\ length c1 = length s1 /\ length c2 = length s2.
Proof.
  intro H. apply inbox_app_inv in H as (c1 & c23 & -> & L1 & _ & H).
  apply inbox_app_inv in H as (c2 & c3 & -> & L2 & _ & H).
  destruct c3 as [|k [|? ?]]; cbn [inbox] in H; try tauto.
  exists c1, c2, k. auto.
Qed.

Lemma size_move s1 s2 D : size (s1 ++ s2 ++ [D]) = size (s1 ++ D :: s2).
Proof. rewrite !size_app. cbn [size]. lia. Qed.

Lemma pos_shape_move s1 s2 D : pos_shape (s1 ++ D :: s2) -> pos_shape (s1 ++ s2 ++ [D]).
Proof.
  unfold pos_shape. rewrite !Forall_app. intros (H1 & H2). inversion H2; subst.
  repeat split; auto.
Qed.

(* ---------- all-ones shapes ---------- *)
Lemma scalar_equiv_repeat : forall s, is_scalar_equiv s = true -> s = repeat 1 (length s).
Proof.
  induction s as [|d s IH]; cbn [is_scalar_equiv forallb length repeat]; [reflexivity|].
  intro H. apply andb_true_iff in H as [Hd Hs]. f_equal; [lia|]. apply IH. exact Hs.
Qed.

Lemma scalar_equiv_inbox_repeat : forall s c, is_scalar_equiv s = true -> inbox s c -> c = repeat 0 (length s).
Proof.
  induction s as [|d s IH]; intros [|x c] He Hb; cbn [inbox] in Hb; try tauto; try reflexivity.
  cbn [is_scalar_equiv forallb] in He. apply andb_true_iff in He as [Hd He]. destruct Hb as [Hx Hb].
  cbn [length repeat]. f_equal; [lia|]. apply IH; assumption.
Qed.

(* ---------- the iterator of argmaxDenseTensor: transposed pattern, bookkeeping of the source ---------- *)
Lemma hybrid_yields a a' :
  pos_shape (shp a') -> length (str a') = length (shp a') ->
  length (shp a') = length (shp a) -> size (shp a') = size (shp a) -> shp a <> [] ->
  (ap_is_vectorlike a = true -> ap_is_vectorlike a' = true) ->
  let it0 := new_iter a in
  yields false (mkIter (shp a') (str a') (it_track it0) (it_next it0) (it_last it0) (it_size it0)
                       (it_done it0) (it_vdim it0) (it_rev it0) (it_scalar it0) (it_vec it0))
         (offsets a').
Proof.
  intros Hp Hl Hlen Hsz Hne Hvl it0. subst it0. unfold new_iter.
  cbn [it_track it_next it_last it_size it_done it_vdim it_rev it_scalar it_vec].
  pose proof (size_pos _ Hp) as Hpos.
  replace (ap_is_scalar a) with false by (unfold ap_is_scalar; destruct (shp a); [congruence|reflexivity]).
  rewrite <- Hsz.
  destruct (ap_is_vectorlike a) eqn:Hv.
  - rewrite offsets_vectorlike by auto.
    destruct (Z.to_nat (size (shp a'))) as [|n] eqn:En; [lia|].
    apply vec_yields_fwd; [|lia]. apply nth_error_zeros.
    pose proof (first_non_one_lt (shp a) 0 Hne). lia.
  - rewrite offsets_zseq.
    replace (mkIter _ _ _ _ _ _ _ _ _ _ _) with (nd_st (shp a') (str a') 0 0 false false).
    + destruct (Z.to_nat (size (shp a'))) as [|n] eqn:En; [lia|].
      apply nd_yields_fwd; auto; lia.
    + unfold nd_st. rewrite unrank_zero by exact Hp. rewrite APProofs.dot_zeros.
      rewrite (map_const_length 0 (shp a') (shp a) Hlen). reflexivity.
Qed.

Lemma hybrid_run a a' :
  pos_shape (shp a') -> length (str a') = length (shp a') ->
  length (shp a') = length (shp a) -> size (shp a') = size (shp a) -> shp a <> [] ->
  (ap_is_vectorlike a = true -> ap_is_vectorlike a' = true) ->
  let it0 := new_iter a in
  exists itf,
  iter_run (S (S (Z.to_nat (it_size it0))))
    (mkIter (shp a') (str a') (it_track it0) (it_next it0) (it_last it0) (it_size it0)
            (it_done it0) (it_vdim it0) (it_rev it0) (it_scalar it0) (it_vec it0))
  = (itf, offsets a', true).
Proof.
  intros Hp Hl Hlen Hsz Hne Hvl it0.
  pose proof (hybrid_yields a a' Hp Hl Hlen Hsz Hne Hvl) as Hy. cbv zeta in Hy. fold it0 in Hy.
  destruct (iter_run_yields _ _ _ Hy (S (S (Z.to_nat (it_size it0))))) as (itf & E & _).
  - rewrite offsets_length. subst it0. unfold new_iter. cbn [it_size]. rewrite Hsz. lia.
  - exists itf. exact E.
Qed.

(* ---------- AP.T on the axes of argmaxDenseTensor ---------- *)
Definition arg_vec_guard (a : ap) (axis : Z) : Prop :=
  ap_is_vector a = false \/ axis = zlen (shp a) - 1 \/
  (forall c, inbox (shp a) c -> dot (str a) c = sumz c).

Lemma is_vector_length s : is_vector s = true -> (length s <= 2)%nat.
Proof. destruct s as [|a [|b [|c r]]]; cbn [length]; try lia. intro H. discriminate H. Qed.

Lemma ap_T_vec_10 D e T u o f : is_scalar_equiv [D; e] = false -> is_vector [D; e] = true ->
  ap_T (mkAP [D; e] [T; u] o f) [1; 0] = TOk (mkAP [e; D] [1; 1] (Z.lor o TR) true) [1; 0].
Proof.
  intros H1 H2. unfold ap_T, ap_is_vector. cbn [shp str ord length]. rewrite H1, H2. reflexivity.
Qed.

Lemma vectorlike_move s1 s2 D t1 t2 T :
  is_vectorlike_shape (s1 ++ D :: s2) && allones (t1 ++ T :: t2) = true ->
  is_vectorlike_shape (s1 ++ s2 ++ [D]) && allones (t1 ++ t2 ++ [T]) = true.
Proof.
  unfold is_vectorlike_shape, allones. rewrite !filter_app, !forallb_app, !app_length.
  cbn [filter forallb].
  destruct (negb (D =? 1)); cbn [length app];
    rewrite !andb_true_iff, !Nat.leb_le; intros (A & B & C & E); repeat split; auto; lia.
Qed.

Lemma arg_ap_case a s1 D s2 t1 T t2 :
  shp a = s1 ++ D :: s2 -> str a = t1 ++ T :: t2 -> length t1 = length s1 -> length t2 = length s2 ->
  arg_vec_guard a (zlen s1) ->
  exists a',
    (match ap_T a (arg_axes (zlen (shp a)) (zlen s1)) with
     | TOk a' _ => Ok a' | TNoop => Ok a | TErr => Err | TPanic => Panic end : res ap) = Ok a' /\
    shp a' = s1 ++ s2 ++ [D] /\ length (str a') = length (shp a') /\
    (ap_is_vectorlike a = true -> ap_is_vectorlike a' = true) /\
    forall c1 c2 k, length c1 = length s1 -> length c2 = length s2 ->
      inbox (s1 ++ s2 ++ [D]) (c1 ++ c2 ++ [k]) ->
      dot (str a') (c1 ++ c2 ++ [k]) = dot (str a) (c1 ++ k :: c2).
Proof.
  intros Hsh Hst L1 L2 Hg.
  assert (Hlen : length (str a) = length (shp a)).
  { rewrite Hsh, Hst, !app_length. cbn [length]. lia. }
  destruct s2 as [|e s2].
  - (* the last axis: identity axes, no-op *)
    destruct t2 as [|? ?]; [|discriminate].
    assert (E : arg_axes (zlen (shp a)) (zlen s1) = zseq 0 (length (shp a))).
    { rewrite Hsh. unfold zlen. rewrite app_length. cbn [length].
      replace (length s1 + 1)%nat with (S (length s1)) by lia. apply arg_axes_last. }
    rewrite E, ap_T_noop_identity. exists a. split; [reflexivity|]. split; [exact Hsh|].
    split; [exact Hlen|]. split; [auto|].
    intros c1 c2 k _ Hc2 _. destruct c2; [|discriminate]. reflexivity.
  - destruct t2 as [|u t2]; [discriminate|].
    assert (Hn : length (shp a) = (length s1 + S (S (length s2)))%nat).
    { rewrite Hsh, app_length. reflexivity. }
    assert (Hax : arg_axes (zlen (shp a)) (zlen s1)
                  = arg_axes (Z.of_nat (length s1 + S (S (length s2)))) (Z.of_nat (length s1))).
    { unfold zlen. rewrite Hn. reflexivity. }
    pose proof (arg_axes_perm (length s1) (S (length s2))) as Hperm. rewrite <- Hax in Hperm.
    pose proof (arg_axes_not_id (length s1) (length s2)) as Hnid. rewrite <- Hax in Hnid.
    destruct (is_permb_spec _ _ Hperm) as (Hpl & _).
    destruct (is_scalar_equiv (shp a)) eqn:Hse.
    + (* all dimensions 1: no-op *)
      rewrite ap_T_noop_scalar_equiv; [|exact Hse|right; rewrite Hpl, Hn; reflexivity].
      assert (Hmove : s1 ++ D :: e :: s2 = s1 ++ (e :: s2) ++ [D]).
      { f_equal. rewrite Hsh in Hse. unfold is_scalar_equiv in Hse. rewrite forallb_app in Hse.
        apply andb_true_iff in Hse as [_ Hse]. cbn [forallb] in Hse.
        apply andb_true_iff in Hse as [HD Hse]. assert (D = 1) by lia. subst D.
        rewrite (scalar_equiv_repeat (e :: s2) Hse). apply repeat_cons. }
      exists a. split; [reflexivity|]. split; [rewrite Hsh; exact Hmove|].
      split; [exact Hlen|]. split; [auto|].
      intros c1 c2 k Hc1 Hc2 Hb. f_equal.
      pose proof Hb as Hb'. apply inbox_move in Hb'; [|assumption..].
      rewrite <- Hmove, <- Hsh in Hb. rewrite <- Hsh in Hb'.
      rewrite (scalar_equiv_inbox_repeat _ _ Hse Hb), (scalar_equiv_inbox_repeat _ _ Hse Hb').
      reflexivity.
    + destruct (ap_is_vector a) eqn:Hv.
      * (* 2-D vectors: the strides become [1;1] *)
        destruct Hg as [Hg|[Hg|Hg]]; [congruence| |].
        { exfalso. rewrite Hsh in Hg. unfold zlen in Hg. rewrite app_length in Hg. cbn [length] in Hg. lia. }
        pose proof (is_vector_length _ Hv) as Hl2. rewrite Hn in Hl2.
        destruct s1 as [|? ?]; [|cbn [length] in Hl2; lia].
        destruct s2 as [|? ?]; [|cbn [length] in Hl2; lia].
        destruct t1 as [|? ?]; [|discriminate]. destruct t2 as [|? ?]; [|discriminate].
        cbn [app] in *. destruct a as [sh st o f]. cbn [shp str] in *. subst sh st.
        unfold ap_is_vector in Hv. cbn [shp] in Hv.
        change (arg_axes (zlen [D; e]) (zlen [])) with [1; 0].
        rewrite (ap_T_vec_10 D e T u o f Hse Hv).
        exists (mkAP [e; D] [1; 1] (Z.lor o TR) true). split; [reflexivity|].
        split; [reflexivity|]. split; [reflexivity|]. split.
        { intros _. unfold ap_is_vectorlike. cbn [shp str].
          unfold is_vector, is_colvec, is_rowvec in Hv. cbn [length Nat.eqb] in Hv.
          unfold is_vectorlike_shape, allones. cbn [filter forallb].
          destruct (e =? 1) eqn:E1; destruct (D =? 1) eqn:E2; cbn [negb length Nat.leb andb]; try reflexivity.
          exfalso. clear - Hv E1 E2. lia. }
        intros c1 c2 k Hc1 Hc2 Hb. destruct c1; [|discriminate].
        destruct c2 as [|j [|? ?]]; try discriminate. cbn [app] in *.
        rewrite Hg; [cbn [str dot sumz]; lia|]. cbn [inbox] in *. tauto.
      * (* the general case: a permutation of shape and strides *)
        pose proof (ap_T_offset a (arg_axes (zlen (shp a)) (zlen s1))) as HT. cbv zeta in HT.
        assert (Eax : axes_or_rev (length (shp a)) (arg_axes (zlen (shp a)) (zlen s1))
                      = arg_axes (zlen (shp a)) (zlen s1)).
        { destruct (arg_axes (zlen (shp a)) (zlen s1)) eqn:E; [|reflexivity].
          cbn [length] in Hpl. lia. }
        rewrite Eax in HT. rewrite <- Hn in Hperm, Hnid.
        destruct (HT Hlen Hse Hv Hperm Hnid) as [HT1 _]. rewrite HT1.
        eexists. split; [reflexivity|]. cbn [shp str].
        assert (E1 : permute 0 (arg_axes (zlen (shp a)) (zlen s1)) (shp a) = s1 ++ (e :: s2) ++ [D]).
        { rewrite Hsh. apply permute_arg_axes. }
        assert (E2 : permute 0 (arg_axes (zlen (shp a)) (zlen s1)) (str a) = t1 ++ (u :: t2) ++ [T]).
        { replace (zlen (shp a)) with (zlen (str a)) by (unfold zlen; lia).
          replace (zlen s1) with (zlen t1) by (unfold zlen; lia).
          rewrite Hst. apply permute_arg_axes. }
        rewrite E1, E2. split; [reflexivity|].
        split; [cbn [length] in L2; rewrite !app_length; cbn [length]; lia|].
        split.
        { unfold ap_is_vectorlike. cbn [shp str]. rewrite Hsh, Hst. apply vectorlike_move. }
        intros c1 c2 k Hc1 Hc2 _. rewrite Hst. apply dot_move; lia.
Qed.

Lemma chunk_content {A} (G : list Z -> A) s D (q : nat) c' :
  pos_shape s -> 1 <= D -> inbox s c' -> q = Z.to_nat (rk s c') ->
  firstn (Z.to_nat D) (skipn (q * Z.to_nat D) (map G (coords (s ++ [D]))))
  = map (fun k => G (c' ++ [k])) (zseq 0 (Z.to_nat D)).
Proof.
  intros Hp HD Hb ->. pose proof (rk_bound s c' Hp Hb) as Hr.
  assert (Hp' : pos_shape (s ++ [D])).
  { apply pos_shape_app. split; [exact Hp|]. constructor; [exact HD|constructor]. }
  assert (Hsz : size (s ++ [D]) = size s * D) by (rewrite size_app; cbn [size]; lia).
  apply nth_error_ext_eq. intro k. destruct (Nat.lt_ge_cases k (Z.to_nat D)) as [Hk|Hk].
  - rewrite nth_error_firstn_lt by exact Hk. rewrite nth_error_skipn_add, !nth_error_map.
    rewrite APProofs.zseq_nth_error by exact Hk. cbn [option_map].
    replace (Z.to_nat (rk s c') * Z.to_nat D + k)%nat with (Z.to_nat (rk s c' * D + Z.of_nat k)) by nia.
    rewrite nth_error_coords by nia. cbn [option_map]. f_equal. f_equal.
    assert (Hb' : inbox (s ++ [D]) (c' ++ [0 + Z.of_nat k])).
    { apply inbox_app; [apply inbox_length; exact Hb|]. split; [exact Hb|]. cbn [inbox]. lia. }
    rewrite <- (unrank_rk _ _ Hp' Hb'). f_equal.
    rewrite rk_app by (apply inbox_length; exact Hb). cbn [size rk]. lia.
  - transitivity (@None A); [|symmetry]; apply nth_error_None.
    + pose proof (firstn_le_length (Z.to_nat D) (skipn (Z.to_nat (rk s c') * Z.to_nat D) (map G (coords (s ++ [D]))))).
      lia.
    + rewrite map_length, APProofs.zseq_length. exact Hk.
Qed.

Lemma match_snoc {A B} (l : list A) x (u v : B) :
  match l ++ [x] with [] => u | _ :: _ => v end = v.
Proof. destruct l; reflexivity. Qed.


Section ArgProofs.
Variable V : Type.
Variable better : V -> V -> bool.

Notation argbest := (argbest V better).
Notation argbest_loop := (argbest_loop V better).
Notation m_argbest := (m_argbest V better).

(* ====================================================================================== *)
(*  A1. argbest: the first index holding an extreme value                                 *)
(* ====================================================================================== *)
(* [first_best d l i]: no element of l is better than l[i], and l[i] is better than every
   earlier element *)
Definition first_best (d : V) (l : list V) (i : Z) : Prop :=
  0 <= i < zlen l /\
  (forall j, 0 <= j < zlen l -> better (nth (Z.to_nat j) l d) (nth (Z.to_nat i) l d) = false) /\
  (forall j, 0 <= j < i -> better (nth (Z.to_nat i) l d) (nth (Z.to_nat j) l d) = true).

Lemma argbest_nil : argbest [] = 0.
Proof. reflexivity. Qed.

(* the loop returns either the running best index or an index of the remaining part *)
Lemma argbest_loop_range : forall r i f best, 0 <= best < i ->
  0 <= argbest_loop r i f best < i + zlen r.
Proof.
  induction r as [|v r IH]; intros i f best Hb; cbn [Reduce.argbest_loop].
  - unfold zlen. cbn [length]. lia.
  - rewrite zlen_cons. destruct (better v f) eqn:E.
    + specialize (IH (i + 1) v i ltac:(lia)). lia.
    + specialize (IH (i + 1) f best ltac:(lia)). lia.
Qed.

Lemma argbest_range l : l <> [] -> 0 <= argbest l < zlen l.
Proof.
  destruct l as [|v r]; [congruence|]. intros _. unfold Reduce.argbest. rewrite zlen_cons.
  pose proof (argbest_loop_range r 1 v 0 ltac:(lia)). lia.
Qed.

(* two indices satisfying the characterisation coincide — no order hypothesis *)
Lemma first_best_unique d l i i' : first_best d l i -> first_best d l i' -> i = i'.
Proof.
  intros (Hi & Hn & Hf) (Hi' & Hn' & Hf').
  destruct (Z.lt_trichotomy i i') as [H|[H|H]]; [|exact H|].
  - specialize (Hf' i ltac:(lia)). specialize (Hn i' ltac:(lia)). congruence.
  - specialize (Hf i' ltac:(lia)). specialize (Hn' i ltac:(lia)). congruence.
Qed.

Section Order.
Hypothesis better_irrefl : forall x, better x x = false.
Hypothesis better_trans : forall x y z, better x y = true -> better y z = true -> better x z = true.
Hypothesis better_negtrans : forall x y z, better x y = false -> better y z = false -> better x z = false.

(* one step of the loop keeps the invariant *)
Lemma first_best_snoc d pre best v :
  first_best d pre best ->
  first_best d (pre ++ [v]) (if better v (nth (Z.to_nat best) pre d) then zlen pre else best).
Proof.
  intros (Hi & Hn & Hf). set (f := nth (Z.to_nat best) pre d).
  assert (Hlen : zlen (pre ++ [v]) = zlen pre + 1) by (rewrite zlen_app; reflexivity).
  assert (Hpre : forall j, 0 <= j < zlen pre -> nth (Z.to_nat j) (pre ++ [v]) d = nth (Z.to_nat j) pre d).
  { intros j Hj. apply app_nth1. unfold zlen in Hj. lia. }
  assert (Hv : nth (Z.to_nat (zlen pre)) (pre ++ [v]) d = v).
  { unfold zlen. rewrite Nat2Z.id. apply nth_app_last. }
  destruct (better v f) eqn:E.
  - split; [lia|]. rewrite Hv. split.
    + intros j Hj. assert (Hc : j < zlen pre \/ j = zlen pre) by lia. destruct Hc as [Hc| ->].
      * rewrite Hpre by lia. specialize (Hn j ltac:(lia)). fold f in Hn.
        destruct (better (nth (Z.to_nat j) pre d) v) eqn:E'; [|reflexivity].
        rewrite (better_trans _ _ _ E' E) in Hn. discriminate.
      * rewrite Hv. apply better_irrefl.
    + intros j Hj. rewrite Hpre by lia. specialize (Hn j ltac:(lia)). fold f in Hn.
      destruct (better v (nth (Z.to_nat j) pre d)) eqn:E'; [reflexivity|].
      rewrite (better_negtrans _ _ _ E' Hn) in E. discriminate.
  - split; [lia|]. rewrite (Hpre best) by lia. fold f. split.
    + intros j Hj. assert (Hc : j < zlen pre \/ j = zlen pre) by lia. destruct Hc as [Hc| ->].
      * rewrite Hpre by lia. apply Hn. lia.
      * rewrite Hv. exact E.
    + intros j Hj. rewrite Hpre by lia. apply Hf. exact Hj.
Qed.

(* the loop invariant, accumulators generalised: [pre] is the part already scanned *)
Lemma argbest_loop_inv d : forall r pre best,
  first_best d pre best ->
  first_best d (pre ++ r) (argbest_loop r (zlen pre) (nth (Z.to_nat best) pre d) best).
Proof.
  induction r as [|v r IH]; intros pre best Hb; cbn [Reduce.argbest_loop].
  - rewrite app_nil_r. exact Hb.
  - pose proof (first_best_snoc d pre best v Hb) as Hs.
    assert (Hlen : zlen pre + 1 = zlen (pre ++ [v])) by (rewrite zlen_app; reflexivity).
    replace (pre ++ v :: r) with ((pre ++ [v]) ++ r) by (rewrite <- app_assoc; reflexivity).
    destruct Hb as (Hi & _).
    destruct (better v (nth (Z.to_nat best) pre d)) eqn:E.
    + specialize (IH (pre ++ [v]) (zlen pre) Hs). rewrite Hlen.
      replace (nth (Z.to_nat (zlen pre)) (pre ++ [v]) d) with v in IH; [exact IH|].
      unfold zlen. rewrite Nat2Z.id. symmetry. apply nth_app_last.
    + specialize (IH (pre ++ [v]) best Hs). rewrite Hlen.
      replace (nth (Z.to_nat best) (pre ++ [v]) d) with (nth (Z.to_nat best) pre d) in IH; [exact IH|].
      symmetry. apply app_nth1. unfold zlen in Hi. lia.
Qed.

Lemma argbest_first_best d l : l <> [] -> first_best d l (argbest l).
Proof.
  destruct l as [|v r]; [congruence|]. intros _. unfold Reduce.argbest.
  assert (H0 : first_best d [v] 0).
  { split; [unfold zlen; cbn [length]; lia|]. split.
    - intros j Hj. unfold zlen in Hj. cbn [length] in Hj. replace j with 0 by lia.
      cbn [Z.to_nat nth]. apply better_irrefl.
    - intros j Hj. lia. }
  exact (argbest_loop_inv d r [v] 0 H0).
Qed.

(* A1 *)
Theorem argbest_first (d : V) l i : l <> [] ->
  (argbest l = i <->
   0 <= i < zlen l /\
   (forall j, 0 <= j < zlen l -> better (nth (Z.to_nat j) l d) (nth (Z.to_nat i) l d) = false) /\
   (forall j, 0 <= j < i -> better (nth (Z.to_nat i) l d) (nth (Z.to_nat j) l d) = true)).
Proof.
  intro Hl. split.
  - intros <-. exact (argbest_first_best d l Hl).
  - intro H. exact (first_best_unique d l _ _ (argbest_first_best d l Hl) H).
Qed.
End Order.

Lemma gather_map {X} σ d (h : X -> Z) (G : X -> V) : forall cs,
  (forall c, In c cs -> win_get V σ d (h c) = Some (G c)) ->
  win_gather V σ d (map h cs) = Some (map G cs).
Proof.
  induction cs as [|c cs IH]; intro H; cbn [map win_gather]; [reflexivity|].
  rewrite (H c) by (left; reflexivity). rewrite IH; [reflexivity|].
  intros c0 Hc0. apply H. right. exact Hc0.
Qed.

Lemma m_argbest_axis_split σ t d (g : list Z -> V) s1 D s2 :
  get_t V σ t = Some d ->
  shp (d_ap d) = s1 ++ D :: s2 -> pos_shape (shp (d_ap d)) ->
  length (str (d_ap d)) = length (shp (d_ap d)) ->
  arg_vec_guard (d_ap d) (zlen s1) ->
  (forall c, inbox (shp (d_ap d)) c -> cell V σ d c = Some (g c)) ->
  exists r, m_argbest σ t (zlen s1) = Ok (s1 ++ s2, r) /\
    length r = Z.to_nat (size (s1 ++ s2)) /\
    forall c', inbox (s1 ++ s2) c' ->
      nth (Z.to_nat (rank_rm (s1 ++ s2) c')) r 0
      = argbest (map (fun k => g (insert_at (length s1) k c')) (zseq 0 (Z.to_nat D))).
Proof.
  intros Hget Hsh Hp Hl Hg Hcell. set (a := d_ap d) in *.
  assert (Hlsh : length (shp a) = (length s1 + S (length s2))%nat).
  { rewrite Hsh, app_length. reflexivity. }
  (* the strides split alike *)
  assert (Hst : exists t1 T t2, str a = t1 ++ T :: t2 /\ length t1 = length s1 /\ length t2 = length s2).
  { exists (firstn (length s1) (str a)), (nth (length s1) (str a) 0), (skipn (S (length s1)) (str a)).
    split; [apply split_at; lia|]. rewrite firstn_length, skipn_length. lia. }
  destruct Hst as (t1 & T & t2 & Hst & L1 & L2).
  destruct (arg_ap_case a s1 D s2 t1 T t2 Hsh Hst L1 L2 Hg) as (a' & HT & Hsh' & Hl' & Hvl & Hdot).
  assert (Hp' : pos_shape (shp a')) by (rewrite Hsh'; apply pos_shape_move; rewrite <- Hsh; exact Hp).
  assert (Hsz : size (shp a') = size (shp a)) by (rewrite Hsh', Hsh; apply size_move).
  assert (Hlen' : length (shp a') = length (shp a)).
  { rewrite Hsh', Hlsh, !app_length. cbn [length]. lia. }
  assert (Hne : shp a <> []) by (rewrite Hsh; destruct s1; discriminate).
  destruct (hybrid_run a a' Hp' Hl' Hlen' Hsz Hne Hvl) as (itf & Hrun). cbv zeta in Hrun.
  (* every offset of the transposed pattern is the offset of the coordinate with the last
     component moved back *)
  assert (Hmv : forall c, inbox (shp a') c ->
            inbox (shp a) (mv (length s1) c) /\ dot (str a') c = dot (str a) (mv (length s1) c)).
  { intros c Hc. rewrite Hsh' in Hc. destruct (inbox_move_inv _ _ _ _ Hc) as (c1 & c2 & k & -> & Hc1 & Hc2).
    rewrite <- Hc1, mv_app. split.
    - rewrite Hsh. apply inbox_move; assumption.
    - apply Hdot; assumption. }
  assert (Hgather : win_gather V σ d (offsets a')
                    = Some (map (fun c => g (mv (length s1) c)) (coords (shp a')))).
  { unfold offsets. apply gather_map. intros c Hc. apply coords_In in Hc; [|exact Hp'].
    destruct (Hmv c Hc) as [Hb ->]. exact (Hcell _ Hb). }
  assert (HD : 1 <= D).
  { rewrite Hsh in Hp. apply pos_shape_app in Hp as [_ Hp]. inversion Hp; assumption. }
  assert (Hp12 : pos_shape (s1 ++ s2)).
  { rewrite Hsh in Hp. apply pos_shape_app in Hp as [H1 Hp]. inversion Hp; subst.
    apply pos_shape_app. split; assumption. }
  pose proof (size_pos _ Hp12) as Hsz12.
  (* run the model *)
  unfold Reduce.m_argbest. rewrite Hget. cbv zeta. fold a.
  assert (Hdims : zlen (shp a) = zlen s1 + 1 + zlen s2).
  { unfold zlen. rewrite Hlsh. lia. }
  pose proof (zlen_nonneg s1) as Hz1. pose proof (zlen_nonneg s2) as Hz2.
  replace (zlen (shp a) <=? zlen s1) with false by lia.
  replace (zlen s1 =? -1) with false by lia.
  replace (zlen s1 <? 0) with false by lia.
  rewrite HT. cbv beta iota.
  rewrite Hrun. cbv beta iota. cbn [negb].
  rewrite Hgather. cbv beta iota.
  rewrite Hsh', app_assoc, match_snoc, last_last, removelast_last.
  replace (D <=? 0) with false by lia.
  set (G := fun c => g (mv (length s1) c)).
  set (vals := map G (coords ((s1 ++ s2) ++ [D]))).
  set (M := Z.to_nat (size (s1 ++ s2))). set (Dn := Z.to_nat D).
  assert (Hvl' : length vals = (M * Dn)%nat).
  { subst vals. rewrite map_length, coords_length, size_app. cbn [size]. subst M Dn. nia. }
  rewrite (chunks_spec Dn ltac:(lia) M (S (length vals)) vals Hvl' ltac:(nia)).
  rewrite map_map.
  exists (map (fun i => argbest (firstn Dn (skipn (i * Dn) vals))) (seq 0 M)).
  assert (Hrl : length (map (fun i => argbest (firstn Dn (skipn (i * Dn) vals))) (seq 0 M)) = M).
  { rewrite map_length, seq_length. reflexivity. }
  split; [|split; [exact Hrl|]].
  - unfold zlen at 1 2. rewrite Hrl.
    replace (Z.of_nat M =? size (s1 ++ s2)) with true by lia. cbn [negb andb].
    destruct (is_scalar (s1 ++ s2)) eqn:Es; [|reflexivity].
    destruct (s1 ++ s2); [|discriminate]. cbn [size] in *.
    replace (Z.of_nat M =? 1) with true by lia. reflexivity.
  - intros c' Hc'. pose proof (rk_bound _ _ Hp12 Hc') as Hr.
    rewrite rank_rm_rk by (apply inbox_length; exact Hc').
    rewrite (nth_map_lt _ 0%nat) by (rewrite seq_length; lia).
    rewrite seq_nth by lia. cbn [Nat.add]. f_equal.
    subst vals Dn. rewrite (chunk_content G (s1 ++ s2) D _ c' Hp12 HD Hc' eq_refl).
    apply map_ext. intro k. subst G. cbv beta. rewrite mv_snoc. reflexivity.
Qed.


(* ====================================================================================== *)
(*  A3. arg-reduction along an axis                                                       *)
(* ====================================================================================== *)
(* general form: only the shape facts of well-formedness are used (the cells being readable
   is part of the hypothesis on g) *)
Theorem m_argbest_axis_gen σ t d axis (g : list Z -> V) :
  get_t V σ t = Some d ->
  pos_shape (shp (d_ap d)) -> length (str (d_ap d)) = length (shp (d_ap d)) ->
  0 <= axis < zlen (shp (d_ap d)) ->
  arg_vec_guard (d_ap d) axis ->
  (forall c, inbox (shp (d_ap d)) c -> cell V σ d c = Some (g c)) ->
  let sh := shp (d_ap d) in
  let ax := Z.to_nat axis in
  exists r, m_argbest σ t axis = Ok (remove_nth ax sh, r) /\
    length r = Z.to_nat (size (remove_nth ax sh)) /\
    forall c', inbox (remove_nth ax sh) c' ->
      nth (Z.to_nat (rank_rm (remove_nth ax sh) c')) r 0
      = argbest (map (fun k => g (insert_at ax k c')) (zseq 0 (Z.to_nat (nth ax sh 0)))).
Proof.
  intros Hget Hp Hl Hax Hg Hcell sh ax.
  assert (Hlt : (ax < length sh)%nat) by (subst ax sh; unfold zlen in Hax; lia).
  assert (Hs : exists s1 D s2, sh = s1 ++ D :: s2 /\ length s1 = ax /\ nth ax sh 0 = D).
  { exists (firstn ax sh), (nth ax sh 0), (skipn (S ax) sh).
    split; [apply split_at; exact Hlt|]. split; [rewrite firstn_length; lia|reflexivity]. }
  destruct Hs as (s1 & D & s2 & Hsh & L1 & HD). rewrite HD.
  assert (Haxis : axis = zlen s1) by (unfold zlen; lia).
  assert (Hrm : remove_nth ax sh = s1 ++ s2) by (rewrite Hsh, <- L1; apply remove_nth_app).
  rewrite Hrm, Haxis, <- L1. subst sh.
  apply (m_argbest_axis_split σ t d g s1 D s2); try assumption. rewrite <- Haxis. exact Hg.
Qed.


(* the same result, written out: the index tensor is the row-major list of the lane results *)
Corollary m_argbest_axis_explicit σ t d axis (g : list Z -> V) :
  get_t V σ t = Some d ->
  pos_shape (shp (d_ap d)) -> length (str (d_ap d)) = length (shp (d_ap d)) ->
  0 <= axis < zlen (shp (d_ap d)) ->
  arg_vec_guard (d_ap d) axis ->
  (forall c, inbox (shp (d_ap d)) c -> cell V σ d c = Some (g c)) ->
  let sh := shp (d_ap d) in
  let ax := Z.to_nat axis in
  m_argbest σ t axis
  = Ok (remove_nth ax sh,
        map (fun c' => argbest (map (fun k => g (insert_at ax k c')) (zseq 0 (Z.to_nat (nth ax sh 0)))))
            (coords (remove_nth ax sh))).
Proof.
  intros Hget Hp Hl Hax Hg Hcell sh ax.
  destruct (m_argbest_axis_gen σ t d axis g Hget Hp Hl Hax Hg Hcell) as (r & E & Hlen & Hnth).
  fold sh ax in E, Hlen, Hnth. rewrite E. f_equal. f_equal.
  pose proof (pos_shape_remove_nth ax sh Hp) as Hp'. set (ns := remove_nth ax sh) in *.
  apply (nth_ext _ _ 0 0); [rewrite map_length, coords_length; exact Hlen|].
  intros n Hn. rewrite Hlen in Hn.
  assert (Hk : 0 <= Z.of_nat n < size ns) by lia.
  pose proof (unrank_inbox ns _ Hp' Hk) as Hb. specialize (Hnth _ Hb).
  rewrite (rank_unrank ns _ Hp' Hk), Nat2Z.id in Hnth. rewrite Hnth.
  rewrite (nth_map_lt _ (@nil Z)) by (rewrite coords_length; lia).
  pose proof (nth_error_coords ns _ Hk) as Hc. rewrite Nat2Z.id in Hc.
  rewrite (nth_error_nth _ _ _ Hc). reflexivity.
Qed.

(* A3, as requested: a well-formed tensor *)
Theorem m_argbest_axis σ t d axis (g : list Z -> V) :
  get_t V σ t = Some d -> wf_dense V σ d ->
  0 <= axis < zlen (shp (d_ap d)) ->
  arg_vec_guard (d_ap d) axis ->
  (forall c, inbox (shp (d_ap d)) c -> cell V σ d c = Some (g c)) ->
  let sh := shp (d_ap d) in
  let ax := Z.to_nat axis in
  exists r, m_argbest σ t axis = Ok (remove_nth ax sh, r) /\
    length r = Z.to_nat (size (remove_nth ax sh)) /\
    forall c', inbox (remove_nth ax sh) c' ->
      nth (Z.to_nat (rank_rm (remove_nth ax sh) c')) r 0
      = argbest (map (fun k => g (insert_at ax k c')) (zseq 0 (Z.to_nat (nth ax sh 0)))).
Proof.
  intros Hget (_ & (Hp & Hl & _) & _). apply m_argbest_axis_gen; assumption.
Qed.

(* the guard holds for everything that is not a 2-D row/column vector reduced along axis 0,
   and for contiguous row-major vectors *)
Lemma arg_vec_guard_nonvector a axis : ap_is_vector a = false -> arg_vec_guard a axis.
Proof. intro H. left. exact H. Qed.

Lemma arg_vec_guard_last a : arg_vec_guard a (zlen (shp a) - 1).
Proof. right. left. reflexivity. Qed.

Lemma arg_vec_guard_contig a axis : str a = calc_strides (shp a) -> arg_vec_guard a axis.
Proof.
  intro Hst. destruct (ap_is_vector a) eqn:Hv; [|left; exact Hv]. right. right.
  intros c Hc. rewrite Hst. unfold ap_is_vector in Hv. pose proof (is_vector_length _ Hv) as Hl2.
  destruct (shp a) as [|s0 [|s1 [|? ?]]]; cbn [length] in Hl2; try lia.
  - discriminate Hv.
  - destruct c as [|c0 [|? ?]]; cbn [inbox] in Hc; try tauto. cbn [calc_strides size dot sumz]. lia.
  - destruct c as [|c0 [|c1 [|? ?]]]; cbn [inbox] in Hc; try tauto.
    unfold is_vector, is_colvec, is_rowvec in Hv. cbn [length Nat.eqb] in Hv.
    cbn [calc_strides size dot sumz]. destruct Hc as (H0 & H1 & _).
    assert (Hcase : (s1 = 1 /\ 1 < s0) \/ (s0 = 1 /\ 1 < s1)) by (clear - Hv; lia).
    destruct Hcase as [[-> _]|[-> _]]; [lia|]. assert (c0 = 0) by lia. subst c0. lia.
Qed.

Corollary m_argbest_axis_contig σ t d axis (g : list Z -> V) :
  get_t V σ t = Some d -> wf_dense V σ d ->
  0 <= axis < zlen (shp (d_ap d)) ->
  str (d_ap d) = calc_strides (shp (d_ap d)) ->
  (forall c, inbox (shp (d_ap d)) c -> cell V σ d c = Some (g c)) ->
  let sh := shp (d_ap d) in
  let ax := Z.to_nat axis in
  exists r, m_argbest σ t axis = Ok (remove_nth ax sh, r) /\
    length r = Z.to_nat (size (remove_nth ax sh)) /\
    forall c', inbox (remove_nth ax sh) c' ->
      nth (Z.to_nat (rank_rm (remove_nth ax sh) c')) r 0
      = argbest (map (fun k => g (insert_at ax k c')) (zseq 0 (Z.to_nat (nth ax sh 0)))).
Proof.
  intros Hget Hwf Hax Hst. apply m_argbest_axis; try assumption. apply arg_vec_guard_contig. exact Hst.
Qed.

(* ====================================================================================== *)
(*  A2. the flat arg-reduction is over the RAW window                                     *)
(* ====================================================================================== *)
Theorem m_argbest_flat σ t d : get_t V σ t = Some d ->
  m_argbest σ t (-1) = Ok ([], [argbest (window V σ d)]).
Proof.
  intro Hget. unfold Reduce.m_argbest. rewrite Hget. cbv zeta.
  pose proof (zlen_nonneg (shp (d_ap d))) as Hz.
  replace (zlen (shp (d_ap d)) <=? -1) with false by lia. reflexivity.
Qed.

(* ====================================================================================== *)
(*  A4. refusals                                                                          *)
(* ====================================================================================== *)
Lemma m_argbest_no_tensor σ t axis : get_t V σ t = None -> m_argbest σ t axis = Panic.
Proof. intro H. unfold Reduce.m_argbest. rewrite H. reflexivity. Qed.

(* axis >= dims: the error return (checked first, so it also wins over everything else) *)
Lemma m_argbest_axis_too_large σ t d axis : get_t V σ t = Some d ->
  zlen (shp (d_ap d)) <= axis -> m_argbest σ t axis = Err.
Proof.
  intros Hget Hax. unfold Reduce.m_argbest. rewrite Hget. cbv zeta.
  replace (zlen (shp (d_ap d)) <=? axis) with true by lia. reflexivity.
Qed.

(* axis < -1: axes[] is indexed out of range, a Go panic *)
Lemma m_argbest_axis_negative σ t d axis : get_t V σ t = Some d ->
  axis < -1 -> m_argbest σ t axis = Panic.
Proof.
  intros Hget Hax. unfold Reduce.m_argbest. rewrite Hget. cbv zeta.
  pose proof (zlen_nonneg (shp (d_ap d))) as Hz.
  replace (zlen (shp (d_ap d)) <=? axis) with false by lia.
  replace (axis =? -1) with false by lia. replace (axis <? 0) with true by lia. reflexivity.
Qed.
End ArgProofs.


Print Assumptions argbest_first.
Print Assumptions argbest_range.
Print Assumptions m_argbest_flat.
Print Assumptions m_argbest_axis_gen.
Print Assumptions m_argbest_axis.
Print Assumptions m_argbest_axis_explicit.
Print Assumptions m_argbest_axis_contig.
Print Assumptions m_argbest_axis_too_large.
Print Assumptions m_argbest_axis_negative.

(* ====================================================================================== *)
(*  the order hypotheses of A1 are each needed                                            *)
(* ====================================================================================== *)
(* without irreflexivity: "always better" is transitive and negatively transitive; the loop
   answers the last index, which does not satisfy the characterisation *)
Example argbest_irrefl_guard_needed :
  let b := fun _ _ : Z => true in
  (forall x y z, b x y = true -> b y z = true -> b x z = true) /\
  (forall x y z, b x y = false -> b y z = false -> b x z = false) /\
  argbest Z b [0; 0] = 1 /\
  b (nth 1 [0; 0] 0) (nth 1 [0; 0] 0) = true (* an element is better than the answer *).
Proof. cbv zeta. repeat split; auto; discriminate. Qed.

(* without transitivity: "different" is irreflexive and negatively transitive *)
Example argbest_trans_guard_needed :
  let b := fun x y : Z => negb (x =? y) in
  (forall x, b x x = false) /\
  (forall x y z, b x y = false -> b y z = false -> b x z = false) /\
  argbest Z b [0; 1] = 1 /\
  b (nth 0 [0; 1] 0) (nth 1 [0; 1] 0) = true (* element 0 is better than the answer *).
Proof. cbv zeta. repeat split; try reflexivity; intros; lia. Qed.

(* without negative transitivity: "greater by more than one" is a strict partial order *)
Example argbest_negtrans_guard_needed :
  let b := fun x y : Z => y + 1 <? x in
  (forall x, b x x = false) /\
  (forall x y z, b x y = true -> b y z = true -> b x z = true) /\
  argbest Z b [0; 1; 2] = 2 /\
  b (nth 2 [0; 1; 2] 0) (nth 1 [0; 1; 2] 0) = false (* the earlier element 1 is not worse *).
Proof. cbv zeta. repeat split; try reflexivity; intros; lia. Qed.

(* ====================================================================================== *)
(*  A2: the flat arg-reduction of a view is NOT the arg-reduction of its elements         *)
(* ====================================================================================== *)
Example m_argbest_flat_view_refuted :
  let d := mkDense 0 0 6 (mkAP [2; 2] [3; 2] NC true) None true in
  let σ := mkStore Z [[1; 9; 3; 4; 5; 6]] [d] in
  map (cell Z σ d) (coords [2; 2]) = [Some 1; Some 3; Some 4; Some 6] /\
  m_argbest Z Z.gtb σ 0 (-1) = Ok ([], [1]) (* the 9 at raw index 1, not an element of the view *) /\
  argbest Z Z.gtb [1; 3; 4; 6] = 3 (* argmax of the logical array *).
Proof. vm_compute. repeat split. Qed.

(* ====================================================================================== *)
(*  A3: the vector guard is needed                                                        *)
(* ====================================================================================== *)
(* a strided column-vector view: logical elements at raw cells 0, 4, 8; AP.T replaces the
   strides by [1;1], so argmax along axis 0 reads the raw cells 0, 1, 2 *)
Example m_argbest_vector_guard_needed :
  let d := mkDense 0 0 9 (mkAP [3; 1] [4; 1] NC true) None true in
  let σ := mkStore Z [[5; 100; 0; 0; 6; 0; 0; 0; 7]] [d] in
  wf_dense Z σ d /\
  ~ arg_vec_guard (d_ap d) 0 /\
  map (cell Z σ d) (coords [3; 1]) = [Some 5; Some 6; Some 7] /\
  m_argbest Z Z.gtb σ 0 0 = Ok ([1], [1]) (* the decoy 100 at raw index 1 *) /\
  argbest Z Z.gtb [5; 6; 7] = 2 (* argmax of the logical column *).
Proof.
  cbv zeta. split; [|split; [|vm_compute; repeat split]].
  - split; [|split].
    + unfold wf_win. vm_compute. repeat split; discriminate.
    + unfold wf_ap. cbn [d_ap d_len shp str]. split; [repeat constructor; lia|].
      split; [reflexivity|]. split; [repeat constructor; lia|]. split.
      * intros [|x [|y [|? ?]]] H; cbn [inbox] in H; try tauto. cbn [dot]. lia.
      * intros [|x [|y [|? ?]]] [|x' [|y' [|? ?]]] H H'; cbn [inbox] in H, H'; try tauto.
        cbn [dot]. intro E. assert (x = x') by lia. assert (y = y') by lia. subst. reflexivity.
    + intros o Ho. discriminate Ho.
  - intros [H|[H|H]].
    + vm_compute in H. discriminate H.
    + vm_compute in H. discriminate H.
    + specialize (H [1; 0]). cbn [d_ap shp str inbox dot sumz] in H.
      assert (E : 4 * 1 + (1 * 0 + 0) = 1 + (0 + 0)) by (apply H; lia). lia.
Qed.

(* ... and a contiguous column vector is handled correctly (AP.T's [1;1] are its strides) *)
Example m_argbest_colvec_contig :
  let d := mkDense 0 0 3 (mkAP [3; 1] [1; 1] 0 true) None false in
  let σ := mkStore Z [[5; 7; 6]] [d] in
  m_argbest Z Z.gtb σ 0 0 = Ok ([1], [1]) /\ m_argbest Z Z.gtb σ 0 1 = Ok ([3], [0; 0; 0]).
Proof. vm_compute. repeat split. Qed.

(* ====================================================================================== *)
(*  R6 (end) — the flat arg-reduction on a contiguous tensor is over the whole logical array *)
(* ====================================================================================== *)
Corollary m_argbest_flat_contig {V} (better : V -> V -> bool) σ t d g :
  get_t V σ t = Some d -> wf_dense V σ d -> contig d -> content σ d g ->
  m_argbest V better σ t (-1) = Ok ([], [argbest V better (map g (coords (shp (d_ap d))))]).
Proof.
  intros Ht W Hc Hg. rewrite (m_argbest_flat V better σ t d Ht).
  rewrite (window_contig V σ d g W Hc Hg). reflexivity.
Qed.

(* ====================================================================================== *)
(*  Bridge to the SPEC layer (Spec.spec_reduce_vals), one axis                              *)
(* ====================================================================================== *)
(* insert_coord's local loop, as a top-level function *)
Fixpoint ic_go (axes : list Z) (i : Z) (n : nat) (outer inner : list Z) : list Z :=
  match n with
  | O => []
  | S n' =>
    if existsb (Z.eqb i) axes then
      match inner with x :: inner' => x :: ic_go axes (i + 1) n' outer inner' | [] => 0 :: ic_go axes (i + 1) n' outer [] end
    else
      match outer with x :: outer' => x :: ic_go axes (i + 1) n' outer' inner | [] => 0 :: ic_go axes (i + 1) n' [] inner end
  end.

Lemma insert_coord_go axes outer inner :
  insert_coord axes outer inner = ic_go axes 0 (length outer + length inner) outer inner.
Proof.
  unfold insert_coord.
  match goal with |- ?f 0 ?len outer inner = _ =>
    assert (G : forall m i o inn, f i m o inn = ic_go axes i m o inn) end.
  { induction m as [|m IH]; intros i o inn; [reflexivity|]. cbn [ic_go]. simpl.
    destruct (existsb (Z.eqb i) axes).
    - destruct inn as [|y inn']; f_equal; apply IH.
    - destruct o as [|y o']; f_equal; apply IH. }
  apply G.
Qed.

Lemma ic_go_rest a : forall c2 i, a < i -> ic_go [a] i (length c2) c2 [] = c2.
Proof.
  induction c2 as [|x c2 IH]; intros i Hi; cbn [length ic_go]; [reflexivity|].
  cbn [existsb]. replace (i =? a) with false by lia. cbn [orb]. f_equal. apply IH. lia.
Qed.

Lemma ic_go_single : forall c1 c2 k i,
  ic_go [i + zlen c1] i (length (c1 ++ c2) + 1) (c1 ++ c2) [k] = c1 ++ k :: c2.
Proof.
  induction c1 as [|x c1 IH]; intros c2 k i.
  - cbn [app]. replace (length c2 + 1)%nat with (S (length c2)) by lia. cbn [ic_go existsb].
    replace (i =? i + zlen (@nil Z)) with true by (unfold zlen; cbn [length]; lia). cbn [orb].
    f_equal. apply ic_go_rest. unfold zlen. cbn [length]. lia.
  - cbn [app length]. replace (S (length (c1 ++ c2)) + 1)%nat with (S (length (c1 ++ c2) + 1)) by lia.
    cbn [ic_go existsb]. rewrite zlen_cons. replace (i =? i + (1 + zlen c1)) with false by (pose proof (zlen_nonneg c1); lia).
    cbn [orb]. f_equal. replace (i + (1 + zlen c1)) with (i + 1 + zlen c1) by lia. apply IH.
Qed.

Lemma insert_coord_single c1 c2 k : insert_coord [zlen c1] (c1 ++ c2) [k] = insert_at (length c1) k (c1 ++ c2).
Proof.
  rewrite insert_coord_go, insert_at_app. cbn [length].
  pose proof (ic_go_single c1 c2 k 0) as H. replace (0 + zlen c1) with (zlen c1) in H by lia. exact H.
Qed.

Lemma zseq_app : forall n m a, zseq a (n + m) = zseq a n ++ zseq (a + Z.of_nat n) m.
Proof.
  induction n as [|n IH]; intros m a; cbn [Nat.add zseq app].
  - replace (a + Z.of_nat 0) with a by lia. reflexivity.
  - f_equal. rewrite IH. do 2 f_equal. lia.
Qed.

Lemma coords_1d D : coords [D] = map (fun k => [k]) (zseq 0 (Z.to_nat D)).
Proof.
  unfold coords. cbn [size]. rewrite Z.mul_1_r. apply map_ext. intro k. cbn [unrank size].
  rewrite Z.div_1_r. reflexivity.
Qed.

Section SpecBridge.
Variable V : Type.
Variable vzero : V.
Variable op : V -> V -> V.
Variable from_zero : bool.

(* the SPEC's fold of a lane: from zero for Sum, from the first element otherwise *)
Definition sfold (vs : list V) : option V :=
  if from_zero then Some (fold_left op vs vzero)
  else match vs with [] => None | v :: r => Some (fold_left op r v) end.

Lemma sfold_fold1 vs : vs <> [] -> sfold vs = Some (fold1 vzero op from_zero vs).
Proof. unfold sfold, fold1, fold_hd. destruct from_zero; [reflexivity|]. destruct vs; [congruence|reflexivity]. Qed.

(* SPEC, one axis: shape with the axis removed; entry c' is the fold of the lane through c' *)
Theorem spec_reduce_single ς x l1 D l2 : s_shape x = l1 ++ D :: l2 -> pos_shape (l1 ++ D :: l2) ->
  let sh := l1 ++ D :: l2 in
  let val := fun c => nth (nth (Z.to_nat (rank_rm sh c)) (s_cells x) O) (s_vals V ς) vzero in
  spec_reduce_vals V vzero op from_zero ς x [zlen l1]
  = (l1 ++ l2, map (fun c' => sfold (lane_of val sh (length l1) c')) (coords (l1 ++ l2))).
Proof.
  intros Hsh Hp sh val. unfold spec_reduce_vals. rewrite Hsh. fold sh.
  assert (Hn : length sh = (length l1 + S (length l2))%nat) by (unfold sh; rewrite app_length; reflexivity).
  rewrite Hn.
  assert (Hf1 : filter (fun i => negb (existsb (Z.eqb i) [zlen l1])) (zseq 0 (length l1 + S (length l2)))
                = zseq 0 (length l1) ++ zseq (zlen l1 + 1) (length l2)).
  { pose proof (filter_neq_zseq (length l1) (length l2) 0) as H.
    replace (0 + Z.of_nat (length l1) + 1) with (zlen l1 + 1) in H by (unfold zlen; lia).
    rewrite <- H. apply filter_ext. intro i. cbn [existsb].
    rewrite orb_false_r. unfold zlen. replace (0 + Z.of_nat (length l1)) with (Z.of_nat (length l1)) by lia. reflexivity. }
  assert (Hf2 : filter (fun i => existsb (Z.eqb i) [zlen l1]) (zseq 0 (length l1 + S (length l2))) = [zlen l1]).
  { replace (length l1 + S (length l2))%nat with (length l1 + (1 + length l2))%nat by lia.
    assert (G : forall n a, (forall x, In x (zseq a n) -> x <> zlen l1) ->
                filter (fun i => existsb (Z.eqb i) [zlen l1]) (zseq a n) = []).
    { induction n as [|n IHn]; intros a Ha; [reflexivity|]. cbn [zseq filter existsb].
      replace (a =? zlen l1) with false by (specialize (Ha a ltac:(left; reflexivity)); lia). cbn [orb].
      apply IHn. intros y Hy. apply Ha. right. exact Hy. }
    assert (Hs : zseq 0 (length l1 + (1 + length l2)) = zseq 0 (length l1) ++ zlen l1 :: zseq (zlen l1 + 1) (length l2)).
    { rewrite zseq_app. cbn [Nat.add zseq]. unfold zlen. replace (0 + Z.of_nat (length l1)) with (Z.of_nat (length l1)) by lia.
      reflexivity. }
    rewrite Hs, filter_app. cbn [filter existsb]. rewrite Z.eqb_refl. cbn [orb].
    rewrite !G; [reflexivity| |]; intros y Hy; apply APProofs.zseq_In in Hy; unfold zlen in *; lia. }
  rewrite Hf1, Hf2. cbn [map].
  assert (Houter : map (fun i => znth 0 sh i) (zseq 0 (length l1) ++ zseq (zlen l1 + 1) (length l2)) = l1 ++ l2).
  { rewrite map_app. f_equal.
    - pose proof (map_znth_zseq 0 [] l1 (D :: l2)) as H. cbn [app] in H. exact H.
    - pose proof (map_znth_zseq 0 (l1 ++ [D]) l2 []) as H. rewrite app_nil_r, <- app_assoc in H.
      cbn [app] in H. rewrite zlen_app in H. unfold zlen at 2 in H. cbn [length] in H. exact H. }
  rewrite Houter.
  assert (HD : znth 0 sh (zlen l1) = D).
  { unfold sh. rewrite znth_nth by (unfold zlen; lia). unfold zlen. rewrite Nat2Z.id. apply nth_middle. }
  rewrite HD. f_equal.
  apply pos_shape_app in Hp as [Hp1 Hp2]. pose proof (Forall_inv_tail Hp2) as Hp2'.
  assert (Hp12 : pos_shape (l1 ++ l2)) by (apply pos_shape_app; split; assumption).
  apply map_ext_in. intros oc Hoc. apply (coords_In _ _ Hp12) in Hoc.
  destruct (inbox_app_inv l1 l2 oc Hoc) as (c1 & c2 & -> & Hl1 & _ & _).
  rewrite coords_1d, map_map. unfold sfold, lane_of.
  replace (nth (length l1) sh 0) with D by (unfold sh; symmetry; apply nth_middle).
  assert (Hm : forall k, insert_coord [zlen l1] (c1 ++ c2) [k] = insert_at (length l1) k (c1 ++ c2)).
  { intro k. replace (zlen l1) with (zlen c1) by (unfold zlen; lia). rewrite <- Hl1. apply insert_coord_single. }
  match goal with |- context [map ?f (zseq 0 (Z.to_nat D))] =>
    match f with context [insert_coord] =>
      rewrite (map_ext f (fun k => val (insert_at (length l1) k (c1 ++ c2))))
        by (intro k; unfold val; rewrite Hm; reflexivity)
    end
  end.
  reflexivity.
Qed.

(* MODEL = SPEC for one axis: under the left-unit hypothesis (Sum; vacuous for Min/Max) the values
   m_reduce returns are the SPEC's, entry by entry, for any abstract tensor x whose cells hold the
   operand's logical content *)
Theorem m_reduce_single_axis_spec σ t d0 axis g ς x :
  let sh := shp (d_ap d0) in
  let a := Z.to_nat axis in
  (from_zero = true -> forall v, op vzero v = v) ->
  get_t V σ t = Some d0 -> rwf σ d0 -> content σ d0 g ->
  (is_materializable d0 = false -> requires_iterator d0 = false /\ is_cm (ord (d_ap d0)) = false) ->
  (2 <= length sh)%nat -> 0 <= axis < zlen sh -> default_ok sh a ->
  s_shape x = sh ->
  (forall c, inbox sh c -> nth (nth (Z.to_nat (rank_rm sh c)) (s_cells x) O) (s_vals V ς) vzero = g c) ->
  exists r, m_reduce V vzero op from_zero σ t [axis] = (Ok (remove_nth a sh, r), [axis]) /\
    spec_reduce_vals V vzero op from_zero ς x [axis] = (remove_nth a sh, map Some r).
Proof.
  intros sh a Hz Ht Hr Hg Hnm Hrank Hax Hgd Hx Hval. pose proof Hr as ((_ & (Hp & _) & _) & _). fold sh in Hp.
  rewrite (m_reduce_single_axis_explicit V vzero op from_zero σ t d0 axis g Ht Hr Hg Hnm Hrank Hax Hgd).
  fold sh a. eexists. split; [reflexivity|].
  assert (Ha : (a < length sh)%nat) by (unfold a, zlen in *; lia).
  pose proof (split_at 0 a sh Ha) as Hsplit.
  set (l1 := firstn a sh) in *. set (D := nth a sh 0) in *. set (l2 := skipn (S a) sh) in *.
  assert (Hl1 : length l1 = a) by (unfold l1; rewrite firstn_length; lia).
  assert (Hax' : axis = zlen l1) by (unfold zlen; lia).
  assert (Hrm : remove_nth a sh = l1 ++ l2) by (rewrite Hsplit at 1; rewrite <- Hl1; apply remove_nth_app).
  rewrite Hax'. rewrite (spec_reduce_single ς x l1 D l2) by (rewrite <- Hsplit; assumption).
  rewrite <- Hsplit, Hrm, Hl1. f_equal. rewrite map_map.
  assert (Hp' : pos_shape (l1 ++ l2)) by (rewrite <- Hrm; apply pos_shape_remove_nth; exact Hp).
  apply map_ext_in. intros c' Hc. apply (coords_In _ _ Hp') in Hc. rewrite <- Hrm in Hc.
  assert (Hlane : lane_of (fun c => nth (nth (Z.to_nat (rank_rm sh c)) (s_cells x) O) (s_vals V ς) vzero) sh a c'
                  = lane_of g sh a c') by (apply lane_ext; assumption).
  rewrite Hlane.
  assert (Hne : lane_of g sh a c' <> []).
  { unfold lane_of. assert (HD : 1 <= nth a sh 0).
    { unfold pos_shape in Hp. rewrite Forall_forall in Hp. apply Hp. apply nth_In. exact Ha. }
    destruct (Z.to_nat (nth a sh 0)) as [|n] eqn:En; [lia|]. cbn [zseq map]. discriminate. }
  rewrite (sfold_fold1 _ Hne). f_equal. unfold kfold.
  destruct (negb (a =? 0)%nat && (S a =? length sh)%nat); [reflexivity|].
  apply fold1_hd; assumption.
Qed.

End SpecBridge.

(* ====================================================================================== *)
(*  Bridge to the SPEC layer (Spec.spec_arg_vals)                                          *)
(* ====================================================================================== *)
Section SpecArgBridge.
Variable V : Type.
Variable vzero : V.
Variable better : V -> V -> bool.

Lemma spec_arg_fold : forall r f i best,
  snd (fold_left (fun (acc : V * Z * Z) y =>
                    let '(b, i, bi) := acc in
                    if better y b then (y, i + 1, i) else (b, i + 1, bi)) r (f, i, best))
  = argbest_loop V better r i f best.
Proof.
  induction r as [|v r IH]; intros f i best; cbn [fold_left argbest_loop]; [reflexivity|].
  destruct (better v f); apply IH.
Qed.

Theorem spec_arg_single ς x l1 D l2 : s_shape x = l1 ++ D :: l2 -> pos_shape (l1 ++ D :: l2) ->
  let sh := l1 ++ D :: l2 in
  let val := fun c => nth (nth (Z.to_nat (rank_rm sh c)) (s_cells x) O) (s_vals V ς) vzero in
  spec_arg_vals V vzero better ς x (zlen l1)
  = (l1 ++ l2, map (fun c' => argbest V better (lane_of val sh (length l1) c')) (coords (l1 ++ l2))).
Proof.
  intros Hsh Hp sh val. unfold spec_arg_vals. rewrite Hsh. fold sh.
  assert (Hn : length sh = (length l1 + S (length l2))%nat) by (unfold sh; rewrite app_length; reflexivity).
  rewrite Hn.
  assert (Hf1 : filter (fun i => negb (i =? zlen l1)) (zseq 0 (length l1 + S (length l2)))
                = zseq 0 (length l1) ++ zseq (zlen l1 + 1) (length l2)).
  { pose proof (filter_neq_zseq (length l1) (length l2) 0) as H.
    replace (0 + Z.of_nat (length l1) + 1) with (zlen l1 + 1) in H by (unfold zlen; lia).
    rewrite <- H. apply filter_ext. intro i. unfold zlen.
    replace (0 + Z.of_nat (length l1)) with (Z.of_nat (length l1)) by lia. reflexivity. }
  rewrite Hf1.
  assert (Houter : map (fun i => znth 0 sh i) (zseq 0 (length l1) ++ zseq (zlen l1 + 1) (length l2)) = l1 ++ l2).
  { rewrite map_app. f_equal.
    - pose proof (map_znth_zseq 0 [] l1 (D :: l2)) as H. cbn [app] in H. exact H.
    - pose proof (map_znth_zseq 0 (l1 ++ [D]) l2 []) as H. rewrite app_nil_r, <- app_assoc in H.
      cbn [app] in H. rewrite zlen_app in H. unfold zlen at 2 in H. cbn [length] in H. exact H. }
  rewrite Houter.
  assert (HD : znth 0 sh (zlen l1) = D).
  { unfold sh. rewrite znth_nth by (unfold zlen; lia). unfold zlen. rewrite Nat2Z.id. apply nth_middle. }
  rewrite HD. f_equal.
  apply pos_shape_app in Hp as [Hp1 Hp2]. pose proof (Forall_inv_tail Hp2) as Hp2'.
  assert (Hp12 : pos_shape (l1 ++ l2)) by (apply pos_shape_app; split; assumption).
  apply map_ext_in. intros oc Hoc. apply (coords_In _ _ Hp12) in Hoc.
  destruct (inbox_app_inv l1 l2 oc Hoc) as (c1 & c2 & -> & Hl1 & _ & _).
  unfold lane_of.
  replace (nth (length l1) sh 0) with D by (unfold sh; symmetry; apply nth_middle).
  assert (Hm : forall k, insert_coord [zlen l1] (c1 ++ c2) [k] = insert_at (length l1) k (c1 ++ c2)).
  { intro k. replace (zlen l1) with (zlen c1) by (unfold zlen; lia). rewrite <- Hl1. apply insert_coord_single. }
  match goal with |- context [map ?f (zseq 0 (Z.to_nat D))] =>
    match f with context [insert_coord] =>
      rewrite (map_ext f (fun k => val (insert_at (length l1) k (c1 ++ c2))))
        by (intro k; unfold val; rewrite Hm; reflexivity)
    end
  end.
  destruct (map (fun k => val (insert_at (length l1) k (c1 ++ c2))) (zseq 0 (Z.to_nat D))) as [|v r]; [reflexivity|].
  cbn [argbest]. apply spec_arg_fold.
Qed.

(* MODEL = SPEC for the arg-reduction along an axis *)
Theorem m_argbest_axis_spec σ t d axis g ς x :
  let sh := shp (d_ap d) in
  get_t V σ t = Some d -> wf_dense V σ d -> 0 <= axis < zlen sh -> arg_vec_guard (d_ap d) axis ->
  content σ d g -> s_shape x = sh ->
  (forall c, inbox sh c -> nth (nth (Z.to_nat (rank_rm sh c)) (s_cells x) O) (s_vals V ς) vzero = g c) ->
  m_argbest V better σ t axis = Ok (spec_arg_vals V vzero better ς x axis).
Proof.
  intros sh Ht W Hax Hgd Hg Hx Hval. pose proof W as (_ & (Hp & Hl & _) & _). fold sh in Hp.
  rewrite (m_argbest_axis_explicit V better σ t d axis g Ht Hp Hl Hax Hgd Hg). fold sh.
  set (a := Z.to_nat axis).
  assert (Ha : (a < length sh)%nat) by (unfold a, zlen in *; lia).
  pose proof (split_at 0 a sh Ha) as Hsplit.
  set (l1 := firstn a sh) in *. set (D := nth a sh 0) in *. set (l2 := skipn (S a) sh) in *.
  assert (Hl1 : length l1 = a) by (unfold l1; rewrite firstn_length; lia).
  assert (Hax' : axis = zlen l1) by (unfold zlen; lia).
  assert (Hrm : remove_nth a sh = l1 ++ l2) by (rewrite Hsplit at 1; rewrite <- Hl1; apply remove_nth_app).
  rewrite Hax'. rewrite (spec_arg_single ς x l1 D l2) by (rewrite <- Hsplit; assumption).
  rewrite <- Hsplit, Hrm, Hl1. do 2 f_equal.
  assert (Hp' : pos_shape (l1 ++ l2)) by (rewrite <- Hrm; apply pos_shape_remove_nth; exact Hp).
  apply map_ext_in. intros c' Hc. apply (coords_In _ _ Hp') in Hc. rewrite <- Hrm in Hc.
  f_equal. symmetry. apply (lane_ext V vzero (fun v _ => v)); assumption.
Qed.

End SpecArgBridge.
