(* MaskedProofs2.v — second batch of proofs about the MODEL of the mask machinery (Masked.v):
   filling, masked iteration, physical transposition, masked elementwise operations, the edge
   finders and the per-axis reductions (property C15). *)
From Coq Require Import Lia ZifyBool.
From TV Require Import Base Index AP Iter Mem Spec Serial Masked IndexProofs IterProofs APProofs MaskedProofs.
Local Open Scope Z_scope.

#[local] Arguments mt_ap {V}. #[local] Arguments mt_old {V}. #[local] Arguments mt_view {V}.
#[local] Arguments mt_data {V}. #[local] Arguments mt_mask {V}. #[local] Arguments mt_soft {V}.

(* ---------- 0. common vocabulary ---------- *)
(* the read of cell o of a window: the Go index panic outside *)
Definition rd {A} (l : list A) (o : Z) : res A :=
  match zget l o with Some v => Ok v | None => Panic end.

Lemma rd_ok {A} (l : list A) o : 0 <= o < zlen l -> exists v, rd l o = Ok v /\ zget l o = Some v.
Proof. intro H. destruct (zget_some l o H) as [v E]. exists v. unfold rd. rewrite E. auto. Qed.

Lemma rd_bit (m : list bool) o : 0 <= o < zlen m -> rd m o = Ok (bit m o).
Proof. intro H. unfold rd. rewrite (zget_nth m o H). reflexivity. Qed.

(* Ltoi with strides as long as the shape is the dot product, whatever the shape *)
Lemma ltoi_dot_gen s st c : length st = length s -> inbox s c -> ltoi s st c = Ok (dot st c).
Proof.
  intros Hl Hb. destruct (Nat.eq_dec (length s) 1) as [E1|N1]; [|apply ltoi_dot; assumption].
  destruct s as [|d [|? ?]]; try discriminate. destruct st as [|k [|? ?]]; try discriminate.
  destruct c as [|x [|? ?]]; cbn in Hb; try tauto. destruct Hb as [Hx _].
  unfold ltoi. cbn [is_scalar_equiv forallb]. destruct (d =? 1) eqn:Ed; cbn [andb].
  - assert (x = 0) by lia. subst x. cbn. rewrite Z.eqb_refl. cbn [andb]. f_equal. lia.
  - cbn. destruct ((d <=? x) || (x <? 0)) eqn:E; [lia|]. f_equal. lia.
Qed.

Lemma in_coords_inbox s c : pos_shape s -> In c (coords s) -> inbox s c.
Proof.
  intros Hp H. unfold coords in H. apply in_map_iff in H as (k & <- & Hk).
  apply zseq_In in Hk. pose proof (size_pos s Hp). apply unrank_inbox; [exact Hp|lia].
Qed.

Lemma inbox_in_coords s c : pos_shape s -> inbox s c -> In c (coords s).
Proof.
  intros Hp Hb. unfold coords. apply in_map_iff. exists (rk s c).
  split; [apply unrank_rk; assumption|]. apply zseq_In. pose proof (rk_bound s c Hp Hb). lia.
Qed.

Lemma in_offsets a c : pos_shape (shp a) -> inbox (shp a) c -> In (dot (str a) c) (offsets a).
Proof. intros Hp Hb. unfold offsets. apply in_map. apply inbox_in_coords; assumption. Qed.

Lemma window_at_rd {A} (data : list A) s st c : length st = length s -> inbox s c ->
  window_at data s st c = rd data (dot st c).
Proof.
  intros Hl Hb. unfold window_at, at_index. rewrite (inbox_length s c Hb), Nat.eqb_refl. cbn [negb].
  rewrite (ltoi_dot_gen s st c Hl Hb). reflexivity.
Qed.

(* an access pattern whose offsets all land in a window of n cells *)
Definition wf_ap (a : ap) (n : Z) : Prop :=
  pos_shape (shp a) /\ length (str a) = length (shp a) /\ Forall (fun o => 0 <= o < n) (offsets a).

Lemma offsets_nonempty a : pos_shape (shp a) -> offsets a <> [].
Proof.
  intros Hp E. apply (f_equal (@length Z)) in E. rewrite offsets_length in E.
  pose proof (size_pos _ Hp). cbn in E. lia.
Qed.

Lemma wf_ap_window_pos a n : wf_ap a n -> 0 < n.
Proof.
  intros (Hp & _ & Hr). pose proof (offsets_nonempty a Hp) as Hne.
  destruct (offsets a) as [|o l]; [congruence|]. inversion Hr; subst. lia.
Qed.

Lemma bit_nil o : bit [] o = false.
Proof. unfold bit. destruct (Z.to_nat o); reflexivity. Qed.

Lemma map_map_const {A B} (c : B) (l : list A) : map (fun _ => c) l = repeat c (length l).
Proof. induction l as [|x l IH]; [reflexivity|]. cbn. rewrite IH. reflexivity. Qed.

Section MP2.
Variable V : Type.

Definition wf_mt (t : mten V) : Prop := wf_ap (mt_ap t) (mt_len V t).

(* the mask the iterators and MaskAt consult: none when the tensor is not masked *)
Definition emask (t : mten V) : list bool := if k_is_masked V t then mt_mask t else [].

Lemma masked_len (t : mten V) : k_is_masked V t = true -> zlen (mt_mask t) = zlen (mt_data t).
Proof. unfold k_is_masked, mt_len. intro H. lia. Qed.

Lemma emask_range (t : mten V) l : Forall (fun o => 0 <= o < mt_len V t) l ->
  emask t = [] \/ Forall (fun o => 0 <= o < zlen (emask t)) l.
Proof.
  intro H. unfold emask. destruct (k_is_masked V t) eqn:E; [right|left; reflexivity].
  rewrite (masked_len t E). exact H.
Qed.

Lemma logical_offsets (t : mten V) : pos_shape (shp (mt_ap t)) ->
  length (str (mt_ap t)) = length (shp (mt_ap t)) ->
  k_logical V t = map (rd (mt_data t)) (offsets (mt_ap t)).
Proof.
  intros Hp Hl. unfold k_logical, offsets. rewrite map_map. apply map_ext_in. intros c Hc.
  apply window_at_rd; [exact Hl|apply in_coords_inbox; assumption].
Qed.

Lemma maskat_bit (t : mten V) c : wf_mt t -> inbox (shp (mt_ap t)) c ->
  k_maskat V t c = Ok (bit (emask t) (dot (str (mt_ap t)) c)).
Proof.
  intros (Hp & Hl & Hr) Hb. unfold k_maskat, emask. destruct (k_is_masked V t) eqn:Em; cbn [negb].
  - rewrite (inbox_length _ _ Hb), Nat.eqb_refl. cbn [negb].
    rewrite (ltoi_dot_gen _ _ _ Hl Hb).
    assert (Ho : 0 <= dot (str (mt_ap t)) c < zlen (mt_mask t)).
    { rewrite (masked_len t Em). rewrite Forall_forall in Hr. apply Hr. apply in_offsets; assumption. }
    rewrite (zget_nth _ _ Ho). reflexivity.
  - unfold bit. destruct (Z.to_nat _); reflexivity.
Qed.

Lemma logical_mask_offsets (t : mten V) : wf_mt t ->
  k_logical_mask V t = map (fun o => Ok (bit (emask t) o)) (offsets (mt_ap t)).
Proof.
  intros Hw. pose proof Hw as (Hp & Hl & Hr). unfold k_logical_mask, offsets. rewrite map_map.
  apply map_ext_in. intros c Hc. apply maskat_bit; [exact Hw|apply in_coords_inbox; assumption].
Qed.

(* ---------- 1. masked iteration (NextValidity) ---------- *)
Lemma mnv_step (em : list bool) it it' o : iter_next it = (it', Ok o) ->
  em = [] \/ 0 <= o < zlen em ->
  miter_next_validity em it = (it', Ok (o, negb (bit em o))).
Proof.
  intros Hn Hr. unfold miter_next_validity. rewrite Hn. destruct em as [|b em'] eqn:Ee.
  - unfold bit. destruct (Z.to_nat o); reflexivity.
  - destruct Hr as [Hr|Hr]; [discriminate|]. rewrite (zget_nth _ _ Hr). reflexivity.
Qed.

Lemma mnv_done (em : list bool) it : it_done it = true -> miter_next_validity em it = (it, Err).
Proof. intro H. unfold miter_next_validity. rewrite (iter_next_done it H). reflexivity. Qed.

Lemma range_tl (em : list bool) o l :
  em = [] \/ Forall (fun o => 0 <= o < zlen em) (o :: l) ->
  (em = [] \/ 0 <= o < zlen em) /\ (em = [] \/ Forall (fun o => 0 <= o < zlen em) l).
Proof. intros [H|H]; [auto|]. inversion H; subst. auto. Qed.

Lemma validity_loop_yields (b : bool) (m : list bool) : forall it l, yields false it l ->
  let em := if b then m else [] in
  em = [] \/ Forall (fun o => 0 <= o < zlen em) l ->
  forall fuel, (length l < fuel)%nat ->
  validity_loop fuel (mkMit b m it) = Ok (map (fun o => (o, negb (bit em o))) l).
Proof.
  intros it l Hy em. induction Hy as [it Hd Hr|it it' o l Hr Hn Hy IH]; intros Hv fuel Hf.
  - destruct fuel as [|f]; [cbn in Hf; lia|]. cbn [validity_loop]. unfold mit_next_validity.
    cbn [mi_masked mi_mask mi_it]. fold em. rewrite (mnv_done em it Hd). reflexivity.
  - destruct fuel as [|f]; [cbn in Hf; lia|]. cbn [validity_loop]. unfold mit_next_validity.
    cbn [mi_masked mi_mask mi_it]. fold em. apply range_tl in Hv as [Ho Hv].
    rewrite (mnv_step em it it' o Hn Ho). unfold mit_with. cbn [mi_masked mi_mask].
    rewrite (IH Hv f) by (cbn in Hf; lia). reflexivity.
Qed.

Theorem validity_offsets (t : mten V) : wf_mt t ->
  k_validity V t = Ok (map (fun o => (o, negb (bit (emask t) o))) (offsets (mt_ap t))).
Proof.
  intros (Hp & Hl & Hr). unfold k_validity, k_miter.
  apply (validity_loop_yields (k_is_masked V t) (mt_mask t) _ _ (yields_new _ Hp Hl)).
  - apply emask_range. exact Hr.
  - rewrite offsets_length. unfold mit_fuel, new_iter. cbn [mi_it it_size]. lia.
Qed.

(* M2: the (offset, valid) pairs of masked iteration, in logical order, agree with MaskAt *)
Theorem validity_spec_thm (t : mten V) : wf_mt t ->
  k_validity V t = Ok (map (fun c => (dot (str (mt_ap t)) c,
                                      negb (bit (emask t) (dot (str (mt_ap t)) c))))
                           (coords (shp (mt_ap t)))) /\
  forall c, inbox (shp (mt_ap t)) c ->
    k_maskat V t c = Ok (bit (emask t) (dot (str (mt_ap t)) c)).
Proof.
  intro Hw. split.
  - rewrite (validity_offsets t Hw). unfold offsets. rewrite map_map. reflexivity.
  - intros c Hc. apply maskat_bit; assumption.
Qed.

(* the same without the helper [bit]: positions are the iterator's offsets, validity is the
   negation of MaskAt at every coordinate *)
Theorem validity_agrees_thm (t : mten V) : wf_mt t ->
  exists vl, k_validity V t = Ok vl /\
    map fst vl = map (fun c => dot (str (mt_ap t)) c) (coords (shp (mt_ap t))) /\
    map (fun p => Ok (negb (snd p))) vl = k_logical_mask V t.
Proof.
  intro Hw. eexists. split; [apply validity_offsets; exact Hw|]. split.
  - rewrite map_map. cbn [fst]. rewrite map_id. reflexivity.
  - rewrite (logical_mask_offsets t Hw), map_map. apply map_ext. intro o. cbn [snd].
    rewrite negb_involutive. reflexivity.
Qed.

(* ---------- 2. filling ---------- *)
Lemma rd_upd_same {A} (d : list A) o v : 0 <= o < zlen d -> rd (upd d (Z.to_nat o) v) o = Ok v.
Proof.
  intro H. unfold rd. rewrite zget_nth_error by lia.
  rewrite nth_error_upd_same by (unfold zlen in H; lia). reflexivity.
Qed.

Lemma rd_upd_other {A} (d : list A) a o v : 0 <= a -> 0 <= o -> a <> o ->
  rd (upd d (Z.to_nat a) v) o = rd d o.
Proof.
  intros Ha Ho Hne. unfold rd. rewrite !zget_nth_error by lia.
  rewrite nth_error_upd_other by lia. reflexivity.
Qed.

Lemma zlen_upd {A} (d : list A) n v : zlen (upd d n v) = zlen d.
Proof. unfold zlen. rewrite upd_length. reflexivity. Qed.

(* what the NextInvalid loop of Filled writes, read off the offsets the iterator yields *)
Definition fill_offs (m : list bool) (fv : V) (l : list Z) (data : list V) : list V :=
  fold_left (fun d o => if bit m o then upd d (Z.to_nat o) fv else d) l data.

Lemma fill_offs_cons m fv o l d :
  fill_offs m fv (o :: l) d = fill_offs m fv l (if bit m o then upd d (Z.to_nat o) fv else d).
Proof. reflexivity. Qed.

Lemma fill_offs_skip m fv : forall pre r d, Forall (fun x => bit m x = false) pre ->
  fill_offs m fv (pre ++ r) d = fill_offs m fv r d.
Proof.
  induction pre as [|x pre IH]; intros r d H; [reflexivity|]. inversion H as [|? ? Hx Hr]; subst.
  cbn [app]. rewrite fill_offs_cons, Hx. apply IH. exact Hr.
Qed.

Lemma fill_offs_zlen m fv : forall l d, zlen (fill_offs m fv l d) = zlen d.
Proof.
  induction l as [|o l IH]; intros d; [reflexivity|]. rewrite fill_offs_cons, IH.
  destruct (bit m o); [apply zlen_upd|reflexivity].
Qed.

Lemma fill_offs_keep m fv : forall l d o, Forall (fun x => 0 <= x) l -> 0 <= o ->
  bit m o = false -> rd (fill_offs m fv l d) o = rd d o.
Proof.
  induction l as [|a l IH]; intros d o Hl Ho Hb; [reflexivity|]. inversion Hl as [|? ? Ha Hl']; subst.
  rewrite fill_offs_cons, (IH _ o Hl' Ho Hb). destruct (bit m a) eqn:Ea; [|reflexivity].
  apply rd_upd_other; [exact Ha|exact Ho|]. intros ->. congruence.
Qed.

Lemma fill_offs_stable m fv : forall l d o, Forall (fun x => 0 <= x < zlen d) l -> 0 <= o ->
  rd d o = Ok fv -> rd (fill_offs m fv l d) o = Ok fv.
Proof.
  induction l as [|a l IH]; intros d o Hl Ho Hd; [exact Hd|]. inversion Hl as [|? ? Ha Hl']; subst.
  rewrite fill_offs_cons. apply IH; [|exact Ho|].
  - destruct (bit m a); [rewrite zlen_upd|]; exact Hl'.
  - destruct (bit m a); [|exact Hd]. destruct (Z.eq_dec a o) as [->|Hne].
    + apply rd_upd_same. exact Ha.
    + rewrite rd_upd_other by lia. exact Hd.
Qed.

Lemma fill_offs_hit m fv : forall l d o, Forall (fun x => 0 <= x < zlen d) l -> In o l ->
  bit m o = true -> rd (fill_offs m fv l d) o = Ok fv.
Proof.
  induction l as [|a l IH]; intros d o Hl Hi Hb; [destruct Hi|]. inversion Hl as [|? ? Ha Hl']; subst.
  rewrite fill_offs_cons. destruct Hi as [->|Hi].
  - rewrite Hb. apply fill_offs_stable; [rewrite zlen_upd; exact Hl'|lia|apply rd_upd_same; exact Ha].
  - apply IH; [|exact Hi|exact Hb]. destruct (bit m a); [rewrite zlen_upd|]; exact Hl'.
Qed.

Lemma fill_offs_rd m fv l d o : Forall (fun x => 0 <= x < zlen d) l -> In o l ->
  rd (fill_offs m fv l d) o = if bit m o then Ok fv else rd d o.
Proof.
  intros Hl Hi. destruct (bit m o) eqn:Hb; [apply fill_offs_hit; assumption|].
  rewrite Forall_forall in Hl. apply fill_offs_keep; [|apply Hl in Hi; lia|exact Hb].
  apply Forall_forall. intros x Hx. apply Hl in Hx. lia.
Qed.

(* the loop of Filled over an iterator that yields l (any layout) *)
Lemma fill_loop_yields (m : list bool) fv : m <> [] ->
  forall n l, (length l <= n)%nat -> forall it data, yields false it l ->
  Forall (fun o => 0 <= o < zlen m) l -> zlen data = zlen m ->
  forall fuel, (length l < fuel)%nat -> (length l < Z.to_nat (it_size it) + 2)%nat ->
  fill_loop V fuel (masked_mit m it) data fv = Ok (fill_offs m fv l data).
Proof.
  intros Hne. induction n as [|n IHn]; intros l Hln it data Hy Hv Hd fuel Hf Hsz.
  - destruct l; [|cbn in Hln; lia]. destruct fuel as [|f]; [cbn in Hf; lia|].
    cbn [fill_loop]. rewrite (mit_next_masked true m it Hne).
    inversion Hy; subst. unfold mit_fuel, masked_mit. cbn [mi_it miter_seek].
    rewrite (iter_next_done it H). reflexivity.
  - destruct fuel as [|f]; [cbn in Hf; lia|]. cbn [fill_loop].
    rewrite (mit_next_masked true m it Hne).
    destruct (seek_yields true m it l Hy Hv (mit_fuel (masked_mit m it)) 0)
      as [(pre & o & post & it1 & -> & Hpre & Ho & Hy1 & cnt & Hs)|(Hall & it1 & cnt & Hs & Hy1)].
    { unfold mit_fuel, masked_mit. cbn [mi_it]. lia. }
    + rewrite Hs.
      assert (Hv1 : Forall (fun o => 0 <= o < zlen m) (o :: post)).
      { apply Forall_app in Hv as [_ Hv]. exact Hv. }
      inversion Hv1 as [|? ? Hor Hv2]; subst.
      assert (Hsz1 : it_size it1 = it_size it) by (eapply miter_seek_size; exact Hs).
      rewrite app_length in *. cbn [length] in *.
      rewrite zset_spec by lia.
      rewrite (IHn post); [| lia | exact Hy1 | exact Hv2 | rewrite zlen_upd; exact Hd | lia | lia].
      rewrite fill_offs_skip by exact Hpre. rewrite fill_offs_cons, Ho. reflexivity.
    + rewrite Hs. rewrite <- (app_nil_r l). rewrite fill_offs_skip by exact Hall. reflexivity.
Qed.

Lemma offsets_scalar_wf a : shp a = [] -> length (str a) = length (shp a) -> offsets a = [0].
Proof. intros Hs _. apply offsets_scalar. exact Hs. Qed.

(* the common body of Filled / FilledInplace *)
Lemma fill_body_offsets (t tc : mten V) fv :
  k_is_masked V t = true -> k_is_masked V tc = true -> wf_mt tc ->
  fill_body V t tc fv
  = Ok (with_data V tc (fill_offs (mt_mask tc) fv (offsets (mt_ap tc)) (mt_data tc))).
Proof.
  intros Hmt Hm Hw. pose proof Hw as (Hp & Hl & Hr). pose proof (masked_len tc Hm) as Hlen.
  pose proof (wf_ap_window_pos _ _ Hw) as Hpos. unfold mt_len in *.
  unfold fill_body. rewrite Hmt. cbn [negb].
  destruct (is_scalar (shp (mt_ap tc))) eqn:Esc.
  - assert (Es : shp (mt_ap tc) = []) by (destruct (shp (mt_ap tc)); [reflexivity|discriminate]).
    rewrite (offsets_scalar _ Es). cbn [fill_offs fold_left].
    destruct (mt_mask tc) as [|b mk] eqn:Ek; [unfold zlen in Hlen, Hpos; cbn [length] in Hlen; lia|].
    unfold bit. cbn [Z.to_nat nth]. destruct b; [|destruct tc; reflexivity].
    rewrite zset_spec by lia. reflexivity.
  - assert (Hne : mt_mask tc <> []).
    { intro E. rewrite E in Hlen. unfold zlen in Hlen, Hpos. cbn [length] in Hlen. lia. }
    unfold k_miter. rewrite Hm. fold (masked_mit (mt_mask tc) (new_iter (mt_ap tc))).
    rewrite (fill_loop_yields (mt_mask tc) fv Hne (length (offsets (mt_ap tc)))
               (offsets (mt_ap tc)) (le_n _) _ (mt_data tc) (yields_new _ Hp Hl)).
    + reflexivity.
    + rewrite Hlen. exact Hr.
    + symmetry. exact Hlen.
    + rewrite offsets_length. unfold mit_fuel, masked_mit, new_iter. cbn [mi_it it_size]. lia.
    + rewrite offsets_length. unfold new_iter. cbn [it_size]. lia.
Qed.

(* reading the SPEC off the offsets *)
Lemma map_fill_spec fv (data' data : list V) (m : list bool) : forall offs vals bits,
  map (rd data) offs = map Ok vals -> map (fun o => Ok (bit m o)) offs = map Ok bits ->
  (forall o, In o offs -> rd data' o = if bit m o then Ok fv else rd data o) ->
  map (rd data') offs = map Ok (ks_fill V fv vals bits).
Proof.
  induction offs as [|o offs IH]; intros vals bits Hv Hb Hp.
  - destruct vals; [|discriminate]. reflexivity.
  - destruct vals as [|v vals]; [discriminate|]. destruct bits as [|b bits]; [discriminate|].
    cbn [map] in Hv, Hb. injection Hv as Hv0 Hv. injection Hb as Hb0 Hb.
    unfold ks_fill, kmap2. cbn [combine map fst snd]. f_equal.
    + rewrite (Hp o (or_introl eq_refl)), Hb0. destruct b; [reflexivity|exact Hv0].
    + apply IH; [exact Hv|exact Hb|]. intros o' Ho'. apply Hp. right. exact Ho'.
Qed.

(* every wf tensor has total logical readings *)
Lemma rd_total {A} (d : list A) : forall l, Forall (fun o => 0 <= o < zlen d) l ->
  exists vals, map (rd d) l = map Ok vals.
Proof.
  induction l as [|o l IH]; intro H; [exists []; reflexivity|]. inversion H as [|? ? Ho Hl]; subst.
  destruct (IH Hl) as [vals E]. destruct (rd_ok d o Ho) as (v & Ev & _).
  exists (v :: vals). cbn [map]. rewrite Ev, E. reflexivity.
Qed.

Lemma logical_total (t : mten V) : wf_mt t ->
  exists vals bits, k_logical V t = map Ok vals /\ k_logical_mask V t = map Ok bits.
Proof.
  intro Hw. pose proof Hw as (Hp & Hl & Hr).
  rewrite (logical_offsets t Hp Hl), (logical_mask_offsets t Hw).
  destruct (rd_total (mt_data t) _ Hr) as [vals E]. exists vals, (map (bit (emask t)) (offsets (mt_ap t))).
  split; [exact E|]. rewrite map_map. reflexivity.
Qed.

(* the result of the common body, against the SPEC *)
Lemma fill_body_spec (t tc : mten V) fv :
  k_is_masked V t = true -> k_is_masked V tc = true -> wf_mt tc ->
  exists t', fill_body V t tc fv = Ok t' /\
    mt_ap t' = mt_ap tc /\ mt_old t' = mt_old tc /\ mt_view t' = mt_view tc /\
    mt_mask t' = mt_mask tc /\ mt_soft t' = mt_soft tc /\ mt_len V t' = mt_len V tc /\
    k_is_masked V t' = true /\ wf_mt t' /\
    k_logical_mask V t' = k_logical_mask V tc /\
    forall vals bits, k_logical V tc = map Ok vals -> k_logical_mask V tc = map Ok bits ->
      k_logical V t' = map Ok (ks_fill V fv vals bits).
Proof.
  intros Hmt Hm Hw. pose proof Hw as (Hp & Hl & Hr). pose proof (masked_len tc Hm) as Hlen.
  rewrite (fill_body_offsets t tc fv Hmt Hm Hw).
  set (d' := fill_offs (mt_mask tc) fv (offsets (mt_ap tc)) (mt_data tc)).
  assert (Hd' : zlen d' = zlen (mt_data tc)) by apply fill_offs_zlen.
  assert (Hm' : k_is_masked V (with_data V tc d') = true).
  { unfold k_is_masked, mt_len. cbn [with_data mt_mask mt_data]. lia. }
  assert (Hw' : wf_mt (with_data V tc d')).
  { unfold wf_mt, mt_len. cbn [with_data mt_ap mt_data]. rewrite Hd'. exact Hw. }
  assert (He : emask (with_data V tc d') = emask tc).
  { unfold emask. rewrite Hm', Hm. reflexivity. }
  eexists. split; [reflexivity|]. cbn [with_data mt_ap mt_old mt_view mt_mask mt_soft].
  repeat (split; [reflexivity|]).
  split; [unfold mt_len; cbn [with_data mt_data]; exact Hd'|].
  split; [exact Hm'|]. split; [exact Hw'|]. split.
  - rewrite (logical_mask_offsets _ Hw'), (logical_mask_offsets _ Hw), He. reflexivity.
  - intros vals bits Hv Hb.
    rewrite (logical_offsets (with_data V tc d')) by (cbn [with_data mt_ap]; assumption).
    cbn [with_data mt_ap mt_data].
    rewrite (logical_offsets tc Hp Hl) in Hv. rewrite (logical_mask_offsets tc Hw) in Hb.
    unfold emask in Hb. rewrite Hm in Hb.
    apply (map_fill_spec fv d' (mt_data tc) (mt_mask tc)); [exact Hv|exact Hb|].
    intros o Ho. apply fill_offs_rd; [exact Hr|exact Ho].
Qed.

(* M1: Filled works on a clone: the result has the pattern and the mask of t and, at every
   coordinate, the fill value where the mask bit is set and the old value elsewhere *)
Theorem filled_spec_thm (t : mten V) fv : k_is_masked V t = true -> wf_mt t ->
  exists t', k_filled V t fv = Ok t' /\
    mt_ap t' = mt_ap t /\ mt_old t' = mt_old t /\ mt_mask t' = mt_mask t /\
    k_is_masked V t' = true /\
    k_logical_mask V t' = k_logical_mask V t /\
    forall vals bits, k_logical V t = map Ok vals -> k_logical_mask V t = map Ok bits ->
      k_logical V t' = map Ok (ks_fill V fv vals bits).
Proof.
  intros Hm Hw. unfold k_filled.
  assert (Hmc : k_is_masked V (k_clone V t) = true).
  { unfold k_clone, k_is_masked, mt_len. cbn [mt_mask mt_data]. fold (mt_len V t).
    fold (k_is_masked V t). rewrite Hm. exact Hm. }
  assert (Hwc : wf_mt (k_clone V t)) by exact Hw.
  assert (Hmk : mt_mask (k_clone V t) = mt_mask t) by (unfold k_clone; cbn [mt_mask]; rewrite Hm; reflexivity).
  assert (Hlm : k_logical_mask V (k_clone V t) = k_logical_mask V t).
  { rewrite (logical_mask_offsets _ Hwc), (logical_mask_offsets _ Hw). unfold emask.
    rewrite Hmc, Hm, Hmk. reflexivity. }
  destruct (fill_body_spec t (k_clone V t) fv Hm Hmc Hwc)
    as (t' & E & Hap & Hold & _ & Hmask & _ & _ & Hm' & _ & Hlmask & Hspec).
  exists t'. split; [exact E|]. split; [exact Hap|]. split; [exact Hold|].
  split; [rewrite Hmask; exact Hmk|]. split; [exact Hm'|]. split; [rewrite Hlmask; exact Hlm|].
  intros vals bits Hv Hb. apply Hspec; [exact Hv|rewrite Hlm; exact Hb].
Qed.

Theorem filled_inplace_spec_thm (t : mten V) fv : k_is_masked V t = true -> wf_mt t ->
  exists t', k_filled_inplace V t fv = Ok t' /\
    mt_ap t' = mt_ap t /\ mt_old t' = mt_old t /\ mt_view t' = mt_view t /\
    mt_mask t' = mt_mask t /\ mt_soft t' = mt_soft t /\
    k_is_masked V t' = true /\
    k_logical_mask V t' = k_logical_mask V t /\
    forall vals bits, k_logical V t = map Ok vals -> k_logical_mask V t = map Ok bits ->
      k_logical V t' = map Ok (ks_fill V fv vals bits).
Proof.
  intros Hm Hw. unfold k_filled_inplace.
  destruct (fill_body_spec t t fv Hm Hm Hw)
    as (t' & E & Hap & Hold & Hview & Hmask & Hsoft & _ & Hm' & _ & Hlmask & Hspec).
  exists t'. repeat (split; [assumption|]). exact Hspec.
Qed.

(* an unmasked tensor is returned as it is (a clone for Filled) *)
Theorem filled_unmasked_thm (t : mten V) fv : k_is_masked V t = false ->
  k_filled V t fv = Ok (k_clone V t) /\ k_filled_inplace V t fv = Ok t.
Proof. intro H. unfold k_filled, k_filled_inplace, fill_body. rewrite H. split; reflexivity. Qed.

(* ---------- 3. physical transposition ---------- *)
Lemma copy_prefix_same_len {A} : forall (dst src : list A), length dst = length src ->
  copy_prefix dst src = src.
Proof.
  induction dst as [|d dst IH]; intros [|x src] H; cbn in H; try discriminate; [reflexivity|].
  cbn [copy_prefix]. rewrite IH by lia. reflexivity.
Qed.

Lemma copy_prefix_app {A} : forall (dst src : list A), (length src <= length dst)%nat ->
  copy_prefix dst src = src ++ skipn (length src) dst.
Proof.
  induction dst as [|d dst IH]; intros [|x src] H; cbn in H; try lia; try reflexivity.
  cbn [copy_prefix length skipn app]. rewrite IH by lia. reflexivity.
Qed.

Lemma rd_app1 {A} (g r : list A) k : 0 <= k < zlen g -> rd (g ++ r) k = rd g k.
Proof.
  intro H. unfold rd. rewrite !zget_nth_error by lia.
  rewrite nth_error_app1 by (unfold zlen in H; lia). reflexivity.
Qed.

Lemma rd_cons_succ {A} (v : A) g j : 1 <= j -> rd (v :: g) j = rd g (j - 1).
Proof.
  intro H. unfold rd. rewrite !zget_nth_error by lia.
  replace (Z.to_nat j) with (S (Z.to_nat (j - 1))) by lia. reflexivity.
Qed.

Lemma gather_total {A} (l : list A) : forall idx, Forall (fun o => 0 <= o < zlen l) idx ->
  exists g, gather l idx = Some g.
Proof.
  induction idx as [|i idx IH]; intro H; [exists []; reflexivity|]. inversion H as [|? ? Hi Hr]; subst.
  destruct (IH Hr) as [g E]. destruct (zget_some l i Hi) as [v Ev].
  exists (v :: g). cbn [gather]. rewrite Ev, E. reflexivity.
Qed.

Lemma gather_reads {A} (l : list A) : forall idx g, gather l idx = Some g ->
  length g = length idx /\
  forall s, map (fun k => rd g (k - s)) (zseq s (length idx)) = map (rd l) idx.
Proof.
  induction idx as [|i idx IH]; intros g H; cbn [gather] in H.
  - injection H as <-. split; reflexivity.
  - destruct (zget l i) as [v|] eqn:Ev; [|discriminate].
    destruct (gather l idx) as [g'|] eqn:Eg; [|discriminate]. injection H as <-.
    destruct (IH g' eq_refl) as [Hlen Hmap]. split; [cbn [length]; lia|]. intro s.
    cbn [length zseq map]. f_equal.
    + replace (s - s) with 0 by lia. unfold rd. rewrite Ev. reflexivity.
    + rewrite <- (Hmap (s + 1)). apply map_ext_in. intros k Hk. apply zseq_In in Hk.
      rewrite rd_cons_succ by lia. f_equal. lia.
Qed.

Lemma gather_prefix_reads {A} (l : list A) idx g r : gather l idx = Some g ->
  map (rd (g ++ r)) (zseq 0 (length idx)) = map (rd l) idx.
Proof.
  intro H. destruct (gather_reads l idx g H) as [Hlen Hmap]. rewrite <- (Hmap 0).
  apply map_ext_in. intros k Hk. apply zseq_In in Hk. rewrite Z.sub_0_r.
  apply rd_app1. unfold zlen. lia.
Qed.

Lemma bits_as_reads (m : list bool) l : Forall (fun o => 0 <= o < zlen m) l ->
  map (fun o => Ok (bit m o)) l = map (rd m) l.
Proof.
  intro H. apply map_ext_in. intros o Ho. rewrite Forall_forall in H. symmetry. apply rd_bit. auto.
Qed.

Lemma Forall_zseq_range n : Forall (fun o => 0 <= o < Z.of_nat n) (zseq 0 n).
Proof. apply Forall_forall. intros o Ho. apply zseq_In in Ho. lia. Qed.

(* M3: Transpose() moves the mask and the data together, whatever the rank: afterwards the
   tensor is physically row-major and reads, coordinate by coordinate, what it read before *)
Theorem transpose_keeps_logical_thm (is_string : bool) (t : mten V) (o : ap) :
  mt_old t = Some o -> wf_mt t ->
  shp (mt_ap t) <> [] -> is_vector (shp (mt_ap t)) = false ->
  is_cm (ord (mt_ap t)) = false ->                 (* row-major data order *)
  mt_size V t <= mt_len V t ->                      (* the window holds at least the elements *)
  exists t', k_transpose V is_string t = Ok t' /\
    mt_old t' = None /\ shp (mt_ap t') = shp (mt_ap t) /\
    str (mt_ap t') = calc_strides (shp (mt_ap t)) /\
    k_is_masked V t' = k_is_masked V t /\
    k_logical V t' = k_logical V t /\ k_logical_mask V t' = k_logical_mask V t.
Proof.
  intros Hold Hw Hns Hnv Hcm Hsz. pose proof Hw as (Hp & Hl & Hr).
  unfold mt_size, mt_len in Hsz. unfold mt_len in Hr.
  unfold k_transpose. rewrite Hold.
  replace (is_scalar (shp (mt_ap t))) with false by (destruct (shp (mt_ap t)); [congruence|reflexivity]).
  rewrite Hnv. unfold default_strides. rewrite Hcm.
  rewrite (copy_prefix_same_len (str (mt_ap t)))
    by (rewrite calc_strides_length; exact Hl).
  rewrite (iter_all_spec _ Hp Hl). fold (offsets (mt_ap t)).
  set (offs := offsets (mt_ap t)) in *.
  assert (Hn : length offs = Z.to_nat (size (shp (mt_ap t)))) by apply offsets_length.
  destruct (gather_total (mt_data t) offs Hr) as [tmp Etmp]. rewrite Etmp.
  destruct (gather_reads _ _ _ Etmp) as [Htl _].
  pose proof (size_pos _ Hp) as Hpos.
  set (a' := mkAP (shp (mt_ap t)) (calc_strides (shp (mt_ap t))) (ord (mt_ap t)) (fin (mt_ap t))).
  assert (Hoa' : offsets a' = zseq 0 (length offs)).
  { rewrite Hn. apply (offsets_rowmajor a'); [exact Hp|reflexivity]. }
  assert (Hdl : length (copy_prefix (mt_data t) tmp) = length (mt_data t)).
  { rewrite copy_prefix_app by (unfold zlen in Hsz; lia). rewrite app_length, skipn_length.
    unfold zlen in Hsz. lia. }
  assert (Hrng : Forall (fun x => 0 <= x < zlen (mt_data t)) (zseq 0 (length offs))).
  { apply Forall_forall. intros x Hx. apply zseq_In in Hx. lia. }
  destruct (k_is_masked V t) eqn:Em; cbn [negb].
  - pose proof (masked_len t Em) as Hml.
    assert (Hrm : Forall (fun o => 0 <= o < zlen (mt_mask t)) offs) by (rewrite Hml; exact Hr).
    destruct (gather_total (mt_mask t) offs Hrm) as [g Eg]. rewrite Eg.
    destruct (gather_reads _ _ _ Eg) as [Hgl _].
    replace (zlen (mt_mask t) <? zlen g) with false by (unfold zlen in *; lia).
    set (m' := g ++ repeat false (length (mt_mask t) - length g)).
    set (t' := mkMT V a' None (mt_view t) (copy_prefix (mt_data t) tmp) m' (mt_soft t)).
    assert (Hm'l : length m' = length (mt_mask t)).
    { unfold m'. rewrite app_length, repeat_length. unfold zlen in *. lia. }
    assert (Em' : k_is_masked V t' = true).
    { unfold k_is_masked, mt_len, t', zlen. cbn [mt_mask mt_data]. unfold zlen in Hml. lia. }
    assert (Hw' : wf_mt t').
    { unfold wf_mt, wf_ap, mt_len, t'. cbn [mt_ap mt_data]. fold a'. rewrite Hoa'.
      split; [exact Hp|]. split; [apply calc_strides_length|].
      unfold zlen. rewrite Hdl. exact Hrng. }
    exists t'. split; [reflexivity|]. unfold t' at 1 2 3. cbn [mt_old mt_ap shp str a'].
    repeat (split; [reflexivity|]). split; [exact Em'|]. split.
    + rewrite (logical_offsets t' Hp (calc_strides_length _)), (logical_offsets t Hp Hl).
      unfold t'. cbn [mt_ap mt_data]. fold a'. rewrite Hoa'. fold offs.
      rewrite copy_prefix_app by (unfold zlen in Hsz; lia).
      apply gather_prefix_reads. exact Etmp.
    + rewrite (logical_mask_offsets t' Hw'), (logical_mask_offsets t Hw).
      unfold emask. rewrite Em', Em. unfold t'. cbn [mt_ap mt_mask]. fold a'. rewrite Hoa'. fold offs.
      rewrite (bits_as_reads (mt_mask t) offs Hrm).
      rewrite (bits_as_reads m').
      2:{ unfold zlen. rewrite Hm'l. fold (zlen (mt_mask t)). rewrite Hml. exact Hrng. }
      apply gather_prefix_reads. exact Eg.
  - set (t' := mkMT V a' None (mt_view t) (copy_prefix (mt_data t) tmp) (mt_mask t) (mt_soft t)).
    assert (Em' : k_is_masked V t' = false).
    { unfold k_is_masked, mt_len, t', zlen in *. cbn [mt_mask mt_data]. rewrite Hdl. exact Em. }
    assert (Hw' : wf_mt t').
    { unfold wf_mt, wf_ap, mt_len, t'. cbn [mt_ap mt_data]. fold a'. rewrite Hoa'.
      split; [exact Hp|]. split; [apply calc_strides_length|].
      unfold zlen. rewrite Hdl. exact Hrng. }
    exists t'. split; [reflexivity|]. unfold t' at 1 2 3. cbn [mt_old mt_ap shp str a'].
    repeat (split; [reflexivity|]). split; [exact Em'|]. split.
    + rewrite (logical_offsets t' Hp (calc_strides_length _)), (logical_offsets t Hp Hl).
      unfold t'. cbn [mt_ap mt_data]. fold a'. rewrite Hoa'. fold offs.
      rewrite copy_prefix_app by (unfold zlen in Hsz; lia).
      apply gather_prefix_reads. exact Etmp.
    + rewrite (logical_mask_offsets t' Hw'), (logical_mask_offsets t Hw).
      unfold emask. rewrite Em', Em. unfold t'. cbn [mt_ap]. fold a'. rewrite Hoa'. fold offs.
      assert (Hc : forall l : list Z, map (fun x => @Ok bool (bit [] x)) l = repeat (Ok false) (length l)).
      { intro l. rewrite <- map_map_const. apply map_ext. intro x. rewrite bit_nil. reflexivity. }
      rewrite !Hc, zseq_length. reflexivity.
Qed.

(* ---------- 4. masked elementwise operations ---------- *)
Variable vop : V -> V -> V.

(* what the validity-aware OpIter loop writes, read off the two offset lists *)
Fixpoint binop_offs (ea eb : list bool) (l : list (Z * Z)) (da db : list V) : list V :=
  match l with
  | [] => da
  | (i, j) :: r =>
    binop_offs ea eb r
      (if negb (bit ea i) && negb (bit eb j) then
         match zget da i, zget db j with
         | Some x, Some y => upd da (Z.to_nat i) (vop x y)
         | _, _ => da
         end
       else da) db
  end.

Lemma binop_offs_zlen ea eb db : forall l da, zlen (binop_offs ea eb l da db) = zlen da.
Proof.
  induction l as [|[i j] l IH]; intros da; [reflexivity|]. cbn [binop_offs]. rewrite IH.
  destruct (negb (bit ea i) && negb (bit eb j)); [|reflexivity].
  destruct (zget da i); [|reflexivity]. destruct (zget db j); [apply zlen_upd|reflexivity].
Qed.

Lemma binop_loop_yields (ba bb : bool) (ma mb : list bool) (db : list V) :
  let ea := if ba then ma else [] in
  let eb := if bb then mb else [] in
  forall ita la, yields false ita la -> forall itb lb, yields false itb lb ->
  length la = length lb -> forall da,
  Forall (fun o => 0 <= o < zlen da) la -> Forall (fun o => 0 <= o < zlen db) lb ->
  ea = [] \/ Forall (fun o => 0 <= o < zlen ea) la ->
  eb = [] \/ Forall (fun o => 0 <= o < zlen eb) lb ->
  forall fuel, (length la < fuel)%nat ->
  binop_loop V vop fuel (mkMit ba ma ita) (mkMit bb mb itb) da db
  = Ok (binop_offs ea eb (combine la lb) da db).
Proof.
  intros ea eb ita la Hya.
  induction Hya as [ita Hd Hr|ita ita' i la Hr Hn Hya IH]; intros itb lb Hyb Hlen da Hra Hrb Hea Heb fuel Hf.
  - destruct fuel as [|f]; [cbn in Hf; lia|]. cbn [binop_loop]. unfold mit_next_validity.
    cbn [mi_masked mi_mask mi_it]. fold ea. rewrite (mnv_done ea ita Hd). reflexivity.
  - destruct lb as [|j lb]; [discriminate|]. inversion Hyb as [|? itb' ? ? Hrb' Hnb Hyb']; subst.
    destruct fuel as [|f]; [cbn in Hf; lia|]. cbn [binop_loop]. unfold mit_next_validity.
    cbn [mi_masked mi_mask mi_it]. fold ea eb.
    apply range_tl in Hea as [Hi Hea]. apply range_tl in Heb as [Hj Heb].
    inversion Hra as [|? ? Hia Hra']; subst. inversion Hrb as [|? ? Hjb Hrb'']; subst.
    rewrite (mnv_step ea ita ita' i Hn Hi), (mnv_step eb itb itb' j Hnb Hj).
    unfold mit_with. cbn [mi_masked mi_mask combine binop_offs].
    destruct (negb (bit ea i) && negb (bit eb j)).
    + destruct (zget_some da i Hia) as [x Ex]. destruct (zget_some db j Hjb) as [y Ey].
      rewrite Ex, Ey. rewrite zset_spec by exact Hia.
      apply IH; [exact Hyb'|cbn in Hlen; lia|rewrite zlen_upd; exact Hra'|exact Hrb''|exact Hea|exact Heb|cbn in Hf; lia].
    + apply IH; [exact Hyb'|cbn in Hlen; lia|exact Hra'|exact Hrb''|exact Hea|exact Heb|cbn in Hf; lia].
Qed.

(* cells that are not among the written offsets keep their value *)
Lemma binop_offs_other ea eb db : forall l da o, 0 <= o ->
  Forall (fun p => 0 <= fst p) l -> ~ In o (map fst l) ->
  rd (binop_offs ea eb l da db) o = rd da o.
Proof.
  induction l as [|[i j] l IH]; intros da o Ho Hl Hni; [reflexivity|].
  inversion Hl as [|? ? Hi Hl']; subst. cbn [fst] in Hi. cbn [map fst In] in Hni.
  cbn [binop_offs]. rewrite IH; [|exact Ho|exact Hl'|tauto].
  destruct (negb (bit ea i) && negb (bit eb j)); [|reflexivity].
  destruct (zget da i); [|reflexivity]. destruct (zget db j); [|reflexivity].
  apply rd_upd_other; [exact Hi|exact Ho|]. intros ->. tauto.
Qed.

(* the cell of each visited pair: the operation where both are valid, the old value otherwise *)
Lemma binop_offs_rd ea eb db : forall l da i j x y, NoDup (map fst l) ->
  Forall (fun p => 0 <= fst p < zlen da) l -> In (i, j) l ->
  zget da i = Some x -> zget db j = Some y ->
  rd (binop_offs ea eb l da db) i
  = Ok (if negb (bit ea i) && negb (bit eb j) then vop x y else x).
Proof.
  induction l as [|[i0 j0] l IH]; intros da i j x y Hnd Hl Hin Hx Hy; [destruct Hin|].
  cbn [map fst] in Hnd. inversion Hnd as [|? ? Hni Hnd']; subst.
  inversion Hl as [|? ? Hi0 Hl']; subst. cbn [fst] in Hi0.
  assert (Hl0 : Forall (fun p : Z * Z => 0 <= fst p) l).
  { eapply Forall_impl; [|exact Hl']. cbn. intros p Hp. lia. }
  cbn [binop_offs]. destruct Hin as [E|Hin].
  - injection E as -> ->. rewrite binop_offs_other; [|lia|exact Hl0|exact Hni].
    rewrite Hx, Hy. destruct (negb (bit ea i) && negb (bit eb j)).
    + apply rd_upd_same. exact Hi0.
    + unfold rd. rewrite Hx. reflexivity.
  - assert (Hne : i0 <> i).
    { intros ->. apply Hni. apply in_map_iff. exists (i, j). split; [reflexivity|exact Hin]. }
    apply (IH _ i j x y Hnd'); [| exact Hin | | exact Hy].
    + destruct (negb (bit ea i0) && negb (bit eb j0)); [|exact Hl'].
      destruct (zget da i0); [|exact Hl']. destruct (zget db j0); [|exact Hl'].
      rewrite zlen_upd. exact Hl'.
    + destruct (negb (bit ea i0) && negb (bit eb j0)); [|exact Hx].
      destruct (zget da i0); [|exact Hx]. destruct (zget db j0); [|exact Hx].
      pose proof (zget_range _ _ _ Hx) as Hir. rewrite zget_nth_error in * by lia.
      rewrite nth_error_upd_other by lia. exact Hx.
Qed.

Lemma combine_map_same {A B C} (f : A -> B) (g : A -> C) : forall l,
  combine (map f l) (map g l) = map (fun c => (f c, g c)) l.
Proof. induction l as [|x l IH]; [reflexivity|]. cbn. rewrite IH. reflexivity. Qed.

(* the pairs of offsets the two iterators deliver in lock step *)
Definition pair_offs (a b : mten V) : list (Z * Z) :=
  map (fun c => (dot (str (mt_ap a)) c, dot (str (mt_ap b)) c)) (coords (shp (mt_ap a))).

Definition binop_res (a b : mten V) : list V :=
  binop_offs (emask a) (emask b) (pair_offs a b) (mt_data a) (mt_data b).

Lemma pair_offs_combine (a b : mten V) : shp (mt_ap a) = shp (mt_ap b) ->
  combine (offsets (mt_ap a)) (offsets (mt_ap b)) = pair_offs a b.
Proof. intro Hs. unfold offsets, pair_offs. rewrite <- Hs. apply combine_map_same. Qed.

Lemma pair_offs_fst (a b : mten V) : map fst (pair_offs a b) = offsets (mt_ap a).
Proof. unfold pair_offs, offsets. rewrite map_map. reflexivity. Qed.

Lemma op_iter_general (dx : list V) (mx : mit) (b : mten V) :
  zlen dx <> 1 -> mt_len V b <> 1 ->
  op_iter V vop dx mx b = binop_loop V vop (mit_fuel mx) mx (k_miter V b) dx (mt_data b).
Proof.
  unfold mt_len, op_iter. intros Ha Hb.
  destruct dx as [|x [|x' dx']]; [|unfold zlen in Ha; cbn in Ha; lia|];
    (destruct (mt_data b) as [|y [|y' db']]; [|unfold zlen in Hb; cbn in Hb; lia|]); reflexivity.
Qed.

Lemma use_iter_masked_l (a b : mten V) r : k_is_masked V a = true -> mt_len V a <> 1 ->
  use_iter V a b r = true.
Proof.
  intros Hm Hl. unfold use_iter, k_requires_iterator. rewrite Hm.
  replace (mt_len V a =? 1) with false by lia. rewrite !orb_true_r. reflexivity.
Qed.

Lemma use_iter_masked_r (a b : mten V) r : k_is_masked V b = true -> mt_len V b <> 1 ->
  use_iter V a b r = true.
Proof.
  intros Hm Hl. unfold use_iter, k_requires_iterator. rewrite Hm.
  replace (mt_len V b =? 1) with false by lia. rewrite !orb_true_r. cbn [orb]. reflexivity.
Qed.

(* the data of the result on the iterator path, common to the safe and the unsafe variant *)
Lemma binop_iter_data (a b : mten V) :
  wf_mt a -> wf_mt b -> shp (mt_ap a) = shp (mt_ap b) ->
  mt_len V a <> 1 -> mt_len V b <> 1 ->
  op_iter V vop (mt_data a) (k_miter V a) b = Ok (binop_res a b).
Proof.
  intros (Hpa & Hla & Hra) (Hpb & Hlb & Hrb) Hs Hna Hnb.
  rewrite op_iter_general by assumption. unfold k_miter, binop_res.
  rewrite <- (pair_offs_combine a b Hs).
  apply (binop_loop_yields (k_is_masked V a) (k_is_masked V b) (mt_mask a) (mt_mask b) (mt_data b)
           _ _ (yields_new _ Hpa Hla) _ _ (yields_new _ Hpb Hlb)).
  - rewrite !offsets_length, Hs. reflexivity.
  - exact Hra.
  - exact Hrb.
  - apply (emask_range a). exact Hra.
  - apply (emask_range b). exact Hrb.
  - rewrite offsets_length. unfold mit_fuel, new_iter. cbn [mi_it it_size]. lia.
Qed.

(* ... and what it holds at every coordinate *)
Lemma binop_res_at (a b : mten V) c :
  wf_mt a -> wf_mt b -> shp (mt_ap a) = shp (mt_ap b) -> NoDup (offsets (mt_ap a)) ->
  inbox (shp (mt_ap a)) c ->
  exists x y,
    window_at (mt_data a) (shp (mt_ap a)) (str (mt_ap a)) c = Ok x /\
    window_at (mt_data b) (shp (mt_ap b)) (str (mt_ap b)) c = Ok y /\
    window_at (binop_res a b) (shp (mt_ap a)) (str (mt_ap a)) c
    = Ok (if bit (emask a) (dot (str (mt_ap a)) c) || bit (emask b) (dot (str (mt_ap b)) c)
          then x else vop x y).
Proof.
  intros (Hpa & Hla & Hra) (Hpb & Hlb & Hrb) Hs Hnd Hc.
  assert (Hcb : inbox (shp (mt_ap b)) c) by (rewrite <- Hs; exact Hc).
  rewrite !window_at_rd by assumption.
  set (i := dot (str (mt_ap a)) c). set (j := dot (str (mt_ap b)) c).
  assert (Hi : 0 <= i < zlen (mt_data a)).
  { rewrite Forall_forall in Hra. apply Hra. apply in_offsets; assumption. }
  assert (Hj : 0 <= j < zlen (mt_data b)).
  { rewrite Forall_forall in Hrb. apply Hrb. apply in_offsets; assumption. }
  destruct (rd_ok _ _ Hi) as (x & Erx & Ex). destruct (rd_ok _ _ Hj) as (y & Ery & Ey).
  exists x, y. split; [exact Erx|]. split; [exact Ery|]. unfold binop_res.
  rewrite (binop_offs_rd (emask a) (emask b) (mt_data b) (pair_offs a b) (mt_data a) i j x y).
  - destruct (bit (emask a) i), (bit (emask b) j); reflexivity.
  - rewrite pair_offs_fst. exact Hnd.
  - apply Forall_forall. intros p Hp.
    assert (Hf : In (fst p) (offsets (mt_ap a))) by (rewrite <- (pair_offs_fst a b); apply in_map; exact Hp).
    rewrite Forall_forall in Hra. apply Hra. exact Hf.
  - unfold pair_offs. apply in_map_iff. exists c. split; [reflexivity|apply inbox_in_coords; assumption].
  - exact Ex.
  - exact Ey.
Qed.

Lemma emask_with_data_clone (a : mten V) d : wf_mt a -> zlen d = zlen (mt_data a) ->
  emask (with_data V (k_clone V a) d) = emask a /\ mt_mask (with_data V (k_clone V a) d) = emask a.
Proof.
  intros Hw Hd. pose proof (wf_ap_window_pos _ _ Hw) as Hpos. unfold mt_len in Hpos.
  unfold emask, k_clone, with_data, k_is_masked, mt_len. cbn [mt_mask mt_data].
  fold (mt_len V a). fold (k_is_masked V a). destruct (k_is_masked V a) eqn:Em.
  - apply masked_len in Em. replace (zlen (mt_mask a) =? zlen d) with true by lia. auto.
  - replace (zlen (@nil bool) =? zlen d) with false by (unfold zlen in *; cbn [length]; lia). auto.
Qed.

(* M4, iterator path (every masked operand of more than one cell takes it): the result is a
   clone of the first operand, carries the FIRST operand's mask (the second operand's mask is
   not merged), and holds at every coordinate the operation on the two elements when the
   position is valid in both operands, and the first operand's element otherwise *)
Theorem binop_valid_positions_thm (a b : mten V) :
  wf_mt a -> wf_mt b -> shp (mt_ap a) = shp (mt_ap b) -> NoDup (offsets (mt_ap a)) ->
  mt_len V a <> 1 -> mt_len V b <> 1 -> use_iter V a b None = true ->
  exists r, k_binop V vop a b = Ok r /\
    mt_ap r = mt_ap a /\ mt_old r = mt_old a /\ mt_mask r = emask a /\
    forall c, inbox (shp (mt_ap a)) c ->
      exists x y ma mb,
        window_at (mt_data a) (shp (mt_ap a)) (str (mt_ap a)) c = Ok x /\
        window_at (mt_data b) (shp (mt_ap b)) (str (mt_ap b)) c = Ok y /\
        k_maskat V a c = Ok ma /\ k_maskat V b c = Ok mb /\
        k_maskat V r c = Ok ma /\
        window_at (mt_data r) (shp (mt_ap r)) (str (mt_ap r)) c
        = Ok (if ma || mb then x else vop x y).
Proof.
  intros Hwa Hwb Hs Hnd Hna Hnb Hui. unfold k_binop. rewrite Hui.
  change (mt_data (k_clone V a)) with (mt_data a).
  rewrite (binop_iter_data a b Hwa Hwb Hs Hna Hnb).
  assert (Hd : zlen (binop_res a b) = zlen (mt_data a)) by apply binop_offs_zlen.
  destruct (emask_with_data_clone a (binop_res a b) Hwa Hd) as [Hem Hmk].
  set (r := with_data V (k_clone V a) (binop_res a b)) in *.
  assert (Hwr : wf_mt r).
  { unfold wf_mt, mt_len, r. cbn [with_data k_clone mt_ap mt_data]. rewrite Hd. exact Hwa. }
  exists r. split; [reflexivity|]. split; [reflexivity|]. split; [reflexivity|]. split; [exact Hmk|].
  intros c Hc. destruct (binop_res_at a b c Hwa Hwb Hs Hnd Hc) as (x & y & Hx & Hy & Hres).
  exists x, y, (bit (emask a) (dot (str (mt_ap a)) c)), (bit (emask b) (dot (str (mt_ap b)) c)).
  split; [exact Hx|]. split; [exact Hy|]. split; [apply maskat_bit; assumption|].
  split; [apply maskat_bit; [exact Hwb|rewrite <- Hs; exact Hc]|]. split.
  - rewrite (maskat_bit r c Hwr Hc), Hem. reflexivity.
  - exact Hres.
Qed.

(* UseUnsafe(): the same values, written into the first operand itself *)
Theorem binop_unsafe_valid_positions_thm (a b : mten V) :
  wf_mt a -> wf_mt b -> shp (mt_ap a) = shp (mt_ap b) -> NoDup (offsets (mt_ap a)) ->
  mt_len V a <> 1 -> mt_len V b <> 1 -> use_iter V a b None = true ->
  exists r, k_binop_unsafe V vop a b = Ok r /\
    mt_ap r = mt_ap a /\ mt_old r = mt_old a /\ mt_view r = mt_view a /\
    mt_mask r = mt_mask a /\ mt_soft r = mt_soft a /\
    forall c, inbox (shp (mt_ap a)) c ->
      exists x y ma mb,
        window_at (mt_data a) (shp (mt_ap a)) (str (mt_ap a)) c = Ok x /\
        window_at (mt_data b) (shp (mt_ap b)) (str (mt_ap b)) c = Ok y /\
        k_maskat V a c = Ok ma /\ k_maskat V b c = Ok mb /\
        k_maskat V r c = Ok ma /\
        window_at (mt_data r) (shp (mt_ap r)) (str (mt_ap r)) c
        = Ok (if ma || mb then x else vop x y).
Proof.
  intros Hwa Hwb Hs Hnd Hna Hnb Hui. unfold k_binop_unsafe. rewrite Hui.
  rewrite (binop_iter_data a b Hwa Hwb Hs Hna Hnb).
  assert (Hd : zlen (binop_res a b) = zlen (mt_data a)) by apply binop_offs_zlen.
  set (r := with_data V a (binop_res a b)) in *.
  assert (Hmr : k_is_masked V r = k_is_masked V a).
  { unfold k_is_masked, mt_len, r. cbn [with_data mt_mask mt_data]. rewrite Hd. reflexivity. }
  assert (Hem : emask r = emask a) by (unfold emask; rewrite Hmr; reflexivity).
  assert (Hwr : wf_mt r).
  { unfold wf_mt, mt_len, r. cbn [with_data mt_ap mt_data]. rewrite Hd. exact Hwa. }
  exists r. split; [reflexivity|]. repeat (split; [reflexivity|]).
  intros c Hc. destruct (binop_res_at a b c Hwa Hwb Hs Hnd Hc) as (x & y & Hx & Hy & Hres).
  exists x, y, (bit (emask a) (dot (str (mt_ap a)) c)), (bit (emask b) (dot (str (mt_ap b)) c)).
  split; [exact Hx|]. split; [exact Hy|]. split; [apply maskat_bit; assumption|].
  split; [apply maskat_bit; [exact Hwb|rewrite <- Hs; exact Hc]|]. split.
  - rewrite (maskat_bit r c Hwr Hc), Hem. reflexivity.
  - exact Hres.
Qed.

(* one-cell operands (the "scalar header" dispatch of OpIter, and the contiguous path, which a
   masked operand only reaches with one cell): the operation is applied whatever the masks say *)
Theorem binop_one_cell_thm (a b : mten V) x y : mt_data a = [x] -> mt_data b = [y] ->
  k_binop V vop a b = Ok (with_data V (k_clone V a) [vop x y]) /\
  k_binop_unsafe V vop a b = Ok (with_data V a [vop x y]).
Proof.
  intros Ha Hb. unfold k_binop, k_binop_unsafe, op_iter, mt_len.
  change (mt_data (k_clone V a)) with (mt_data a). rewrite Ha, Hb.
  destruct (use_iter V a b None); split; reflexivity.
Qed.

(* ---------- 5. the edge finders ---------- *)
(* one seek in either direction (MaskedProofs.seek_yields is the forward instance) *)
Lemma seek_yields_r (r w : bool) (m : list bool) : forall it l, yields r it l ->
  Forall (fun o => 0 <= o < zlen m) l -> forall fuel c, (length l < fuel)%nat ->
  (exists pre o post it', l = pre ++ o :: post /\
      Forall (fun x => bit m x = negb w) pre /\ bit m o = w /\ yields r it' post /\
      exists cnt, miter_seek fuel w m it c = (it', Ok (o, cnt, true)))
  \/ (Forall (fun x => bit m x = negb w) l /\
      exists it' cnt, miter_seek fuel w m it c = (it', Ok (-1, cnt, false)) /\ yields r it' []).
Proof.
  induction 1 as [it Hd Hr|it it' o l Hr Hn Hy IH]; intros Hv fuel c Hf.
  - right. split; [constructor|]. destruct fuel as [|f]; [cbn in Hf; lia|].
    cbn [miter_seek]. rewrite (iter_next_done it Hd). eexists _, _. split; [reflexivity|].
    constructor; assumption.
  - inversion Hv as [|? ? Ho Hv']; subst. destruct fuel as [|f]; [cbn in Hf; lia|].
    cbn [miter_seek]. rewrite Hn, (zget_nth m o Ho). fold (bit m o).
    destruct (Bool.eqb (bit m o) w) eqn:E.
    + left. exists [], o, l, it'. split; [reflexivity|]. split; [constructor|].
      split; [apply eqb_prop; exact E|]. split; [exact Hy|]. eexists. reflexivity.
    + assert (Hb : bit m o = negb w).
      { destruct (bit m o), w; cbn in E; try discriminate; reflexivity. }
      destruct (IH Hv' f (c + 1)) as [(pre & o' & post & it'' & -> & Hpre & Ho' & Hy' & cnt & Hs)|(Hall & it'' & cnt & Hs & Hy')];
        [cbn in Hf; lia| |].
      * left. exists (o :: pre), o', post, it''. split; [reflexivity|].
        split; [constructor; assumption|]. split; [exact Ho'|]. split; [exact Hy'|].
        exists cnt. exact Hs.
      * right. split; [constructor; assumption|]. exists it'', cnt. split; assumption.
Qed.

(* the fields Next never changes *)
Definition frame_eq (it it' : fiter) : Prop :=
  it_shape it' = it_shape it /\ it_strides it' = it_strides it /\ it_size it' = it_size it /\
  it_vdim it' = it_vdim it /\ it_scalar it' = it_scalar it /\ it_vec it' = it_vec it.

Lemma frame_eq_refl it : frame_eq it it.
Proof. unfold frame_eq. tauto. Qed.

Lemma frame_eq_next it : frame_eq it (fst (iter_next it)).
Proof. pose proof (iter_next_frame it) as F. unfold same_frame in F. unfold frame_eq. tauto. Qed.

Lemma frame_eq_trans a b c : frame_eq a b -> frame_eq b c -> frame_eq a c.
Proof.
  unfold frame_eq. intros (A1 & A2 & A3 & A4 & A5 & A6) (B1 & B2 & B3 & B4 & B5 & B6).
  repeat split; congruence.
Qed.

Lemma miter_seek_frame w m : forall fuel it c it' r,
  miter_seek fuel w m it c = (it', r) -> frame_eq it it'.
Proof.
  induction fuel as [|f IH]; intros it c it' r H; cbn [miter_seek] in H.
  - injection H as <- _. apply frame_eq_refl.
  - pose proof (frame_eq_next it) as F. destruct (iter_next it) as [it1 [o| |]] eqn:En; cbn [fst] in F.
    + destruct (zget m o) as [b|].
      * destruct (Bool.eqb b w).
        -- injection H as <- _. exact F.
        -- apply IH in H. eapply frame_eq_trans; eassumption.
      * injection H as <- _. exact F.
    + injection H as <- _. exact F.
    + injection H as <- _. exact F.
Qed.

Lemma set_dir_true_frame it it' : frame_eq it it' ->
  iter_set_dir it' true
  = match iter_set_dir it true with
    | Ok i => Ok (set_last i (it_last it'))
    | Err => Err
    | Panic => Panic
    end.
Proof.
  intros (A1 & A2 & A3 & A4 & A5 & A6). unfold iter_set_dir, iter_reset.
  cbn [it_done it_scalar it_vec it_strides it_shape it_rev it_track it_next it_last it_size it_vdim].
  rewrite A1, A2, A3, A4, A5, A6.
  destruct (if is_scalar (it_shape it) then Some 0
            else if it_vec it then
              match nth_error (it_shape it) (it_vdim it), nth_error (it_strides it) (it_vdim it) with
              | Some s0, Some k0 => Some ((s0 - 1) * k0)
              | _, _ => None
              end
            else if (length (it_strides it) <? length (it_shape it))%nat then None
            else Some (dot (map (fun s => s - 1) (it_shape it)) (it_strides it))); reflexivity.
Qed.

(* the remembered last index plays no part in what Next delivers *)
Lemma iter_next_set_last it x :
  exists y, iter_next (set_last it x) = (set_last (fst (iter_next it)) y, snd (iter_next it)).
Proof.
  destruct it as [sh st tr nx la sz dn vd rv sc vc]. unfold iter_next, set_last.
  cbn [it_done it_scalar it_vec it_strides it_shape it_rev it_track it_next it_last it_size it_vdim].
  destruct dn; [exists x; reflexivity|].
  destruct sc; [exists x; reflexivity|].
  destruct vc.
  - destruct (set_track tr vd _); [exists nx|exists x]; reflexivity.
  - destruct (length st <? length sh)%nat; [exists x; reflexivity|].
    destruct (if rv then nd_dec sh st tr else nd_inc sh st tr) as [[tr' d] carry].
    exists nx. reflexivity.
Qed.

Lemma yields_set_last r it l : yields r it l -> forall x, yields r (set_last it x) l.
Proof.
  induction 1 as [it Hd Hr|it it' o l Hr Hn Hy IH]; intro x.
  - apply y_nil; [exact Hd|exact Hr].
  - destruct (iter_next_set_last it x) as [y E]. rewrite Hn in E. cbn [fst snd] in E.
    eapply y_cons; [exact Hr|exact E|apply IH].
Qed.

Lemma set_dir_false_new a : iter_set_dir (new_iter a) false = Ok (new_iter a).
Proof.
  unfold iter_set_dir, iter_reset, new_iter.
  cbn [it_done it_scalar it_vec it_strides it_shape it_rev it_track it_next it_last it_size it_vdim].
  rewrite map_map. reflexivity.
Qed.

(* first offset of the list whose bit is [want]; -1 when there is none *)
Definition first_offs (want : bool) (m : list bool) (l : list Z) : Z :=
  match find (fun o => Bool.eqb (bit m o) want) l with Some o => o | None => -1 end.

Lemma find_app {A} (P : A -> bool) : forall l1 l2,
  find P (l1 ++ l2) = match find P l1 with Some x => Some x | None => find P l2 end.
Proof.
  induction l1 as [|x l1 IH]; intro l2; [reflexivity|]. cbn [app find].
  destruct (P x); [reflexivity|apply IH].
Qed.

Lemma find_none_forall want m l : Forall (fun x => bit m x = negb want) l ->
  find (fun o => Bool.eqb (bit m o) want) l = None.
Proof.
  induction 1 as [|x l Hx Hl IH]; [reflexivity|]. cbn [find]. rewrite Hx.
  replace (Bool.eqb (negb want) want) with false by (destruct want; reflexivity). exact IH.
Qed.

Lemma first_offs_found want m pre o post : Forall (fun x => bit m x = negb want) pre ->
  bit m o = want -> first_offs want m (pre ++ o :: post) = o.
Proof.
  intros Hpre Ho. unfold first_offs. rewrite find_app, (find_none_forall want m pre Hpre).
  cbn [find]. rewrite Ho, eqb_reflx. reflexivity.
Qed.

Lemma first_offs_none want m l : Forall (fun x => bit m x = negb want) l ->
  first_offs want m l = -1.
Proof. intro H. unfold first_offs. rewrite (find_none_forall want m l H). reflexivity. Qed.

(* FlatNotMaskedEdges / FlatMaskedEdges for ANY layout: the first wanted offset the forward
   iterator meets and the first one the reversed iterator meets *)
Theorem edges_follow_iterator_thm (t : mten V) (want : bool) :
  k_is_masked V t = true -> wf_mt t ->
  k_edges V want t
  = Ok (first_offs want (mt_mask t) (offsets (mt_ap t)),
        first_offs want (mt_mask t) (rev (offsets (mt_ap t)))).
Proof.
  intros Hm Hw. pose proof Hw as (Hp & Hl & Hr). pose proof (masked_len t Hm) as Hlen.
  pose proof (wf_ap_window_pos _ _ Hw) as Hpos. unfold mt_len in Hpos, Hr.
  assert (Hne : mt_mask t <> []).
  { intro E. rewrite E in Hlen. unfold zlen in Hlen, Hpos. cbn [length] in Hlen. lia. }
  assert (Hrm : Forall (fun o => 0 <= o < zlen (mt_mask t)) (offsets (mt_ap t))) by (rewrite Hlen; exact Hr).
  unfold k_edges. rewrite Hm. cbn [negb]. unfold k_miter. rewrite Hm. cbn [mi_it].
  rewrite set_dir_false_new. unfold mit_with. cbn [mi_masked mi_mask].
  fold (masked_mit (mt_mask t) (new_iter (mt_ap t))).
  rewrite (mit_next_masked want _ _ Hne).
  destruct (seek_yields_r false want (mt_mask t) _ _ (yields_new _ Hp Hl) Hrm
              (mit_fuel (masked_mit (mt_mask t) (new_iter (mt_ap t)))) 0)
    as [(pre & o & post & it1 & El & Hpre & Ho & Hy1 & cnt & Hs)|(Hall & it1 & cnt & Hs & Hy1)].
  { rewrite offsets_length. unfold mit_fuel, masked_mit, new_iter. cbn [mi_it it_size]. lia. }
  - rewrite Hs. unfold masked_mit at 1. cbn [mi_it mi_masked mi_mask].
    pose proof (miter_seek_frame _ _ _ _ _ _ _ Hs) as Hfr.
    rewrite (set_dir_true_frame _ _ Hfr).
    destruct (reverse_yields _ Hp Hl) as (it0 & E0 & Hy0). rewrite E0.
    fold (masked_mit (mt_mask t) (set_last it0 (it_last it1))).
    rewrite (mit_next_masked want _ _ Hne).
    assert (Hrr : Forall (fun o => 0 <= o < zlen (mt_mask t)) (rev (offsets (mt_ap t)))).
    { apply Forall_forall. intros x Hx. apply in_rev in Hx. rewrite Forall_forall in Hrm. auto. }
    assert (Hsz0 : it_size (set_last it0 (it_last it1)) = size (shp (mt_ap t))).
    { unfold set_last. cbn [it_size]. unfold iter_set_dir, iter_reset in E0.
      cbn [it_done it_scalar it_vec it_strides it_shape it_rev it_track it_next it_last it_size it_vdim new_iter] in E0.
      destruct (if is_scalar (shp (mt_ap t)) then _ else _) in E0; [|discriminate].
      injection E0 as <-. reflexivity. }
    destruct (seek_yields_r true want (mt_mask t) _ _ (yields_set_last _ _ _ Hy0 (it_last it1)) Hrr
                (mit_fuel (masked_mit (mt_mask t) (set_last it0 (it_last it1)))) 0)
      as [(pre2 & o2 & post2 & it2 & El2 & Hpre2 & Ho2 & Hy2 & cnt2 & Hs2)|(Hall2 & it2 & cnt2 & Hs2 & Hy2)].
    { rewrite rev_length, offsets_length. unfold mit_fuel, masked_mit. cbn [mi_it]. rewrite Hsz0. lia. }
    + rewrite Hs2. rewrite El, (first_offs_found want _ pre o post Hpre Ho).
      rewrite <- El, El2, (first_offs_found want _ pre2 o2 post2 Hpre2 Ho2). reflexivity.
    + rewrite Hs2. rewrite El, (first_offs_found want _ pre o post Hpre Ho).
      rewrite <- El, (first_offs_none want _ _ Hall2). reflexivity.
  - rewrite Hs. rewrite (first_offs_none want _ _ Hall).
    rewrite first_offs_none; [reflexivity|].
    apply Forall_forall. intros x Hx. apply in_rev in Hx. rewrite Forall_forall in Hall. auto.
Qed.

(* on the row-major flattening the two readings are the SPEC's first and last index *)
Lemma bit_app (pre m : list bool) k : 0 <= k -> bit (pre ++ m) (zlen pre + k) = bit m k.
Proof.
  intro Hk. unfold bit, zlen. replace (Z.to_nat (Z.of_nat (length pre) + k)) with (length pre + Z.to_nat k)%nat by lia.
  apply app_nth2_plus.
Qed.

Lemma bit_app_hd (pre : list bool) b r i : i = zlen pre -> bit (pre ++ b :: r) i = b.
Proof. intros ->. rewrite <- (Z.add_0_r (zlen pre)), bit_app by lia. reflexivity. Qed.

Lemma zlen_snoc {A} (l : list A) x : zlen (l ++ [x]) = zlen l + 1.
Proof. unfold zlen. rewrite app_length. cbn [length]. lia. Qed.

Lemma first_zseq want : forall m pre i, i = zlen pre ->
  first_offs want (pre ++ m) (zseq i (length m)) = ks_first want m i.
Proof.
  induction m as [|b r IH]; intros pre i Hi; [reflexivity|].
  cbn [length zseq ks_first]. unfold first_offs. cbn [find].
  rewrite (bit_app_hd pre b r i Hi). destruct (Bool.eqb b want); [reflexivity|].
  specialize (IH (pre ++ [b]) (i + 1)). unfold first_offs in IH.
  rewrite <- app_assoc in IH. cbn [app] in IH. apply IH. rewrite zlen_snoc. lia.
Qed.

Lemma last_zseq want : forall m pre i acc, i = zlen pre ->
  ks_last want m i acc
  = match find (fun o => Bool.eqb (bit (pre ++ m) o) want) (rev (zseq i (length m))) with
    | Some o => o
    | None => acc
    end.
Proof.
  induction m as [|b r IH]; intros pre i acc Hi; [reflexivity|].
  cbn [length zseq ks_last rev]. rewrite find_app. cbn [find].
  rewrite (bit_app_hd pre b r i Hi).
  rewrite (IH (pre ++ [b]) (i + 1)) by (rewrite zlen_snoc; lia).
  rewrite <- app_assoc. cbn [app].
  destruct (find _ (rev (zseq (i + 1) (length r)))); [reflexivity|].
  destruct (Bool.eqb b want); reflexivity.
Qed.

Lemma plain_masked_wf (t : mten V) : plain_masked V t -> wf_mt t.
Proof.
  intros (Hm & Hp & Hs & Hsz). unfold wf_mt, wf_ap. split; [exact Hp|].
  split; [rewrite Hs; apply calc_strides_length|].
  rewrite (offsets_rowmajor _ Hp Hs). apply Forall_forall. intros o Ho. apply zseq_In in Ho.
  unfold mt_size in Hsz. pose proof (size_pos _ Hp). lia.
Qed.

(* M5a: on a whole-window row-major masked tensor the edge finders return the first and the last
   flat index of the wanted kind, (-1, -1) when there is none *)
Theorem edges_spec_thm (t : mten V) (want : bool) : plain_masked V t ->
  k_edges V want t = Ok (ks_edges want (mt_mask t)).
Proof.
  intros Hpm. pose proof (plain_masked_wf t Hpm) as Hw. destruct Hpm as (Hm & Hp & Hs & Hsz).
  rewrite (edges_follow_iterator_thm t want Hm Hw). rewrite (offsets_rowmajor _ Hp Hs).
  pose proof (masked_len t Hm) as Hlen. unfold mt_size, mt_len in Hsz.
  replace (Z.to_nat (size (shp (mt_ap t)))) with (length (mt_mask t)) by (unfold zlen in *; lia).
  unfold ks_edges. f_equal. f_equal.
  - apply (first_zseq want (mt_mask t) [] 0). reflexivity.
  - rewrite (last_zseq want (mt_mask t) [] 0 (-1)) by reflexivity. reflexivity.
Qed.

(* every masked operand of more than one cell forces the iterator path *)
Theorem masked_operands_use_iterator_thm (a b : mten V) r :
  k_is_masked V a = true \/ k_is_masked V b = true ->
  mt_len V a <> 1 -> mt_len V b <> 1 -> use_iter V a b r = true.
Proof.
  intros [H|H] Ha Hb; [apply use_iter_masked_l|apply use_iter_masked_r]; assumption.
Qed.

(* ---------- 6. counts, any, all through the iterator (views, any layout) ---------- *)
Definition red_of (f : redfn) (bits : list bool) : redval :=
  match f with
  | RCount => RVInt (ks_count bits)
  | RNonCount => RVInt (ks_noncount bits)
  | RAny => RVBool (ks_any bits)
  | RAll => RVBool (ks_all bits)
  end.

Lemma ks_count_app a b : ks_count (a ++ b) = ks_count a + ks_count b.
Proof. unfold ks_count. rewrite count_occ_app. lia. Qed.

Lemma ks_count_cons b l : ks_count (b :: l) = (if b then 1 else 0) + ks_count l.
Proof. unfold ks_count. destruct b; cbn [count_occ]; destruct (bool_dec _ _); try congruence; lia. Qed.

Lemma ks_count_none (m : list bool) l : Forall (fun x => bit m x = false) l ->
  ks_count (map (bit m) l) = 0.
Proof.
  induction 1 as [|x l Hx Hl IH]; [reflexivity|]. cbn [map]. rewrite ks_count_cons, Hx, IH. reflexivity.
Qed.

Lemma existsb_none (m : list bool) l : Forall (fun x => bit m x = false) l ->
  existsb (fun b => b) (map (bit m) l) = false.
Proof. induction 1 as [|x l Hx Hl IH]; [reflexivity|]. cbn [map existsb]. rewrite Hx, IH. reflexivity. Qed.

Lemma forallb_all (m : list bool) l : Forall (fun x => bit m x = true) l ->
  forallb (fun b => b) (map (bit m) l) = true.
Proof. induction 1 as [|x l Hx Hl IH]; [reflexivity|]. cbn [map forallb]. rewrite Hx, IH. reflexivity. Qed.

Lemma count_invalid_yields (m : list bool) : m <> [] ->
  forall n l, (length l <= n)%nat -> forall it acc, yields false it l ->
  Forall (fun o => 0 <= o < zlen m) l ->
  forall fuel, (length l < fuel)%nat -> (length l < Z.to_nat (it_size it) + 2)%nat ->
  count_invalid fuel (masked_mit m it) acc = Ok (acc + ks_count (map (bit m) l)).
Proof.
  intros Hne. induction n as [|n IHn]; intros l Hln it acc Hy Hv fuel Hf Hsz.
  - destruct l; [|cbn in Hln; lia]. destruct fuel as [|f]; [cbn in Hf; lia|].
    cbn [count_invalid]. rewrite (mit_next_masked true m it Hne).
    inversion Hy; subst. unfold mit_fuel, masked_mit. cbn [mi_it miter_seek].
    rewrite (iter_next_done it H). cbn [map]. f_equal. unfold ks_count. cbn. lia.
  - destruct fuel as [|f]; [cbn in Hf; lia|]. cbn [count_invalid].
    rewrite (mit_next_masked true m it Hne).
    destruct (seek_yields true m it l Hy Hv (mit_fuel (masked_mit m it)) 0)
      as [(pre & o & post & it1 & -> & Hpre & Ho & Hy1 & cnt & Hs)|(Hall & it1 & cnt & Hs & Hy1)].
    { unfold mit_fuel, masked_mit. cbn [mi_it]. lia. }
    + rewrite Hs.
      assert (Hv1 : Forall (fun o => 0 <= o < zlen m) post).
      { apply Forall_app in Hv as [_ Hv]. inversion Hv; assumption. }
      assert (Hsz1 : it_size it1 = it_size it) by (eapply miter_seek_size; exact Hs).
      rewrite app_length in *. cbn [length] in *.
      rewrite (IHn post); [| lia | exact Hy1 | exact Hv1 | lia | lia].
      rewrite map_app, ks_count_app. cbn [map]. rewrite ks_count_cons, Ho.
      rewrite (ks_count_none m pre Hpre). f_equal. lia.
    + rewrite Hs. rewrite (ks_count_none m l Hall). f_equal. lia.
Qed.

Lemma bits_zseq (m : list bool) : map (bit m) (zseq 0 (length m)) = m.
Proof.
  assert (G : forall r pre, map (bit (pre ++ r)) (zseq (zlen pre) (length r)) = r).
  { induction r as [|b r IH]; intros pre; [reflexivity|]. cbn [length zseq map].
    rewrite (bit_app_hd pre b r _ eq_refl). f_equal.
    specialize (IH (pre ++ [b])). rewrite <- app_assoc, zlen_snoc in IH. exact IH. }
  exact (G m []).
Qed.

Lemma noncount_of_count (bits : list bool) : zlen bits - ks_count bits = ks_noncount bits.
Proof. pose proof (count_split bits). lia. Qed.

(* counts / any / all of a masked tensor of ANY layout (in particular the views MaskedReduce
   cuts) read the bits at the offsets of the box; [Hdirect] covers the shortcut the code takes
   when the mask is exactly as long as the element count *)
Theorem do_red_bits_thm (ts : mten V) (f : redfn) :
  k_is_masked V ts = true -> wf_mt ts ->
  (zlen (mt_mask ts) = mt_size V ts -> offsets (mt_ap ts) = zseq 0 (length (mt_mask ts))) ->
  do_red V f ts = Ok (red_of f (map (bit (mt_mask ts)) (offsets (mt_ap ts)))).
Proof.
  intros Hm Hw Hdirect. pose proof Hw as (Hp & Hl & Hr). pose proof (masked_len ts Hm) as Hlen.
  pose proof (wf_ap_window_pos _ _ Hw) as Hpos. unfold mt_len in Hpos, Hr.
  assert (Hne : mt_mask ts <> []).
  { intro E. rewrite E in Hlen. unfold zlen in Hlen, Hpos. cbn [length] in Hlen. lia. }
  assert (Hrm : Forall (fun o => 0 <= o < zlen (mt_mask ts)) (offsets (mt_ap ts))) by (rewrite Hlen; exact Hr).
  set (offs := offsets (mt_ap ts)) in *. set (m := mt_mask ts) in *.
  assert (Hnb : zlen (map (bit m) offs) = mt_size V ts).
  { unfold zlen, mt_size, offs. rewrite map_length, offsets_length. pose proof (size_pos _ Hp). lia. }
  assert (Hfuel : (length offs < mit_fuel (masked_mit m (new_iter (mt_ap ts))))%nat).
  { unfold offs. rewrite offsets_length. unfold mit_fuel, masked_mit, new_iter. cbn [mi_it it_size]. lia. }
  assert (Hct : do_mask_ct V ts = Ok (ks_count (map (bit m) offs))).
  { unfold do_mask_ct. rewrite Hm. cbn [negb]. fold m.
    destruct (zlen m =? mt_size V ts) eqn:Ed.
    - rewrite (Hdirect ltac:(lia)). rewrite bits_zseq. rewrite count_true_occ. reflexivity.
    - unfold k_miter. rewrite Hm. fold m. fold (masked_mit m (new_iter (mt_ap ts))).
      rewrite (count_invalid_yields m Hne (length offs) offs (le_n _) _ 0 (yields_new _ Hp Hl) Hrm _ Hfuel).
      + f_equal.
      + unfold offs. rewrite offsets_length. unfold new_iter. cbn [it_size]. lia. }
  destruct f; unfold do_red, red_of.
  - rewrite Hct. reflexivity.
  - unfold do_nonmask_ct. rewrite Hm. cbn [negb]. rewrite Hct. cbn [res_map].
    rewrite <- Hnb. rewrite noncount_of_count. reflexivity.
  - unfold do_mask_any. rewrite Hm. cbn [negb]. fold m.
    destruct (zlen m =? mt_size V ts) eqn:Ed.
    + rewrite (Hdirect ltac:(lia)). rewrite bits_zseq. reflexivity.
    + unfold k_miter. rewrite Hm. fold m. fold (masked_mit m (new_iter (mt_ap ts))).
      rewrite (mit_next_masked true m _ Hne).
      destruct (seek_yields true m _ offs (yields_new _ Hp Hl) Hrm _ 0 Hfuel)
        as [(pre & o & post & it1 & El & Hpre & Ho & Hy1 & cnt & Hs)|(Hall & it1 & cnt & Hs & Hy1)].
      * rewrite Hs. cbn [res_map]. rewrite El in Hrm. apply Forall_app in Hrm as [_ Hrm].
        inversion Hrm; subst. replace (o =? -1) with false by lia. cbn [negb].
        rewrite El, map_app. unfold ks_any. rewrite existsb_app. cbn [map existsb]. rewrite Ho.
        rewrite orb_true_r. reflexivity.
      * rewrite Hs. cbn [res_map Z.eqb negb]. unfold ks_any. rewrite (existsb_none m offs Hall). reflexivity.
  - unfold do_mask_all. rewrite Hm. cbn [negb]. fold m.
    destruct (zlen m =? mt_size V ts) eqn:Ed.
    + rewrite (Hdirect ltac:(lia)). rewrite bits_zseq. reflexivity.
    + unfold k_miter. rewrite Hm. fold m. fold (masked_mit m (new_iter (mt_ap ts))).
      rewrite (mit_next_masked false m _ Hne).
      destruct (seek_yields false m _ offs (yields_new _ Hp Hl) Hrm _ 0 Hfuel)
        as [(pre & o & post & it1 & El & Hpre & Ho & Hy1 & cnt & Hs)|(Hall & it1 & cnt & Hs & Hy1)].
      * rewrite Hs. cbn [res_map]. rewrite El in Hrm. apply Forall_app in Hrm as [_ Hrm].
        inversion Hrm; subst. replace (o =? -1) with false by lia.
        rewrite El, map_app. unfold ks_all. rewrite forallb_app. cbn [map forallb]. rewrite Ho.
        rewrite andb_false_r. reflexivity.
      * rewrite Hs. cbn [res_map Z.eqb]. unfold ks_all. rewrite (forallb_all m offs Hall). reflexivity.
Qed.

(* ---------- 7. MaskedReduce along an axis ---------- *)
(* the trace of a general n-d iterator: the k-th entry carries the offset of the k-th coordinate
   and the track AFTER the step, i.e. the NEXT coordinate (wrapping to zeros at the end) *)
Lemma iter_trace_nd sh st : pos_shape sh -> length st = length sh ->
  forall n k last fuel, 0 <= k -> k + Z.of_nat (S n) = size sh -> (S n < fuel)%nat ->
  iter_trace fuel (nd_st sh st k last false false)
  = Some (map (fun j => (dot st (unrank sh j), unrank sh ((j + 1) mod size sh))) (zseq k (S n))).
Proof.
  intros Hp Hl. induction n as [|n IH]; intros k last fuel Hk Hn Hf.
  - destruct fuel as [|[|f]]; [lia|lia|]. cbn [iter_trace].
    rewrite nd_next_fwd by (auto; lia). replace (k + 1 =? size sh) with true by lia.
    rewrite iter_next_done by reflexivity. cbn [zseq map nd_st it_track]. reflexivity.
  - destruct fuel as [|f]; [lia|]. cbn [iter_trace].
    rewrite nd_next_fwd by (auto; lia). replace (k + 1 =? size sh) with false by lia.
    rewrite Z.mod_small by lia.
    rewrite (IH (k + 1) _ f) by lia.
    change (zseq k (S (S n))) with (k :: zseq (k + 1) (S n)). cbn [map nd_st it_track].
    rewrite Z.mod_small by lia. reflexivity.
Qed.

Lemma trace_of_nd a : pos_shape (shp a) -> length (str a) = length (shp a) ->
  ap_is_vectorlike a = false -> shp a <> [] ->
  trace_of a = Some (map (fun j => (dot (str a) (unrank (shp a) j),
                                    unrank (shp a) ((j + 1) mod size (shp a))))
                         (zseq 0 (Z.to_nat (size (shp a))))).
Proof.
  intros Hp Hl Hv Hs. unfold trace_of. rewrite new_iter_nd by assumption.
  pose proof (size_pos _ Hp) as Hsz.
  destruct (Z.to_nat (size (shp a))) as [|n] eqn:En; [lia|].
  apply iter_trace_nd; auto; lia.
Qed.

(* the slice lists MaskedReduce builds, by recursion over the axes: [d] is the index of the head
   axis, [ax] the reduced axis *)
Fixpoint lane_sl (d ax : nat) (sh c : list Z) : list slice :=
  match sh with
  | [] => []
  | _ :: sh' =>
    if Nat.eqb d ax then None :: lane_sl (S d) ax sh' c
    else match c with
         | x :: c' => Some (x, x + 1, 1) :: lane_sl (S d) ax sh' c'
         | [] => []
         end
  end.

Fixpoint probe_sl (d ax : nat) (sh : list Z) : list slice :=
  match sh with
  | [] => []
  | _ :: sh' => (if Nat.eqb d ax then Some (0, 0, 1) else None) :: probe_sl (S d) ax sh'
  end.

(* the list without / with only the entry of the reduced axis *)
Fixpoint rem_at {A} (d ax : nat) (l : list A) : list A :=
  match l with
  | [] => []
  | s :: l' => if Nat.eqb d ax then rem_at (S d) ax l' else s :: rem_at (S d) ax l'
  end.

Fixpoint kept_at {A} (d ax : nat) (l : list A) : list A :=
  match l with
  | [] => []
  | s :: l' => if Nat.eqb d ax then s :: kept_at (S d) ax l' else kept_at (S d) ax l'
  end.

(* a coordinate of the reduced box with [x] put back on the reduced axis *)
Fixpoint ins_at (d ax : nat) (sh : list Z) (x : Z) (c : list Z) : list Z :=
  match sh with
  | [] => []
  | _ :: sh' =>
    if Nat.eqb d ax then x :: ins_at (S d) ax sh' x c
    else match c with
         | y :: c' => y :: ins_at (S d) ax sh' x c'
         | [] => []
         end
  end.

Fixpoint lane_nsh (d ax : nat) (sh : list Z) : list Z :=
  match sh with
  | [] => []
  | s :: sh' => (if Nat.eqb d ax then s else 1) :: lane_nsh (S d) ax sh'
  end.

Fixpoint probe_nsh (d ax : nat) (sh : list Z) : list Z :=
  match sh with
  | [] => []
  | s :: sh' => (if Nat.eqb d ax then 1 else s) :: probe_nsh (S d) ax sh'
  end.

Fixpoint lane_gap (d ax : nat) (sh c : list Z) : list Z :=
  match sh with
  | [] => []
  | s :: sh' =>
    if Nat.eqb d ax then 0 :: lane_gap (S d) ax sh' c
    else match c with
         | x :: c' => (s - (x + 1)) :: lane_gap (S d) ax sh' c'
         | [] => []
         end
  end.

Lemma rem_at_past {A} ax : forall (l : list A) d, (ax < d)%nat -> rem_at d ax l = l.
Proof.
  induction l as [|s l IH]; intros d H; [reflexivity|]. cbn [rem_at].
  replace (Nat.eqb d ax) with false by (symmetry; apply Nat.eqb_neq; lia). rewrite IH by lia. reflexivity.
Qed.

Lemma kept_at_past {A} ax : forall (l : list A) d, (ax < d)%nat -> kept_at d ax l = [].
Proof.
  induction l as [|s l IH]; intros d H; [reflexivity|]. cbn [kept_at].
  replace (Nat.eqb d ax) with false by (symmetry; apply Nat.eqb_neq; lia). apply IH. lia.
Qed.

Lemma rem_at_spec {A} ax : forall (l : list A) d, (d <= ax)%nat ->
  rem_at d ax l = ks_remove_at (ax - d) l.
Proof.
  unfold ks_remove_at. induction l as [|s l IH]; intros d H.
  - cbn [rem_at]. rewrite firstn_nil, skipn_nil. reflexivity.
  - cbn [rem_at]. destruct (Nat.eqb d ax) eqn:E.
    + apply Nat.eqb_eq in E. subst d. rewrite Nat.sub_diag. cbn [firstn skipn app].
      apply rem_at_past. lia.
    + apply Nat.eqb_neq in E. replace (ax - d)%nat with (S (ax - S d)) by lia.
      cbn [firstn skipn app]. rewrite IH by lia. reflexivity.
Qed.

Lemma kept_at_spec {A} (dflt : A) ax : forall (l : list A) d, (d <= ax)%nat -> (ax < d + length l)%nat ->
  kept_at d ax l = [nth (ax - d) l dflt].
Proof.
  induction l as [|s l IH]; intros d H1 H2; [cbn in H2; lia|]. cbn [kept_at].
  destruct (Nat.eqb d ax) eqn:E.
  - apply Nat.eqb_eq in E. subst d. rewrite Nat.sub_diag. cbn [nth]. f_equal. apply kept_at_past. lia.
  - apply Nat.eqb_neq in E. replace (ax - d)%nat with (S (ax - S d)) by lia. cbn [nth].
    apply IH; [lia|cbn [length] in H2; lia].
Qed.

Lemma ins_at_past ax x : forall sh d c, (ax < d)%nat -> length c = length sh -> ins_at d ax sh x c = c.
Proof.
  induction sh as [|s sh IH]; intros d c H Hl; [destruct c; [reflexivity|discriminate]|].
  destruct c as [|y c]; [discriminate|]. cbn [ins_at].
  replace (Nat.eqb d ax) with false by (symmetry; apply Nat.eqb_neq; lia).
  rewrite IH; [reflexivity|lia|cbn in Hl; lia].
Qed.

Lemma ins_at_spec ax x : forall sh d c, (d <= ax)%nat -> (ax < d + length sh)%nat ->
  S (length c) = length sh -> ins_at d ax sh x c = ks_insert_at (ax - d) x c.
Proof.
  unfold ks_insert_at. induction sh as [|s sh IH]; intros d c H1 H2 Hl; [discriminate|].
  cbn [ins_at]. destruct (Nat.eqb d ax) eqn:E.
  - apply Nat.eqb_eq in E. subst d. rewrite Nat.sub_diag. cbn [firstn skipn app]. f_equal.
    apply ins_at_past; [lia|cbn in Hl; lia].
  - apply Nat.eqb_neq in E. replace (ax - d)%nat with (S (ax - S d)) by lia.
    destruct c as [|y c]; [cbn [length] in *; lia|]. cbn [firstn skipn app]. f_equal.
    apply IH; [lia|cbn [length] in H2; lia|cbn [length] in Hl; lia].
Qed.

Lemma lane_sl_length ax : forall sh d c, inbox (rem_at d ax sh) c ->
  length (lane_sl d ax sh c) = length sh.
Proof.
  induction sh as [|s sh IH]; intros d c Hb; [reflexivity|]. cbn [lane_sl rem_at] in *.
  destruct (Nat.eqb d ax); cbn [length].
  - rewrite IH by exact Hb. reflexivity.
  - destruct c as [|x c]; cbn [inbox] in Hb; [tauto|]. destruct Hb as [_ Hb].
    cbn [length]. rewrite IH by exact Hb. reflexivity.
Qed.

Lemma probe_sl_length ax : forall sh d, length (probe_sl d ax sh) = length sh.
Proof. induction sh as [|s sh IH]; intros d; [reflexivity|]. cbn [probe_sl length]. rewrite IH. reflexivity. Qed.

Lemma probe_sl_past ax : forall sh d, (ax < d)%nat -> probe_sl d ax sh = repeat None (length sh).
Proof.
  induction sh as [|s sh IH]; intros d H; [reflexivity|]. cbn [probe_sl length repeat].
  replace (Nat.eqb d ax) with false by (symmetry; apply Nat.eqb_neq; lia). rewrite IH by lia. reflexivity.
Qed.

Lemma probe_sl_upd ax : forall sh d, (d <= ax)%nat -> (ax < d + length sh)%nat ->
  upd (repeat (None : slice) (length sh)) (ax - d) (Some (0, 0, 1)) = probe_sl d ax sh.
Proof.
  induction sh as [|s sh IH]; intros d H1 H2; [cbn in H2; lia|]. cbn [length repeat probe_sl].
  destruct (Nat.eqb d ax) eqn:E.
  - apply Nat.eqb_eq in E. subst d. rewrite Nat.sub_diag. cbn [upd]. f_equal.
    symmetry. apply probe_sl_past. lia.
  - apply Nat.eqb_neq in E. replace (ax - d)%nat with (S (ax - S d)) by lia. cbn [upd]. f_equal.
    apply IH; [lia|cbn [length] in H2; lia].
Qed.

Lemma red_slices_lane ax : forall sh d c, inbox (rem_at d ax sh) c ->
  red_slices d (length sh) ax c = Some (lane_sl d ax sh c).
Proof.
  induction sh as [|s sh IH]; intros d c Hb; [reflexivity|]. cbn [red_slices length lane_sl rem_at] in *.
  destruct (Nat.eqb d ax).
  - rewrite IH by exact Hb. reflexivity.
  - destruct c as [|x c]; cbn [inbox] in Hb; [tauto|]. destruct Hb as [_ Hb].
    rewrite IH by exact Hb. reflexivity.
Qed.

(* AP.S arithmetic on the three kinds of per-axis slices that occur *)
Lemma ext_axis_full i s : 1 <= s -> ext_axis i 0 s 1 = s.
Proof.
  intro H. unfold ext_axis. rewrite Z.quot_1_r, Z.rem_1_r.
  replace (0 <? 1) with true by reflexivity. replace (0 <? 0) with false by reflexivity.
  cbn [andb]. destruct (s - 0 <=? 0) eqn:E; lia.
Qed.

Lemma ext_axis_unit i x : ext_axis i x (x + 1) 1 = 1.
Proof.
  unfold ext_axis. rewrite Z.quot_1_r, Z.rem_1_r.
  replace (0 <? 1) with true by reflexivity. replace (0 <? 0) with false by reflexivity.
  cbn [andb]. destruct (x + 1 - x <=? 0) eqn:E; lia.
Qed.

Lemma ext_axis_empty i : ext_axis i 0 0 1 = 1.
Proof. reflexivity. Qed.

Lemma slice_details_unit x s : 0 <= x < s ->
  slice_details (Some (x, x + 1, 1)) s = Some (x, x + 1, 1).
Proof.
  intro H. unfold slice_details.
  replace (check_slice x (x + 1) 1 s) with true by (unfold check_slice; lia).
  rewrite Z.min_l by lia. reflexivity.
Qed.

Lemma slice_details_probe s : 1 <= s -> slice_details (Some (0, 0, 1)) s = Some (0, 0, 1).
Proof.
  intro H. unfold slice_details.
  replace (check_slice 0 0 1 s) with true by (unfold check_slice; lia).
  rewrite Z.min_l by lia. reflexivity.
Qed.

Lemma apS_lane ax : forall sh st d c i isvec outer s0 e0 o,
  length st = length sh -> pos_shape sh -> inbox (rem_at d ax sh) c ->
  exists o' s' e',
    apS_loop i sh st (lane_sl d ax sh c) isvec outer s0 e0 o = Ok (lane_nsh d ax sh, st, s', e', o') /\
    s' = s0 + dot st (ins_at d ax sh 0 c) /\ e' = e0 - dot st (lane_gap d ax sh c).
Proof.
  induction sh as [|s sh IH]; intros [|k st] d c i isvec outer s0 e0 o Hl Hp Hb; try discriminate.
  - cbn. eexists _, _, _. split; [reflexivity|]. lia.
  - inversion Hp as [|? ? Hs Hp']; subst. cbn [length] in Hl. injection Hl as Hl.
    rewrite apS_loop_step. cbn [lane_sl rem_at lane_nsh ins_at lane_gap] in *.
    destruct (Nat.eqb d ax).
    + cbn [hd_sl tl slice_details].
      match goal with |- context [apS_loop ?a sh st ?b ?cc ?dd ?e ?f ?g] =>
        destruct (IH st (S d) c a cc dd e f g Hl Hp' Hb) as (o' & s' & e' & E & Es & Ee) end.
      rewrite E. rewrite ext_axis_full by exact Hs. unfold eff_step.
      replace (0 <? 1) with true by reflexivity. rewrite Z.mul_1_r.
      eexists _, _, _. split; [reflexivity|]. cbn [dot]. lia.
    + destruct c as [|x c]; cbn [inbox] in Hb; [tauto|]. destruct Hb as [Hx Hb].
      cbn [hd_sl tl]. rewrite (slice_details_unit x s Hx).
      match goal with |- context [apS_loop ?a sh st ?b ?cc ?dd ?e ?f ?g] =>
        destruct (IH st (S d) c a cc dd e f g Hl Hp' Hb) as (o' & s' & e' & E & Es & Ee) end.
      rewrite E. rewrite ext_axis_unit. unfold eff_step.
      replace (0 <? 1) with true by reflexivity. rewrite Z.mul_1_r.
      eexists _, _, _. split; [reflexivity|]. cbn [dot]. lia.
Qed.

Lemma apS_probe ax : forall sh st d i isvec outer s0 e0 o,
  length st = length sh -> pos_shape sh ->
  exists o' s' e',
    apS_loop i sh st (probe_sl d ax sh) isvec outer s0 e0 o = Ok (probe_nsh d ax sh, st, s', e', o') /\
    s' = s0 /\ e' = e0 - dot (kept_at d ax st) (kept_at d ax sh).
Proof.
  induction sh as [|s sh IH]; intros [|k st] d i isvec outer s0 e0 o Hl Hp; try discriminate.
  - cbn. eexists _, _, _. split; [reflexivity|]. lia.
  - inversion Hp as [|? ? Hs Hp']; subst. cbn [length] in Hl. injection Hl as Hl.
    rewrite apS_loop_step. cbn [probe_sl probe_nsh kept_at hd_sl tl].
    destruct (Nat.eqb d ax).
    + rewrite (slice_details_probe s Hs).
      match goal with |- context [apS_loop ?a sh st ?b ?cc ?dd ?e ?f ?g] =>
        destruct (IH st (S d) a cc dd e f g Hl Hp') as (o' & s' & e' & E & Es & Ee) end.
      rewrite E. rewrite ext_axis_empty. unfold eff_step.
      replace (0 <? 1) with true by reflexivity. rewrite Z.mul_1_r.
      eexists _, _, _. split; [reflexivity|]. cbn [dot]. lia.
    + cbn [slice_details].
      match goal with |- context [apS_loop ?a sh st ?b ?cc ?dd ?e ?f ?g] =>
        destruct (IH st (S d) a cc dd e f g Hl Hp') as (o' & s' & e' & E & Es & Ee) end.
      rewrite E. rewrite ext_axis_full by exact Hs. unfold eff_step.
      replace (0 <? 1) with true by reflexivity. rewrite Z.mul_1_r.
      eexists _, _, _. split; [reflexivity|]. lia.
Qed.

Lemma drop_axes_lane ax : forall sh st d c, length st = length sh -> inbox (rem_at d ax sh) c ->
  drop_axes (lane_nsh d ax sh) st (lane_sl d ax sh c) = (kept_at d ax sh, kept_at d ax st).
Proof.
  induction sh as [|s sh IH]; intros [|k st] d c Hl Hb; try discriminate; [reflexivity|].
  cbn [length] in Hl. injection Hl as Hl.
  cbn [lane_nsh lane_sl rem_at kept_at] in *. rewrite drop_axes_cons.
  destruct (Nat.eqb d ax).
  - cbn [hd_sl tl is_some]. rewrite (IH st (S d) c Hl Hb). rewrite andb_false_r. reflexivity.
  - destruct c as [|x c]; cbn [inbox] in Hb; [tauto|]. destruct Hb as [_ Hb].
    cbn [hd_sl tl is_some]. rewrite (IH st (S d) c Hl Hb). reflexivity.
Qed.

Lemma drop_axes_probe ax : forall sh st d, length st = length sh ->
  drop_axes (probe_nsh d ax sh) st (probe_sl d ax sh) = (rem_at d ax sh, rem_at d ax st).
Proof.
  induction sh as [|s sh IH]; intros [|k st] d Hl; try discriminate; [reflexivity|].
  cbn [length] in Hl. injection Hl as Hl.
  cbn [probe_nsh probe_sl rem_at]. rewrite drop_axes_cons. cbn [hd_sl tl].
  rewrite (IH st (S d) Hl). destruct (Nat.eqb d ax); cbn [is_some]; [reflexivity|].
  rewrite andb_false_r. reflexivity.
Qed.

Lemma dot_ins_at ax : forall sh st d c x, length st = length sh -> inbox (rem_at d ax sh) c ->
  dot st (ins_at d ax sh x c) = dot st (ins_at d ax sh 0 c) + x * sumz (kept_at d ax st).
Proof.
  induction sh as [|s sh IH]; intros [|k st] d c x Hl Hb; try discriminate; [cbn; lia|].
  cbn [length] in Hl. injection Hl as Hl. cbn [ins_at rem_at kept_at] in *.
  destruct (Nat.eqb d ax).
  - cbn [dot sumz]. rewrite (IH st (S d) c x Hl Hb). lia.
  - destruct c as [|y c]; cbn [inbox] in Hb; [tauto|]. destruct Hb as [_ Hb].
    cbn [dot]. rewrite (IH st (S d) c x Hl Hb). lia.
Qed.

Lemma gap_plus_ins ax : forall sh st d c, length st = length sh -> inbox (rem_at d ax sh) c ->
  dot st (lane_gap d ax sh c) + dot st (ins_at d ax sh 0 c)
  = dot st (map (fun s => s - 1) sh) - dot (kept_at d ax st) (map (fun s => s - 1) (kept_at d ax sh)).
Proof.
  induction sh as [|s sh IH]; intros [|k st] d c Hl Hb; try discriminate; [cbn; lia|].
  cbn [length] in Hl. injection Hl as Hl. cbn [ins_at rem_at kept_at lane_gap map] in *.
  destruct (Nat.eqb d ax).
  - cbn [dot map]. pose proof (IH st (S d) c Hl Hb). lia.
  - destruct c as [|y c]; cbn [inbox] in Hb; [tauto|]. destruct Hb as [_ Hb].
    cbn [dot]. pose proof (IH st (S d) c Hl Hb). lia.
Qed.

Lemma ins_at_nonneg ax : forall sh d c x, 0 <= x -> inbox (rem_at d ax sh) c ->
  Forall (fun v => 0 <= v) (ins_at d ax sh x c).
Proof.
  induction sh as [|s sh IH]; intros d c x Hx Hb; [constructor|]. cbn [ins_at rem_at] in *.
  destruct (Nat.eqb d ax).
  - constructor; [exact Hx|apply IH; assumption].
  - destruct c as [|y c]; cbn [inbox] in Hb; [tauto|]. destruct Hb as [Hy Hb].
    constructor; [lia|apply IH; assumption].
Qed.

Lemma lane_gap_nonneg ax : forall sh d c, inbox (rem_at d ax sh) c ->
  Forall (fun v => 0 <= v) (lane_gap d ax sh c).
Proof.
  induction sh as [|s sh IH]; intros d c Hb; [constructor|]. cbn [lane_gap rem_at] in *.
  destruct (Nat.eqb d ax).
  - constructor; [lia|apply IH; assumption].
  - destruct c as [|y c]; cbn [inbox] in Hb; [tauto|]. destruct Hb as [Hy Hb].
    constructor; [lia|apply IH; assumption].
Qed.

Lemma ins_at_inbox ax : forall sh d c x, (forall s, In s (kept_at d ax sh) -> 0 <= x < s) ->
  inbox (rem_at d ax sh) c -> inbox sh (ins_at d ax sh x c).
Proof.
  induction sh as [|s sh IH]; intros d c x Hx Hb; [exact I|]. cbn [ins_at rem_at kept_at] in *.
  destruct (Nat.eqb d ax).
  - cbn [inbox]. split; [apply Hx; left; reflexivity|]. apply IH; [|exact Hb].
    intros s' Hs'. apply Hx. right. exact Hs'.
  - destruct c as [|y c]; cbn [inbox] in Hb; [tauto|]. destruct Hb as [Hy Hb].
    cbn [inbox]. split; [exact Hy|]. apply IH; assumption.
Qed.

Lemma calc_strides_pos sh : pos_shape sh -> Forall (fun k => 1 <= k) (calc_strides sh).
Proof.
  induction 1 as [|s sh Hs Hp IH]; [constructor|]. cbn [calc_strides]. constructor; [|exact IH].
  apply size_pos. exact Hp.
Qed.

Lemma Forall_nth_Z (P : Z -> Prop) l n : Forall P l -> (n < length l)%nat -> P (nth n l 0).
Proof. intros H Hn. rewrite Forall_forall in H. apply H. apply nth_In. exact Hn. Qed.

Lemma zlen_ksub {A} (l : list A) s e : 0 <= s -> s <= e -> e <= zlen l -> zlen (ksub l s e) = e - s.
Proof.
  intros Hs He Hl. unfold ksub, zlen in *. rewrite firstn_length, skipn_length. lia.
Qed.

Lemma bit_ksub (l : list bool) s e i : 0 <= s -> s <= e -> e <= zlen l -> 0 <= i < e - s ->
  bit (ksub l s e) i = bit l (s + i).
Proof.
  intros Hs He Hl Hi. pose proof (zget_ksub l s e i Hs He Hl Hi) as E.
  rewrite (zget_nth (ksub l s e) i) in E by (rewrite zlen_ksub; lia).
  rewrite (zget_nth l (s + i)) in E by lia. injection E as E. exact E.
Qed.

Lemma offsets_1d n k o f : offsets (mkAP [n] [k] o f) = map (fun i => i * k) (zseq 0 (Z.to_nat n)).
Proof.
  unfold offsets, coords. cbn [shp str size]. rewrite Z.mul_1_r, map_map. apply map_ext.
  intro i. cbn [unrank size dot]. rewrite Z.div_1_r. lia.
Qed.

(* the view MaskedReduce cuts for the lane through c (a coordinate of the reduced box) *)
Lemma lane_slice (t : mten V) (ax : nat) (c : list Z) :
  plain_masked V t -> (ax < length (shp (mt_ap t)))%nat ->
  inbox (rem_at 0 ax (shp (mt_ap t))) c ->
  let sh := shp (mt_ap t) in
  let st := calc_strides sh in
  let n := nth ax sh 0 in
  let k := nth ax st 0 in
  let s := dot st (ins_at 0 ax sh 0 c) in
  exists ts, k_slice V t (lane_sl 0 ax sh c) = Ok ts /\
    k_is_masked V ts = true /\ wf_mt ts /\
    (zlen (mt_mask ts) = mt_size V ts -> offsets (mt_ap ts) = zseq 0 (length (mt_mask ts))) /\
    map (bit (mt_mask ts)) (offsets (mt_ap ts))
    = map (fun i => bit (mt_mask t) (s + i * k)) (zseq 0 (Z.to_nat n)).
Proof.
  intros (Hm & Hp & Hs & Hsz) Hax Hb sh st n k s.
  assert (Hl : length st = length sh) by apply calc_strides_length.
  pose proof (masked_len t Hm) as Hml. unfold mt_len, mt_size in Hsz. fold sh in Hsz, Hp, Hb, Hax.
  assert (Hn : 1 <= n) by (apply (Forall_nth_Z (fun d => 1 <= d)); assumption).
  assert (Hk : 1 <= k).
  { apply (Forall_nth_Z (fun d => 1 <= d)); [apply calc_strides_pos; exact Hp|lia]. }
  assert (Hkn : kept_at 0 ax sh = [n]) by (rewrite (kept_at_spec 0 ax sh 0) by lia; rewrite Nat.sub_0_r; reflexivity).
  assert (Hkk : kept_at 0 ax st = [k]) by (rewrite (kept_at_spec 0 ax st 0) by lia; rewrite Nat.sub_0_r; reflexivity).
  pose proof (gap_plus_ins ax sh st 0 c Hl Hb) as Hgi. rewrite Hkn, Hkk in Hgi. cbn [map dot] in Hgi.
  assert (Hmx : dot st (map (fun s => s - 1) sh) = size sh - 1).
  { unfold st. rewrite <- rk_dot. apply rk_maxes. exact Hp. }
  fold s in Hgi.
  assert (Hs0 : 0 <= s).
  { apply Forall_nonneg_dot; [|apply ins_at_nonneg; [lia|exact Hb]].
    eapply Forall_impl; [|apply calc_strides_pos; exact Hp]. cbn. intros; lia. }
  assert (Hg0 : 0 <= dot st (lane_gap 0 ax sh c)).
  { apply Forall_nonneg_dot; [|apply lane_gap_nonneg; exact Hb].
    eapply Forall_impl; [|apply calc_strides_pos; exact Hp]. cbn. intros; lia. }
  unfold k_slice, ap_S. fold sh. rewrite Hs. fold sh st.
  rewrite (lane_sl_length ax sh 0 c Hb), Nat.ltb_irrefl.
  match goal with |- context [apS_loop ?a sh st ?b ?cc ?dd ?e ?f ?g] =>
    destruct (apS_lane ax sh st 0 c a cc dd e f g Hl Hp Hb) as (o' & s' & e' & E & Es & Ee) end.
  rewrite E. fold s in Es. rewrite Z.add_0_l in Es. subst s'.
  assert (Hee : e' = s + 1 + k * (n - 1)) by (unfold mt_len in Ee; lia).
  rewrite Hm.
  assert (Hchk : (s <? 0) || (e' <? s) || (mt_len V t <? e') = false) by (unfold mt_len; nia).
  assert (Hzd : zlen (ksub (mt_data t) s e') = e' - s) by (apply zlen_ksub; nia).
  assert (Hzm : zlen (ksub (mt_mask t) s e') = e' - s) by (apply zlen_ksub; nia).
  assert (Hbits : forall i, 0 <= i < n ->
            bit (ksub (mt_mask t) s e') (i * k) = bit (mt_mask t) (s + i * k)).
  { intros i Hi. apply bit_ksub; nia. }
  destruct (e' - s =? 1) eqn:E1.
  - (* a lane of one element: the scalar AP *)
    assert (n = 1) by nia. rewrite Hchk.
    eexists. split; [reflexivity|]. cbn [mt_mask mt_ap mt_data].
    split; [unfold k_is_masked, mt_len; cbn [mt_mask mt_data]; lia|].
    split.
    { unfold wf_mt, wf_ap, mt_len. cbn [mt_ap mt_data scalar_ap shp str].
      split; [constructor|]. split; [reflexivity|]. rewrite offsets_scalar by reflexivity.
      constructor; [lia|constructor]. }
    rewrite offsets_scalar by reflexivity. split.
    + intros _. replace (length (ksub (mt_mask t) s e')) with 1%nat by (unfold zlen in Hzm; lia). reflexivity.
    + replace (Z.to_nat n) with 1%nat by lia. cbn [zseq map]. rewrite <- (Hbits 0) by lia. reflexivity.
  - rewrite (drop_axes_lane ax sh st 0 c Hl Hb), Hkn, Hkk. rewrite Hchk.
    eexists. split; [reflexivity|]. cbn [mt_mask mt_ap mt_data].
    split; [unfold k_is_masked, mt_len; cbn [mt_mask mt_data]; lia|].
    rewrite offsets_1d. split.
    { unfold wf_mt, wf_ap, mt_len. cbn [mt_ap mt_data shp str]. rewrite offsets_1d.
      split; [repeat constructor; lia|]. split; [reflexivity|]. rewrite Hzd.
      apply Forall_forall. intros o Ho. apply in_map_iff in Ho as (i & <- & Hi). apply zseq_In in Hi. nia. }
    split.
    + unfold mt_size. cbn [mt_ap shp size]. intro Hd.
      replace (length (ksub (mt_mask t) s e')) with (Z.to_nat n) by (unfold zlen in Hzm, Hd; lia).
      transitivity (map (fun i : Z => i) (zseq 0 (Z.to_nat n))); [|apply map_id].
      apply map_ext_in. intros i Hi. apply zseq_In in Hi. nia.
    + rewrite map_map. apply map_ext_in. intros i Hi. apply zseq_In in Hi. apply Hbits. lia.
Qed.

Lemma nth_calc_strides_le : forall sh ax, pos_shape sh -> (ax < length sh)%nat ->
  0 <= nth ax sh 0 * nth ax (calc_strides sh) 0 <= size sh.
Proof.
  induction sh as [|s sh IH]; intros ax Hp Hax; [cbn in Hax; lia|].
  inversion Hp as [|? ? Hs Hp']; subst. pose proof (size_pos sh Hp') as Hz.
  destruct ax as [|ax]; cbn [nth calc_strides size]; [nia|].
  specialize (IH ax Hp' ltac:(cbn [length] in Hax; lia)). nia.
Qed.

Lemma rem_at_Forall {A} (P : A -> Prop) ax : forall l d, Forall P l -> Forall P (rem_at d ax l).
Proof.
  induction l as [|s l IH]; intros d H; [constructor|]. inversion H; subst. cbn [rem_at].
  destruct (Nat.eqb d ax); [apply IH; assumption|constructor; [assumption|apply IH; assumption]].
Qed.

(* the probe view: the result shape is the shape without the reduced axis *)
Lemma probe_slice (t : mten V) (ax : nat) :
  plain_masked V t -> (ax < length (shp (mt_ap t)))%nat ->
  size (shp (mt_ap t)) - nth ax (shp (mt_ap t)) 0 * nth ax (calc_strides (shp (mt_ap t))) 0 <> 1 ->
  exists ts, k_slice V t (probe_sl 0 ax (shp (mt_ap t))) = Ok ts /\
    shp (mt_ap ts) = rem_at 0 ax (shp (mt_ap t)).
Proof.
  intros (Hm & Hp & Hs & Hsz) Hax H2.
  set (sh := shp (mt_ap t)) in *. set (st := calc_strides sh) in *.
  assert (Hl : length st = length sh) by apply calc_strides_length.
  unfold mt_len, mt_size in Hsz. fold sh in Hsz.
  assert (Hkn : kept_at 0 ax sh = [nth ax sh 0]) by (rewrite (kept_at_spec 0 ax sh 0) by lia; rewrite Nat.sub_0_r; reflexivity).
  assert (Hkk : kept_at 0 ax st = [nth ax st 0]) by (rewrite (kept_at_spec 0 ax st 0) by lia; rewrite Nat.sub_0_r; reflexivity).
  pose proof (nth_calc_strides_le sh ax Hp Hax) as Hle. fold st in Hle.
  unfold k_slice, ap_S. fold sh. rewrite Hs. fold st.
  rewrite (probe_sl_length ax sh 0), Nat.ltb_irrefl.
  match goal with |- context [apS_loop ?a sh st ?b ?cc ?dd ?e ?f ?g] =>
    destruct (apS_probe ax sh st 0 a cc dd e f g Hl Hp) as (o' & s' & e' & E & Es & Ee) end.
  rewrite E. subst s'. rewrite Hkn, Hkk in Ee. cbn [dot] in Ee. unfold mt_len in Ee.
  replace (e' - 0 =? 1) with false by lia.
  rewrite (drop_axes_probe ax sh st 0 Hl).
  replace ((0 <? 0) || (e' <? 0) || (mt_len V t <? e')) with false by (unfold mt_len; lia).
  eexists. split; reflexivity.
Qed.

(* writes of g j at index j for every j of a list *)
Lemma fold_upd_zlen {A} (g : Z -> A) : forall js acc,
  zlen (fold_left (fun a x => upd a (Z.to_nat x) (g x)) js acc) = zlen acc.
Proof. induction js as [|x js IH]; intros acc; [reflexivity|]. cbn [fold_left]. rewrite IH. apply zlen_upd. Qed.

Lemma fold_upd_stable {A} (g : Z -> A) : forall js acc j,
  Forall (fun x => 0 <= x < zlen acc) js -> 0 <= j -> rd acc j = Ok (g j) ->
  rd (fold_left (fun a x => upd a (Z.to_nat x) (g x)) js acc) j = Ok (g j).
Proof.
  induction js as [|x js IH]; intros acc j Hr Hj Hd; [exact Hd|]. inversion Hr as [|? ? Hx Hr']; subst.
  cbn [fold_left]. apply IH; [rewrite zlen_upd; exact Hr'|exact Hj|].
  destruct (Z.eq_dec x j) as [->|Hne]; [apply rd_upd_same; exact Hx|].
  rewrite rd_upd_other by lia. exact Hd.
Qed.

Lemma fold_upd_hit {A} (g : Z -> A) : forall js acc j,
  Forall (fun x => 0 <= x < zlen acc) js -> In j js ->
  rd (fold_left (fun a x => upd a (Z.to_nat x) (g x)) js acc) j = Ok (g j).
Proof.
  induction js as [|x js IH]; intros acc j Hr Hi; [destruct Hi|]. inversion Hr as [|? ? Hx Hr']; subst.
  cbn [fold_left]. destruct Hi as [->|Hi].
  - apply fold_upd_stable; [rewrite zlen_upd; exact Hr'|lia|apply rd_upd_same; exact Hx].
  - apply IH; [rewrite zlen_upd; exact Hr'|exact Hi].
Qed.

Lemma list_eq_rd {A} (g : Z -> A) (l : list A) n : length l = n ->
  (forall j, 0 <= j < Z.of_nat n -> rd l j = Ok (g j)) -> l = map g (zseq 0 n).
Proof.
  intros Hl H. apply nth_error_ext_eq. intro k. destruct (Nat.lt_ge_cases k n) as [Hk|Hk].
  - rewrite (map_nth_error g k (zseq 0 n) (zseq_nth_error 0 n k Hk)).
    specialize (H (Z.of_nat k) ltac:(lia)). unfold rd in H. rewrite zget_nth_error in H by lia.
    rewrite Nat2Z.id in H. rewrite Z.add_0_l.
    destruct (nth_error l k); [injection H as ->; reflexivity|discriminate].
  - replace (nth_error l k) with (@None A) by (symmetry; apply nth_error_None; lia).
    symmetry. apply nth_error_None. rewrite map_length, zseq_length. exact Hk.
Qed.

(* the bits of a lane, model reading against the SPEC's ks_lane *)
Lemma lane_bits (sh : list Z) (m : list bool) (ax : nat) (c : list Z) :
  pos_shape sh -> (ax < length sh)%nat -> inbox (rem_at 0 ax sh) c ->
  map (fun i => bit m (dot (calc_strides sh) (ins_at 0 ax sh 0 c) + i * nth ax (calc_strides sh) 0))
      (zseq 0 (Z.to_nat (nth ax sh 0)))
  = ks_lane false sh ax m c.
Proof.
  intros Hp Hax Hb. unfold ks_lane. apply map_ext_in. intros i Hi. apply zseq_In in Hi.
  assert (Hn : 1 <= nth ax sh 0) by (apply (Forall_nth_Z (fun d => 1 <= d)); assumption).
  assert (Hl : length (calc_strides sh) = length sh) by apply calc_strides_length.
  assert (Hkn : kept_at 0 ax sh = [nth ax sh 0]) by (rewrite (kept_at_spec 0 ax sh 0) by lia; rewrite Nat.sub_0_r; reflexivity).
  assert (Hkk : kept_at 0 ax (calc_strides sh) = [nth ax (calc_strides sh) 0])
    by (rewrite (kept_at_spec 0 ax (calc_strides sh) 0) by lia; rewrite Nat.sub_0_r; reflexivity).
  assert (Hin : inbox sh (ins_at 0 ax sh i c)).
  { apply ins_at_inbox; [|exact Hb]. rewrite Hkn. intros s [<-|[]]. lia. }
  assert (Hlc : S (length c) = length sh).
  { pose proof (inbox_length _ _ Hb) as E. rewrite (rem_at_spec ax sh 0) in E by lia.
    unfold ks_remove_at in E. rewrite app_length, firstn_length, skipn_length in E. lia. }
  assert (Hins : ins_at 0 ax sh i c = ks_insert_at ax i c)
    by (rewrite (ins_at_spec ax i sh 0 c) by lia; rewrite Nat.sub_0_r; reflexivity).
  rewrite <- Hins.
  rewrite (rank_rm_rk sh _ (inbox_length _ _ Hin)), rk_dot.
  rewrite (dot_ins_at ax sh (calc_strides sh) 0 c i Hl Hb), Hkk. cbn [sumz].
  unfold bit. do 2 f_equal. lia.
Qed.

(* the loop of MaskedReduce over a list of (offset, index of the coordinate to fill) *)
Lemma red_loop_lanes (t : mten V) (f : redfn) (ax : nat) :
  plain_masked V t -> (ax < length (shp (mt_ap t)))%nat ->
  forall (pj : list (Z * Z)) acc,
  Forall (fun p => 0 <= snd p < size (rem_at 0 ax (shp (mt_ap t)))) pj ->
  zlen acc = size (rem_at 0 ax (shp (mt_ap t))) ->
  red_loop V f t ax (rem_at 0 ax (shp (mt_ap t))) (calc_strides (rem_at 0 ax (shp (mt_ap t))))
           (map (fun p => (fst p, unrank (rem_at 0 ax (shp (mt_ap t))) (snd p))) pj) acc
  = Ok (fold_left (fun a x => upd a (Z.to_nat x)
                     (red_of f (ks_lane false (shp (mt_ap t)) ax (mt_mask t)
                                        (unrank (rem_at 0 ax (shp (mt_ap t))) x))))
                  (map snd pj) acc).
Proof.
  intros Hpm Hax. pose proof Hpm as (Hm & Hp & Hs & Hsz).
  set (sh := shp (mt_ap t)) in *. set (rsh := rem_at 0 ax sh).
  assert (Hprsh : pos_shape rsh) by (apply rem_at_Forall; exact Hp).
  induction pj as [|[o j] pj IH]; intros acc Hr Hacc; [reflexivity|].
  inversion Hr as [|? ? Hj Hr']; subst. cbn [snd] in Hj.
  cbn [map fst snd red_loop fold_left].
  assert (Hb : inbox rsh (unrank rsh j)) by (apply unrank_inbox; assumption).
  fold sh. rewrite (red_slices_lane ax sh 0 _ Hb).
  pose proof (lane_slice t ax (unrank rsh j) Hpm Hax Hb) as HL. cbv zeta in HL. fold sh in HL.
  destruct HL as (ts & Ek & Hmts & Hwts & Hdir & Hbits). rewrite Ek.
  rewrite (do_red_bits_thm ts f Hmts Hwts Hdir), Hbits, (lane_bits sh (mt_mask t) ax _ Hp Hax Hb).
  unfold at_index. rewrite (inbox_length rsh _ Hb), Nat.eqb_refl. cbn [negb].
  rewrite (ltoi_rowmajor rsh _ Hprsh Hb), (rank_unrank rsh j Hprsh Hj).
  rewrite zset_spec by lia. apply IH; [exact Hr'|rewrite zlen_upd; exact Hacc].
Qed.

Lemma probe_sl_upd0 ax sh : (ax < length sh)%nat ->
  upd (repeat (None : slice) (length sh)) ax (Some (0, 0, 1)) = probe_sl 0 ax sh.
Proof. intro H. rewrite <- (probe_sl_upd ax sh 0) by lia. rewrite Nat.sub_0_r. reflexivity. Qed.

Lemma short_shape_vectorlike rsh : (length rsh <= 1)%nat ->
  ap_is_vectorlike (mkAP rsh (calc_strides rsh) 0 true) = true.
Proof.
  intro H. destruct rsh as [|x [|? ?]]; [reflexivity| |cbn in H; lia].
  unfold ap_is_vectorlike, is_vectorlike_shape. cbn [shp str calc_strides size filter allones forallb].
  destruct (negb (x =? 1)); reflexivity.
Qed.

Lemma is_vector_length sh : is_vector sh = true -> (length sh <= 2)%nat.
Proof.
  unfold is_vector, is_colvec, is_rowvec. destruct sh as [|a [|b [|? ?]]]; cbn; try lia; discriminate.
Qed.

Lemma remove_at_length {A} ax (l : list A) : (ax < length l)%nat ->
  S (length (ks_remove_at ax l)) = length l.
Proof. intro H. unfold ks_remove_at. rewrite app_length, firstn_length, skipn_length. lia. Qed.

(* M5b: MaskedReduce along an axis, on the domain where the model does not panic: a whole-window
   row-major masked tensor whose RESULT pattern (shape without the axis, default strides) is not
   vector-like, and whose probe window is not a single cell.  The result is the SPEC's per-lane
   fold, coordinate by coordinate *)
Theorem reduce_axis_spec_thm (t : mten V) (f : redfn) (ax : nat) :
  plain_masked V t -> (ax < length (shp (mt_ap t)))%nat ->
  ap_is_vectorlike (mkAP (ks_remove_at ax (shp (mt_ap t)))
                         (calc_strides (ks_remove_at ax (shp (mt_ap t)))) 0 true) = false ->
  size (shp (mt_ap t)) - nth ax (shp (mt_ap t)) 0 * nth ax (calc_strides (shp (mt_ap t))) 0 <> 1 ->
  k_reduce V f t (Some (Z.of_nat ax))
  = Ok (RTensor (fst (ks_reduce_axis (red_of f) (shp (mt_ap t)) ax (mt_mask t)))
                (snd (ks_reduce_axis (red_of f) (shp (mt_ap t)) ax (mt_mask t)))).
Proof.
  intros Hpm Hax H1 H2. pose proof Hpm as (Hm & Hp & Hs & Hsz).
  set (sh := shp (mt_ap t)) in *.
  assert (Hrs : rem_at 0 ax sh = ks_remove_at ax sh)
    by (rewrite (rem_at_spec ax sh 0) by lia; rewrite Nat.sub_0_r; reflexivity).
  set (rsh := ks_remove_at ax sh) in *.
  assert (Hprsh : pos_shape rsh) by (rewrite <- Hrs; apply rem_at_Forall; exact Hp).
  assert (Hne : rsh <> []) by (intro E; rewrite E in H1; discriminate).
  assert (Hnv : is_vector sh = false).
  { destruct (is_vector sh) eqn:Ev; [|reflexivity]. apply is_vector_length in Ev.
    pose proof (remove_at_length ax sh Hax) as Hlr. fold rsh in Hlr.
    rewrite short_shape_vectorlike in H1 by lia. discriminate. }
  pose proof (size_pos _ Hprsh) as HN.
  unfold k_reduce. fold sh. rewrite Hnv.
  replace (zlen sh <=? Z.of_nat ax) with false by (unfold zlen; lia).
  replace (Z.of_nat ax <? 0) with false by lia. rewrite Nat2Z.id.
  rewrite (probe_sl_upd0 ax sh Hax).
  destruct (probe_slice t ax Hpm Hax H2) as (ts & Ek & Hshp). fold sh in Ek, Hshp.
  rewrite Ek. cbv zeta. rewrite Hshp, Hrs.
  replace (if is_scalar rsh then 1 else size rsh) with (size rsh)
    by (destruct rsh; [congruence|reflexivity]).
  rewrite (trace_of_nd (mkAP rsh (calc_strides rsh) 0 true) Hprsh (calc_strides_length rsh) H1 Hne).
  cbn [shp str].
  set (pj := map (fun j => (dot (calc_strides rsh) (unrank rsh j), (j + 1) mod size rsh))
                 (zseq 0 (Z.to_nat (size rsh)))).
  assert (Htr : map (fun j => (dot (calc_strides rsh) (unrank rsh j), unrank rsh ((j + 1) mod size rsh)))
                    (zseq 0 (Z.to_nat (size rsh)))
                = map (fun p => (fst p, unrank rsh (snd p))) pj).
  { unfold pj. rewrite map_map. reflexivity. }
  rewrite Htr.
  pose proof (red_loop_lanes t f ax Hpm Hax pj (repeat (red_zero f) (Z.to_nat (size rsh)))) as HR.
  fold sh in HR. rewrite Hrs in HR. rewrite HR.
  - unfold ks_reduce_axis. fold rsh. cbn [fst snd]. do 2 f_equal.
    unfold coords. rewrite map_map. apply list_eq_rd.
    + pose proof (fold_upd_zlen (fun x => red_of f (ks_lane false sh ax (mt_mask t) (unrank rsh x)))
                    (map snd pj) (repeat (red_zero f) (Z.to_nat (size rsh)))) as HZ.
      unfold zlen in HZ. rewrite repeat_length in HZ. lia.
    + intros j Hj. apply (fold_upd_hit (fun x => red_of f (ks_lane false sh ax (mt_mask t) (unrank rsh x)))).
      * unfold zlen. rewrite repeat_length. apply Forall_forall. intros x Hx.
        unfold pj in Hx. rewrite map_map in Hx. cbn [snd] in Hx. apply in_map_iff in Hx as (y & <- & _).
        pose proof (Z.mod_pos_bound (y + 1) (size rsh)). lia.
      * unfold pj. rewrite map_map. cbn [snd]. apply in_map_iff.
        destruct (Z.eq_dec j 0) as [->|Hj0].
        -- exists (size rsh - 1). split; [|apply zseq_In; lia].
           replace (size rsh - 1 + 1) with (size rsh) by lia. apply Z_mod_same_full.
        -- exists (j - 1). split; [|apply zseq_In; lia].
           replace (j - 1 + 1) with j by lia. apply Z.mod_small. lia.
  - apply Forall_forall. intros p Hp'. unfold pj in Hp'. apply in_map_iff in Hp' as (y & <- & _).
    cbn [snd]. apply Z.mod_pos_bound. lia.
  - unfold zlen. rewrite repeat_length. lia.
Qed.

(* ---------- 8. WithIncr and WithReuse ---------- *)
(* storage.CopyIter through two plain iterators *)
Lemma copy_cells_spec (src : list V) : forall di si dst, length di = length si ->
  Forall (fun o => 0 <= o < zlen dst) di -> Forall (fun o => 0 <= o < zlen src) si ->
  exists d0, copy_cells V dst src di si = Some d0 /\ zlen d0 = zlen dst /\
    (forall o, 0 <= o -> ~ In o di -> rd d0 o = rd dst o) /\
    (NoDup di -> forall i j, In (i, j) (combine di si) -> rd d0 i = rd src j).
Proof.
  induction di as [|i di IH]; intros si dst Hlen Hd Hs.
  - exists dst. cbn [copy_cells]. split; [reflexivity|]. split; [reflexivity|]. split; [reflexivity|].
    intros _ i j [].
  - destruct si as [|j si]; [discriminate|]. cbn [length] in Hlen.
    inversion Hd as [|? ? Hi Hd']; subst. inversion Hs as [|? ? Hj Hs']; subst.
    destruct (zget_some src j Hj) as [v Ev]. cbn [copy_cells]. rewrite Ev, zset_spec by exact Hi.
    destruct (IH si (upd dst (Z.to_nat i) v) ltac:(lia) ltac:(rewrite zlen_upd; exact Hd') Hs')
      as (d0 & E & Hz & Hother & Hhit).
    exists d0. split; [exact E|]. split; [rewrite Hz; apply zlen_upd|]. split.
    + intros o Ho Hni. cbn [In] in Hni. rewrite Hother by tauto. apply rd_upd_other; [lia|exact Ho|tauto].
    + intros Hnd i0 j0 Hin. inversion Hnd as [|? ? Hni Hnd']; subst. cbn [combine In] in Hin.
      destruct Hin as [E0|Hin].
      * injection E0 as <- <-. rewrite Hother by (try lia; exact Hni).
        rewrite rd_upd_same by exact Hi. unfold rd. rewrite Ev. reflexivity.
      * apply Hhit; assumption.
Qed.

(* WithReuse(r), iterator path: r first receives EVERY element of a (masked or not), then the
   validity-aware kernel runs with r's and b's masks: a's own mask plays no part.  At every
   coordinate valid in r and b the cell is x op y, elsewhere it holds a's element x *)
Theorem binop_reuse_valid_positions_thm (a b r : mten V) :
  wf_mt a -> wf_mt b -> wf_mt r ->
  shp (mt_ap a) = shp (mt_ap b) -> shp (mt_ap a) = shp (mt_ap r) ->
  NoDup (offsets (mt_ap r)) -> mt_len V r <> 1 -> mt_len V b <> 1 ->
  use_iter V a b (Some r) = true ->
  exists r', k_binop_reuse V vop a b r = Ok r' /\
    mt_ap r' = mt_ap r /\ mt_old r' = mt_old r /\ mt_view r' = mt_view r /\
    mt_mask r' = mt_mask r /\ mt_soft r' = mt_soft r /\
    forall c, inbox (shp (mt_ap a)) c ->
      exists x y mb mr,
        window_at (mt_data a) (shp (mt_ap a)) (str (mt_ap a)) c = Ok x /\
        window_at (mt_data b) (shp (mt_ap b)) (str (mt_ap b)) c = Ok y /\
        k_maskat V b c = Ok mb /\ k_maskat V r c = Ok mr /\
        window_at (mt_data r') (shp (mt_ap r')) (str (mt_ap r')) c
        = Ok (if mr || mb then x else vop x y).
Proof.
  intros Hwa Hwb Hwr Hsb Hsr Hnd Hnr Hnb Hui.
  pose proof Hwa as (Hpa & Hla & Hra). pose proof Hwb as (Hpb & Hlb & Hrb).
  pose proof Hwr as (Hpr & Hlr & Hrr).
  unfold k_binop_reuse. rewrite Hui.
  rewrite (iter_all_spec _ Hpr Hlr), (iter_all_spec _ Hpa Hla). fold (offsets (mt_ap r)) (offsets (mt_ap a)).
  destruct (copy_cells_spec (mt_data a) (offsets (mt_ap r)) (offsets (mt_ap a)) (mt_data r))
    as (d0 & Ec & Hz & _ & Hhit).
  { rewrite !offsets_length, Hsr. reflexivity. } { exact Hrr. } { exact Hra. }
  rewrite Ec. specialize (Hhit Hnd).
  set (a' := with_data V r d0).
  assert (Hma' : k_is_masked V a' = k_is_masked V r).
  { unfold k_is_masked, mt_len, a'. cbn [with_data mt_mask mt_data]. rewrite Hz. reflexivity. }
  assert (Hwa' : wf_mt a').
  { unfold wf_mt, mt_len, a'. cbn [with_data mt_ap mt_data]. rewrite Hz. exact Hwr. }
  assert (Hmit : k_miter V r = k_miter V a').
  { unfold k_miter. rewrite Hma'. reflexivity. }
  assert (Hsa' : shp (mt_ap a') = shp (mt_ap b)) by (unfold a'; cbn [with_data mt_ap]; congruence).
  rewrite Hmit. change d0 with (mt_data a').
  rewrite (binop_iter_data a' b Hwa' Hwb Hsa').
  2:{ unfold mt_len, a'. cbn [with_data mt_data]. rewrite Hz. exact Hnr. }
  2:{ exact Hnb. }
  eexists. split; [reflexivity|]. cbn [with_data mt_ap mt_old mt_view mt_mask mt_soft mt_data].
  repeat (split; [reflexivity|]).
  intros c Hc.
  assert (Hcr : inbox (shp (mt_ap r)) c) by (rewrite <- Hsr; exact Hc).
  destruct (binop_res_at a' b c Hwa' Hwb Hsa' Hnd Hcr) as (x & y & Hx & Hy & Hres).
  exists x, y, (bit (emask b) (dot (str (mt_ap b)) c)), (bit (emask r) (dot (str (mt_ap r)) c)).
  split.
  { rewrite window_at_rd by assumption. unfold a' in Hx. cbn [with_data mt_ap mt_data] in Hx.
    rewrite window_at_rd in Hx by assumption. rewrite <- Hx. symmetry. apply Hhit.
    unfold offsets. rewrite <- Hsr. rewrite combine_map_same. apply in_map_iff. exists c.
    split; [reflexivity|apply inbox_in_coords; assumption]. }
  split; [exact Hy|]. split; [apply maskat_bit; [exact Hwb|rewrite <- Hsb; exact Hc]|].
  split; [apply maskat_bit; assumption|].
  assert (He : emask a' = emask r) by (unfold emask; rewrite Hma'; reflexivity).
  rewrite He in Hres. exact Hres.
Qed.

Variable vadd : V -> V -> V.

Fixpoint incr_offs (ea eb er : list bool) (l : list (Z * Z * Z)) (da db dr : list V) : list V :=
  match l with
  | [] => dr
  | (i, j, k) :: r =>
    incr_offs ea eb er r da db
      (if negb (bit ea i) && negb (bit eb j) && negb (bit er k) then
         match zget da i, zget db j, zget dr k with
         | Some x, Some y, Some z => upd dr (Z.to_nat k) (vadd z (vop x y))
         | _, _, _ => dr
         end
       else dr)
  end.

Lemma incr_offs_zlen ea eb er da db : forall l dr, zlen (incr_offs ea eb er l da db dr) = zlen dr.
Proof.
  induction l as [|[[i j] k] l IH]; intros dr; [reflexivity|]. cbn [incr_offs]. rewrite IH.
  destruct (negb (bit ea i) && negb (bit eb j) && negb (bit er k)); [|reflexivity].
  destruct (zget da i); [|reflexivity]. destruct (zget db j); [|reflexivity].
  destruct (zget dr k); [apply zlen_upd|reflexivity].
Qed.

Lemma incr_loop_yields (ba bb br : bool) (ma mb mr : list bool) (da db : list V) :
  let ea := if ba then ma else [] in
  let eb := if bb then mb else [] in
  let er := if br then mr else [] in
  forall ita la, yields false ita la -> forall itb lb, yields false itb lb ->
  forall itr lr, yields false itr lr ->
  length la = length lb -> length la = length lr -> forall dr,
  Forall (fun o => 0 <= o < zlen da) la -> Forall (fun o => 0 <= o < zlen db) lb ->
  Forall (fun o => 0 <= o < zlen dr) lr ->
  ea = [] \/ Forall (fun o => 0 <= o < zlen ea) la ->
  eb = [] \/ Forall (fun o => 0 <= o < zlen eb) lb ->
  er = [] \/ Forall (fun o => 0 <= o < zlen er) lr ->
  forall fuel, (length la < fuel)%nat ->
  incr_loop V vop vadd fuel (mkMit ba ma ita) (mkMit bb mb itb) (mkMit br mr itr) da db dr
  = Ok (incr_offs ea eb er (combine (combine la lb) lr) da db dr).
Proof.
  intros ea eb er ita la Hya.
  induction Hya as [ita Hd Hr|ita ita' i la Hr Hn Hya IH];
    intros itb lb Hyb itr lr Hyr Hlb Hlr dr Hra Hrb Hrr Hea Heb Her fuel Hf.
  - destruct fuel as [|f]; [cbn in Hf; lia|]. cbn [incr_loop]. unfold mit_next_validity.
    cbn [mi_masked mi_mask mi_it]. fold ea. rewrite (mnv_done ea ita Hd). reflexivity.
  - destruct lb as [|j lb]; [discriminate|]. destruct lr as [|k lr]; [discriminate|].
    inversion Hyb as [|? itb' ? ? Hrb' Hnb Hyb']; subst.
    inversion Hyr as [|? itr' ? ? Hrr' Hnr Hyr']; subst.
    destruct fuel as [|f]; [cbn in Hf; lia|]. cbn [incr_loop]. unfold mit_next_validity.
    cbn [mi_masked mi_mask mi_it]. fold ea eb er.
    apply range_tl in Hea as [Hi Hea]. apply range_tl in Heb as [Hj Heb]. apply range_tl in Her as [Hk Her].
    inversion Hra as [|? ? Hia Hra']; subst. inversion Hrb as [|? ? Hjb Hrb'']; subst.
    inversion Hrr as [|? ? Hkr Hrr'']; subst.
    rewrite (mnv_step ea ita ita' i Hn Hi), (mnv_step eb itb itb' j Hnb Hj), (mnv_step er itr itr' k Hnr Hk).
    unfold mit_with. cbn [mi_masked mi_mask combine incr_offs].
    destruct (negb (bit ea i) && negb (bit eb j) && negb (bit er k)).
    + destruct (zget_some da i Hia) as [x Ex]. destruct (zget_some db j Hjb) as [y Ey].
      destruct (zget_some dr k Hkr) as [z Ez].
      rewrite Ex, Ey, Ez. rewrite zset_spec by exact Hkr.
      apply IH; [exact Hyb'|exact Hyr'|cbn in Hlb; lia|cbn in Hlr; lia|exact Hra'|exact Hrb''
                |rewrite zlen_upd; exact Hrr''|exact Hea|exact Heb|exact Her|cbn in Hf; lia].
    + apply IH; [exact Hyb'|exact Hyr'|cbn in Hlb; lia|cbn in Hlr; lia|exact Hra'|exact Hrb''
                |exact Hrr''|exact Hea|exact Heb|exact Her|cbn in Hf; lia].
Qed.

Lemma incr_offs_other ea eb er da db : forall l dr o, 0 <= o ->
  Forall (fun p => 0 <= snd p) l -> ~ In o (map snd l) ->
  rd (incr_offs ea eb er l da db dr) o = rd dr o.
Proof.
  induction l as [|[[i j] k] l IH]; intros dr o Ho Hl Hni; [reflexivity|].
  inversion Hl as [|? ? Hk Hl']; subst. cbn [snd] in Hk. cbn [map snd In] in Hni.
  cbn [incr_offs]. rewrite IH; [|exact Ho|exact Hl'|tauto].
  destruct (negb (bit ea i) && negb (bit eb j) && negb (bit er k)); [|reflexivity].
  destruct (zget da i); [|reflexivity]. destruct (zget db j); [|reflexivity].
  destruct (zget dr k); [|reflexivity].
  apply rd_upd_other; [exact Hk|exact Ho|]. intros ->. tauto.
Qed.

Lemma incr_offs_rd ea eb er da db : forall l dr i j k x y z, NoDup (map snd l) ->
  Forall (fun p => 0 <= snd p < zlen dr) l -> In (i, j, k) l ->
  zget da i = Some x -> zget db j = Some y -> zget dr k = Some z ->
  rd (incr_offs ea eb er l da db dr) k
  = Ok (if negb (bit ea i) && negb (bit eb j) && negb (bit er k) then vadd z (vop x y) else z).
Proof.
  induction l as [|[[i0 j0] k0] l IH]; intros dr i j k x y z Hnd Hl Hin Hx Hy Hz; [destruct Hin|].
  cbn [map snd] in Hnd. inversion Hnd as [|? ? Hni Hnd']; subst.
  inversion Hl as [|? ? Hk0 Hl']; subst. cbn [snd] in Hk0.
  assert (Hl0 : Forall (fun p : Z * Z * Z => 0 <= snd p) l).
  { eapply Forall_impl; [|exact Hl']. cbn. intros p Hp. lia. }
  cbn [incr_offs]. destruct Hin as [E|Hin].
  - injection E as -> -> ->. rewrite incr_offs_other; [|lia|exact Hl0|exact Hni].
    rewrite Hx, Hy, Hz. destruct (negb (bit ea i) && negb (bit eb j) && negb (bit er k)).
    + apply rd_upd_same. exact Hk0.
    + unfold rd. rewrite Hz. reflexivity.
  - assert (Hne : k0 <> k).
    { intros ->. apply Hni. apply in_map_iff. exists (i, j, k). split; [reflexivity|exact Hin]. }
    apply (IH _ i j k x y z Hnd'); [| exact Hin | exact Hx | exact Hy |].
    + destruct (negb (bit ea i0) && negb (bit eb j0) && negb (bit er k0)); [|exact Hl'].
      destruct (zget da i0); [|exact Hl']. destruct (zget db j0); [|exact Hl'].
      destruct (zget dr k0); [|exact Hl']. rewrite zlen_upd. exact Hl'.
    + destruct (negb (bit ea i0) && negb (bit eb j0) && negb (bit er k0)); [|exact Hz].
      destruct (zget da i0); [|exact Hz]. destruct (zget db j0); [|exact Hz].
      destruct (zget dr k0); [|exact Hz].
      pose proof (zget_range _ _ _ Hz) as Hkr. rewrite zget_nth_error in * by lia.
      rewrite nth_error_upd_other by lia. exact Hz.
Qed.

Definition triple_offs (a b r : mten V) : list (Z * Z * Z) :=
  map (fun c => (dot (str (mt_ap a)) c, dot (str (mt_ap b)) c, dot (str (mt_ap r)) c))
      (coords (shp (mt_ap a))).

Lemma triple_offs_combine (a b r : mten V) :
  shp (mt_ap a) = shp (mt_ap b) -> shp (mt_ap a) = shp (mt_ap r) ->
  combine (combine (offsets (mt_ap a)) (offsets (mt_ap b))) (offsets (mt_ap r)) = triple_offs a b r.
Proof.
  intros Hb Hr. unfold offsets, triple_offs. rewrite <- Hb, <- Hr.
  rewrite combine_map_same. rewrite (combine_map_same (fun c => (dot (str (mt_ap a)) c, dot (str (mt_ap b)) c))).
  reflexivity.
Qed.

(* WithIncr(r), iterator path: r keeps its pattern, flags and mask; at every coordinate valid in
   all THREE tensors the cell becomes z + (x op y), elsewhere it keeps z *)
Theorem binop_incr_valid_positions_thm (a b r : mten V) :
  wf_mt a -> wf_mt b -> wf_mt r ->
  shp (mt_ap a) = shp (mt_ap b) -> shp (mt_ap a) = shp (mt_ap r) ->
  NoDup (offsets (mt_ap r)) -> use_iter V a b (Some r) = true ->
  exists r', k_binop_incr V vop vadd a b r = Ok r' /\
    mt_ap r' = mt_ap r /\ mt_old r' = mt_old r /\ mt_view r' = mt_view r /\
    mt_mask r' = mt_mask r /\ mt_soft r' = mt_soft r /\
    forall c, inbox (shp (mt_ap a)) c ->
      exists x y z ma mb mr,
        window_at (mt_data a) (shp (mt_ap a)) (str (mt_ap a)) c = Ok x /\
        window_at (mt_data b) (shp (mt_ap b)) (str (mt_ap b)) c = Ok y /\
        window_at (mt_data r) (shp (mt_ap r)) (str (mt_ap r)) c = Ok z /\
        k_maskat V a c = Ok ma /\ k_maskat V b c = Ok mb /\ k_maskat V r c = Ok mr /\
        window_at (mt_data r') (shp (mt_ap r')) (str (mt_ap r')) c
        = Ok (if ma || mb || mr then z else vadd z (vop x y)).
Proof.
  intros Hwa Hwb Hwr Hsb Hsr Hnd Hui.
  pose proof Hwa as (Hpa & Hla & Hra). pose proof Hwb as (Hpb & Hlb & Hrb).
  pose proof Hwr as (Hpr & Hlr & Hrr).
  unfold k_binop_incr. rewrite Hui. unfold k_miter.
  rewrite (incr_loop_yields (k_is_masked V a) (k_is_masked V b) (k_is_masked V r)
             (mt_mask a) (mt_mask b) (mt_mask r) (mt_data a) (mt_data b)
             _ _ (yields_new _ Hpa Hla) _ _ (yields_new _ Hpb Hlb) _ _ (yields_new _ Hpr Hlr)).
  2:{ rewrite !offsets_length, Hsb. reflexivity. }
  2:{ rewrite !offsets_length, Hsr. reflexivity. }
  2:{ exact Hra. } 2:{ exact Hrb. } 2:{ exact Hrr. }
  2:{ apply (emask_range a). exact Hra. } 2:{ apply (emask_range b). exact Hrb. }
  2:{ apply (emask_range r). exact Hrr. }
  2:{ rewrite offsets_length. unfold mit_fuel, new_iter. cbn [mi_it it_size]. lia. }
  rewrite (triple_offs_combine a b r Hsb Hsr). fold (emask a) (emask b) (emask r).
  eexists. split; [reflexivity|]. cbn [with_data mt_ap mt_old mt_view mt_mask mt_soft mt_data].
  repeat (split; [reflexivity|]).
  intros c Hc.
  assert (Hcb : inbox (shp (mt_ap b)) c) by (rewrite <- Hsb; exact Hc).
  assert (Hcr : inbox (shp (mt_ap r)) c) by (rewrite <- Hsr; exact Hc).
  rewrite !window_at_rd by assumption.
  set (i := dot (str (mt_ap a)) c). set (j := dot (str (mt_ap b)) c). set (k := dot (str (mt_ap r)) c).
  assert (Hi : 0 <= i < zlen (mt_data a)).
  { rewrite Forall_forall in Hra. apply Hra. apply in_offsets; assumption. }
  assert (Hj : 0 <= j < zlen (mt_data b)).
  { rewrite Forall_forall in Hrb. apply Hrb. apply in_offsets; assumption. }
  assert (Hk : 0 <= k < zlen (mt_data r)).
  { rewrite Forall_forall in Hrr. apply Hrr. apply in_offsets; assumption. }
  destruct (rd_ok _ _ Hi) as (x & Erx & Ex). destruct (rd_ok _ _ Hj) as (y & Ery & Ey).
  destruct (rd_ok _ _ Hk) as (z & Erz & Ez).
  exists x, y, z, (bit (emask a) i), (bit (emask b) j), (bit (emask r) k).
  split; [exact Erx|]. split; [exact Ery|]. split; [exact Erz|].
  split; [apply maskat_bit; assumption|]. split; [apply maskat_bit; assumption|].
  split; [apply maskat_bit; assumption|].
  rewrite (incr_offs_rd (emask a) (emask b) (emask r) (mt_data a) (mt_data b) (triple_offs a b r)
             (mt_data r) i j k x y z).
  - destruct (bit (emask a) i), (bit (emask b) j), (bit (emask r) k); reflexivity.
  - unfold triple_offs. rewrite map_map. cbn [snd]. rewrite Hsr. exact Hnd.
  - apply Forall_forall. intros p Hp'. unfold triple_offs in Hp'. apply in_map_iff in Hp' as (c' & <- & Hc').
    cbn [snd]. rewrite Forall_forall in Hrr. apply Hrr. apply in_offsets; [exact Hpr|].
    rewrite <- Hsr. apply in_coords_inbox; assumption.
  - unfold triple_offs. apply in_map_iff. exists c. split; [reflexivity|apply inbox_in_coords; assumption].
  - exact Ex.
  - exact Ey.
  - exact Ez.
Qed.

End MP2.
