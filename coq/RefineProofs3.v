(* RefineProofs3.v — the history refinement of RefineProofs2.v (structural operations and the
   elementwise family) extended to the remaining operation families of RunZ.zop: reductions (ZReduce,
   ZArg), products (ZInner, ZTrace, ZLin in the modes safe / reuse / incr, ZTensorMul) and
   shape-changing copies (ZRepeat, ZConcat, ZStack).  The per-operation facts come from
   ReduceProofs(2).v, LinalgProofs.v / RunZProofs.v and ShapeopsProofs.v; this file connects them with
   the simulation relation R of RefineProofs.v:
     0. the logical content of a tensor of a related pair of states (content / window / cells)
     1. a result delivered as a NEW row-major tensor over its own backing = ONew
     2. ZInner, ZTrace (value outcomes)
     3. ZReduce (any set of axes)      4. ZArg (an axis, or -1 = the whole array)
     5. ZLin safe: MatMul, MatVecMul, Outer (a fresh result tensor: sim_lin_fresh)
     6. ZConcat, ZStack, ZRepeat (ShapeopsProofs.fresh_result: sim_fresh_result)
     7. ZLin reuse / incr (sim_lin_reuse, sim_lin_incr)
     8. ZTensorMul
   then zstep_sim3, zhistory_refines3 and the guard gaps found on the way (<op>_zguard_gap).
   For every operation: zguard / zstep_model / zstep_spec are unfolded once, in the lemmas
   zguard_Z<op>, zstep_model_Z<op>, zstep_spec_Z<op>; the step lemma is sim_Z<op>; what it needs beyond
   zguard = GOk is the boolean <op>_extra (a comment per clause: PROOF restriction or GAP of zguard). *)
From Coq Require Import Lia ZifyBool.
From Coq Require Import Sorted Permutation.
From TV Require Import Base Index AP Iter Mem Spec Guards Run Ops Reduce Shapeops Linalg RunZ.
From TV Require Import IndexProofs IterProofs APProofs OpsProofs OpsProofs2 MemProofs.
From TV Require Import ReduceProofs ReduceProofs2 LinalgProofs ShapeopsProofs RunZProofs.
From TV Require Import RefineProofs RefineProofs2.

Arguments Z.mul : simpl never.
Arguments Z.add : simpl never.
Arguments Z.sub : simpl never.
Arguments Z.leb : simpl never.
Arguments Z.ltb : simpl never.
Arguments Z.eqb : simpl never.
Arguments Z.div : simpl never.
Arguments Z.modulo : simpl never.
Arguments Z.min : simpl never.
Arguments Z.of_nat : simpl never.
Arguments Z.to_nat : simpl never.

Local Arguments bufs {V}.
Local Arguments tens {V}.
Local Arguments s_vals {V}.
Local Arguments s_tens {V}.

Local Notation get_buf := (Mem.get_buf Z).
Local Notation get_t := (Mem.get_t Z).
Local Notation set_t := (Mem.set_t Z).
Local Notation sget := (Spec.sget Z).
Local Notation sset := (Spec.sset Z).
Local Notation bget := (MemProofs.bget Z).
Local Notation win_get := (Mem.win_get Z).
Local Notation wf_dense := (MemProofs.wf_dense Z).
Local Notation mcell := (MemProofs.cell Z).
Local Notation ocell := (OpsProofs.cell Z).
Local Notation owf := (OpsProofs.wf_dense Z).
Local Notation R := (RefineProofs.R Z 0).
Local Notation Rphi := (RefineProofs.Rphi Z 0).
Local Notation RM := (RefineProofs.RM Z).
Local Notation ten_ok := (RefineProofs.ten_ok Z).
Local Notation slogical := (Spec.slogical Z 0).
Local Notation step_model := (Run.step_model Z 0).
Local Notation step_spec := (Run.step_spec Z 0).

(* ====================================================================================== *)
(*  0. the logical content of a tensor of a related pair of states                         *)
(* ====================================================================================== *)
(* the SPEC's value at coordinate c of tensor x *)
Definition sval (ς : sstate Z) (x : sten) (c : list Z) : Z :=
  nth (nth (Z.to_nat (rank_rm (s_shape x) c)) (s_cells x) O) (s_vals ς) 0.

Lemma sval_val_at ς x c : sval ς x c = val_at Z 0 ς x c.
Proof. reflexivity. Qed.

Lemma sval_slogical ς x c : (Z.to_nat (rank_rm (s_shape x) c) < length (s_cells x))%nat ->
  nth (Z.to_nat (rank_rm (s_shape x) c)) (slogical ς x) 0 = sval ς x c.
Proof. intro H. unfold Spec.slogical, sval. rewrite (nth_map_lt _ O 0) by exact H. reflexivity. Qed.

(* what R gives for one tensor *)
Lemma R_tensor φ σ ς t d : Rphi φ σ ς -> get_t σ t = Some d ->
  exists x, sget ς t = Some x /\ wf_dense σ d /\ shp (d_ap d) = s_shape x /\
    length (s_cells x) = Z.to_nat (size (s_shape x)) /\ pos_shape (s_shape x) /\
    (d_old d = None -> s_pending x = O) /\
    (forall c, inbox (s_shape x) c -> mcell σ d c = Some (sval ς x c)).
Proof.
  intros Hφ Ht. destruct (get_sget Z 0 φ σ ς t d Hφ Ht) as [x Hx]. exists x. split; [exact Hx|].
  pose proof Hφ as (_ & _ & _ & Hall).
  destruct (Hall t d x Ht Hx) as (Hwf & (Hs & Hap & Hl & _) & _ & Hpend & _).
  pose proof Hap as (Hp & _). rewrite Hs in Hp.
  split; [exact Hwf|]. split; [exact Hs|]. split; [exact Hl|]. split; [exact Hp|]. split.
  - intro Ho. unfold pend_ok in Hpend. rewrite Ho in Hpend. tauto.
  - intros c Hc. assert (Hc' : inbox (shp (d_ap d)) c) by (rewrite Hs; exact Hc).
    rewrite (MemProofs.cell_bget Z σ d c Hwf Hc').
    destruct (R_cell φ σ ς t d x c Hφ Ht Hx Hc') as [E L]. rewrite E. f_equal.
    rewrite Hs. apply sval_slogical. rewrite Hs in L. exact L.
Qed.

(* ReduceProofs.content, with the SPEC's values *)
Lemma R_content φ σ ς t d x : Rphi φ σ ς -> get_t σ t = Some d -> sget ς t = Some x ->
  content σ d (sval ς x).
Proof.
  intros Hφ Ht Hx. destruct (R_tensor φ σ ς t d Hφ Ht) as (x' & Hx' & _ & Hs & _ & _ & _ & Hc).
  assert (x' = x) by congruence. subst x'. intros c Hc'. apply Hc. rewrite <- Hs. exact Hc'.
Qed.

(* a contiguous tensor: its window is its logical content *)
Lemma R_window φ σ ς t d x j : Rphi φ σ ς -> get_t σ t = Some d -> sget ς t = Some x ->
  contig d -> 0 <= j < d_len d ->
  win_get σ d j = Some (nth (Z.to_nat j) (slogical ς x) 0).
Proof.
  intros Hφ Ht Hx Hct Hj.
  destruct (R_tensor φ σ ς t d Hφ Ht) as (x' & Hx' & Hwf & Hs & Hl & Hp & _ & Hc).
  assert (x' = x) by congruence. subst x'.
  pose proof Hct as [Hst Hlen]. rewrite Hs in Hlen.
  set (c := unrank (s_shape x) j).
  assert (Hc1 : inbox (s_shape x) c) by (apply unrank_inbox; [exact Hp|lia]).
  assert (Hr : rank_rm (s_shape x) c = j) by (apply rank_unrank; [exact Hp|lia]).
  specialize (Hc c Hc1). unfold MemProofs.cell in Hc.
  rewrite Hst, <- rk_dot, Hs in Hc. unfold c in Hc at 1. rewrite rk_unrank in Hc by (auto; lia).
  rewrite Hc. f_equal. rewrite <- Hr at 1. symmetry. apply sval_slogical. lia.
Qed.

(* what zguard's tests on one operand give *)
Lemma requires_iterator_plain d : guard_read d = GOk -> is_nc (ord (d_ap d)) = false -> d_old d = None ->
  requires_iterator d = false.
Proof.
  intros Hg Hnc Ho. unfold guard_read in Hg.
  destruct (negb (pos_shapeb (shp (d_ap d))) || (d_len d <=? 0)) eqn:E; [discriminate|].
  unfold requires_iterator. rewrite Hnc, Ho. cbn [is_some orb].
  destruct (d_len d =? 1); [reflexivity|]. lia.
Qed.

Lemma guard_read_len_pos d : guard_read d = GOk -> 0 < d_len d.
Proof.
  unfold guard_read. destruct (negb (pos_shapeb (shp (d_ap d))) || (d_len d <=? 0)) eqn:E; [discriminate|]. lia.
Qed.

Lemma wf_in_buf σ d : wf_dense σ d -> in_buf Z σ d.
Proof. intros ((H0 & H1 & H2) & _). split; [exact H0|exact H2]. Qed.

(* ====================================================================================== *)
(*  1. a result delivered as a NEW row-major tensor over its own backing: exactly ONew      *)
(* ====================================================================================== *)
Lemma new_result_ONew σ sh data : zlen data = size sh ->
  (let '(σ', t) := new_result σ sh data in (σ', RNew Z t)) = step_model σ (ONew Z 0 sh data).
Proof. intro Hl. rewrite (step_model_new0 Z 0 σ sh data Hl). reflexivity. Qed.

Lemma deliver_ONew ς ta x sh data : sget ς ta = Some x -> s_pending x = O ->
  zlen data = size sh -> pos_shapeb sh = true ->
  spec_vals_deliver ς ta sh (map (fun v => Some v) data) (0, O) false = step_spec ς (ONew Z 0 sh data).
Proof.
  intros Hx Hp Hl Hs. rewrite (spec_deliver_safe ς ta x sh data false Hx Hp).
  rewrite (step_spec_new0 Z 0 ς sh data Hl Hs). reflexivity.
Qed.

Lemma sim_new_result σ ς ta x sh data σ' r : R σ ς -> RM σ ->
  sget ς ta = Some x -> s_pending x = O -> zlen data = size sh -> pos_shapeb sh = true ->
  (let '(σ1, t) := new_result σ sh data in (σ1, RNew Z t)) = (σ', r) ->
  exists ς', spec_vals_deliver ς ta sh (map (fun v => Some v) data) (0, O) false = Some (ς', r) /\
             R σ' ς' /\ RM σ'.
Proof.
  intros HR HRM Hx Hp Hl Hs H. rewrite (new_result_ONew σ sh data Hl) in H.
  rewrite (deliver_ONew ς ta x sh data Hx Hp Hl Hs).
  destruct (sim_ONew0 Z 0 σ ς sh data σ' r HR Hs Hl H) as (ς' & E & HR').
  exists ς'. split; [exact E|]. split; [exact HR'|]. apply (RM_ONew0 Z 0 σ sh data σ' r Hl HRM H).
Qed.

(* the hint fields: what the implementation did.  [refused] must be faithful: 0 / false when the
   MODEL succeeds, "refused" when it refuses *)
Definition hintZ (r : outcome Z) (refused : Z) : bool :=
  match r with
  | RErr _ => (refused =? 0) || (refused =? 1)
  | RPanic _ => refused =? 2
  | _ => refused =? 0
  end.
Definition hintB (r : outcome Z) (refused : bool) : bool :=
  match r with
  | RErr _ => true
  | RPanic _ => false
  | _ => negb refused
  end.

(* ====================================================================================== *)
(*  2. ZInner, ZTrace: value outcomes, no new tensor                                        *)
(* ====================================================================================== *)
Lemma combine_zseq (X Y : list Z) n : length X = n -> length Y = n ->
  map (fun p => Z.mul (fst p) (snd p)) (combine X Y)
  = map (fun i => Z.mul (nth (Z.to_nat i) X 0) (nth (Z.to_nat i) Y 0)) (zseq 0 n).
Proof.
  intros HX HY. apply nth_error_ext_eq. intro k.
  destruct (Nat.lt_ge_cases k n) as [Hk|Hk].
  - rewrite !nth_error_map. rewrite (APProofs.zseq_nth_error 0 n k Hk). cbn [option_map].
    replace (Z.to_nat (0 + Z.of_nat k)) with k by lia.
    assert (E : nth_error (combine X Y) k = Some (nth k X 0, nth k Y 0)).
    { revert Y n k HX HY Hk. induction X as [|a X IH]; intros [|b Y] n [|k] HX HY Hk; cbn [length] in *; try lia.
      - reflexivity.
      - cbn [combine nth_error nth]. apply (IH Y (length X)); lia. }
    rewrite E. reflexivity.
  - transitivity (@None Z); [|symmetry]; apply nth_error_None; rewrite map_length.
    + rewrite combine_length. lia.
    + rewrite APProofs.zseq_length. lia.
Qed.

Definition inner_ok (d : dense) : bool :=
  match guard_read d with GOk => true | _ => false end &&
  negb (d_view d || is_nc (ord (d_ap d)) || is_some (d_old d)).

Lemma zguard_ZInner σ a b refused da db : get_t σ a = Some da -> get_t σ b = Some db ->
  zguard σ (ZInner a b refused) = GOk -> inner_ok da = true /\ inner_ok db = true.
Proof.
  intros Ha Hb H. unfold zguard in H. cbn [flat_map] in H. rewrite Ha, Hb in H. cbn [app filter existsb] in H.
  unfold inner_ok.
  destruct (guard_read da) eqn:Ga; try (exfalso; congruence).
  destruct (guard_read db) eqn:Gb; try (exfalso; congruence).
  cbn [andb]. rewrite orb_false_r in H.
  destruct (d_view da || is_nc (ord (d_ap da)) || is_some (d_old da)); [discriminate H|].
  destruct (d_view db || is_nc (ord (d_ap db)) || is_some (d_old db)); [discriminate H|].
  split; reflexivity.
Qed.

Lemma inner_ok_contig σ d : RM σ -> (exists t, get_t σ t = Some d) -> inner_ok d = true ->
  guard_read d = GOk /\ contig d.
Proof.
  intros HRM [t Ht] H. unfold inner_ok in H. apply andb_true_iff in H as [H1 H2].
  destruct (guard_read d) eqn:G; try discriminate H1. split; [reflexivity|].
  apply negb_true_iff in H2. apply orb_false_iff in H2 as [H2 H3]. apply orb_false_iff in H2 as [_ H2].
  destruct (HRM t d Ht) as [Hcm _].
  apply (guard_read_contig d G Hcm). apply (requires_iterator_plain d G H2).
  destruct (d_old d); [discriminate H3|reflexivity].
Qed.

Lemma zstep_model_ZInner σ a b refused :
  zstep_model σ (ZInner a b refused)
  = match m_inner Z 0 Z.add Z.mul σ a b with
    | Ok v => (σ, RVal Z v) | Err => (σ, RErr Z) | Panic => (σ, RPanic Z) end.
Proof. reflexivity. Qed.

Lemma zstep_spec_ZInner ς a b x y : sget ς a = Some x -> sget ς b = Some y ->
  zstep_spec ς (ZInner a b 0)
  = match spec_inner_val Z 0 Z.add Z.mul ς x y with
    | Some v => Some (ς, RVal Z v) | None => Some (ς, RErr Z) end.
Proof. intros Hx Hy. unfold zstep_spec. rewrite Hx, Hy. reflexivity. Qed.

Lemma zstep_spec_ZInner_refused ς a b : zstep_spec ς (ZInner a b 1) = Some (ς, RErr Z).
Proof. reflexivity. Qed.

Lemma sim_ZInner σ ς a b refused da db σ' r : R σ ς -> RM σ ->
  get_t σ a = Some da -> get_t σ b = Some db ->
  zguard σ (ZInner a b refused) = GOk ->
  zstep_model σ (ZInner a b refused) = (σ', r) -> hintZ r refused = true ->
  exists ς', zstep_spec ς (ZInner a b refused) = Some (ς', r) /\ R σ' ς' /\ RM σ'.
Proof.
  intros HR HRM Ha Hb Hg H Hh. pose proof HR as (φ & Hφ).
  destruct (zguard_ZInner σ a b refused da db Ha Hb Hg) as [Ia Ib].
  destruct (inner_ok_contig σ da HRM (ex_intro _ a Ha) Ia) as [Ga Ca].
  destruct (inner_ok_contig σ db HRM (ex_intro _ b Hb) Ib) as [Gb Cb].
  destruct (R_tensor φ σ ς a da Hφ Ha) as (x & Hx & Wa & Sa & La & Pa & _ & _).
  destruct (R_tensor φ σ ς b db Hφ Hb) as (y & Hy & Wb & Sb & Lb & Pb & _ & _).
  rewrite zstep_model_ZInner in H.
  assert (Hspec0 : zstep_spec ς (ZInner a b 0)
                   = match spec_inner_val Z 0 Z.add Z.mul ς x y with
                     | Some v => Some (ς, RVal Z v) | None => Some (ς, RErr Z) end)
    by (apply zstep_spec_ZInner; assumption).
  (* the model's outcome and the SPEC's for hint 0 agree *)
  assert (Hagree : zstep_spec ς (ZInner a b 0) = Some (ς, r) /\ σ' = σ).
  { rewrite Hspec0. unfold spec_inner_val. rewrite <- Sa, <- Sb.
    destruct (is_vector (shp (d_ap da))) eqn:Va; [destruct (is_vector (shp (d_ap db))) eqn:Vb|].
    - cbn [negb orb]. unfold vec_vals. rewrite !slogical_length.
      pose proof Ca as [_ Hla]. pose proof Cb as [_ Hlb]. rewrite Sa in Hla. rewrite Sb in Hlb.
      pose proof (guard_read_len_pos da Ga) as Hpa. pose proof (guard_read_len_pos db Gb) as Hpb.
      destruct (Z.eq_dec (d_len da) (d_len db)) as [El|Nl].
      + replace (length (s_cells x) =? length (s_cells y))%nat with true
          by (symmetry; apply Nat.eqb_eq; lia). cbn [negb].
        rewrite (m_inner_spec Z 0 Z.add Z.mul σ a b da db (d_len da) Ha Hb Va Vb eq_refl (eq_sym El)
                   ltac:(lia) (wf_in_buf σ da Wa) (wf_in_buf σ db Wb)) in H.
        injection H as <- <-. split; [|reflexivity]. f_equal. f_equal. f_equal. unfold vsum. f_equal.
        rewrite (combine_zseq (slogical ς x) (slogical ς y) (Z.to_nat (d_len da)))
          by (rewrite slogical_length; lia).
        apply map_ext_in. intros i Hi. apply APProofs.zseq_In in Hi. unfold velt, optv.
        rewrite (R_window φ σ ς a da x i Hφ Ha Hx Ca) by lia.
        rewrite (R_window φ σ ς b db y i Hφ Hb Hy Cb) by lia. reflexivity.
      + replace (length (s_cells x) =? length (s_cells y))%nat with false
          by (symmetry; apply Nat.eqb_neq; lia). cbn [negb].
        rewrite (m_inner_length_mismatch Z 0 Z.add Z.mul σ a b da db Ha Hb Vb Nl) in H.
        injection H as <- <-. split; reflexivity.
    - cbn [negb orb].
      rewrite (m_inner_not_vector Z 0 Z.add Z.mul σ a b da db Ha Hb (or_intror Vb)) in H.
      injection H as <- <-. split; reflexivity.
    - cbn [negb orb].
      rewrite (m_inner_not_vector Z 0 Z.add Z.mul σ a b da db Ha Hb (or_introl Va)) in H.
      injection H as <- <-. split; reflexivity. }
  destruct Hagree as [Hs0 ->]. exists ς. split; [|split; assumption].
  (* the hint *)
  destruct r as [|v|t| |]; cbn [hintZ] in Hh.
  - replace refused with 0 by lia. exact Hs0.
  - replace refused with 0 by lia. exact Hs0.
  - replace refused with 0 by lia. exact Hs0.
  - assert (Hr : refused = 0 \/ refused = 1) by lia. destruct Hr as [-> | ->]; [exact Hs0|reflexivity].
  - exfalso. rewrite Hspec0 in Hs0. destruct (spec_inner_val Z 0 Z.add Z.mul ς x y); discriminate Hs0.
Qed.

(* ---- ZTrace ---- *)
Lemma zguard_ZTrace σ a refused : zguard σ (ZTrace a refused) = GOk -> exists da, get_t σ a = Some da.
Proof.
  intro H. unfold zguard in H. cbn [flat_map] in H. destruct (get_t σ a) as [da|]; [eauto|discriminate H].
Qed.

Lemma zstep_model_ZTrace σ a refused :
  zstep_model σ (ZTrace a refused)
  = match m_trace Z 0 Z.add σ a with
    | Ok v => (σ, RVal Z v) | Err => (σ, RErr Z) | Panic => (σ, RPanic Z) end.
Proof. reflexivity. Qed.

Lemma zstep_spec_ZTrace ς a x : sget ς a = Some x ->
  zstep_spec ς (ZTrace a 0)
  = match spec_trace_val Z 0 Z.add ς x with
    | Some v => Some (ς, RVal Z v) | None => Some (ς, RErr Z) end.
Proof. intro Hx. unfold zstep_spec. rewrite Hx. reflexivity. Qed.

Lemma sim_ZTrace σ ς a refused σ' r : R σ ς -> RM σ ->
  zguard σ (ZTrace a refused) = GOk ->
  zstep_model σ (ZTrace a refused) = (σ', r) -> hintZ r refused = true ->
  exists ς', zstep_spec ς (ZTrace a refused) = Some (ς', r) /\ R σ' ς' /\ RM σ'.
Proof.
  intros HR HRM Hg H Hh. pose proof HR as (φ & Hφ).
  destruct (zguard_ZTrace σ a refused Hg) as [da Ha].
  destruct (R_tensor φ σ ς a da Hφ Ha) as (x & Hx & Wa & Sa & La & Pa & _ & Hc).
  rewrite zstep_model_ZTrace in H.
  pose proof (zstep_spec_ZTrace ς a x Hx) as Hspec0.
  assert (Hagree : zstep_spec ς (ZTrace a 0) = Some (ς, r) /\ σ' = σ).
  { rewrite Hspec0. unfold spec_trace_val. rewrite <- Sa.
    pose proof Wa as (Hw & (Hp & Hls & _ & Hb & _) & _).
    destruct (shp (d_ap da)) as [|r0 [|c0 [|e l]]] eqn:Es.
    - rewrite (m_trace_not_matrix Z 0 Z.add σ a da Ha) in H by (rewrite Es; discriminate).
      injection H as <- <-. split; reflexivity.
    - rewrite (m_trace_not_matrix Z 0 Z.add σ a da Ha) in H by (rewrite Es; discriminate).
      injection H as <- <-. split; reflexivity.
    - destruct (str (d_ap da)) as [|rs [|cs [|e l]]] eqn:Et; try discriminate Hls.
      assert (Hdiag : forall i, 0 <= i < Z.min r0 c0 -> 0 <= i * (rs + cs) < d_len da).
      { intros i Hi. specialize (Hb [i; i]). cbn [dot inbox] in Hb. specialize (Hb ltac:(lia)). lia. }
      destruct Hw as (W0 & W1 & W2).
      rewrite (m_trace_spec Z 0 Z.add σ a da r0 c0 rs cs Ha Es Et (wf_in_buf σ da Wa) W1 Hdiag) in H.
      injection H as <- <-. split; [|reflexivity]. f_equal. f_equal. f_equal. unfold vsum. f_equal.
      apply map_ext_in. intros i Hi. apply APProofs.zseq_In in Hi.
      unfold entv, ent, optv. change (OpsProofs.cell Z σ da [i; i]) with (mcell σ da [i; i]).
      rewrite Hc by (rewrite <- Sa; cbn [inbox]; lia). reflexivity.
    - rewrite (m_trace_not_matrix Z 0 Z.add σ a da Ha) in H by (rewrite Es; discriminate).
      injection H as <- <-. split; reflexivity. }
  destruct Hagree as [Hs0 ->]. exists ς. split; [|split; assumption].
  destruct r as [|v|t| |]; cbn [hintZ] in Hh.
  - replace refused with 0 by lia. exact Hs0.
  - replace refused with 0 by lia. exact Hs0.
  - replace refused with 0 by lia. exact Hs0.
  - assert (Hr : refused = 0 \/ refused = 1) by lia. destruct Hr as [-> | ->]; [exact Hs0|reflexivity].
  - exfalso. rewrite Hspec0 in Hs0. destruct (spec_trace_val Z 0 Z.add ς x); discriminate Hs0.
Qed.

(* ====================================================================================== *)
(*  3. ZReduce: Sum / Min / Max along a set of axes                                         *)
(* ====================================================================================== *)
Lemma zred_assoc code a b c : zred code a (zred code b c) = zred code (zred code a b) c.
Proof. unfold zred. destruct (code =? 0); [lia|]. destruct (code =? 1); lia. Qed.

Lemma zred_comm code a b : zred code a b = zred code b a.
Proof. unfold zred. destruct (code =? 0); [lia|]. destruct (code =? 1); lia. Qed.

Lemma zred_unit code : (code =? 0) = true -> forall v, zred code 0 v = v.
Proof. intros H v. unfold zred. rewrite H. lia. Qed.

Lemma nodup_z_NoDup : forall l, nodup_z l = true -> NoDup l.
Proof.
  induction l as [|x l IH]; intro H; [constructor|]. cbn [nodup_z] in H. apply andb_true_iff in H as [H1 H2].
  constructor; [|apply IH; exact H2]. intro Hin. apply negb_true_iff in H1.
  assert (E : existsb (Z.eqb x) l = true) by (apply existsb_exists; exists x; split; [exact Hin|lia]).
  congruence.
Qed.

Lemma remove_nth_z_eq : forall (l : list Z) n, remove_nth_z n l = remove_nth n l.
Proof. induction l as [|x l IH]; intros [|n]; cbn [remove_nth_z remove_nth]; try reflexivity. f_equal. apply IH. Qed.

(* zguard's reduceDefault test implies the guard of the reduction theorems *)
Lemma bad_default_guard : forall axes reduced sh, StronglySorted Z.lt axes ->
  Forall (fun ax => reduced <= ax < reduced + zlen sh) axes ->
  uses_bad_default axes reduced sh = false -> axes_guard axes reduced sh.
Proof.
  induction axes as [|ax rest IH]; intros reduced sh Hs Hr Hb; [exact I|].
  inversion Hs as [|? ? Hs' Hlt]; subst. inversion Hr as [|? ? Hax Hr']; subst.
  cbn [uses_bad_default] in Hb. apply orb_false_iff in Hb as [Hb1 Hb2].
  cbn [axes_guard]. split.
  - set (axis := ax - reduced) in *.
    assert (Hc : axis = 0 \/ axis = zlen sh - 1 \/ axis = 1 \/ znth 0 sh axis = 2) by lia.
    unfold default_ok. destruct Hc as [Hc|[Hc|[Hc|Hc]]].
    + left. lia.
    + right. left. unfold zlen in *. lia.
    + right. right. right. rewrite Hc. replace (Z.to_nat 1) with 1%nat by lia. reflexivity.
    + right. right. left. rewrite <- (znth_nth 0 sh axis) by lia. exact Hc.
  - rewrite remove_nth_z_eq in Hb2. apply IH; [exact Hs'| |exact Hb2].
    assert (Hl : zlen (remove_nth (Z.to_nat (ax - reduced)) sh) = zlen sh - 1).
    { unfold zlen in *. rewrite remove_nth_length by lia. lia. }
    rewrite Forall_forall in *. intros z Hz. specialize (Hlt z Hz). specialize (Hr' z Hz). lia.
Qed.

Lemma filter_all_false {A} (f : A -> bool) : forall l, (forall x, In x l -> f x = false) -> filter f l = [].
Proof.
  induction l as [|x l IH]; intro H; [reflexivity|]. cbn [filter]. rewrite (H x (or_introl eq_refl)).
  apply IH. intros y Hy. apply H. right. exact Hy.
Qed.

Lemma filter_all_true {A} (f : A -> bool) : forall l, (forall x, In x l -> f x = true) -> filter f l = l.
Proof.
  induction l as [|x l IH]; intro H; [reflexivity|]. cbn [filter]. rewrite (H x (or_introl eq_refl)).
  f_equal. apply IH. intros y Hy. apply H. right. exact Hy.
Qed.

Lemma ic_go_all axes : forall ic i, (forall j, i <= j < i + zlen ic -> existsb (Z.eqb j) axes = true) ->
  ic_go axes i (length ic) [] ic = ic.
Proof.
  induction ic as [|k ic IH]; intros i H; cbn [length ic_go]; [reflexivity|].
  rewrite H by (unfold zlen; cbn [length]; lia). f_equal. apply IH.
  intros j Hj. apply H. unfold zlen in *. cbn [length]. lia.
Qed.

(* the SPEC with every axis in the set: a scalar, the fold of the row-major enumeration *)
Lemma spec_reduce_all ς x axes f fz : pos_shape (s_shape x) ->
  (forall j, 0 <= j < zlen (s_shape x) -> existsb (Z.eqb j) axes = true) ->
  spec_reduce_vals Z 0 f fz ς x axes
  = ([], [Some (fold1 0 f fz (map (sval ς x) (coords (s_shape x))))]).
Proof.
  intros Hp Hall. unfold spec_reduce_vals. set (sh := s_shape x) in *.
  assert (Hin : forall i, In i (zseq 0 (length sh)) -> existsb (Z.eqb i) axes = true).
  { intros i Hi. apply APProofs.zseq_In in Hi. apply Hall. unfold zlen. lia. }
  rewrite (filter_all_false (fun i => negb (existsb (Z.eqb i) axes)))
    by (intros i Hi; rewrite (Hin i Hi); reflexivity).
  rewrite (filter_all_true (fun i => existsb (Z.eqb i) axes)) by exact Hin.
  assert (Hm : map (fun i => znth 0 sh i) (zseq 0 (length sh)) = sh).
  { pose proof (map_znth_zseq 0 [] sh []) as H. cbn [app] in H. rewrite app_nil_r in H.
    change (zlen (@nil Z)) with 0 in H. exact H. }
  rewrite Hm. cbn [map]. rewrite coords_nil. cbn [map]. f_equal. f_equal.
  change (sfold Z 0 f fz (map (fun ic => sval ς x (insert_coord axes [] ic)) (coords sh))
          = Some (fold1 0 f fz (map (sval ς x) (coords sh)))).
  assert (Hvs : map (fun ic => sval ς x (insert_coord axes [] ic)) (coords sh) = map (sval ς x) (coords sh)).
  { apply map_ext_in. intros ic Hic. apply (MemProofs.coords_In _ _ Hp) in Hic.
    rewrite insert_coord_go. cbn [length Nat.add]. rewrite ic_go_all; [reflexivity|].
    intros j Hj. apply Hall. unfold zlen in *. rewrite (inbox_length _ _ Hic) in Hj. fold sh. lia. }
  rewrite Hvs. apply sfold_fold1. intro E. apply map_eq_nil in E. apply (coords_ne sh Hp E).
Qed.

Lemma spec_reduce_vals_length ς x axes f fz :
  length (snd (spec_reduce_vals Z 0 f fz ς x axes))
  = Z.to_nat (size (fst (spec_reduce_vals Z 0 f fz ς x axes))).
Proof. unfold spec_reduce_vals. cbn [fst snd]. rewrite map_length, MemProofs.coords_length. reflexivity. Qed.

Lemma zguard_ZReduce σ code a axes refused : zguard σ (ZReduce code a axes refused) = GOk ->
  exists da, get_t σ a = Some da /\ guard_read da = GOk /\ is_cm (ord (d_ap da)) = false /\
    uses_bad_default (sort_z axes) 0 (shp (d_ap da)) = false.
Proof.
  intro H. unfold zguard in H. cbn [flat_map] in H. destruct (get_t σ a) as [da|]; [|discriminate H].
  cbn [app] in H. exists da. split; [reflexivity|].
  destruct (guard_read da) eqn:G; try discriminate H.
  destruct (is_cm (ord (d_ap da))); [discriminate H|].
  destruct (negb (is_materializable da) && negb (d_len da =? size (shp (d_ap da)))); [discriminate H|].
  destruct (uses_bad_default (sort_z axes) 0 (shp (d_ap da))); [discriminate H|]. auto.
Qed.

(* what has to be added to zguard for a reduction step:
   - the axes are a set of axes of the tensor (in range, no repeats)     GAP  ZReduce_zguard_gap
     (the SPEC is silent; the MODEL folds everything / panics / refuses)
   - nothing pending on the operand                                       PROOF (the SPEC gives the result
     pending = 2, "UT unspecified", which R cannot express — as for the safe elementwise steps)
   - a plain (non-view) operand does not carry the non-contiguous bit      PROOF (the library refuses such an
     operand, which the SPEC allows when the hint says so; the theorems of ReduceProofs.v cover the
     refusal for a single axis only) *)
Definition reduce_axes_of (dims : Z) (axes : list Z) : list Z :=
  match axes with [] => zseq 0 (Z.to_nat dims) | _ => axes end.

Definition reduce_extra (σ : store Z) (a : nat) (axes : list Z) : bool :=
  match get_t σ a with
  | Some da =>
    let dims := zlen (shp (d_ap da)) in
    forallb (fun i => (0 <=? i) && (i <? dims)) (reduce_axes_of dims axes) && nodup_z (reduce_axes_of dims axes)
    && negb (is_some (d_old da)) && (d_view da || negb (is_nc (ord (d_ap da))))
  | None => false
  end.

Lemma zstep_model_ZReduce σ code a axes refused :
  zstep_model σ (ZReduce code a axes refused)
  = match fst (m_reduce Z 0 (zred code) (code =? 0) σ a axes) with
    | Ok (sh, data) => let '(σ', t) := new_result σ sh data in (σ', RNew Z t)
    | Err => (σ, RErr Z)
    | Panic => (σ, RPanic Z)
    end.
Proof. reflexivity. Qed.

Lemma zstep_spec_ZReduce ς code a axes x : sget ς a = Some x ->
  let axes' := reduce_axes_of (zlen (s_shape x)) axes in
  forallb (fun i => (0 <=? i) && (i <? zlen (s_shape x))) axes' && nodup_z axes' = true ->
  zstep_spec ς (ZReduce code a axes false)
  = spec_vals_deliver ς a (fst (spec_reduce_vals Z 0 (zred code) (code =? 0) ς x axes'))
      (snd (spec_reduce_vals Z 0 (zred code) (code =? 0) ς x axes')) (0, O) false.
Proof.
  intros Hx axes' Hv. unfold zstep_spec, spec_reduce_step. rewrite Hx.
  apply andb_true_iff in Hv as [Hv1 Hv2].
  change (match axes with [] => zseq 0 (Z.to_nat (zlen (s_shape x))) | _ :: _ => axes end) with axes'.
  rewrite Hv1, Hv2. cbn [negb orb].
  destruct (spec_reduce_vals Z 0 (zred code) (code =? 0) ς x axes') as [sh vs]. reflexivity.
Qed.

Lemma sim_ZReduce σ ς code a axes refused σ' r : R σ ς -> RM σ ->
  zguard σ (ZReduce code a axes refused) = GOk -> reduce_extra σ a axes = true ->
  zstep_model σ (ZReduce code a axes refused) = (σ', r) -> hintB r refused = true ->
  exists ς', zstep_spec ς (ZReduce code a axes refused) = Some (ς', r) /\ R σ' ς' /\ RM σ'.
Proof.
  intros HR HRM Hg He H Hh. pose proof HR as (φ & Hφ).
  destruct (zguard_ZReduce σ code a axes refused Hg) as (da & Ha & Gr & Hcm & Hbd).
  unfold reduce_extra in He. rewrite Ha in He.
  apply andb_true_iff in He as [He Hnc]. apply andb_true_iff in He as [Hv Ho].
  assert (Hold : d_old da = None) by (destruct (d_old da); [discriminate Ho|reflexivity]).
  destruct (R_tensor φ σ ς a da Hφ Ha) as (x & Hx & Wa & Sa & La & Pa & Hpend & Hc).
  specialize (Hpend Hold).
  set (sh := shp (d_ap da)) in *. set (axes' := reduce_axes_of (zlen sh) axes) in *.
  (* the operand *)
  assert (Hrwf : rwf σ da).
  { split; [exact Wa|]. intro Hri. apply (guard_read_contig da Gr Hcm Hri). }
  assert (Hmat : is_materializable da = false -> requires_iterator da = false /\ is_cm (ord (d_ap da)) = false).
  { intro Hm. split; [|exact Hcm]. unfold is_materializable in Hm. apply orb_false_iff in Hm as [Hvw _].
    rewrite Hvw in Hnc. cbn [orb] in Hnc. apply negb_true_iff in Hnc.
    apply (requires_iterator_plain da Gr Hnc Hold). }
  pose proof (R_content φ σ ς a da x Hφ Ha Hx) as Hcont.
  assert (Hvals : forall c, inbox sh c ->
            nth (nth (Z.to_nat (rank_rm sh c)) (s_cells x) O) (s_vals ς) 0 = sval ς x c).
  { intros c _. unfold sval. rewrite <- Sa. reflexivity. }
  pose proof Hv as Hv'. apply andb_true_iff in Hv' as [Hrange Hnd].
  assert (Hrange' : Forall (fun ax => 0 <= ax < zlen sh) axes').
  { apply Forall_forall. intros ax Hax. rewrite forallb_forall in Hrange. specialize (Hrange ax Hax). lia. }
  pose proof (nodup_z_NoDup axes' Hnd) as HND.
  (* MODEL and SPEC values *)
  assert (Hboth : exists sh' data,
            m_reduce Z 0 (zred code) (code =? 0) σ a axes = (Ok (sh', data), axes) /\
            spec_reduce_vals Z 0 (zred code) (code =? 0) ς x axes' = (sh', map (fun v => Some v) data) /\
            pos_shape sh').
  { destruct (shortcut axes sh) eqn:Esc.
    - (* the all-axes shortcut *)
      assert (Hcase : axes = [] \/ is_monotonic axes = (true, true) /\ length axes = length sh).
      { unfold shortcut in Esc. destruct (is_monotonic axes) as [mono incr1].
        apply orb_true_iff in Esc as [E|E].
        - right. apply andb_true_iff in E as [E E3]. apply andb_true_iff in E as [E1 E2].
          subst mono incr1. split; [reflexivity|]. unfold zlen in E3. lia.
        - left. destruct axes; [reflexivity|]. unfold zlen in E. cbn [length] in E. lia. }
      exists [], [fold1 0 (zred code) (code =? 0) (map (sval ς x) (coords sh))].
      split; [|split; [|constructor]].
      + apply (m_reduce_all_axes Z 0 (zred code) (code =? 0) σ a da axes (sval ς x) Ha Hrwf Hcont);
          [intro Hm; apply (Hmat Hm)|exact Hcase].
      + rewrite Sa. apply spec_reduce_all; [exact Pa|].
        intros j Hj. rewrite <- Sa in Hj. apply existsb_exists. exists j. split; [|lia].
        destruct Hcase as [->|[_ Hlen]].
        * unfold axes', reduce_axes_of. apply APProofs.zseq_In. lia.
        * assert (Hax : axes' = axes).
          { unfold axes', reduce_axes_of. destruct axes; [|reflexivity].
            cbn [length] in Hlen. unfold zlen in Hj. lia. }
          rewrite Hax in *.
          assert (Hincl : incl (zseq 0 (length sh)) axes).
          { apply NoDup_length_incl; [exact HND|rewrite APProofs.zseq_length; lia|].
            intros ax Hax'. rewrite Forall_forall in Hrange'. specialize (Hrange' ax Hax').
            apply APProofs.zseq_In. unfold zlen in Hrange'. lia. }
          apply Hincl. apply APProofs.zseq_In. unfold zlen in Hj. lia.
    - (* the axis loop *)
      assert (Hax : axes' = axes).
      { unfold axes', reduce_axes_of. destruct axes; [|reflexivity]. exfalso.
        unfold shortcut in Esc. cbn [is_monotonic] in Esc. change (zlen (@nil Z) =? 0) with true in Esc.
        rewrite orb_true_r in Esc. discriminate Esc. }
      rewrite Hax in *.
      assert (Hok : axes_ok (sort_z axes) 0 sh).
      { apply axes_ok_sorted; [apply sort_z_strict; exact HND| |].
        - apply Forall_forall. intros ax Hin. rewrite Forall_forall in Hrange'.
          apply (Permutation_in _ (sort_z_perm axes)) in Hin. specialize (Hrange' ax Hin). lia.
        - apply bad_default_guard; [apply sort_z_strict; exact HND| |exact Hbd].
          apply Forall_forall. intros ax Hin. rewrite Forall_forall in Hrange'.
          apply (Permutation_in _ (sort_z_perm axes)) in Hin. specialize (Hrange' ax Hin). lia. }
      destruct (m_reduce_multi_axis_spec Z 0 (zred code) (code =? 0) σ a da axes (sval ς x) ς x
                  (zred_assoc code) (zred_comm code) (zred_unit code) Ha Hrwf Hcont Hmat Esc Hok HND
                  (eq_sym Sa) Hvals) as (data & Em & Es).
      eexists _, data. split; [exact Em|]. split; [exact Es|].
      fold sh. rewrite spec_outer_osh. apply osh_pos. rewrite <- Sa in Pa. exact Pa. }
  destruct Hboth as (sh' & data & Em & Es & Psh').
  rewrite zstep_model_ZReduce, Em in H. cbn [fst] in H.
  assert (Hlen : zlen data = size sh').
  { pose proof (spec_reduce_vals_length ς x axes' (zred code) (code =? 0)) as L. rewrite Es in L.
    cbn [fst snd] in L. rewrite map_length in L. pose proof (size_pos sh' Psh'). unfold zlen. lia. }
  assert (Hr : exists t, r = RNew Z t).
  { destruct (new_result σ sh' data) as [σ1 t]. injection H as _ <-. eauto. }
  destruct Hr as [t ->]. cbn [hintB] in Hh. apply negb_true_iff in Hh. subst refused.
  rewrite (zstep_spec_ZReduce ς code a axes x Hx) by (rewrite <- Sa; exact Hv).
  rewrite <- Sa. fold sh. fold axes'. rewrite Es. cbn [fst snd].
  apply (sim_new_result σ ς a x sh' data σ' (RNew Z t) HR HRM Hx Hpend Hlen (pos_shape_complete sh' Psh') H).
Qed.

(* ====================================================================================== *)
(*  4. ZArg: arg-max / arg-min along an axis, or of the whole array (axis -1)               *)
(* ====================================================================================== *)
Lemma zguard_ZArg σ code a axis refused : zguard σ (ZArg code a axis refused) = GOk ->
  exists da, get_t σ a = Some da /\ guard_read da = GOk /\ is_cm (ord (d_ap da)) = false /\
    (axis = -1 -> is_materializable da = false /\ str (d_ap da) = calc_strides (shp (d_ap da))).
Proof.
  intro H. unfold zguard in H. cbn [flat_map] in H. destruct (get_t σ a) as [da|]; [|discriminate H].
  cbn [app] in H. exists da. split; [reflexivity|].
  destruct (guard_read da) eqn:G; try discriminate H.
  destruct (is_cm (ord (d_ap da))); [discriminate H|].
  split; [reflexivity|]. split; [reflexivity|]. intros ->. change (-1 =? -1) with true in H. cbn [andb] in H.
  destruct (is_materializable da); [discriminate H|]. cbn [orb] in H.
  destruct (list_eqb (str (d_ap da)) (calc_strides (shp (d_ap da)))) eqn:E; [|discriminate H].
  apply list_eqb_true in E. auto.
Qed.

(* what has to be added to zguard for an arg-reduction step:
   - nothing pending on the operand                                        PROOF (as for ZReduce)
   - the axis is -1 or an axis of the tensor                               GAP  (SPEC silent: axis < -1 panics,
     axis >= rank is refused — with a faithful hint the latter agrees; kept out for simplicity)
   - along an axis: the operand is not a strided (n,1)/(1,n) vector reduced along its long axis
     (not a vector, or the last axis, or default strides)                  GAP  ZArg_zguard_gap: AP.T
     overwrites the strides of such a view with [1;1] — equal outcomes, wrong indices
   - axis -1: the window is exactly the logical content (length = size)     PROOF (zguard already asks for a
     plain tensor with default strides) *)
Definition arg_extra (σ : store Z) (a : nat) (axis : Z) : bool :=
  match get_t σ a with
  | Some da =>
    let sh := shp (d_ap da) in
    negb (is_some (d_old da)) &&
    (if axis =? -1 then d_len da =? size sh
     else (0 <=? axis) && (axis <? zlen sh) &&
          (negb (is_vector sh) || (axis =? zlen sh - 1) || list_eqb (str (d_ap da)) (calc_strides sh)))
  | None => false
  end.

Lemma zstep_model_ZArg σ code a axis refused :
  zstep_model σ (ZArg code a axis refused)
  = match m_argbest Z (zbetter code) σ a axis with
    | Ok (sh, data) => let '(σ', t) := new_result σ sh data in (σ', RNew Z t)
    | Err => (σ, RErr Z)
    | Panic => (σ, RPanic Z)
    end.
Proof. reflexivity. Qed.

Lemma zstep_spec_ZArg_axis ς code a axis x : sget ς a = Some x -> 0 <= axis < zlen (s_shape x) ->
  zstep_spec ς (ZArg code a axis false)
  = spec_vals_deliver ς a (fst (spec_arg_vals Z 0 (zbetter code) ς x axis))
      (map (fun v => Some v) (snd (spec_arg_vals Z 0 (zbetter code) ς x axis))) (0, O) false.
Proof.
  intros Hx Hax. unfold zstep_spec. rewrite Hx. replace (axis =? -1) with false by lia.
  replace ((0 <=? axis) && (axis <? zlen (s_shape x))) with true by lia. cbn [negb].
  destruct (spec_arg_vals Z 0 (zbetter code) ς x axis) as [sh vs]. reflexivity.
Qed.

Lemma zstep_spec_ZArg_flat ς code a x : sget ς a = Some x ->
  zstep_spec ς (ZArg code a (-1) false)
  = spec_vals_deliver ς a []
      [Some (nth 0 (snd (spec_arg_vals Z 0 (zbetter code) ς
                           (mkSten [size (s_shape x)] (s_cells x) None 0 false false) 0)) 0)] (0, O) false.
Proof. intro Hx. unfold zstep_spec. rewrite Hx. reflexivity. Qed.

(* the SPEC's flat arg-reduction is argbest of the row-major enumeration *)
Lemma spec_arg_flat ς code x : pos_shape (s_shape x) ->
  nth 0 (snd (spec_arg_vals Z 0 (zbetter code) ς (mkSten [size (s_shape x)] (s_cells x) None 0 false false) 0)) 0
  = argbest Z (zbetter code) (map (sval ς x) (coords (s_shape x))).
Proof.
  intro Hp. set (n := size (s_shape x)). pose proof (size_pos _ Hp) as Hn. fold n in Hn.
  set (flat := mkSten [n] (s_cells x) None 0 false false).
  assert (Hpf : pos_shape ([] ++ n :: [])) by (constructor; [lia|constructor]).
  pose proof (spec_arg_single Z 0 (zbetter code) ς flat [] n [] eq_refl Hpf) as E.
  change (zlen (@nil Z)) with 0 in E. rewrite E. cbn [app snd]. rewrite coords_nil. cbn [map nth length].
  f_equal. unfold lane_of. cbn [nth insert_at]. unfold coords. fold n. rewrite map_map.
  apply map_ext_in. intros k Hk. apply APProofs.zseq_In in Hk.
  unfold sval. rewrite rank_unrank by (auto; lia).
  unfold rank_rm. cbn [rank_rm_acc]. replace (0 * n + k) with k by lia. reflexivity.
Qed.

Lemma sim_ZArg σ ς code a axis refused σ' r : R σ ς -> RM σ ->
  zguard σ (ZArg code a axis refused) = GOk -> arg_extra σ a axis = true ->
  zstep_model σ (ZArg code a axis refused) = (σ', r) -> hintB r refused = true ->
  exists ς', zstep_spec ς (ZArg code a axis refused) = Some (ς', r) /\ R σ' ς' /\ RM σ'.
Proof.
  intros HR HRM Hg He H Hh. pose proof HR as (φ & Hφ).
  destruct (zguard_ZArg σ code a axis refused Hg) as (da & Ha & Gr & Hcm & Hflat).
  unfold arg_extra in He. rewrite Ha in He. apply andb_true_iff in He as [Ho He].
  assert (Hold : d_old da = None) by (destruct (d_old da); [discriminate Ho|reflexivity]).
  destruct (R_tensor φ σ ς a da Hφ Ha) as (x & Hx & Wa & Sa & La & Pa & Hpend & Hc).
  specialize (Hpend Hold).
  pose proof (R_content φ σ ς a da x Hφ Ha Hx) as Hcont.
  rewrite zstep_model_ZArg in H.
  assert (Hboth : exists sh' data, m_argbest Z (zbetter code) σ a axis = Ok (sh', data) /\
            zstep_spec ς (ZArg code a axis false)
            = spec_vals_deliver ς a sh' (map (fun v => Some v) data) (0, O) false /\
            pos_shape sh' /\ zlen data = size sh').
  { destruct (axis =? -1) eqn:Eax.
    - assert (axis = -1) by lia. subst axis. destruct (Hflat eq_refl) as [Hm Hst].
      assert (Hct : contig da) by (split; [exact Hst|lia]).
      exists [], [argbest Z (zbetter code) (map (sval ς x) (coords (shp (d_ap da))))].
      split; [apply (m_argbest_flat_contig (zbetter code) σ a da (sval ς x) Ha Wa Hct Hcont)|].
      split; [|split; [constructor|reflexivity]].
      rewrite (zstep_spec_ZArg_flat ς code a x Hx), (spec_arg_flat ς code x Pa), Sa. reflexivity.
    - apply andb_true_iff in He as [He Hv]. assert (Hax : 0 <= axis < zlen (shp (d_ap da))) by lia.
      assert (Hgd : arg_vec_guard (d_ap da) axis).
      { apply orb_true_iff in Hv as [Hv|Hv]; [apply orb_true_iff in Hv as [Hv|Hv]|].
        - apply arg_vec_guard_nonvector. unfold ap_is_vector. apply negb_true_iff in Hv. exact Hv.
        - replace axis with (zlen (shp (d_ap da)) - 1) by lia. apply arg_vec_guard_last.
        - apply arg_vec_guard_contig. apply list_eqb_true in Hv. exact Hv. }
      assert (Hvals : forall c, inbox (shp (d_ap da)) c ->
                nth (nth (Z.to_nat (rank_rm (shp (d_ap da)) c)) (s_cells x) O) (s_vals ς) 0 = sval ς x c).
      { intros c _. unfold sval. rewrite <- Sa. reflexivity. }
      destruct (m_argbest_axis Z (zbetter code) σ a da axis (sval ς x) Ha Wa Hax Hgd Hcont)
        as (data & Em & Ld & _).
      pose proof (m_argbest_axis_spec Z 0 (zbetter code) σ a da axis (sval ς x) ς x Ha Wa Hax Hgd Hcont
                    (eq_sym Sa) Hvals) as Es.
      assert (Es' : spec_arg_vals Z 0 (zbetter code) ς x axis = (remove_nth (Z.to_nat axis) (shp (d_ap da)), data))
        by congruence.
      exists (remove_nth (Z.to_nat axis) (shp (d_ap da))), data. split; [exact Em|].
      assert (Psh : pos_shape (remove_nth (Z.to_nat axis) (shp (d_ap da)))).
      { apply pos_shape_remove_nth. rewrite Sa. exact Pa. }
      split; [|split; [exact Psh|pose proof (size_pos _ Psh); unfold zlen; lia]].
      rewrite (zstep_spec_ZArg_axis ς code a axis x Hx) by (rewrite <- Sa; exact Hax).
      rewrite Es'. reflexivity. }
  destruct Hboth as (sh' & data & Em & Es & Psh & Hlen).
  rewrite Em in H.
  assert (Hr : exists t, r = RNew Z t).
  { destruct (new_result σ sh' data) as [σ1 t]. injection H as _ <-. eauto. }
  destruct Hr as [t ->]. cbn [hintB] in Hh. apply negb_true_iff in Hh. subst refused.
  rewrite Es.
  apply (sim_new_result σ ς a x sh' data σ' (RNew Z t) HR HRM Hx Hpend Hlen (pos_shape_complete sh' Psh) H).
Qed.

(* ====================================================================================== *)
(*  5. ZLin: MatMul / MatVecMul / Outer                                                     *)
(* ====================================================================================== *)
Lemma zstep_model_ZLin σ code a b m refused :
  zstep_model σ (ZLin code a b m refused)
  = lres_outcome σ (if code =? 0 then m_matmul Z 0 Z.add Z.mul σ a b m
                    else if code =? 1 then m_matvec Z 0 Z.add Z.mul σ a b m
                    else m_outer Z 0 Z.add Z.mul σ a b m).
Proof.
  unfold zstep_model, lres_outcome.
  destruct (if code =? 0 then _ else _) as [σ1 [d|t| |]]; reflexivity.
Qed.

Definition lin_vals (code : Z) (ς : sstate Z) (x y : sten) : option (list Z * list Z) :=
  if code =? 0 then spec_matmul_vals Z 0 Z.add Z.mul ς x y
  else if code =? 1 then spec_matvec_vals Z 0 Z.add Z.mul ς x y
  else spec_outer_vals Z 0 Z.mul ς x y.

Definition lmode_code (m : lmode) : Z * nat :=
  match m with LSafe => (0, O) | LReuse r => (2, r) | LIncr r => (3, r) end.

Lemma zstep_spec_ZLin ς code a b m x y : sget ς a = Some x -> sget ς b = Some y ->
  zstep_spec ς (ZLin code a b m 0)
  = match lin_vals code ς x y with
    | None => Some (ς, RErr Z)
    | Some (sh, vs) =>
      match spec_deliver_gen Z 0 (match m with LReuse _ => false | _ => true end) Z.add ς a sh vs
              (fst (lmode_code m)) (snd (lmode_code m)) (s_cm x) with
      | Some (ς', t) => Some (ς', RNew Z t)
      | None => None
      end
    end.
Proof.
  intros Hx Hy. unfold zstep_spec, lin_vals. change (0 =? 1) with false. change (0 =? 2) with false. cbv iota.
  rewrite Hx, Hy. destruct m; reflexivity.
Qed.

Lemma zstep_spec_ZLin_refused ς code a b m : zstep_spec ς (ZLin code a b m 1) = Some (ς, RErr Z).
Proof. reflexivity. Qed.

(* the hint, once the outcomes for hint 0 agree *)
Lemma ZLin_hint ς code a b m refused ς' r : zstep_spec ς (ZLin code a b m 0) = Some (ς', r) ->
  (match r with RErr _ => ς' = ς | _ => True end) ->
  hintZ r refused = true -> r <> RPanic Z -> zstep_spec ς (ZLin code a b m refused) = Some (ς', r).
Proof.
  intros Hs He Hh Hnp. destruct r as [|v|t| |]; cbn [hintZ] in Hh.
  - replace refused with 0 by lia. exact Hs.
  - replace refused with 0 by lia. exact Hs.
  - replace refused with 0 by lia. exact Hs.
  - assert (Hr : refused = 0 \/ refused = 1) by lia. destruct Hr as [-> | ->]; [exact Hs|].
    subst ς'. reflexivity.
  - congruence.
Qed.

Lemma spec_deliver_gen_safe ks ς ta x sh vs cm : sget ς ta = Some x -> s_pending x = O ->
  spec_deliver_gen Z 0 ks Z.add ς ta sh vs 0 O cm
  = Some (mkSS Z (s_vals ς ++ vs)
            (s_tens ς ++ [mkSten sh (seq (length (s_vals ς)) (length vs)) None 0 false cm]),
          length (s_tens ς)).
Proof.
  intros Hx Hp. unfold spec_deliver_gen. change (0 =? 0) with true. cbv iota.
  unfold s_alloc, s_add. rewrite Hx, Hp. cbn [Nat.eqb s_vals s_tens]. reflexivity.
Qed.

(* a fresh result tensor p registered after the engine call: allocation of its own, row-major,
   nothing pending, holding vs in row-major order *)
Lemma sim_lin_fresh ks σ ς ta x σ1 p vs cm : R σ ς -> RM σ ->
  sget ς ta = Some x -> s_pending x = O ->
  tens σ1 = tens σ -> (forall k, (k < length (bufs σ))%nat -> get_buf σ1 k = get_buf σ k) ->
  d_buf p = length (bufs σ) -> in_buf Z σ1 p -> d_view p = false -> d_old p = None ->
  is_cm (ord (d_ap p)) = false -> str (d_ap p) = calc_strides (shp (d_ap p)) ->
  d_len p = size (shp (d_ap p)) -> pos_shape (shp (d_ap p)) ->
  length vs = Z.to_nat (size (shp (d_ap p))) ->
  (forall c, inbox (shp (d_ap p)) c -> ocell σ1 p c = Some (nth (Z.to_nat (rank_rm (shp (d_ap p)) c)) vs 0)) ->
  exists ς', spec_deliver_gen Z 0 ks Z.add ς ta (shp (d_ap p)) vs 0 O cm = Some (ς', length (tens σ)) /\
    R (fst (add_t Z σ1 p)) ς' /\ RM (fst (add_t Z σ1 p)).
Proof.
  intros (φ & Hφ) HRM Hx Hp0 Ht Hbufs Hb Hin Hv Ho Hcm Hst Hlen Hpos Hlv Hcells.
  rewrite (spec_deliver_gen_safe ks ς ta x _ vs cm Hx Hp0).
  pose proof Hφ as (Hl & _). rewrite <- Hl. eexists. split; [reflexivity|].
  set (σ2 := fst (add_t Z σ1 p)).
  assert (Hg2 : forall k, get_buf σ2 k = get_buf σ1 k) by reflexivity.
  assert (Hwf : wf_dense σ2 p).
  { destruct Hin as [I0 I1]. pose proof (size_pos _ Hpos) as Hsz. split; [|split].
    - unfold wf_win. rewrite Hg2. lia.
    - rewrite Hlen. apply (wf_ap_ext _ (mkAP (shp (d_ap p)) (calc_strides (shp (d_ap p))) 0 true));
        [reflexivity|cbn [str]; congruence|apply wf_ap_rowmajor; exact Hpos].
    - intros o Eo. congruence. }
  split.
  - assert (B1 : forall k, (k < length (bufs σ))%nat -> get_buf σ2 k = get_buf σ k)
      by (intros k Hk; rewrite Hg2; apply Hbufs; exact Hk).
    assert (B2 : tens σ2 = tens σ ++ [p]) by (unfold σ2, add_t; cbn [fst tens]; rewrite Ht; reflexivity).
    assert (B3 : (length (bufs σ) <= d_buf p)%nat) by lia.
    assert (B4 : forall c, inbox (shp (d_ap p)) c ->
              bget σ2 (d_buf p) (pos p c) = Some (nth (Z.to_nat (rank_rm (shp (d_ap p)) c)) vs 0)).
    { intros c Hc. rewrite <- (MemProofs.cell_bget Z σ2 p c Hwf Hc). apply (Hcells c Hc). }
    destruct (Rphi_fresh φ σ ς σ2 p vs cm Hφ B1 B2 B3 Hwf Hv Ho Hlv B4) as (φ' & Hφ').
    exists φ'. exact Hφ'.
  - unfold σ2, add_t. cbn [fst]. rewrite Ht. apply RM_snoc; [exact HRM|].
    split; [exact Hcm|]. intros o Eo. congruence.
Qed.

(* the operands of a ZLin step inside the guard *)
Definition lin_ok (d : dense) : bool :=
  match guard_read d with GOk => true | _ => false end &&
  negb (d_view d || is_nc (ord (d_ap d))) && negb (is_cm (ord (d_ap d))).

Lemma forallb_existsb_false {A} (f : A -> bool) l : existsb f l = false -> forallb (fun x => negb (f x)) l = true.
Proof. induction l as [|x l IH]; cbn [existsb forallb]; [reflexivity|]. intro H. apply orb_false_iff in H as [H1 H2]. rewrite H1, IH; auto. Qed.

Lemma zguard_ZLin σ code a b m refused da db : get_t σ a = Some da -> get_t σ b = Some db ->
  zguard σ (ZLin code a b m refused) = GOk ->
  lin_ok da = true /\ lin_ok db = true /\
  match m with
  | LSafe => True
  | LReuse r | LIncr r => forall dr, get_t σ r = Some dr -> lin_ok dr = true
  end.
Proof.
  intros Ha Hb H. unfold zguard in H. cbn [flat_map] in H. rewrite Ha, Hb in H. cbn [app] in H.
  set (dst := match m with LReuse r | LIncr r => match get_t σ r with Some d => [d] | None => [] end ++ [] | LSafe => [] end) in H.
  destruct (filter _ (da :: db :: dst)) as [|d0 l0] eqn:Ef.
  - destruct (existsb (fun d => d_view d || is_nc (ord (d_ap d))) (da :: db :: dst)) eqn:E1; [discriminate H|].
    destruct (existsb (fun d => is_cm (ord (d_ap d))) (da :: db :: dst)) eqn:E2; [discriminate H|].
    assert (Hall : forall d, In d (da :: db :: dst) -> lin_ok d = true).
    { intros d Hd. unfold lin_ok.
      pose proof (existsb_false _ _ E1 d Hd) as V1. pose proof (existsb_false _ _ E2 d Hd) as V2.
      cbv beta in V1, V2. rewrite V1, V2. cbn [negb andb].
      destruct (guard_read d) eqn:G; try reflexivity;
        (assert (Hf : In d (filter (fun d => match guard_read d with GOk => false | _ => true end) (da :: db :: dst)))
           by (apply filter_In; split; [exact Hd|rewrite G; reflexivity]);
         rewrite Ef in Hf; destruct Hf). }
    split; [apply Hall; left; reflexivity|]. split; [apply Hall; right; left; reflexivity|].
    destruct m as [|r|r]; [exact I| |]; intros dr Hr; apply Hall; right; right; unfold dst; rewrite Hr; left; reflexivity.
  - exfalso. assert (Hin : In d0 (filter (fun d => match guard_read d with GOk => false | _ => true end) (da :: db :: dst)))
      by (rewrite Ef; left; reflexivity).
    apply filter_In in Hin as [_ Hin]. destruct (guard_read d0); [discriminate Hin|exact (ltac:(discriminate) : GOk <> GOk) || discriminate H..].
Qed.

(* ---- the result of a safe-mode product is the tensor prepared by prep_dest: not a view ---- *)
Lemma prep_dest_safe σ t sh σ1 p ro : prep_dest Z 0 σ t sh LSafe = Ok (σ1, p, ro) -> d_view p = false /\ ro = None.
Proof. unfold prep_dest, add_buf. intro H. injection H as <- <- <-. split; reflexivity. Qed.

Ltac lnew_cases H :=
  repeat match type of H with
         | (if ?c then _ else _) = _ => destruct c
         | (match ?x with _ => _ end) = _ => destruct x eqn:?
         end; try discriminate H.

Ltac lnew_finish H :=
  match goal with
  | E : prep_dest Z 0 _ _ _ LSafe = Ok (_, _, _) |- _ =>
    apply prep_dest_safe in E; destruct E as [? ?]; subst; cbn [finish_l] in H; injection H as <- <-; assumption
  end.

Lemma m_matmul_safe_view σ ta tb σ' p : m_matmul Z 0 Z.add Z.mul σ ta tb LSafe = (σ', LNew p) -> d_view p = false.
Proof. unfold m_matmul. intro H. lnew_cases H; lnew_finish H. Qed.

Lemma m_matvec_safe_view σ ta tb σ' p : m_matvec Z 0 Z.add Z.mul σ ta tb LSafe = (σ', LNew p) -> d_view p = false.
Proof. unfold m_matvec. intro H. lnew_cases H; lnew_finish H. Qed.

Lemma m_outer_safe_view σ ta tb σ' p : m_outer Z 0 Z.add Z.mul σ ta tb LSafe = (σ', LNew p) -> d_view p = false.
Proof. unfold m_outer. intro H. lnew_cases H; lnew_finish H. Qed.

Lemma lin_ok_plain σ t d : RM σ -> get_t σ t = Some d -> lin_ok d = true -> d_old d = None ->
  guard_read d = GOk /\ contig d /\ d_view d = false.
Proof.
  intros HRM Ht H Ho. unfold lin_ok in H. apply andb_true_iff in H as [H H3]. apply andb_true_iff in H as [H1 H2].
  destruct (guard_read d) eqn:G; try discriminate H1. apply negb_true_iff in H2, H3.
  apply orb_false_iff in H2 as [Hv Hnc]. split; [reflexivity|]. split; [|exact Hv].
  apply (guard_read_contig d G H3). apply (requires_iterator_plain d G Hnc Ho).
Qed.

Lemma lres_err σ σ' r : lres_outcome σ (σ, LErr) = (σ', r) -> σ' = σ /\ r = RErr Z.
Proof. cbn [lres_outcome]. intro H. injection H as <- <-. auto. Qed.

Lemma lres_new σ σ1 p σ' r : lres_outcome σ (σ1, LNew p) = (σ', r) ->
  σ' = fst (add_t Z σ1 p) /\ r = RNew Z (length (tens σ1)).
Proof. cbn [lres_outcome add_t]. intro H. injection H as <- <-. auto. Qed.

(* the entries of an operand, on both sides *)
Lemma R_entv φ σ ς t d x i j : Rphi φ σ ς -> get_t σ t = Some d -> sget ς t = Some x ->
  inbox (s_shape x) [i; j] -> entv Z 0 σ d i j = sval ς x [i; j].
Proof.
  intros Hφ Ht Hx Hc. destruct (R_tensor φ σ ς t d Hφ Ht) as (x' & Hx' & _ & _ & _ & _ & _ & Hcell).
  assert (x' = x) by congruence. subst x'. unfold entv, ent, optv.
  change (OpsProofs.cell Z σ d [i; j]) with (mcell σ d [i; j]). rewrite (Hcell _ Hc). reflexivity.
Qed.

Lemma pos_shape2 m n : pos_shape [m; n] -> 1 <= m /\ 1 <= n.
Proof. intro H. inversion H as [|? ? H1 H']; subst. inversion H' as [|? ? H2 _]; subst. lia. Qed.

Lemma sim_ZLin_matmul_safe σ ς a b refused da db σ' r : R σ ς -> RM σ ->
  get_t σ a = Some da -> get_t σ b = Some db -> d_old da = None -> d_old db = None ->
  zguard σ (ZLin 0 a b LSafe refused) = GOk ->
  zstep_model σ (ZLin 0 a b LSafe refused) = (σ', r) -> hintZ r refused = true ->
  exists ς', zstep_spec ς (ZLin 0 a b LSafe refused) = Some (ς', r) /\ R σ' ς' /\ RM σ'.
Proof.
  intros HR HRM Ha Hb Hoa Hob Hg H Hh. pose proof HR as (φ & Hφ).
  destruct (zguard_ZLin σ 0 a b LSafe refused da db Ha Hb Hg) as (La & Lb & _).
  destruct (lin_ok_plain σ a da HRM Ha La Hoa) as (Ga & Ca & Va).
  destruct (lin_ok_plain σ b db HRM Hb Lb Hob) as (Gb & Cb & Vb).
  destruct (R_tensor φ σ ς a da Hφ Ha) as (x & Hx & Wa & Sa & Lxa & Pa & Hpa & _).
  destruct (R_tensor φ σ ς b db Hφ Hb) as (y & Hy & Wb & Sb & Lxb & Pb & _ & _).
  specialize (Hpa Hoa). destruct (HRM a da Ha) as [Hcma _]. destruct (HRM b db Hb) as [Hcmb _].
  rewrite zstep_model_ZLin in H. change (0 =? 0) with true in H. cbv iota in H.
  assert (Hmain : exists ς', zstep_spec ς (ZLin 0 a b LSafe 0) = Some (ς', r) /\
            (match r with RErr _ => ς' = ς | _ => True end) /\ r <> RPanic Z /\ R σ' ς' /\ RM σ').
  { rewrite (zstep_spec_ZLin ς 0 a b LSafe x y Hx Hy). unfold lin_vals. change (0 =? 0) with true. cbv iota.
    unfold spec_matmul_vals. rewrite <- Sa, <- Sb.
    assert (Hrefuse : m_matmul Z 0 Z.add Z.mul σ a b LSafe = (σ, LErr) ->
              exists ς', Some (ς, RErr Z) = Some (ς', r) /\ (match r with RErr _ => ς' = ς | _ => True end) /\
                         r <> RPanic Z /\ R σ' ς' /\ RM σ').
    { intro E. rewrite E in H. apply lres_err in H as [-> ->]. exists ς. split; [reflexivity|]. split; [reflexivity|]. split; [discriminate|]. split; assumption. }
    destruct (shp (d_ap da)) as [|m [|k [|e1 l1]]] eqn:Esa;
      try (apply Hrefuse; apply (m_matmul_not_matrix Z 0 Z.add Z.mul σ a b da db LSafe Ha Hb);
           left; rewrite Esa; cbn [length]; lia).
    destruct (shp (d_ap db)) as [|k' [|n [|e2 l2]]] eqn:Esb;
      try (apply Hrefuse; apply (m_matmul_not_matrix Z 0 Z.add Z.mul σ a b da db LSafe Ha Hb);
           right; rewrite Esb; cbn [length]; lia).
    destruct (Z.eq_dec k k') as [<-|Hne].
    2:{ replace (k =? k') with false by lia. cbn [negb]. apply Hrefuse.
        apply (m_matmul_shape_mismatch Z 0 Z.add Z.mul σ a b da db m k k' n LSafe Ha Hb Esa Esb Hne). }
    rewrite Z.eqb_refl. cbn [negb].
    rewrite <- Sa in Pa. rewrite <- Sb in Pb.
    destruct (pos_shape2 _ _ Pa) as [Hm Hk]. destruct (pos_shape2 _ _ Pb) as [_ Hn].
    assert (Ma : mat_ok da m k).
    { left. destruct Ca as [Cs Cl]. rewrite Esa in Cs, Cl. cbn [calc_strides size] in Cs, Cl.
      replace (k * 1) with k in Cs by lia. unfold plain2. rewrite Esa, Cs.
      split; [exact Hoa|]. split; [reflexivity|]. split; [reflexivity|]. split; [exact Hcma|lia]. }
    assert (Mb : mat_ok db k n).
    { left. destruct Cb as [Cs Cl]. rewrite Esb in Cs, Cl. cbn [calc_strides size] in Cs, Cl.
      replace (n * 1) with n in Cs by lia. unfold plain2. rewrite Esb, Cs.
      split; [exact Hob|]. split; [reflexivity|]. split; [reflexivity|]. split; [exact Hcmb|lia]. }
    destruct (m_matmul_safe Z 0 Z.add Z.mul σ a b da db m n k Ha Hb Hm Hn Hk Ma Mb (wf_in_buf σ da Wa) (wf_in_buf σ db Wb))
      as (σ1 & p & Em & Bp & Pp & Ip & Hv & Ht & _ & Hold).
    pose proof (m_matmul_safe_view σ a b σ1 p Em) as Vp.
    rewrite Em in H. apply lres_new in H as [-> ->]. rewrite Ht.
    destruct Pp as (Pp1 & Pp2 & Pp3 & Pp4 & Pp5).
    set (vs := map (fun c => match c with
                             | [i; j] => fold_left Z.add (map (fun l => Z.mul (val_at Z 0 ς x [i; l]) (val_at Z 0 ς y [l; j]))
                                                              (zseq 0 (Z.to_nat k))) 0
                             | _ => 0 end) (coords [m; n])).
    assert (Pmn : pos_shape [m; n]) by (constructor; [lia|constructor; [lia|constructor]]).
    destruct (sim_lin_fresh true σ ς a x σ1 p vs (s_cm x) HR HRM Hx Hpa Ht Hold Bp Ip Vp Pp1 Pp4) as (ς' & Ed & HR' & HRM').
    - rewrite Pp2, Pp3. cbn [calc_strides size]. f_equal; lia.
    - rewrite Pp2, Pp5. cbn [size]. lia.
    - rewrite Pp2. exact Pmn.
    - rewrite Pp2. unfold vs. rewrite map_length, MemProofs.coords_length. reflexivity.
    - rewrite Pp2. intros c Hc. unfold vs. rewrite (nth_map_coords _ 0 [m; n] c Pmn Hc).
      destruct c as [|i [|j [|e l]]]; cbn [inbox] in Hc; try tauto.
      change (ocell σ1 p [i; j]) with (ent Z σ1 p i j). rewrite (Hv i j) by lia. f_equal.
      unfold mm_sum, vsum. f_equal. apply map_ext_in. intros l Hl. apply APProofs.zseq_In in Hl.
      rewrite <- !sval_val_at.
      rewrite (R_entv φ σ ς a da x i l Hφ Ha Hx) by (rewrite <- Sa; cbn [inbox]; lia).
      rewrite (R_entv φ σ ς b db y l j Hφ Hb Hy) by (rewrite <- Sb; cbn [inbox]; lia). reflexivity.
    - rewrite Pp2 in Ed. cbn [lmode_code fst snd]. fold vs. rewrite Ed.
      exists ς'. split; [reflexivity|]. split; [exact I|]. split; [discriminate|]. split; assumption. }
  destruct Hmain as (ς' & Es & He & Hnp & HR' & HRM').
  exists ς'. split; [apply (ZLin_hint ς 0 a b LSafe refused ς' r Es He Hh Hnp)|]. split; assumption.
Qed.

(* ---- MatVecMul, safe ---- *)
Definition vdim (sh : list Z) : Z :=
  if is_colvec sh then znth 0 sh 0 else if is_rowvec sh then znth 0 sh 1 else znth 0 sh 0.

Lemma is_vector_cases sh : pos_shape sh -> is_vector sh = true -> vec_shape sh (size sh) /\ vdim sh = size sh.
Proof.
  intros Hp Hv. unfold is_vector in Hv. unfold vdim.
  destruct sh as [|n [|k [|e l]]].
  - discriminate Hv.
  - split; [left; cbn [size]; f_equal; lia|]. cbn [is_colvec is_rowvec size]. change (znth 0 [n] 0) with n. lia.
  - destruct (pos_shape2 _ _ Hp) as [Hn Hk]. cbn [length] in Hv. cbn [Nat.eqb] in Hv. rewrite orb_false_r in Hv.
    unfold is_colvec, is_rowvec in *. cbn [size].
    change (znth 0 [n; k] 0) with n. change (znth 0 [n; k] 1) with k.
    destruct ((k =? 1) && (1 <? n)) eqn:E1.
    + split; [right; left; split; [lia|f_equal; [lia|f_equal; lia]]|lia].
    + cbn [orb] in Hv. rewrite Hv. split; [right; right; split; [lia|f_equal; [lia|f_equal; lia]]|lia].
  - cbn in Hv. discriminate Hv.
Qed.

Lemma R_velt φ σ ς t d x j : Rphi φ σ ς -> get_t σ t = Some d -> sget ς t = Some x -> contig d ->
  0 <= j < d_len d -> velt Z 0 σ d j = nth (Z.to_nat j) (slogical ς x) 0.
Proof.
  intros Hφ Ht Hx Hc Hj. unfold velt, optv. rewrite (R_window φ σ ς t d x j Hφ Ht Hx Hc Hj). reflexivity.
Qed.

Lemma m_matvec_refuse σ ta tb a b md : get_t σ ta = Some a -> get_t σ tb = Some b ->
  (length (shp (d_ap a)) <> 2%nat \/ is_vector (shp (d_ap b)) = false \/
   vdim (shp (d_ap b)) <> znth 0 (shp (d_ap a)) 1) ->
  m_matvec Z 0 Z.add Z.mul σ ta tb md = (σ, LErr).
Proof.
  intros Ha Hb Hc. unfold m_matvec. rewrite Ha, Hb.
  destruct (shp (d_ap a)) as [|m [|n [|e l]]]; try reflexivity.
  destruct Hc as [Hc|[Hc|Hc]]; [cbn [length] in Hc; lia| |].
  - rewrite Hc. reflexivity.
  - destruct (is_vector (shp (d_ap b))); [|reflexivity]. cbn [negb].
    fold (vdim (shp (d_ap b))). replace (znth 0 [m; n] 1) with n in Hc by reflexivity.
    replace (vdim (shp (d_ap b)) =? n) with false by lia. reflexivity.
Qed.

Lemma pos_shape1 m : 1 <= m -> pos_shape [m].
Proof. intro H. constructor; [lia|constructor]. Qed.

Lemma inbox1_inv m c : inbox [m] c -> exists i, c = [i] /\ 0 <= i < m.
Proof. destruct c as [|i [|e l]]; cbn [inbox]; try tauto. intro H. exists i. split; [reflexivity|lia]. Qed.

Lemma sim_ZLin_matvec_safe σ ς a b refused da db σ' r : R σ ς -> RM σ ->
  get_t σ a = Some da -> get_t σ b = Some db -> d_old da = None -> d_old db = None ->
  zguard σ (ZLin 1 a b LSafe refused) = GOk ->
  zstep_model σ (ZLin 1 a b LSafe refused) = (σ', r) -> hintZ r refused = true ->
  exists ς', zstep_spec ς (ZLin 1 a b LSafe refused) = Some (ς', r) /\ R σ' ς' /\ RM σ'.
Proof.
  intros HR HRM Ha Hb Hoa Hob Hg H Hh. pose proof HR as (φ & Hφ).
  destruct (zguard_ZLin σ 1 a b LSafe refused da db Ha Hb Hg) as (La & Lb & _).
  destruct (lin_ok_plain σ a da HRM Ha La Hoa) as (Ga & Ca & Va).
  destruct (lin_ok_plain σ b db HRM Hb Lb Hob) as (Gb & Cb & Vb).
  destruct (R_tensor φ σ ς a da Hφ Ha) as (x & Hx & Wa & Sa & Lxa & Pa & Hpa & _).
  destruct (R_tensor φ σ ς b db Hφ Hb) as (y & Hy & Wb & Sb & Lxb & Pb & _ & _).
  specialize (Hpa Hoa). destruct (HRM a da Ha) as [Hcma _].
  rewrite zstep_model_ZLin in H. change (1 =? 0) with false in H. change (1 =? 1) with true in H. cbv iota in H.
  assert (Hmain : exists ς', zstep_spec ς (ZLin 1 a b LSafe 0) = Some (ς', r) /\
            (match r with RErr _ => ς' = ς | _ => True end) /\ r <> RPanic Z /\ R σ' ς' /\ RM σ').
  { rewrite (zstep_spec_ZLin ς 1 a b LSafe x y Hx Hy). unfold lin_vals.
    change (1 =? 0) with false. change (1 =? 1) with true. cbv iota.
    unfold spec_matvec_vals. rewrite <- Sa, <- Sb.
    assert (Hrefuse : m_matvec Z 0 Z.add Z.mul σ a b LSafe = (σ, LErr) ->
              exists ς', Some (ς, RErr Z) = Some (ς', r) /\ (match r with RErr _ => ς' = ς | _ => True end) /\
                         r <> RPanic Z /\ R σ' ς' /\ RM σ').
    { intro E. rewrite E in H. apply lres_err in H as [-> ->]. exists ς.
      split; [reflexivity|]. split; [reflexivity|]. split; [discriminate|]. split; assumption. }
    destruct (shp (d_ap da)) as [|m [|n [|e1 l1]]] eqn:Esa;
      try (apply Hrefuse; apply (m_matvec_refuse σ a b da db LSafe Ha Hb); left; rewrite Esa; cbn [length]; lia).
    destruct (is_vector (shp (d_ap db))) eqn:Vy.
    2:{ cbn [negb orb]. apply Hrefuse. apply (m_matvec_refuse σ a b da db LSafe Ha Hb). right. left. exact Vy. }
    rewrite <- Sb in Pb. destruct (is_vector_cases _ Pb Vy) as [Hvs Hvd]. cbn [negb orb].
    destruct (Z.eq_dec (size (shp (d_ap db))) n) as [En|Hne].
    2:{ replace (size (shp (d_ap db)) =? n) with false by lia. cbn [negb]. apply Hrefuse.
        apply (m_matvec_refuse σ a b da db LSafe Ha Hb). right. right. rewrite Esa, Hvd.
        replace (znth 0 [m; n] 1) with n by reflexivity. exact Hne. }
    replace (size (shp (d_ap db)) =? n) with true by lia. cbn [negb].
    rewrite <- Sa in Pa. destruct (pos_shape2 _ _ Pa) as [Hm Hn].
    assert (Ma : mat_ok da m n).
    { left. destruct Ca as [Cs Cl]. rewrite Esa in Cs, Cl. cbn [calc_strides size] in Cs, Cl.
      replace (n * 1) with n in Cs by lia. unfold plain2. rewrite Esa, Cs.
      split; [exact Hoa|]. split; [reflexivity|]. split; [reflexivity|]. split; [exact Hcma|lia]. }
    pose proof Cb as [_ Clb]. rewrite En in Hvs, Clb.
    destruct (m_matvec_safe Z 0 Z.add Z.mul σ a b da db m n Ha Hb Hm Hn Ma (wf_in_buf σ da Wa) Hvs Clb (wf_in_buf σ db Wb))
      as (σ1 & p & Em & Bp & Pp2 & Pp3 & Pp5 & Pp4 & Pp1 & Ip & Hv & Ht & _ & Hold).
    pose proof (m_matvec_safe_view σ a b σ1 p Em) as Vp.
    rewrite Em in H. apply lres_new in H as [-> ->]. rewrite Ht.
    set (vs := map (fun i => fold_left Z.add (map (fun j => Z.mul (val_at Z 0 ς x [i; j]) (znth 0 (vec_vals Z 0 ς y) j))
                                                 (zseq 0 (Z.to_nat n))) 0) (zseq 0 (Z.to_nat m))).
    destruct (sim_lin_fresh true σ ς a x σ1 p vs (s_cm x) HR HRM Hx Hpa Ht Hold Bp Ip Vp Pp1 Pp4) as (ς' & Ed & HR' & HRM').
    - rewrite Pp2, Pp3. reflexivity.
    - rewrite Pp2, Pp5. cbn [size]. lia.
    - rewrite Pp2. apply pos_shape1. exact Hm.
    - rewrite Pp2. unfold vs. rewrite map_length, APProofs.zseq_length. cbn [size]. f_equal. lia.
    - rewrite Pp2. intros c Hc. destruct (inbox1_inv m c Hc) as (i & -> & Hi).
      change (ocell σ1 p [i]) with (OpsProofs.cell Z σ1 p [i]). rewrite (Hv i Hi). f_equal.
      unfold rank_rm. cbn [rank_rm_acc]. replace (0 * m + i) with i by lia.
      unfold vs. rewrite (nth_map_lt _ 0 0) by (rewrite APProofs.zseq_length; lia).
      assert (Ei : nth (Z.to_nat i) (zseq 0 (Z.to_nat m)) 0 = i).
      { apply nth_error_nth_default. rewrite APProofs.zseq_nth_error by lia. f_equal. lia. }
      rewrite Ei. unfold mv_sum, vsum. f_equal. apply map_ext_in. intros j Hj. apply APProofs.zseq_In in Hj.
      rewrite <- sval_val_at.
      rewrite (R_entv φ σ ς a da x i j Hφ Ha Hx) by (rewrite <- Sa; cbn [inbox]; lia).
      rewrite (R_velt φ σ ς b db y j Hφ Hb Hy Cb) by lia.
      unfold vec_vals. rewrite znth_nth by lia. reflexivity.
    - rewrite Pp2 in Ed. cbn [lmode_code fst snd]. fold vs. rewrite Ed.
      exists ς'. split; [reflexivity|]. split; [exact I|]. split; [discriminate|]. split; assumption. }
  destruct Hmain as (ς' & Es & He & Hnp & HR' & HRM').
  exists ς'. split; [apply (ZLin_hint ς 1 a b LSafe refused ς' r Es He Hh Hnp)|]. split; assumption.
Qed.

(* ---- Outer, safe ---- *)
Lemma flat_map_nth (f : Z -> Z -> Z) (Y : list Z) : forall (X : list Z) i j,
  (i < length X)%nat -> (j < length Y)%nat ->
  nth (i * length Y + j) (flat_map (fun xi => map (fun yj => f xi yj) Y) X) 0 = f (nth i X 0) (nth j Y 0).
Proof.
  induction X as [|x X IH]; intros i j Hi Hj; cbn [length] in Hi; [lia|]. cbn [flat_map].
  destruct i as [|i].
  - cbn [Nat.mul Nat.add nth]. rewrite app_nth1 by (rewrite map_length; exact Hj).
    rewrite (nth_map_lt _ 0 0) by exact Hj. reflexivity.
  - rewrite app_nth2 by (rewrite map_length; cbn [Nat.mul]; lia). rewrite map_length.
    replace (S i * length Y + j - length Y)%nat with (i * length Y + j)%nat by (cbn [Nat.mul]; lia).
    cbn [nth]. apply IH; lia.
Qed.

Lemma flat_map_length_const {A B} (f : A -> list B) n : forall X, (forall x, length (f x) = n) ->
  length (flat_map f X) = (length X * n)%nat.
Proof. induction X as [|x X IH]; intro H; cbn [flat_map length]; [reflexivity|]. rewrite app_length, H, IH by exact H. lia. Qed.

Lemma sim_ZLin_outer_safe σ ς code a b refused da db σ' r : R σ ς -> RM σ -> code <> 0 -> code <> 1 ->
  get_t σ a = Some da -> get_t σ b = Some db -> d_old da = None -> d_old db = None ->
  zguard σ (ZLin code a b LSafe refused) = GOk ->
  zstep_model σ (ZLin code a b LSafe refused) = (σ', r) -> hintZ r refused = true ->
  exists ς', zstep_spec ς (ZLin code a b LSafe refused) = Some (ς', r) /\ R σ' ς' /\ RM σ'.
Proof.
  intros HR HRM Hc0 Hc1 Ha Hb Hoa Hob Hg H Hh. pose proof HR as (φ & Hφ).
  destruct (zguard_ZLin σ code a b LSafe refused da db Ha Hb Hg) as (La & Lb & _).
  destruct (lin_ok_plain σ a da HRM Ha La Hoa) as (Ga & Ca & Va).
  destruct (lin_ok_plain σ b db HRM Hb Lb Hob) as (Gb & Cb & Vb).
  destruct (R_tensor φ σ ς a da Hφ Ha) as (x & Hx & Wa & Sa & Lxa & Pa & Hpa & _).
  destruct (R_tensor φ σ ς b db Hφ Hb) as (y & Hy & Wb & Sb & Lxb & Pb & _ & _).
  specialize (Hpa Hoa). destruct (HRM a da Ha) as [Hcma _].
  rewrite zstep_model_ZLin in H. replace (code =? 0) with false in H by lia. replace (code =? 1) with false in H by lia.
  assert (Hmain : exists ς', zstep_spec ς (ZLin code a b LSafe 0) = Some (ς', r) /\
            (match r with RErr _ => ς' = ς | _ => True end) /\ r <> RPanic Z /\ R σ' ς' /\ RM σ').
  { rewrite (zstep_spec_ZLin ς code a b LSafe x y Hx Hy). unfold lin_vals.
    replace (code =? 0) with false by lia. replace (code =? 1) with false by lia.
    unfold spec_outer_vals. rewrite <- Sa, <- Sb.
    assert (Hrefuse : m_outer Z 0 Z.add Z.mul σ a b LSafe = (σ, LErr) ->
              exists ς', Some (ς, RErr Z) = Some (ς', r) /\ (match r with RErr _ => ς' = ς | _ => True end) /\
                         r <> RPanic Z /\ R σ' ς' /\ RM σ').
    { intro E. rewrite E in H. apply lres_err in H as [-> ->]. exists ς.
      split; [reflexivity|]. split; [reflexivity|]. split; [discriminate|]. split; assumption. }
    destruct (is_vector (shp (d_ap da))) eqn:Vx.
    2:{ cbn [negb orb]. apply Hrefuse. apply (m_outer_not_vector Z 0 Z.add Z.mul σ a b da db LSafe Ha Hb). left. exact Vx. }
    destruct (is_vector (shp (d_ap db))) eqn:Vy.
    2:{ cbn [negb orb]. apply Hrefuse. apply (m_outer_not_vector Z 0 Z.add Z.mul σ a b da db LSafe Ha Hb). right. exact Vy. }
    cbn [negb orb].
    rewrite <- Sa in Pa. rewrite <- Sb in Pb.
    set (m := size (shp (d_ap da))). set (n := size (shp (d_ap db))).
    pose proof (size_pos _ Pa) as Hm. pose proof (size_pos _ Pb) as Hn. fold m in Hm. fold n in Hn.
    pose proof Ca as [_ Cla]. pose proof Cb as [_ Clb]. fold m in Cla. fold n in Clb.
    destruct (m_outer_safe Z 0 Z.add Z.mul σ a b da db m n Ha Hb Vx Vy Hcma eq_refl eq_refl Cla Clb Hm Hn
                (wf_in_buf σ da Wa) (wf_in_buf σ db Wb))
      as (σ1 & p & Em & Bp & Pp & Ip & Hv & Ht & _ & Hold).
    pose proof (m_outer_safe_view σ a b σ1 p Em) as Vp.
    rewrite Em in H. apply lres_new in H as [-> ->]. rewrite Ht.
    destruct Pp as (Pp1 & Pp2 & Pp3 & Pp4 & Pp5).
    set (X := vec_vals Z 0 ς x). set (Y := vec_vals Z 0 ς y).
    assert (LX : length X = Z.to_nat m) by (unfold X, vec_vals; rewrite slogical_length, Lxa, <- Sa; reflexivity).
    assert (LY : length Y = Z.to_nat n) by (unfold Y, vec_vals; rewrite slogical_length, Lxb, <- Sb; reflexivity).
    assert (EX : zlen X = m) by (unfold zlen; lia). assert (EY : zlen Y = n) by (unfold zlen; lia).
    rewrite EX, EY.
    set (vs := flat_map (fun xi => map (fun yj => Z.mul xi yj) Y) X).
    assert (Pmn : pos_shape [m; n]) by (constructor; [lia|constructor; [lia|constructor]]).
    destruct (sim_lin_fresh true σ ς a x σ1 p vs (s_cm x) HR HRM Hx Hpa Ht Hold Bp Ip Vp Pp1 Pp4) as (ς' & Ed & HR' & HRM').
    - rewrite Pp2, Pp3. cbn [calc_strides size]. f_equal; lia.
    - rewrite Pp2, Pp5. cbn [size]. lia.
    - rewrite Pp2. exact Pmn.
    - rewrite Pp2. unfold vs. rewrite (flat_map_length_const _ (length Y)) by (intro; apply map_length).
      cbn [size]. nia.
    - rewrite Pp2. intros c Hc.
      destruct c as [|i [|j [|e l]]]; cbn [inbox] in Hc; try tauto.
      change (ocell σ1 p [i; j]) with (ent Z σ1 p i j). rewrite (Hv i j) by lia. f_equal.
      unfold rank_rm. cbn [rank_rm_acc].
      replace (Z.to_nat ((0 * m + i) * n + j)) with (Z.to_nat i * length Y + Z.to_nat j)%nat by nia.
      unfold vs. rewrite (flat_map_nth Z.mul Y X) by lia.
      rewrite (R_velt φ σ ς a da x i Hφ Ha Hx Ca) by lia.
      rewrite (R_velt φ σ ς b db y j Hφ Hb Hy Cb) by lia. unfold X, Y, vec_vals. lia.
    - rewrite Pp2 in Ed. cbn [lmode_code fst snd]. fold vs. rewrite Ed.
      exists ς'. split; [reflexivity|]. split; [exact I|]. split; [discriminate|]. split; assumption. }
  destruct Hmain as (ς' & Es & He & Hnp & HR' & HRM').
  exists ς'. split; [apply (ZLin_hint ς code a b LSafe refused ς' r Es He Hh Hnp)|]. split; assumption.
Qed.

Lemma sim_ZLin_safe σ ς code a b refused da db σ' r : R σ ς -> RM σ ->
  get_t σ a = Some da -> get_t σ b = Some db -> d_old da = None -> d_old db = None ->
  zguard σ (ZLin code a b LSafe refused) = GOk ->
  zstep_model σ (ZLin code a b LSafe refused) = (σ', r) -> hintZ r refused = true ->
  exists ς', zstep_spec ς (ZLin code a b LSafe refused) = Some (ς', r) /\ R σ' ς' /\ RM σ'.
Proof.
  intros HR HRM Ha Hb Hoa Hob Hg H Hh.
  destruct (Z.eq_dec code 0) as [->|Hc0]; [apply (sim_ZLin_matmul_safe σ ς a b refused da db σ' r); assumption|].
  destruct (Z.eq_dec code 1) as [->|Hc1]; [apply (sim_ZLin_matvec_safe σ ς a b refused da db σ' r); assumption|].
  apply (sim_ZLin_outer_safe σ ς code a b refused da db σ' r); assumption.
Qed.

(* ====================================================================================== *)
(*  6. Concat / Stack / Repeat: a fresh result tensor (ShapeopsProofs.fresh_result)          *)
(* ====================================================================================== *)
Lemma fresh_result_facts σ σ' ret sh' : fresh_result Z σ σ' ret sh' ->
  tens σ' = tens σ /\ (forall b, (b < length (bufs σ))%nat -> get_buf σ' b = get_buf σ b) /\
  d_buf ret = length (bufs σ) /\ d_len ret = size sh' /\
  shp (d_ap ret) = sh' /\ str (d_ap ret) = calc_strides sh' /\ d_old ret = None /\ d_view ret = false /\
  in_buf Z σ' ret.
Proof.
  intro F. destruct (fr_ext _ _ _ _ _ F) as (Ht & _ & Hb).
  repeat split; try apply F; assumption.
Qed.

Lemma sim_fresh_result σ ς ta x σ1 ret sh vs : R σ ς -> RM σ ->
  sget ς ta = Some x -> s_pending x = O ->
  fresh_result Z σ σ1 ret sh -> is_cm (ord (d_ap ret)) = false -> pos_shape sh ->
  length vs = Z.to_nat (size sh) ->
  (forall c, inbox sh c -> ocell σ1 ret c = Some (nth (Z.to_nat (rank_rm sh c)) vs 0)) ->
  exists ς', spec_vals_deliver ς ta sh (map (fun v => Some v) vs) (0, O) false
             = Some (ς', RNew Z (length (tens σ))) /\
    R (fst (add_t Z σ1 ret)) ς' /\ RM (fst (add_t Z σ1 ret)).
Proof.
  intros HR HRM Hx Hp0 F Hcm Hpos Hlv Hcells.
  destruct (fresh_result_facts σ σ1 ret sh F) as (Ht & Hb & Bp & Lp & Sp & Stp & Op & Vp & Ip).
  destruct (sim_lin_fresh true σ ς ta x σ1 ret vs false HR HRM Hx Hp0 Ht Hb Bp Ip Vp Op Hcm) as (ς' & Ed & HR' & HRM');
    try (rewrite Sp; assumption).
  rewrite Sp in Ed. exists ς'. split; [|split; assumption].
  unfold spec_vals_deliver. rewrite all_some_map_Some. cbn [fst snd]. unfold spec_deliver. rewrite Ed. reflexivity.
Qed.

(* operand lists: every index names a tensor, on both sides *)
Lemma flat_map_get_all σ : forall others, forallb (fun o => is_some (get_t σ o)) others = true ->
  exists ods, Forall2 (fun o d => get_t σ o = Some d) others ods.
Proof.
  induction others as [|o others IH]; intro H; [exists []; constructor|].
  cbn [forallb] in H. apply andb_true_iff in H as [H1 H2]. destruct (IH H2) as [ods Hods].
  destruct (get_t σ o) as [d|] eqn:E; [|discriminate H1]. exists (d :: ods). constructor; assumption.
Qed.

Definition trel (σ : store Z) (ς : sstate Z) (d : dense) (x : sten) : Prop :=
  exists o, get_t σ o = Some d /\ sget ς o = Some x.

Lemma operands_spec φ σ ς : Rphi φ σ ς -> forall others ods, Forall2 (fun o d => get_t σ o = Some d) others ods ->
  exists xs, Forall2 (fun o x => sget ς o = Some x) others xs /\ Forall2 (trel σ ς) ods xs.
Proof.
  intros Hφ. induction 1 as [|o d os ds Ho _ IH]; [exists []; split; constructor|].
  destruct IH as (xs & H1 & H2). destruct (get_sget Z 0 φ σ ς o d Hφ Ho) as [x Hx].
  exists (x :: xs). split; constructor; try assumption. exists o. auto.
Qed.

Lemma flat_map_sget ς : forall others xs, Forall2 (fun o x => sget ς o = Some x) others xs ->
  flat_map (fun i => match sget ς i with Some x => [x] | None => [] end) others = xs.
Proof. induction 1 as [|o x os xs Ho _ IH]; cbn [flat_map]; [reflexivity|]. rewrite Ho, IH. reflexivity. Qed.

Lemma trel_facts φ σ ς d x : Rphi φ σ ς -> trel σ ς d x ->
  wf_dense σ d /\ shp (d_ap d) = s_shape x /\ pos_shape (s_shape x) /\
  (forall c, inbox (s_shape x) c -> ocell σ d c = Some (sval ς x c)).
Proof.
  intros Hφ (o & Ho & Hx). destruct (R_tensor φ σ ς o d Hφ Ho) as (x' & Hx' & W & S & _ & P & _ & C).
  assert (x' = x) by congruence. subst x'. auto.
Qed.

(* Shape.Concat's test and the SPEC's *)
Lemma same_except_spec ax : forall a b i,
  same_except ax i a b = true <->
  length b = length a /\ forall j, (i + j)%nat <> ax -> (j < length a)%nat -> nth j b 0 = nth j a 0.
Proof.
  induction a as [|x a IH]; intros [|y b] i; cbn [same_except length].
  - split; [intros _; split; [reflexivity|intros j _ Hj; lia]|reflexivity].
  - split; [discriminate|intros [H _]; discriminate].
  - split; [discriminate|intros [H _]; discriminate].
  - rewrite andb_true_iff, IH. split.
    + intros [H1 [H2 H3]]. split; [lia|]. intros [|j] Hj Hl; cbn [nth].
      * apply orb_true_iff in H1 as [H1|H1]; [apply Nat.eqb_eq in H1; lia|lia].
      * apply H3; lia.
    + intros [H1 H2]. split; [|split; [lia|]].
      * destruct (Nat.eqb_spec i ax) as [E|E]; [reflexivity|]. cbn [orb].
        specialize (H2 O ltac:(lia) ltac:(lia)). cbn [nth] in H2. lia.
      * intros j Hj Hl. apply (H2 (S j)); lia.
Qed.

Lemma same_except_agree ax a b : same_except ax 0 a b = true <-> agree_off ax a b.
Proof.
  rewrite same_except_spec. unfold agree_off. split; intros [H1 H2]; (split; [exact H1|]).
  - intros i Hi. destruct (Nat.lt_ge_cases i (length a)) as [Hl|Hl]; [apply H2; [cbn; lia|exact Hl]|].
    rewrite !nth_overflow by lia. reflexivity.
  - intros j Hj _. apply H2. cbn in Hj. lia.
Qed.

(* ---- ZConcat ---- *)
Definition optens (σ : store Z) (l : list nat) : list dense :=
  flat_map (fun t => match get_t σ t with Some d => [d] | None => [] end) l.

Definition vec2_bad (d : dense) : bool :=
  (length (shp (d_ap d)) =? 2)%nat && is_vector (shp (d_ap d))
  && (d_view d || negb (allones (str (d_ap d))) || is_some (d_old d)).

Lemma filter_nil_all {A} (f : A -> bool) l : filter f l = [] -> forall x, In x l -> f x = false.
Proof.
  intros H x Hx. destruct (f x) eqn:E; [|reflexivity].
  assert (Hin : In x (filter f l)) by (apply filter_In; auto). rewrite H in Hin. destruct Hin.
Qed.

Lemma zguard_ZConcat σ t axis others : zguard σ (ZConcat t axis others) = GOk ->
  forall d, In d (optens σ (t :: others)) ->
    guard_read d = GOk /\ is_cm (ord (d_ap d)) = false /\ vec2_bad d = false.
Proof.
  intro H. unfold zguard in H. fold (optens σ (t :: others)) in H. set (ds := optens σ (t :: others)) in *.
  destruct (filter (fun d => match guard_read d with GOk => false | _ => true end) ds) as [|d0 l0] eqn:Ef.
  - destruct (existsb (fun d => is_cm (ord (d_ap d))) ds) eqn:E1; [discriminate H|].
    cbn [andb] in H.
    destruct (existsb (fun d => (length (shp (d_ap d)) =? 2)%nat && is_vector (shp (d_ap d))
                                && (d_view d || negb (allones (str (d_ap d))) || is_some (d_old d))) ds) eqn:E2;
      [discriminate H|].
    intros d Hd. pose proof (filter_nil_all _ _ Ef d Hd) as G. cbv beta in G.
    split; [destruct (guard_read d); (reflexivity || discriminate G)|].
    split; [apply (existsb_false _ _ E1 d Hd)|apply (existsb_false _ _ E2 d Hd)].
  - exfalso. assert (Hin : In d0 (filter (fun d => match guard_read d with GOk => false | _ => true end) ds))
      by (rewrite Ef; left; reflexivity).
    apply filter_In in Hin as [_ Hin]. destruct (guard_read d0); (discriminate Hin || discriminate H).
Qed.

(* what has to be added to zguard for a Concat step:
   - every operand exists                                                  GAP  (as ZUn_zguard_gap)
   - 0 <= axis                                                             GAP  ZConcat_zguard_gap: axis -1 is
     normalised by Shape.Concat only; denseConcat then panics where the SPEC refuses
   - nothing pending on the receiver                                        PROOF (the SPEC's result is pending = 2)
   - no operand window of length one                                        PROOF (OpsProofs.wf_dense: 1 < d_len)
   - a (1,n)/(n,1) operand does not need an iterator                        PROOF (zguard's GVectorAxes test
     leaves the non-contiguous bit of a non-view open) *)
Definition concat_extra (σ : store Z) (t : nat) (axis : Z) (others : list nat) : bool :=
  forallb (fun o => is_some (get_t σ o)) (t :: others) && (0 <=? axis)
  && match get_t σ t with Some dt => negb (is_some (d_old dt)) | None => false end
  && forallb (fun d => negb (d_len d =? 1)
                       && (negb ((length (shp (d_ap d)) =? 2)%nat && is_vector (shp (d_ap d))) || negb (requires_iterator d)))
             (optens σ (t :: others)).

Lemma zstep_model_ZConcat σ t axis others :
  zstep_model σ (ZConcat t axis others)
  = match m_concat Z 0 σ t axis others with
    | Ok (σ', d) => (fst (add_t Z σ' d), RNew Z (length (tens σ')))
    | Err => (σ, RErr Z) | Panic => (σ, RPanic Z) end.
Proof. unfold zstep_model. destruct (m_concat Z 0 σ t axis others) as [[σ' d]| |]; reflexivity. Qed.

Lemma zstep_spec_ZConcat ς t axis others xs : Forall2 (fun o x => sget ς o = Some x) (t :: others) xs ->
  zstep_spec ς (ZConcat t axis others)
  = match spec_concat_vals Z 0 ς xs axis with
    | Some (sh, vs) => spec_vals_deliver ς t sh (map (fun v => Some v) vs) (0, O) false
    | None => Some (ς, RErr Z)
    end.
Proof.
  intro H. unfold zstep_spec. rewrite (flat_map_sget ς (t :: others) xs H).
  rewrite <- (Forall2_length _ _ _ H). cbn [length]. rewrite Nat.eqb_refl. reflexivity.
Qed.

Ltac res_cases H :=
  repeat match type of H with
         | (if ?c then _ else _) = _ => destruct c
         | (match ?x with _ => _ end) = _ => destruct x eqn:?
         end; try discriminate H.

Lemma fresh_ord σ sh σ1 d : fresh Z 0 σ sh = (σ1, d) -> ord (d_ap d) = 0.
Proof. unfold fresh, add_buf. intro H. injection H as _ <-. reflexivity. Qed.

Lemma m_concat_ord σ t axis others σ' ret : m_concat Z 0 σ t axis others = Ok (σ', ret) -> ord (d_ap ret) = 0.
Proof.
  unfold m_concat. intro H. res_cases H. injection H as _ <-.
  match goal with E : fresh Z 0 _ _ = (_, _) |- _ => apply (fresh_ord _ _ _ _ E) end.
Qed.

(* concat_src on the MODEL side is the SPEC's locate *)
Lemma concat_src_locate φ σ ς ax c : Rphi φ σ ς -> forall all xs,
  Forall2 (fun d x => trel σ ς d x /\ forall k', 0 <= k' < ext_d ax d -> inbox (s_shape x) (upd c ax k')) all xs ->
  Forall (fun d => 0 <= ext_d ax d) all ->
  forall k, 0 <= k < sumz (map (ext_d ax) all) ->
  concat_src Z σ all ax c k
  = Some (match locate xs ax k with Some (x, k') => val_at Z 0 ς x (upd c ax k') | None => 0 end).
Proof.
  intros Hφ. induction 1 as [|d x ds xs [Hrel Hin] _ IH]; intros Hnn k Hk.
  - cbn [map sumz] in Hk. lia.
  - inversion Hnn as [|? ? Hd Hnn']; subst. cbn [concat_src locate]. cbn [map sumz] in Hk.
    destruct (trel_facts φ σ ς d x Hφ Hrel) as (_ & Hs & _ & Hc).
    assert (He : znth 0 (s_shape x) (Z.of_nat ax) = ext_d ax d).
    { unfold ext_d. rewrite znth_nth by lia. rewrite Nat2Z.id, Hs. reflexivity. }
    rewrite He. destruct (k <? ext_d ax d) eqn:E.
    + change (OpsProofs.cell Z σ d (upd c ax k)) with (ocell σ d (upd c ax k)).
      rewrite (Hc _ (Hin k ltac:(lia))). reflexivity.
    + apply IH; [exact Hnn'|lia].
Qed.

Lemma In_optens σ l ds : Forall2 (fun o d => get_t σ o = Some d) l ds -> optens σ l = ds.
Proof. intro H. unfold optens. apply (flat_map_get Z σ l ds H). Qed.

Lemma sim_ZConcat σ ς t axis others σ' r : R σ ς -> RM σ ->
  zguard σ (ZConcat t axis others) = GOk -> concat_extra σ t axis others = true ->
  zstep_model σ (ZConcat t axis others) = (σ', r) ->
  exists ς', zstep_spec ς (ZConcat t axis others) = Some (ς', r) /\ R σ' ς' /\ RM σ'.
Proof.
  intros HR HRM Hg He H. pose proof HR as (φ & Hφ).
  unfold concat_extra in He. apply andb_true_iff in He as [He Hev]. apply andb_true_iff in He as [He Hold].
  apply andb_true_iff in He as [Hex Hax0].
  destruct (flat_map_get_all σ (t :: others) Hex) as [all Hall].
  inversion Hall as [|? a ? ods Ht Hods]; subst.
  rewrite Ht in Hold. assert (Hoa : d_old a = None) by (destruct (d_old a); [discriminate Hold|reflexivity]).
  rewrite (In_optens σ (t :: others) (a :: ods) Hall) in Hev.
  pose proof (zguard_ZConcat σ t axis others Hg) as Hgd. rewrite (In_optens σ (t :: others) (a :: ods) Hall) in Hgd.
  destruct (operands_spec φ σ ς Hφ (t :: others) (a :: ods) Hall) as (xs & Hxs & Hrel).
  inversion Hrel as [|? x0 ? xr Hrel0 Hrelr]; subst.
  rewrite (zstep_spec_ZConcat ς t axis others (x0 :: xr) Hxs). rewrite zstep_model_ZConcat in H.
  destruct (trel_facts φ σ ς a x0 Hφ Hrel0) as (Wa & Sa & Pa & _).
  assert (Hx0 : sget ς t = Some x0) by (inversion Hxs; subst; assumption).
  destruct (R_tensor φ σ ς t a Hφ Ht) as (x0' & Hx0' & _ & _ & _ & _ & Hpend & _).
  assert (x0' = x0) by congruence. subst x0'. specialize (Hpend Hoa).
  (* shapes of the operands, pairwise *)
  assert (Hshapes : forall d x, In (d, x) (combine (a :: ods) (x0 :: xr)) -> shp (d_ap d) = s_shape x /\ trel σ ς d x).
  { clear - Hrel Hφ. induction Hrel as [|d x ds xs Hr _ IH]; intros d' x' Hin; [destruct Hin|].
    destruct Hin as [Hin|Hin]; [injection Hin as <- <-; destruct (trel_facts φ σ ς d x Hφ Hr) as (_ & S & _); auto|].
    apply IH. exact Hin. }
  unfold spec_concat_vals.
  assert (Hax0' : 0 <= axis) by lia.
  set (ax := Z.to_nat axis).
  (* the SPEC's shape test is Shape.Concat's *)
  assert (Htest : forallb (fun x => same_except ax 0 (s_shape x0) (s_shape x)) (x0 :: xr) = true <->
                  Forall (agree_off ax (shp (d_ap a))) (map (fun d => shp (d_ap d)) ods)).
  { rewrite Sa. cbn [forallb]. rewrite andb_true_iff.
    assert (Hself : same_except ax 0 (s_shape x0) (s_shape x0) = true).
    { apply same_except_agree. split; [reflexivity|]. intros; reflexivity. }
    clear - Hrelr Hφ Hself. split.
    - intros [_ Hf]. induction Hrelr as [|d x ds xs Hr _ IH]; cbn [map]; [constructor|].
      cbn [forallb] in Hf. apply andb_true_iff in Hf as [H1 H2]. constructor; [|apply IH; exact H2].
      destruct (trel_facts φ σ ς d x Hφ Hr) as (_ & S & _). rewrite S. apply same_except_agree. exact H1.
    - intro Hf. split; [exact Hself|]. induction Hrelr as [|d x ds xs Hr _ IH]; [reflexivity|].
      cbn [map] in Hf. inversion Hf as [|? ? H1 H2]; subst. cbn [forallb]. apply andb_true_iff. split; [|apply IH; exact H2].
      destruct (trel_facts φ σ ς d x Hφ Hr) as (_ & S & _). rewrite S in H1. apply same_except_agree. exact H1. }
  assert (Hrefuse : m_concat Z 0 σ t axis others = Err ->
            exists ς', Some (ς, RErr Z) = Some (ς', r) /\ R σ' ς' /\ RM σ').
  { intro E. rewrite E in H. injection H as <- <-. exists ς. auto. }
  destruct ((axis <? 0) || (Z.of_nat (length (s_shape x0)) <=? axis)) eqn:Erange.
  { apply Hrefuse. apply (concat_refuses Z 0 σ t axis others a ods Ht Hods). cbv zeta.
    replace (axis =? -1) with false by lia. intros [Hr _]. unfold zlen in Hr. rewrite Sa in Hr. lia. }
  destruct (forallb (fun x => same_except ax 0 (s_shape x0) (s_shape x)) (x0 :: xr)).
  2:{ cbn [negb]. apply Hrefuse. apply (concat_refuses Z 0 σ t axis others a ods Ht Hods). cbv zeta.
      replace (axis =? -1) with false by lia. intros [_ Hr]. fold ax in Hr. apply Htest in Hr. discriminate Hr. }
  cbn [negb]. destruct Htest as [Etest _]. specialize (Etest eq_refl).
  assert (Hax : 0 <= axis < zlen (shp (d_ap a))) by (unfold zlen; rewrite Sa; lia).
  assert (Haxn : (ax < length (shp (d_ap a)))%nat) by (unfold ax, zlen in *; lia).
  (* the hypotheses of ShapeopsProofs.concat_spec *)
  assert (Hops : forall d, In d (a :: ods) -> owf σ d /\ agree_off ax (shp (d_ap a)) (shp (d_ap d)) /\
            (is_vector (shp (d_ap d)) = true -> length (shp (d_ap d)) = 2%nat -> requires_iterator d = false)).
  { intros d Hd. destruct (Hgd d Hd) as (G1 & G2 & _).
    rewrite forallb_forall in Hev. specialize (Hev d Hd). apply andb_true_iff in Hev as [Hl1 Hvec].
    assert (Wd : wf_dense σ d).
    { destruct (In_nth_error _ _ Hd) as [n Hn].
      assert (exists o, get_t σ o = Some d) as [o Ho].
      { clear - Hall Hn. revert n Hn. induction Hall as [|o d' os ds Ho _ IH]; intros [|n] Hn; cbn [nth_error] in Hn; try discriminate.
        - injection Hn as ->. eauto.
        - apply (IH n Hn). }
      destruct (R_tensor φ σ ς o d Hφ Ho) as (_ & _ & W & _). exact W. }
    split; [apply owf_of; [exact Wd|exact G1|exact G2|lia]|]. split.
    - destruct Hd as [<-|Hd]; [split; [reflexivity|intros; reflexivity]|].
      rewrite Forall_forall in Etest. apply Etest. apply (in_map (fun d => shp (d_ap d)) ods d Hd).
    - intros V1 V2. rewrite V1 in Hvec. apply Nat.eqb_eq in V2. rewrite V2 in Hvec. cbn [andb negb orb] in Hvec.
      apply negb_true_iff in Hvec. exact Hvec. }
  destruct (concat_spec Z 0 σ t axis others a ods Ht Hods Hax Hops) as (σ1 & ret & Em & Fr & Hcells).
  fold ax in Fr, Hcells.
  rewrite Em in H. injection H as <- <-.
  destruct (fresh_result_facts σ σ1 ret _ Fr) as (Ht1 & _).
  replace (length (tens σ1)) with (length (tens σ)) by (rewrite Ht1; reflexivity).
  set (sh := upd (shp (d_ap a)) ax (sumz (map (ext_d ax) (a :: ods)))) in *.
  (* the SPEC's shape *)
  assert (Hext : forall d x, In (d, x) (combine (a :: ods) (x0 :: xr)) -> znth 0 (s_shape x) axis = ext_d ax d).
  { intros d x Hin. destruct (Hshapes d x Hin) as [S _]. unfold ext_d. rewrite znth_nth by lia. rewrite S. reflexivity. }
  assert (Htotal : sumz (map (fun x => znth 0 (s_shape x) axis) (x0 :: xr)) = sumz (map (ext_d ax) (a :: ods))).
  { clear - Hext Hrel. revert Hext. induction Hrel as [|d x ds xs _ _ IH]; intro Hext; [reflexivity|].
    cbn [map sumz]. rewrite (Hext d x (or_introl eq_refl)). f_equal. apply IH.
    intros d' x' Hin. apply Hext. right. exact Hin. }
  rewrite Htotal, <- Sa. fold sh.
  assert (Hext1 : forall d, In d (a :: ods) -> 1 <= ext_d ax d).
  { intros d Hd. destruct (Hops d Hd) as (W & (Hl & _) & _). unfold ext_d. apply pos_shape_nth; [apply (OpsProofs.wf_pos _ _ _ W)|].
    rewrite Hl. exact Haxn. }
  assert (Hnn : Forall (fun d => 0 <= ext_d ax d) (a :: ods)).
  { apply Forall_forall. intros d Hd. pose proof (Hext1 d Hd). lia. }
  assert (Psh : pos_shape sh).
  { apply pos_shape_upd; [rewrite Sa; exact Pa|]. cbn [map sumz]. pose proof (Hext1 a (or_introl eq_refl)).
    assert (0 <= sumz (map (ext_d ax) ods)).
    { apply sumz_map_nonneg. apply Forall_forall. intros d Hd. pose proof (Hext1 d (or_intror Hd)). lia. }
    lia. }
  set (vs := map (fun c => match locate (x0 :: xr) ax (znth 0 c axis) with
                           | Some (x, k) => val_at Z 0 ς x (upd c ax k) | None => 0 end) (coords sh)).
  destruct (sim_fresh_result σ ς t x0 σ1 ret sh vs HR HRM Hx0 Hpend Fr (eq_trans (f_equal is_cm (m_concat_ord _ _ _ _ _ _ Em)) is_cm_0) Psh)
    as (ς' & Ed & HR' & HRM').
  - unfold vs. rewrite map_length, MemProofs.coords_length. reflexivity.
  - intros c Hc. rewrite (Hcells c Hc). unfold vs. rewrite (nth_map_coords _ 0 sh c Psh Hc).
    assert (Hlc : (ax < length sh)%nat) by (unfold sh; rewrite upd_len; exact Haxn).
    pose proof (inbox_nth sh c ax Hc Hlc) as Hk. unfold sh in Hk. rewrite nth_upd_eq in Hk by exact Haxn.
    rewrite (znth_nth 0 c axis) by lia. fold ax.
    apply (concat_src_locate φ σ ς ax c Hφ (a :: ods) (x0 :: xr)); [|exact Hnn|exact Hk].
    assert (Hin' : forall d, In d (a :: ods) -> forall k', 0 <= k' < ext_d ax d -> inbox (shp (d_ap d)) (upd c ax k')).
    { intros d Hd k' Hk'. destruct (Hops d Hd) as (_ & Hag & _). rewrite (agree_off_eq ax _ _ Hag).
      apply (inbox_upd ax (shp (d_ap a)) c _ _ k' Hc Hk'). }
    clear - Hrel Hin' Hφ. induction Hrel as [|d x ds xs Hr _ IH]; [constructor|].
    constructor; [|apply IH; intros d' Hd'; apply Hin'; right; exact Hd'].
    split; [exact Hr|]. destruct (trel_facts φ σ ς d x Hφ Hr) as (_ & S & _). rewrite <- S.
    apply Hin'. left. reflexivity.
  - exists ς'. split; [exact Ed|]. split; assumption.
Qed.

(* ---- ZStack ---- *)
Lemma insert_nth_z_eq : forall n (v : Z) l, insert_nth_z n v l = Shapeops.insert_at n v l.
Proof. induction n as [|n IH]; intros v [|y l]; cbn [insert_nth_z Shapeops.insert_at]; try reflexivity. f_equal. apply IH. Qed.

Lemma zguard_ZStack σ t axis others : zguard σ (ZStack t axis others) = GOk ->
  (forall d, In d (optens σ (t :: others)) -> guard_read d = GOk /\ is_cm (ord (d_ap d)) = false) /\
  (forall d0 l, optens σ (t :: others) = d0 :: l -> forall d, In d (d0 :: l) -> shp (d_ap d) = shp (d_ap d0)).
Proof.
  intro H. unfold zguard in H. fold (optens σ (t :: others)) in H. set (ds := optens σ (t :: others)) in *.
  destruct (filter (fun d => match guard_read d with GOk => false | _ => true end) ds) as [|d0 l0] eqn:Ef.
  - destruct (existsb (fun d => is_cm (ord (d_ap d))) ds) eqn:E1; [discriminate H|].
    cbn [andb] in H. split.
    + intros d Hd. pose proof (filter_nil_all _ _ Ef d Hd) as G. cbv beta in G.
      split; [destruct (guard_read d); (reflexivity || discriminate G)|apply (existsb_false _ _ E1 d Hd)].
    + intros d0 l E d Hd. rewrite E in H.
      destruct (forallb (fun d => list_eqb (shp (d_ap d)) (shp (d_ap d0))) (d0 :: l)) eqn:Ef2; [|discriminate H].
      rewrite forallb_forall in Ef2. apply list_eqb_true. apply Ef2. exact Hd.
  - exfalso. assert (Hin : In d0 (filter (fun d => match guard_read d with GOk => false | _ => true end) ds))
      by (rewrite Ef; left; reflexivity).
    apply filter_In in Hin as [_ Hin]. destruct (guard_read d0); (discriminate Hin || discriminate H).
Qed.

(* what has to be added to zguard for a Stack step: as for Concat —
   - every operand exists                                                  GAP  (as ZUn_zguard_gap)
   - 0 <= axis                                                             GAP  ZStack_zguard_gap: StackDense
     panics (slice bounds) on a negative axis where the SPEC refuses
   - nothing pending on the receiver                                        PROOF
   - no operand window of length one                                        PROOF (OpsProofs.wf_dense) *)
Definition stack_extra (σ : store Z) (t : nat) (axis : Z) (others : list nat) : bool :=
  forallb (fun o => is_some (get_t σ o)) (t :: others) && (0 <=? axis)
  && match get_t σ t with Some dt => negb (is_some (d_old dt)) | None => false end
  && forallb (fun d => negb (d_len d =? 1)) (optens σ (t :: others)).

Lemma zstep_model_ZStack σ t axis others :
  zstep_model σ (ZStack t axis others)
  = match m_stack Z 0 σ t axis others with
    | Ok (σ', d) => (fst (add_t Z σ' d), RNew Z (length (tens σ')))
    | Err => (σ, RErr Z) | Panic => (σ, RPanic Z) end.
Proof. unfold zstep_model. destruct (m_stack Z 0 σ t axis others) as [[σ' d]| |]; reflexivity. Qed.

Lemma zstep_spec_ZStack ς t axis others xs : Forall2 (fun o x => sget ς o = Some x) (t :: others) xs ->
  zstep_spec ς (ZStack t axis others)
  = match spec_stack_vals Z 0 ς xs axis with
    | Some (sh, vs) => spec_vals_deliver ς t sh (map (fun v => Some v) vs) (0, O) false
    | None => Some (ς, RErr Z)
    end.
Proof.
  intro H. unfold zstep_spec. rewrite (flat_map_sget ς (t :: others) xs H).
  rewrite <- (Forall2_length _ _ _ H). cbn [length]. rewrite Nat.eqb_refl. reflexivity.
Qed.

Lemma m_stack_ord σ t axis others dt σ' ret : get_t σ t = Some dt ->
  m_stack Z 0 σ t axis others = Ok (σ', ret) -> ord (d_ap ret) = ord (d_ap dt).
Proof.
  intros Ht H. unfold m_stack in H. rewrite Ht in H. res_cases H; injection H as _ <-; reflexivity.
Qed.

Lemma Forall2_nth_rel {A B} (P : A -> B -> Prop) : forall l l' n a, Forall2 P l l' -> nth_error l n = Some a ->
  forall db, P a (nth n l' db).
Proof.
  intros l l' n a H. revert n. induction H as [|x y l l' Hxy _ IH]; intros [|n] Hn db; cbn [nth_error] in Hn; try discriminate.
  - injection Hn as <-. exact Hxy.
  - cbn [nth]. apply IH. exact Hn.
Qed.

Lemma pos_shape_insert_at : forall s n k, pos_shape s -> 1 <= k -> pos_shape (Shapeops.insert_at n k s).
Proof.
  induction s as [|y s IH]; intros [|n] k Ps Hk; cbn [Shapeops.insert_at].
  - constructor; [lia|constructor].
  - constructor; [lia|constructor].
  - constructor; [lia|exact Ps].
  - inversion Ps; subst. constructor; [assumption|]. apply IH; assumption.
Qed.

Lemma sim_ZStack σ ς t axis others σ' r : R σ ς -> RM σ ->
  zguard σ (ZStack t axis others) = GOk -> stack_extra σ t axis others = true ->
  zstep_model σ (ZStack t axis others) = (σ', r) ->
  exists ς', zstep_spec ς (ZStack t axis others) = Some (ς', r) /\ R σ' ς' /\ RM σ'.
Proof.
  intros HR HRM Hg He H. pose proof HR as (φ & Hφ).
  unfold stack_extra in He. apply andb_true_iff in He as [He Hev]. apply andb_true_iff in He as [He Hold].
  apply andb_true_iff in He as [Hex Hax0].
  destruct (flat_map_get_all σ (t :: others) Hex) as [all Hall].
  inversion Hall as [|? a ? ods Ht Hods]; subst.
  rewrite Ht in Hold. assert (Hoa : d_old a = None) by (destruct (d_old a); [discriminate Hold|reflexivity]).
  rewrite (In_optens σ (t :: others) (a :: ods) Hall) in Hev.
  destruct (zguard_ZStack σ t axis others Hg) as [Hgd Hsame].
  rewrite (In_optens σ (t :: others) (a :: ods) Hall) in Hgd, Hsame. specialize (Hsame a ods eq_refl).
  destruct (operands_spec φ σ ς Hφ (t :: others) (a :: ods) Hall) as (xs & Hxs & Hrel).
  inversion Hrel as [|? x0 ? xr Hrel0 Hrelr]; subst.
  rewrite (zstep_spec_ZStack ς t axis others (x0 :: xr) Hxs). rewrite zstep_model_ZStack in H.
  destruct (trel_facts φ σ ς a x0 Hφ Hrel0) as (Wa & Sa & Pa & _).
  assert (Hx0 : sget ς t = Some x0) by (inversion Hxs; subst; assumption).
  destruct (R_tensor φ σ ς t a Hφ Ht) as (x0' & Hx0' & _ & _ & _ & _ & Hpend & _).
  assert (x0' = x0) by congruence. subst x0'. specialize (Hpend Hoa).
  destruct (HRM t a Ht) as [Hcma _].
  assert (Hax0' : 0 <= axis) by lia. set (ax := Z.to_nat axis).
  unfold spec_stack_vals.
  (* all shapes are the receiver's *)
  assert (Hshx : forallb (fun x => list_eqb (s_shape x0) (s_shape x)) (x0 :: xr) = true).
  { assert (G : forall d x, In d (a :: ods) -> trel σ ς d x -> list_eqb (s_shape x0) (s_shape x) = true).
    { intros d x Hd Hr. destruct (trel_facts φ σ ς d x Hφ Hr) as (_ & S & _). apply list_eqb_true.
      rewrite <- S, <- Sa. symmetry. apply Hsame. exact Hd. }
    clear - Hrel G. induction Hrel as [|d x ds xs Hr _ IH]; [reflexivity|]. cbn [forallb].
    rewrite (G d x (or_introl eq_refl) Hr). apply IH. intros d' x' Hd'. apply G. right. exact Hd'. }
  rewrite Hshx. cbn [negb].
  destruct ((axis <? 0) || (Z.of_nat (length (s_shape x0)) <? axis)) eqn:Erange.
  { rewrite (stack_refuses_axis Z 0 σ t axis others a ods Ht Hods) in H by (unfold zlen; rewrite Sa; lia).
    injection H as <- <-. exists ς. auto. }
  assert (Hax : 0 <= axis <= zlen (shp (d_ap a))) by (unfold zlen; rewrite Sa; lia).
  assert (Hops : forall d, In d (a :: ods) -> owf σ d /\ shp (d_ap d) = shp (d_ap a)).
  { intros d Hd. destruct (Hgd d Hd) as (G1 & G2). split; [|apply Hsame; exact Hd].
    rewrite forallb_forall in Hev. specialize (Hev d Hd).
    assert (Wd : wf_dense σ d).
    { destruct (In_nth_error _ _ Hd) as [n Hn].
      assert (exists o, get_t σ o = Some d) as [o Ho].
      { clear - Hall Hn. revert n Hn. induction Hall as [|o d' os ds Ho _ IH]; intros [|n] Hn; cbn [nth_error] in Hn; try discriminate.
        - injection Hn as ->. eauto.
        - apply (IH n Hn). }
      destruct (R_tensor φ σ ς o d Hφ Ho) as (_ & _ & W & _). exact W. }
    apply owf_of; [exact Wd|exact G1|exact G2|lia]. }
  destruct (stack_spec Z 0 σ t axis others a ods (shp (d_ap a)) Ht Hods Hops Hax) as (σ1 & ret & Em & Fr & Hcells).
  fold ax in Fr, Hcells.
  rewrite Em in H. injection H as <- <-.
  destruct (fresh_result_facts σ σ1 ret _ Fr) as (Ht1 & _).
  replace (length (tens σ1)) with (length (tens σ)) by (rewrite Ht1; reflexivity).
  assert (Hk : zlen (x0 :: xr) = zlen (a :: ods)) by (unfold zlen; rewrite (Forall2_length _ _ _ Hrel); reflexivity).
  rewrite Hk, insert_nth_z_eq, <- Sa. fold ax.
  set (sh := Shapeops.insert_at ax (zlen (a :: ods)) (shp (d_ap a))) in *.
  assert (Haxn : (ax <= length (shp (d_ap a)))%nat) by (unfold ax, zlen in *; lia).
  assert (Hk1 : 1 <= zlen (a :: ods)) by (unfold zlen; cbn [length]; lia).
  assert (Pa' : pos_shape (shp (d_ap a))) by (rewrite Sa; exact Pa).
  assert (Psh : pos_shape sh) by (apply pos_shape_insert_at; assumption).
  set (vs := map (fun c => val_at Z 0 ς (nth (Z.to_nat (znth 0 c axis)) (x0 :: xr) x0) (remove_nth_s ax c)) (coords sh)).
  destruct (sim_fresh_result σ ς t x0 σ1 ret sh vs HR HRM Hx0 Hpend Fr
              (eq_trans (f_equal is_cm (m_stack_ord _ _ _ _ _ _ _ Ht Em)) Hcma) Psh) as (ς' & Ed & HR' & HRM').
  - unfold vs. rewrite map_length, MemProofs.coords_length. reflexivity.
  - intros c Hc. destruct (Hcells c Hc) as (j & d & Hj & Hd & Ecell). rewrite Ecell.
    unfold vs. rewrite (nth_map_coords _ 0 sh c Psh Hc).
    destruct (stack_index ax (shp (d_ap a)) c (zlen (a :: ods)) Haxn Pa' Hk1 Hc) as (b & j' & i & _ & Hjr & _ & Hj' & Hin & _).
    assert (j' = j) by congruence. subst j'.
    assert (Ez : znth 0 c axis = j).
    { rewrite znth_nth by lia. fold ax. apply nth_error_nth_default. exact Hj. }
    rewrite Ez.
    pose proof (Forall2_nth_rel (trel σ ς) (a :: ods) (x0 :: xr) (Z.to_nat j) d Hrel Hd x0) as Hr.
    destruct (trel_facts φ σ ς d _ Hφ Hr) as (_ & S & _ & Hcv).
    change (OpsProofs.cell Z σ d (remove_nth_s ax c)) with (ocell σ d (remove_nth_s ax c)).
    rewrite Hcv; [reflexivity|]. rewrite <- S. rewrite (Hsame d (nth_error_In _ _ Hd)). exact Hin.
  - exists ς'. split; [exact Ed|]. split; assumption.
Qed.

(* ---- ZRepeat (along an axis of the tensor) ---- *)
Lemma zguard_ZRepeat σ t axis reps : zguard σ (ZRepeat t axis reps) = GOk ->
  exists d, get_t σ t = Some d /\ guard_read d = GOk /\ is_cm (ord (d_ap d)) = false /\
    is_materializable d = false /\ str (d_ap d) = calc_strides (shp (d_ap d)) /\
    (is_vector (shp (d_ap d)) && (2 <=? zlen (shp (d_ap d)))) = false /\
    (forall ns a b c, shape_repeat (shp (d_ap d)) axis reps = Ok (ns, a, b, c) ->
       pos_shapeb ns = true /\ (is_vector ns && (2 <=? zlen ns)) = false).
Proof.
  intro H. unfold zguard in H. cbn [flat_map] in H. destruct (get_t σ t) as [d|]; [|discriminate H].
  cbn [app] in H. exists d. split; [reflexivity|].
  destruct (guard_read d) eqn:G; try discriminate H.
  destruct (is_cm (ord (d_ap d))); [discriminate H|].
  destruct (is_materializable d); [discriminate H|]. cbn [orb] in H.
  destruct (list_eqb (str (d_ap d)) (calc_strides (shp (d_ap d)))) eqn:E; [|discriminate H].
  apply list_eqb_true in E. cbn [negb] in H.
  destruct (is_vector (shp (d_ap d)) && (2 <=? zlen (shp (d_ap d)))); [discriminate H|].
  repeat (split; [reflexivity || exact E|]).
  intros ns a b c Es. rewrite Es in H.
  destruct (pos_shapeb ns); [|discriminate H]. cbn [negb] in H.
  destruct (is_vector ns && (2 <=? zlen ns)); [discriminate H|]. auto.
Qed.

(* what has to be added to zguard for a Repeat step:
   - 0 <= axis < rank                                    GAP below 0 (axis < -1 panics where the SPEC refuses:
     ZRepeat_zguard_gap); PROOF for axis = -1 (the flattening form, C10_repeat_flat, is not connected)
     and for axis >= rank (refused by both sides)
   - the repeat counts (after broadcasting) are >= 0      GAP  ZRepeat_zguard_gap: a negative count is
     accepted by the library (the counts are only summed) where the SPEC refuses
   - nothing pending on the operand: zguard (GView)
   - the operand does not need an iterator, window > 1     PROOF (non-contiguous bit of a non-view;
     OpsProofs.wf_dense) *)
Definition repeat_extra (σ : store Z) (t : nat) (axis : Z) (reps : list Z) : bool :=
  match get_t σ t with
  | Some d =>
    let sh := shp (d_ap d) in
    (0 <=? axis) && (axis <? zlen sh) &&
    forallb (fun r => 0 <=? r) (bcast_reps reps (nth (Z.to_nat axis) sh 0)) &&
    negb (requires_iterator d) && negb (d_len d =? 1)
  | None => false
  end.

Lemma zstep_model_ZRepeat σ t axis reps :
  zstep_model σ (ZRepeat t axis reps)
  = match m_repeat Z 0 σ t axis reps with
    | Ok (σ', d) => (fst (add_t Z σ' d), RNew Z (length (tens σ')))
    | Err => (σ, RErr Z) | Panic => (σ, RPanic Z) end.
Proof. unfold zstep_model. destruct (m_repeat Z 0 σ t axis reps) as [[σ' d]| |]; reflexivity. Qed.

Lemma m_repeat_ord σ t axis reps σ' ret : m_repeat Z 0 σ t axis reps = Ok (σ', ret) -> ord (d_ap ret) = 0.
Proof.
  unfold m_repeat. intro H. res_cases H; injection H as _ <-;
  match goal with E : fresh Z 0 _ _ = (_, _) |- _ => apply (fresh_ord _ _ _ _ E) end.
Qed.

Lemma vector_rank1_tail (s : list Z) ax : (ax < length s)%nat ->
  (is_vector s && (2 <=? zlen s)) = false -> is_vector s = true -> size (skipn (S ax) s) = 1.
Proof.
  intros Ha Hg Hv. rewrite Hv in Hg. cbn [andb] in Hg.
  destruct s as [|x [|y s]]; cbn [length] in *; try lia; [|unfold zlen in Hg; cbn [length] in Hg; lia].
  destruct ax; [reflexivity|lia].
Qed.

Lemma sim_ZRepeat σ ς t axis reps σ' r : R σ ς -> RM σ ->
  zguard σ (ZRepeat t axis reps) = GOk -> repeat_extra σ t axis reps = true ->
  zstep_model σ (ZRepeat t axis reps) = (σ', r) ->
  exists ς', zstep_spec ς (ZRepeat t axis reps) = Some (ς', r) /\ R σ' ς' /\ RM σ'.
Proof.
  intros HR HRM Hg He H. pose proof HR as (φ & Hφ).
  destruct (zguard_ZRepeat σ t axis reps Hg) as (d & Ht & Gr & Hcm & Hmat & Hst & Hvec & Hns).
  unfold repeat_extra in He. rewrite Ht in He.
  apply andb_true_iff in He as [He Hl1]. apply andb_true_iff in He as [He Hri].
  apply andb_true_iff in He as [He Hnn]. assert (Hax : 0 <= axis < zlen (shp (d_ap d))) by lia. clear He.
  apply negb_true_iff in Hri.
  destruct (R_tensor φ σ ς t d Hφ Ht) as (x & Hx & Wd & Sd & Lx & Px & Hpend & Hc0).
  assert (Hod : d_old d = None).
  { unfold is_materializable in Hmat. apply orb_false_iff in Hmat as [_ Hm]. destruct (d_old d); [discriminate Hm|reflexivity]. }
  specialize (Hpend Hod).
  set (sh := shp (d_ap d)) in *. set (ax := Z.to_nat axis) in *.
  set (reps' := bcast_reps reps (nth ax sh 0)) in *.
  assert (Haxn : (ax < length sh)%nat) by (unfold ax, zlen in *; lia).
  rewrite zstep_model_ZRepeat in H.
  (* the SPEC side *)
  assert (Hspec : zstep_spec ς (ZRepeat t axis reps)
            = if negb (zlen reps' =? nth ax sh 0) then Some (ς, RErr Z)
              else spec_vals_deliver ς t (upd sh ax (sumz reps'))
                     (map (fun v => Some v)
                        (map (fun c => val_at Z 0 ς x (upd c ax (rep_src reps' (znth 0 c axis) 0)))
                             (coords (upd sh ax (sumz reps'))))) (0, O) false).
  { unfold zstep_spec. rewrite Hx, <- Sd. fold sh.
    replace ((zlen sh <=? 1) && (axis =? 1)) with false by lia. replace (zlen sh =? 0) with false by lia.
    cbn [orb]. unfold spec_repeat_vals. replace (axis =? -1) with false by lia. rewrite <- Sd. fold sh.
    replace ((axis <? 0) || (zlen sh <=? axis)) with false by lia.
    rewrite (znth_nth 0 sh axis) by lia. fold ax.
    change (match reps with [r0] => repeat r0 (Z.to_nat (nth ax sh 0)) | _ => reps end) with reps'.
    rewrite Hnn. cbn [negb]. rewrite orb_false_r.
    destruct (negb (zlen reps' =? nth ax sh 0)); reflexivity. }
  rewrite Hspec.
  destruct (Z.eq_dec (zlen reps') (nth ax sh 0)) as [El|Nl].
  2:{ replace (zlen reps' =? nth ax sh 0) with false by lia. cbn [negb].
      rewrite (repeat_refuses Z 0 σ t axis reps d Ht Hax Nl) in H. injection H as <- <-. exists ς. auto. }
  replace (zlen reps' =? nth ax sh 0) with true by lia. cbn [negb].
  assert (Hnn' : Forall (fun r0 => 0 <= r0) reps').
  { apply Forall_forall. intros r0 Hr0. rewrite forallb_forall in Hnn. specialize (Hnn r0 Hr0). lia. }
  assert (Hshr : shape_repeat sh axis reps = Ok (upd sh ax (sumz reps'), reps', nth ax sh 0, axis)).
  { rewrite (shape_repeat_spec sh axis reps Hax). cbv zeta. fold ax. fold reps'.
    replace (zlen reps' =? nth ax sh 0) with true by lia. reflexivity. }
  destruct (Hns _ _ _ _ Hshr) as [Pns Vns]. apply pos_shapeb_sound in Pns.
  assert (Od : owf σ d) by (apply owf_of; [exact Wd|exact Gr|exact Hcm|lia]).
  assert (Hvg : is_vector (upd sh ax (sumz reps')) || is_vector sh = true -> size (skipn (S ax) sh) = 1).
  { intro Hv. apply orb_true_iff in Hv as [Hv|Hv].
    - assert (Hl : (ax < length (upd sh ax (sumz reps')))%nat) by (rewrite upd_len; exact Haxn).
      pose proof (vector_rank1_tail _ ax Hl Vns Hv) as Hsz.
      destruct sh as [|s0 [|s1 sh']]; cbn [length] in *; try lia; [destruct ax; [reflexivity|lia]|].
      exfalso. rewrite Hv in Vns. cbn [andb] in Vns. unfold zlen in Vns. rewrite upd_len in Vns. cbn [length] in Vns. lia.
    - apply (vector_rank1_tail sh ax Haxn Hvec Hv). }
  destruct (repeat_spec Z 0 σ t axis reps d Ht Od Hri Hax El Hnn' Hvg) as (σ1 & ret & Em & Fr & Hcells).
  fold sh ax reps' in Fr, Hcells.
  rewrite Em in H. injection H as <- <-.
  destruct (fresh_result_facts σ σ1 ret _ Fr) as (Ht1 & _).
  replace (length (tens σ1)) with (length (tens σ)) by (rewrite Ht1; reflexivity).
  set (nsh := upd sh ax (sumz reps')) in *.
  destruct (sim_fresh_result σ ς t x σ1 ret nsh
              (map (fun c => val_at Z 0 ς x (upd c ax (rep_src reps' (znth 0 c axis) 0))) (coords nsh))
              HR HRM Hx Hpend Fr (eq_trans (f_equal is_cm (m_repeat_ord _ _ _ _ _ _ Em)) is_cm_0) Pns) as (ς' & Ed & HR' & HRM').
  - rewrite map_length, MemProofs.coords_length. reflexivity.
  - intros c Hc. rewrite (Hcells c Hc). rewrite (nth_map_coords _ 0 nsh c Pns Hc).
    rewrite (znth_nth 0 c axis) by lia. fold ax.
    assert (Hlc : (ax < length nsh)%nat) by (unfold nsh; rewrite upd_len; exact Haxn).
    pose proof (inbox_nth nsh c ax Hc Hlc) as Hk. unfold nsh in Hk. rewrite nth_upd_eq in Hk by exact Haxn.
    pose proof (rep_src_bound reps' (nth ax c 0) Hnn' Hk) as Hb. rewrite El in Hb.
    change (OpsProofs.cell Z σ d (upd c ax (rep_src reps' (nth ax c 0) 0)))
      with (ocell σ d (upd c ax (rep_src reps' (nth ax c 0) 0))).
    change (ocell σ d (upd c ax (rep_src reps' (nth ax c 0) 0))) with (mcell σ d (upd c ax (rep_src reps' (nth ax c 0) 0))).
    rewrite Hc0; [reflexivity|].
    rewrite <- Sd. fold sh. rewrite <- (upd_nth_same 0 ax sh). apply (inbox_upd ax sh c _ _ _ Hc Hb).
  - exists ς'. split; [exact Ed|]. split; assumption.
Qed.

(* ====================================================================================== *)
(*  7. ZLin with a reuse / incr destination                                                 *)
(* ====================================================================================== *)
(* the common post-condition of LinalgProofs.m_*_reuse (dest_reuse), coordinate-wise *)
Definition reuse_post (σ σ' : store Z) (r : nat) (d : dense) (sh : list Z) (val : list Z -> Z) : Prop :=
  get_t σ' r = Some (reshaped d sh) /\
  (forall c, inbox sh c -> ocell σ' (reshaped d sh) c = Some (val c)) /\
  (forall u, u <> r -> get_t σ' u = get_t σ u) /\ length (tens σ') = length (tens σ) /\
  length (bufs σ') = length (bufs σ) /\
  (forall q, q <> d_buf d -> get_buf σ' q = get_buf σ q) /\
  (forall q, ~ (d_off d <= q < d_off d + d_len d) -> peek Z σ' (d_buf d) q = peek Z σ (d_buf d) q).

(* ... and of m_*_incr (dest_incr) *)
Definition incr_post (σ σ' : store Z) (inc : dense) (sh : list Z) (val : list Z -> Z) : Prop :=
  tens σ' = tens σ /\
  (forall c o, inbox sh c -> ocell σ inc c = Some o -> ocell σ' inc c = Some (Z.add o (val c))) /\
  (forall q, (q < length (bufs σ))%nat -> q <> d_buf inc -> get_buf σ' q = get_buf σ q) /\
  (forall D z, sep inc D -> (d_buf D < length (bufs σ))%nat -> win_get σ' D z = win_get σ D z).

Lemma tens_upd_ext (l l' : list dense) r d' : length l' = length l -> (r < length l)%nat ->
  nth_error l' r = Some d' -> (forall u, u <> r -> nth_error l' u = nth_error l u) -> l' = upd l r d'.
Proof.
  intros Hl Hr Hd Ho. apply nth_error_ext_eq. intro k. destruct (Nat.eq_dec k r) as [->|Hne].
  - rewrite Hd, nth_error_upd_same by exact Hr. reflexivity.
  - rewrite (Ho k Hne), nth_error_upd_other by congruence. reflexivity.
Qed.

(* a contiguous tensor: every window position is a logical cell *)
Lemma contig_offset d i : contig d -> pos_shape (shp (d_ap d)) -> 0 <= i < d_len d ->
  exists c, inbox (shp (d_ap d)) c /\ i = dot (str (d_ap d)) c /\ rank_rm (shp (d_ap d)) c = i.
Proof.
  intros [Hs Hl] Hp Hi. exists (unrank (shp (d_ap d)) i).
  split; [apply unrank_inbox; [exact Hp|lia]|]. split.
  - rewrite Hs, <- rk_dot, rk_unrank by (auto; lia). reflexivity.
  - apply rank_unrank; [exact Hp|lia].
Qed.

Lemma win_get_outside σ d i : ~ (0 <= i < d_len d) -> win_get σ d i = None.
Proof. intro H. unfold Mem.win_get. replace ((i <? 0) || (d_len d <=? i)) with true by lia. reflexivity. Qed.

Lemma spec_deliver_gen_dest ks ς ta r xr vs cm (incr : bool) : sget ς r = Some xr ->
  length vs = length (s_cells xr) ->
  spec_deliver_gen Z 0 ks Z.add ς ta (s_shape xr) vs (if incr then 3 else 2) r cm
  = Some (mkSS Z (write_cells Z (s_vals ς) (s_cells xr) (if incr then incr_vals ς xr vs else vs)) (s_tens ς), r).
Proof.
  intros Hx Hl. unfold spec_deliver_gen.
  replace ((if incr then 3 else 2) =? 0) with false by (destruct incr; reflexivity).
  replace ((if incr then 3 else 2) =? 1) with false by (destruct incr; reflexivity).
  replace ((if incr then 3 else 2) =? 2) with (negb incr) by (destruct incr; reflexivity).
  cbv iota. rewrite Hx.
  replace (length (s_cells xr) =? length vs)%nat with true by (symmetry; apply Nat.eqb_eq; lia).
  cbn [negb]. rewrite shape_eq_refl. cbn [negb]. rewrite andb_false_r.
  replace (list_eqb (s_shape xr) (s_shape xr)) with true by (symmetry; apply list_eqb_true; reflexivity).
  cbv iota.
  replace (if ks && true then s_shape xr else s_shape xr) with (s_shape xr) by (destruct ks; reflexivity).
  rewrite sten_eta.
  assert (Ev : (if negb incr then vs else map (fun p => Z.add (nth (fst p) (s_vals ς) 0) (snd p)) (combine (s_cells xr) vs))
               = (if incr then incr_vals ς xr vs else vs)) by (destruct incr; reflexivity).
  rewrite Ev. rewrite (sset_id Z _ r xr); [reflexivity|exact Hx].
Qed.

Lemma sim_lin_reuse ks σ ς σ' ta r d sh vs val cm : R σ ς -> RM σ ->
  get_t σ r = Some d -> d_old d = None -> contig d -> d_view d = false -> is_cm (ord (d_ap d)) = false ->
  shp (d_ap d) = sh -> reuse_post σ σ' r d sh val ->
  length vs = Z.to_nat (size sh) -> (forall c, inbox sh c -> val c = nth (Z.to_nat (rank_rm sh c)) vs 0) ->
  exists ς', spec_deliver_gen Z 0 ks Z.add ς ta sh vs 2 r cm = Some (ς', r) /\ R σ' ς' /\ RM σ'.
Proof.
  intros HR HRM Hr Ho Hct Hv Hcm Hsh (Pg & Pv & Po & Plt & Plb & Pb & Pp) Hlv Hval. pose proof HR as (φ & Hφ).
  subst sh.
  destruct (R_tensor φ σ ς r d Hφ Hr) as (xr & Hxr & Wd & Sd & Lc & Px & _ & _).
  assert (Hlv' : length vs = length (s_cells xr)) by (rewrite Lc, <- Sd; exact Hlv).
  rewrite Sd. rewrite (spec_deliver_gen_dest ks ς ta r xr vs cm false Hxr Hlv'). eexists. split; [reflexivity|].
  set (d' := reshaped d (shp (d_ap d))) in *.
  set (σm := mkStore Z (bufs σ') (tens σ)).
  assert (Hgb : forall k, get_buf σm k = get_buf σ' k) by reflexivity.
  pose proof Wd as ((W0 & W1 & W2) & Wap & _). pose proof Wap as (Hp & Hls & _ & Hbnd & _).
  pose proof Hct as [Hst Hlen].
  (* the buffers: an in-place write of vs into d *)
  assert (Hdw : dest_written σ σm d vs).
  { split; [reflexivity|]. split; [intros k _ Hk; rewrite Hgb; apply Pb; exact Hk|]. split; [|split].
    - intros c Hc. pose proof (Pv c Hc) as E. rewrite (Hval c Hc) in E.
      unfold OpsProofs.cell, Mem.win_get in E. cbn [d' reshaped d_ap str d_len d_buf d_off] in E.
      rewrite <- Hst in E. specialize (Hbnd c Hc).
      replace ((dot (str (d_ap d)) c <? 0) || (d_len d <=? dot (str (d_ap d)) c)) with false in E by lia.
      exact E.
    - intros i Hi. destruct (Z_le_dec 0 i) as [H0|H0]; [destruct (Z_lt_dec i (d_len d)) as [H1|H1]|].
      + exfalso. destruct (contig_offset d i Hct Hp ltac:(lia)) as (c & Hc & Ei & _). apply (Hi c Hc Ei).
      + rewrite !win_get_outside by lia. reflexivity.
      + rewrite !win_get_outside by lia. reflexivity.
    - intros p Hp'. apply (Pp p Hp'). }
  pose proof (Rphi_dest φ σ ς σm r d xr vs Hφ Hr Hxr Hdw Hlv') as Hφm.
  set (ςm := mkSS Z (write_cells Z (s_vals ς) (s_cells xr) vs) (s_tens ς)) in *.
  (* the header: r now carries the result shape *)
  assert (Hrm : get_t σm r = Some d) by exact Hr.
  assert (Hxm : sget ςm r = Some xr) by exact Hxr.
  pose proof Hφm as (_ & _ & _ & Hallm). destruct (Hallm r d xr Hrm Hxm) as (Wm & Rm & Vm & Pm & Cm).
  assert (Hok' : ten_ok φ σm d' xr).
  { split; [|split; [|split; [|split]]].
    - destruct Wm as (Ww & Wa & _). split; [exact Ww|]. split; [|discriminate].
      apply (wf_ap_ext _ (d_ap d)); [reflexivity|rewrite Hst; reflexivity|exact Wa].
    - destruct Rm as (R1 & R2 & R3 & R4). split; [exact R1|]. split.
      + apply (wf_ap_ext _ (d_ap d)); [reflexivity|rewrite Hst; reflexivity|exact R2].
      + split; [exact R3|]. intros c Hc. specialize (R4 c Hc). cbn [d' reshaped d_buf d_off d_ap str].
        rewrite <- Hst. exact R4.
    - rewrite Vm. rewrite Hv. reflexivity.
    - unfold pend_ok in *. rewrite Ho in Pm. cbn [d' reshaped d_old]. exact Pm.
    - intros _ p k Hk Hr'. destruct (Cm Hv p k Hk Hr') as (c & Hc & Hpc). exists c.
      split; [exact Hc|].
      rewrite Hpc. unfold pos. cbn [d' reshaped d_off d_ap str]. rewrite <- Hst. reflexivity. }
  assert (Hσ' : σ' = set_t σm r d').
  { destruct σ' as [B T]. unfold Mem.set_t, σm. cbn [bufs tens]. f_equal.
    apply tens_upd_ext; [exact Plt|apply nth_error_Some_lt in Hr; exact Hr|exact Pg|].
    intros u Hu. apply (Po u Hu). }
  rewrite Hσ'. split.
  - exists φ. apply (Rphi_set_model Z 0 φ σm ςm r d xr d' Hφm Hrm Hxm Hok').
  - apply RM_set; [apply (RM_tens Z σ σm eq_refl HRM)|]. split; [exact Hcm|discriminate].
Qed.

Lemma sim_lin_incr ks σ ς σ' ta r inc sh vs val cm : R σ ς -> RM σ ->
  get_t σ r = Some inc -> d_old inc = None -> contig inc -> shp (d_ap inc) = sh ->
  incr_post σ σ' inc sh val ->
  length vs = Z.to_nat (size sh) -> (forall c, inbox sh c -> val c = nth (Z.to_nat (rank_rm sh c)) vs 0) ->
  exists ς', spec_deliver_gen Z 0 ks Z.add ς ta sh vs 3 r cm = Some (ς', r) /\ R σ' ς' /\ RM σ'.
Proof.
  intros HR HRM Hr Ho Hct Hsh (Pt & Pv & Pb & Ps) Hlv Hval. pose proof HR as (φ & Hφ). subst sh.
  destruct (R_tensor φ σ ς r inc Hφ Hr) as (xr & Hxr & Wd & Sd & Lc & Px & _ & Hcell).
  assert (Hlv' : length vs = length (s_cells xr)) by (rewrite Lc, <- Sd; exact Hlv).
  rewrite Sd. rewrite (spec_deliver_gen_dest ks ς ta r xr vs cm true Hxr Hlv'). eexists. split; [reflexivity|].
  pose proof Wd as ((W0 & W1 & W2) & Wap & _). pose proof Wap as (Hp & Hls & _ & Hbnd & _).
  pose proof (wf_dense_buf_lt Z σ inc Wd) as Hbl.
  assert (Hdw : dest_written σ σ' inc (incr_vals ς xr vs)).
  { split; [exact Pt|]. split; [exact Pb|]. split; [|split].
    - intros c Hc.
      assert (Hcx : inbox (s_shape xr) c) by (rewrite <- Sd; exact Hc).
      pose proof (Hcell c Hcx) as Eo. change (mcell σ inc c) with (ocell σ inc c) in Eo.
      pose proof (Pv c _ Hc Eo) as E. unfold OpsProofs.cell in E.
      rewrite (MemProofs.win_get_bget Z σ' inc _ (Hbnd c Hc)) in E. unfold pos. rewrite E. f_equal.
      pose proof (rank_rm_bound _ _ Hp Hc) as Hrk.
      rewrite incr_vals_nth by lia. rewrite (Hval c Hc). f_equal.
      rewrite Sd. symmetry. apply sval_slogical. rewrite Lc, <- Sd. lia.
    - intros i Hi. destruct (Z_le_dec 0 i) as [H0|H0]; [destruct (Z_lt_dec i (d_len inc)) as [H1|H1]|].
      + exfalso. destruct (contig_offset inc i Hct Hp ltac:(lia)) as (c & Hc & Ei & _). apply (Hi c Hc Ei).
      + rewrite !win_get_outside by lia. reflexivity.
      + rewrite !win_get_outside by lia. reflexivity.
    - intros p Hp'. destruct (Z_lt_dec p 0) as [Hneg|Hnn].
      + unfold MemProofs.bget, zget. replace (p <? 0) with true by lia. reflexivity.
      + set (E := mkDense (d_buf inc) p 1 (d_ap inc) None false).
        assert (HsE : sep inc E) by (right; cbn [E d_off d_len]; lia).
        pose proof (Ps E 0 HsE Hbl) as Hw. unfold Mem.win_get in Hw. cbn [E d_len d_buf d_off] in Hw.
        change ((0 <? 0) || (1 <=? 0)) with false in Hw. cbv iota in Hw.
        replace (p + 0) with p in Hw by lia. exact Hw. }
  split.
  - exists φ. apply (Rphi_dest φ σ ς σ' r inc xr _ Hφ Hr Hxr Hdw). apply incr_vals_length. exact Hlv'.
  - apply (RM_tens Z σ σ' Pt HRM).
Qed.

Lemma lres_same σ σ1 t σ' r : lres_outcome σ (σ1, LSame t) = (σ', r) -> σ' = σ1 /\ r = RNew Z t.
Proof. cbn [lres_outcome]. intro H. injection H as <- <-. auto. Qed.

(* the documented result shape *)
Definition lin_rshape (code : Z) (da db : dense) : list Z :=
  if code =? 0 then
    match shp (d_ap da), shp (d_ap db) with [m; _], [_; n] => [m; n] | _, _ => [] end
  else if code =? 1 then
    match shp (d_ap da) with [m; _] => [m] | _ => [] end
  else [size (shp (d_ap da)); size (shp (d_ap db))].

(* the destination of a reuse / incr product inside the guards *)
Lemma lin_dest_facts σ t d : RM σ -> get_t σ t = Some d -> lin_ok d = true -> d_old d = None ->
  guard_read d = GOk /\ contig d /\ d_view d = false /\ is_cm (ord (d_ap d)) = false.
Proof.
  intros HRM Ht L Ho. destruct (lin_ok_plain σ t d HRM Ht L Ho) as (G & C & V).
  destruct (HRM t d Ht) as [Hcm _]. auto.
Qed.

Lemma sim_ZLin_matmul_dest σ ς a b (md : lmode) r0 refused da db dr σ' r : R σ ς -> RM σ ->
  md = LReuse r0 \/ md = LIncr r0 ->
  get_t σ a = Some da -> get_t σ b = Some db -> get_t σ r0 = Some dr ->
  d_old da = None -> d_old db = None -> d_old dr = None ->
  shp (d_ap dr) = lin_rshape 0 da db ->
  (md = LReuse r0 -> overlaps dr da = false /\ overlaps dr db = false) ->
  (md = LIncr r0 -> 1 < size (shp (d_ap dr))) ->
  zguard σ (ZLin 0 a b md refused) = GOk ->
  zstep_model σ (ZLin 0 a b md refused) = (σ', r) -> hintZ r refused = true ->
  exists ς', zstep_spec ς (ZLin 0 a b md refused) = Some (ς', r) /\ R σ' ς' /\ RM σ'.
Proof.
  intros HR HRM Hmd Ha Hb Hr Hoa Hob Hor Hshr Hsep Hbig Hg H Hh. pose proof HR as (φ & Hφ).
  destruct (zguard_ZLin σ 0 a b md refused da db Ha Hb Hg) as (La & Lb & Ld).
  assert (Lr : lin_ok dr = true) by (destruct Hmd as [-> | ->]; apply (Ld dr Hr)).
  destruct (lin_ok_plain σ a da HRM Ha La Hoa) as (Ga & Ca & Va).
  destruct (lin_ok_plain σ b db HRM Hb Lb Hob) as (Gb & Cb & Vb).
  destruct (lin_dest_facts σ r0 dr HRM Hr Lr Hor) as (Gr & Cr & Vr & Hcmr).
  destruct (R_tensor φ σ ς a da Hφ Ha) as (x & Hx & Wa & Sa & Lxa & Pa & _ & _).
  destruct (R_tensor φ σ ς b db Hφ Hb) as (y & Hy & Wb & Sb & Lxb & Pb & _ & _).
  destruct (R_tensor φ σ ς r0 dr Hφ Hr) as (xr & Hxr & Wr & Sr & Lxr & Pr & _ & _).
  destruct (HRM a da Ha) as [Hcma _]. destruct (HRM b db Hb) as [Hcmb _].
  rewrite zstep_model_ZLin in H. change (0 =? 0) with true in H. cbv iota in H.
  assert (Hmain : exists ς', zstep_spec ς (ZLin 0 a b md 0) = Some (ς', r) /\
            (match r with RErr _ => ς' = ς | _ => True end) /\ r <> RPanic Z /\ R σ' ς' /\ RM σ').
  { rewrite (zstep_spec_ZLin ς 0 a b md x y Hx Hy). unfold lin_vals. change (0 =? 0) with true. cbv iota.
    unfold spec_matmul_vals. rewrite <- Sa, <- Sb.
    assert (Hrefuse : m_matmul Z 0 Z.add Z.mul σ a b md = (σ, LErr) ->
              exists ς', Some (ς, RErr Z) = Some (ς', r) /\ (match r with RErr _ => ς' = ς | _ => True end) /\
                         r <> RPanic Z /\ R σ' ς' /\ RM σ').
    { intro E. rewrite E in H. apply lres_err in H as [-> ->]. exists ς.
      split; [reflexivity|]. split; [reflexivity|]. split; [discriminate|]. split; assumption. }
    unfold lin_rshape in Hshr. change (0 =? 0) with true in Hshr. cbv iota in Hshr.
    destruct (shp (d_ap da)) as [|m [|k [|e1 l1]]] eqn:Esa;
      try (apply Hrefuse; apply (m_matmul_not_matrix Z 0 Z.add Z.mul σ a b da db md Ha Hb);
           left; rewrite Esa; cbn [length]; lia).
    destruct (shp (d_ap db)) as [|k' [|n [|e2 l2]]] eqn:Esb;
      try (apply Hrefuse; apply (m_matmul_not_matrix Z 0 Z.add Z.mul σ a b da db md Ha Hb);
           right; rewrite Esb; cbn [length]; lia).
    destruct (Z.eq_dec k k') as [<-|Hne].
    2:{ replace (k =? k') with false by lia. cbn [negb]. apply Hrefuse.
        apply (m_matmul_shape_mismatch Z 0 Z.add Z.mul σ a b da db m k k' n md Ha Hb Esa Esb Hne). }
    rewrite Z.eqb_refl. cbn [negb].
    rewrite <- Sa in Pa. rewrite <- Sb in Pb.
    destruct (pos_shape2 _ _ Pa) as [Hm Hk]. destruct (pos_shape2 _ _ Pb) as [_ Hn].
    assert (Ma : mat_ok da m k).
    { left. destruct Ca as [Cs Cl]. rewrite Esa in Cs, Cl. cbn [calc_strides size] in Cs, Cl.
      replace (k * 1) with k in Cs by lia. unfold plain2. rewrite Esa, Cs.
      split; [exact Hoa|]. split; [reflexivity|]. split; [reflexivity|]. split; [exact Hcma|lia]. }
    assert (Mb : mat_ok db k n).
    { left. destruct Cb as [Cs Cl]. rewrite Esb in Cs, Cl. cbn [calc_strides size] in Cs, Cl.
      replace (n * 1) with n in Cs by lia. unfold plain2. rewrite Esb, Cs.
      split; [exact Hob|]. split; [reflexivity|]. split; [reflexivity|]. split; [exact Hcmb|lia]. }
    set (vs := map (fun c => match c with
                             | [i; j] => fold_left Z.add (map (fun l => Z.mul (val_at Z 0 ς x [i; l]) (val_at Z 0 ς y [l; j]))
                                                              (zseq 0 (Z.to_nat k))) 0
                             | _ => 0 end) (coords [m; n])).
    set (val := val2 Z 0 (fun i j => mm_sum Z 0 Z.add Z.mul σ da db k i j)).
    assert (Pmn : pos_shape [m; n]) by (constructor; [lia|constructor; [lia|constructor]]).
    assert (Hlvs : length vs = Z.to_nat (size [m; n])) by (unfold vs; rewrite map_length, MemProofs.coords_length; reflexivity).
    assert (Hval : forall c, inbox [m; n] c -> val c = nth (Z.to_nat (rank_rm [m; n] c)) vs 0).
    { intros c Hc. unfold vs. rewrite (nth_map_coords _ 0 [m; n] c Pmn Hc).
      destruct c as [|i [|j [|e l]]]; cbn [inbox] in Hc; try tauto. unfold val. cbn [val2].
      unfold mm_sum, vsum. f_equal. apply map_ext_in. intros l Hl. apply APProofs.zseq_In in Hl.
      rewrite <- !sval_val_at.
      rewrite (R_entv φ σ ς a da x i l Hφ Ha Hx) by (rewrite <- Sa; cbn [inbox]; lia).
      rewrite (R_entv φ σ ς b db y l j Hφ Hb Hy) by (rewrite <- Sb; cbn [inbox]; lia). reflexivity. }
    assert (Hlr : d_len dr = m * n) by (destruct Cr as [_ Cl]; rewrite Cl, Hshr; cbn [size]; lia).
    fold vs.
    destruct Hmd as [-> | ->].
    - destruct (Hsep eq_refl) as [S1 S2].
      destruct (m_matmul_reuse Z 0 Z.add Z.mul σ a b r0 da db dr m n k Ha Hb Hr Hm Hn Hk Ma Mb
                  (wf_in_buf σ da Wa) (wf_in_buf σ db Wb) Hcmr Hlr (wf_in_buf σ dr Wr)
                  (not_overlaps_sep rowmajor rowmajor_new _ _ S1) (not_overlaps_sep rowmajor rowmajor_new _ _ S2))
        as (σ1 & Em & Q1 & _ & Q2 & Q3 & Q4 & _ & _ & Q5 & Q6 & _ & Q7).
      rewrite Em in H. apply lres_same in H as [-> ->].
      destruct (sim_lin_reuse false σ ς σ1 a r0 dr [m; n] vs val (s_cm x) HR HRM Hr Hor Cr Vr Hcmr Hshr) as (ς' & Ed & HR' & HRM');
        [|exact Hlvs|exact Hval|].
      + split; [exact Q1|]. split; [|repeat split; assumption].
        intros c Hc. destruct c as [|i [|j [|e l]]]; cbn [inbox] in Hc; try tauto.
        change (ocell σ1 (reshaped dr [m; n]) [i; j]) with (ent Z σ1 (reshaped dr [m; n]) i j).
        rewrite (Q2 i j) by lia. reflexivity.
      + cbn [lmode_code fst snd]. rewrite Ed. exists ς'.
        split; [reflexivity|]. split; [exact I|]. split; [discriminate|]. split; assumption.
    - assert (Or : owf σ dr) by (apply owf_of; [exact Wr|exact Gr|exact Hcmr|specialize (Hbig eq_refl); rewrite Hshr in Hbig; cbn [size] in Hbig; lia]).
      assert (Hbig' : 1 < m * n) by (specialize (Hbig eq_refl); rewrite Hshr in Hbig; cbn [size] in Hbig; lia).
      destruct (m_matmul_incr Z 0 Z.add Z.mul σ a b r0 da db dr m n k Ha Hb Hr Hm Hn Hk Hbig' Ma Mb
                  (wf_in_buf σ da Wa) (wf_in_buf σ db Wb) Or Hshr)
        as (σ1 & Em & Q1 & Q2 & Q3 & Q4).
      rewrite Em in H. apply lres_same in H as [-> ->].
      destruct (sim_lin_incr true σ ς σ1 a r0 dr [m; n] vs val (s_cm x) HR HRM Hr Hor Cr Hshr) as (ς' & Ed & HR' & HRM');
        [|exact Hlvs|exact Hval|].
      + split; [exact Q1|]. split; [|split; assumption].
        intros c o Hc Ho. destruct c as [|i [|j [|e l]]]; cbn [inbox] in Hc; try tauto.
        change (ocell σ1 dr [i; j]) with (ent Z σ1 dr i j). apply (Q2 i j o); [lia|lia|exact Ho].
      + cbn [lmode_code fst snd]. rewrite Ed. exists ς'.
        split; [reflexivity|]. split; [exact I|]. split; [discriminate|]. split; assumption. }
  destruct Hmain as (ς' & Es & He & Hnp & HR' & HRM').
  exists ς'. split; [apply (ZLin_hint ς 0 a b md refused ς' r Es He Hh Hnp)|]. split; assumption.
Qed.

Lemma sim_ZLin_matvec_dest σ ς a b (md : lmode) r0 refused da db dr σ' r : R σ ς -> RM σ ->
  md = LReuse r0 \/ md = LIncr r0 ->
  get_t σ a = Some da -> get_t σ b = Some db -> get_t σ r0 = Some dr ->
  d_old da = None -> d_old db = None -> d_old dr = None ->
  shp (d_ap dr) = lin_rshape 1 da db ->
  (md = LReuse r0 -> overlaps dr da = false /\ overlaps dr db = false) ->
  (md = LIncr r0 -> 1 < size (shp (d_ap dr))) ->
  zguard σ (ZLin 1 a b md refused) = GOk ->
  zstep_model σ (ZLin 1 a b md refused) = (σ', r) -> hintZ r refused = true ->
  exists ς', zstep_spec ς (ZLin 1 a b md refused) = Some (ς', r) /\ R σ' ς' /\ RM σ'.
Proof.
  intros HR HRM Hmd Ha Hb Hr Hoa Hob Hor Hshr Hsep Hbig Hg H Hh. pose proof HR as (φ & Hφ).
  destruct (zguard_ZLin σ 1 a b md refused da db Ha Hb Hg) as (La & Lb & Ld).
  assert (Lr : lin_ok dr = true) by (destruct Hmd as [-> | ->]; apply (Ld dr Hr)).
  destruct (lin_ok_plain σ a da HRM Ha La Hoa) as (Ga & Ca & Va).
  destruct (lin_ok_plain σ b db HRM Hb Lb Hob) as (Gb & Cb & Vb).
  destruct (lin_dest_facts σ r0 dr HRM Hr Lr Hor) as (Gr & Cr & Vr & Hcmr).
  destruct (R_tensor φ σ ς a da Hφ Ha) as (x & Hx & Wa & Sa & Lxa & Pa & _ & _).
  destruct (R_tensor φ σ ς b db Hφ Hb) as (y & Hy & Wb & Sb & Lxb & Pb & _ & _).
  destruct (R_tensor φ σ ς r0 dr Hφ Hr) as (xr & Hxr & Wr & Sr & Lxr & Pr & _ & _).
  destruct (HRM a da Ha) as [Hcma _].
  rewrite zstep_model_ZLin in H. change (1 =? 0) with false in H. change (1 =? 1) with true in H. cbv iota in H.
  assert (Hmain : exists ς', zstep_spec ς (ZLin 1 a b md 0) = Some (ς', r) /\
            (match r with RErr _ => ς' = ς | _ => True end) /\ r <> RPanic Z /\ R σ' ς' /\ RM σ').
  { rewrite (zstep_spec_ZLin ς 1 a b md x y Hx Hy). unfold lin_vals.
    change (1 =? 0) with false. change (1 =? 1) with true. cbv iota.
    unfold spec_matvec_vals. rewrite <- Sa, <- Sb.
    assert (Hrefuse : m_matvec Z 0 Z.add Z.mul σ a b md = (σ, LErr) ->
              exists ς', Some (ς, RErr Z) = Some (ς', r) /\ (match r with RErr _ => ς' = ς | _ => True end) /\
                         r <> RPanic Z /\ R σ' ς' /\ RM σ').
    { intro E. rewrite E in H. apply lres_err in H as [-> ->]. exists ς.
      split; [reflexivity|]. split; [reflexivity|]. split; [discriminate|]. split; assumption. }
    unfold lin_rshape in Hshr. change (1 =? 0) with false in Hshr. change (1 =? 1) with true in Hshr. cbv iota in Hshr.
    destruct (shp (d_ap da)) as [|m [|n [|e1 l1]]] eqn:Esa;
      try (apply Hrefuse; apply (m_matvec_refuse σ a b da db md Ha Hb); left; rewrite Esa; cbn [length]; lia).
    destruct (is_vector (shp (d_ap db))) eqn:Vy.
    2:{ cbn [negb orb]. apply Hrefuse. apply (m_matvec_refuse σ a b da db md Ha Hb). right. left. exact Vy. }
    rewrite <- Sb in Pb. destruct (is_vector_cases _ Pb Vy) as [Hvs Hvd]. cbn [negb orb].
    destruct (Z.eq_dec (size (shp (d_ap db))) n) as [En|Hne].
    2:{ replace (size (shp (d_ap db)) =? n) with false by lia. cbn [negb]. apply Hrefuse.
        apply (m_matvec_refuse σ a b da db md Ha Hb). right. right. rewrite Esa, Hvd.
        replace (znth 0 [m; n] 1) with n by reflexivity. exact Hne. }
    replace (size (shp (d_ap db)) =? n) with true by lia. cbn [negb].
    rewrite <- Sa in Pa. destruct (pos_shape2 _ _ Pa) as [Hm Hn].
    assert (Ma : mat_ok da m n).
    { left. destruct Ca as [Cs Cl]. rewrite Esa in Cs, Cl. cbn [calc_strides size] in Cs, Cl.
      replace (n * 1) with n in Cs by lia. unfold plain2. rewrite Esa, Cs.
      split; [exact Hoa|]. split; [reflexivity|]. split; [reflexivity|]. split; [exact Hcma|lia]. }
    pose proof Cb as [_ Clb]. rewrite En in Hvs, Clb.
    set (vs := map (fun i => fold_left Z.add (map (fun j => Z.mul (val_at Z 0 ς x [i; j]) (znth 0 (vec_vals Z 0 ς y) j))
                                                 (zseq 0 (Z.to_nat n))) 0) (zseq 0 (Z.to_nat m))).
    set (val := val1 Z 0 (fun i => mv_sum Z 0 Z.add Z.mul σ da db n i)).
    assert (Hlvs : length vs = Z.to_nat (size [m])).
    { unfold vs. rewrite map_length, APProofs.zseq_length. cbn [size]. f_equal. lia. }
    assert (Hval : forall c, inbox [m] c -> val c = nth (Z.to_nat (rank_rm [m] c)) vs 0).
    { intros c Hc. destruct (inbox1_inv m c Hc) as (i & -> & Hi). unfold val. cbn [val1].
      unfold rank_rm. cbn [rank_rm_acc]. replace (0 * m + i) with i by lia.
      unfold vs. rewrite (nth_map_lt _ 0 0) by (rewrite APProofs.zseq_length; lia).
      assert (Ei : nth (Z.to_nat i) (zseq 0 (Z.to_nat m)) 0 = i).
      { apply nth_error_nth_default. rewrite APProofs.zseq_nth_error by lia. f_equal. lia. }
      rewrite Ei. unfold mv_sum, vsum. f_equal. apply map_ext_in. intros j Hj. apply APProofs.zseq_In in Hj.
      rewrite <- sval_val_at.
      rewrite (R_entv φ σ ς a da x i j Hφ Ha Hx) by (rewrite <- Sa; cbn [inbox]; lia).
      rewrite (R_velt φ σ ς b db y j Hφ Hb Hy Cb) by lia.
      unfold vec_vals. rewrite znth_nth by lia. reflexivity. }
    assert (Hlr : d_len dr = m) by (destruct Cr as [_ Cl]; rewrite Cl, Hshr; cbn [size]; lia).
    fold vs.
    destruct Hmd as [-> | ->].
    - destruct (Hsep eq_refl) as [S1 S2].
      destruct (m_matvec_reuse Z 0 Z.add Z.mul σ a b r0 da db dr m n Ha Hb Hr Hm Hn Ma
                  (wf_in_buf σ da Wa) Hvs Clb (wf_in_buf σ db Wb) Hcmr Hlr (wf_in_buf σ dr Wr)
                  (not_overlaps_sep rowmajor rowmajor_new _ _ S1) (not_overlaps_sep rowmajor rowmajor_new _ _ S2))
        as (σ1 & Em & Q1 & Q2 & Q3 & Q4 & Q5 & Q6 & _ & Q7).
      rewrite Em in H. apply lres_same in H as [-> ->].
      destruct (sim_lin_reuse false σ ς σ1 a r0 dr [m] vs val (s_cm x) HR HRM Hr Hor Cr Vr Hcmr Hshr) as (ς' & Ed & HR' & HRM');
        [|exact Hlvs|exact Hval|].
      + split; [exact Q1|]. split; [|repeat split; assumption].
        intros c Hc. destruct (inbox1_inv m c Hc) as (i & -> & Hi).
        change (ocell σ1 (reshaped dr [m]) [i]) with (OpsProofs.cell Z σ1 (reshaped dr [m]) [i]).
        rewrite (Q2 i Hi). reflexivity.
      + cbn [lmode_code fst snd]. rewrite Ed. exists ς'.
        split; [reflexivity|]. split; [exact I|]. split; [discriminate|]. split; assumption.
    - assert (Hbig' : 1 < m) by (specialize (Hbig eq_refl); rewrite Hshr in Hbig; cbn [size] in Hbig; lia).
      assert (Or : owf σ dr) by (apply owf_of; [exact Wr|exact Gr|exact Hcmr|lia]).
      destruct (m_matvec_incr Z 0 Z.add Z.mul σ a b r0 da db dr m n Ha Hb Hr Hbig' Hn Ma
                  (wf_in_buf σ da Wa) Hvs Clb (wf_in_buf σ db Wb) Or Hshr)
        as (σ1 & Em & Q1 & Q2 & Q3 & Q4).
      rewrite Em in H. apply lres_same in H as [-> ->].
      destruct (sim_lin_incr true σ ς σ1 a r0 dr [m] vs val (s_cm x) HR HRM Hr Hor Cr Hshr) as (ς' & Ed & HR' & HRM');
        [|exact Hlvs|exact Hval|].
      + split; [exact Q1|]. split; [|split; assumption].
        intros c o Hc Ho. destruct (inbox1_inv m c Hc) as (i & -> & Hi).
        apply (Q2 i o Hi Ho).
      + cbn [lmode_code fst snd]. rewrite Ed. exists ς'.
        split; [reflexivity|]. split; [exact I|]. split; [discriminate|]. split; assumption. }
  destruct Hmain as (ς' & Es & He & Hnp & HR' & HRM').
  exists ς'. split; [apply (ZLin_hint ς 1 a b md refused ς' r Es He Hh Hnp)|]. split; assumption.
Qed.

Lemma sim_ZLin_outer_dest σ ς code a b (md : lmode) r0 refused da db dr σ' r : R σ ς -> RM σ ->
  code <> 0 -> code <> 1 -> md = LReuse r0 \/ md = LIncr r0 ->
  get_t σ a = Some da -> get_t σ b = Some db -> get_t σ r0 = Some dr ->
  d_old da = None -> d_old db = None -> d_old dr = None ->
  shp (d_ap dr) = lin_rshape code da db ->
  (md = LReuse r0 -> overlaps dr da = false /\ overlaps dr db = false) ->
  (md = LIncr r0 -> 1 < size (shp (d_ap dr))) ->
  zguard σ (ZLin code a b md refused) = GOk ->
  zstep_model σ (ZLin code a b md refused) = (σ', r) -> hintZ r refused = true ->
  exists ς', zstep_spec ς (ZLin code a b md refused) = Some (ς', r) /\ R σ' ς' /\ RM σ'.
Proof.
  intros HR HRM Hc0 Hc1 Hmd Ha Hb Hr Hoa Hob Hor Hshr Hsep Hbig Hg H Hh. pose proof HR as (φ & Hφ).
  destruct (zguard_ZLin σ code a b md refused da db Ha Hb Hg) as (La & Lb & Ld).
  assert (Lr : lin_ok dr = true) by (destruct Hmd as [-> | ->]; apply (Ld dr Hr)).
  destruct (lin_ok_plain σ a da HRM Ha La Hoa) as (Ga & Ca & Va).
  destruct (lin_ok_plain σ b db HRM Hb Lb Hob) as (Gb & Cb & Vb).
  destruct (lin_dest_facts σ r0 dr HRM Hr Lr Hor) as (Gr & Cr & Vr & Hcmr).
  destruct (R_tensor φ σ ς a da Hφ Ha) as (x & Hx & Wa & Sa & Lxa & Pa & _ & _).
  destruct (R_tensor φ σ ς b db Hφ Hb) as (y & Hy & Wb & Sb & Lxb & Pb & _ & _).
  destruct (R_tensor φ σ ς r0 dr Hφ Hr) as (xr & Hxr & Wr & Sr & Lxr & Pr & _ & _).
  destruct (HRM a da Ha) as [Hcma _].
  rewrite zstep_model_ZLin in H. replace (code =? 0) with false in H by lia. replace (code =? 1) with false in H by lia.
  assert (Hmain : exists ς', zstep_spec ς (ZLin code a b md 0) = Some (ς', r) /\
            (match r with RErr _ => ς' = ς | _ => True end) /\ r <> RPanic Z /\ R σ' ς' /\ RM σ').
  { rewrite (zstep_spec_ZLin ς code a b md x y Hx Hy). unfold lin_vals.
    replace (code =? 0) with false by lia. replace (code =? 1) with false by lia.
    unfold spec_outer_vals. rewrite <- Sa, <- Sb.
    assert (Hrefuse : m_outer Z 0 Z.add Z.mul σ a b md = (σ, LErr) ->
              exists ς', Some (ς, RErr Z) = Some (ς', r) /\ (match r with RErr _ => ς' = ς | _ => True end) /\
                         r <> RPanic Z /\ R σ' ς' /\ RM σ').
    { intro E. rewrite E in H. apply lres_err in H as [-> ->]. exists ς.
      split; [reflexivity|]. split; [reflexivity|]. split; [discriminate|]. split; assumption. }
    unfold lin_rshape in Hshr. replace (code =? 0) with false in Hshr by lia. replace (code =? 1) with false in Hshr by lia.
    destruct (is_vector (shp (d_ap da))) eqn:Vx.
    2:{ cbn [negb orb]. apply Hrefuse. apply (m_outer_not_vector Z 0 Z.add Z.mul σ a b da db md Ha Hb). left. exact Vx. }
    destruct (is_vector (shp (d_ap db))) eqn:Vy.
    2:{ cbn [negb orb]. apply Hrefuse. apply (m_outer_not_vector Z 0 Z.add Z.mul σ a b da db md Ha Hb). right. exact Vy. }
    cbn [negb orb].
    rewrite <- Sa in Pa. rewrite <- Sb in Pb.
    set (m := size (shp (d_ap da))) in *. set (n := size (shp (d_ap db))) in *.
    pose proof (size_pos _ Pa) as Hm. pose proof (size_pos _ Pb) as Hn. fold m in Hm. fold n in Hn.
    pose proof Ca as [_ Cla]. pose proof Cb as [_ Clb]. fold m in Cla. fold n in Clb.
    set (X := vec_vals Z 0 ς x). set (Y := vec_vals Z 0 ς y).
    assert (LX : length X = Z.to_nat m) by (unfold X, vec_vals; rewrite slogical_length, Lxa, <- Sa; reflexivity).
    assert (LY : length Y = Z.to_nat n) by (unfold Y, vec_vals; rewrite slogical_length, Lxb, <- Sb; reflexivity).
    assert (EX : zlen X = m) by (unfold zlen; lia). assert (EY : zlen Y = n) by (unfold zlen; lia).
    rewrite EX, EY.
    set (vs := flat_map (fun xi => map (fun yj => Z.mul xi yj) Y) X).
    set (val := val2 Z 0 (fun i j => outer_val Z 0 Z.add Z.mul σ da db i j)).
    assert (Pmn : pos_shape [m; n]) by (constructor; [lia|constructor; [lia|constructor]]).
    assert (Hlvs : length vs = Z.to_nat (size [m; n])).
    { unfold vs. rewrite (flat_map_length_const _ (length Y)) by (intro; apply map_length). cbn [size]. nia. }
    assert (Hval : forall c, inbox [m; n] c -> val c = nth (Z.to_nat (rank_rm [m; n] c)) vs 0).
    { intros c Hc. destruct c as [|i [|j [|e l]]]; cbn [inbox] in Hc; try tauto. unfold val. cbn [val2].
      unfold rank_rm. cbn [rank_rm_acc].
      replace (Z.to_nat ((0 * m + i) * n + j)) with (Z.to_nat i * length Y + Z.to_nat j)%nat by nia.
      unfold vs. rewrite (flat_map_nth Z.mul Y X) by lia. unfold outer_val.
      rewrite (R_velt φ σ ς a da x i Hφ Ha Hx Ca) by lia.
      rewrite (R_velt φ σ ς b db y j Hφ Hb Hy Cb) by lia. unfold X, Y, vec_vals. lia. }
    assert (Hlr : d_len dr = m * n) by (destruct Cr as [_ Cl]; rewrite Cl, Hshr; cbn [size]; lia).
    fold vs.
    destruct Hmd as [-> | ->].
    - destruct (Hsep eq_refl) as [S1 S2].
      destruct (m_outer_reuse Z 0 Z.add Z.mul σ a b r0 da db dr m n Ha Hb Hr Vx Vy eq_refl eq_refl Cla Clb Hm Hn
                  (wf_in_buf σ da Wa) (wf_in_buf σ db Wb) Hcmr Hlr (wf_in_buf σ dr Wr)
                  (not_overlaps_sep rowmajor rowmajor_new _ _ S1) (not_overlaps_sep rowmajor rowmajor_new _ _ S2))
        as (σ1 & Em & Q1 & _ & Q2 & Q3 & Q4 & Q5 & Q6 & _ & Q7).
      rewrite Em in H. apply lres_same in H as [-> ->].
      destruct (sim_lin_reuse false σ ς σ1 a r0 dr [m; n] vs val (s_cm x) HR HRM Hr Hor Cr Vr Hcmr Hshr) as (ς' & Ed & HR' & HRM');
        [|exact Hlvs|exact Hval|].
      + split; [exact Q1|]. split; [|repeat split; assumption].
        intros c Hc. destruct c as [|i [|j [|e l]]]; cbn [inbox] in Hc; try tauto.
        change (ocell σ1 (reshaped dr [m; n]) [i; j]) with (ent Z σ1 (reshaped dr [m; n]) i j).
        rewrite (Q2 i j) by lia. reflexivity.
      + cbn [lmode_code fst snd]. rewrite Ed. exists ς'.
        split; [reflexivity|]. split; [exact I|]. split; [discriminate|]. split; assumption.
    - assert (Hbig' : 1 < m * n) by (specialize (Hbig eq_refl); rewrite Hshr in Hbig; cbn [size] in Hbig; lia).
      assert (Or : owf σ dr) by (apply owf_of; [exact Wr|exact Gr|exact Hcmr|lia]).
      destruct (m_outer_incr Z 0 Z.add Z.mul σ a b r0 da db dr m n Ha Hb Hr Vx Vy Hcma eq_refl eq_refl Cla Clb Hm Hn Hbig'
                  (wf_in_buf σ da Wa) (wf_in_buf σ db Wb) Or Hshr)
        as (σ1 & Em & Q1 & Q2 & Q3 & Q4).
      rewrite Em in H. apply lres_same in H as [-> ->].
      destruct (sim_lin_incr true σ ς σ1 a r0 dr [m; n] vs val (s_cm x) HR HRM Hr Hor Cr Hshr) as (ς' & Ed & HR' & HRM');
        [|exact Hlvs|exact Hval|].
      + split; [exact Q1|]. split; [|split; assumption].
        intros c o Hc Ho. destruct c as [|i [|j [|e l]]]; cbn [inbox] in Hc; try tauto.
        change (ocell σ1 dr [i; j]) with (ent Z σ1 dr i j). apply (Q2 i j o); [lia|lia|exact Ho].
      + cbn [lmode_code fst snd]. rewrite Ed. exists ς'.
        split; [reflexivity|]. split; [exact I|]. split; [discriminate|]. split; assumption. }
  destruct Hmain as (ς' & Es & He & Hnp & HR' & HRM').
  exists ς'. split; [apply (ZLin_hint ς code a b md refused ς' r Es He Hh Hnp)|]. split; assumption.
Qed.

Lemma sim_ZLin_dest σ ς code a b (md : lmode) r0 refused da db dr σ' r : R σ ς -> RM σ ->
  md = LReuse r0 \/ md = LIncr r0 ->
  get_t σ a = Some da -> get_t σ b = Some db -> get_t σ r0 = Some dr ->
  d_old da = None -> d_old db = None -> d_old dr = None ->
  shp (d_ap dr) = lin_rshape code da db ->
  (md = LReuse r0 -> overlaps dr da = false /\ overlaps dr db = false) ->
  (md = LIncr r0 -> 1 < size (shp (d_ap dr))) ->
  zguard σ (ZLin code a b md refused) = GOk ->
  zstep_model σ (ZLin code a b md refused) = (σ', r) -> hintZ r refused = true ->
  exists ς', zstep_spec ς (ZLin code a b md refused) = Some (ς', r) /\ R σ' ς' /\ RM σ'.
Proof.
  intros HR HRM Hmd Ha Hb Hr Hoa Hob Hor Hshr Hsep Hbig Hg H Hh.
  destruct (Z.eq_dec code 0) as [->|Hc0]; [apply (sim_ZLin_matmul_dest σ ς a b md r0 refused da db dr σ' r); assumption|].
  destruct (Z.eq_dec code 1) as [->|Hc1]; [apply (sim_ZLin_matvec_dest σ ς a b md r0 refused da db dr σ' r); assumption|].
  apply (sim_ZLin_outer_dest σ ς code a b md r0 refused da db dr σ' r); assumption.
Qed.

(* what has to be added to zguard for a product step (MatMul / MatVecMul / Outer):
   - both operands exist                                                  PROOF (with the faithful hint 2 the SPEC
     panics too: ZInner_missing_operand_agrees)
   - nothing pending on the first operand                                 PROOF (safe mode: the SPEC gives the
     result pending = 2, which R cannot express)
   - nothing pending on the second operand                                PROOF (LinalgProofs.v covers lazily
     transposed matrix operands — lazyT2 — but R does not record that the pattern under a pending
     transpose is the contiguous one)
   - reuse / incr: the destination exists                                  PROOF (faithful hint 2)
       it has the documented result shape (lin_rshape), nothing pending     PROOF (zguard accepts any plain tensor;
         the engine then reshapes a reuse tensor — OReshape's business — and refuses an incr tensor of
         another shape)
       reuse: it does not overlap the operands                             PROOF (LinalgProofs.m_*_reuse ask for
         sep; the MODEL reads both windows before writing, so both sides agree: ZLin_reuse_alias_agrees)
       incr: more than one element                                         PROOF (OpsProofs.wf_dense: 1 < d_len) *)
Definition lin_extra (σ : store Z) (code : Z) (a b : nat) (m : lmode) : bool :=
  match get_t σ a, get_t σ b with
  | Some da, Some db =>
    negb (is_some (d_old da)) && negb (is_some (d_old db)) &&
    match m with
    | LSafe => true
    | LReuse r =>
      match get_t σ r with
      | Some dr => negb (is_some (d_old dr)) && list_eqb (shp (d_ap dr)) (lin_rshape code da db)
                   && negb (overlaps dr da) && negb (overlaps dr db)
      | None => false
      end
    | LIncr r =>
      match get_t σ r with
      | Some dr => negb (is_some (d_old dr)) && list_eqb (shp (d_ap dr)) (lin_rshape code da db)
                   && (1 <? size (shp (d_ap dr)))
      | None => false
      end
    end
  | _, _ => false
  end.

Lemma sim_ZLin σ ς code a b md refused σ' r : R σ ς -> RM σ ->
  zguard σ (ZLin code a b md refused) = GOk -> lin_extra σ code a b md = true ->
  zstep_model σ (ZLin code a b md refused) = (σ', r) -> hintZ r refused = true ->
  exists ς', zstep_spec ς (ZLin code a b md refused) = Some (ς', r) /\ R σ' ς' /\ RM σ'.
Proof.
  intros HR HRM Hg He H Hh. unfold lin_extra in He.
  destruct (get_t σ a) as [da|] eqn:Ha; [|discriminate He].
  destruct (get_t σ b) as [db|] eqn:Hb; [|discriminate He].
  apply andb_true_iff in He as [He Hm]. apply andb_true_iff in He as [E1 E2].
  apply old_none in E1. apply old_none in E2.
  destruct md as [|r0|r0].
  - apply (sim_ZLin_safe σ ς code a b refused da db σ' r HR HRM Ha Hb E1 E2 Hg H Hh).
  - destruct (get_t σ r0) as [dr|] eqn:Hr; [|discriminate Hm].
    apply andb_true_iff in Hm as [Hm O2]. apply andb_true_iff in Hm as [Hm O1]. apply andb_true_iff in Hm as [E3 E4].
    apply old_none in E3. apply list_eqb_true in E4. apply negb_true_iff in O1, O2.
    apply (sim_ZLin_dest σ ς code a b (LReuse r0) r0 refused da db dr σ' r HR HRM (or_introl eq_refl) Ha Hb Hr E1 E2 E3 E4);
      try assumption; [intros _; split; assumption|intro E; discriminate E].
  - destruct (get_t σ r0) as [dr|] eqn:Hr; [|discriminate Hm].
    apply andb_true_iff in Hm as [Hm O1]. apply andb_true_iff in Hm as [E3 E4].
    apply old_none in E3. apply list_eqb_true in E4.
    apply (sim_ZLin_dest σ ς code a b (LIncr r0) r0 refused da db dr σ' r HR HRM (or_intror eq_refl) Ha Hb Hr E1 E2 E3 E4);
      try assumption; [intro E; discriminate E|intros _; lia].
Qed.

(* ====================================================================================== *)
(*  8. ZTensorMul                                                                           *)
(* ====================================================================================== *)
(* RunZProofs.ztensormul_spec once more (same proof), exporting in addition that the result tensor is
   well formed in the final store — which the simulation relation needs *)
Lemma ztensormul_spec_wf σ ta tb a b axesA axesB :
  get_t σ ta = Some a -> get_t σ tb = Some b ->
  rm_tensor σ a -> rm_tensor σ b ->
  NoDup axesA -> NoDup axesB ->
  (forall x, In x axesA -> 0 <= x < Z.of_nat (length (shp (d_ap a)))) ->
  (forall x, In x axesB -> 0 <= x < Z.of_nat (length (shp (d_ap b)))) ->
  length axesA = length axesB ->
  exts (shp (d_ap a)) axesA = exts (shp (d_ap b)) axesB ->
  let na := length (shp (d_ap a)) in let nb := length (shp (d_ap b)) in
  let ka := exts (shp (d_ap a)) axesA in
  let ret1 := exts (shp (d_ap a)) (free_axes na axesA) in
  let ret2 := exts (shp (d_ap b)) (free_axes nb axesB) in
  exists σ' dp,
    ztensormul σ ta tb axesA axesB = (σ', RNew Z (length (tens σ))) /\
    tens σ' = tens σ ++ [dp] /\
    shp (d_ap dp) = match ret1 ++ ret2 with [] => [1] | s => s end /\
    str (d_ap dp) = calc_strides (shp (d_ap dp)) /\ d_old dp = None /\ d_view dp = false /\
    is_cm (ord (d_ap dp)) = false /\ d_buf dp = S (S (length (bufs σ))) /\ wf_dense σ' dp /\
    (forall q, (q < length (bufs σ))%nat -> get_buf σ' q = get_buf σ q) /\
    (forall ca cb, inbox ret1 ca -> inbox ret2 cb ->
       MemProofs.cell Z σ' dp (match ret1 ++ ret2 with [] => [0] | _ => ca ++ cb end) =
       Some (fold_left Z.add
               (map (fun kc => zat σ a (place_go 0 na axesA kc ca) * zat σ b (place_go 0 nb axesB kc cb))
                    (coords ka)) 0)).
Proof.
  intros Ha Hb Ra Rb NdA NdB HrA HrB Hlen Hk na nb ka ret1 ret2.
  destruct (tm_prepared σ ta tb a b axesA axesB Ha Hb Ra Rb NdA NdB HrA HrB Hlen Hk)
    as (Pr1 & Pka & Pr2 & σ1 & σ2 & σ3 & σ4 & da' & db' & C1 & C2 & PR1 & PR2 & Gda4 & Gdb4 & Pa' & Pb' & Ia' & Ib'
        & Lt4' & Lbuf4 & Told4 & Bold4 & CellA & CellB).
  fold na nb ka ret1 ret2 in Pr1, Pka, Pr2, C1, C2, PR1, PR2, Gda4, Gdb4, Pa', Pb', Lt4', Told4, CellA, CellB.
  set (fA := size ret1) in *. set (fB := size ret2) in *. set (n2 := size ka) in *.
  set (n := length (tens σ)) in *. set (nbuf := length (bufs σ)) in *.
  assert (HfA : 1 <= fA) by (apply size_pos; exact Pr1).
  assert (HfB : 1 <= fB) by (apply size_pos; exact Pr2).
  assert (Hn2 : 1 <= n2) by (apply size_pos; exact Pka).
  (* (iv) the product of the two prepared clones *)
  destruct (matmul_prepared σ4 n (S n) da' db' fA n2 fB Gda4 Gdb4 HfA Hn2 HfB Pa' Pb' Ia' Ib')
    as (σ5 & P & DOT & Tens5 & BP & RP & VP & LenP & EntP & Lb5 & Bold5).
  rewrite Lt4' in DOT.
  (* (v) the final reshape *)
  assert (GP5 : get_t σ5 (S (S n)) = Some P).
  { unfold Mem.get_t. rewrite Tens5, <- Lt4'. apply nth_error_app_last. }
  destruct (rm_tensor_wf σ5 P RP) as [WP CtP].
  pose proof RP as (PosP & StP & LenP' & OldP & CmP & _).
  set (retShape := match ret1 ++ ret2 with [] => [1] | s => s end).
  assert (PosRet : pos_shape retShape).
  { unfold retShape. destruct (ret1 ++ ret2) eqn:Er; [constructor; [apply Z.le_refl|constructor]|].
    rewrite <- Er. apply pos_shape_app. split; assumption. }
  assert (SzRet : size retShape = fA * fB).
  { unfold retShape. destruct (ret1 ++ ret2) eqn:Er.
    - pose proof (size_app ret1 ret2) as Hs. rewrite Er in Hs. fold fA fB in Hs. cbn [size] in Hs |- *.
      clear - Hs. lia.
    - rewrite <- Er. apply size_app. }
  destruct (reshape_spec Z σ5 (S (S n)) P retShape GP5 WP OldP VP CmP CtP PosRet)
    as (dp & RS & Edp & Bufs6 & Gdp & Wdp & Ctdp & CellP).
  { rewrite SzRet, <- LenP', LenP. reflexivity. }
  set (σ6 := set_t σ5 (S (S n)) dp) in *.
  (* assemble *)
  exists (mkStore Z (bufs σ6) (firstn n (tens σ6) ++ [dp])), dp.
  assert (Hfirst : firstn n (tens σ6) = tens σ).
  { apply firstn_eq_of_nth; [reflexivity|]. intros t Ht.
    change (get_t σ6 t = get_t σ t). unfold σ6. rewrite get_t_set_t_other by (clear - Ht; lia).
    unfold Mem.get_t at 1. rewrite Tens5. rewrite nth_error_app1 by (rewrite Lt4'; clear - Ht; lia).
    apply Told4. exact Ht. }
  split.
  { apply (ztensormul_chain σ ta tb axesA axesB a b σ1 σ2 σ3 σ4 σ5 σ6 n (S n) (S (S n)) dp Ha Hb Hlen HrA HrB Hk);
      fold na nb ka n2 ret1 ret2; try assumption. clear - Hn2. lia. }
  split; [cbn [tens]; rewrite Hfirst; reflexivity|].
  assert (Fdp : shp (d_ap dp) = retShape /\ str (d_ap dp) = calc_strides retShape /\ d_old dp = None /\
                d_view dp = false /\ is_cm (ord (d_ap dp)) = false /\ d_buf dp = S (S nbuf)).
  { rewrite Edp. cbn [d_buf d_old d_view d_ap shp str ord]. repeat split; try assumption. rewrite BP. exact Lbuf4. }
  destruct Fdp as (Sdp & Stdp & Odp & Vdp & Cdp & Bdp).
  split; [exact Sdp|]. split; [rewrite Sdp; exact Stdp|]. split; [exact Odp|]. split; [exact Vdp|].
  split; [exact Cdp|]. split; [exact Bdp|]. split; [exact Wdp|].
  split.
  { intros q Hq. fold nbuf in Hq. change (get_buf σ5 q = get_buf σ q).
    rewrite Bold5 by (rewrite Lbuf4; clear - Hq; lia). apply Bold4. exact Hq. }
  (* the entries *)
  intros ca cb Hca Hcb.
  pose proof (rk_bound ret1 ca Pr1 Hca) as Ri. pose proof (rk_bound ret2 cb Pr2 Hcb) as Rj.
  fold fA in Ri. fold fB in Rj.
  set (i := rk ret1 ca) in *. set (j := rk ret2 cb) in *.
  assert (Hq : 0 <= i * fB + j < size retShape) by (rewrite SzRet; clear - Ri Rj; nia).
  assert (Hcc : unrank retShape (i * fB + j) = match ret1 ++ ret2 with [] => [0] | _ => ca ++ cb end).
  { unfold retShape. destruct (ret1 ++ ret2) eqn:Er.
    - apply app_eq_nil in Er as [E1 E2]. unfold i, j, fB. rewrite E1, E2. destruct ca, cb; reflexivity.
    - rewrite <- Er. unfold i, j, fB. rewrite unrank_app by assumption.
      rewrite !unrank_rk by assumption. reflexivity. }
  rewrite <- Hcc.
  match goal with |- _ = ?R => change (MemProofs.cell Z σ6 dp (unrank retShape (i * fB + j)) = R) end.
  rewrite (CellP _ Hq).
  rewrite contig_flat by (try assumption; rewrite <- LenP', LenP, <- SzRet; exact Hq).
  rewrite (EntP i j Ri Rj). f_equal.
  unfold zmm_sum, mm_sum, vsum, coords. fold n2. rewrite map_map. f_equal.
  apply map_ext_in. intros l Hl. apply zseq_In in Hl.
  assert (Hl' : 0 <= l < n2) by (clear - Hl Hn2; lia).
  pose proof (unrank_inbox ka l Pka Hl') as Bkc.
  pose proof (rk_unrank ka l Pka Hl') as Rkl.
  f_equal.
  - unfold entv, ent, zat. f_equal.
    change (MemProofs.cell Z σ4 da' [i; l] = MemProofs.cell Z σ a (place_go 0 na axesA (unrank ka l) ca)).
    rewrite <- Rkl at 1. apply CellA; assumption.
  - unfold entv, ent, zat. f_equal.
    change (MemProofs.cell Z σ4 db' [l; j] = MemProofs.cell Z σ b (place_go 0 nb axesB (unrank ka l) cb)).
    rewrite <- Rkl at 1. apply CellB; assumption.
Qed.

Lemma place_go_inbox_A sh axes kc ca : NoDup axes ->
  (forall x, In x axes -> 0 <= x < Z.of_nat (length sh)) ->
  inbox (exts sh (free_axes (length sh) axes)) ca -> inbox (exts sh axes) kc ->
  inbox sh (place_go 0 (length sh) axes kc ca).
Proof.
  intros Hnd Hr Hca Hkc.
  assert (Lca : length ca = length (free_axes (length sh) axes)).
  { rewrite (inbox_length _ _ Hca). unfold exts. apply map_length. }
  assert (Lkc : length kc = length axes).
  { rewrite (inbox_length _ _ Hkc). unfold exts. apply map_length. }
  rewrite <- (unpermute_place_A (length sh) axes kc ca Hnd Hr Lca Lkc).
  apply (inbox_permute_unpermute _ (length sh) (free_perm_l (length sh) axes Hnd Hr) sh (ca ++ kc) eq_refl).
  - rewrite app_length, Lca, Lkc. apply (free_axes_length (length sh) axes Hnd Hr).
  - unfold permute. rewrite map_app. fold (exts sh (free_axes (length sh) axes)). fold (exts sh axes).
    apply ReduceProofs.inbox_app; [rewrite Lca; unfold exts; rewrite map_length; reflexivity|]. split; assumption.
Qed.

Lemma place_go_inbox_B sh axes kc cb : NoDup axes ->
  (forall x, In x axes -> 0 <= x < Z.of_nat (length sh)) ->
  inbox (exts sh axes) kc -> inbox (exts sh (free_axes (length sh) axes)) cb ->
  inbox sh (place_go 0 (length sh) axes kc cb).
Proof.
  intros Hnd Hr Hkc Hcb.
  assert (Lcb : length cb = length (free_axes (length sh) axes)).
  { rewrite (inbox_length _ _ Hcb). unfold exts. apply map_length. }
  assert (Lkc : length kc = length axes).
  { rewrite (inbox_length _ _ Hkc). unfold exts. apply map_length. }
  rewrite <- (unpermute_place_B (length sh) axes kc cb Hnd Hr Lcb Lkc).
  apply (inbox_permute_unpermute _ (length sh) (free_perm_r (length sh) axes Hnd Hr) sh (kc ++ cb) eq_refl).
  - rewrite app_length, Lcb, Lkc. pose proof (free_axes_length (length sh) axes Hnd Hr). lia.
  - unfold permute. rewrite map_app. fold (exts sh (free_axes (length sh) axes)). fold (exts sh axes).
    apply ReduceProofs.inbox_app; [rewrite Lkc; unfold exts; rewrite map_length; reflexivity|]. split; assumption.
Qed.

Definition tm_ok (d : dense) : bool :=
  match guard_read d with GOk => true | _ => false end &&
  negb (is_cm (ord (d_ap d))) && negb (d_view d || is_some (d_old d)).

Lemma zguard_ZTensorMul σ a b axesA axesB refused da db : get_t σ a = Some da -> get_t σ b = Some db ->
  zguard σ (ZTensorMul a b axesA axesB refused) = GOk -> tm_ok da = true /\ tm_ok db = true.
Proof.
  intros Ha Hb H. unfold zguard in H. cbn [flat_map] in H. rewrite Ha, Hb in H. cbn [app] in H.
  destruct (filter (fun d => match guard_read d with GOk => false | _ => true end) [da; db]) as [|d0 l0] eqn:Ef.
  - destruct (existsb (fun d => is_cm (ord (d_ap d))) [da; db]) eqn:E1; [discriminate H|].
    destruct (existsb (fun d => d_view d || is_some (d_old d)) [da; db]) eqn:E2; [discriminate H|].
    assert (Hall : forall d, In d [da; db] -> tm_ok d = true).
    { intros d Hd. unfold tm_ok. pose proof (filter_nil_all _ _ Ef d Hd) as G. cbv beta in G.
      pose proof (existsb_false _ _ E1 d Hd) as V1. pose proof (existsb_false _ _ E2 d Hd) as V2. cbv beta in V1, V2.
      rewrite V1, V2. destruct (guard_read d); (reflexivity || discriminate G). }
    split; apply Hall; [left|right; left]; reflexivity.
  - exfalso. assert (Hin : In d0 (filter (fun d => match guard_read d with GOk => false | _ => true end) [da; db]))
      by (rewrite Ef; left; reflexivity).
    apply filter_In in Hin as [_ Hin]. destruct (guard_read d0); (discriminate Hin || discriminate H).
Qed.

(* what has to be added to zguard for a TensorMul step:
   - both operands exist                                                  GAP  (as ZUn_zguard_gap: the SPEC is silent,
     the hint is not used)
   - the axes are axes of the operands                                    GAP  ZTensorMul_zguard_gap: an axis out of
     range is a Go index panic where the SPEC refuses
   - ... without repeats                                                  PROOF (RunZProofs.ztensormul_spec asks for it;
     the SPEC refuses repeated axes and so does the library on the example of zextra3_proof_restrictions)
   - a plain operand does not carry the non-contiguous bit                 PROOF *)
Definition axes_in (sh axes : list Z) : bool :=
  forallb (fun i => (0 <=? i) && (i <? zlen sh)) axes && nodup_z axes.

Definition tm_extra (σ : store Z) (a b : nat) (axesA axesB : list Z) : bool :=
  match get_t σ a, get_t σ b with
  | Some da, Some db =>
    axes_in (shp (d_ap da)) axesA && axes_in (shp (d_ap db)) axesB
    && negb (is_nc (ord (d_ap da))) && negb (is_nc (ord (d_ap db)))
  | _, _ => false
  end.

Lemma axes_in_ok sh axes : axes_in sh axes = true ->
  NoDup axes /\ (forall x, In x axes -> 0 <= x < Z.of_nat (length sh)) /\
  forallb (fun i => (0 <=? i) && (i <? zlen sh)) axes = true /\ nodup_z axes = true.
Proof.
  unfold axes_in. intro H. apply andb_true_iff in H as [H1 H2].
  split; [apply nodup_z_NoDup; exact H2|]. split; [|split; assumption].
  intros x Hx. rewrite forallb_forall in H1. specialize (H1 x Hx). unfold zlen in H1. lia.
Qed.

Definition Rphi_wf (σ : store Z) (t : nat) (d : dense) : Prop := get_t σ t = Some d /\ wf_dense σ d.

Lemma tm_ok_rm σ t d : Rphi_wf σ t d -> tm_ok d = true -> is_nc (ord (d_ap d)) = false -> rm_tensor σ d /\ d_old d = None.
Proof.
  intros (Ht & W) H Hnc. unfold tm_ok in H. apply andb_true_iff in H as [H H3]. apply andb_true_iff in H as [H1 H2].
  destruct (guard_read d) eqn:G; try discriminate H1. apply negb_true_iff in H2, H3.
  apply orb_false_iff in H3 as [Hv Ho]. assert (Ho' : d_old d = None) by (destruct (d_old d); [discriminate Ho|reflexivity]).
  split; [|exact Ho'].
  pose proof (guard_read_contig d G H2 (requires_iterator_plain d G Hnc Ho')) as [Cs Cl].
  destruct W as ((W0 & W1 & W2) & (Hp & _) & _).
  unfold rm_tensor. repeat split; assumption.
Qed.

Lemma zstep_spec_ZTensorMul ς a b axesA axesB refused x y : sget ς a = Some x -> sget ς b = Some y ->
  zstep_spec ς (ZTensorMul a b axesA axesB refused)
  = match spec_tensormul_vals Z 0 Z.add Z.mul ς x y axesA axesB with
    | None => Some (ς, RErr Z)
    | Some (sh, vs) => spec_vals_deliver ς a sh (map (fun v => Some v) vs) (0, O) false
    end.
Proof. intros Hx Hy. unfold zstep_spec. rewrite Hx, Hy. reflexivity. Qed.

Lemma ztensormul_len_refuse σ ta tb a b axesA axesB : get_t σ ta = Some a -> get_t σ tb = Some b ->
  length axesA <> length axesB -> ztensormul σ ta tb axesA axesB = (σ, RErr Z).
Proof.
  intros Ha Hb Hn. unfold ztensormul. rewrite Ha, Hb.
  replace (length axesA =? length axesB)%nat with false by (symmetry; apply Nat.eqb_neq; exact Hn). reflexivity.
Qed.

Lemma ztensormul_ext_refuse σ ta tb a b axesA axesB : get_t σ ta = Some a -> get_t σ tb = Some b ->
  length axesA = length axesB ->
  forallb (fun i => (0 <=? i) && (i <? zlen (shp (d_ap a)))) axesA = true ->
  forallb (fun i => (0 <=? i) && (i <? zlen (shp (d_ap b)))) axesB = true ->
  list_eqb (exts (shp (d_ap a)) axesA) (exts (shp (d_ap b)) axesB) = false ->
  ztensormul σ ta tb axesA axesB = (σ, RErr Z).
Proof.
  intros Ha Hb Hl HA HB He. unfold ztensormul. rewrite Ha, Hb.
  replace (length axesA =? length axesB)%nat with true by (symmetry; apply Nat.eqb_eq; exact Hl). cbn [negb].
  rewrite HA, HB. cbn [negb orb]. unfold exts in He. rewrite He. reflexivity.
Qed.

Lemma rsh_facts (s : list Z) : pos_shape s ->
  pos_shape (match s with [] => [1] | _ :: _ => s end) /\
  size (match s with [] => [1] | _ :: _ => s end) = size s.
Proof. intro H. destruct s as [|e l]; [split; [apply pos_shape1; lia|reflexivity]|split; [exact H|reflexivity]]. Qed.

Lemma sim_ZTensorMul σ ς a b axesA axesB refused σ' r : R σ ς -> RM σ ->
  zguard σ (ZTensorMul a b axesA axesB refused) = GOk -> tm_extra σ a b axesA axesB = true ->
  zstep_model σ (ZTensorMul a b axesA axesB refused) = (σ', r) ->
  exists ς', zstep_spec ς (ZTensorMul a b axesA axesB refused) = Some (ς', r) /\ R σ' ς' /\ RM σ'.
Proof.
  intros HR HRM Hg He H. pose proof HR as (φ & Hφ).
  unfold tm_extra in He. destruct (get_t σ a) as [da|] eqn:Ha; [|discriminate He].
  destruct (get_t σ b) as [db|] eqn:Hb; [|discriminate He].
  apply andb_true_iff in He as [He Hncb]. apply andb_true_iff in He as [He Hnca].
  apply andb_true_iff in He as [HinA HinB]. apply negb_true_iff in Hnca, Hncb.
  destruct (axes_in_ok _ _ HinA) as (NdA & RA & FA & NA). destruct (axes_in_ok _ _ HinB) as (NdB & RB & FB & NB).
  destruct (zguard_ZTensorMul σ a b axesA axesB refused da db Ha Hb Hg) as [Ta Tb].
  destruct (R_tensor φ σ ς a da Hφ Ha) as (x & Hx & Wa & Sa & Lxa & Pa & Hpa & Hca).
  destruct (R_tensor φ σ ς b db Hφ Hb) as (y & Hy & Wb & Sb & Lxb & Pb & _ & Hcb).
  destruct (tm_ok_rm σ a da (conj Ha Wa) Ta Hnca) as [Ra Hoa].
  destruct (tm_ok_rm σ b db (conj Hb Wb) Tb Hncb) as [Rb Hob].
  specialize (Hpa Hoa).
  change (zstep_model σ (ZTensorMul a b axesA axesB refused)) with (ztensormul σ a b axesA axesB) in H.
  rewrite (zstep_spec_ZTensorMul ς a b axesA axesB refused x y Hx Hy).
  unfold spec_tensormul_vals. rewrite <- Sa, <- Sb.
  change (Z.of_nat (length (shp (d_ap da)))) with (zlen (shp (d_ap da))).
  change (Z.of_nat (length (shp (d_ap db)))) with (zlen (shp (d_ap db))).
  rewrite FA, NA, FB, NB. cbn [andb negb orb].
  destruct (Nat.eq_dec (length axesA) (length axesB)) as [El|Nl].
  2:{ replace (length axesA =? length axesB)%nat with false by (symmetry; apply Nat.eqb_neq; exact Nl). cbn [negb].
      rewrite (ztensormul_len_refuse σ a b da db axesA axesB Ha Hb Nl) in H. injection H as <- <-. exists ς. auto. }
  replace (length axesA =? length axesB)%nat with true by (symmetry; apply Nat.eqb_eq; exact El). cbn [negb].
  fold (exts (shp (d_ap da)) axesA). fold (exts (shp (d_ap db)) axesB).
  destruct (list_eqb (exts (shp (d_ap da)) axesA) (exts (shp (d_ap db)) axesB)) eqn:Ek.
  2:{ cbn [negb]. rewrite (ztensormul_ext_refuse σ a b da db axesA axesB Ha Hb El FA FB Ek) in H.
      injection H as <- <-. exists ς. auto. }
  cbn [negb]. apply list_eqb_true in Ek.
  set (na := length (shp (d_ap da))) in *. set (nb := length (shp (d_ap db))) in *.
  fold (free_axes na axesA). fold (free_axes nb axesB).
  fold (exts (shp (d_ap da)) (free_axes na axesA)). fold (exts (shp (d_ap db)) (free_axes nb axesB)).
  set (ka := exts (shp (d_ap da)) axesA) in *.
  set (ret1 := exts (shp (d_ap da)) (free_axes na axesA)). set (ret2 := exts (shp (d_ap db)) (free_axes nb axesB)).
  destruct (ztensormul_spec_wf σ a b da db axesA axesB Ha Hb Ra Rb NdA NdB RA RB El Ek)
    as (σ1 & dp & Em & Ht & Sdp & Stdp & Odp & Vdp & Cdp & Bdp & Wdp & Hold & Hcells).
  fold na nb ka ret1 ret2 in Sdp, Hcells.
  rewrite Em in H. injection H as <- <-.
  set (F := fun c => fold_left Z.add
              (map (fun kc => Z.mul (val_at Z 0 ς x (place_go 0 na axesA kc (firstn (length ret1) c)))
                                    (val_at Z 0 ς y (place_go 0 nb axesB kc (skipn (length ret1) c))))
                   (coords ka)) 0).
  set (rsh := match ret1 ++ ret2 with [] => [1] | _ :: _ => ret1 ++ ret2 end) in *.
  assert (Sdp' : shp (d_ap dp) = rsh) by (rewrite Sdp; unfold rsh; destruct (ret1 ++ ret2); reflexivity).
  clear Sdp. rename Sdp' into Sdp.
  set (vs := map F (coords (ret1 ++ ret2))).
  (* positivity of the extents *)
  assert (Pka : pos_shape ka /\ pos_shape ret1 /\ pos_shape ret2).
  { destruct (tm_prepared σ a b da db axesA axesB Ha Hb Ra Rb NdA NdB RA RB El Ek) as (P1 & P2 & P3 & _). auto. }
  destruct Pka as (Pka & Pr1 & Pr2).
  assert (Pr12 : pos_shape (ret1 ++ ret2)) by (apply ShapeopsProofs.pos_shape_app; split; assumption).
  destruct (rsh_facts (ret1 ++ ret2) Pr12) as [Prsh Hsz]. fold rsh in Prsh, Hsz.
  (* the values *)
  assert (Hvals : forall c, inbox rsh c -> mcell σ1 dp c = Some (nth (Z.to_nat (rank_rm rsh c)) vs 0)).
  { intros c Hc.
    assert (Hcase : ret1 ++ ret2 = [] \/ exists e l, ret1 ++ ret2 = e :: l)
      by (destruct (ret1 ++ ret2); [left; reflexivity|right; eauto]).
    destruct Hcase as [E|(e & l & E)].
    - assert (Ersh : rsh = [1]) by (unfold rsh; rewrite E; reflexivity). rewrite Ersh in Hc |- *.
      pose proof E as E'. apply app_eq_nil in E' as [E1 E2].
      destruct (inbox1_inv 1 c Hc) as (i & -> & Hi). assert (i = 0) by lia. subst i.
      pose proof (Hcells [] []) as Hc0. rewrite E in Hc0. rewrite E1 in Hc0 at 1. rewrite E2 in Hc0 at 1.
      rewrite (Hc0 I I). f_equal. unfold vs. rewrite E. rewrite coords_nil. cbn [map].
      unfold rank_rm. cbn [rank_rm_acc]. change (Z.to_nat (0 * 1 + 0)) with O. cbn [nth]. unfold F.
      rewrite E1. cbn [length firstn skipn]. f_equal. apply map_ext_in. intros kc Hkc.
      apply (MemProofs.coords_In _ _ Pka) in Hkc. unfold zat, optv.
      rewrite (Hca (place_go 0 na axesA kc [])), (Hcb (place_go 0 nb axesB kc [])); [reflexivity| |].
      + rewrite <- Sb. apply place_go_inbox_B; [exact NdB|exact RB|rewrite <- Ek; exact Hkc|fold nb; fold ret2; rewrite E2; exact I].
      + rewrite <- Sa. apply place_go_inbox_A; [exact NdA|exact RA|fold na; fold ret1; rewrite E1; exact I|exact Hkc].
    - assert (Ersh : rsh = ret1 ++ ret2) by (unfold rsh; rewrite E; reflexivity). rewrite Ersh in Hc |- *.
      destruct (ReduceProofs.inbox_app_inv ret1 ret2 c Hc) as (c1 & c2 & -> & L1 & B1 & B2).
      pose proof (Hcells c1 c2 B1 B2) as Hc0. rewrite E in Hc0. rewrite Hc0. f_equal.
      unfold vs. rewrite (nth_map_coords F 0 (ret1 ++ ret2) (c1 ++ c2) Pr12 Hc). unfold F.
      rewrite <- L1, LinalgProofs.firstn_app_exact, skipn_app, skipn_all, Nat.sub_diag. cbn [skipn app].
      f_equal. apply map_ext_in. intros kc Hkc. apply (MemProofs.coords_In _ _ Pka) in Hkc. unfold zat, optv.
      rewrite (Hca (place_go 0 na axesA kc c1)), (Hcb (place_go 0 nb axesB kc c2)); [reflexivity| |].
      + rewrite <- Sb. apply place_go_inbox_B; [exact NdB|exact RB|rewrite <- Ek; exact Hkc|exact B2].
      + rewrite <- Sa. apply place_go_inbox_A; [exact NdA|exact RA|exact B1|exact Hkc]. }
  assert (Hlv : length vs = Z.to_nat (size (shp (d_ap dp)))).
  { unfold vs. rewrite map_length, MemProofs.coords_length. rewrite Sdp, Hsz. reflexivity. }
  destruct (Rphi_fresh φ σ ς σ1 dp vs false Hφ Hold Ht ltac:(lia) Wdp Vdp Odp Hlv) as (φ' & Hφ').
  { intros c Hc. rewrite <- (MemProofs.cell_bget Z σ1 dp c Wdp Hc). rewrite Sdp in Hc |- *. apply Hvals. exact Hc. }
  fold vs. fold rsh. rewrite (spec_deliver_safe ς a x rsh vs false Hx Hpa).
  pose proof Hφ as (Hlen & _). rewrite <- Hlen. eexists. split; [reflexivity|]. split.
  - exists φ'. rewrite Sdp in Hφ'. exact Hφ'.
  - intros t d Hd. unfold Mem.get_t in Hd. rewrite Ht in Hd.
    apply nth_error_app_snoc in Hd as [[_ Hd]|[_ ->]]; [apply (HRM t d Hd)|].
    split; [exact Cdp|]. intros o Eo. congruence.
Qed.

(* ====================================================================================== *)
(*  one step of the enlarged fragment; histories                                           *)
(* ====================================================================================== *)
Definition zin_new (o : zop) : bool :=
  match o with
  | ZReduce _ _ _ _ | ZArg _ _ _ _ | ZInner _ _ _ | ZTrace _ _ => true
  | ZConcat _ _ _ | ZStack _ _ _ | ZRepeat _ _ _ | ZTensorMul _ _ _ _ _ => true
  | ZLin _ _ _ _ _ => true
  | _ => false
  end.

Definition zin_fragment3 (o : zop) : bool := zin_fragment o || zin_new o.

(* the hint fields are faithful *)
Definition zhint_ok (σ : store Z) (o : zop) : bool :=
  match o with
  | ZReduce _ _ _ refused | ZArg _ _ _ refused => hintB (snd (zstep_model σ o)) refused
  | ZInner _ _ refused | ZTrace _ refused | ZLin _ _ _ _ refused => hintZ (snd (zstep_model σ o)) refused
  | _ => true
  end.

(* what has to be added to zguard, operation by operation.  For every clause: a restriction of the PROOF
   (both sides agree without it: zextra3_proof_restrictions, ZInner_missing_operand_agrees) or a real
   GAP of the guard (with a vm_compute counterexample <op>_zguard_gap after the theorems):
   - every operation with a hint field: the hint is faithful (zhint_ok: 0 / false when the MODEL
     succeeds, "refused" when it refuses)
   - ZReduce    reduce_extra: axes a set of axes of the tensor (GAP ZReduce_zguard_gap); nothing pending,
                no non-contiguous bit on a plain operand (PROOF)
   - ZArg       arg_extra: not a strided (n,1)/(1,n) vector along its long axis (GAP ZArg_zguard_gap, equal
                outcomes and different contents); axis in range; nothing pending, flat form over a window of
                exactly the size (PROOF)
   - ZInner     both operands exist (PROOF); ZTrace: nothing
   - ZLin       lin_extra: operands / destination exist, nothing pending, destination of the result shape,
                reuse destination apart from the operands, incr destination of more than one cell (PROOF)
   - ZConcat    concat_extra: 0 <= axis (GAP ZConcat_zguard_gap); operands exist (GAP, as ZUn_zguard_gap);
                nothing pending on the receiver, windows > 1, vector operands contiguous (PROOF)
   - ZStack     stack_extra: 0 <= axis (GAP ZStack_zguard_gap); operands exist; nothing pending on the
                receiver, windows > 1 (PROOF)
   - ZRepeat    repeat_extra: counts >= 0 and axis >= -1 (GAP ZRepeat_zguard_gap); 0 <= axis < rank,
                contiguous operand, window > 1 (PROOF)
   - ZTensorMul tm_extra: axes in range (GAP ZTensorMul_zguard_gap); operands exist; no repeated axes, no
                non-contiguous bit (PROOF)
   - the operations of RefineProofs2.v: zextra_ok *)
Definition zextra3 (σ : store Z) (o : zop) : bool :=
  zhint_ok σ o &&
  match o with
  | ZReduce _ a axes _ => reduce_extra σ a axes
  | ZArg _ a axis _ => arg_extra σ a axis
  | ZInner a b _ => is_some (get_t σ a) && is_some (get_t σ b)
  | ZLin code a b m _ => lin_extra σ code a b m
  | ZConcat t axis others => concat_extra σ t axis others
  | ZStack t axis others => stack_extra σ t axis others
  | ZRepeat t axis reps => repeat_extra σ t axis reps
  | ZTensorMul a b axesA axesB _ => tm_extra σ a b axesA axesB
  | ZTrace _ _ => true
  | _ => zextra_ok σ o
  end.

Lemma zin_fragment3_spec o :
  zin_fragment3 o = zin_fragment o ||
    match o with
    | ZReduce _ _ _ _ | ZArg _ _ _ _ | ZInner _ _ _ | ZTrace _ _ | ZLin _ _ _ _ _ | ZTensorMul _ _ _ _ _
    | ZRepeat _ _ _ | ZConcat _ _ _ | ZStack _ _ _ => true
    | _ => false
    end.
Proof. destruct o; reflexivity. Qed.

Lemma zin_new_not_old o : zin_new o = true -> zin_fragment o = false.
Proof. destruct o; cbn [zin_new zin_fragment]; congruence. Qed.

Theorem zstep_sim3 σ ς o σ' r : R σ ς -> RM σ -> zin_fragment3 o = true ->
  zguard σ o = GOk -> zextra3 σ o = true ->
  zstep_model σ o = (σ', r) ->
  exists ς', zstep_spec ς o = Some (ς', r) /\ R σ' ς' /\ RM σ'.
Proof.
  intros HR HRM Hf Hg He H. unfold zextra3 in He. apply andb_true_iff in He as [Hh He].
  destruct (zin_new o) eqn:En.
  - assert (Hr : snd (zstep_model σ o) = r) by (rewrite H; reflexivity).
    destruct o; try discriminate En; cbn [zhint_ok] in Hh; try rewrite Hr in Hh.
    + apply (sim_ZReduce σ ς code a axes refused σ' r HR HRM Hg He H Hh).
    + apply (sim_ZArg σ ς code a axis refused σ' r HR HRM Hg He H Hh).
    + apply (sim_ZStack σ ς t axis others σ' r HR HRM Hg He H).
    + apply (sim_ZConcat σ ς t axis others σ' r HR HRM Hg He H).
    + apply (sim_ZRepeat σ ς t axis reps σ' r HR HRM Hg He H).
    + apply (sim_ZLin σ ς code a b m refused σ' r HR HRM Hg He H Hh).
    + apply andb_true_iff in He as [E1 E2].
      destruct (get_t σ a) as [da|] eqn:Ha; [|discriminate E1].
      destruct (get_t σ b) as [db|] eqn:Hb; [|discriminate E2].
      apply (sim_ZInner σ ς a b refused da db σ' r HR HRM Ha Hb Hg H Hh).
    + apply (sim_ZTrace σ ς a refused σ' r HR HRM Hg H Hh).
    + apply (sim_ZTensorMul σ ς a b axesA axesB refused σ' r HR HRM Hg He H).
  - unfold zin_fragment3 in Hf. rewrite En, orb_false_r in Hf.
    assert (He' : zextra_ok σ o = true) by (destruct o; try discriminate En; try discriminate Hf; exact He).
    apply (zstep_sim σ ς o σ' r HR HRM Hf Hg He' H).
Qed.

(* every step's guard, evaluated on the model state reached so far *)
Fixpoint zguards_ok3 (σ : store Z) (ops : list zop) : Prop :=
  match ops with
  | [] => True
  | o :: rest => zguard σ o = GOk /\ zextra3 σ o = true /\ zguards_ok3 (fst (zstep_model σ o)) rest
  end.

Fixpoint zextra3_trace (σ : store Z) (ops : list zop) : list bool :=
  match ops with
  | [] => []
  | o :: rest => zextra3 σ o :: zextra3_trace (fst (zstep_model σ o)) rest
  end.

Lemma zguards_ok3_firstn k : forall ops σ, zguards_ok3 σ ops -> zguards_ok3 σ (firstn k ops).
Proof.
  induction k as [|k IH]; intros [|o ops] σ H; cbn [firstn zguards_ok3]; auto.
  destruct H as (H1 & H2 & H3). auto.
Qed.

Lemma zhistory_sim3 : forall ops σ ς, R σ ς -> RM σ -> forallb zin_fragment3 ops = true -> zguards_ok3 σ ops ->
  exists ς', zrun_spec ops ς = Some (ς', snd (zrun_model ops σ)) /\ R (fst (zrun_model ops σ)) ς' /\
             RM (fst (zrun_model ops σ)).
Proof.
  induction ops as [|o ops IH]; intros σ ς HR HRM Hf Hg.
  - exists ς. split; [reflexivity|]. split; [exact HR|exact HRM].
  - cbn [forallb] in Hf. apply andb_true_iff in Hf as [Hf1 Hf2].
    destruct Hg as (Hg1 & Hg2 & Hg3).
    cbn [zrun_model zrun_spec]. destruct (zstep_model σ o) as [σ1 r] eqn:Es.
    destruct (zstep_sim3 σ ς o σ1 r HR HRM Hf1 Hg1 Hg2 Es) as (ς1 & E1 & HR1 & HRM1).
    rewrite E1. cbn [fst] in Hg3. destruct (IH σ1 ς1 HR1 HRM1 Hf2 Hg3) as (ς2 & E2 & HR2 & HRM2).
    rewrite E2. destruct (zrun_model ops σ1) as [σ2 rs]. cbn [fst snd] in *.
    exists ς2. split; [reflexivity|]. split; [exact HR2|exact HRM2].
Qed.

(* MODEL and SPEC, run side by side from the empty state over a history of the enlarged fragment
   whose guards all hold: after EVERY step (= for every prefix) the SPEC is defined, the outcomes
   are the same, and every tensor has the same shape and the same logical contents *)
Theorem zhistory_refines3 : forall ops,
  forallb zin_fragment3 ops = true -> zguards_ok3 (empty_store Z) ops ->
  forall k,
    let pre := firstn k ops in
    let σ := fst (zrun_model pre (empty_store Z)) in
    exists ς, zrun_spec pre (empty_sstate Z) = Some (ς, snd (zrun_model pre (empty_store Z))) /\
      ntens_model Z σ = ntens_spec Z ς /\
      (forall t d x, get_t σ t = Some d -> sget ς t = Some x ->
         shp (d_ap d) = s_shape x /\ logical Z σ t = map Ok (slogical ς x)) /\
      (forall t, fst (fst (fst (fst (fst (fst (obs_model Z σ t))))))
                 = (fst (obs_spec Z 0 ς t), map Ok (snd (obs_spec Z 0 ς t)))).
Proof.
  intros ops Hf Hg k pre σ.
  destruct (zhistory_sim3 pre (empty_store Z) (empty_sstate Z) (R_empty Z 0) (RM_empty Z)
              (forallb_firstn _ k ops Hf) (zguards_ok3_firstn k ops _ Hg)) as (ς & E & HR & _).
  fold σ in HR. exists ς. split; [exact E|]. split; [|split].
  - destruct HR as (φ & Hl & _). exact Hl.
  - intros t d x Ht Hx. apply (R_obs Z 0 σ ς t d x HR Ht Hx).
  - intro t. unfold obs_model, obs_spec.
    destruct (get_t σ t) as [d|] eqn:Ht.
    + destruct HR as (φ & Hφ). destruct (get_sget Z 0 φ σ ς t d Hφ Ht) as [x Hx]. rewrite Hx.
      destruct (R_obs Z 0 σ ς t d x (ex_intro _ φ Hφ) Ht Hx) as [Hs Hlg]. cbn [fst snd]. congruence.
    + destruct (sget ς t) as [x|] eqn:Hx; [|reflexivity].
      destruct HR as (φ & Hl & _). apply nth_error_Some_lt in Hx. apply nth_error_None in Ht. lia.
Qed.

(* ====================================================================================== *)
(*  where zguard = GOk is not enough for the new operations                                *)
(* ====================================================================================== *)
(* ZArg along an axis: a REAL gap.  A strided (n,1) column-vector view reduced along its long axis:
   argmaxDenseTensor transposes the access pattern, and AP.T overwrites the strides of a vector
   with [1;1] (ReduceProofs.arg_vec_guard, finding of C08).  All guards GOk, all outcomes equal; the
   result holds index 1 (the raw neighbour 100) where the SPEC says 2.  Extra guard (arg_extra): the
   operand is not a vector, or the axis is the last one, or the strides are the default ones. *)
Example ZArg_zguard_gap :
  let ops := [ZBase (ONew Z 0 [12; 1] [5; 100; 0; 0; 6; 0; 0; 0; 7; 0; 0; 0]);
              ZBase (OSlice Z 0 [Some (0, 12, 4)] [3; 1]); ZArg 0 1 0 false] in
  let σ := fst (zrun_model ops (empty_store Z)) in
  zguard_trace (empty_store Z) ops = [GOk; GOk; GOk] /\
  zextra3_trace (empty_store Z) ops = [true; true; false] /\
  match zrun_spec ops (empty_sstate Z) with
  | Some (ς, outs) =>
    outs = snd (zrun_model ops (empty_store Z)) /\
    logical Z σ 1%nat = map Ok [5; 6; 7] /\ obs_spec Z 0 ς 1%nat = ([3; 1], [5; 6; 7]) /\
    logical Z σ 2%nat = map Ok [1] /\ obs_spec Z 0 ς 2%nat = ([1], [2])
  | None => False
  end.
Proof. vm_compute. repeat split. Qed.

(* ZReduce: axes that are no axes of the tensor.  reduce() only COUNTS the axes for its all-axes
   shortcut: Sum along [7;8] of a matrix folds everything (C08_bad_axes_accepted_refuted); the SPEC
   speaks about sets of axes of the tensor only.  Extra guard (reduce_extra): in range, no repeats. *)
Example ZReduce_zguard_gap :
  let ops := [ZBase (ONew Z 0 [2; 3] [1; 2; 3; 4; 5; 6]); ZReduce 0 0 [7; 8] false] in
  zguard_trace (empty_store Z) ops = [GOk; GOk] /\ zextra3_trace (empty_store Z) ops = [true; false] /\
  snd (zrun_model ops (empty_store Z)) = [RNew Z 0; RNew Z 1] /\
  logical Z (fst (zrun_model ops (empty_store Z))) 1%nat = map Ok [21] /\
  zrun_spec ops (empty_sstate Z) = None.
Proof. vm_compute. repeat split. Qed.

(* ZConcat along axis -1: Shape.Concat normalises AllAxes to 0, denseConcat then slices with the
   raw -1 and panics; the SPEC refuses (an error).  Extra guard (concat_extra): 0 <= axis. *)
Example ZConcat_zguard_gap :
  let ops := [ZBase (ONew Z 0 [2; 2] [1; 2; 3; 4]); ZBase (ONew Z 0 [2; 2] [5; 6; 7; 8]); ZConcat 0 (-1) [1%nat]] in
  zguard_trace (empty_store Z) ops = [GOk; GOk; GOk] /\ zextra3_trace (empty_store Z) ops = [true; true; false] /\
  snd (zrun_model ops (empty_store Z)) = [RNew Z 0; RNew Z 1; RPanic Z] /\
  option_map snd (zrun_spec ops (empty_sstate Z)) = Some [RNew Z 0; RNew Z 1; RErr Z].
Proof. vm_compute. repeat split. Qed.

(* ZStack along a negative axis: StackDense panics (slice bounds) where the SPEC refuses *)
Example ZStack_zguard_gap :
  let ops := [ZBase (ONew Z 0 [2; 2] [1; 2; 3; 4]); ZBase (ONew Z 0 [2; 2] [5; 6; 7; 8]); ZStack 0 (-1) [1%nat]] in
  zguard_trace (empty_store Z) ops = [GOk; GOk; GOk] /\ zextra3_trace (empty_store Z) ops = [true; true; false] /\
  snd (zrun_model ops (empty_store Z)) = [RNew Z 0; RNew Z 1; RPanic Z] /\
  option_map snd (zrun_spec ops (empty_sstate Z)) = Some [RNew Z 0; RNew Z 1; RErr Z].
Proof. vm_compute. repeat split. Qed.

(* ZRepeat with a negative repeat count: Shape.Repeat only SUMS the counts ([3;-1] -> extent 2), the
   copy loop then delivers a result; the SPEC (NumPy) refuses.  Likewise an axis below -1 panics where
   the SPEC refuses.  Extra guard (repeat_extra): counts >= 0, 0 <= axis. *)
Example ZRepeat_zguard_gap :
  let ops := [ZBase (ONew Z 0 [2; 2] [1; 2; 3; 4]); ZRepeat 0 0 [3; -1]; ZRepeat 0 (-2) [2]] in
  zguard_trace (empty_store Z) ops = [GOk; GOk; GOk] /\ zextra3_trace (empty_store Z) ops = [true; false; false] /\
  snd (zrun_model ops (empty_store Z)) = [RNew Z 0; RNew Z 1; RPanic Z] /\
  option_map snd (zrun_spec ops (empty_sstate Z)) = Some [RNew Z 0; RErr Z; RErr Z].
Proof. vm_compute. repeat split. Qed.

(* ZTensorMul with an axis out of range: ts[axesA[i]] is a Go index panic where the SPEC refuses *)
Example ZTensorMul_zguard_gap :
  let ops := [ZBase (ONew Z 0 [2; 3] [1; 2; 3; 4; 5; 6]); ZBase (ONew Z 0 [3; 2] [1; 0; 0; 1; 2; 2]);
              ZTensorMul 0 1 [5] [0] 0] in
  zguard_trace (empty_store Z) ops = [GOk; GOk; GOk] /\ zextra3_trace (empty_store Z) ops = [true; true; false] /\
  snd (zrun_model ops (empty_store Z)) = [RNew Z 0; RNew Z 1; RPanic Z] /\
  option_map snd (zrun_spec ops (empty_sstate Z)) = Some [RNew Z 0; RNew Z 1; RErr Z].
Proof. vm_compute. repeat split. Qed.

(* the remaining clauses of zextra3 are restrictions of the PROOF: on these histories (a reuse
   destination that IS the first operand; a lazily transposed second operand of MatMul; a reduction
   and an arg-reduction of a lazily transposed tensor; repeated contraction axes) zextra3 fails and
   both sides agree, outcomes and contents *)
Example zextra3_proof_restrictions :
  let agree ops :=
    let σ := fst (zrun_model ops (empty_store Z)) in
    forallb (fun g => match g with GOk => true | _ => false end) (zguard_trace (empty_store Z) ops) = true /\
    forallb (fun b => b) (zextra3_trace (empty_store Z) ops) = false /\
    match zrun_spec ops (empty_sstate Z) with
    | Some (ς, outs) =>
      outs = snd (zrun_model ops (empty_store Z)) /\
      forall t, In t [0; 1; 2]%nat -> logical Z σ t = map Ok (snd (obs_spec Z 0 ς t))
    | None => False
    end in
  agree [ZBase (ONew Z 0 [2; 2] [1; 2; 3; 4]); ZBase (ONew Z 0 [2; 2] [0; 1; 1; 0]); ZLin 0 0 1 (LReuse 0) 0] /\
  agree [ZBase (ONew Z 0 [2; 3] [1; 2; 3; 4; 5; 6]); ZBase (ONew Z 0 [2; 3] [1; 0; 0; 1; 2; 2]); ZBase (OT Z 1 []);
         ZLin 0 0 1 LSafe 0] /\
  agree [ZBase (ONew Z 0 [2; 3] [1; 2; 3; 4; 5; 6]); ZBase (OT Z 0 []); ZReduce 0 0 [0] false; ZArg 0 0 1 false] /\
  agree [ZBase (ONew Z 0 [2; 3] [1; 2; 3; 4; 5; 6]); ZBase (ONew Z 0 [3; 2] [1; 0; 0; 1; 2; 2]);
         ZTensorMul 0 1 [1; 1] [0; 0] 0].
Proof.
  vm_compute. repeat split; intros t Ht; repeat (destruct Ht as [<-|Ht]; [reflexivity|]); destruct Ht.
Qed.

(* a product over a tensor index that does not exist: the implementation panics; with the faithful
   hint (2) the SPEC says so too — the existence clauses of zextra3 for ZInner / ZLin are restrictions
   of the PROOF *)
Example ZInner_missing_operand_agrees :
  let ops := [ZBase (ONew Z 0 [2] [1; 2]); ZInner 0 5 2; ZLin 0 0 5 LSafe 2] in
  zguard_trace (empty_store Z) ops = [GOk; GOk; GOk] /\ zextra3_trace (empty_store Z) ops = [true; false; false] /\
  snd (zrun_model ops (empty_store Z)) = [RNew Z 0; RPanic Z; RPanic Z] /\
  option_map snd (zrun_spec ops (empty_sstate Z)) = Some [RNew Z 0; RPanic Z; RPanic Z].
Proof. vm_compute. repeat split. Qed.
