(* Ops.v — MODEL of the engine glue for elementwise operations:
   defaultengine_prep.go (handleFuncOpts, prepDataVV/VS/SV/Unary), the three generated StdEng
   templates (defaultengine_arith.go VV + Scalar, defaultengine_cmp.go VV + Scalar,
   defaultengine_unary.go), defaultengine_minmax.go, and the dispatch of internal/execution E
   (eng_arith.go, eng_cmp.go, eng_unary.go) down to the loop schemas of the generated kernels.
   The scalar operation is a parameter.  No proofs here. *)
From TV Require Import Base Index AP Iter Mem.

Section Ops.
Variable V : Type.
Variable vzero : V.
Variable vone : V.
Variable vadd : V -> V -> V.          (* the element type's own +, used by the += of incr kernels *)

Notation store := (store V).
Notation get_t := (get_t V).
Notation win_get := (win_get V).
Notation win_set := (win_set V).
Notation cap_get := (cap_get V).
Notation cap_set := (cap_set V).

(* the scalar operation of a kernel; None = the integer zero-divisor branch
   (errs = append(errs, i); dest = 0; continue) *)
Inductive cres := CV (v : V) | CZero | CPanic.
Definition cellf := V -> V -> cres.

(* ---- the loop schemas as lists of assignments executed in order ---- *)
Inductive src := SLen (d : dense) (i : Z)     (* x[i] on a slice of the window's length *)
               | SCap (d : dense) (i : Z)     (* x[i] after a reslice x[:n] (bounded by capacity) *)
               | SConst (v : V).

Definition rd (σ : store) (s : src) : option V :=
  match s with
  | SLen d i => win_get σ d i
  | SCap d i => cap_get σ d i
  | SConst v => Some v
  end.

Record asg := mkAsg {
  a_dst : dense; a_cap : bool;      (* destination slice, indexed within len or within cap *)
  a_k : Z;                          (* index written *)
  a_kz : Z;                         (* index zeroed on a zero divisor *)
  a_x : src; a_y : src;
  a_acc : bool                      (* dst[k] += ... instead of dst[k] = ... *)
}.

Definition wr (σ : store) (d : dense) (cap : bool) (k : Z) (v : V) : option store :=
  if cap then cap_set σ d k v else win_set σ d k v.
Definition rdd (σ : store) (d : dense) (cap : bool) (k : Z) : option V :=
  if cap then cap_get σ d k else win_get σ d k.

Fixpoint run_asgs (g : cellf) (σ : store) (l : list asg) (err : bool) : option (store * bool) :=
  match l with
  | [] => Some (σ, err)
  | a :: r =>
    match rd σ (a_x a), rd σ (a_y a) with
    | Some x, Some y =>
      match g x y with
      | CPanic => None
      | CV v =>
        let v' := if a_acc a
                  then match rdd σ (a_dst a) (a_cap a) (a_k a) with Some o => Some (vadd o v) | None => None end
                  else Some v in
        match v' with
        | None => None
        | Some w => match wr σ (a_dst a) (a_cap a) (a_k a) w with
                    | Some σ' => run_asgs g σ' r err
                    | None => None
                    end
        end
      | CZero =>
        match wr σ (a_dst a) (a_cap a) (a_kz a) vzero with
        | Some σ' => run_asgs g σ' r true
        | None => None
        end
      end
    | _, _ => None
    end
  end.

(* the generated dispatch drops the error value of some kernels (plain call instead of
   `err = ...` / `return ...`) *)
Definition drop_err (r : option (store * bool)) : option (store * bool) :=
  match r with Some (σ, _) => Some (σ, false) | None => None end.

Definition wlen (d : dense) : Z := d_len d.
Definition wcap (σ : store) (d : dense) : Z := zlen (get_buf V σ (d_buf d)) - d_off d.
Definition idxs (n : Z) : list Z := zseq 0 (Z.to_nat n).

(* Vec<Op>(a, b): a = a[:]; b = b[:len(a)]; for i := range a { a[i] = a[i] op b[i] } *)
Definition k_vec (σ : store) (a b : dense) : option (list asg) :=
  if wcap σ b <? wlen a then None
  else Some (map (fun i => mkAsg a false i i (SLen a i) (SCap b i) false) (idxs (wlen a))).
(* <Op>SV(a, b): for i := range b { b[i] = a op b[i] } *)
Definition k_sv (s : V) (b : dense) : list asg :=
  map (fun i => mkAsg b false i i (SConst s) (SLen b i) false) (idxs (wlen b)).
(* <Op>VS(a, b): for i := range a { a[i] = a[i] op b } *)
Definition k_vs (a : dense) (s : V) : list asg :=
  map (fun i => mkAsg a false i i (SLen a i) (SConst s) false) (idxs (wlen a)).
(* <Op>Incr(a, b, incr): b = b[:len(a)]; incr = incr[:len(a)]; for i := range incr { incr[i] += a[i] op b[i] } *)
Definition k_incr (σ : store) (a b inc : dense) : option (list asg) :=
  if (wcap σ b <? wlen a) || (wcap σ inc <? wlen a) then None
  else Some (map (fun i => mkAsg inc true i i (SLen a i) (SCap b i) true) (idxs (wlen a))).
Definition k_incr_sv (s : V) (b inc : dense) : list asg :=
  map (fun i => mkAsg inc false i i (SConst s) (SLen b i) true) (idxs (wlen inc)).
Definition k_incr_vs (a : dense) (s : V) (inc : dense) : list asg :=
  map (fun i => mkAsg inc false i i (SLen a i) (SConst s) true) (idxs (wlen inc)).
(* <Op>Recv(a, b, recv): a = a[:len(recv)]; b = b[:len(recv)]; for i := range recv { recv[i] = a[i] op b[i] } *)
Definition k_recv (σ : store) (a b recv : dense) : option (list asg) :=
  if (wcap σ a <? wlen recv) || (wcap σ b <? wlen recv) then None
  else Some (map (fun i => mkAsg recv false i i (SCap a i) (SCap b i) false) (idxs (wlen recv))).

(* iterator schemas: index sequences come from the operands' iterators; the loop ends when either
   is exhausted *)
Fixpoint zip2 (a b : list Z) : list (Z * Z) :=
  match a, b with x :: a', y :: b' => (x, y) :: zip2 a' b' | _, _ => [] end.
Fixpoint zip3 (a b c : list Z) : list (Z * Z * Z) :=
  match a, b, c with x :: a', y :: b', z :: c' => (x, y, z) :: zip3 a' b' c' | _, _, _ => [] end.

Definition k_iter (a b : dense) (ai bi : list Z) : list asg :=
  map (fun p => mkAsg a false (fst p) (fst p) (SLen a (fst p)) (SLen b (snd p)) false) (zip2 ai bi).
Definition k_iter_sv (s : V) (b : dense) (bi : list Z) : list asg :=
  map (fun i => mkAsg b false i i (SConst s) (SLen b i) false) bi.
Definition k_iter_vs (a : dense) (s : V) (ai : list Z) : list asg :=
  map (fun i => mkAsg a false i i (SLen a i) (SConst s) false) ai.
(* <Op>IterIncr: incr[k] += a[i] op b[j]; the zero-divisor branch of the generated integer
   kernels writes incr[i] (the index of the FIRST operand), not incr[k] *)
Definition k_iter_incr (a b inc : dense) (ai bi ii : list Z) : list asg :=
  map (fun p => let '(i, j, k) := p in mkAsg inc false k i (SLen a i) (SLen b j) true) (zip3 ai bi ii).
Definition k_iter_incr_sv (s : V) (b inc : dense) (bi ii : list Z) : list asg :=
  map (fun p => mkAsg inc false (snd p) (fst p) (SConst s) (SLen b (fst p)) true) (zip2 bi ii).
Definition k_iter_incr_vs (a : dense) (s : V) (inc : dense) (ai ii : list Z) : list asg :=
  map (fun p => mkAsg inc false (snd p) (fst p) (SLen a (fst p)) (SConst s) true) (zip2 ai ii).

(* ---- internal/execution E dispatch (isScalar = typed length 1) ---- *)
Definition isS (d : dense) : bool := d_len d =? 1.
Definition hd0 (σ : store) (d : dense) : option V := win_get σ d 0.

Definition run_opt (g : cellf) (σ : store) (l : option (list asg)) : option (store * bool) :=
  match l with Some l => run_asgs g σ l false | None => None end.

(* E.<Op>(t, a, b) *)
Definition e_plain (g : cellf) (σ : store) (a b : dense) : option (store * bool) :=
  if isS a && negb (isS b) then
    match hd0 σ a with Some s => run_asgs g σ (k_sv s b) false | None => None end
  else if negb (isS a) && isS b then
    match hd0 σ b with Some s => run_asgs g σ (k_vs a s) false | None => None end
  else if isS a && isS b then drop_err (run_opt g σ (k_vec σ a b))
  else run_opt g σ (k_vec σ a b).

(* E.<Op>Iter(t, a, b, ait, bit): every kernel error is dropped *)
Definition e_iter (g : cellf) (σ : store) (a b : dense) (ai bi : list Z) : option (store * bool) :=
  drop_err
  (if isS a && isS b then run_opt g σ (k_vec σ a b)
  else if isS a then
    match hd0 σ a with Some s => run_asgs g σ (k_iter_sv s b bi) false | None => None end
  else if isS b then
    match hd0 σ b with Some s => run_asgs g σ (k_iter_vs a s ai) false | None => None end
  else run_asgs g σ (k_iter a b ai bi) false).

Definition gadd : cellf := fun x y => CV (vadd x y).

(* E.<Op>Incr(t, a, b, incr): Some (σ, kernel error) | None = panic; the first bool of the result
   is the refusal "Cannot increment on scalar increment" *)
Definition e_incr (g : cellf) (σ : store) (a b inc : dense) : option (store * bool) * bool :=
  if ((isS a && negb (isS b)) || (isS b && negb (isS a))) && isS inc then (Some (σ, false), true)
  else
    (if isS a && isS b then
       match drop_err (run_opt g σ (k_vec σ a b)) with
       | Some (σ1, e1) =>
         if negb (isS inc) then
           (* return e.Add(t, incr, a) *)
           match e_plain gadd σ1 inc a with Some (σ2, e2) => Some (σ2, e1 || e2) | None => None end
         else
           match hd0 σ1 a, hd0 σ1 inc with
           | Some x, Some o => match win_set σ1 inc 0 (vadd o x) with Some σ2 => Some (σ2, e1) | None => None end
           | _, _ => None
           end
       | None => None
       end
     else if isS a then
       drop_err (match hd0 σ a with Some s => run_asgs g σ (k_incr_sv s b inc) false | None => None end)
     else if isS b then
       drop_err (match hd0 σ b with Some s => run_asgs g σ (k_incr_vs a s inc) false | None => None end)
     else drop_err (run_opt g σ (k_incr σ a b inc)), false).

(* E.<Op>IterIncr *)
Definition e_iter_incr (g : cellf) (σ : store) (a b inc : dense) (ai bi ii : list Z)
  : option (store * bool) * bool :=
  if ((isS a && negb (isS b)) || (isS b && negb (isS a))) && isS inc then (Some (σ, false), true)
  else
    (if isS a && isS b then
       match drop_err (run_opt g σ (k_vec σ a b)) with
       | Some (σ1, e1) =>
         if negb (isS inc) then
           (* return e.<Op>Iter(t, incr, a, iit, ait)  -- the operation itself, not Add *)
           match e_iter g σ1 inc a ii ai with Some (σ2, e2) => Some (σ2, e1 || e2) | None => None end
         else
           match hd0 σ1 a, hd0 σ1 inc with
           | Some x, Some o => match win_set σ1 inc 0 (vadd o x) with Some σ2 => Some (σ2, e1) | None => None end
           | _, _ => None
           end
       | None => None
       end
     else if isS a then
       match hd0 σ a with Some s => run_asgs g σ (k_iter_incr_sv s b inc bi ii) false | None => None end
     else if isS b then
       match hd0 σ b with Some s => run_asgs g σ (k_iter_incr_vs a s inc ai ii) false | None => None end
     else run_asgs g σ (k_iter_incr a b inc ai bi ii) false, false).

(* E.<Op>Recv(t, a, b, recv): always the VV receive kernel *)
Definition e_recv (g : cellf) (σ : store) (a b recv : dense) : option (store * bool) * bool :=
  if ((isS a && negb (isS b)) || (isS b && negb (isS a))) && isS recv then (Some (σ, false), true)
  else (drop_err (run_opt g σ (k_recv σ a b recv)), false).

(* ---- defaultengine_prep.go ---- *)
Inductive mode := MSafe | MUnsafe | MReuse (r : nat) | MIncr (r : nat).

Inductive oresult := OOk (t : nat) | OErrR | OPanicR.   (* returned tensor / error / panic *)

Definition all_iter (d : dense) : option (list Z) := iter_all (d_ap d).

(* handleFuncOpts for a reuse / incr tensor: size check, Reshape when the shapes differ (it
   mutates the reuse tensor), and for a plain reuse the data-order FLAG is copied over
   (toggleColMajor) without touching the strides.  Returns the updated store or an error. *)
Definition handle_reuse (σ : store) (r : nat) (expShape : list Z) (o : Z) (incr : bool)
  : res store :=
  match get_t σ r with
  | None => Panic
  | Some d =>
    if negb (d_len d =? size expShape) && negb (is_scalar expShape) then Err else
    let step1 :=
      if shape_eq (shp (d_ap d)) expShape then Ok (σ, false)
      else m_reshape V σ r expShape in
    match step1 with
    | Ok (σ1, true) => Err                      (* the reshape was refused (state may be touched) *)
    | Ok (σ1, false) =>
      if incr then Ok σ1 else
      match get_t σ1 r with
      | None => Panic
      | Some d1 =>
        if has_same_order o (ord (d_ap d1)) then Ok σ1
        else let a := d_ap d1 in
             Ok (set_t V σ1 r (with_ap d1 (mkAP (shp a) (str a) (Z.lxor (ord a) CM) (fin a))))
      end
    | Err => Err
    | Panic => Panic
    end
  end.

Definition opt_reuse (m : mode) : option (nat * bool) :=
  match m with MReuse r => Some (r, false) | MIncr r => Some (r, true) | _ => None end.

(* a fresh row-major tensor of the given shape (NewDense(dt, shape.Clone())) *)
Definition new_dense (σ : store) (sh : list Z) : store * nat * dense :=
  let n := if is_scalar sh then 1 else size sh in
  let '(σ1, b) := add_buf V σ (repeat vzero (Z.to_nat n)) in
  let d := mkDense b 0 n (mkAP sh (calc_strides sh) 0 true) None false in
  let '(σ2, t) := add_t V σ1 d in
  (σ2, t, d).

(* Clone as used by the engine (retVal = a.Clone()) *)
Definition clone_of (σ : store) (t : nat) : res (store * nat) := m_clone V σ t.

(* an engine-internal clone: a fresh allocation, never handed to the caller *)
Definition clone_tmp (σ : store) (d : dense) : store * dense :=
  let '(σ1, b) := add_buf V σ (window V σ d) in
  (σ1, mkDense b 0 (d_len d) (d_ap d) (d_old d) false).

Definition finish (r : option (store * bool)) (σ0 : store) (ret : nat) : store * oresult :=
  match r with
  | Some (σ', false) => (σ', OOk ret)
  | Some (σ', true) => (σ', OErrR)
  | None => (σ0, OPanicR)
  end.
(* safe mode: the clone becomes a live tensor only when the operation succeeds *)
Definition finish_new (r : option (store * bool)) (σ0 : store) (d : dense) : store * oresult :=
  match r with
  | Some (σ', false) => let '(σ'', t) := add_t V σ' d in (σ'', OOk t)
  | Some (σ', true) => (σ', OErrR)
  | None => (σ0, OPanicR)
  end.

Definition finish2 (r : option (store * bool) * bool) (σ0 : store) (ret : nat) : store * oresult :=
  if snd r then (match fst r with Some (σ', _) => (σ', OErrR) | None => (σ0, OErrR) end)
  else finish (fst r) σ0 ret.

(* storage.CopyIter(dst, src, diter, siter) / storage.Copy(dst, src) *)
Definition copy_iter_idx (σ : store) (dst src : dense) (di si : list Z) : option store :=
  copy_seq V σ dst src di si.
Definition copy_hdr (σ : store) (dst src : dense) : option store :=
  match copy_raw V σ dst src with Ok σ' => Some σ' | _ => None end.

(* ---- StdEng.<Op>(a, b, opts...)  (defaultengine_arith.go, tensor-tensor) ---- *)
Definition eng_arith_vv (g : cellf) (σ : store) (ta tb : nat) (m : mode) : store * oresult :=
  match get_t σ ta, get_t σ tb with
  | Some a, Some b =>
    if negb (shape_eq (shp (d_ap a)) (shp (d_ap b))) then (σ, OErrR) else
    let hr := match opt_reuse m with
              | Some (r, incr) => match handle_reuse σ r (shp (d_ap a)) (ord (d_ap a)) incr with
                                  | Ok σ1 => Ok (σ1, Some r)
                                  | Err => Err
                                  | Panic => Panic
                                  end
              | None => Ok (σ, None)
              end in
    match hr with
    | Err => (σ, OErrR)
    | Panic => (σ, OPanicR)
    | Ok (σ1, ro) =>
      (* operands are re-read: the reuse tensor may be one of them *)
      match get_t σ1 ta, get_t σ1 tb with
      | Some a, Some b =>
        let rd := match ro with Some r => get_t σ1 r | None => None end in
        let useIter :=
          requires_iterator a || requires_iterator b
          || match rd with Some r => requires_iterator r | None => false end
          || negb (has_same_order (ord (d_ap a)) (ord (d_ap b)))
          || match rd with
             | Some r => negb (has_same_order (ord (d_ap a)) (ord (d_ap r)))
                         || negb (has_same_order (ord (d_ap b)) (ord (d_ap r)))
             | None => false
             end in
        if useIter then
          match all_iter a, all_iter b with
          | Some ai, Some bi =>
            match m, ro, rd with
            | MIncr _, Some r, Some rdn =>
              match all_iter rdn with
              | Some ii => finish2 (e_iter_incr g σ1 a b rdn ai bi ii) σ1 r
              | None => (σ1, OPanicR)
              end
            | MReuse _, Some r, Some rdn =>
              match all_iter rdn with
              | Some ii =>
                match copy_iter_idx σ1 rdn a ii ai with
                | Some σ2 => finish (e_iter g σ2 rdn b ii bi) σ2 r
                | None => (σ1, OPanicR)
                end
              | None => (σ1, OPanicR)
              end
            | MUnsafe, _, _ => finish (e_iter g σ1 a b ai bi) σ1 ta
            | _, _, _ =>
              let '(σ2, rt) := clone_tmp σ1 (match get_t σ1 ta with Some x => x | None => a end) in finish_new (e_iter g σ2 rt b ai bi) σ2 rt
            end
          | _, _ => (σ1, OPanicR)
          end
        else
          match m, ro, rd with
          | MIncr _, Some r, Some rdn => finish2 (e_incr g σ1 a b rdn) σ1 r
          | MReuse _, Some r, Some rdn => finish2 (e_recv g σ1 a b rdn) σ1 r
          | MUnsafe, _, _ => finish (e_plain g σ1 a b) σ1 ta
          | _, _, _ =>
            let '(σ2, rt) := clone_tmp σ1 (match get_t σ1 ta with Some x => x | None => a end) in finish_new (e_plain g σ2 rt b) σ2 rt
          end
      | _, _ => (σ1, OPanicR)
      end
    end
  | _, _ => (σ, OPanicR)
  end.

(* ---- StdEng.<Op>Scalar(t, s, leftTensor, opts...) with a Go scalar s ---- *)
(* the scalar lives in a one-element header of its own (scalarToHeader: fresh allocation) *)
Definition scalar_hdr (σ : store) (s : V) : store * dense :=
  let '(σ1, b) := add_buf V σ [s] in (σ1, mkDense b 0 1 scalar_ap None false).

(* [sh0 = inl s]: a Go scalar (fresh one-element header); [inr ts]: a scalar-shaped TENSOR passed
   as the scalar (api_arith.go) — scalarToHeader then aliases that tensor's own memory *)
Definition eng_arith_scalar_h (g : cellf) (σ : store) (tt : nat) (sh0 : V + nat) (leftTensor : bool) (m : mode)
  : store * oresult :=
  match get_t σ tt with
  | None => (σ, OPanicR)
  | Some t0 =>
    let hr := match opt_reuse m with
              | Some (r, incr) => match handle_reuse σ r (shp (d_ap t0)) (ord (d_ap t0)) incr with
                                  | Ok σ1 => Ok (σ1, Some r)
                                  | Err => Err
                                  | Panic => Panic
                                  end
              | None => Ok (σ, None)
              end in
    match hr with
    | Err => (σ, OErrR)
    | Panic => (σ, OPanicR)
    | Ok (σ1, ro) =>
      match get_t σ1 tt with
      | None => (σ1, OPanicR)
      | Some t =>
        let rd := match ro with Some r => get_t σ1 r | None => None end in
        let '(σ2, sh) := match sh0 with
                         | inl s => scalar_hdr σ1 s
                         | inr ts => match get_t σ1 ts with
                                     | Some d => (σ1, d)
                                     | None => scalar_hdr σ1 vzero
                                     end
                         end in
        (* prepDataVS / prepDataSV *)
        let useIter :=
          if is_scalar (shp (d_ap t)) then false
          else requires_iterator t
               || match rd with Some r => requires_iterator r | None => false end
               || match rd with Some r => negb (has_same_order (ord (d_ap r)) (ord (d_ap t))) | None => false end in
        let dataA := if leftTensor then t else sh in
        let dataB := if leftTensor then sh else t in
        let seq := match all_iter t with Some l => l | None => [] end in
        let itok := if useIter then is_some (all_iter t) else true in
        let ai := if leftTensor then seq else [] in     (* ait is nil when the tensor is on the right *)
        let bi := if leftTensor then [] else seq in
        if negb itok then (σ2, OPanicR) else
        if useIter then
          match m, ro, rd with
          | MIncr _, Some r, Some rdn =>
            match all_iter rdn with
            | Some ii => finish2 (e_iter_incr g σ2 dataA dataB rdn ai bi ii) σ2 r
            | None => (σ2, OPanicR)
            end
          | MReuse _, Some r, Some rdn =>
            match all_iter rdn with
            | Some ii =>
              if leftTensor then
                match copy_iter_idx σ2 rdn dataA ii ai with
                | Some σ3 => finish (e_iter g σ3 rdn dataB ii bi) σ3 r
                | None => (σ2, OPanicR)
                end
              else
                match copy_iter_idx σ2 rdn dataB ii bi with
                | Some σ3 => finish (e_iter g σ3 dataA rdn ai ii) σ3 r
                | None => (σ2, OPanicR)
                end
            | None => (σ2, OPanicR)
            end
          | MUnsafe, _, _ => finish (e_iter g σ2 dataA dataB ai bi) σ2 tt
          | _, _, _ =>
            let '(σ3, rt) := clone_tmp σ2 (match get_t σ2 tt with Some x => x | None => t end) in
                if leftTensor then finish_new (e_iter g σ3 rt dataB ai bi) σ3 rt
                else finish_new (e_iter g σ3 dataA rt ai bi) σ3 rt
          end
        else
          let seq_t := is_scalar_equiv (shp (d_ap t)) in
          match m, ro, rd with
          | MIncr _, Some r, Some rdn => finish2 (e_incr g σ2 dataA dataB rdn) σ2 r
          | MReuse _, Some r, Some rdn =>
            if leftTensor then
              match copy_hdr σ2 rdn dataA with
              | Some σ3 => finish (e_plain g σ3 rdn dataB) σ3 r
              | None => (σ2, OPanicR)
              end
            else
              match copy_hdr σ2 rdn dataB with
              | Some σ3 =>
                match e_plain g σ3 dataA rdn with
                | Some (σ4, e) =>
                  if seq_t then
                    match copy_hdr σ4 rdn dataA with
                    | Some σ5 => finish (Some (σ5, e)) σ5 r
                    | None => (σ2, OPanicR)
                    end
                  else finish (Some (σ4, e)) σ4 r
                | None => (σ2, OPanicR)
                end
              | None => (σ2, OPanicR)
              end
          | MUnsafe, _, _ =>
            match e_plain g σ2 dataA dataB with
            | Some (σ3, e) =>
              if seq_t && negb leftTensor then
                match copy_hdr σ3 dataB dataA with
                | Some σ4 => finish (Some (σ4, e)) σ4 tt
                | None => (σ2, OPanicR)
                end
              else finish (Some (σ3, e)) σ3 tt
            | None => (σ2, OPanicR)
            end
          | _, _, _ =>
            let '(σ3, rt) := clone_tmp σ2 (match get_t σ2 tt with Some x => x | None => t end) in
                (* if !leftTensor { storage.Fill(retVal, dataA) }: the clone is filled with the
                   scalar; then E.<Op>(retVal.hdr(), dataB) *)
                if leftTensor then finish_new (e_plain g σ3 rt dataB) σ3 rt
                else
                  match hd0 σ3 dataA with
                  | Some sv =>
                    match win_fill V σ3 rt (idxs (d_len rt)) sv with
                    | Some σ4 => finish_new (e_plain g σ4 rt dataB) σ4 rt
                    | None => (σ2, OPanicR)
                    end
                  | None => (σ2, OPanicR)
                  end
          end
      end
    end
  end.

Definition eng_arith_scalar (g : cellf) (σ : store) (tt : nat) (s : V) (leftTensor : bool) (m : mode)
  : store * oresult := eng_arith_scalar_h g σ tt (inl s) leftTensor m.

(* api_arith.go: package-level functions send scalar-SHAPED tensor operands to the Scalar variant *)
Definition api_arith (g : cellf) (σ : store) (ta tb : nat) (m : mode)
           (vv : store -> nat -> nat -> mode -> store * oresult) : store * oresult :=
  match get_t σ ta, get_t σ tb with
  | Some a, Some b =>
    if negb (is_scalar (shp (d_ap b))) && negb (is_scalar (shp (d_ap a))) then vv σ ta tb m
    else if negb (is_scalar (shp (d_ap b))) then eng_arith_scalar_h g σ tb (inr ta) false m
    else eng_arith_scalar_h g σ ta (inr tb) true m
  | _, _ => (σ, OPanicR)
  end.

(* ---- StdEng.<Unary>(a, opts...)  (defaultengine_unary.go) ---- *)
Definition k_un (u : V -> V) (a : dense) (idx : list Z) : list asg :=
  map (fun i => mkAsg a false i i (SLen a i) (SConst vzero) false) idx.
Definition gun (u : V -> V) : cellf := fun x _ => CV (u x).

Definition eng_unary (u : V -> V) (σ : store) (ta : nat) (m : mode) : store * oresult :=
  match get_t σ ta with
  | None => (σ, OPanicR)
  | Some a0 =>
    let hr := match opt_reuse m with
              | Some (r, incr) => match handle_reuse σ r (shp (d_ap a0)) (ord (d_ap a0)) incr with
                                  | Ok σ1 => Ok (σ1, Some r)
                                  | Err => Err
                                  | Panic => Panic
                                  end
              | None => Ok (σ, None)
              end in
    match hr with
    | Err => (σ, OErrR)
    | Panic => (σ, OPanicR)
    | Ok (σ1, ro) =>
      match get_t σ1 ta with
      | None => (σ1, OPanicR)
      | Some a =>
        let rd := match ro with Some r => get_t σ1 r | None => None end in
        let useIter := requires_iterator a || match rd with Some r => requires_iterator r | None => false end in
        if useIter then
          match all_iter a with
          | None => (σ1, OPanicR)
          | Some ai =>
            match m, ro, rd with
            | MIncr _, Some r, Some rdn =>
              match all_iter rdn with
              | Some ri =>
                let '(σ2, c) := clone_tmp σ1 a in
                match run_asgs (gun u) σ2 (k_un u c ai) false with
                | Some (σ3, _) => finish (e_iter gadd σ3 rdn c ri ai) σ3 r
                | None => (σ1, OPanicR)
                end
              | None => (σ1, OPanicR)
              end
            | MReuse _, Some r, Some rdn =>
              match all_iter rdn with
              | Some ri =>
                match copy_iter_idx σ1 rdn a ri ai with
                | Some σ2 => finish (run_asgs (gun u) σ2 (k_un u rdn ri) false) σ2 r
                | None => (σ1, OPanicR)
                end
              | None => (σ1, OPanicR)
              end
            | MUnsafe, _, _ => finish (run_asgs (gun u) σ1 (k_un u a ai) false) σ1 ta
            | _, _, _ =>
              let '(σ2, c) := clone_tmp σ1 (match get_t σ1 ta with Some x => x | None => a end) in finish_new (run_asgs (gun u) σ2 (k_un u c ai) false) σ2 c
            end
          end
        else
          match m, ro, rd with
          | MIncr _, Some r, Some rdn =>
            let '(σ2, c) := clone_tmp σ1 a in
            match run_asgs (gun u) σ2 (k_un u c (idxs (d_len c))) false with
            | Some (σ3, _) => finish (e_plain gadd σ3 rdn c) σ3 r
            | None => (σ1, OPanicR)
            end
          | MReuse _, Some r, Some rdn =>
            match copy_hdr σ1 rdn a with
            | Some σ2 => finish (run_asgs (gun u) σ2 (k_un u rdn (idxs (d_len rdn))) false) σ2 r
            | None => (σ1, OPanicR)
            end
          | MUnsafe, _, _ => finish (run_asgs (gun u) σ1 (k_un u a (idxs (d_len a))) false) σ1 ta
          | _, _, _ =>
            let '(σ2, c) := clone_tmp σ1 (match get_t σ1 ta with Some x => x | None => a end) in finish_new (run_asgs (gun u) σ2 (k_un u c (idxs (d_len c))) false) σ2 c
          end
      end
    end
  end.

(* ---- comparisons: defaultengine_cmp.go ---- *)
(* bool-result kernels: retVal[k] = a[i] cmp b[j] *)
Definition k_ret (σ : store) (a b ret : dense) : option (list asg) :=
  if (wcap σ b <? wlen a) || (wcap σ ret <? wlen a) then None
  else Some (map (fun i => mkAsg ret true i i (SLen a i) (SCap b i) false) (idxs (wlen a))).
Definition k_ret_sv (s : V) (b ret : dense) : list asg :=
  map (fun i => mkAsg ret false i i (SConst s) (SLen b i) false) (idxs (wlen ret)).
Definition k_ret_vs (a : dense) (s : V) (ret : dense) : list asg :=
  map (fun i => mkAsg ret false i i (SLen a i) (SConst s) false) (idxs (wlen ret)).
Definition k_ret_iter (a b ret : dense) (ai bi ri : list Z) : list asg :=
  map (fun p => let '(i, j, k) := p in mkAsg ret false k k (SLen a i) (SLen b j) false) (zip3 ai bi ri).
Definition k_ret_iter_sv (s : V) (b ret : dense) (bi ri : list Z) : list asg :=
  map (fun p => mkAsg ret false (snd p) (snd p) (SConst s) (SLen b (fst p)) false) (zip2 bi ri).
Definition k_ret_iter_vs (a : dense) (s : V) (ret : dense) (ai ri : list Z) : list asg :=
  map (fun p => mkAsg ret false (snd p) (snd p) (SLen a (fst p)) (SConst s) false) (zip2 ai ri).

(* E.<Cmp>(t, a, b, retVal) *)
Definition e_ret (g : cellf) (σ : store) (a b ret : dense) : option (store * bool) * bool :=
  if ((isS a && negb (isS b)) || (isS b && negb (isS a))) && isS ret then (Some (σ, false), true)
  else
    (if isS a && negb (isS b) then
       match hd0 σ a with Some s => run_asgs g σ (k_ret_sv s b ret) false | None => None end
     else if negb (isS a) && isS b then
       match hd0 σ b with Some s => run_asgs g σ (k_ret_vs a s ret) false | None => None end
     else run_opt g σ (k_ret σ a b ret), false).

(* E.<Cmp>Iter(t, a, b, retVal, ait, bit, rit) *)
Definition e_ret_iter (g : cellf) (σ : store) (a b ret : dense) (ai bi ri : list Z)
  : option (store * bool) * bool :=
  if ((isS a && negb (isS b)) || (isS b && negb (isS a))) && isS ret then (Some (σ, false), true)
  else
    (if isS a && isS b then run_opt g σ (k_ret σ a b ret)
     else if isS a then
       match hd0 σ a with Some s => run_asgs g σ (k_ret_iter_sv s b ret bi ri) false | None => None end
     else if isS b then
       match hd0 σ b with Some s => run_asgs g σ (k_ret_iter_vs a s ret ai ri) false | None => None end
     else run_asgs g σ (k_ret_iter a b ret ai bi ri) false, false).

(* CIncr: WithIncr on an operation that has no increment form — the tensor is used as a reuse
   tensor (IncrReuse), only the data-order flag is left alone *)
Inductive cmode := CSafe | CUnsafe | CReuse (r : nat) | CIncr (r : nat).

(* StdEng.<Cmp>(a, b, opts...): [same] = AsSameType(); unsafe forces same *)
Definition eng_cmp_vv (g : cellf) (σ : store) (ta tb : nat) (same0 : bool) (m : cmode)
  : store * oresult :=
  match get_t σ ta, get_t σ tb with
  | Some a, Some b =>
    if negb (shape_eq (shp (d_ap a)) (shp (d_ap b))) then (σ, OErrR) else
    let hr := match m with
              | CReuse r => match handle_reuse σ r (shp (d_ap a)) (ord (d_ap a)) false with
                            | Ok σ1 => Ok (σ1, Some r)
                            | Err => Err
                            | Panic => Panic
                            end
              | CIncr r => match handle_reuse σ r (shp (d_ap a)) (ord (d_ap a)) true with
                            | Ok σ1 => Ok (σ1, Some r)
                            | Err => Err
                            | Panic => Panic
                            end
              | _ => Ok (σ, None)
              end in
    match hr with
    | Err => (σ, OErrR)
    | Panic => (σ, OPanicR)
    | Ok (σ1, ro) =>
      match get_t σ1 ta, get_t σ1 tb with
      | Some a, Some b =>
        let safe := match m with CUnsafe => false | _ => true end in
        let same := same0 || negb safe in
        let rd0 := match ro with Some r => get_t σ1 r | None => None end in
        let useIter :=
          requires_iterator a || requires_iterator b
          || match rd0 with Some r => requires_iterator r | None => false end
          || negb (has_same_order (ord (d_ap a)) (ord (d_ap b)))
          || match rd0 with
             | Some r => negb (has_same_order (ord (d_ap a)) (ord (d_ap r)))
                         || negb (has_same_order (ord (d_ap b)) (ord (d_ap r)))
             | None => false
             end in
        (* "check to see if anything needs to be created": always a fresh ROW-MAJOR tensor *)
        let '(σ2, ro2, rd) :=
          match ro, safe with
          | None, true => let '(σ', t', d') := new_dense σ1 (shp (d_ap a)) in (σ', Some t', Some d')
          | _, _ => (σ1, ro, rd0)
          end in
        if useIter then
          match all_iter a, all_iter b with
          | Some ai, Some bi =>
            match safe, same, ro2, rd with
            | false, _, None, _ => finish (e_iter g σ2 a b ai bi) σ2 ta
            | true, true, Some r, Some rdn =>
              match all_iter rdn with
              | Some ri =>
                match copy_iter_idx σ2 rdn a ri ai with
                | Some σ3 => finish (e_iter g σ3 rdn b ri bi) σ3 r
                | None => (σ2, OPanicR)
                end
              | None => (σ2, OPanicR)
              end
            | _, _, Some r, Some rdn =>
              match all_iter rdn with
              | Some ri => finish2 (e_ret_iter g σ2 a b rdn ai bi ri) σ2 r
              | None => (σ2, OPanicR)
              end
            | _, _, _, _ => (σ2, OPanicR)
            end
          | _, _ => (σ2, OPanicR)
          end
        else
          match safe, same, ro2, rd with
          | false, _, None, _ => finish (e_plain g σ2 a b) σ2 ta
          | true, true, Some r, Some rdn =>
            match copy_hdr σ2 rdn a with
            | Some σ3 => finish (e_plain g σ3 rdn b) σ3 r
            | None => (σ2, OPanicR)
            end
          | _, _, Some r, Some rdn => finish2 (e_ret g σ2 a b rdn) σ2 r
          | _, _, _, _ => (σ2, OPanicR)
          end
      | _, _ => (σ1, OPanicR)
      end
    end
  | _, _ => (σ, OPanicR)
  end.

(* StdEng.<Cmp>Scalar(t, s, leftTensor, opts...) with a Go scalar *)
Definition eng_cmp_scalar_h (g : cellf) (σ : store) (tt : nat) (sh0 : V + nat) (leftTensor same0 : bool) (m : cmode)
  : store * oresult :=
  match get_t σ tt with
  | None => (σ, OPanicR)
  | Some t0 =>
    let hr := match m with
              | CReuse r => match handle_reuse σ r (shp (d_ap t0)) (ord (d_ap t0)) false with
                            | Ok σ1 => Ok (σ1, Some r)
                            | Err => Err
                            | Panic => Panic
                            end
              | CIncr r => match handle_reuse σ r (shp (d_ap t0)) (ord (d_ap t0)) true with
                            | Ok σ1 => Ok (σ1, Some r)
                            | Err => Err
                            | Panic => Panic
                            end
              | _ => Ok (σ, None)
              end in
    match hr with
    | Err => (σ, OErrR)
    | Panic => (σ, OPanicR)
    | Ok (σ1, ro) =>
      match get_t σ1 tt with
      | None => (σ1, OPanicR)
      | Some t =>
        let safe := match m with CUnsafe => false | _ => true end in
        let same := same0 || negb safe in
        let rd0 := match ro with Some r => get_t σ1 r | None => None end in
        let '(σ2, sh) := match sh0 with
                         | inl s => scalar_hdr σ1 s
                         | inr ts => match get_t σ1 ts with
                                     | Some d => (σ1, d)
                                     | None => scalar_hdr σ1 vzero
                                     end
                         end in
        let useIter :=
          if is_scalar (shp (d_ap t)) then false
          else requires_iterator t
               || match rd0 with Some r => requires_iterator r | None => false end
               || match rd0 with Some r => negb (has_same_order (ord (d_ap r)) (ord (d_ap t))) | None => false end in
        let '(σ3, ro2, rd) :=
          match ro, safe with
          | None, true => let '(σ', t', d') := new_dense σ2 (shp (d_ap t)) in (σ', Some t', Some d')
          | _, _ => (σ2, ro, rd0)
          end in
        let dataA := if leftTensor then t else sh in
        let dataB := if leftTensor then sh else t in
        let flip : cellf := fun x y => g y x in
        if useIter then
          match all_iter t with
          | None => (σ3, OPanicR)
          | Some seq =>
            let ai := if leftTensor then seq else [] in
            let bi := if leftTensor then [] else seq in
            match safe, same, ro2, rd with
            | false, _, None, _ => finish (e_iter g σ3 dataA dataB ai bi) σ3 tt
            | true, true, Some r, Some rdn =>
              match all_iter rdn with
              | Some ri =>
                if leftTensor then
                  match copy_iter_idx σ3 rdn dataA ri ai with
                  | Some σ4 => finish (e_iter g σ4 rdn dataB ri bi) σ4 r
                  | None => (σ3, OPanicR)
                  end
                else
                  (* CopyIter(reuse <- tensor); then <Cmp>SameIter(scalar, reuse, ait(nil), bit):
                     the result is walked with the TENSOR's iterator *)
                  match copy_iter_idx σ3 rdn dataB ri bi with
                  | Some σ4 => finish (e_iter g σ4 dataA rdn ai bi) σ4 r
                  | None => (σ3, OPanicR)
                  end
              | None => (σ3, OPanicR)
              end
            | _, _, Some r, Some rdn =>
              match all_iter rdn with
              | Some ri => finish2 (e_ret_iter g σ3 dataA dataB rdn ai bi ri) σ3 r
              | None => (σ3, OPanicR)
              end
            | _, _, _, _ => (σ3, OPanicR)
            end
          end
        else
          match safe, same, ro2, rd with
          | false, _, None, _ => finish (e_plain g σ3 dataA dataB) σ3 tt
          | true, true, Some r, Some rdn =>
            if leftTensor then
              match copy_hdr σ3 rdn dataA with
              | Some σ4 => finish (e_plain g σ4 rdn dataB) σ4 r
              | None => (σ3, OPanicR)
              end
            else
              match copy_hdr σ3 rdn dataB with
              | Some σ4 =>
                if isS dataA && isS dataB
                then finish (e_plain flip σ4 rdn dataA) σ4 r     (* the converse comparison *)
                else finish (e_plain g σ4 dataA rdn) σ4 r
              | None => (σ3, OPanicR)
              end
          | _, _, Some r, Some rdn => finish2 (e_ret g σ3 dataA dataB rdn) σ3 r
          | _, _, _, _ => (σ3, OPanicR)
          end
      end
    end
  end.

Definition eng_cmp_scalar (g : cellf) (σ : store) (tt : nat) (s : V) (leftTensor same0 : bool) (m : cmode)
  : store * oresult := eng_cmp_scalar_h g σ tt (inl s) leftTensor same0 m.

Definition api_cmp (g : cellf) (σ : store) (ta tb : nat) (same0 : bool) (m : cmode) : store * oresult :=
  match get_t σ ta, get_t σ tb with
  | Some a, Some b =>
    if negb (is_scalar (shp (d_ap b))) && negb (is_scalar (shp (d_ap a))) then eng_cmp_vv g σ ta tb same0 m
    else if negb (is_scalar (shp (d_ap b))) then eng_cmp_scalar_h g σ tb (inr ta) false same0 m
    else eng_cmp_scalar_h g σ ta (inr tb) true same0 m
  | _, _ => (σ, OPanicR)
  end.

(* ---- StdEng.MinBetween / MaxBetween (tensor-tensor) ---- *)
Definition eng_minmax_vv (g : cellf) (σ : store) (ta tb : nat) (m : cmode) : store * oresult :=
  match get_t σ ta, get_t σ tb with
  | Some a, Some b =>
    if negb (shape_eq (shp (d_ap a)) (shp (d_ap b))) then (σ, OErrR) else
    let hr := match m with
              | CReuse r => match handle_reuse σ r (shp (d_ap a)) (ord (d_ap a)) false with
                            | Ok σ1 => Ok (σ1, Some r)
                            | Err => Err
                            | Panic => Panic
                            end
              | CIncr r => match handle_reuse σ r (shp (d_ap a)) (ord (d_ap a)) true with
                            | Ok σ1 => Ok (σ1, Some r)
                            | Err => Err
                            | Panic => Panic
                            end
              | _ => Ok (σ, None)
              end in
    match hr with
    | Err => (σ, OErrR)
    | Panic => (σ, OPanicR)
    | Ok (σ1, ro) =>
      match get_t σ1 ta, get_t σ1 tb with
      | Some a, Some b =>
        let safe := match m with CUnsafe => false | _ => true end in
        let rd0 := match ro with Some r => get_t σ1 r | None => None end in
        let useIter :=
          requires_iterator a || requires_iterator b
          || match rd0 with Some r => requires_iterator r | None => false end
          || negb (has_same_order (ord (d_ap a)) (ord (d_ap b)))
          || match rd0 with
             | Some r => negb (has_same_order (ord (d_ap a)) (ord (d_ap r)))
                         || negb (has_same_order (ord (d_ap b)) (ord (d_ap r)))
             | None => false
             end in
        (* "if reuse == nil { reuse = NewDense(...) }" — whatever the mode *)
        let '(σ2, r, rdn) :=
          match ro, rd0 with
          | Some r, Some d => (σ1, r, d)
          | _, _ => let '(σ', t', d') := new_dense σ1 (shp (d_ap a)) in (σ', t', d')
          end in
        if negb safe then (σ2, OPanicR)                 (* both switches fall to panic("Unreachable") *)
        else if useIter then
          match all_iter a, all_iter b, all_iter rdn with
          | Some ai, Some bi, Some ri =>
            match copy_iter_idx σ2 rdn a ri ai with
            | Some σ3 => finish (e_iter g σ3 rdn b ri bi) σ3 r
            | None => (σ2, OPanicR)
            end
          | _, _, _ => (σ2, OPanicR)
          end
        else
          match copy_hdr σ2 rdn a with
          | Some σ3 => finish (e_plain g σ3 rdn b) σ3 r
          | None => (σ2, OPanicR)
          end
      | _, _ => (σ1, OPanicR)
      end
    end
  | _, _ => (σ, OPanicR)
  end.

(* ---- StdEng.MinBetweenScalar / MaxBetweenScalar (t, s, leftTensor, opts...) with a Go scalar ---- *)
Definition eng_minmax_scalar (g : cellf) (σ : store) (tt : nat) (s : V) (leftTensor : bool) (m : cmode)
  : store * oresult :=
  match get_t σ tt with
  | None => (σ, OPanicR)
  | Some t0 =>
    let hr := match m with
              | CReuse r => match handle_reuse σ r (shp (d_ap t0)) (ord (d_ap t0)) false with
                            | Ok σ1 => Ok (σ1, Some r) | Err => Err | Panic => Panic end
              | CIncr r => match handle_reuse σ r (shp (d_ap t0)) (ord (d_ap t0)) true with
                            | Ok σ1 => Ok (σ1, Some r) | Err => Err | Panic => Panic end
              | _ => Ok (σ, None)
              end in
    match hr with
    | Err => (σ, OErrR)
    | Panic => (σ, OPanicR)
    | Ok (σ1, ro) =>
      match get_t σ1 tt with
      | None => (σ1, OPanicR)
      | Some t =>
        let rd0 := match ro with Some r => get_t σ1 r | None => None end in
        let '(σ2, sh) := scalar_hdr σ1 s in
        (* prepDataVS / prepDataSV *)
        let useIter :=
          if is_scalar (shp (d_ap t)) then false
          else requires_iterator t
               || match rd0 with Some r => requires_iterator r | None => false end
               || match rd0 with Some r => negb (has_same_order (ord (d_ap r)) (ord (d_ap t))) | None => false end in
        (* "if reuse == nil { reuse = NewDense(...) }" — whatever the mode *)
        let '(σ3, r, rdn) :=
          match ro, rd0 with
          | Some r, Some d => (σ2, r, d)
          | _, _ => let '(σ', t', d') := new_dense σ2 (shp (d_ap t)) in (σ', t', d')
          end in
        let safe := match m with CUnsafe => false | _ => true end in
        if negb safe then (σ3, OPanicR)                 (* both switches fall to panic("Unreachable") *)
        else if useIter then
          match all_iter t, all_iter rdn with
          | Some ti, Some ri =>
            match copy_iter_idx σ3 rdn t ri ti with
            | Some σ4 =>
              if leftTensor then finish (e_iter g σ4 rdn sh ri []) σ4 r
              else finish (e_iter g σ4 sh rdn [] ti) σ4 r      (* the TENSOR's iterator walks the reuse tensor *)
            | None => (σ3, OPanicR)
            end
          | _, _ => (σ3, OPanicR)
          end
        else
          match copy_hdr σ3 rdn t with
          | Some σ4 =>
            if leftTensor || (d_len t =? 1) then finish (e_plain g σ4 rdn sh) σ4 r
            else finish (e_plain g σ4 sh rdn) σ4 r
          | None => (σ3, OPanicR)
          end
      end
    end
  end.

End Ops.
