(* PropC04b.v — C04, second part: "native-slice and matrix conversions preserve the same elements".
   Only statements; every proof is `exact <lemma of NativeProofs>`.
   MODEL functions (Native.v): native_conv (native.Vector / Matrix / Tensor3, chosen by the rank),
   native_matrix, native_select (native.Select), to_mat64 (ToMat64), with their SPEC counterparts
   spec_native, spec_select (the logical elements in row-major order cut into rows).
   Vocabulary (NativeProofs.v), for an arbitrary element type V:
     is_logical V σ d l  l is the list of the elements of d in row-major order of the coordinates
                         (map Some l = map (cell V σ d) (coords shape)); for a registered well-formed
                         tensor t this is  logical V σ t = map Ok l   (C04_logical_list_is_At)
     cut V len l         the SPEC cut of l into rows of length len (= Native.chunks (length l) len l)
     nat_tensor V σ d    contiguous row-major tensor: all extents >= 1, strides = CalcStrides(shape),
                         d_len = size of the shape, window inside its allocation (any offset: contiguous
                         views included), no pending transpose, row-major and contiguous flags
     rm_cells d          d_len = size and the cell of coordinate c is window[row-major rank of c]
     raw_sound d         soundness of the flags ToMat64 trusts: a tensor that is neither a view nor
                         lazily transposed has d_len = size and, unless column-major, default strides
   and of MemProofs.v: wf_dense, cell, contig (see PropC04.v). *)
From TV Require Import Base Index AP Iter Mem Native Spec Guards IndexProofs IterProofs APProofs MemProofs
     NativeProofs.
Local Arguments bufs {V}.
Local Arguments tens {V}.

(* ---------- the logical list ---------- *)
Theorem C04_logical_list_is_At : forall (V : Type) (σ : store V) t d l,
  get_t V σ t = Some d -> wf_dense V σ d -> is_logical V σ d l -> logical V σ t = map (@Ok V) l.
Proof. exact is_logical_m_at. Qed.
Print Assumptions C04_logical_list_is_At.

Theorem C04_logical_list_nth : forall (V : Type) (σ : store V) t d l c,
  get_t V σ t = Some d -> wf_dense V σ d -> is_logical V σ d l -> inbox (shp (d_ap d)) c ->
  exists v, m_at V σ t c = Ok v /\ nth_error l (Z.to_nat (rk (shp (d_ap d)) c)) = Some v.
Proof. exact is_logical_m_at_nth. Qed.
Print Assumptions C04_logical_list_nth.

(* the window of a tensor stored in row-major order over exactly its window IS its logical list *)
Theorem C04_window_is_logical : forall (V : Type) (σ : store V) d,
  wf_dense V σ d -> rm_cells d -> is_logical V σ d (window V σ d).
Proof. exact window_is_logical. Qed.
Print Assumptions C04_window_is_logical.

Theorem C04_nat_tensor_wf : forall (V : Type) (σ : store V) d,
  nat_tensor V σ d -> wf_dense V σ d /\ contig d.
Proof. exact nat_tensor_wf. Qed.
Print Assumptions C04_nat_tensor_wf.

(* the SPEC cut: n rows of length len, concatenating to the list, row i holding l[i*len ..] *)
Theorem C04_cut_rows : forall (V : Type) (n len : Z) (l : list V),
  1 <= len -> 0 <= n -> zlen l = n * len ->
  length (cut V len l) = Z.to_nat n /\ concat (cut V len l) = l /\
  Forall (fun row => zlen row = len) (cut V len l) /\
  (forall i j, 0 <= i < n -> 0 <= j < len ->
     nth_error (nth (Z.to_nat i) (cut V len l) []) (Z.to_nat j) = nth_error l (Z.to_nat (i * len + j))).
Proof. exact cut_spec. Qed.
Print Assumptions C04_cut_rows.

Theorem C04_spec_native_rows : forall (V : Type) (sh : list Z) (l : list V),
  pos_shape sh -> zlen l = size sh ->
  match sh with
  | [] | [_] => spec_native V sh l = ([zlen l], [l])
  | [r; c] => spec_native V sh l = ([r; c], cut V c l) /\ zlen l = r * c
  | a :: b :: rest => spec_native V sh l = ([a; b; size rest], cut V (size rest) l) /\
                      zlen l = (a * b) * size rest
  end.
Proof. exact spec_native_rows. Qed.
Print Assumptions C04_spec_native_rows.

(* ---------- A1: native.Vector / Matrix / Tensor3 ---------- *)
(* on a contiguous row-major tensor of rank 1, 2 or 3 the conversion returns the SPEC cut of the
   window, and the window is the logical list *)
Theorem C04_native_conv_contiguous : forall (V : Type) (σ : store V) d,
  nat_tensor V σ d -> (1 <= length (shp (d_ap d)) <= 3)%nat ->
  exists l, l = window V σ d /\ is_logical V σ d l /\ zlen l = size (shp (d_ap d)) /\
    native_conv V σ d = NRows V (fst (spec_native V (shp (d_ap d)) l)) (snd (spec_native V (shp (d_ap d)) l)).
Proof. exact native_conv_contiguous. Qed.
Print Assumptions C04_native_conv_contiguous.

(* the same for a registered tensor, in the vocabulary of the observation `logical` *)
Theorem C04_native_conv_registered : forall (V : Type) (σ : store V) t d,
  get_t V σ t = Some d -> nat_tensor V σ d -> (1 <= length (shp (d_ap d)) <= 3)%nat ->
  exists l, logical V σ t = map (@Ok V) l /\ zlen l = size (shp (d_ap d)) /\
    native_conv V σ d = NRows V (fst (spec_native V (shp (d_ap d)) l)) (snd (spec_native V (shp (d_ap d)) l)).
Proof. exact native_conv_registered. Qed.
Print Assumptions C04_native_conv_registered.

(* element by element: rows[i][j] is the element At(i, j) *)
Theorem C04_native_matrix_elements : forall (V : Type) (σ : store V) t d r c,
  get_t V σ t = Some d -> nat_tensor V σ d -> shp (d_ap d) = [r; c] ->
  exists rows, native_conv V σ d = NRows V [r; c] rows /\ length rows = Z.to_nat r /\
    Forall (fun row => zlen row = c) rows /\ concat rows = window V σ d /\
    forall i j, 0 <= i < r -> 0 <= j < c ->
      exists v, m_at V σ t [i; j] = Ok v /\ nth_error (nth (Z.to_nat i) rows []) (Z.to_nat j) = Some v.
Proof. exact native_conv_matrix_at. Qed.
Print Assumptions C04_native_matrix_elements.

(* rows[i*r + j][k] is the element At(i, j, k) *)
Theorem C04_native_tensor3_elements : forall (V : Type) (σ : store V) t d l r c,
  get_t V σ t = Some d -> nat_tensor V σ d -> shp (d_ap d) = [l; r; c] ->
  exists rows, native_conv V σ d = NRows V [l; r; c] rows /\ length rows = Z.to_nat (l * r) /\
    Forall (fun row => zlen row = c) rows /\ concat rows = window V σ d /\
    forall i j k, 0 <= i < l -> 0 <= j < r -> 0 <= k < c ->
      exists v, m_at V σ t [i; j; k] = Ok v /\
                nth_error (nth (Z.to_nat (i * r + j)) rows []) (Z.to_nat k) = Some v.
Proof. exact native_conv_tensor3_at. Qed.
Print Assumptions C04_native_tensor3_elements.

(* ---------- A2: refusals — never rows in another arrangement ---------- *)
Theorem C04_native_conv_refuses : forall (V : Type) (σ : store V) d,
  is_cm (ord (d_ap d)) = true \/ requires_iterator d = true \/
  length (shp (d_ap d)) = 0%nat \/ (4 <= length (shp (d_ap d)))%nat ->
  native_conv V σ d = NErr V.
Proof. exact native_conv_refuses. Qed.
Print Assumptions C04_native_conv_refuses.

Theorem C04_native_matrix_refuses : forall (V : Type) (σ : store V) d,
  is_cm (ord (d_ap d)) = true \/ requires_iterator d = true -> native_matrix V σ d = NErr V.
Proof. exact native_matrix_refuses. Qed.
Print Assumptions C04_native_matrix_refuses.

Theorem C04_native_select_refuses : forall (V : Type) (σ : store V) d axis,
  is_cm (ord (d_ap d)) = true \/ requires_iterator d = true -> native_select V σ d axis = NErr V.
Proof. exact native_select_refuses. Qed.
Print Assumptions C04_native_select_refuses.

(* ---------- A3: native.Select ---------- *)
(* any rank; axis 0 is accepted for a scalar *)
Theorem C04_native_select_contiguous : forall (V : Type) (σ : store V) d axis,
  nat_tensor V σ d -> 0 <= axis < Z.max 1 (zlen (shp (d_ap d))) ->
  exists l, l = window V σ d /\ is_logical V σ d l /\ zlen l = size (shp (d_ap d)) /\
    native_select V σ d axis = NRows V (fst (spec_select V (shp (d_ap d)) axis l))
                                       (snd (spec_select V (shp (d_ap d)) axis l)).
Proof. exact native_select_contiguous. Qed.
Print Assumptions C04_native_select_contiguous.

Theorem C04_native_select_registered : forall (V : Type) (σ : store V) t d axis,
  get_t V σ t = Some d -> nat_tensor V σ d -> 0 <= axis < Z.max 1 (zlen (shp (d_ap d))) ->
  exists l, logical V σ t = map (@Ok V) l /\ zlen l = size (shp (d_ap d)) /\
    native_select V σ d axis = NRows V (fst (spec_select V (shp (d_ap d)) axis l))
                                       (snd (spec_select V (shp (d_ap d)) axis l)).
Proof. exact native_select_registered. Qed.
Print Assumptions C04_native_select_registered.

(* for rank >= 2: size(shape[:axis+1]) rows of length size(shape[axis+1:]) *)
Theorem C04_spec_select_rows : forall (V : Type) (sh : list Z) (axis : Z) (l : list V),
  pos_shape sh -> zlen l = size sh -> 2 <= zlen sh -> 0 <= axis < zlen sh ->
  let upper := size (firstn (Z.to_nat axis + 1) sh) in
  let len := size (skipn (Z.to_nat axis + 1) sh) in
  spec_select V sh axis l = ([upper; len], cut V len l) /\ 1 <= len /\ 1 <= upper /\ zlen l = upper * len.
Proof. exact spec_select_rows. Qed.
Print Assumptions C04_spec_select_rows.

(* ---------- A4: ToMat64 ---------- *)
(* ANY well-formed rank-2 tensor — view, lazily transposed, column-major, arbitrary strides — whose
   "not a view, not transposed" flags are sound: the data handed to mat.NewDense is the logical list *)
Theorem C04_to_mat64_logical : forall (V : Type) (σ : store V) d r c,
  wf_dense V σ d -> shp (d_ap d) = [r; c] -> raw_sound d ->
  exists l, to_mat64 V σ d = NRows V [r; c] [l] /\ is_logical V σ d l /\ zlen l = r * c.
Proof. exact to_mat64_logical. Qed.
Print Assumptions C04_to_mat64_logical.

Theorem C04_to_mat64_registered : forall (V : Type) (σ : store V) t d r c,
  get_t V σ t = Some d -> wf_dense V σ d -> shp (d_ap d) = [r; c] -> raw_sound d ->
  exists l, to_mat64 V σ d = NRows V [r; c] [l] /\ logical V σ t = map (@Ok V) l /\ zlen l = r * c /\
    forall i j, 0 <= i < r -> 0 <= j < c ->
      exists v, m_at V σ t [i; j] = Ok v /\ nth_error l (Z.to_nat (i * c + j)) = Some v.
Proof. exact to_mat64_registered. Qed.
Print Assumptions C04_to_mat64_registered.

(* the column-major case never hands over the raw window: it walks the flat iterator (no hypothesis
   on the flags) *)
Theorem C04_to_mat64_colmajor : forall (V : Type) (σ : store V) d r c,
  wf_dense V σ d -> shp (d_ap d) = [r; c] ->
  is_cm (ord (d_ap d)) = true -> is_vector [r; c] = false -> is_scalar_equiv [r; c] = false ->
  exists l, to_mat64 V σ d = NRows V [r; c] [l] /\ is_logical V σ d l /\ zlen l = r * c /\
    match iter_all (d_ap d) with
    | Some idx => all_some (map (fun i => win_get V σ d i) idx)
    | None => None
    end = Some l.
Proof. exact to_mat64_colmajor. Qed.
Print Assumptions C04_to_mat64_colmajor.

(* the defect repaired by 086c074: before the repair the raw window [3 4 5 6 7 8] of the column-major
   2x3 tensor was handed over; its logical list is [3 5 7 4 6 8] *)
Theorem C04_to_mat64_raw_colmajor_wrong_refuted :
  new_raw Z (mkStore Z [] []) true [2; 3] [3; 4; 5; 6; 7; 8] = Ok (ex_cm_store, 0%nat) /\
  get_t Z ex_cm_store 0 = Some ex_cm_dense /\
  window Z ex_cm_store ex_cm_dense = [3; 4; 5; 6; 7; 8] /\
  logical Z ex_cm_store 0 = map (@Ok Z) [3; 5; 7; 4; 6; 8] /\
  window Z ex_cm_store ex_cm_dense <> [3; 5; 7; 4; 6; 8] /\
  to_mat64_unrepaired ex_cm_store ex_cm_dense = NRows Z [2; 3] [[3; 4; 5; 6; 7; 8]] /\
  to_mat64 Z ex_cm_store ex_cm_dense = NRows Z [2; 3] [[3; 5; 7; 4; 6; 8]].
Proof. exact to_mat64_raw_colmajor_wrong_refuted. Qed.
Print Assumptions C04_to_mat64_raw_colmajor_wrong_refuted.

(* ---------- non-vacuity (V = Z) ---------- *)
(* the 2x3x4 tensor 1..24 meets nat_tensor; Tensor3 and Select(axis 1) computed by the model agree
   with the SPEC cut of the logical list *)
Example C04b_example_native :
  let σ0 := mkStore Z [] [] in
  exists σ d,
    new_raw Z σ0 false [2; 3; 4] (zseq 1 24) = Ok (σ, 0%nat) /\ get_t Z σ 0 = Some d /\
    nat_tensor Z σ d /\ logical Z σ 0 = map (@Ok Z) (zseq 1 24) /\
    native_conv Z σ d
    = NRows Z [2; 3; 4] [[1; 2; 3; 4]; [5; 6; 7; 8]; [9; 10; 11; 12];
                         [13; 14; 15; 16]; [17; 18; 19; 20]; [21; 22; 23; 24]] /\
    spec_native Z [2; 3; 4] (zseq 1 24)
    = ([2; 3; 4], [[1; 2; 3; 4]; [5; 6; 7; 8]; [9; 10; 11; 12];
                   [13; 14; 15; 16]; [17; 18; 19; 20]; [21; 22; 23; 24]]) /\
    native_select Z σ d 1
    = NRows Z [6; 4] [[1; 2; 3; 4]; [5; 6; 7; 8]; [9; 10; 11; 12];
                      [13; 14; 15; 16]; [17; 18; 19; 20]; [21; 22; 23; 24]] /\
    spec_select Z [2; 3; 4] 1 (zseq 1 24)
    = ([6; 4], [[1; 2; 3; 4]; [5; 6; 7; 8]; [9; 10; 11; 12];
                [13; 14; 15; 16]; [17; 18; 19; 20]; [21; 22; 23; 24]]) /\
    native_select Z σ d 0
    = NRows Z [2; 12] [[1; 2; 3; 4; 5; 6; 7; 8; 9; 10; 11; 12];
                       [13; 14; 15; 16; 17; 18; 19; 20; 21; 22; 23; 24]] /\
    m_at Z σ 0 [1; 2; 3] = Ok 24.
Proof.
  cbv zeta.
  exists (mkStore Z [zseq 1 24] [mkDense 0 0 24 (mkAP [2; 3; 4] [12; 4; 1] 0 true) None false]).
  exists (mkDense 0 0 24 (mkAP [2; 3; 4] [12; 4; 1] 0 true) None false).
  split; [vm_compute; reflexivity|]. split; [vm_compute; reflexivity|]. split.
  { unfold nat_tensor. cbn [d_ap d_len d_old d_off d_buf shp str ord].
    split; [repeat constructor; lia|]. repeat split; try (vm_compute; reflexivity); vm_compute; congruence. }
  repeat split; vm_compute; reflexivity.
Qed.

(* a contiguous VIEW (rows 1..2 of a 4x3 matrix, window offset 3) also meets nat_tensor; the matrix
   conversion returns its two rows.  The transposed matrix and the column slice are refused. *)
Example C04b_example_view :
  let σ0 := mkStore Z [] [] in
  exists σ1 σ2 d,
    new_raw Z σ0 false [4; 3] (zseq 0 12) = Ok (σ1, 0%nat) /\
    m_slice Z σ1 0 [Some (1, 3, 1)] = Ok (σ2, 1%nat) /\ get_t Z σ2 1 = Some d /\
    d_view d = true /\ d_off d = 3 /\ nat_tensor Z σ2 d /\
    native_conv Z σ2 d = NRows Z [2; 3] [[3; 4; 5]; [6; 7; 8]] /\
    to_mat64 Z σ2 d = NRows Z [2; 3] [[3; 4; 5; 6; 7; 8]] /\
    (exists σ3 dc, m_slice Z σ1 0 [None; Some (1, 3, 1)] = Ok (σ3, 1%nat) /\ get_t Z σ3 1 = Some dc /\
                   requires_iterator dc = true /\ native_conv Z σ3 dc = NErr Z /\
                   to_mat64 Z σ3 dc = NRows Z [4; 2] [[1; 2; 4; 5; 7; 8; 10; 11]]) /\
    (exists σ4 dt, m_T Z σ1 0 [] = Ok σ4 /\ get_t Z σ4 0 = Some dt /\
                   requires_iterator dt = true /\ native_conv Z σ4 dt = NErr Z /\
                   to_mat64 Z σ4 dt = NRows Z [3; 4] [[0; 3; 6; 9; 1; 4; 7; 10; 2; 5; 8; 11]]).
Proof.
  cbv zeta.
  set (d0 := mkDense 0 0 12 (mkAP [4; 3] [3; 1] 0 true) None false).
  set (dv := mkDense 0 3 6 (mkAP [2; 3] [3; 1] 0 true) None true).
  exists (mkStore Z [zseq 0 12] [d0]), (mkStore Z [zseq 0 12] [d0; dv]), dv.
  split; [vm_compute; reflexivity|]. split; [vm_compute; reflexivity|]. split; [vm_compute; reflexivity|].
  split; [reflexivity|]. split; [reflexivity|]. split.
  { unfold nat_tensor, dv. cbn [d_ap d_len d_old d_off d_buf shp str ord].
    split; [repeat constructor; lia|]. repeat split; try (vm_compute; reflexivity); vm_compute; congruence. }
  split; [vm_compute; reflexivity|]. split; [vm_compute; reflexivity|]. split.
  - eexists. eexists. split; [vm_compute; reflexivity|]. split; [vm_compute; reflexivity|].
    repeat split; vm_compute; reflexivity.
  - eexists. eexists. split; [vm_compute; reflexivity|]. split; [vm_compute; reflexivity|].
    repeat split; vm_compute; reflexivity.
Qed.
