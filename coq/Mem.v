(* Mem.v — MODEL of the *Dense tensor over an explicit store: dense.go, dense_matop.go,
   dense_views.go, dense_matop_memmove.go (Transpose), array.go (copyDense, copyDenseIter),
   consopt.go constructors, api_matop.go Copy.  State-passing; V is the element type.
   No proofs here. *)
From TV Require Import Base Index AP Iter.

Section Mem.
Variable V : Type.
Variable vzero : V.

(* A tensor is a window [d_off, d_off + d_len) of allocation d_buf, an access pattern, the
   backed-up AP of a pending lazy transpose, and the view flag (viewOf != 0). *)
Record dense := mkDense {
  d_buf : nat; d_off : Z; d_len : Z;
  d_ap : ap; d_old : option ap; d_view : bool
}.

Record store := mkStore { bufs : list (list V); tens : list dense }.

Definition get_t (σ : store) (t : nat) : option dense := nth_error (tens σ) t.
Definition get_buf (σ : store) (b : nat) : list V := nth b (bufs σ) [].
Definition set_t (σ : store) (t : nat) (d : dense) : store := mkStore (bufs σ) (upd (tens σ) t d).
Definition set_buf (σ : store) (b : nat) (l : list V) : store := mkStore (upd (bufs σ) b l) (tens σ).
Definition add_t (σ : store) (d : dense) : store * nat := (mkStore (bufs σ) (tens σ ++ [d]), length (tens σ)).
Definition add_buf (σ : store) (l : list V) : store * nat := (mkStore (bufs σ ++ [l]) (tens σ), length (bufs σ)).

Definition with_ap (d : dense) (a : ap) : dense := mkDense (d_buf d) (d_off d) (d_len d) a (d_old d) (d_view d).
Definition with_old (d : dense) (o : option ap) : dense := mkDense (d_buf d) (d_off d) (d_len d) (d_ap d) o (d_view d).

(* the window contents: Data() *)
Definition window (σ : store) (d : dense) : list V :=
  firstn (Z.to_nat (d_len d)) (skipn (Z.to_nat (d_off d)) (get_buf σ (d_buf d))).

(* window[i] — None = Go slice-bounds panic *)
Definition win_get (σ : store) (d : dense) (i : Z) : option V :=
  if (i <? 0) || (d_len d <=? i) then None else zget (get_buf σ (d_buf d)) (d_off d + i).

Definition win_set (σ : store) (d : dense) (i : Z) (v : V) : option store :=
  if (i <? 0) || (d_len d <=? i) then None else
  match zset (get_buf σ (d_buf d)) (d_off d + i) v with
  | Some l => Some (set_buf σ (d_buf d) l)
  | None => None
  end.

(* raw[i*size : (i+1)*size] slice expressions (storage.CopyIter) are bounded by the CAPACITY of
   the window's byte slice — the end of the allocation — not by its length *)
Definition cap_get (σ : store) (d : dense) (i : Z) : option V :=
  if i <? 0 then None else zget (get_buf σ (d_buf d)) (d_off d + i).
Definition cap_set (σ : store) (d : dense) (i : Z) (v : V) : option store :=
  if i <? 0 then None else
  match zset (get_buf σ (d_buf d)) (d_off d + i) v with
  | Some l => Some (set_buf σ (d_buf d) l)
  | None => None
  end.

(* write the same value / a list of values at a list of window indices *)
Fixpoint win_fill (σ : store) (d : dense) (idx : list Z) (v : V) : option store :=
  match idx with
  | [] => Some σ
  | i :: r => match win_set σ d i v with Some σ' => win_fill σ' d r v | None => None end
  end.

Fixpoint win_scatter (σ : store) (d : dense) (idx : list Z) (vs : list V) : option store :=
  match idx, vs with
  | i :: r, v :: vs' => match win_set σ d i v with Some σ' => win_scatter σ' d r vs' | None => None end
  | _, _ => Some σ
  end.

Fixpoint win_gather (σ : store) (d : dense) (idx : list Z) : option (list V) :=
  match idx with
  | [] => Some []
  | i :: r => match win_get σ d i, win_gather σ d r with
              | Some v, Some l => Some (v :: l)
              | _, _ => None
              end
  end.

(* predicates of dense.go *)
Definition is_materializable (d : dense) : bool := d_view d || is_some (d_old d).
Definition requires_iterator (d : dense) : bool :=
  if d_len d =? 1 then false
  (* IsMasked() is len(mask) == len(): true for an unmasked tensor whose window is empty *)
  else is_nc (ord (d_ap d)) || is_some (d_old d) || (d_len d =? 0).

(* ---- constructors ---- *)
(* New(WithShape(sh), WithBacking(data)) [, AsFortran(nil)]: sanity() panics on a size mismatch *)
Definition new_raw (σ : store) (cm : bool) (sh : list Z) (data : list V) : res (store * nat) :=
  if negb (zlen data =? size sh) && negb (is_scalar sh) then Panic else
  let '(σ1, b) := add_buf σ data in
  let o := if cm then CM else 0 in
  let a := mkAP sh (default_strides o sh) o true in
  Ok (add_t σ1 (mkDense b 0 (zlen data) a None false)).

(* ---- At / SetAt ---- *)
Definition m_at (σ : store) (t : nat) (c : list Z) : res V :=
  match get_t σ t with
  | None => Panic
  | Some d =>
    match at_index (shp (d_ap d)) (str (d_ap d)) c with
    | Ok i => match win_get σ d i with Some v => Ok v | None => Panic end
    | Err => Err
    | Panic => Panic
    end
  end.

Definition m_setat (σ : store) (t : nat) (c : list Z) (v : V) : res store :=
  match get_t σ t with
  | None => Panic
  | Some d =>
    match at_index (shp (d_ap d)) (str (d_ap d)) c with
    | Ok i => match win_set σ d i v with Some σ' => Ok σ' | None => Panic end
    | Err => Err
    | Panic => Panic
    end
  end.

(* ---- Slice ---- *)
(* array.sliceInto(i, j): panics unless 0 <= i <= j <= cap, cap counted from the window start
   to the end of the allocation *)
Definition m_slice (σ : store) (t : nat) (sl : list slice) : res (store * nat) :=
  match get_t σ t with
  | None => Panic
  | Some d =>
    match ap_S (d_ap d) (d_len d) sl with
    | Ok (a', s, e) =>
      let cap := zlen (get_buf σ (d_buf d)) - d_off d in
      if (s <? 0) || (e <? s) || (cap <? e) then Panic
      else Ok (add_t σ (mkDense (d_buf d) (d_off d + s) (e - s) a' None true))
    | Err => Err
    | Panic => Panic
    end
  end.

(* ---- UT ---- *)
Definition ut_dense (d : dense) : dense :=
  match d_old d with
  | Some o => mkDense (d_buf d) (d_off d) (d_len d) o None (d_view d)
  | None => d
  end.

(* copy(dst, src) on int slices: overwrite the common prefix *)
Fixpoint copy_prefix {A} (dst src : list A) : list A :=
  match dst, src with
  | _ :: d', s :: s' => s :: copy_prefix d' s'
  | _, _ => dst
  end.

(* ---- Transpose (physical) ---- *)
Definition m_transpose_d (σ : store) (d : dense) : res (store * dense) :=
  match d_old d with
  | None => Ok (σ, d)
  | Some _ =>
    let a := d_ap d in
    if is_scalar (shp a) then Ok (σ, d) else
    let exp := default_strides (ord a) (shp a) in
    let d' := mkDense (d_buf d) (d_off d) (d_len d)
                      (mkAP (shp a) (copy_prefix (str a) exp) (ord a) (fin a)) None (d_view d) in
    if is_vector (shp a) then Ok (σ, d') else
    match iter_all a with
    | None => Panic
    | Some idx =>
      match win_gather σ d idx with
      | None => Panic
      | Some tmp =>
        (* copy(orig, tmp): the first min(len) cells of the window *)
        let n := Z.min (d_len d) (zlen tmp) in
        match win_scatter σ d (zseq 0 (Z.to_nat n)) tmp with
        | Some σ' => Ok (σ', d')
        | None => Panic
        end
      end
    end
  end.

Definition m_transpose (σ : store) (t : nat) : res store :=
  match get_t σ t with
  | None => Panic
  | Some d =>
    match m_transpose_d σ d with
    | Ok (σ', d') => Ok (set_t σ' t d')
    | Err => Err
    | Panic => Panic
    end
  end.

(* ---- T (lazy) ---- *)
Fixpoint prefix_eqb (a b : list Z) : option bool :=   (* for i, s in b: a[i] != s; None = panic *)
  match b with
  | [] => Some true
  | s :: b' => match a with
               | [] => None
               | x :: a' => if x =? s then prefix_eqb a' b' else Some false
               end
  end.

Definition m_T (σ : store) (t : nat) (axes : list Z) : res store :=
  match get_t σ t with
  | None => Panic
  | Some d =>
    match ap_T (d_ap d) axes with
    | TErr => Err
    | TNoop => Ok σ
    | TPanic => Panic
    | TOk transform _ =>
      match d_old d with
      | None => Ok (set_t σ t (mkDense (d_buf d) (d_off d) (d_len d) transform (Some (d_ap d)) (d_view d)))
      | Some o =>
        if is_vector (shp (d_ap d)) then Ok (set_t σ t (ut_dense d))
        else
          match prefix_eqb (shp transform) (shp o) with
          | None => Panic
          | Some true => Ok (set_t σ t (ut_dense d))
          | Some false =>
            match m_transpose_d σ d with
            | Ok (σ', d') =>
              Ok (set_t σ' t (mkDense (d_buf d') (d_off d') (d_len d') transform (Some (d_ap d')) (d_view d')))
            | Err => Err
            | Panic => Panic
            end
          end
      end
    end
  end.

Definition m_UT (σ : store) (t : nat) : res store :=
  match get_t σ t with
  | None => Panic
  | Some d => Ok (set_t σ t (ut_dense d))
  end.

(* AsFortran(backing): tmp := row-major tensor; tmp.T(); tmp.Transpose(); data copied back;
   then the order becomes column-major and the strides are recomputed *)
Definition new_cmb (σ : store) (sh : list Z) (data : list V) : res (store * nat) :=
  match new_raw σ false sh data with
  | Ok (σ1, t) =>
    match m_T σ1 t [] with
    | Ok σ2 =>
      match m_transpose σ2 t with
      | Ok σ3 =>
        match get_t σ3 t with
        | Some d =>
          let a := mkAP sh (default_strides CM sh) CM true in
          Ok (set_t σ3 t (mkDense (d_buf d) (d_off d) (d_len d) a None false), t)
        | None => Panic
        end
      | Err => Err | Panic => Panic
      end
    | Err => Err | Panic => Panic
    end
  | Err => Err | Panic => Panic
  end.

(* ---- Memset / Zero ---- *)
Definition m_memset (σ : store) (t : nat) (v : V) : res store :=
  match get_t σ t with
  | None => Panic
  | Some d =>
    if is_materializable d then
      match iter_all (d_ap d) with
      | None => Panic
      | Some idx => match win_fill σ d idx v with Some σ' => Ok σ' | None => Panic end
      end
    else
      match win_fill σ d (zseq 0 (Z.to_nat (d_len d))) v with Some σ' => Ok σ' | None => Panic end
  end.

(* Zero: zeroIter over the tensor's own elements for views / lazily transposed tensors, the whole
   window (array.Zero) otherwise *)
Definition m_zero (σ : store) (t : nat) : res store :=
  match get_t σ t with
  | None => Panic
  | Some d =>
    if is_materializable d then
      match iter_all (d_ap d) with
      | None => Panic
      | Some idx => match win_fill σ d idx vzero with Some σ' => Ok σ' | None => Panic end
      end
    else
      match win_fill σ d (zseq 0 (Z.to_nat (d_len d))) vzero with Some σ' => Ok σ' | None => Panic end
  end.

(* ---- copies ---- *)
(* copyDense: raw window memcpy, min of the two lengths *)
Definition copy_raw (σ : store) (dst src : dense) : res store :=
  let n := Z.min (d_len dst) (d_len src) in
  match win_scatter σ dst (zseq 0 (Z.to_nat n)) (window σ src) with
  | Some σ' => Ok σ'
  | None => Panic
  end.

(* storage.CopyIter: both iterators stepped in lock-step until one is exhausted; cells are
   copied one at a time (so overlapping source and destination see earlier writes) *)
Fixpoint copy_seq (σ : store) (dst src : dense) (di si : list Z) : option store :=
  match di, si with
  | i :: di', j :: si' =>
    match cap_get σ src j with
    | Some v => match cap_set σ dst i v with
                | Some σ' => copy_seq σ' dst src di' si'
                | None => None
                end
    | None => None
    end
  | _, _ => Some σ
  end.

Definition copy_iter (σ : store) (dst src : dense) : res store :=
  match iter_all (d_ap dst), iter_all (d_ap src) with
  | Some di, Some si =>
    match copy_seq σ dst src di si with Some σ' => Ok σ' | None => Panic end
  | _, _ => Panic
  end.

(* copyDenseIter(dst, src, nil, nil) *)
Definition copy_dense_iter (σ : store) (dst src : dense) : res store :=
  if negb (requires_iterator dst) && negb (requires_iterator src)
     && has_same_order (ord (d_ap dst)) (ord (d_ap src))
  then copy_raw σ dst src
  else copy_iter σ dst src.

(* Clone: same AP and old AP, fresh allocation holding a copy of the window; not a view *)
Definition m_clone (σ : store) (t : nat) : res (store * nat) :=
  match get_t σ t with
  | None => Panic
  | Some d =>
    let '(σ1, b) := add_buf σ (window σ d) in
    Ok (add_t σ1 (mkDense b 0 (d_len d) (d_ap d) (d_old d) false))
  end.

(* Materialize: the tensor itself when not materializable; otherwise a fresh row-major tensor
   of the same shape filled through copyDenseIter *)
Definition m_materialize (σ : store) (t : nat) : res (store * nat) :=
  match get_t σ t with
  | None => Panic
  | Some d =>
    if negb (is_materializable d) then Ok (σ, t) else
    let sh := shp (d_ap d) in
    let n := if is_scalar sh then 1 else size sh in
    let '(σ1, b) := add_buf σ (repeat vzero (Z.to_nat n)) in
    let nd := mkDense b 0 n (mkAP sh (calc_strides sh) 0 true) None false in
    match copy_dense_iter σ1 nd d with
    | Ok σ2 => Ok (add_t σ2 nd)
    | Err => Err
    | Panic => Panic
    end
  end.

(* tensor.Copy(dst, src) *)
Definition m_copy (σ : store) (dt st : nat) : res store :=
  match get_t σ dt, get_t σ st with
  | Some dst, Some src =>
    if requires_iterator src || requires_iterator dst then copy_dense_iter σ dst src
    else copy_raw σ dst src
  | _, _ => Panic
  end.

(* SafeT: a new tensor holding a raw copy of the window, AP = the transposed pattern (a clone of
   the AP when the transpose is a no-op), old = the source's AP *)
Definition m_safeT (σ : store) (t : nat) (axes : list Z) : res (store * nat) :=
  match get_t σ t with
  | None => Panic
  | Some d =>
    let mk transform :=
      let '(σ1, b) := add_buf σ (window σ d) in
      Ok (add_t σ1 (mkDense b 0 (d_len d) transform (Some (d_ap d)) false)) in
    match ap_T (d_ap d) axes with
    | TErr => Err
    | TPanic => Panic
    | TNoop => mk (d_ap d)
    | TOk transform _ => mk transform
    end
  end.

(* RollAxis(axis, start, safe): axes = identity with `axis` moved to position `start` *)
Definition roll_axes (dims axis start : Z) : list Z :=
  let ids := zseq 0 (Z.to_nat dims) in
  let without := filter (fun i => negb (i =? axis)) ids in
  firstn (Z.to_nat start) without ++ [axis] ++ skipn (Z.to_nat start) without.

Definition m_rollaxis (σ : store) (t : nat) (axis start : Z) (safe : bool) : res (store * nat) :=
  match get_t σ t with
  | None => Panic
  | Some d =>
    let dims := zlen (shp (d_ap d)) in
    if negb ((0 <=? axis) && (axis <? dims)) then Err
    else if negb ((0 <=? start) && (start <=? dims)) then Err
    else
      let start := if axis <? start then start - 1 else start in
      if axis =? start then Ok (σ, t)
      else
        let axes := roll_axes dims axis start in
        if safe then m_safeT σ t axes
        else match m_T σ t axes with
             | Ok σ' => Ok (σ', t)
             | Err => Err
             | Panic => Panic
             end
  end.

(* tensor.Transpose(t, axes): SafeT then a physical Transpose of the copy *)
Definition m_api_transpose (σ : store) (t : nat) (axes : list Z) : res (store * nat) :=
  match m_safeT σ t axes with
  | Ok (σ1, t') => match m_transpose σ1 t' with
                   | Ok σ2 => Ok (σ2, t')
                   | Err => Err
                   | Panic => Panic
                   end
  | Err => Err
  | Panic => Panic
  end.

(* Reshape(dims...) *)
(* result: (state, refused?) — a late refusal by sanity() leaves the new shape installed *)
Definition m_reshape (σ : store) (t : nat) (dims : list Z) : res (store * bool) :=
  match get_t σ t with
  | None => Panic
  | Some d =>
    if negb (size (shp (d_ap d)) =? size dims) then Ok (σ, true)
    else if d_view d && is_nc (ord (d_ap d)) then Ok (σ, true)
    else
      match (if is_some (d_old d) then m_transpose_d σ d else Ok (σ, d)) with
      | Ok (σ1, d1) =>
        let a := d_ap d1 in
        let a' := match dims with
                  | [] => mkAP [] [] (ord a) true
                  | _ => mkAP dims (default_strides (ord a) dims) (ord a) true
                  end in
        let d2 := mkDense (d_buf d1) (d_off d1) (d_len d1) a' (d_old d1) (d_view d1) in
        let σ2 := set_t σ1 t d2 in
        (* sanity(): the shape has already been replaced when it fails *)
        if negb (d_view d2) && negb (d_len d2 =? size dims) && negb (is_scalar dims) then Ok (σ2, true)
        else Ok (σ2, false)
      | Err => Err
      | Panic => Panic
      end
  end.

(* the metadata invariant of C13, as a boolean on the model state: size = product of the shape,
   and the offsets of the box are pairwise distinct positions inside the window *)
Fixpoint all_distinct (l : list Z) : bool :=
  match l with [] => true | x :: r => negb (existsb (Z.eqb x) r) && all_distinct r end.

Definition meta_inv_obs (d : dense) : bool * bool :=
  let a := d_ap d in
  let offs := map (fun c => match ltoi (shp a) (str a) c with Ok o => o | _ => -1 end) (coords (shp a)) in
  (all_distinct offs, forallb (fun o => (0 <=? o) && (o <? d_len d)) offs).

(* ---- observation ---- *)
Definition logical (σ : store) (t : nat) : list (res V) :=
  match get_t σ t with
  | None => []
  | Some d => map (m_at σ t) (coords (shp (d_ap d)))
  end.

End Mem.
