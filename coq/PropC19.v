(* PropC19.v — C19 "No operation history corrupts another live tensor or the caller's slices". *)
From TV Require Import Base Index AP Iter Mem Run Pool MemProofs PoolProofs.

(* Caller-owned axes slices keep their contents over every history of lazy transposes, undos and
   physical transposes (the model after the repair of finding F18: T/SafeT store a private copy). *)
Theorem C19_caller_slices_unchanged : forall ops p i s,
  nth_error (p_slices p) i = Some s ->
  nth_error (p_slices (fold_left papply ops p)) i = Some s.
Proof. exact caller_slices_unchanged. Qed.
Print Assumptions C19_caller_slices_unchanged.

(* A whole-tensor write names one destination: no tensor's metadata changes and tensors in other
   allocations keep every cell. *)
Theorem C19_memset_other_tensors : forall (V : Type) (σ : store V) t d v u du,
  get_t V σ t = Some d -> wf_dense V σ d ->
  (is_materializable d = true \/ d_len d = size (shp (d_ap d))) ->
  get_t V σ u = Some du -> d_buf du <> d_buf d ->
  exists σ', m_memset V σ t v = Ok σ' /\ tens V σ' = tens V σ /\
             forall c, cell V σ' du c = cell V σ du c.
Proof. exact memset_other_tensors. Qed.
Print Assumptions C19_memset_other_tensors.

Theorem C19_UT_only_own_tensor : forall (V : Type) (σ : store V) t σ' u,
  m_UT V σ t = Ok σ' -> u <> t -> get_t V σ' u = get_t V σ u /\ bufs V σ' = bufs V σ.
Proof. exact UT_only_own_tensor. Qed.
Print Assumptions C19_UT_only_own_tensor.

Theorem C19_T_only_own_tensor : forall (V : Type) (σ : store V) t axes d σ' u,
  get_t V σ t = Some d -> d_old d = None -> m_T V σ t axes = Ok σ' -> u <> t ->
  get_t V σ' u = get_t V σ u /\ bufs V σ' = bufs V σ.
Proof. exact T_only_own_tensor. Qed.
Print Assumptions C19_T_only_own_tensor.

Example C19_example :
  let p := mkP [[1; 0; 2]] [] in
  nth_error (p_slices (fold_left papply [PT 0 [2; 0; 1] None None true; PUT 0 None] p)) 0 = Some [1; 0; 2].
Proof. vm_compute. reflexivity. Qed.
