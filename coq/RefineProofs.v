(* RefineProofs.v — SIMULATION between the MODEL interpreter (Run.step_model over Mem.store) and the
   SPEC interpreter (Run.step_spec over Spec.sstate) for a fragment of the operation language:
   a relation R between model stores and spec states, one simulation lemma per operation, and the
   lifting to whole histories (history_refines). *)
From Coq Require Import Lia ZifyBool.
From TV Require Import Base Index AP Iter Mem Spec Guards Run IndexProofs IterProofs APProofs MemProofs.

Arguments Z.mul : simpl never.
Arguments Z.add : simpl never.
Arguments Z.sub : simpl never.
Arguments Z.leb : simpl never.
Arguments Z.ltb : simpl never.
Arguments Z.eqb : simpl never.
Arguments Z.div : simpl never.
Arguments Z.modulo : simpl never.
Arguments Z.min : simpl never.
Arguments Z.of_nat : simpl never.
Arguments Z.to_nat : simpl never.

(* ====================================================================================== *)
(*  0. generic list facts                                                                 *)
(* ====================================================================================== *)
Lemma pos_shapeb_sound s : pos_shapeb s = true -> pos_shape s.
Proof.
  unfold pos_shapeb, pos_shape. intro H. apply Forall_forall. intros d Hd.
  rewrite forallb_forall in H. specialize (H d Hd). lia.
Qed.

Lemma pos_shape_complete s : pos_shape s -> pos_shapeb s = true.
Proof.
  unfold pos_shapeb, pos_shape. intro H. apply forallb_forall. intros d Hd.
  rewrite Forall_forall in H. specialize (H d Hd). lia.
Qed.

Lemma nth_error_nth_default {A} (d : A) : forall (l : list A) n x, nth_error l n = Some x -> nth n l d = x.
Proof. induction l as [|h t IH]; intros [|n] x H; cbn in *; try discriminate; [congruence|auto]. Qed.

Lemma nth_error_of_nth {A} (d : A) : forall (l : list A) n, (n < length l)%nat -> nth_error l n = Some (nth n l d).
Proof. induction l as [|h t IH]; intros [|n] H; cbn in *; try lia; [reflexivity|apply IH; lia]. Qed.

(* the cell list of a tensor is its own row-major enumeration *)
Lemma cells_self sh (cells : list nat) : pos_shape sh -> length cells = Z.to_nat (size sh) ->
  map (fun c => nth (Z.to_nat (rank_rm sh c)) cells O) (coords sh) = cells.
Proof.
  intros Hp Hl. apply nth_error_ext_eq. intro k.
  destruct (Nat.lt_ge_cases k (length cells)) as [Hk|Hk].
  - rewrite nth_error_map.
    replace k with (Z.to_nat (Z.of_nat k)) at 1 by lia.
    rewrite nth_error_coords by lia. cbn [option_map].
    rewrite rank_unrank by (auto; lia). rewrite Nat2Z.id.
    symmetry. apply nth_error_of_nth. exact Hk.
  - transitivity (@None nat); [|symmetry]; apply nth_error_None; [|exact Hk].
    rewrite map_length, coords_length. lia.
Qed.

Lemma nth_map_coords {B} (f : list Z -> B) (d : B) sh c : pos_shape sh -> inbox sh c ->
  nth (Z.to_nat (rank_rm sh c)) (map f (coords sh)) d = f c.
Proof.
  intros Hp Hc. apply nth_error_nth_default. rewrite nth_error_map.
  pose proof (rank_rm_bound sh c Hp Hc) as Hr.
  rewrite nth_error_coords by exact Hr. cbn [option_map]. rewrite unrank_rank by assumption. reflexivity.
Qed.

Lemma In_nth_rank sh (cells : list nat) k : pos_shape sh -> length cells = Z.to_nat (size sh) ->
  In k cells -> exists c, inbox sh c /\ nth (Z.to_nat (rank_rm sh c)) cells O = k.
Proof.
  intros Hp Hl Hin. apply (In_nth _ _ O) in Hin as (j & Hj & Hn).
  exists (unrank sh (Z.of_nat j)). split; [apply unrank_inbox; [exact Hp|lia]|].
  rewrite rank_unrank by (auto; lia). rewrite Nat2Z.id. exact Hn.
Qed.

Lemma upd_nth {A} (d : A) (l : list A) n m v : (n < length l)%nat ->
  nth m (upd l n v) d = if Nat.eqb n m then v else nth m l d.
Proof.
  intro H. destruct (Nat.eqb_spec n m) as [->|Hne]; [apply nth_upd_same; exact H|apply nth_upd_other; exact Hne].
Qed.

(* ====================================================================================== *)
(*  1. the relation                                                                        *)
(* ====================================================================================== *)
Local Arguments bufs {V}.
Local Arguments tens {V}.
Local Arguments s_vals {V}.
Local Arguments s_tens {V}.

Section Refine.
Variable V : Type.
Variable vzero : V.

Local Notation get_buf := (get_buf V).
Local Notation get_t := (get_t V).
Local Notation set_t := (set_t V).
Local Notation sget := (sget V).
Local Notation sset := (sset V).
Local Notation bget := (bget V).
Local Notation wf_dense := (wf_dense V).
Local Notation step_model := (step_model V vzero).
Local Notation step_spec := (step_spec V vzero).
Local Notation guard_op := (guard_op V).

(* the cell map: which abstract SPEC cell a buffer position stands for (partial: positions no
   tensor can ever name — gaps of a cloned strided window — stand for none) *)
Definition cmap := nat -> Z -> option nat.

(* tensor d, read through access pattern a, IS the spec tensor (sh, cells) *)
Definition rep (φ : cmap) (d : dense) (a : ap) (sh : list Z) (cells : list nat) : Prop :=
  shp a = sh /\ wf_ap (d_len d) a /\ length cells = Z.to_nat (size sh) /\
  forall c, inbox sh c ->
    φ (d_buf d) (d_off d + dot (str a) c) = Some (nth (Z.to_nat (rank_rm sh c)) cells O).

(* every position a1 names is named by a2 *)
Definition same_cells (a1 a2 : ap) : Prop :=
  forall c1, inbox (shp a1) c1 -> exists c2, inbox (shp a2) c2 /\ dot (str a1) c1 = dot (str a2) c2.

(* agreement on the pending lazy transpose *)
Definition pend_ok (φ : cmap) (d : dense) (x : sten) : Prop :=
  match d_old d with
  | None => s_pending x = O /\ s_undo x = None
  | Some o =>
    same_cells o (d_ap d) /\ same_cells (d_ap d) o /\
    ((s_pending x = 1%nat /\ exists sh0 cells0, s_undo x = Some (sh0, cells0) /\ rep φ d o sh0 cells0)
     \/ (s_pending x = O /\ s_undo x = None /\ rep φ d o (s_shape x) (s_cells x)))
  end.

(* the positions carrying a cell inside the window of a tensor that owns its storage are that
   tensor's own elements *)
Definition cover (φ : cmap) (d : dense) : Prop :=
  forall p k, φ (d_buf d) p = Some k -> d_off d <= p < d_off d + d_len d ->
    exists c, inbox (shp (d_ap d)) c /\ p = pos d c.

Definition ten_ok (φ : cmap) (σ : store V) (d : dense) (x : sten) : Prop :=
  wf_dense σ d /\ rep φ d (d_ap d) (s_shape x) (s_cells x) /\
  s_view x = d_view d /\ pend_ok φ d x /\
  (d_view d = false -> cover φ d).

Definition phi_valid (φ : cmap) (σ : store V) (ς : sstate V) : Prop :=
  forall b p k, φ b p = Some k ->
    (k < length (s_vals ς))%nat /\ bget σ b p = Some (nth k (s_vals ς) vzero).

Definition phi_inj (φ : cmap) : Prop :=
  forall b p b' p' k, φ b p = Some k -> φ b' p' = Some k -> b = b' /\ p = p'.

Definition Rphi (φ : cmap) (σ : store V) (ς : sstate V) : Prop :=
  length (tens σ) = length (s_tens ς) /\ phi_valid φ σ ς /\ phi_inj φ /\
  forall t d x, get_t σ t = Some d -> sget ς t = Some x -> ten_ok φ σ d x.

Definition R (σ : store V) (ς : sstate V) : Prop := exists φ, Rphi φ σ ς.

Lemma R_empty : R (empty_store V) (empty_sstate V).
Proof.
  exists (fun _ _ => None). split; [reflexivity|]. split; [intros b p k H; discriminate|].
  split; [intros b p b' p' k H; discriminate|].
  intros t d x H. destruct t; discriminate.
Qed.

(* ---------- consequences of R ---------- *)
Lemma bget_buf_lt σ b p v : bget σ b p = Some v -> (b < length (bufs σ))%nat.
Proof.
  intro H. destruct (Nat.lt_ge_cases b (length (bufs σ))) as [Hlt|Hge]; [exact Hlt|].
  unfold MemProofs.bget, Mem.get_buf in H. rewrite nth_overflow in H by exact Hge.
  unfold zget in H. destruct (p <? 0); [discriminate|]. destruct (Z.to_nat p); discriminate.
Qed.

Lemma get_sget φ σ ς t d : Rphi φ σ ς -> get_t σ t = Some d -> exists x, sget ς t = Some x.
Proof.
  intros (Hl & _) H. apply nth_error_Some_lt in H.
  destruct (sget ς t) as [x|] eqn:E; [eauto|].
  apply nth_error_None in E. lia.
Qed.

Lemma rep_cell_in φ d a sh cells c : rep φ d a sh cells -> inbox sh c ->
  In (nth (Z.to_nat (rank_rm sh c)) cells O) cells.
Proof.
  intros (Hs & (Hp & _) & Hl & _) Hc. apply nth_In. rewrite Hs in Hp.
  pose proof (rank_rm_bound sh c Hp Hc). lia.
Qed.

(* the cells of a represented tensor are pairwise distinct *)
Lemma rep_inj φ d a sh cells c c' : phi_inj φ -> rep φ d a sh cells -> inbox sh c -> inbox sh c' ->
  nth (Z.to_nat (rank_rm sh c)) cells O = nth (Z.to_nat (rank_rm sh c')) cells O -> c = c'.
Proof.
  intros Hinj (Hs & (Hp & _ & _ & _ & Hai) & _ & Hc) H1 H2 E.
  pose proof (Hc c H1) as E1. pose proof (Hc c' H2) as E2. rewrite E in E1.
  destruct (Hinj _ _ _ _ _ E1 E2) as [_ Hpp]. rewrite <- Hs in H1, H2.
  apply Hai; [exact H1|exact H2|lia].
Qed.

(* observations agree *)
Theorem R_obs σ ς t d x : R σ ς -> get_t σ t = Some d -> sget ς t = Some x ->
  shp (d_ap d) = s_shape x /\ logical V σ t = map Ok (slogical V vzero ς x).
Proof.
  intros (φ & _ & Hv & _ & Hall) Ht Hx.
  destruct (Hall t d x Ht Hx) as (Hwf & (Hs & Ha & Hl & Hc) & _).
  split; [exact Hs|].
  unfold logical, slogical. change (Mem.get_t V σ t) with (get_t σ t). rewrite Ht, Hs.
  pose proof Ha as (Hp & _). rewrite Hs in Hp.
  rewrite <- (cells_self (s_shape x) (s_cells x) Hp Hl) at 1.
  rewrite !map_map. apply map_ext_in. intros c Hin.
  apply coords_In in Hin; [|exact Hp].
  assert (Hin' : inbox (shp (d_ap d)) c) by (rewrite Hs; exact Hin).
  destruct (m_at_cell V σ t d c Ht Hwf Hin') as (v & Ev & _ & Bv).
  rewrite Ev. f_equal. specialize (Hc c Hin). fold (pos d c) in Hc.
  destruct (Hv _ _ _ Hc) as [_ Bk]. congruence.
Qed.

(* ten_ok looks at the cell map on the tensor's own allocation only *)
Lemma rep_ext φ φ' d a sh cells : (forall p, φ' (d_buf d) p = φ (d_buf d) p) ->
  rep φ d a sh cells -> rep φ' d a sh cells.
Proof.
  intros He (Hs & Ha & Hl & Hc). split; [exact Hs|]. split; [exact Ha|]. split; [exact Hl|].
  intros c Hi. rewrite He. apply Hc. exact Hi.
Qed.

Lemma ten_ok_ext φ φ' σ σ' d x : (forall p, φ' (d_buf d) p = φ (d_buf d) p) ->
  wf_dense σ' d -> ten_ok φ σ d x -> ten_ok φ' σ' d x.
Proof.
  intros He Hwf (_ & Hr & Hv & Hp & Hcov).
  split; [exact Hwf|]. split; [apply (rep_ext φ); assumption|]. split; [exact Hv|].
  split.
  - unfold pend_ok in *. destruct (d_old d) as [o|]; [|exact Hp].
    destruct Hp as (P2 & P3 & P4). split; [exact P2|]. split; [exact P3|].
    destruct P4 as [(Q1 & sh0 & cells0 & Q2 & Q3)|(Q1 & Q2 & Q3)].
    + left. split; [exact Q1|]. exists sh0, cells0. split; [exact Q2|]. apply (rep_ext φ); assumption.
    + right. split; [exact Q1|]. split; [exact Q2|]. apply (rep_ext φ); assumption.
  - intros Hnv p k Hk Hr'. rewrite He in Hk. apply (Hcov Hnv p k Hk Hr').
Qed.

(* ====================================================================================== *)
(*  2. allocation of a fresh buffer + fresh tensor (New, Clone, ...)                        *)
(* ====================================================================================== *)
Lemma get_buf_app_old (L : list (list V)) T nb b : (b < length L)%nat ->
  get_buf (mkStore V (L ++ [nb]) T) b = nth b L [].
Proof. intro H. unfold Mem.get_buf. cbn [bufs]. apply app_nth1. exact H. Qed.

Lemma get_buf_app_new (L : list (list V)) T nb : get_buf (mkStore V (L ++ [nb]) T) (length L) = nb.
Proof. unfold Mem.get_buf. cbn [bufs]. apply nth_app_last. Qed.

Lemma extends_alloc σ nb d' : extends V σ (mkStore V (bufs σ ++ [nb]) (tens σ ++ [d'])).
Proof.
  split.
  - intros b Hb. apply get_buf_app_old. exact Hb.
  - intros t d H. unfold Mem.get_t in *. cbn [tens]. rewrite nth_error_app1; [exact H|].
    apply nth_error_Some_lt in H. exact H.
Qed.

Lemma nth_error_app_snoc {A} (l : list A) y t z : nth_error (l ++ [y]) t = Some z ->
  (t < length l /\ nth_error l t = Some z)%nat \/ (t = length l /\ z = y).
Proof.
  intro H. destruct (Nat.lt_ge_cases t (length l)) as [Hlt|Hge].
  - left. rewrite nth_error_app1 in H by exact Hlt. auto.
  - right. rewrite nth_error_app2 in H by exact Hge.
    destruct (t - length l)%nat as [|j] eqn:E; cbn in H.
    + injection H as <-. split; [lia|reflexivity].
    + destruct j; discriminate.
Qed.

Lemma Rphi_alloc φ σ ς nb d' newvals x' (ψ : Z -> option nat) :
  Rphi φ σ ς ->
  let σ' := mkStore V (bufs σ ++ [nb]) (tens σ ++ [d']) in
  let ς' := mkSS V (s_vals ς ++ newvals) (s_tens ς ++ [x']) in
  let φ' := fun b p => if Nat.eqb b (length (bufs σ)) then ψ p else φ b p in
  (forall p k, ψ p = Some k ->
     (length (s_vals ς) <= k < length (s_vals ς) + length newvals)%nat /\
     zget nb p = Some (nth (k - length (s_vals ς)) newvals vzero)) ->
  (forall p p' k, ψ p = Some k -> ψ p' = Some k -> p = p') ->
  ten_ok φ' σ' d' x' ->
  Rphi φ' σ' ς'.
Proof.
  intros (Hlen & Hval & Hinj & Hall) σ' ς' φ' Hψ Hψi Hnew.
  assert (Hold : forall b p k, φ b p = Some k -> (b < length (bufs σ))%nat).
  { intros b p k H. destruct (Hval b p k H) as [_ Hb]. apply (bget_buf_lt _ _ _ _ Hb). }
  split; [unfold σ', ς'; cbn [tens s_tens]; rewrite !app_length; cbn [length]; lia|].
  split; [|split].
  - intros b p k H. unfold φ' in H. destruct (Nat.eqb_spec b (length (bufs σ))) as [->|Hne].
    + destruct (Hψ p k H) as [Hk Hz]. unfold ς'. cbn [s_vals]. rewrite app_length. split; [lia|].
      unfold MemProofs.bget, σ'. rewrite get_buf_app_new, Hz. f_equal.
      rewrite app_nth2 by lia. reflexivity.
    + destruct (Hval b p k H) as [Hk Hb]. unfold ς'. cbn [s_vals]. rewrite app_length. split; [lia|].
      unfold MemProofs.bget, σ'. rewrite get_buf_app_old by (apply (Hold b p k H)).
      rewrite app_nth1 by exact Hk. exact Hb.
  - intros b p b' p' k H1 H2. unfold φ' in H1, H2.
    destruct (Nat.eqb_spec b (length (bufs σ))) as [->|Hne];
      destruct (Nat.eqb_spec b' (length (bufs σ))) as [->|Hne'].
    + split; [reflexivity|]. apply (Hψi p p' k H1 H2).
    + destruct (Hψ p k H1) as [Hk _]. destruct (Hval b' p' k H2) as [Hk' _]. lia.
    + destruct (Hψ p' k H2) as [Hk _]. destruct (Hval b p k H1) as [Hk' _]. lia.
    + apply (Hinj b p b' p' k H1 H2).
  - intros t d x Ht Hx. unfold Mem.get_t, σ' in Ht. unfold Spec.sget, ς' in Hx. cbn [tens s_tens] in Ht, Hx.
    apply nth_error_app_snoc in Ht as [[Hlt Ht]|[-> ->]];
      apply nth_error_app_snoc in Hx as [[Hlt' Hx]|[Hx ->]]; try lia.
    + specialize (Hall t d x Ht Hx). pose proof Hall as (Hwf & _).
      pose proof (wf_dense_buf_lt V σ d Hwf) as Hb.
      apply (ten_ok_ext φ φ' σ σ'); [|apply (extends_wf V σ σ'); [apply extends_alloc|exact Hwf]|exact Hall].
      intro p. unfold φ'. destruct (Nat.eqb_spec (d_buf d) (length (bufs σ))); [lia|reflexivity].
    + exact Hnew.
Qed.

(* ====================================================================================== *)
(*  3. ONew (row-major)                                                                    *)
(* ====================================================================================== *)
Lemma step_model_new0 σ sh data : zlen data = size sh ->
  step_model σ (ONew V 0 sh data)
  = (mkStore V (bufs σ ++ [data])
       (tens σ ++ [mkDense (length (bufs σ)) 0 (zlen data) (mkAP sh (calc_strides sh) 0 true) None false]),
     RNew V (length (tens σ))).
Proof.
  intro Hl. unfold Run.step_model. change (0 =? 2) with false. change (0 =? 1) with false.
  cbv iota. unfold new_raw. replace (zlen data =? size sh) with true by lia. cbn [negb andb].
  reflexivity.
Qed.

Lemma step_spec_new0 ς sh data : zlen data = size sh -> pos_shapeb sh = true ->
  step_spec ς (ONew V 0 sh data)
  = Some (mkSS V (s_vals ς ++ data)
            (s_tens ς ++ [mkSten sh (seq (length (s_vals ς)) (length data)) None 0 false false]),
          RNew V (length (s_tens ς))).
Proof.
  intros Hl Hp. unfold Run.step_spec, spec_new. replace (zlen data =? size sh) with true by lia.
  rewrite Hp. cbn [negb orb]. change (0 =? 1) with false. change (0 =? 0) with true. reflexivity.
Qed.

Lemma sim_ONew0 σ ς sh data σ' r : R σ ς ->
  pos_shapeb sh = true -> zlen data = size sh ->
  step_model σ (ONew V 0 sh data) = (σ', r) ->
  exists ς', step_spec ς (ONew V 0 sh data) = Some (ς', r) /\ R σ' ς'.
Proof.
  intros (φ & HR) Hpb Hl H. rewrite (step_model_new0 σ sh data Hl) in H. injection H as <- <-.
  rewrite (step_spec_new0 ς sh data Hl Hpb). pose proof HR as (Hlen & _). rewrite Hlen.
  eexists. split; [reflexivity|].
  pose proof (pos_shapeb_sound sh Hpb) as Hp. pose proof (size_pos sh Hp) as Hsz.
  set (n0 := length (s_vals ς)).
  set (ψ := fun p : Z => if (0 <=? p) && (p <? zlen data) then Some (n0 + Z.to_nat p)%nat else None).
  exists (fun b p => if Nat.eqb b (length (bufs σ)) then ψ p else φ b p).
  apply (Rphi_alloc φ σ ς data _ data _ ψ HR).
  - intros p k Hk. unfold ψ in Hk. destruct ((0 <=? p) && (p <? zlen data)) eqn:E; [|discriminate].
    injection Hk as <-. fold n0. unfold zlen in E. split; [lia|].
    replace (n0 + Z.to_nat p - n0)%nat with (Z.to_nat p) by lia.
    rewrite zget_nth_error by lia. apply nth_error_of_nth. lia.
  - intros p p' k H1 H2. unfold ψ in H1, H2.
    destruct ((0 <=? p) && (p <? zlen data)) eqn:E1; [|discriminate].
    destruct ((0 <=? p') && (p' <? zlen data)) eqn:E2; [|discriminate].
    injection H1 as <-. injection H2 as H2. lia.
  - set (d' := mkDense (length (bufs σ)) 0 (zlen data) (mkAP sh (calc_strides sh) 0 true) None false).
    assert (Ha : wf_ap (d_len d') (d_ap d')).
    { unfold d'. cbn [d_len d_ap]. rewrite Hl. apply wf_ap_rowmajor. exact Hp. }
    split; [|split; [|split; [|split]]].
    + split; [|split; [exact Ha|discriminate]]. unfold wf_win, d'. cbn [d_off d_len d_buf].
      rewrite get_buf_app_new. unfold zlen. lia.
    + split; [reflexivity|]. split; [exact Ha|]. cbn [s_shape s_cells]. split; [rewrite seq_length; unfold zlen in Hl; lia|].
      intros c Hc. unfold d'. cbn [d_buf d_off d_ap str]. rewrite Nat.eqb_refl.
      rewrite dot_calc_strides_rank by (apply inbox_length; exact Hc).
      pose proof (rank_rm_bound sh c Hp Hc) as Hr. unfold ψ.
      replace ((0 <=? 0 + rank_rm sh c) && (0 + rank_rm sh c <? zlen data)) with true by lia.
      rewrite seq_nth by (unfold zlen in Hl; lia). repeat f_equal; lia.
    + reflexivity.
    + unfold pend_ok, d'. cbn [d_old s_pending s_undo]. split; reflexivity.
    + intros _ p k Hk Hr. unfold d' in *. cbn [d_buf d_off d_len d_ap shp str] in *.
      exists (unrank sh p). split; [apply unrank_inbox; [exact Hp|lia]|].
      unfold pos. cbn [d_off d_ap str]. rewrite <- rk_dot, rk_unrank by (auto; lia). lia.
Qed.

(* ====================================================================================== *)
(*  4. OAt / OSetAt                                                                        *)
(* ====================================================================================== *)

Lemma sim_OAt σ ς t c σ' r : R σ ς -> guard_op σ (OAt V t c) = GOk ->
  step_model σ (OAt V t c) = (σ', r) ->
  exists ς', step_spec ς (OAt V t c) = Some (ς', r) /\ R σ' ς'.
Proof.
  intros HR Hg H. pose proof HR as (φ & Hφ).
  unfold Run.guard_op in Hg. change (Mem.get_t V σ t) with (get_t σ t) in Hg.
  destruct (get_t σ t) as [d|] eqn:Ht; [|discriminate]. clear Hg.
  destruct (get_sget φ σ ς t d Hφ Ht) as [x Hx].
  pose proof Hφ as (_ & Hval & _ & Hall).
  destruct (Hall t d x Ht Hx) as (Hwf & (Hs & Ha & Hl & Hc) & _).
  unfold Run.step_model in H. unfold Run.step_spec, spec_at. change (Spec.sget V ς t) with (sget ς t).
  rewrite Hx. destruct (inboxb (s_shape x) c) eqn:Eb.
  - apply inboxb_spec in Eb. assert (Eb' : inbox (shp (d_ap d)) c) by (rewrite Hs; exact Eb).
    destruct (m_at_cell V σ t d c Ht Hwf Eb') as (v & Ev & _ & Bv). rewrite Ev in H. injection H as <- <-.
    specialize (Hc c Eb). fold (pos d c) in Hc. destruct (Hval _ _ _ Hc) as [_ Bk].
    exists ς. split; [|exact HR]. f_equal. f_equal. f_equal. congruence.
  - assert (Eb' : ~ inbox (shp (d_ap d)) c).
    { rewrite Hs. intro Hi. apply inboxb_spec in Hi. congruence. }
    destruct Ha as (_ & Hlen & _).
    rewrite (m_at_outside V σ t d c Ht Hlen Eb') in H. injection H as <- <-.
    exists ς. split; [reflexivity|exact HR].
Qed.

(* a store that differs from σ in buffer contents only, with the cell values following *)
Lemma Rphi_frame φ σ ς σ' vals' :
  Rphi φ σ ς -> frame_eq V σ σ' -> length vals' = length (s_vals ς) ->
  (forall b p k, φ b p = Some k -> bget σ' b p = Some (nth k vals' vzero)) ->
  Rphi φ σ' (mkSS V vals' (s_tens ς)).
Proof.
  intros (Hlen & Hval & Hinj & Hall) (Ft & Fb & Fl) Hvl Hnew.
  split; [cbn [s_tens]; congruence|]. split; [|split; [exact Hinj|]].
  - intros b p k Hk. cbn [s_vals]. destruct (Hval b p k Hk) as [Hk' _]. split; [lia|apply Hnew; exact Hk].
  - intros t d x Ht Hx. unfold Mem.get_t in Ht. rewrite Ft in Ht.
    change (sget ς t = Some x) in Hx. specialize (Hall t d x Ht Hx).
    apply (ten_ok_ext φ φ σ σ'); [reflexivity| |exact Hall].
    destruct Hall as (Hwf & _). apply (wf_dense_frame V σ); [exact Fl|exact Hwf].
Qed.

Lemma sim_OSetAt σ ς t c v σ' r : R σ ς -> guard_op σ (OSetAt V t c v) = GOk ->
  step_model σ (OSetAt V t c v) = (σ', r) ->
  exists ς', step_spec ς (OSetAt V t c v) = Some (ς', r) /\ R σ' ς'.
Proof.
  intros HR Hg H. pose proof HR as (φ & Hφ).
  unfold Run.guard_op in Hg. change (Mem.get_t V σ t) with (get_t σ t) in Hg.
  destruct (get_t σ t) as [d|] eqn:Ht; [|discriminate]. clear Hg.
  destruct (get_sget φ σ ς t d Hφ Ht) as [x Hx].
  pose proof Hφ as (_ & Hval & Hinj & Hall).
  destruct (Hall t d x Ht Hx) as (Hwf & (Hs & Ha & Hl & Hc) & _).
  unfold Run.step_model in H. unfold Run.step_spec, spec_setat. change (Spec.sget V ς t) with (sget ς t).
  rewrite Hx. destruct (inboxb (s_shape x) c) eqn:Eb.
  - apply inboxb_spec in Eb. assert (Eb' : inbox (shp (d_ap d)) c) by (rewrite Hs; exact Eb).
    destruct (m_setat_frame V σ t d c v Ht Hwf Eb') as (σ1 & E1 & Hfr & Hsame & Hoth).
    rewrite E1 in H. cbn [lift_store] in H. injection H as <- <-.
    eexists. split; [reflexivity|]. exists φ.
    specialize (Hc c Eb). fold (pos d c) in Hc. set (k0 := nth (Z.to_nat (rank_rm (s_shape x) c)) (s_cells x) O) in *.
    destruct (Hval _ _ _ Hc) as [Hk0 _].
    apply (Rphi_frame φ σ ς σ1); [exact Hφ|exact Hfr|apply upd_length|].
    intros b p k Hk. rewrite upd_nth by exact Hk0. destruct (Nat.eqb_spec k0 k) as [<-|Hne].
    + destruct (Hinj _ _ _ _ _ Hk Hc) as [-> ->]. exact Hsame.
    + destruct (Hval _ _ _ Hk) as [_ Bk]. rewrite <- Bk. apply Hoth.
      destruct (Nat.eq_dec b (d_buf d)) as [->|Hb]; [|left; exact Hb].
      right. intro Hp. subst p. congruence.
  - assert (Eb' : ~ inbox (shp (d_ap d)) c).
    { rewrite Hs. intro Hi. apply inboxb_spec in Hi. congruence. }
    destruct Ha as (_ & Hlen & _).
    rewrite (m_setat_outside V σ t d c v Ht Hlen Eb') in H. cbn [lift_store] in H. injection H as <- <-.
    exists ς. split; [reflexivity|exact HR].
Qed.

(* ====================================================================================== *)
(*  5. OMemset / OZero                                                                     *)
(* ====================================================================================== *)
Lemma win_fill_window σ d v : wf_win V σ d ->
  exists σ', win_fill V σ d (zseq 0 (Z.to_nat (d_len d))) v = Some σ' /\ frame_eq V σ σ' /\
    (forall b p, b <> d_buf d -> bget σ' b p = bget σ b p) /\
    (forall p, d_off d <= p < d_off d + d_len d -> bget σ' (d_buf d) p = Some v) /\
    (forall p, ~ (d_off d <= p < d_off d + d_len d) -> bget σ' (d_buf d) p = bget σ (d_buf d) p).
Proof.
  intro Hw. pose proof Hw as (W0 & W1 & W2).
  set (idx := zseq 0 (Z.to_nat (d_len d))).
  assert (Hrange : Forall (fun i => 0 <= i < d_len d) idx).
  { apply Forall_forall. intros i Hi. apply APProofs.zseq_In in Hi. lia. }
  set (ws := map (fun i => (d_off d + i, v)) idx).
  exists (writes V σ (d_buf d) ws). split; [apply win_fill_writes; assumption|].
  assert (Hws : forall q w, In (q, w) ws -> 0 <= q < zlen (get_buf σ (d_buf d))).
  { intros q w Hin. apply in_map_iff in Hin as (i & E & Hi). injection E as <- <-.
    apply APProofs.zseq_In in Hi. lia. }
  assert (Hfst : forall p, In p (map fst ws) <-> d_off d <= p < d_off d + d_len d).
  { intro p. unfold ws. rewrite map_map. cbn [fst]. rewrite in_map_iff. split.
    - intros (i & <- & Hi). apply APProofs.zseq_In in Hi. lia.
    - intro Hp. exists (p - d_off d). split; [lia|]. apply APProofs.zseq_In. lia. }
  split; [apply writes_frame|]. split; [|split].
  - intros b p Hne. apply writes_other_buf. exact Hne.
  - intros p Hp. apply (writes_spec V (d_buf d) ws σ Hws p).
    + apply Hfst. exact Hp.
    + intros w Hin. apply in_map_iff in Hin as (i & E & _). congruence.
  - intros p Hp. apply (writes_spec V (d_buf d) ws σ Hws p). rewrite Hfst. exact Hp.
Qed.

(* what a whole-tensor fill does to the store, for EVERY well-formed tensor: the tensor's elements
   become v; anything else that changes lies inside the window of a tensor owning its storage *)
Definition fill_post (σ σ' : store V) (d : dense) (v : V) : Prop :=
  frame_eq V σ σ' /\
  (forall c, inbox (shp (d_ap d)) c -> bget σ' (d_buf d) (pos d c) = Some v) /\
  (forall b p, bget σ' b p = bget σ b p \/
     (b = d_buf d /\ ((exists c, inbox (shp (d_ap d)) c /\ p = pos d c) \/
                      (d_view d = false /\ d_off d <= p < d_off d + d_len d)))).

Lemma fill_any σ d v : wf_dense σ d ->
  exists σ',
    (if is_materializable d then
       match iter_all (d_ap d) with
       | None => Panic
       | Some idx => match win_fill V σ d idx v with Some σ' => Ok σ' | None => Panic end
       end
     else match win_fill V σ d (zseq 0 (Z.to_nat (d_len d))) v with Some σ' => Ok σ' | None => Panic end)
    = Ok σ' /\ fill_post σ σ' d v.
Proof.
  intro Hwf. destruct (is_materializable d) eqn:Em.
  - destruct (fill_dispatch V σ d v Hwf (or_introl Em)) as (σ' & E & Hfr & Hoth & Hcells & Hrest).
    rewrite Em in E. exists σ'. split; [exact E|]. split; [exact Hfr|]. split; [exact Hcells|].
    intros b p. destruct (Nat.eq_dec b (d_buf d)) as [->|Hb]; [|left; apply Hoth; exact Hb].
    destruct (in_dec Z.eq_dec p (map (pos d) (coords (shp (d_ap d))))) as [Hin|Hnin].
    + right. split; [reflexivity|]. left. apply in_map_iff in Hin as (c & <- & Hc).
      exists c. split; [|reflexivity]. destruct Hwf as (_ & (Hp & _) & _). apply coords_In in Hc; assumption.
    + left. apply Hrest. intros c Hc Hpc. apply Hnin. apply in_map_iff. exists c. split; [auto|].
      destruct Hwf as (_ & (Hp & _) & _). apply coords_In; assumption.
  - unfold is_materializable in Em. apply orb_false_iff in Em as [Ev _].
    pose proof Hwf as (Hw & (_ & _ & _ & Hb & _) & _).
    destruct (win_fill_window σ d v Hw) as (σ' & E & Hfr & Hoth & Hin & Hout).
    rewrite E. exists σ'. split; [reflexivity|]. split; [exact Hfr|]. split.
    + intros c Hc. apply Hin. specialize (Hb c Hc). unfold pos. lia.
    + intros b p. destruct (Nat.eq_dec b (d_buf d)) as [->|Hne]; [|left; apply Hoth; exact Hne].
      destruct (Z_le_dec (d_off d) p) as [H1|H1]; [destruct (Z_lt_dec p (d_off d + d_len d)) as [H2|H2]|].
      * right. split; [reflexivity|]. right. split; [exact Ev|lia].
      * left. apply Hout. lia.
      * left. apply Hout. lia.
Qed.

Lemma write_cells_const (v : V) : forall cells vals,
  (forall k, In k cells -> (k < length vals)%nat) ->
  let vals' := write_cells V vals cells (map (fun _ => v) cells) in
  length vals' = length vals /\
  forall k, (In k cells -> nth k vals' vzero = v) /\ (~ In k cells -> nth k vals' vzero = nth k vals vzero).
Proof.
  induction cells as [|c cells IH]; intros vals Hb; cbn [write_cells map].
  - split; [reflexivity|]. intro k. split; [intros []|reflexivity].
  - assert (Hc : (c < length vals)%nat) by (apply Hb; left; reflexivity).
    destruct (IH (upd vals c v)) as [Hl Hk].
    { intros k Hk. rewrite upd_length. apply Hb. right. exact Hk. }
    cbn zeta in Hl, Hk. split; [rewrite Hl; apply upd_length|].
    intro k. destruct (Hk k) as [K1 K2]. split.
    + intros [->|Hin].
      * destruct (in_dec Nat.eq_dec k cells) as [Hi|Hi]; [apply K1; exact Hi|].
        rewrite (K2 Hi). apply nth_upd_same. exact Hc.
      * apply K1. exact Hin.
    + intro Hn. rewrite K2 by (intro; apply Hn; right; assumption).
      apply nth_upd_other. intro; subst. apply Hn. left. reflexivity.
Qed.

Lemma Rphi_fill φ σ ς t d x σ' v : Rphi φ σ ς -> get_t σ t = Some d -> sget ς t = Some x ->
  fill_post σ σ' d v ->
  Rphi φ σ' (mkSS V (write_cells V (s_vals ς) (s_cells x) (map (fun _ => v) (s_cells x))) (s_tens ς)).
Proof.
  intros Hφ Ht Hx (Hfr & Hcells & Hrest). pose proof Hφ as (_ & Hval & Hinj & Hall).
  destruct (Hall t d x Ht Hx) as (Hwf & Hrep & _ & _ & Hcov).
  pose proof Hrep as (Hs & Ha & Hl & Hc). pose proof Ha as (Hp & _). rewrite Hs in Hp.
  assert (Hbound : forall k, In k (s_cells x) -> (k < length (s_vals ς))%nat).
  { intros k Hk. destruct (In_nth_rank _ _ k Hp Hl Hk) as (c & Hc1 & <-).
    destruct (Hval _ _ _ (Hc c Hc1)) as [Hlt _]. exact Hlt. }
  destruct (write_cells_const v (s_cells x) (s_vals ς) Hbound) as [Hlen Hnth]. cbn zeta in Hlen, Hnth.
  apply (Rphi_frame φ σ ς σ'); [exact Hφ|exact Hfr|exact Hlen|].
  intros b p k Hk. destruct (Hnth k) as [N1 N2].
  destruct (in_dec Nat.eq_dec k (s_cells x)) as [Hin|Hnin].
  - rewrite (N1 Hin). destruct (In_nth_rank _ _ k Hp Hl Hin) as (c & Hc1 & Ek).
    pose proof (Hc c Hc1) as Hφc. rewrite Ek in Hφc.
    destruct (Hinj _ _ _ _ _ Hk Hφc) as [-> ->]. apply Hcells. rewrite Hs. exact Hc1.
  - rewrite (N2 Hnin). destruct (Hval _ _ _ Hk) as [_ Bk]. rewrite <- Bk.
    assert (Hcell : forall c, inbox (shp (d_ap d)) c -> b = d_buf d -> p = pos d c -> False).
    { intros c Hc1 -> ->. rewrite Hs in Hc1. pose proof (Hc c Hc1) as Hφc. fold (pos d c) in Hφc.
      apply Hnin. replace k with (nth (Z.to_nat (rank_rm (s_shape x) c)) (s_cells x) O) by congruence.
      apply (rep_cell_in φ d (d_ap d)); assumption. }
    destruct (Hrest b p) as [Hsame|[Hb [(c & Hc1 & Hpc)|[Hv Hwin]]]]; [exact Hsame| |].
    + exfalso. apply (Hcell c Hc1 Hb Hpc).
    + subst b. destruct (Hcov Hv p k Hk Hwin) as (c & Hc1 & Hpc). exfalso. apply (Hcell c Hc1 eq_refl Hpc).
Qed.

Lemma sim_OMemset σ ς t v σ' r : R σ ς -> guard_op σ (OMemset V t v) = GOk ->
  step_model σ (OMemset V t v) = (σ', r) ->
  exists ς', step_spec ς (OMemset V t v) = Some (ς', r) /\ R σ' ς'.
Proof.
  intros HR Hg H. pose proof HR as (φ & Hφ).
  unfold Run.guard_op in Hg. change (Mem.get_t V σ t) with (get_t σ t) in Hg.
  destruct (get_t σ t) as [d|] eqn:Ht; [|discriminate]. clear Hg.
  destruct (get_sget φ σ ς t d Hφ Ht) as [x Hx].
  pose proof Hφ as (_ & _ & _ & Hall). destruct (Hall t d x Ht Hx) as (Hwf & _).
  unfold Run.step_model, m_memset in H. change (Mem.get_t V σ t) with (get_t σ t) in H. rewrite Ht in H.
  destruct (fill_any σ d v Hwf) as (σ1 & E1 & Hpost). rewrite E1 in H. cbn [lift_store] in H.
  injection H as <- <-.
  unfold Run.step_spec, spec_fill. change (Spec.sget V ς t) with (sget ς t). rewrite Hx.
  eexists. split; [reflexivity|]. exists φ. apply (Rphi_fill φ σ ς t d x σ1 v Hφ Ht Hx Hpost).
Qed.

Lemma sim_OZero σ ς t σ' r : R σ ς -> guard_op σ (OZero V t) = GOk ->
  step_model σ (OZero V t) = (σ', r) ->
  exists ς', step_spec ς (OZero V t) = Some (ς', r) /\ R σ' ς'.
Proof.
  intros HR Hg H. pose proof HR as (φ & Hφ).
  unfold Run.guard_op in Hg. change (Mem.get_t V σ t) with (get_t σ t) in Hg.
  destruct (get_t σ t) as [d|] eqn:Ht; [|discriminate]. clear Hg.
  destruct (get_sget φ σ ς t d Hφ Ht) as [x Hx].
  pose proof Hφ as (_ & _ & _ & Hall). destruct (Hall t d x Ht Hx) as (Hwf & _).
  unfold Run.step_model, m_zero in H. change (Mem.get_t V σ t) with (get_t σ t) in H. rewrite Ht in H.
  destruct (fill_any σ d vzero Hwf) as (σ1 & E1 & Hpost). rewrite E1 in H. cbn [lift_store] in H.
  injection H as <- <-.
  unfold Run.step_spec, spec_fill. change (Spec.sget V ς t) with (sget ς t). rewrite Hx.
  eexists. split; [reflexivity|]. exists φ. apply (Rphi_fill φ σ ς t d x σ1 vzero Hφ Ht Hx Hpost).
Qed.

(* ====================================================================================== *)
(*  6. replacing one entry of the tensor table; OUT                                        *)
(* ====================================================================================== *)
Lemma sget_sset_same ς t x x' : sget ς t = Some x -> sget (sset ς t x') t = Some x'.
Proof.
  intro H. unfold Spec.sget, Spec.sset in *. cbn [s_tens]. apply nth_error_upd_same.
  apply nth_error_Some_lt in H. exact H.
Qed.

Lemma sget_sset_other ς t t0 x' : t0 <> t -> sget (sset ς t x') t0 = sget ς t0.
Proof. intro H. unfold Spec.sget, Spec.sset. cbn [s_tens]. apply nth_error_upd_other. congruence. Qed.

Lemma Rphi_set φ σ ς t d x d' x' : Rphi φ σ ς -> get_t σ t = Some d -> sget ς t = Some x ->
  ten_ok φ σ d' x' -> Rphi φ (set_t σ t d') (sset ς t x').
Proof.
  intros (Hlen & Hval & Hinj & Hall) Ht Hx Hnew.
  split; [unfold Mem.set_t, Spec.sset; cbn [tens s_tens]; rewrite !upd_length; exact Hlen|].
  split; [exact Hval|]. split; [exact Hinj|].
  intros t0 d0 x0 H0 X0. destruct (Nat.eq_dec t0 t) as [->|Hne].
  - rewrite (get_t_set_t_same V σ t d d' Ht) in H0. rewrite (sget_sset_same ς t x x' Hx) in X0.
    injection H0 as <-. injection X0 as <-. exact Hnew.
  - rewrite (get_t_set_t_other V σ t t0 d' Hne) in H0. rewrite (sget_sset_other ς t t0 x' Hne) in X0.
    apply (Hall t0 d0 x0 H0 X0).
Qed.

Lemma Rphi_set_model φ σ ς t d x d' : Rphi φ σ ς -> get_t σ t = Some d -> sget ς t = Some x ->
  ten_ok φ σ d' x -> Rphi φ (set_t σ t d') ς.
Proof.
  intros (Hlen & Hval & Hinj & Hall) Ht Hx Hnew.
  split; [unfold Mem.set_t; cbn [tens]; rewrite upd_length; exact Hlen|].
  split; [exact Hval|]. split; [exact Hinj|].
  intros t0 d0 x0 H0 X0. destruct (Nat.eq_dec t0 t) as [->|Hne].
  - rewrite (get_t_set_t_same V σ t d d' Ht) in H0. injection H0 as <-.
    assert (x0 = x) by congruence. subst. exact Hnew.
  - rewrite (get_t_set_t_other V σ t t0 d' Hne) in H0. apply (Hall t0 d0 x0 H0 X0).
Qed.

Lemma rep_same_window φ d d' a sh cells : d_buf d' = d_buf d -> d_off d' = d_off d -> d_len d' = d_len d ->
  rep φ d a sh cells -> rep φ d' a sh cells.
Proof. unfold rep. intros -> -> ->. tauto. Qed.

Lemma sim_OUT σ ς t σ' r : R σ ς -> is_some (get_t σ t) = true ->
  step_model σ (OUT V t) = (σ', r) ->
  exists ς', step_spec ς (OUT V t) = Some (ς', r) /\ R σ' ς'.
Proof.
  intros HR Hg H. pose proof HR as (φ & Hφ).
  destruct (get_t σ t) as [d|] eqn:Ht; [|discriminate]. clear Hg.
  destruct (get_sget φ σ ς t d Hφ Ht) as [x Hx].
  pose proof Hφ as (_ & _ & _ & Hall).
  destruct (Hall t d x Ht Hx) as (Hwf & Hrep & Hv & Hpend & Hcov).
  unfold Run.step_model, m_UT in H. change (Mem.get_t V σ t) with (get_t σ t) in H. rewrite Ht in H.
  cbn [lift_store] in H. injection H as <- <-.
  unfold Run.step_spec, spec_UT. change (Spec.sget V ς t) with (sget ς t). rewrite Hx.
  unfold pend_ok in Hpend. unfold ut_dense. destruct (d_old d) as [o|] eqn:Eo.
  - destruct Hpend as (P2 & P3 & P4).
    set (d' := mkDense (d_buf d) (d_off d) (d_len d) o None (d_view d)).
    assert (Hwf' : wf_dense σ d').
    { pose proof (wf_dense_ut V σ d Hwf) as W. unfold ut_dense in W. rewrite Eo in W. exact W. }
    assert (Hcov' : d_view d' = false -> cover φ d').
    { intros Hnv p k Hk Hr. destruct (Hcov Hnv p k Hk Hr) as (c & Hc & ->).
      destruct (P3 c Hc) as (c0 & Hc0 & Ed). exists c0. split; [exact Hc0|].
      unfold pos, d'. cbn [d_off d_ap]. lia. }
    destruct P4 as [(Q1 & sh0 & cells0 & Q2 & Q3)|(Q1 & Q2 & Q3)].
    + rewrite Q1, Q2. eexists. split; [reflexivity|]. exists φ.
      apply (Rphi_set φ σ ς t d x); [exact Hφ|exact Ht|exact Hx|].
      split; [exact Hwf'|]. split; [apply (rep_same_window φ d d'); auto|].
      split; [exact Hv|].
      split; [unfold pend_ok; cbn [d_old d' s_pending s_undo]; auto|exact Hcov'].
    + rewrite Q1. eexists. split; [reflexivity|]. exists φ.
      apply (Rphi_set_model φ σ ς t d x); [exact Hφ|exact Ht|exact Hx|].
      split; [exact Hwf'|]. split; [apply (rep_same_window φ d d'); auto|].
      split; [exact Hv|].
      split; [unfold pend_ok; cbn [d_old d']; auto|exact Hcov'].
  - destruct Hpend as [Q1 Q2]. rewrite Q1. exists ς. split; [reflexivity|].
    change (Mem.set_t V σ t d) with (set_t σ t d). rewrite (set_t_id V σ t d Ht). exact HR.
Qed.

(* ====================================================================================== *)
(*  7. OClone                                                                              *)
(* ====================================================================================== *)
Lemma pos_of_In k : forall l, In k l -> (pos_of k l < length l)%nat /\ nth (pos_of k l) l O = k.
Proof.
  induction l as [|y l IH]; intro H; [destruct H|]. cbn [pos_of].
  destruct (Nat.eqb_spec y k) as [->|Hne]; [cbn; split; [lia|reflexivity]|].
  destruct H as [H|H]; [congruence|]. destruct (IH H) as [I1 I2]. cbn [length nth]. split; [lia|exact I2].
Qed.

Lemma pos_of_nth (l : list nat) j :
  (forall i i', (i < length l)%nat -> (i' < length l)%nat -> nth i l O = nth i' l O -> i = i') ->
  (j < length l)%nat -> pos_of (nth j l O) l = j.
Proof.
  intros Hinj Hj. destruct (pos_of_In (nth j l O) l (nth_In l O Hj)) as [H1 H2].
  apply Hinj; assumption.
Qed.

Lemma rep_idx_inj φ d a sh cells : phi_inj φ -> rep φ d a sh cells ->
  forall i i', (i < length cells)%nat -> (i' < length cells)%nat -> nth i cells O = nth i' cells O -> i = i'.
Proof.
  intros Hinj Hrep i i' Hi Hi' E. pose proof Hrep as (Hs & (Hp & _) & Hl & _). rewrite Hs in Hp.
  assert (H : unrank sh (Z.of_nat i) = unrank sh (Z.of_nat i')).
  { apply (rep_inj φ d a sh cells _ _ Hinj Hrep); try (apply unrank_inbox; [exact Hp|lia]).
    rewrite !rank_unrank by (auto; lia). rewrite !Nat2Z.id. exact E. }
  apply (f_equal (rank_rm sh)) in H. rewrite !rank_unrank in H by (auto; lia). lia.
Qed.

Lemma nth_map_lt {A B} (f : A -> B) (da : A) (db : B) l n : (n < length l)%nat ->
  nth n (map f l) db = f (nth n l da).
Proof. intro H. rewrite (nth_indep _ db (f da)) by (rewrite map_length; exact H). apply map_nth. Qed.

Lemma step_model_clone σ t d : get_t σ t = Some d ->
  step_model σ (OClone V t)
  = (mkStore V (bufs σ ++ [window V σ d])
       (tens σ ++ [mkDense (length (bufs σ)) 0 (d_len d) (d_ap d) (d_old d) false]),
     RNew V (length (tens σ))).
Proof.
  intro Ht. unfold Run.step_model, m_clone. change (Mem.get_t V σ t) with (get_t σ t). rewrite Ht.
  reflexivity.
Qed.

Definition clone_sten (ς : sstate V) (x : sten) (keep : bool) : sten :=
  mkSten (s_shape x) (seq (length (s_vals ς)) (length (slogical V vzero ς x)))
    (if keep then
       match s_undo x with
       | Some (sh0, cells0) =>
         Some (sh0, map (fun c => nth (pos_of c (s_cells x))
                                      (seq (length (s_vals ς)) (length (slogical V vzero ς x))) O) cells0)
       | None => None
       end
     else None)
    (if keep then s_pending x else O) false (s_cm x).

Lemma spec_copy_gen_eq ς t x keep : sget ς t = Some x ->
  spec_copy_gen V vzero ς t true keep
  = Some (mkSS V (s_vals ς ++ slogical V vzero ς x) (s_tens ς ++ [clone_sten ς x keep]), length (s_tens ς)).
Proof.
  intro Hx. unfold spec_copy_gen. change (Spec.sget V ς t) with (sget ς t). rewrite Hx.
  unfold s_alloc, s_add, clone_sten. cbn [s_vals s_tens andb]. reflexivity.
Qed.

(* a fresh allocation holding a copy of the window of d, read through d's access pattern, with
   (keep = true) or without (keep = false) d's pending lazy transpose *)
Lemma clone_core φ σ ς t d x (keep : bool) : Rphi φ σ ς -> get_t σ t = Some d -> sget ς t = Some x ->
  exists φ', Rphi φ'
    (mkStore V (bufs σ ++ [window V σ d])
       (tens σ ++ [mkDense (length (bufs σ)) 0 (d_len d) (d_ap d) (if keep then d_old d else None) false]))
    (mkSS V (s_vals ς ++ slogical V vzero ς x) (s_tens ς ++ [clone_sten ς x keep])).
Proof.
  intros Hφ Ht Hx.
  pose proof Hφ as (Hlen & Hval & Hinj & Hall).
  destruct (Hall t d x Ht Hx) as (Hwf & Hrep & Hv & Hpend & Hcov).
  pose proof Hrep as (Hs & Ha & Hl & Hc). pose proof Ha as (Hp & _ & _ & Hbnd & _).
  pose proof Hwf as (Hw & _ & Ho). pose proof Hw as (W0 & W1 & W2).
  set (cells := s_cells x) in *. set (n0 := length (s_vals ς)).
  set (newvals := slogical V vzero ς x).
  assert (Hnl : length newvals = length cells) by (unfold newvals, slogical; apply map_length).
  pose proof (rep_idx_inj φ d (d_ap d) (s_shape x) cells Hinj Hrep) as Hidx.
  set (ψ := fun p : Z =>
    if (0 <=? p) && (p <? d_len d) then
      match φ (d_buf d) (d_off d + p) with
      | Some k => if in_dec Nat.eq_dec k cells then Some (n0 + pos_of k cells)%nat else None
      | None => None
      end
    else None).
  assert (Hψ : forall p k', ψ p = Some k' -> 0 <= p < d_len d /\
            exists k, φ (d_buf d) (d_off d + p) = Some k /\ In k cells /\ k' = (n0 + pos_of k cells)%nat).
  { intros p k' Hk. unfold ψ in Hk. destruct ((0 <=? p) && (p <? d_len d)) eqn:E; [|discriminate].
    destruct (φ (d_buf d) (d_off d + p)) as [k|] eqn:Ek; [|discriminate].
    destruct (in_dec Nat.eq_dec k cells) as [Hin|]; [|discriminate]. injection Hk as <-.
    split; [lia|]. exists k. auto. }
  assert (Hψc : forall a' sh' cells' c, rep φ d a' sh' cells' -> inbox sh' c ->
            In (nth (Z.to_nat (rank_rm sh' c)) cells' O) cells ->
            ψ (dot (str a') c) = Some (n0 + pos_of (nth (Z.to_nat (rank_rm sh' c)) cells' O) cells)%nat).
  { intros a' sh' cells' c (Hs' & (_ & _ & _ & Hb' & _) & _ & Hc') Hi Hin. unfold ψ.
    rewrite <- Hs' in Hi. specialize (Hb' c Hi).
    replace ((0 <=? dot (str a') c) && (dot (str a') c <? d_len d)) with true by lia.
    rewrite Hs' in Hi. rewrite (Hc' c Hi).
    destruct (in_dec Nat.eq_dec _ cells) as [_|Hn]; [reflexivity|contradiction]. }
  exists (fun b p => if Nat.eqb b (length (bufs σ)) then ψ p else φ b p).
  apply (Rphi_alloc φ σ ς (window V σ d) _ newvals _ ψ Hφ).
  - intros p k' Hk. destruct (Hψ p k' Hk) as (Hr & k & Ek & Hin & ->).
    destruct (pos_of_In k cells Hin) as [P1 P2]. fold n0. split; [lia|].
    replace (n0 + pos_of k cells - n0)%nat with (pos_of k cells) by lia.
    unfold newvals, slogical. fold cells. rewrite (nth_map_lt _ O vzero) by exact P1. rewrite P2.
    rewrite zget_nth_error by lia. rewrite (window_nth V σ d p Hw Hr).
    destruct (Hval _ _ _ Ek) as [_ Bk]. exact Bk.
  - intros p p' k' H1 H2.
    destruct (Hψ p k' H1) as (_ & k1 & E1 & I1 & ->). destruct (Hψ p' _ H2) as (_ & k2 & E2 & I2 & E).
    destruct (pos_of_In k1 cells I1) as [_ Q1]. destruct (pos_of_In k2 cells I2) as [_ Q2].
    assert (k1 = k2) by (rewrite <- Q1, <- Q2; f_equal; lia). subst k2.
    destruct (Hinj _ _ _ _ _ E1 E2) as [_ Hpp]. lia.
  - set (d' := mkDense (length (bufs σ)) 0 (d_len d) (d_ap d) (if keep then d_old d else None) false).
    assert (Hrep_new : forall a' sh', (forall c, inbox sh' c -> In (nth (Z.to_nat (rank_rm sh' c)) cells O) cells) ->
              rep φ d a' sh' cells -> rep (fun b p => if Nat.eqb b (length (bufs σ)) then ψ p else φ b p) d' a' sh'
                                          (seq n0 (length newvals))).
    { intros a' sh' Hin Hr'. pose proof Hr' as (Hs' & Ha' & Hl' & _). pose proof Ha' as (Hp' & _). rewrite Hs' in Hp'.
      split; [exact Hs'|]. split; [exact Ha'|]. split; [rewrite seq_length, Hnl; exact Hl'|].
      intros c Hi. unfold d'. cbn [d_buf d_off]. rewrite Nat.eqb_refl.
      replace (0 + dot (str a') c) with (dot (str a') c) by lia.
      rewrite (Hψc a' sh' cells c Hr' Hi (Hin c Hi)).
      pose proof (rank_rm_bound sh' c Hp' Hi) as Hrk.
      rewrite (pos_of_nth cells _ Hidx) by lia. rewrite seq_nth by lia. reflexivity. }
    split; [|split; [|split; [|split]]].
    + split; [|split; [exact Ha|]].
      * unfold wf_win, d'. cbn [d_off d_len d_buf].
        rewrite get_buf_app_new, (window_length V σ d Hw). lia.
      * intros o Eo'. unfold d' in Eo'. cbn [d_old] in Eo'. destruct keep; [apply Ho; exact Eo'|discriminate].
    + unfold clone_sten. fold newvals n0. cbn [s_shape s_cells]. apply Hrep_new; [|exact Hrep].
      intros c Hi. apply (rep_cell_in φ d (d_ap d)); assumption.
    + reflexivity.
    + destruct keep; [|unfold pend_ok, clone_sten; cbn [d' d_old s_pending s_undo]; split; reflexivity].
      unfold pend_ok in *. unfold clone_sten. fold cells newvals n0.
      cbn [d' d_old d_ap s_pending s_undo s_cm s_shape s_cells andb].
      destruct (d_old d) as [o|] eqn:Eo.
      * destruct Hpend as (P2 & P3 & P4). split; [exact P2|]. split; [exact P3|].
        destruct P4 as [(Q1 & sh0 & cells0 & Q2 & Q3)|(Q1 & Q2 & Q3)].
        -- left. split; [exact Q1|]. rewrite Q2. eexists. eexists. split; [reflexivity|].
           pose proof Q3 as (Hs0 & Ha0 & Hl0 & Hc0). pose proof Ha0 as (Hp0 & _). rewrite Hs0 in Hp0.
           assert (Hin0 : forall c0, inbox sh0 c0 -> In (nth (Z.to_nat (rank_rm sh0 c0)) cells0 O) cells).
           { intros c0 Hi0. rewrite <- Hs0 in Hi0. destruct (P2 c0 Hi0) as (c & Hi & Ed).
             rewrite Hs0 in Hi0. pose proof (Hc0 c0 Hi0) as F0. rewrite Ed in F0.
             rewrite Hs in Hi. rewrite (Hc c Hi) in F0. injection F0 as F0. rewrite <- F0.
             apply (rep_cell_in φ d (d_ap d)); assumption. }
           split; [exact Hs0|]. split; [exact Ha0|]. split; [rewrite map_length; exact Hl0|].
           intros c0 Hi0. unfold d'. cbn [d_buf d_off]. rewrite Nat.eqb_refl.
           replace (0 + dot (str o) c0) with (dot (str o) c0) by lia.
           rewrite (Hψc o sh0 cells0 c0 Q3 Hi0 (Hin0 c0 Hi0)).
           pose proof (rank_rm_bound sh0 c0 Hp0 Hi0) as Hrk.
           rewrite (nth_map_lt _ O O) by lia.
           destruct (pos_of_In _ cells (Hin0 c0 Hi0)) as [B1 _].
           rewrite seq_nth by lia. reflexivity.
        -- right. split; [exact Q1|]. rewrite Q2. split; [reflexivity|].
           apply Hrep_new; [|exact Q3]. intros c Hi. apply (rep_cell_in φ d (d_ap d)); assumption.
      * destruct Hpend as [Q1 Q2]. rewrite Q2. split; [exact Q1|reflexivity].
    + intros _ p k' Hk Hr. unfold d' in Hk, Hr. cbn [d_buf d_off d_len] in Hk, Hr.
      rewrite Nat.eqb_refl in Hk. destruct (Hψ p k' Hk) as (_ & k & Ek & Hin & _).
      rewrite Hs in Hp. destruct (In_nth_rank _ _ k Hp Hl Hin) as (c & Hi & En).
      pose proof (Hc c Hi) as F. rewrite En in F. destruct (Hinj _ _ _ _ _ Ek F) as [_ Hpp].
      exists c. split; [unfold d'; cbn [d_ap]; rewrite Hs; exact Hi|].
      unfold pos, d'. cbn [d_off d_ap]. lia.
Qed.

Lemma sim_OClone σ ς t σ' r : R σ ς -> guard_op σ (OClone V t) = GOk ->
  step_model σ (OClone V t) = (σ', r) ->
  exists ς', step_spec ς (OClone V t) = Some (ς', r) /\ R σ' ς'.
Proof.
  intros HR Hg H. pose proof HR as (φ & Hφ).
  unfold Run.guard_op in Hg. change (Mem.get_t V σ t) with (get_t σ t) in Hg.
  destruct (get_t σ t) as [d|] eqn:Ht; [|discriminate]. clear Hg.
  destruct (get_sget φ σ ς t d Hφ Ht) as [x Hx].
  rewrite (step_model_clone σ t d Ht) in H. injection H as <- <-.
  unfold Run.step_spec. rewrite (spec_copy_gen_eq ς t x true Hx).
  destruct Hφ as (Hlen & Hrest). rewrite Hlen.
  eexists. split; [reflexivity|]. apply (clone_core φ σ ς t d x true (conj Hlen Hrest) Ht Hx).
Qed.

(* ====================================================================================== *)
(*  8. OT                                                                                  *)
(* ====================================================================================== *)
Lemma list_eqb_true a : forall b, list_eqb a b = true <-> a = b.
Proof.
  induction a as [|x a IH]; intros [|y b]; cbn [list_eqb]; split; intro H; try discriminate; try reflexivity.
  - apply andb_true_iff in H as [H1 H2]. apply IH in H2. f_equal; [lia|exact H2].
  - injection H as -> ->. apply andb_true_iff. split; [lia|apply IH; reflexivity].
Qed.

Lemma map_of_nat_inj : forall a b : list nat, map Z.of_nat a = map Z.of_nat b -> a = b.
Proof.
  induction a as [|x a IH]; intros [|y b] H; cbn in H; try discriminate; [reflexivity|].
  injection H as H1 H2. f_equal; [lia|apply IH; exact H2].
Qed.

Lemma rev_axes_s_eq n : rev_axes_s n = rev_axes n.
Proof. induction n as [|n IH]; cbn [rev_axes_s rev_axes]; [reflexivity|rewrite IH; reflexivity]. Qed.

Lemma spec_p_eq n axes : match axes with [] => rev_axes_s n | _ :: _ => axes end = axes_or_rev n axes.
Proof. destruct axes; [apply rev_axes_s_eq|reflexivity]. Qed.

Lemma is_cm_lor_TR o : is_cm (Z.lor o TR) = is_cm o.
Proof. unfold is_cm. rewrite Z.lor_spec. change (Z.testbit TR 0) with false. apply orb_false_r. Qed.

Lemma permute_id {B} (d : B) (l : list B) n : length l = n -> permute d (zseq 0 n) l = l.
Proof. intro H. unfold permute. apply list_as_map'. exact H. Qed.

Lemma unpermute_id n c : length c = n -> unpermute (zseq 0 n) c = c.
Proof.
  intro Hc. assert (Hp : is_permb (zseq 0 n) n = true).
  { apply is_permb_intro; [apply APProofs.zseq_length|]. intros x Hx. apply APProofs.zseq_In. lia. }
  rewrite <- (permute_unpermute (zseq 0 n) n Hp c Hc) at 2.
  symmetry. apply permute_id. rewrite unpermute_length. apply APProofs.zseq_length.
Qed.

Lemma perm_axes_cases axes n : is_perm_axes axes n = true ->
  is_permb (axes_or_rev n axes) n = true /\ (axes = [] \/ length axes = n).
Proof.
  destruct axes as [|a0 axes]; cbn [is_perm_axes axes_or_rev]; intro H.
  - split; [apply rev_axes_perm|left; reflexivity].
  - split; [exact H|right]. apply andb_true_iff in H as [H _]. apply Nat.eqb_eq in H. exact H.
Qed.

Lemma ap_T_noop_gen a axes : let n := length (shp a) in
  (axes = [] \/ length axes = n) ->
  (is_scalar_equiv (shp a) = true \/ axes_or_rev n axes = zseq 0 n) -> ap_T a axes = TNoop.
Proof.
  intros n Hax [Hse|Hid]; [apply ap_T_noop_scalar_equiv; assumption|].
  destruct (is_scalar_equiv (shp a)) eqn:Hse; [apply ap_T_noop_scalar_equiv; assumption|].
  unfold ap_T. fold n.
  assert (E0 : negb (length axes =? 0)%nat && negb (length axes =? n)%nat = false).
  { destruct Hax as [-> | ->]; [reflexivity|]. rewrite Nat.eqb_refl. apply andb_false_r. }
  rewrite E0.
  assert (E1 : (if (length axes =? 0)%nat then rev_axes n else axes) = axes_or_rev n axes).
  { destruct axes; reflexivity. }
  rewrite E1, Hse, Hid.
  change (let (m, i1) := is_monotonic (zseq 0 n) in m && i1) with (mono1 (zseq 0 n)).
  rewrite mono1_zseq. subst n. destruct (shp a) as [|s0 l]; [discriminate Hse|reflexivity].
Qed.

Lemma perm2_swap p : is_permb p 2 = true -> p <> zseq 0 2 -> p = [1; 0].
Proof.
  intros Hp Hne. destruct (is_permb_spec p 2 Hp) as (Hl & Hnd & Hin).
  destruct p as [|x [|y [|? ?]]]; try discriminate.
  pose proof (proj1 (Hin x) ltac:(left; reflexivity)) as Hx.
  pose proof (proj1 (Hin y) ltac:(right; left; reflexivity)) as Hy.
  inversion Hnd as [|? ? Hxy _]; subst.
  assert (x <> y) by (intro; subst; apply Hxy; left; reflexivity).
  assert (Hc : (x = 0 /\ y = 1) \/ (x = 1 /\ y = 0)) by lia.
  destruct Hc as [[-> ->]|[-> ->]]; [exfalso; apply Hne; reflexivity|reflexivity].
Qed.

Lemma perm1_id p : is_permb p 1 = true -> p = zseq 0 1.
Proof.
  intro Hp. destruct (is_permb_spec p 1 Hp) as (Hl & Hnd & Hin).
  destruct p as [|x [|? ?]]; try discriminate.
  pose proof (proj1 (Hin x) ltac:(left; reflexivity)) as Hx. assert (x = 0) by lia. subst. reflexivity.
Qed.

Lemma scalar_equiv_size s : is_scalar_equiv s = true -> size s = 1.
Proof.
  induction s as [|k l IH]; [reflexivity|]. unfold is_scalar_equiv in *. cbn [forallb size].
  intro H. apply andb_true_iff in H as [Hk Hl]. rewrite (IH Hl). lia.
Qed.

Lemma permute_scalar_equiv p sh : is_scalar_equiv sh = true -> is_permb p (length sh) = true ->
  permute 0 p sh = sh.
Proof.
  intros Hse Hp. destruct (is_permb_spec p (length sh) Hp) as (Hlp & _ & Hin).
  unfold is_scalar_equiv in Hse. rewrite forallb_forall in Hse.
  apply nth_error_ext_eq. intro k. unfold permute. rewrite nth_error_map.
  destruct (nth_error p k) as [v|] eqn:Ev.
  - cbn [option_map]. pose proof (nth_error_Some_lt _ _ _ Ev) as Hk.
    assert (Hv : 0 <= v < Z.of_nat (length sh)) by (apply Hin; eapply nth_error_In; eauto).
    rewrite (nth_error_of_nth 0) by lia. f_equal.
    assert (nth k sh 0 = 1) by (pose proof (Hse _ (@nth_In _ k sh 0 ltac:(lia))); lia).
    pose proof (znth_zget 0 sh v ltac:(unfold zlen; lia)) as G.
    pose proof (zget_znth 0 _ _ _ G) as G'. apply zget_In in G. specialize (Hse _ G). lia.
  - cbn [option_map]. symmetry. apply nth_error_None. apply nth_error_None in Ev. lia.
Qed.

(* what the lazy transpose does to the tensor table, under the guard of OT *)
Lemma T_model σ t d axes : get_t σ t = Some d -> wf_dense σ d -> d_old d = None ->
  let a := d_ap d in let n := length (shp a) in let p := axes_or_rev n axes in
  is_permb p n = true -> (axes = [] \/ length axes = n) ->
  is_vector (shp a) && negb (allones (str a)) = false ->
  ((is_scalar_equiv (shp a) = true \/ p = zseq 0 n) /\ m_T V σ t axes = Ok σ) \/
  (is_scalar_equiv (shp a) = false /\ p <> zseq 0 n /\
   m_T V σ t axes = Ok (set_t σ t (mkDense (d_buf d) (d_off d) (d_len d)
        (mkAP (permute 0 p (shp a)) (permute 0 p (str a)) (Z.lor (ord a) TR) true) (Some a) (d_view d)))).
Proof.
  intros Ht Hwf Hold a n p Hp Hax Hvec.
  destruct (is_scalar_equiv (shp a)) eqn:Hse.
  { left. split; [left; reflexivity|]. unfold m_T. change (Mem.get_t V σ t) with (get_t σ t). rewrite Ht.
    fold a. rewrite (ap_T_noop_gen a axes Hax (or_introl Hse)). reflexivity. }
  destruct (list_eq_dec Z.eq_dec p (zseq 0 n)) as [Hid|Hid].
  { left. split; [right; exact Hid|]. unfold m_T. change (Mem.get_t V σ t) with (get_t σ t). rewrite Ht.
    fold a. rewrite (ap_T_noop_gen a axes Hax (or_intror Hid)). reflexivity. }
  right. split; [reflexivity|]. split; [exact Hid|].
  destruct (is_vector (shp a)) eqn:Hv.
  - (* a 2-d vector with unit strides: the swap *)
    cbn [andb] in Hvec. apply negb_false_iff in Hvec.
    assert (Hv' : ap_is_vector a = true) by exact Hv.
    pose proof Hwf as (_ & (_ & Hl & _) & _). fold a in Hl.
    assert (Hn2 : n = 2%nat).
    { unfold is_vector, is_colvec, is_rowvec in Hv. unfold n.
      destruct (shp a) as [|s0 [|s1 [|? ?]]]; cbn in Hv; try discriminate; [|reflexivity].
      exfalso. apply Hid. apply perm1_id. exact Hp. }
    assert (Hp2 : p = [1; 0]) by (apply perm2_swap; [rewrite <- Hn2; exact Hp|rewrite <- Hn2; exact Hid]).
    destruct (shp a) as [|s0 [|s1 [|? ?]]] eqn:Es; try discriminate Hn2.
    destruct (str a) as [|k0 [|k1 [|? ?]]] eqn:Ek; try discriminate Hl.
    cbn [allones forallb] in Hvec. assert (k0 = 1 /\ k1 = 1) as [-> ->] by lia.
    assert (Hax' : axes = [] \/ axes = [1; 0]).
    { unfold p, axes_or_rev in Hp2. destruct axes; [left; reflexivity|right; exact Hp2]. }
    destruct (ap_T_vector_ones a axes s0 s1 Es Hv' Ek Hax') as (HT & _).
    unfold m_T. change (Mem.get_t V σ t) with (get_t σ t). rewrite Ht. fold a. rewrite HT, Hold.
    rewrite Hp2. reflexivity.
  - destruct (m_T_aliases V σ t d axes Ht Hwf Hold Hse Hv Hp Hid) as (d' & E & -> & _). exact E.
Qed.

Lemma spec_T_cases ς t x axes : sget ς t = Some x -> s_pending x = O -> s_undo x = None ->
  let n := length (s_shape x) in let p := axes_or_rev n axes in
  is_permb p n = true ->
  let nsh := permute 0 p (s_shape x) in
  let cells' := map (fun c' => nth (Z.to_nat (rank_rm (s_shape x) (unpermute p c'))) (s_cells x) O) (coords nsh) in
  spec_T V ς t axes =
  if list_eqb nsh (s_shape x) && list_eqb (map Z.of_nat cells') (map Z.of_nat (s_cells x))
  then Some (Some ς)
  else Some (Some (sset ς t (mkSten nsh cells' (Some (s_shape x, s_cells x)) 1 (s_view x) (s_cm x)))).
Proof.
  intros Hx Hpend Hundo n p Hp nsh cells'. unfold spec_T. change (Spec.sget V ς t) with (sget ς t).
  rewrite Hx. rewrite spec_p_eq. fold n p. rewrite Hp. cbn [negb]. unfold spec_permute. fold nsh cells'.
  rewrite Hpend, Hundo. cbn [Nat.eqb]. reflexivity.
Qed.

Lemma guard_T_ok d axes : guard_T d axes = GOk ->
  is_perm_axes axes (length (shp (d_ap d))) = true /\ d_old d = None /\
  is_vector (shp (d_ap d)) && negb (allones (str (d_ap d))) = false.
Proof.
  intro Hg. unfold guard_T in Hg.
  assert (G : (if negb (is_perm_axes axes (length (shp (d_ap d)))) then GBadAxes
               else if is_some (d_old d) then GPendingTranspose
               else if is_vector (shp (d_ap d)) && negb (allones (str (d_ap d))) then GVectorAxes
               else GOk) = GOk) by (destruct (guard_read d); try discriminate Hg; exact Hg).
  destruct (is_perm_axes axes _); [|discriminate G]. cbn [negb] in G.
  destruct (d_old d); [discriminate G|]. cbn [is_some] in G.
  destruct (is_vector _ && negb _); [discriminate G|]. auto.
Qed.

(* the SPEC side of a lazy transpose of a tensor with nothing pending, and the relation after
   installing the permuted access pattern (old pattern kept for the undo) *)
Lemma T_core φ σ ς t d x axes : Rphi φ σ ς -> get_t σ t = Some d -> sget ς t = Some x ->
  d_old d = None -> is_perm_axes axes (length (shp (d_ap d))) = true ->
  ((is_scalar_equiv (shp (d_ap d)) = true \/
    axes_or_rev (length (shp (d_ap d))) axes = zseq 0 (length (shp (d_ap d)))) ->
   spec_T V ς t axes = Some (Some ς)) /\
  exists ς', spec_T V ς t axes = Some (Some ς') /\
    Rphi φ (set_t σ t (mkDense (d_buf d) (d_off d) (d_len d)
              (mkAP (permute 0 (axes_or_rev (length (shp (d_ap d))) axes) (shp (d_ap d)))
                    (permute 0 (axes_or_rev (length (shp (d_ap d))) axes) (str (d_ap d)))
                    (Z.lor (ord (d_ap d)) TR) true) (Some (d_ap d)) (d_view d))) ς'.
Proof.
  intros Hφ Ht Hx Hold Hpa.
  pose proof Hφ as (_ & Hval & Hinj & Hall).
  destruct (Hall t d x Ht Hx) as (Hwf & Hrep & Hv & Hpend & Hcov).
  unfold pend_ok in Hpend. rewrite Hold in Hpend. destruct Hpend as [Hp0 Hu0].
  pose proof Hrep as (Hs & Ha & Hl & Hc). pose proof Ha as (Hps & Hls & Hst & Hbnd & Hainj).
  set (a := d_ap d) in *. set (n := length (shp a)). set (p := axes_or_rev n axes).
  destruct (perm_axes_cases axes n Hpa) as [Hp Hax]. fold p in Hp.
  destruct (is_permb_spec p n Hp) as (Hlp & _).
  assert (Hn : length (s_shape x) = n) by (rewrite <- Hs; reflexivity).
  pose proof (spec_T_cases ς t x axes Hx Hp0 Hu0) as HS. cbn zeta in HS. rewrite Hn in HS. fold p in HS.
  specialize (HS Hp).
  set (nsh := permute 0 p (s_shape x)) in *.
  set (cells' := map (fun c' => nth (Z.to_nat (rank_rm (s_shape x) (unpermute p c'))) (s_cells x) O) (coords nsh)) in *.
  (* facts about the permuted pattern *)
  set (a' := mkAP (permute 0 p (shp a)) (permute 0 p (str a)) (Z.lor (ord a) TR) true).
  destruct (ap_T_closure a p n (d_len d) Hp eq_refl Hls) as (C1 & C2 & C3 & C4 & C5). fold a' in C1, C2, C3, C4, C5.
  assert (Ha' : wf_ap (d_len d) a').
  { split; [apply C3; exact Hps|]. split; [exact C1|]. split; [apply C2; exact Hst|].
    split; [apply C4; exact Hbnd|apply C5; exact Hainj]. }
  assert (Hnsh : shp a' = nsh) by (unfold a', nsh; cbn [shp]; rewrite Hs; reflexivity).
  assert (Hmap : forall c', inbox nsh c' ->
            inbox (s_shape x) (unpermute p c') /\ dot (str a') c' = dot (str a) (unpermute p c')).
  { intros c' Hi. assert (Hlc : length c' = n).
    { apply inbox_length in Hi. unfold nsh in Hi. rewrite permute_length in Hi. lia. }
    split.
    - apply (inbox_permute_unpermute p n Hp); [exact Hn|exact Hlc|exact Hi].
    - unfold a'. cbn [str]. apply (dot_permute_unpermute p n Hp); assumption. }
  assert (Hpn : pos_shape nsh) by (rewrite <- Hnsh; apply Ha').
  assert (Hrep' : forall d0, d_buf d0 = d_buf d -> d_off d0 = d_off d -> d_len d0 = d_len d ->
            rep φ d0 a' nsh cells').
  { intros d0 E1 E2 E3. split; [exact Hnsh|]. split; [rewrite E3; exact Ha'|].
    split; [unfold cells'; rewrite map_length; apply coords_length|].
    intros c' Hi. destruct (Hmap c' Hi) as [Hi0 Hd0]. rewrite E1, E2, Hd0, (Hc _ Hi0).
    unfold cells'. rewrite (nth_map_coords _ O nsh c' Hpn Hi). reflexivity. }
  assert (Hsame1 : same_cells a a').
  { intros c Hi. exists (permute 0 p c).
    assert (Hlc : length c = n) by (apply inbox_length in Hi; exact Hi).
    split; [unfold a'; cbn [shp]; apply (inbox_permute p n Hp); auto|].
    unfold a'. cbn [str]. symmetry. apply (dot_permute p n Hp); auto. }
  assert (Hsame2 : same_cells a' a).
  { intros c' Hi. rewrite Hnsh in Hi. destruct (Hmap c' Hi) as [Hi0 Hd0].
    exists (unpermute p c'). split; [rewrite Hs; exact Hi0|exact Hd0]. }
  rewrite HS. split.
  - intro Hnoop.
    assert (Ht1 : nsh = s_shape x /\ cells' = s_cells x).
    { assert (Hps' : pos_shape (s_shape x)) by (rewrite <- Hs; exact Hps).
      assert (Hnsh' : nsh = s_shape x).
      { destruct Hnoop as [Hse|Hid].
        - unfold nsh. apply permute_scalar_equiv; [rewrite <- Hs; exact Hse|rewrite Hn; exact Hp].
        - unfold nsh. rewrite Hid. apply permute_id. exact Hn. }
      assert (Hrk : forall c, inbox (s_shape x) c ->
                rank_rm (s_shape x) (unpermute p c) = rank_rm (s_shape x) c).
      { intros c Hi. destruct Hnoop as [Hse|Hid].
        - assert (Hsz : size (s_shape x) = 1) by (apply scalar_equiv_size; rewrite <- Hs; exact Hse).
          assert (Hi' : inbox (s_shape x) (unpermute p c)).
          { apply Hmap. rewrite Hnsh'. exact Hi. }
          pose proof (rank_rm_bound _ _ Hps' Hi). pose proof (rank_rm_bound _ _ Hps' Hi'). lia.
        - rewrite Hid. rewrite unpermute_id; [reflexivity|]. apply inbox_length in Hi. lia. }
      split; [exact Hnsh'|].
      unfold cells'. rewrite Hnsh'.
      etransitivity; [|apply (cells_self (s_shape x) (s_cells x) Hps' Hl)].
      apply map_ext_in. intros c Hin. apply coords_In in Hin; [|exact Hps']. rewrite (Hrk c Hin). reflexivity. }
    destruct Ht1 as [T1 T2].
    replace (list_eqb nsh (s_shape x)) with true by (symmetry; apply list_eqb_true; exact T1).
    replace (list_eqb (map Z.of_nat cells') (map Z.of_nat (s_cells x))) with true
      by (symmetry; apply list_eqb_true; rewrite T2; reflexivity).
    cbn [andb]. reflexivity.
  - fold a'.
    set (d' := mkDense (d_buf d) (d_off d) (d_len d) a' (Some a) (d_view d)).
    assert (Hwf' : wf_dense σ d').
    { destruct Hwf as (Hw & _ & _). split; [exact Hw|]. split; [exact Ha'|].
      intros o Ho. injection Ho as <-. exact Ha. }
    assert (Hcov' : d_view d' = false -> cover φ d').
    { intros Hnv q k Hk Hr. destruct (Hcov Hnv q k Hk Hr) as (c & Hi & ->).
      destruct (Hsame1 c Hi) as (c2 & Hi2 & Ed). exists c2. split; [exact Hi2|].
      unfold pos, d'. cbn [d_off d_ap]. fold a. lia. }
    destruct (list_eqb nsh (s_shape x) && list_eqb (map Z.of_nat cells') (map Z.of_nat (s_cells x))) eqn:Etest.
    + apply andb_true_iff in Etest as [T1 T2]. apply list_eqb_true in T1, T2. apply map_of_nat_inj in T2.
      exists ς. split; [reflexivity|].
      apply (Rphi_set_model φ σ ς t d x); [exact Hφ|exact Ht|exact Hx|].
      split; [exact Hwf'|]. split; [rewrite <- T1, <- T2; apply Hrep'; reflexivity|].
      split; [exact Hv|].
      split; [|exact Hcov'].
      unfold pend_ok. cbn [d' d_old d_ap]. split; [exact Hsame1|].
      split; [exact Hsame2|]. right. split; [exact Hp0|]. split; [exact Hu0|].
      apply (rep_same_window φ d d'); auto.
    + eexists. split; [reflexivity|].
      apply (Rphi_set φ σ ς t d x); [exact Hφ|exact Ht|exact Hx|].
      split; [exact Hwf'|]. split; [cbn [s_shape s_cells]; apply Hrep'; reflexivity|].
      split; [exact Hv|].
      split; [|exact Hcov'].
      unfold pend_ok. cbn [d' d_old d_ap s_cm s_pending s_undo].
      split; [exact Hsame1|]. split; [exact Hsame2|]. left. split; [reflexivity|].
      exists (s_shape x), (s_cells x). split; [reflexivity|]. apply (rep_same_window φ d d'); auto.
Qed.

Lemma sim_OT σ ς t axes σ' r : R σ ς -> guard_op σ (OT V t axes) = GOk ->
  step_model σ (OT V t axes) = (σ', r) ->
  exists ς', step_spec ς (OT V t axes) = Some (ς', r) /\ R σ' ς'.
Proof.
  intros HR Hg H. pose proof HR as (φ & Hφ).
  unfold Run.guard_op in Hg. change (Mem.get_t V σ t) with (get_t σ t) in Hg.
  destruct (get_t σ t) as [d|] eqn:Ht; [|discriminate].
  destruct (guard_T_ok d axes Hg) as (Hpa & Hold & Hvec). clear Hg.
  destruct (get_sget φ σ ς t d Hφ Ht) as [x Hx].
  pose proof Hφ as (_ & _ & _ & Hall). destruct (Hall t d x Ht Hx) as (Hwf & _).
  destruct (perm_axes_cases axes _ Hpa) as [Hp Hax].
  destruct (T_core φ σ ς t d x axes Hφ Ht Hx Hold Hpa) as (F1 & ς' & E' & HR').
  unfold Run.step_model in H. unfold Run.step_spec.
  destruct (T_model σ t d axes Ht Hwf Hold Hp Hax Hvec) as [[Hnoop E]|(_ & _ & E)];
    rewrite E in H; cbn [lift_store] in H; injection H as <- <-.
  - rewrite (F1 Hnoop). exists ς. split; [reflexivity|exact HR].
  - rewrite E'. exists ς'. split; [reflexivity|]. exists φ. exact HR'.
Qed.

(* ====================================================================================== *)
(*  8b. OSlice                                                                             *)
(* ====================================================================================== *)
Lemma spec_axes_none_of_bad : forall shape sl, any_axis slice_bad shape sl = true -> spec_axes shape sl = None.
Proof.
  induction shape as [|d shape IH]; intros sl H; [discriminate|].
  rewrite any_axis_cons in H. rewrite spec_axes_cons.
  apply orb_true_iff in H as [H|H].
  - assert (E : spec_axis (hd_sl sl) d = None).
    { destruct (hd_sl sl) as [[[st en] sp]|]; cbn [slice_bad] in H; [|discriminate].
      apply negb_true_iff in H. apply check_slice_false in H. cbn [spec_axis].
      replace ((en <? st) || (st <? 0) || (d <=? st) || ((sp =? 0) && (1 <? en - st)) || (sp <? 0))
        with true by lia. reflexivity. }
    rewrite E. reflexivity.
  - rewrite (IH _ H). destruct (spec_axis (hd_sl sl) d); reflexivity.
Qed.

Lemma ap_S_counts_flags a len sl a' s e :
  pos_shape (shp a) -> length (str a) = length (shp a) -> ap_S a len sl = Ok (a', s, e) ->
  any_axis slice_count_zero (shp a) sl = false -> any_axis slice_neg_step (shp a) sl = false ->
  lead_floor (shp a) sl = false ->
  let nsh := extents 0 (shp a) sl in
  exists axs, spec_axes (shp a) sl = Some axs /\
    map (fun x => snd (fst (fst x))) axs = nsh /\ map (fun x => snd x) axs = drop_flags nsh sl /\
    (forall c, spec_src axs c = src_coord (shp a) sl c) /\
    (length sl <= length (shp a))%nat /\ pos_shape nsh /\ length nsh = length (shp a).
Proof.
  intros Hp Hl H Hz Hn Hlf nsh.
  apply ap_S_ok_inv in H as (Hlen & nsh' & nst & o & isvec & outer & Hr & _).
  pose proof (apS_loop_extents _ _ _ _ _ _ _ _ _ _ _ _ _ _ Hr) as He. fold nsh in He. subst nsh'.
  destruct (apS_loop_counts _ _ _ _ _ _ _ _ _ _ _ _ _ _ Hp Hr Hz Hn (fun _ => Hlf)) as (axs & Ha & Hm & Hf & Hs).
  destruct (apS_loop_spec _ _ _ _ _ _ _ _ _ _ _ _ _ _ Hl Hr) as (L1 & _ & _).
  destruct (apS_loop_closure _ _ _ _ _ _ _ _ _ _ _ _ _ _ Hl Hr) as [_ C2].
  exists axs. split; [exact Ha|]. split; [exact Hm|]. split; [exact Hf|]. split; [exact Hs|].
  split; [exact Hlen|]. split; [apply C2; assumption|exact L1].
Qed.

Lemma size_drop_all : forall nsh sl, size (drop_all nsh (drop_flags nsh sl)) = size nsh.
Proof.
  induction nsh as [|d nsh IH]; intro sl; [reflexivity|].
  cbn [drop_flags drop_all]. destruct ((d =? 1) && is_some (hd_sl sl)) eqn:Eb.
  - rewrite IH. cbn [size]. lia.
  - cbn [size]. rewrite IH. reflexivity.
Qed.

Lemma expand_rank : forall nsh sl c,
  inbox (drop_all nsh (drop_flags nsh sl)) c ->
  inbox nsh (expand nsh sl c) /\ rk (drop_all nsh (drop_flags nsh sl)) c = rk nsh (expand nsh sl c).
Proof.
  induction nsh as [|d nsh IH]; intros sl c Hi.
  - cbn in *. destruct c; [split; [exact I|reflexivity]|contradiction].
  - cbn [drop_flags drop_all expand] in *. destruct ((d =? 1) && is_some (hd_sl sl)) eqn:Eb.
    + destruct (IH (tl sl) c Hi) as [I1 I2]. cbn [inbox rk]. split; [split; [lia|exact I1]|lia].
    + destruct c as [|x c]; cbn [inbox] in Hi; [contradiction|]. destruct Hi as [Hx Hi].
      destruct (IH (tl sl) c Hi) as [I1 I2]. cbn [inbox rk]. rewrite size_drop_all.
      split; [split; [exact Hx|exact I1]|lia].
Qed.

Lemma expand_nil : forall nsh sl, expand nsh sl [] = map (fun _ => 0) nsh.
Proof.
  induction nsh as [|d nsh IH]; intro sl; [reflexivity|].
  cbn [expand map]. rewrite IH. destruct ((d =? 1) && is_some (hd_sl sl)); reflexivity.
Qed.

Lemma size_one_all_one s : pos_shape s -> size s = 1 -> Forall (fun d => d = 1) s.
Proof.
  induction 1 as [|d s Hd Hs IH]; intro H; [constructor|]. cbn [size] in H.
  pose proof (size_pos s Hs). assert (d = 1 /\ size s = 1) as [-> H1] by nia.
  constructor; [reflexivity|apply IH; exact H1].
Qed.

Lemma drop_all_sliced_ones : forall nsh shape sl, length nsh = length shape ->
  all_sliced shape sl = true -> Forall (fun d => d = 1) nsh -> drop_all nsh (drop_flags nsh sl) = [].
Proof.
  induction nsh as [|d nsh IH]; intros [|z shape] sl Hl Ha Hf; try discriminate; [reflexivity|].
  cbn [all_sliced] in Ha. destruct sl as [|[q|] sl']; try discriminate.
  inversion Hf as [|? ? Hd Hf']; subst.
  cbn [drop_flags hd_sl tl is_some drop_all]. replace (1 =? 1) with true by lia. cbn [andb].
  apply (IH shape sl'); [cbn [length] in Hl; lia|exact Ha|exact Hf'].
Qed.

(* a one-cell window: every extent is one *)
Lemma ap_S_window_one a len sl a' s e : wf_ap len a ->
  any_axis slice_count_zero (shp a) sl = false -> ap_S a len sl = Ok (a', s, e) -> e - s = 1 ->
  Forall (fun d => d = 1) (extents 0 (shp a) sl).
Proof.
  intros (Hp & Hl & Hst & Hb & Hinj) Hz H He.
  apply ap_S_ok_inv in H as (_ & nsh & nst & o & isvec & outer & Hr & _).
  pose proof (apS_loop_extents _ _ _ _ _ _ _ _ _ _ _ _ _ _ Hr) as <-.
  destruct (apS_loop_spec _ _ _ _ _ _ _ _ _ _ _ _ _ _ Hl Hr) as (L1 & L2 & Hdot).
  destruct (apS_loop_window _ _ _ _ _ _ _ _ _ _ _ _ _ _ Hl Hst Hp Hz Hr) as (Hs0 & He0 & Hzero & Hwin).
  destruct (apS_loop_closure _ _ _ _ _ _ _ _ _ _ _ _ _ _ Hl Hr) as [_ C2]. pose proof (C2 Hp Hz) as Hpn.
  pose proof (apS_loop_src_inbox _ _ _ _ _ _ _ _ _ _ _ _ _ _ Hp Hr) as Hsrc.
  set (zs := map (fun _ : Z => 0) nsh) in *.
  assert (Hall : forall c, inbox nsh c -> c = zs).
  { intros c Hc. destruct (Hwin c Hc) as (Hnn & h & Hh & Hdh). specialize (Hb h Hh).
    assert (D : dot nst c = 0) by lia.
    assert (Lc : length c = length (shp a)) by (apply inbox_length in Hc; lia).
    assert (Lz : length zs = length (shp a)) by (unfold zs; rewrite map_length; exact L1).
    pose proof (Hdot c Lc) as E1. pose proof (Hdot zs Lz) as E2. unfold zs in E2 at 1. rewrite dot_zeros in E2.
    assert (Hsc : src_coord (shp a) sl c = src_coord (shp a) sl zs).
    { apply Hinj; [apply Hsrc; exact Hc|apply Hsrc; exact Hzero|lia]. }
    apply (src_coord_inj (shp a) sl c zs Lc Lz Hsc). }
  assert (Hlen1 : (length (coords nsh) <= 1)%nat).
  { pose proof (coords_NoDup nsh Hpn) as Hnd.
    assert (Hzz : forall c, In c (coords nsh) -> c = zs) by (intros c Hc; apply Hall; apply coords_In; auto).
    destruct (coords nsh) as [|c1 [|c2 l]]; cbn [length]; try lia.
    exfalso. inversion Hnd as [|? ? Hn _]; subst. apply Hn. left.
    rewrite (Hzz c1), (Hzz c2); [reflexivity|right; left; reflexivity|left; reflexivity]. }
  rewrite coords_length in Hlen1. pose proof (size_pos nsh Hpn).
  apply size_one_all_one; [exact Hpn|lia].
Qed.

Lemma Rphi_add_t φ σ ς d' x' : Rphi φ σ ς ->
  ten_ok φ σ d' x' ->
  Rphi φ (mkStore V (bufs σ) (tens σ ++ [d'])) (mkSS V (s_vals ς) (s_tens ς ++ [x'])).
Proof.
  intros (Hlen & Hval & Hinj & Hall) Hnew.
  split; [cbn [tens s_tens]; rewrite !app_length; cbn [length]; lia|].
  split; [exact Hval|]. split; [exact Hinj|].
  intros t d x Ht Hx. unfold Mem.get_t in Ht. unfold Spec.sget in Hx. cbn [tens s_tens] in Ht, Hx.
  apply nth_error_app_snoc in Ht as [[Hlt Ht]|[-> ->]];
    apply nth_error_app_snoc in Hx as [[Hlt' Hx]|[Hx ->]]; try lia.
  - exact (Hall t d x Ht Hx).
  - exact Hnew.
Qed.

Lemma step_spec_slice ς t x sl hint axs nsh : sget ς t = Some x ->
  (length sl <= length (s_shape x))%nat -> spec_axes (s_shape x) sl = Some axs ->
  map (fun a => snd (fst (fst a))) axs = nsh -> map (fun a => snd a) axs = drop_flags nsh sl ->
  hint = drop_all nsh (drop_flags nsh sl) ->
  step_spec ς (OSlice V t sl hint)
  = Some (mkSS V (s_vals ς)
            (s_tens ς ++ [mkSten hint
               (map (fun c => nth (Z.to_nat (rank_rm (s_shape x) (spec_src axs c))) (s_cells x) O) (coords nsh))
               None 0 true (s_cm x)]),
          RNew V (length (s_tens ς))).
Proof.
  intros Hx Hlen Ha Hm Hf Hh. unfold Run.step_spec, spec_slice, spec_slice_full.
  change (Spec.sget V ς t) with (sget ς t). rewrite Hx.
  replace (length (s_shape x) <? length sl)%nat with false by (symmetry; apply Nat.ltb_ge; exact Hlen).
  rewrite Ha. cbv zeta. rewrite Hm, Hf, <- Hh. unfold s_add, spec_src.
  destruct (drop_match nsh (drop_flags nsh sl) hint); reflexivity.
Qed.

Definition slice_hint_ok (σ : store V) (t : nat) (sl : list slice) (hint : list Z) : bool :=
  match get_t σ t with
  | Some d => match ap_S (d_ap d) (d_len d) sl with
              | Ok (a', _, _) => list_eqb hint (shp a')
              | _ => true
              end
  | None => true
  end.

Lemma sim_OSlice σ ς t sl hint σ' r : R σ ς -> guard_op σ (OSlice V t sl hint) = GOk ->
  slice_hint_ok σ t sl hint = true ->
  step_model σ (OSlice V t sl hint) = (σ', r) ->
  exists ς', step_spec ς (OSlice V t sl hint) = Some (ς', r) /\ R σ' ς'.
Proof.
  intros HR Hg Hhint H. pose proof HR as (φ & Hφ).
  unfold Run.guard_op in Hg. unfold slice_hint_ok in Hhint. change (Mem.get_t V σ t) with (get_t σ t) in Hg.
  destruct (get_t σ t) as [d|] eqn:Ht; [|discriminate].
  assert (Hgs : guard_slice (d_ap d) (d_len d) sl = GOk)
    by (destruct (guard_read d); try discriminate Hg; exact Hg).
  clear Hg. unfold guard_slice in Hgs.
  destruct (negb (pos_shapeb (shp (d_ap d)))); [discriminate|].
  destruct (length (str (d_ap d)) <? length (shp (d_ap d)))%nat; [discriminate|].
  destruct (any_axis slice_neg_step (shp (d_ap d)) sl) eqn:G1; [discriminate|].
  destruct (any_axis slice_count_zero (shp (d_ap d)) sl) eqn:G2; [discriminate|].
  destruct (lead_floor (shp (d_ap d)) sl) eqn:G3; [discriminate|].
  destruct (get_sget φ σ ς t d Hφ Ht) as [x Hx].
  pose proof Hφ as (Hlen & Hval & Hinj & Hall).
  destruct (Hall t d x Ht Hx) as (Hwf & Hrep & Hv & Hpend & Hcov).
  pose proof Hrep as (Hs & Ha & Hl & Hc). pose proof Ha as (Hps & Hls & Hst & Hbnd & Hainj).
  pose proof Hwf as ((W0 & W1 & W2) & _).
  unfold Run.step_model, m_slice in H. change (Mem.get_t V σ t) with (get_t σ t) in H. rewrite Ht in H.
  destruct (ap_S (d_ap d) (d_len d) sl) as [[[a' s] e]| |] eqn:ES.
  - (* accepted *)
    destruct (wf_ap_slice _ _ _ _ _ _ Ha G2 ES) as (S0 & S1 & S2 & Ha').
    change (Mem.get_buf V σ (d_buf d)) with (get_buf σ (d_buf d)) in H.
    replace ((s <? 0) || (e <? s) || (zlen (get_buf σ (d_buf d)) - d_off d <? e)) with false in H by lia.
    unfold add_t in H. cbn [lift_new bufs tens] in H. injection H as <- <-.
    set (d' := mkDense (d_buf d) (d_off d + s) (e - s) a' None true).
    assert (EM : m_slice V σ t sl = Ok (mkStore V (bufs σ) (tens σ ++ [d']), length (tens σ))).
    { unfold m_slice. change (Mem.get_t V σ t) with (get_t σ t). rewrite Ht, ES.
      change (Mem.get_buf V σ (d_buf d)) with (get_buf σ (d_buf d)).
      replace ((s <? 0) || (e <? s) || (zlen (get_buf σ (d_buf d)) - d_off d <? e)) with false by lia.
      reflexivity. }
    destruct (m_slice_aliases V σ t d sl _ _ Ht Hwf G2 EM)
      as (d2 & _ & Eσ & _ & _ & _ & _ & _ & Hwf' & Hne & Hone).
    assert (d2 = d').
    { injection Eσ as Eσ. apply app_inj_tail in Eσ as [_ Eσ]. symmetry. exact Eσ. }
    subst d2.
    destruct (ap_S_counts_flags _ _ _ _ _ _ Hps Hls ES G2 G1 G3) as (axs & Haxs & Hm & Hf & Hsrc & Hlsl & Hpn & Hln).
    set (nsh := extents 0 (shp (d_ap d)) sl) in *.
    (* the shape and the element map, both branches of AP.S *)
    assert (HSP : shp a' = drop_all nsh (drop_flags nsh sl) /\
              forall c, inbox (shp a') c ->
                inbox (shp (d_ap d)) (src_coord (shp (d_ap d)) sl (expand nsh sl c)) /\
                pos d' c = pos d (src_coord (shp (d_ap d)) sl (expand nsh sl c))).
    { destruct (Z.eq_dec (e - s) 1) as [E1|E1].
      - destruct (Hone E1) as (Hap & Hi0 & Hp0). cbn [d' d_ap] in Hap. subst a'.
        assert (Hall1 : Forall (fun k => k = 1) nsh) by (apply (ap_S_window_one _ _ _ _ _ _ Ha G2 ES E1)).
        assert (Hsl : all_sliced (shp (d_ap d)) sl = true).
        { destruct (all_sliced (shp (d_ap d)) sl); [reflexivity|].
          replace (e - s =? 1) with true in Hgs by lia. discriminate Hgs. }
        split; [symmetry; apply (drop_all_sliced_ones nsh (shp (d_ap d)) sl Hln Hsl Hall1)|].
        intros c Hi. cbn [scalar_ap shp] in Hi. destruct c; [|contradiction].
        rewrite expand_nil. rewrite (map_const_length 0 nsh (shp (d_ap d)) Hln). split; [exact Hi0|exact Hp0].
      - destruct (Hne E1) as (Hshp & Hmap). cbn [d' d_ap] in Hshp, Hmap. split; [exact Hshp|exact Hmap]. }
    destruct HSP as (HS & HP).
    assert (Hh : hint = drop_all nsh (drop_flags nsh sl)).
    { rewrite <- HS. apply list_eqb_true. exact Hhint. }
    rewrite Hs in Hlsl, Haxs.
    rewrite (step_spec_slice ς t x sl hint axs nsh Hx Hlsl Haxs Hm Hf Hh).
    rewrite Hlen. eexists. split; [reflexivity|]. exists φ.
    apply Rphi_add_t; [exact Hφ|].
    split; [exact Hwf'|]. split; [|split; [reflexivity|split]].
    + cbn [s_shape s_cells]. split; [cbn [d' d_ap]; congruence|]. split; [exact Ha'|].
      split; [rewrite map_length, coords_length, Hh, size_drop_all; reflexivity|].
      intros c Hi. rewrite Hh, <- HS in Hi. destruct (HP c Hi) as (Hi0 & Hp0).
      change (d_off d' + dot (str (d_ap d')) c) with (pos d' c). cbn [d' d_buf]. rewrite Hp0.
      assert (Hi0' : inbox (s_shape x) (src_coord (shp (d_ap d)) sl (expand nsh sl c)))
        by (rewrite <- Hs; exact Hi0).
      unfold pos. rewrite (Hc _ Hi0'). f_equal.
      rewrite HS in Hi. destruct (expand_rank nsh sl c Hi) as (Hie & Hrk).
      rewrite Hh. rewrite (rank_rm_rk _ c) by (apply inbox_length; exact Hi).
      rewrite Hrk, <- (rank_rm_rk nsh) by (apply inbox_length; exact Hie).
      rewrite (nth_map_coords _ O nsh _ Hpn Hie). rewrite Hsrc. reflexivity.
    + unfold pend_ok. cbn [d' d_old s_pending s_undo]. split; reflexivity.
    + intro Hf'. discriminate Hf'.
  - (* rejected *)
    cbn [lift_new] in H. injection H as <- <-.
    assert (Hrej : spec_slice_full x sl = None).
    { unfold spec_slice_full. destruct (length (s_shape x) <? length sl)%nat eqn:El; [reflexivity|].
      rewrite <- Hs. replace (spec_axes (shp (d_ap d)) sl) with (@None (list (Z * Z * Z * bool))); [reflexivity|].
      symmetry. apply spec_axes_none_of_bad.
      unfold ap_S in ES. rewrite <- Hs in El. rewrite El in ES.
      match type of ES with context [apS_loop ?a ?b ?c ?dd ?ee ?f ?g ?h ?k] =>
        destruct (apS_loop_err b c a dd ee f g h k Hls) as [Hiff Hnp];
        destruct (apS_loop a b c dd ee f g h k) as [[[[[n1 n2] a0] b0] o]| |] eqn:Er end.
      + destruct (b0 - a0 =? 1); [discriminate ES|]. destruct (drop_axes n1 n2 sl); discriminate ES.
      + apply Hiff. reflexivity.
      + discriminate ES. }
    unfold Run.step_spec, spec_slice. change (Spec.sget V ς t) with (sget ς t). rewrite Hx, Hrej.
    exists ς. split; [reflexivity|exact HR].
  - (* AP.S does not panic on a well-formed pattern *)
    exfalso. unfold ap_S in ES. destruct (length (shp (d_ap d)) <? length sl)%nat; [discriminate ES|].
    match type of ES with context [apS_loop ?a ?b ?c ?dd ?ee ?f ?g ?h ?k] =>
      destruct (apS_loop_err b c a dd ee f g h k Hls) as [Hiff Hnp];
      destruct (apS_loop a b c dd ee f g h k) as [[[[[n1 n2] a0] b0] o]| |] eqn:Er end.
    + destruct (b0 - a0 =? 1); [discriminate ES|]. destruct (drop_axes n1 n2 sl); discriminate ES.
    + discriminate ES.
    + apply Hnp. reflexivity.
Qed.

(* ====================================================================================== *)
(*  8c. an invariant of the MODEL alone: every tensor the fragment builds is row-major      *)
(* ====================================================================================== *)
Definition rowmajor (d : dense) : Prop :=
  is_cm (ord (d_ap d)) = false /\ forall o, d_old d = Some o -> is_cm (ord o) = false.

Definition RM (σ : store V) : Prop := forall t d, get_t σ t = Some d -> rowmajor d.

Lemma RM_empty : RM (empty_store V).
Proof. intros t d H. destruct t; discriminate. Qed.

Lemma RM_tens σ σ' : tens σ' = tens σ -> RM σ -> RM σ'.
Proof. intros E H t d Ht. apply (H t). unfold Mem.get_t in *. rewrite <- E. exact Ht. Qed.

Lemma RM_snoc σ B d' : RM σ -> rowmajor d' -> RM (mkStore V B (tens σ ++ [d'])).
Proof.
  intros H Hd t d Ht. unfold Mem.get_t in Ht. cbn [tens] in Ht.
  apply nth_error_app_snoc in Ht as [[_ Ht]|[_ ->]]; [apply (H t); exact Ht|exact Hd].
Qed.

Lemma RM_set σ t d' : RM σ -> rowmajor d' -> RM (set_t σ t d').
Proof.
  intros H Hd t0 d0 H0. destruct (Nat.eq_dec t0 t) as [->|Hne].
  - unfold Mem.get_t, Mem.set_t in H0. cbn [tens] in H0. apply nth_error_upd_inv in H0. subst. exact Hd.
  - rewrite (get_t_set_t_other V σ t t0 d' Hne) in H0. apply (H t0). exact H0.
Qed.

Lemma is_cm_lor_NC o : is_cm (Z.lor o NC) = is_cm o.
Proof. unfold is_cm. rewrite Z.lor_spec. change (Z.testbit NC 0) with false. apply orb_false_r. Qed.

Lemma apS_loop_cm : forall shape strides i slices isvec outer ndStart ndEnd order nsh nst s e o,
  apS_loop i shape strides slices isvec outer ndStart ndEnd order = Ok (nsh, nst, s, e, o) ->
  is_cm o = is_cm order.
Proof.
  induction shape as [|sz shape IH];
    intros [|stride strides] i slices isvec outer ndStart ndEnd order nsh nst s e o H; try discriminate.
  - cbn in H. injection H as <- <- <- <- <-. reflexivity.
  - cbn in H. injection H as <- <- <- <- <-. reflexivity.
  - rewrite apS_loop_step in H.
    destruct (slice_details (hd_sl slices) sz) as [[[start en] step]|]; [|discriminate].
    match type of H with context [apS_loop ?a ?b ?c ?dd ?ee ?f ?g ?h ?k] =>
      destruct (apS_loop a b c dd ee f g h k) as [[[[[shs sts] a'] b'] o1]| |] eqn:Er end; try discriminate.
    injection H as <- <- <- <- <-. rewrite (IH _ _ _ _ _ _ _ _ _ _ _ _ _ Er).
    destruct (_ || _); [apply is_cm_lor_NC|reflexivity].
Qed.

Lemma ap_S_cm a len sl a' s e : ap_S a len sl = Ok (a', s, e) -> is_cm (ord a) = false ->
  is_cm (ord a') = false.
Proof.
  intros H Hcm. apply ap_S_ok_inv in H as (_ & nsh & nst & o & isvec & outer & Hr & [[_ ->]|[_ ->]]).
  - reflexivity.
  - cbn [ord]. rewrite (apS_loop_cm _ _ _ _ _ _ _ _ _ _ _ _ _ _ Hr). exact Hcm.
Qed.

Lemma m_setat_tens σ t c v σ1 : m_setat V σ t c v = Ok σ1 -> tens σ1 = tens σ.
Proof.
  unfold m_setat. destruct (Mem.get_t V σ t) as [d|]; [|discriminate].
  destruct (at_index _ _ c) as [i| |]; try discriminate.
  destruct (Mem.win_set V σ d i v) as [σ2|] eqn:E; [|discriminate]. intro H. injection H as <-.
  apply win_set_frame in E. destruct E as (Ft & _). exact Ft.
Qed.

Lemma fill_tens σ d v σ1 :
  (if is_materializable d then
     match iter_all (d_ap d) with
     | None => Panic
     | Some idx => match win_fill V σ d idx v with Some σ' => Ok σ' | None => Panic end
     end
   else match win_fill V σ d (zseq 0 (Z.to_nat (d_len d))) v with Some σ' => Ok σ' | None => Panic end)
  = Ok σ1 -> tens σ1 = tens σ.
Proof.
  destruct (is_materializable d).
  - destruct (iter_all (d_ap d)) as [idx|]; [|discriminate].
    destruct (win_fill V σ d idx v) as [σ2|] eqn:E; [|discriminate]. intro H. injection H as <-.
    apply win_fill_frame in E. destruct E as (Ft & _). exact Ft.
  - destruct (win_fill V σ d _ v) as [σ2|] eqn:E; [|discriminate]. intro H. injection H as <-.
    apply win_fill_frame in E. destruct E as (Ft & _). exact Ft.
Qed.

Lemma lift_store_tens σ (res : Base.res (store V)) σ' r :
  (forall σ1, res = Ok σ1 -> tens σ1 = tens σ) -> lift_store V σ res = (σ', r) -> tens σ' = tens σ.
Proof.
  intros Hok H. destruct res as [σ1| |]; cbn [lift_store] in H; injection H as <- <-; auto.
Qed.

Lemma extends_get_t_cases σ σ' d' t d : extends V σ σ' ->
  length (tens σ') = S (length (tens σ)) -> get_t σ' (length (tens σ)) = Some d' ->
  get_t σ' t = Some d -> get_t σ t = Some d \/ (t = length (tens σ) /\ d = d').
Proof.
  intros [_ He] Hl Hn Ht. pose proof (nth_error_Some_lt _ _ _ Ht) as Hlt.
  destruct (Nat.eq_dec t (length (tens σ))) as [->|Hne].
  - right. split; [reflexivity|]. change (Mem.get_t V σ' (length (tens σ)) = Some d) in Ht. congruence.
  - left. destruct (get_t σ t) as [d0|] eqn:E0.
    + rewrite (He t d0 E0) in Ht. exact Ht.
    + apply nth_error_None in E0. lia.
Qed.

(* ====================================================================================== *)
(*  8d. OMaterialize                                                                       *)
(* ====================================================================================== *)
Lemma Rphi_alloc_gen φ σ ς σ' d' newvals x' (ψ : Z -> option nat) :
  Rphi φ σ ς -> extends V σ σ' ->
  length (tens σ') = S (length (tens σ)) -> get_t σ' (length (tens σ)) = Some d' ->
  let ς' := mkSS V (s_vals ς ++ newvals) (s_tens ς ++ [x']) in
  let φ' := fun b p => if Nat.eqb b (length (bufs σ)) then ψ p else φ b p in
  (forall p k, ψ p = Some k ->
     (length (s_vals ς) <= k < length (s_vals ς) + length newvals)%nat /\
     bget σ' (length (bufs σ)) p = Some (nth (k - length (s_vals ς)) newvals vzero)) ->
  (forall p p' k, ψ p = Some k -> ψ p' = Some k -> p = p') ->
  ten_ok φ' σ' d' x' ->
  Rphi φ' σ' ς'.
Proof.
  intros (Hlen & Hval & Hinj & Hall) Hext Hlt Hnd ς' φ' Hψ Hψi Hnew.
  assert (Hold : forall b p k, φ b p = Some k -> (b < length (bufs σ))%nat).
  { intros b p k H. destruct (Hval b p k H) as [_ Hb]. apply (bget_buf_lt _ _ _ _ Hb). }
  split; [unfold ς'; cbn [s_tens]; rewrite app_length; cbn [length]; lia|].
  split; [|split].
  - intros b p k H. unfold φ' in H. destruct (Nat.eqb_spec b (length (bufs σ))) as [->|Hne].
    + destruct (Hψ p k H) as [Hk Hz]. unfold ς'. cbn [s_vals]. rewrite app_length. split; [lia|].
      rewrite Hz. f_equal. rewrite app_nth2 by lia. reflexivity.
    + destruct (Hval b p k H) as [Hk Hb]. unfold ς'. cbn [s_vals]. rewrite app_length. split; [lia|].
      rewrite (extends_bget V σ σ' b p Hext (Hold b p k H)).
      rewrite app_nth1 by exact Hk. exact Hb.
  - intros b p b' p' k H1 H2. unfold φ' in H1, H2.
    destruct (Nat.eqb_spec b (length (bufs σ))) as [->|Hne];
      destruct (Nat.eqb_spec b' (length (bufs σ))) as [->|Hne'].
    + split; [reflexivity|]. apply (Hψi p p' k H1 H2).
    + destruct (Hψ p k H1) as [Hk _]. destruct (Hval b' p' k H2) as [Hk' _]. lia.
    + destruct (Hψ p' k H2) as [Hk _]. destruct (Hval b p k H1) as [Hk' _]. lia.
    + apply (Hinj b p b' p' k H1 H2).
  - intros t d x Ht Hx.
    destruct (extends_get_t_cases σ σ' d' t d Hext Hlt Hnd Ht) as [Ht0|[-> ->]].
    + unfold Spec.sget, ς' in Hx. cbn [s_tens] in Hx.
      pose proof (nth_error_Some_lt _ _ _ Ht0) as Hlt0.
      apply nth_error_app_snoc in Hx as [[_ Hx]|[Hx _]]; [|lia].
      specialize (Hall t d x Ht0 Hx). pose proof Hall as (Hwf & _).
      pose proof (wf_dense_buf_lt V σ d Hwf) as Hb.
      apply (ten_ok_ext φ φ' σ σ'); [|apply (extends_wf V σ σ' d Hext Hwf)|exact Hall].
      intro p. unfold φ'. destruct (Nat.eqb_spec (d_buf d) (length (bufs σ))); [lia|reflexivity].
    + unfold Spec.sget, ς' in Hx. cbn [s_tens] in Hx.
      apply nth_error_app_snoc in Hx as [[Hx _]|[_ ->]]; [lia|]. exact Hnew.
Qed.

Definition mat_hint_ok (σ : store V) (t : nat) (same : bool) : bool :=
  match get_t σ t with
  | Some d => Bool.eqb same (negb (is_materializable d))
  | None => true
  end.

Lemma sim_OMaterialize σ ς t same σ' r : R σ ς -> RM σ -> guard_op σ (OMaterialize V t same) = GOk ->
  mat_hint_ok σ t same = true ->
  step_model σ (OMaterialize V t same) = (σ', r) ->
  exists ς', step_spec ς (OMaterialize V t same) = Some (ς', r) /\ R σ' ς' /\
             (forall t0 d0, get_t σ' t0 = Some d0 -> get_t σ t0 = Some d0 \/ rowmajor d0).
Proof.
  intros HR HRM Hg Hh H. pose proof HR as (φ & Hφ).
  unfold Run.guard_op in Hg. unfold mat_hint_ok in Hh. change (Mem.get_t V σ t) with (get_t σ t) in Hg.
  destruct (get_t σ t) as [d|] eqn:Ht; [|discriminate].
  destruct (get_sget φ σ ς t d Hφ Ht) as [x Hx].
  pose proof Hφ as (Hlen & Hval & Hinj & Hall).
  destruct (Hall t d x Ht Hx) as (Hwf & Hrep & Hv & Hpend & Hcov).
  pose proof Hrep as (Hs & Ha & Hl & Hc). pose proof Ha as (Hps & Hls & Hst & Hbnd & Hainj).
  destruct (HRM t d Ht) as [Hcm _].
  unfold Run.step_model in H. unfold Run.step_spec. change (Spec.sget V ς t) with (sget ς t). rewrite Hx.
  destruct (is_materializable d) eqn:Em.
  - (* a fresh row-major copy *)
    assert (Hflag : requires_iterator d = false -> contig d).
    { intro Hri. unfold guard_read in Hg.
      destruct (negb (pos_shapeb (shp (d_ap d))) || (d_len d <=? 0)); [discriminate|].
      destruct (length (str (d_ap d)) <? length (shp (d_ap d)))%nat; [discriminate|].
      destruct (flag_soundb d) eqn:Ef; [|discriminate]. unfold flag_soundb in Ef. rewrite Hri in Ef.
      cbn [orb] in Ef. apply andb_true_iff in Ef as [E1 E2]. apply list_eqb_true in E1.
      unfold default_strides in E1. rewrite Hcm in E1. split; [exact E1|lia]. }
    destruct (m_materialize_fresh_equal V vzero σ t d Ht Hwf Em Hflag)
      as (σ1 & d' & EM & Hg' & Ed' & Hwf' & Hcn & Hzl & Hext & Hlb & Hlt & Hcell).
    cbn zeta in EM, Ed', Hzl, Hcell.
    rewrite EM in H. cbn [lift_new] in H. injection H as <- <-.
    assert (Hcond : s_view x || Nat.eqb (s_pending x) 1 || negb same = true).
    { unfold is_materializable in Em. rewrite Hv. destruct (d_view d); [reflexivity|]. cbn [orb] in Em |- *.
      cbn [negb] in Hh. destruct same; [discriminate Hh|]. apply orb_true_r. }
    rewrite Hcond. unfold spec_copy_of, spec_copy_gen. change (Spec.sget V ς t) with (sget ς t). rewrite Hx.
    unfold s_alloc, s_add. cbn [s_vals s_tens andb]. rewrite Hlen.
    eexists. split; [reflexivity|].
    set (sh := shp (d_ap d)) in *. pose proof (size_pos sh Hps) as Hsz.
    set (n0 := length (s_vals ς)). set (newvals := slogical V vzero ς x).
    assert (Hnl : length newvals = Z.to_nat (size sh)).
    { unfold newvals, slogical. rewrite map_length, Hl, <- Hs. reflexivity. }
    set (ψ := fun p : Z => if (0 <=? p) && (p <? size sh) then Some (n0 + Z.to_nat p)%nat else None).
    assert (Hpos' : forall c, inbox sh c -> pos d' c = rank_rm sh c).
    { intros c Hi. rewrite Ed'. unfold pos. cbn [d_off d_ap str].
      rewrite dot_calc_strides_rank by (apply inbox_length; exact Hi). lia. }
    split.
    + exists (fun b p => if Nat.eqb b (length (bufs σ)) then ψ p else φ b p).
      apply (Rphi_alloc_gen φ σ ς σ1 d' newvals _ ψ Hφ Hext Hlt Hg').
      * intros p k Hk. unfold ψ in Hk. destruct ((0 <=? p) && (p <? size sh)) eqn:E; [|discriminate].
        injection Hk as <-. fold n0. split; [lia|].
        replace (n0 + Z.to_nat p - n0)%nat with (Z.to_nat p) by lia.
        set (c := unrank sh p). assert (Hi : inbox sh c) by (apply unrank_inbox; [exact Hps|lia]).
        assert (Hrk : rank_rm sh c = p) by (apply rank_unrank; [exact Hps|lia]).
        assert (Hi' : inbox (shp (d_ap d')) c) by (rewrite Ed'; exact Hi).
        pose proof (cell_bget V σ1 d' c Hwf' Hi') as B1. rewrite (Hpos' c Hi), Hrk in B1.
        replace (d_buf d') with (length (bufs σ)) in B1 by (rewrite Ed'; reflexivity).
        rewrite <- B1, (Hcell c Hi), (cell_bget V σ d c Hwf Hi).
        rewrite Hs in Hi. pose proof (Hc c Hi) as F. fold (pos d c) in F.
        destruct (Hval _ _ _ F) as [_ Bk]. rewrite Bk. f_equal.
        unfold newvals, slogical. rewrite (nth_map_lt _ O vzero) by (rewrite Hl, <- Hs; fold sh; lia).
        rewrite <- Hs. fold sh. rewrite Hrk. reflexivity.
      * intros p p' k H1 H2. unfold ψ in H1, H2.
        destruct ((0 <=? p) && (p <? size sh)) eqn:E1; [|discriminate].
        destruct ((0 <=? p') && (p' <? size sh)) eqn:E2; [|discriminate].
        injection H1 as <-. injection H2 as H2. lia.
      * assert (Ha'' : wf_ap (d_len d') (d_ap d')) by (destruct Hwf' as (_ & A & _); exact A).
        split; [exact Hwf'|]. split; [|split; [rewrite Ed'; reflexivity|split]].
        -- cbn [s_shape s_cells]. split; [rewrite Ed'; cbn [d_ap shp]; exact Hs|]. split; [exact Ha''|].
           split; [rewrite seq_length, Hnl, <- Hs; reflexivity|].
           intros c Hi. rewrite <- Hs in Hi. fold sh in Hi.
           change (d_off d' + dot (str (d_ap d')) c) with (pos d' c). rewrite (Hpos' c Hi).
           replace (d_buf d') with (length (bufs σ)) by (rewrite Ed'; reflexivity). rewrite Nat.eqb_refl.
           pose proof (rank_rm_bound sh c Hps Hi) as Hr. unfold ψ.
           replace ((0 <=? rank_rm sh c) && (rank_rm sh c <? size sh)) with true by lia.
           rewrite <- Hs. fold sh. rewrite seq_nth by lia. reflexivity.
        -- unfold pend_ok. rewrite Ed'. cbn [d_old s_pending s_undo]. split; reflexivity.
        -- intros _ p k Hk Hr. replace (d_buf d') with (length (bufs σ)) in Hk by (rewrite Ed'; reflexivity).
           rewrite Nat.eqb_refl in Hk. unfold ψ in Hk.
           destruct ((0 <=? p) && (p <? size sh)) eqn:E; [|discriminate].
           exists (unrank sh p). assert (Hi : inbox sh (unrank sh p)) by (apply unrank_inbox; [exact Hps|lia]).
           split; [rewrite Ed'; exact Hi|]. rewrite (Hpos' _ Hi). symmetry. apply rank_unrank; [exact Hps|lia].
    + intros t0 d0 H0. destruct (extends_get_t_cases σ σ1 d' t0 d0 Hext Hlt Hg' H0) as [Hl0|[_ ->]];
        [left; exact Hl0|right]. rewrite Ed'. split; [reflexivity|discriminate].
  - (* the tensor itself *)
    rewrite (m_materialize_noop V vzero σ t d Ht Em) in H. cbn [lift_new] in H. injection H as <- <-.
    unfold is_materializable in Em. apply orb_false_iff in Em as [Ev Eo].
    unfold pend_ok in Hpend. destruct (d_old d); [discriminate Eo|]. destruct Hpend as [Hp0 _].
    rewrite Hv, Ev, Hp0. cbn [negb] in Hh. destruct same; [|discriminate Hh]. cbn [Nat.eqb orb negb].
    exists ς. split; [reflexivity|]. split; [exact HR|]. intros t0 d0 H0. left. exact H0.
Qed.

(* ---------- the row-major invariant is preserved by every step of the fragment ---------- *)
Lemma RM_ONew0 σ sh data σ' r : zlen data = size sh -> RM σ ->
  step_model σ (ONew V 0 sh data) = (σ', r) -> RM σ'.
Proof.
  intros Hl HRM H. rewrite (step_model_new0 σ sh data Hl) in H. injection H as <- <-.
  apply RM_snoc; [exact HRM|]. split; [reflexivity|discriminate].
Qed.

Lemma RM_OSlice σ t sl hint σ' r : RM σ -> step_model σ (OSlice V t sl hint) = (σ', r) -> RM σ'.
Proof.
  intros HRM H. unfold Run.step_model, m_slice in H. change (Mem.get_t V σ t) with (get_t σ t) in H.
  destruct (get_t σ t) as [d|] eqn:Ht; [|cbn [lift_new] in H; injection H as <- <-; exact HRM].
  destruct (ap_S (d_ap d) (d_len d) sl) as [[[a' s] e]| |] eqn:ES;
    try (cbn [lift_new] in H; injection H as <- <-; exact HRM).
  destruct (_ || _); [cbn [lift_new] in H; injection H as <- <-; exact HRM|].
  unfold add_t in H. cbn [lift_new] in H. injection H as <- <-.
  apply RM_snoc; [exact HRM|]. destruct (HRM t d Ht) as [Hcm _].
  split; [cbn [d_ap]; apply (ap_S_cm _ _ _ _ _ _ ES Hcm)|discriminate].
Qed.


Lemma RM_OT σ ς t axes σ' r : R σ ς -> RM σ -> guard_op σ (OT V t axes) = GOk ->
  step_model σ (OT V t axes) = (σ', r) -> RM σ'.
Proof.
  intros (φ & Hφ) HRM Hg H. unfold Run.guard_op in Hg. change (Mem.get_t V σ t) with (get_t σ t) in Hg.
  destruct (get_t σ t) as [d|] eqn:Ht; [|discriminate].
  destruct (guard_T_ok d axes Hg) as (Hpa & Hold & Hvec).
  destruct (get_sget φ σ ς t d Hφ Ht) as [x Hx].
  destruct Hφ as (_ & _ & _ & Hall). destruct (Hall t d x Ht Hx) as (Hwf & _).
  destruct (perm_axes_cases axes _ Hpa) as [Hp Hax].
  destruct (HRM t d Ht) as [Hcm _]. unfold Run.step_model in H.
  destruct (T_model σ t d axes Ht Hwf Hold Hp Hax Hvec) as [[_ E]|(_ & _ & E)];
    rewrite E in H; cbn [lift_store] in H; injection H as <- <-; [exact HRM|].
  apply RM_set; [exact HRM|]. split; [cbn [d_ap ord]; rewrite is_cm_lor_TR; exact Hcm|].
  intros o Ho. cbn [d_old] in Ho. injection Ho as <-. exact Hcm.
Qed.

Lemma RM_OUT σ t σ' r : RM σ -> step_model σ (OUT V t) = (σ', r) -> RM σ'.
Proof.
  intros HRM H. unfold Run.step_model, m_UT in H. change (Mem.get_t V σ t) with (get_t σ t) in H.
  destruct (get_t σ t) as [d|] eqn:Ht; cbn [lift_store] in H; injection H as <- <-; [|exact HRM].
  apply RM_set; [exact HRM|]. destruct (HRM t d Ht) as [Hcm Ho]. unfold ut_dense.
  destruct (d_old d) as [o|] eqn:Eo.
  - split; [cbn [d_ap]; apply Ho; reflexivity|discriminate].
  - split; [exact Hcm|]. rewrite Eo. discriminate.
Qed.

Lemma RM_OAt σ t c σ' r : RM σ -> step_model σ (OAt V t c) = (σ', r) -> RM σ'.
Proof.
  intros HRM H. unfold Run.step_model in H. destruct (m_at V σ t c); injection H as <- <-; exact HRM.
Qed.

Lemma RM_OSetAt σ t c v σ' r : RM σ -> step_model σ (OSetAt V t c v) = (σ', r) -> RM σ'.
Proof.
  intros HRM H. unfold Run.step_model in H. apply (RM_tens σ); [|exact HRM].
  apply (lift_store_tens σ _ σ' r (m_setat_tens σ t c v) H).
Qed.

Lemma RM_OMemset σ t v σ' r : RM σ -> step_model σ (OMemset V t v) = (σ', r) -> RM σ'.
Proof.
  intros HRM H. unfold Run.step_model in H. apply (RM_tens σ); [|exact HRM].
  apply (lift_store_tens σ _ σ' r) in H; [exact H|]. intros σ1 E. unfold m_memset in E.
  destruct (Mem.get_t V σ t) as [d|]; [|discriminate]. apply (fill_tens σ d v σ1 E).
Qed.

Lemma RM_OZero σ t σ' r : RM σ -> step_model σ (OZero V t) = (σ', r) -> RM σ'.
Proof.
  intros HRM H. unfold Run.step_model in H. apply (RM_tens σ); [|exact HRM].
  apply (lift_store_tens σ _ σ' r) in H; [exact H|]. intros σ1 E. unfold m_zero in E.
  destruct (Mem.get_t V σ t) as [d|]; [|discriminate]. apply (fill_tens σ d vzero σ1 E).
Qed.

Lemma RM_OClone σ t σ' r : RM σ -> step_model σ (OClone V t) = (σ', r) -> RM σ'.
Proof.
  intros HRM H. destruct (get_t σ t) as [d|] eqn:Ht.
  - rewrite (step_model_clone σ t d Ht) in H. injection H as <- <-.
    apply RM_snoc; [exact HRM|]. exact (HRM t d Ht).
  - unfold Run.step_model, m_clone in H. change (Mem.get_t V σ t) with (get_t σ t) in H. rewrite Ht in H.
    cbn [lift_new] in H. injection H as <- <-. exact HRM.
Qed.

(* ====================================================================================== *)
(*  8e. OTranspose with nothing pending (a no-op on both sides)                            *)
(* ====================================================================================== *)
Lemma sset_id ς t x : sget ς t = Some x -> sset ς t x = ς.
Proof.
  intro H. unfold Spec.sset, Spec.sget in *. rewrite (upd_same_id _ _ _ H). destruct ς; reflexivity.
Qed.

Definition transpose_nopending (σ : store V) (t : nat) : bool :=
  match get_t σ t with Some d => negb (is_some (d_old d)) | None => true end.

(* PARTIAL: this lemma is the case "nothing pending" (a no-op on both sides); the pending case is
   sim_OTranspose_pending below, under transpose_extra (window of exactly size-many cells, shape not
   scalar).  Full statement:
     R σ ς -> guard_op σ (OTranspose t) = GOk -> step_model σ (OTranspose t) = (σ', r) ->
     exists ς', step_spec ς (OTranspose t) = Some (ς', r) /\ R σ' ς' *)
Lemma sim_OTranspose_partial σ ς t σ' r : R σ ς -> guard_op σ (OTranspose V t) = GOk ->
  transpose_nopending σ t = true ->
  step_model σ (OTranspose V t) = (σ', r) ->
  exists ς', step_spec ς (OTranspose V t) = Some (ς', r) /\ R σ' ς' /\ σ' = σ.
Proof.
  intros HR Hg He H. pose proof HR as (φ & Hφ).
  unfold Run.guard_op in Hg. unfold transpose_nopending in He. change (Mem.get_t V σ t) with (get_t σ t) in Hg.
  destruct (get_t σ t) as [d|] eqn:Ht; [|discriminate]. clear Hg.
  destruct (d_old d) as [o|] eqn:Eo; [discriminate He|].
  destruct (get_sget φ σ ς t d Hφ Ht) as [x Hx].
  pose proof Hφ as (_ & _ & _ & Hall). destruct (Hall t d x Ht Hx) as (_ & _ & _ & Hpend & _).
  unfold pend_ok in Hpend. rewrite Eo in Hpend. destruct Hpend as [Hp0 Hu0].
  unfold Run.step_model, m_transpose, m_transpose_d in H. change (Mem.get_t V σ t) with (get_t σ t) in H.
  rewrite Ht, Eo in H. change (Mem.set_t V σ t d) with (set_t σ t d) in H. rewrite (set_t_id V σ t d Ht) in H.
  cbn [lift_store] in H. injection H as <- <-.
  unfold Run.step_spec, spec_transpose. change (Spec.sget V ς t) with (sget ς t). rewrite Hx.
  assert (Ex : mkSten (s_shape x) (s_cells x) None 0 (s_view x) (s_cm x) = x).
  { destruct x as [sh cl un pe vi cm]. cbn in *. subst. reflexivity. }
  rewrite Ex. change (Spec.sset V ς t x) with (sset ς t x). rewrite (sset_id ς t x Hx).
  exists ς. split; [reflexivity|]. split; [exact HR|reflexivity].
Qed.

(* ====================================================================================== *)
(*  8f. OCopy between tensors of equal shape in different allocations                     *)
(* ====================================================================================== *)
Lemma write_cells_nth : forall (cells : list nat) (vals vs : list V),
  length cells = length vs -> NoDup cells -> (forall k, In k cells -> (k < length vals)%nat) ->
  let res := write_cells V vals cells vs in
  length res = length vals /\
  (forall j, (j < length cells)%nat -> nth (nth j cells O) res vzero = nth j vs vzero) /\
  (forall k, ~ In k cells -> nth k res vzero = nth k vals vzero).
Proof.
  induction cells as [|c cells IH]; intros vals [|v vs] Hl Hnd Hb; try discriminate; cbn [write_cells].
  - split; [reflexivity|]. split; [intros j Hj; cbn in Hj; lia|reflexivity].
  - inversion Hnd as [|? ? Hc Hnd']; subst. cbn [length] in Hl.
    assert (Hcl : (c < length vals)%nat) by (apply Hb; left; reflexivity).
    destruct (IH (upd vals c v) vs ltac:(lia) Hnd') as (I1 & I2 & I3).
    { intros k Hk. rewrite upd_length. apply Hb. right. exact Hk. }
    cbn zeta in I1, I2, I3. split; [rewrite I1; apply upd_length|]. split.
    + intros [|j] Hj; cbn [nth].
      * rewrite (I3 c Hc). apply nth_upd_same. exact Hcl.
      * apply I2. cbn [length] in Hj. lia.
    + intros k Hk. rewrite I3 by (intro; apply Hk; right; assumption).
      apply nth_upd_other. intro; subst. apply Hk. left. reflexivity.
Qed.

Lemma guard_read_contig d : guard_read d = GOk -> is_cm (ord (d_ap d)) = false ->
  requires_iterator d = false -> contig d.
Proof.
  intros Hg Hcm Hri. unfold guard_read in Hg.
  destruct (negb (pos_shapeb (shp (d_ap d))) || (d_len d <=? 0)); [discriminate|].
  destruct (length (str (d_ap d)) <? length (shp (d_ap d)))%nat; [discriminate|].
  destruct (flag_soundb d) eqn:Ef; [|discriminate]. unfold flag_soundb in Ef. rewrite Hri in Ef.
  cbn [orb] in Ef. apply andb_true_iff in Ef as [E1 E2]. apply list_eqb_true in E1.
  unfold default_strides in E1. rewrite Hcm in E1. split; [exact E1|lia].
Qed.

Definition copy_extra (σ : store V) (dt st : nat) : bool :=
  match get_t σ dt, get_t σ st with
  | Some d, Some s => negb (Nat.eqb (d_buf d) (d_buf s)) && list_eqb (shp (d_ap d)) (shp (d_ap s))
  | _, _ => true
  end.

(* PARTIAL: only copies between tensors of EQUAL shape living in DIFFERENT allocations (the SPEC
   also determines copies between equal-sized tensors of different shapes, and between disjoint
   views of one allocation).  Full statement: as below without the hypothesis copy_extra. *)
Lemma sim_OCopy_partial σ ς dt st σ' r : R σ ς -> RM σ -> guard_op σ (OCopy V dt st) = GOk ->
  copy_extra σ dt st = true ->
  step_model σ (OCopy V dt st) = (σ', r) ->
  exists ς', step_spec ς (OCopy V dt st) = Some (ς', r) /\ R σ' ς' /\ tens σ' = tens σ.
Proof.
  intros HR HRM Hg He H. pose proof HR as (φ & Hφ).
  unfold Run.guard_op in Hg. unfold copy_extra in He.
  change (Mem.get_t V σ dt) with (get_t σ dt) in Hg. change (Mem.get_t V σ st) with (get_t σ st) in Hg.
  destruct (get_t σ dt) as [d|] eqn:Hd; [|discriminate].
  destruct (get_t σ st) as [s|] eqn:Hs; [|discriminate].
  destruct (after_vector_T d || after_vector_T s); [discriminate|].
  assert (Hgr : guard_read d = GOk /\ guard_read s = GOk).
  { unfold guard_copy in Hg. destruct (guard_read d); try discriminate Hg.
    destruct (guard_read s); try discriminate Hg. split; reflexivity. }
  destruct Hgr as [Gd Gs]. clear Hg.
  apply andb_true_iff in He as [Eb Esh]. apply negb_true_iff in Eb. apply Nat.eqb_neq in Eb.
  apply list_eqb_true in Esh.
  destruct (get_sget φ σ ς dt d Hφ Hd) as [xd Hxd]. destruct (get_sget φ σ ς st s Hφ Hs) as [xs Hxs].
  pose proof Hφ as (_ & Hval & Hinj & Hall).
  destruct (Hall dt d xd Hd Hxd) as (Hwd & Hrd & _). destruct (Hall st s xs Hs Hxs) as (Hws & Hrs & _).
  destruct (HRM dt d Hd) as [Cd _]. destruct (HRM st s Hs) as [Cs _].
  destruct (m_copy_spec V σ dt st d s Hd Hs Hwd Hws Eb Esh (guard_read_contig d Gd Cd) (guard_read_contig s Gs Cs))
    as (σ1 & E1 & Hfr & Hoth & Hcp & Hrest).
  unfold Run.step_model in H. rewrite E1 in H. cbn [lift_store] in H. injection H as <- <-.
  pose proof Hrd as (Sd & Ad & Ld & Cd'). pose proof Hrs as (Ss & As & Ls & Cs').
  pose proof Ad as (Pd & _). rewrite Sd in Pd. pose proof As as (Ps & _). rewrite Ss in Ps.
  assert (Eshape : s_shape xd = s_shape xs) by congruence.
  assert (Hlen : length (s_cells xd) = length (s_cells xs)) by (rewrite Ld, Ls, Eshape; reflexivity).
  assert (Hdisj : existsb (fun c => existsb (Nat.eqb c) (s_cells xs)) (s_cells xd) = false).
  { destruct (existsb _ (s_cells xd)) eqn:E; [|reflexivity]. exfalso.
    apply existsb_exists in E as (k & Hk1 & Hk2). apply existsb_exists in Hk2 as (k' & Hk2 & Ek).
    apply Nat.eqb_eq in Ek. subst k'.
    destruct (In_nth_rank _ _ k Pd Ld Hk1) as (c1 & I1 & N1). destruct (In_nth_rank _ _ k Ps Ls Hk2) as (c2 & I2 & N2).
    pose proof (Cd' c1 I1) as F1. pose proof (Cs' c2 I2) as F2. rewrite N1 in F1. rewrite N2 in F2.
    destruct (Hinj _ _ _ _ _ F1 F2) as [Hb _]. contradiction. }
  unfold Run.step_spec, spec_copy_into. change (Spec.sget V ς dt) with (sget ς dt).
  change (Spec.sget V ς st) with (sget ς st). rewrite Hxd, Hxs.
  replace (length (s_cells xd) =? length (s_cells xs))%nat with true by (symmetry; apply Nat.eqb_eq; exact Hlen).
  cbn [negb]. rewrite Hdisj.
  eexists. split; [reflexivity|]. split; [|destruct Hfr as (Ft & _); exact Ft]. exists φ.
  pose proof (rep_idx_inj φ d (d_ap d) (s_shape xd) (s_cells xd) Hinj Hrd) as Hidx.
  assert (Hnd : NoDup (s_cells xd)) by (apply (NoDup_nth _ O); exact Hidx).
  assert (Hbound : forall k, In k (s_cells xd) -> (k < length (s_vals ς))%nat).
  { intros k Hk. destruct (In_nth_rank _ _ k Pd Ld Hk) as (c & Hc1 & <-).
    destruct (Hval _ _ _ (Cd' c Hc1)) as [Hlt _]. exact Hlt. }
  assert (Hlv : length (s_cells xd) = length (slogical V vzero ς xs)).
  { unfold slogical. rewrite map_length. exact Hlen. }
  destruct (write_cells_nth (s_cells xd) (s_vals ς) (slogical V vzero ς xs) Hlv Hnd Hbound) as (W1 & W2 & W3).
  cbn zeta in W1, W2, W3.
  apply (Rphi_frame φ σ ς σ1); [exact Hφ|exact Hfr|exact W1|].
  intros b p k Hk. destruct (in_dec Nat.eq_dec k (s_cells xd)) as [Hin|Hnin].
  - destruct (In_nth_rank _ _ k Pd Ld Hin) as (c & Hc1 & Ek).
    pose proof (Cd' c Hc1) as F. rewrite Ek in F. destruct (Hinj _ _ _ _ _ Hk F) as [-> ->].
    fold (pos d c). assert (Hc1' : inbox (shp (d_ap d)) c) by (rewrite Sd; exact Hc1).
    rewrite (Hcp c Hc1'). rewrite <- Ek.
    pose proof (rank_rm_bound _ _ Pd Hc1) as Hrk.
    rewrite W2 by lia. unfold slogical. rewrite (nth_map_lt _ O vzero) by lia.
    assert (Hc2 : inbox (s_shape xs) c) by (rewrite <- Eshape; exact Hc1).
    pose proof (Cs' c Hc2) as Fs. fold (pos s c) in Fs. destruct (Hval _ _ _ Fs) as [_ Bs].
    rewrite Bs, Eshape. reflexivity.
  - rewrite (W3 k Hnin). destruct (Hval _ _ _ Hk) as [_ Bk]. rewrite <- Bk.
    destruct (Nat.eq_dec b (d_buf d)) as [->|Hb]; [|apply Hoth; exact Hb].
    apply Hrest. intros c Hc1 Hp. subst p. rewrite Sd in Hc1. pose proof (Cd' c Hc1) as F. fold (pos d c) in F.
    apply Hnin. replace k with (nth (Z.to_nat (rank_rm (s_shape xd) c)) (s_cells xd) O) by congruence.
    apply (rep_cell_in φ d (d_ap d)); assumption.
Qed.

(* ====================================================================================== *)
(*  8g. OSafeT: a fresh copy (nothing pending), then a lazy transpose of the copy           *)
(* ====================================================================================== *)
Lemma ap_T_cases a len axes : wf_ap len a ->
  let n := length (shp a) in let p := axes_or_rev n axes in
  is_permb p n = true -> (axes = [] \/ length axes = n) ->
  is_vector (shp a) && negb (allones (str a)) = false ->
  ((is_scalar_equiv (shp a) = true \/ p = zseq 0 n) /\ ap_T a axes = TNoop) \/
  (exists ax, ap_T a axes = TOk (mkAP (permute 0 p (shp a)) (permute 0 p (str a)) (Z.lor (ord a) TR) true) ax).
Proof.
  intros Ha n p Hp Hax Hvec. pose proof Ha as (_ & Hl & _).
  destruct (is_scalar_equiv (shp a)) eqn:Hse.
  { left. split; [left; reflexivity|]. apply (ap_T_noop_gen a axes Hax (or_introl Hse)). }
  destruct (list_eq_dec Z.eq_dec p (zseq 0 n)) as [Hid|Hid].
  { left. split; [right; exact Hid|]. apply (ap_T_noop_gen a axes Hax (or_intror Hid)). }
  right. destruct (is_vector (shp a)) eqn:Hv.
  - cbn [andb] in Hvec. apply negb_false_iff in Hvec.
    assert (Hv' : ap_is_vector a = true) by exact Hv.
    assert (Hn2 : n = 2%nat).
    { unfold is_vector, is_colvec, is_rowvec in Hv. unfold n.
      destruct (shp a) as [|s0 [|s1 [|? ?]]]; cbn in Hv; try discriminate; [|reflexivity].
      exfalso. apply Hid. apply perm1_id. exact Hp. }
    assert (Hp2 : p = [1; 0]) by (apply perm2_swap; [rewrite <- Hn2; exact Hp|rewrite <- Hn2; exact Hid]).
    destruct (shp a) as [|s0 [|s1 [|? ?]]] eqn:Es; try discriminate Hn2.
    destruct (str a) as [|k0 [|k1 [|? ?]]] eqn:Ek; try discriminate Hl.
    cbn [allones forallb] in Hvec. assert (k0 = 1 /\ k1 = 1) as [-> ->] by lia.
    assert (Hax' : axes = [] \/ axes = [1; 0]).
    { unfold p, axes_or_rev in Hp2. destruct axes; [left; reflexivity|right; exact Hp2]. }
    destruct (ap_T_vector_ones a axes s0 s1 Es Hv' Ek Hax') as (HT & _).
    exists [1; 0]. rewrite HT, Hp2. reflexivity.
  - destruct (ap_T_offset a axes Hl Hse Hv Hp Hid) as (HT & _). exists p. exact HT.
Qed.

Lemma guard_safeT_ok d axes : guard_safeT d axes = GOk ->
  is_perm_axes axes (length (shp (d_ap d))) = true /\
  is_vector (shp (d_ap d)) && negb (allones (str (d_ap d))) = false.
Proof.
  intro Hg. unfold guard_safeT in Hg.
  assert (G : (if negb (is_perm_axes axes (length (shp (d_ap d)))) then GBadAxes
               else if is_vector (shp (d_ap d)) && negb (allones (str (d_ap d))) then GVectorAxes
               else GOk) = GOk) by (destruct (guard_read d); try discriminate Hg; exact Hg).
  destruct (is_perm_axes axes _); [|discriminate G]. cbn [negb] in G.
  destruct (is_vector _ && negb _); [discriminate G|]. auto.
Qed.

Lemma upd_app_last {A} (l : list A) x y : upd (l ++ [x]) (length l) y = l ++ [y].
Proof. induction l as [|h l IH]; cbn; [reflexivity|]. f_equal. exact IH. Qed.

Lemma set_t_snoc B (T : list dense) d0 d' :
  set_t (mkStore V B (T ++ [d0])) (length T) d' = mkStore V B (T ++ [d']).
Proof. unfold Mem.set_t. cbn [bufs tens]. rewrite upd_app_last. reflexivity. Qed.

Lemma step_model_safeT σ t d axes : get_t σ t = Some d ->
  step_model σ (OSafeT V t axes)
  = match ap_T (d_ap d) axes with
    | TErr => (σ, RErr V)
    | TPanic => (σ, RPanic V)
    | TNoop => (mkStore V (bufs σ ++ [window V σ d])
                  (tens σ ++ [mkDense (length (bufs σ)) 0 (d_len d) (d_ap d) (Some (d_ap d)) false]),
                RNew V (length (tens σ)))
    | TOk tr _ => (mkStore V (bufs σ ++ [window V σ d])
                     (tens σ ++ [mkDense (length (bufs σ)) 0 (d_len d) tr (Some (d_ap d)) false]),
                   RNew V (length (tens σ)))
    end.
Proof.
  intro Ht. unfold Run.step_model, m_safeT. change (Mem.get_t V σ t) with (get_t σ t). rewrite Ht.
  destruct (ap_T (d_ap d) axes); reflexivity.
Qed.

Lemma sim_OSafeT σ ς t axes σ' r : R σ ς -> RM σ -> guard_op σ (OSafeT V t axes) = GOk ->
  step_model σ (OSafeT V t axes) = (σ', r) ->
  exists ς', step_spec ς (OSafeT V t axes) = Some (ς', r) /\ R σ' ς' /\ RM σ'.
Proof.
  intros HR HRM Hg H. pose proof HR as (φ & Hφ).
  unfold Run.guard_op in Hg. change (Mem.get_t V σ t) with (get_t σ t) in Hg.
  destruct (get_t σ t) as [d|] eqn:Ht; [|discriminate].
  destruct (guard_safeT_ok d axes Hg) as (Hpa & Hvec). clear Hg.
  destruct (get_sget φ σ ς t d Hφ Ht) as [x Hx].
  pose proof Hφ as (Hlen & _ & _ & Hall). destruct (Hall t d x Ht Hx) as (Hwf & _).
  pose proof Hwf as (_ & Ha & _).
  destruct (perm_axes_cases axes _ Hpa) as [Hp Hax].
  destruct (HRM t d Ht) as [Hcm _].
  (* the copy, nothing pending *)
  destruct (clone_core φ σ ς t d x false Hφ Ht Hx) as (φ' & Hφ').
  set (d0 := mkDense (length (bufs σ)) 0 (d_len d) (d_ap d) None false) in *.
  set (σc := mkStore V (bufs σ ++ [window V σ d]) (tens σ ++ [d0])) in *.
  set (ςc := mkSS V (s_vals ς ++ slogical V vzero ς x) (s_tens ς ++ [clone_sten ς x false])) in *.
  assert (Ht0 : get_t σc (length (tens σ)) = Some d0).
  { unfold Mem.get_t, σc. cbn [tens]. apply nth_error_app_last. }
  assert (Hx0 : sget ςc (length (tens σ)) = Some (clone_sten ς x false)).
  { unfold Spec.sget, ςc. cbn [s_tens]. rewrite Hlen. apply nth_error_app_last. }
  destruct (T_core φ' σc ςc (length (tens σ)) d0 _ axes Hφ' Ht0 Hx0 eq_refl Hpa) as (F1 & ς2 & E2 & HR2).
  cbn [d0 d_ap d_buf d_off d_len d_view] in F1, HR2.
  rewrite (step_model_safeT σ t d axes Ht) in H.
  unfold Run.step_spec, spec_copy_of. rewrite (spec_copy_gen_eq ς t x false Hx). fold ςc. rewrite <- Hlen.
  destruct (ap_T_cases (d_ap d) (d_len d) axes Ha Hp Hax Hvec) as [[Hnoop E]|[ax E]];
    rewrite E in H; injection H as <- <-.
  - rewrite (F1 Hnoop). eexists. split; [reflexivity|].
    set (dn := mkDense (length (bufs σ)) 0 (d_len d) (d_ap d) (Some (d_ap d)) false).
    assert (Eσ : mkStore V (bufs σ ++ [window V σ d]) (tens σ ++ [dn]) = set_t σc (length (tens σ)) dn).
    { unfold σc. rewrite set_t_snoc. reflexivity. }
    rewrite Eσ. split.
    + exists φ'. pose proof Hφ' as (_ & _ & _ & Hallc).
      destruct (Hallc _ _ _ Ht0 Hx0) as (Hwf0 & Hrep0 & Hv0 & Hpend0 & Hcov0).
      apply (Rphi_set_model φ' σc ςc _ d0 _ dn Hφ' Ht0 Hx0).
      split; [|split; [apply (rep_same_window φ' d0 dn); auto|split; [exact Hv0|split]]].
      * destruct Hwf0 as (W & A & _). split; [exact W|]. split; [exact A|].
        intros o Ho. cbn [dn d_old] in Ho. injection Ho as <-. exact A.
      * unfold pend_ok. cbn [dn d_old d_ap clone_sten s_pending s_undo].
        split; [intros c Hc; exists c; auto|]. split; [intros c Hc; exists c; auto|].
        right. split; [reflexivity|]. split; [reflexivity|]. apply (rep_same_window φ' d0 dn); auto.
      * intros Hnv q k Hk Hr. apply (Hcov0 eq_refl q k Hk Hr).
    + apply RM_set; [apply RM_snoc; [exact HRM|split; [exact Hcm|discriminate]]|].
      split; [exact Hcm|]. intros o Ho. cbn [dn d_old] in Ho. injection Ho as <-. exact Hcm.
  - rewrite E2. eexists. split; [reflexivity|].
    match goal with |- R ?σx _ /\ _ =>
      assert (Eσ : σx = set_t σc (length (tens σ))
                 (mkDense (length (bufs σ)) 0 (d_len d)
                    (mkAP (permute 0 (axes_or_rev (length (shp (d_ap d))) axes) (shp (d_ap d)))
                          (permute 0 (axes_or_rev (length (shp (d_ap d))) axes) (str (d_ap d)))
                          (Z.lor (ord (d_ap d)) TR) true) (Some (d_ap d)) false))
        by (unfold σc; rewrite set_t_snoc; reflexivity) end.
    rewrite Eσ. split; [exists φ'; exact HR2|].
    apply RM_set; [apply RM_snoc; [exact HRM|split; [exact Hcm|discriminate]]|].
    split; [cbn [d_ap ord]; rewrite is_cm_lor_TR; exact Hcm|].
    intros o Ho. cbn [d_old] in Ho. injection Ho as <-. exact Hcm.
Qed.

(* ====================================================================================== *)
(*  8h. OTranspose with a pending lazy transpose: the data moves inside the buffer           *)
(* ====================================================================================== *)
Lemma filter_count_two {A} (f : A -> bool) : forall (l : list A) i j a b,
  nth_error l i = Some a -> nth_error l j = Some b -> i <> j -> f a = true -> f b = true ->
  (2 <= length (filter f l))%nat.
Proof.
  induction l as [|h l IH]; intros [|i] [|j] a b Hi Hj Hne Fa Fb; cbn in Hi, Hj; try discriminate; try lia.
  - injection Hi as ->. cbn [filter]. rewrite Fa. cbn [length].
    assert (In b (filter f l)) by (apply filter_In; split; [eapply nth_error_In; eauto|exact Fb]).
    destruct (filter f l); [contradiction|cbn [length]; lia].
  - injection Hj as ->. cbn [filter]. rewrite Fb. cbn [length].
    assert (In a (filter f l)) by (apply filter_In; split; [eapply nth_error_In; eauto|exact Fa]).
    destruct (filter f l); [contradiction|cbn [length]; lia].
  - assert (H2 : (2 <= length (filter f l))%nat) by (apply (IH i j a b); auto).
    cbn [filter]. destruct (f h); cbn [length]; lia.
Qed.

Definition transpose_extra (σ : store V) (t : nat) : bool :=
  match get_t σ t with
  | Some d => match d_old d with
              | None => true
              | Some _ => negb (is_scalar (shp (d_ap d))) && (d_len d =? size (shp (d_ap d)))
              end
  | None => true
  end.

(* PARTIAL (pending case): a window of exactly size-many cells and a non-scalar shape are assumed
   (transpose_extra); the general statement is the one of sim_OTranspose_partial below without it *)
Lemma sim_OTranspose_pending σ ς t d o σ' r : R σ ς -> RM σ -> get_t σ t = Some d -> d_old d = Some o ->
  guard_op σ (OTranspose V t) = GOk ->
  is_scalar (shp (d_ap d)) = false -> d_len d = size (shp (d_ap d)) ->
  step_model σ (OTranspose V t) = (σ', r) ->
  exists ς', step_spec ς (OTranspose V t) = Some (ς', r) /\ R σ' ς' /\ RM σ'.
Proof.
  intros HR HRM Ht Hold Hg Hsc Hlen H. pose proof HR as (φ & Hφ).
  unfold Run.guard_op in Hg. change (Mem.get_t V σ t) with (get_t σ t) in Hg. rewrite Ht in Hg.
  destruct (HRM t d Ht) as [Hcm _].
  assert (Hgv : d_view d = false /\
                (1 <? Z.of_nat (length (filter (fun x => Nat.eqb (d_buf x) (d_buf d)) (tens σ)))) = false).
  { unfold guard_transpose in Hg. rewrite Hold in Hg. cbn [is_some negb andb] in Hg. rewrite Hcm in Hg.
    destruct (guard_read d); try discriminate Hg;
      (destruct (d_view d || is_nc (ord (d_ap d))) eqn:Ev; [discriminate Hg|]);
      apply orb_false_iff in Ev as [Ev _];
      (destruct (1 <? _) eqn:Ec; [discriminate Hg|]); auto. }
  clear Hg. destruct Hgv as [Hnv Hcount].
  destruct (get_sget φ σ ς t d Hφ Ht) as [x Hx].
  pose proof Hφ as (Hlt & Hval & Hinj & Hall).
  destruct (Hall t d x Ht Hx) as (Hwf & Hrep & Hv & Hpend & Hcov).
  pose proof Hrep as (Hs & Ha & Hl & Hc). pose proof Ha as (Hps & Hls & Hst & Hbnd & Hainj).
  set (sh := shp (d_ap d)) in *. pose proof (size_pos sh Hps) as Hsz.
  destruct (m_transpose_logical_id V σ t d o Ht Hwf Hold Hcm Hsc Hlen)
    as (σ1 & d' & EM & Hg' & Ed' & Hwf' & Hlt' & Hoth & Hzl & Hob & Hout & Hcell).
  cbn zeta in Ed', Hcell. fold sh in Ed', Hcell.
  unfold Run.step_model in H. rewrite EM in H. cbn [lift_store] in H. injection H as <- <-.
  unfold Run.step_spec, spec_transpose. change (Spec.sget V ς t) with (sget ς t). rewrite Hx.
  eexists. split; [reflexivity|].
  (* other tensors live in other allocations *)
  assert (Halone : forall t0 d0, t0 <> t -> get_t σ t0 = Some d0 -> d_buf d0 <> d_buf d).
  { intros t0 d0 Hne H0 Eb.
    pose proof (filter_count_two (fun x => Nat.eqb (d_buf x) (d_buf d)) (tens σ) t0 t d0 d H0 Ht Hne
                  ltac:(apply Nat.eqb_eq; exact Eb) ltac:(apply Nat.eqb_refl)). lia. }
  set (inw := fun p : Z => (d_off d <=? p) && (p <? d_off d + d_len d)).
  set (φ2 := fun b p => if Nat.eqb b (d_buf d) then
                          (if inw p then φ (d_buf d) (pos d (unrank sh (p - d_off d))) else φ (d_buf d) p)
                        else φ b p).
  assert (Hpos' : forall c, inbox sh c -> pos d' c = d_off d + rank_rm sh c).
  { intros c Hi. rewrite Ed'. unfold pos. cbn [d_off d_ap str].
    rewrite dot_calc_strides_rank by (apply inbox_length; exact Hi). reflexivity. }
  assert (Hsrc : forall p, inw p = true -> inbox sh (unrank sh (p - d_off d)) /\
                   rank_rm sh (unrank sh (p - d_off d)) = p - d_off d).
  { intros p Hp. unfold inw in Hp. split; [apply unrank_inbox; [exact Hps|lia]|apply rank_unrank; [exact Hps|lia]]. }
  split.
  - exists φ2. split; [unfold Spec.sset; cbn [s_tens]; rewrite upd_length; lia|]. split; [|split].
    + (* validity *)
      intros b p k Hk. unfold Spec.sset. cbn [s_vals]. unfold φ2 in Hk.
      destruct (Nat.eqb_spec b (d_buf d)) as [->|Hb].
      * destruct (inw p) eqn:Ep.
        -- destruct (Hsrc p Ep) as [Hi Hr]. destruct (Hval _ _ _ Hk) as [Hkl Bk]. split; [exact Hkl|].
           assert (Hi' : inbox (shp (d_ap d')) (unrank sh (p - d_off d))) by (rewrite Ed'; exact Hi).
           pose proof (cell_bget V σ1 d' _ Hwf' Hi') as B1. rewrite (Hpos' _ Hi), Hr in B1.
           replace (d_off d + (p - d_off d)) with p in B1 by lia.
           replace (d_buf d') with (d_buf d) in B1 by (rewrite Ed'; reflexivity).
           rewrite <- B1, (Hcell _ Hi), (cell_bget V σ d _ Hwf Hi). exact Bk.
        -- destruct (Hval _ _ _ Hk) as [Hkl Bk]. split; [exact Hkl|]. rewrite <- Bk. apply Hout.
           unfold inw in Ep. lia.
      * destruct (Hval _ _ _ Hk) as [Hkl Bk]. split; [exact Hkl|]. rewrite <- Bk. apply Hob. exact Hb.
    + (* injectivity *)
      assert (Hφ2 : forall b p k, φ2 b p = Some k ->
                exists q, φ b q = Some k /\
                  ((b = d_buf d /\ inw p = true /\ q = pos d (unrank sh (p - d_off d)) /\ inw q = true) \/
                   (~ (b = d_buf d /\ inw p = true) /\ q = p))).
      { intros b p k Hk. unfold φ2 in Hk. destruct (Nat.eqb_spec b (d_buf d)) as [->|Hb].
        - destruct (inw p) eqn:Ep.
          + eexists. split; [exact Hk|]. left. split; [reflexivity|]. split; [reflexivity|]. split; [reflexivity|].
            destruct (Hsrc p Ep) as [Hi _]. specialize (Hbnd _ Hi). unfold inw, pos. lia.
          + exists p. split; [exact Hk|]. right. split; [intros [_ E]; discriminate E|reflexivity].
        - exists p. split; [exact Hk|]. right. split; [intros [E _]; contradiction|reflexivity]. }
      intros b p b' p' k H1 H2.
      destruct (Hφ2 b p k H1) as (q & Q1 & C1). destruct (Hφ2 b' p' k H2) as (q' & Q2 & C2).
      destruct (Hinj _ _ _ _ _ Q1 Q2) as [Eb Eq]. subst b' q'.
      destruct C1 as [(Eb1 & Ep & Eq1 & Ew1)|(N1 & Eq1)]; destruct C2 as [(Eb2 & Ep' & Eq2 & Ew2)|(N2 & Eq2)].
      * split; [reflexivity|]. destruct (Hsrc p Ep) as [Hi Hr]. destruct (Hsrc p' Ep') as [Hi' Hr'].
        rewrite Eq1 in Eq2. unfold pos in Eq2.
        assert (Hu : unrank sh (p - d_off d) = unrank sh (p' - d_off d)) by (apply Hainj; auto; lia).
        rewrite Hu in Hr. lia.
      * exfalso. apply N2. split; [exact Eb1|]. rewrite <- Eq2. exact Ew1.
      * exfalso. apply N1. split; [exact Eb2|]. rewrite <- Eq1. exact Ew2.
      * split; [reflexivity|]. congruence.
    + (* tensors *)
      intros t0 d0 x0 H0 X0. destruct (Nat.eq_dec t0 t) as [->|Hne].
      * assert (d0 = d') by congruence. subst d0.
        rewrite (sget_sset_same ς t x _ Hx) in X0. injection X0 as <-.
        assert (Ha'' : wf_ap (d_len d') (d_ap d')) by (destruct Hwf' as (_ & A & _); exact A).
        split; [exact Hwf'|]. split; [|split; [rewrite Ed'; exact Hv|split]].
        -- cbn [s_shape s_cells]. split; [rewrite Ed'; cbn [d_ap shp]; exact Hs|]. split; [exact Ha''|].
           split; [exact Hl|]. intros c Hi. rewrite <- Hs in Hi. fold sh in Hi.
           change (d_off d' + dot (str (d_ap d')) c) with (pos d' c). rewrite (Hpos' c Hi).
           replace (d_buf d') with (d_buf d) by (rewrite Ed'; reflexivity).
           pose proof (rank_rm_bound sh c Hps Hi) as Hr. unfold φ2. rewrite Nat.eqb_refl.
           replace (inw (d_off d + rank_rm sh c)) with true by (unfold inw; lia).
           replace (d_off d + rank_rm sh c - d_off d) with (rank_rm sh c) by lia.
           rewrite unrank_rank by assumption. unfold pos. apply Hc. rewrite <- Hs. exact Hi.
        -- unfold pend_ok. rewrite Ed'. cbn [d_old s_pending s_undo]. split; reflexivity.
        -- intros _ p k Hk Hr. rewrite Ed' in Hk, Hr. cbn [d_buf d_off d_len] in Hk, Hr.
           assert (Ep : inw p = true) by (unfold inw; lia). destruct (Hsrc p Ep) as [Hi Hrk].
           exists (unrank sh (p - d_off d)). split; [rewrite Ed'; exact Hi|]. rewrite (Hpos' _ Hi), Hrk. lia.
      * rewrite (Hoth t0 Hne) in H0. rewrite (sget_sset_other ς t t0 _ Hne) in X0.
        specialize (Hall t0 d0 x0 H0 X0). pose proof Hall as (Hwf0 & _).
        apply (ten_ok_ext φ φ2 σ σ1); [|apply (wf_dense_frame V σ); [exact Hzl|exact Hwf0]|exact Hall].
        intro p. unfold φ2. destruct (Nat.eqb_spec (d_buf d0) (d_buf d)) as [E|_]; [|reflexivity].
        exfalso. apply (Halone t0 d0 Hne H0 E).
  - intros t0 d0 H0. destruct (Nat.eq_dec t0 t) as [->|Hne].
    + assert (d0 = d') by congruence. subst d0. rewrite Ed'. split; [exact Hcm|discriminate].
    + rewrite (Hoth t0 Hne) in H0. apply (HRM t0 d0 H0).
Qed.

(* ====================================================================================== *)
(*  8i. OReshape under the strengthened guard (NOT part of the history fragment)             *)
(* ====================================================================================== *)
Lemma wf_ap_mono len len' a : len <= len' -> wf_ap len a -> wf_ap len' a.
Proof.
  intros Hle (Hp & Hl & Hst & Hb & Hinj). split; [exact Hp|]. split; [exact Hl|]. split; [exact Hst|].
  split; [|exact Hinj]. intros c Hc. specialize (Hb c Hc). lia.
Qed.

(* what guard_op lacks for OReshape (OReshape_guard_gap), as a function of the model state:
   positive target dims, the refusal the implementation gives, and — the real gap — an operand
   stored contiguously in row-major order; nothing pending is a restriction of this proof only *)
Definition reshape_extra (σ : store V) (t : nat) (dims : list Z) (refused : bool) : bool :=
  match get_t σ t with
  | Some d =>
    pos_shapeb dims && negb (is_some (d_old d)) &&
    list_eqb (str (d_ap d)) (calc_strides (shp (d_ap d))) &&
    (negb (size (shp (d_ap d)) =? size dims) || Bool.eqb refused (d_view d && is_nc (ord (d_ap d))))
  | None => true
  end.

(* PARTIAL: nothing pending (reshape_extra), a row-major SPEC tensor (hypothesis Hcm0: the SPEC's
   s_cm flag is not tracked by R), and not lifted to histories.  Full statement:
     R σ ς -> guard_op σ (OReshape t dims refused) = GOk -> [strengthened guard] ->
     step_model σ (OReshape t dims refused) = (σ', r) ->
     exists ς', step_spec ς (OReshape t dims refused) = Some (ς', r) /\ R σ' ς' *)
Lemma sim_OReshape_partial σ ς t dims refused σ' r : R σ ς -> RM σ ->
  guard_op σ (OReshape V t dims refused) = GOk -> reshape_extra σ t dims refused = true ->
  (forall x, sget ς t = Some x -> s_cm x = false) ->
  step_model σ (OReshape V t dims refused) = (σ', r) ->
  exists ς', step_spec ς (OReshape V t dims refused) = Some (ς', r) /\ R σ' ς' /\ RM σ'.
Proof.
  intros HR HRM Hg He Hcm0 H. pose proof HR as (φ & Hφ).
  unfold Run.guard_op in Hg. unfold reshape_extra in He. change (Mem.get_t V σ t) with (get_t σ t) in Hg.
  destruct (get_t σ t) as [d|] eqn:Ht; [|discriminate].
  apply andb_true_iff in He as [He Href]. apply andb_true_iff in He as [He Hcontig].
  apply andb_true_iff in He as [Hpd Hold]. apply list_eqb_true in Hcontig.
  destruct (d_old d) as [o|] eqn:Eo; [discriminate Hold|]. clear Hold.
  destruct (get_sget φ σ ς t d Hφ Ht) as [x Hx]. specialize (Hcm0 x Hx).
  pose proof Hφ as (_ & Hval & Hinj & Hall).
  destruct (Hall t d x Ht Hx) as (Hwf & Hrep & Hv & Hpend & Hcov).
  pose proof Hrep as (Hs & Ha & Hl & Hc). pose proof Ha as (Hps & Hls & Hst & Hbnd & Hainj).
  destruct (HRM t d Ht) as [Hcm _].
  set (sh := shp (d_ap d)) in *.
  unfold Run.step_model, m_reshape in H. change (Mem.get_t V σ t) with (get_t σ t) in H. rewrite Ht in H.
  fold sh in H. unfold Run.step_spec, spec_reshape. change (Spec.sget V ς t) with (sget ς t). rewrite Hx, <- Hs.
  destruct (size sh =? size dims) eqn:Esz; cbn [negb] in H |- *.
  2:{ injection H as <- <-. exists ς. split; [reflexivity|]. split; [exact HR|exact HRM]. }
  rewrite Hpd. cbn [negb]. cbn [orb] in Href. apply eqb_prop in Href.
  destruct (d_view d && is_nc (ord (d_ap d))) eqn:Eref.
  { subst refused. injection H as <- <-. exists ς. split; [reflexivity|]. split; [exact HR|exact HRM]. }
  subst refused. rewrite Eo in H. cbn [is_some d_ap d_buf d_off d_len d_old d_view] in H.
  (* the late refusal is excluded by the guard *)
  assert (Hlate : negb (d_view d) && negb (d_len d =? size dims) && negb (is_scalar dims) = false).
  { destruct (negb (d_view d) && negb (d_len d =? size dims) && negb (is_scalar dims)) eqn:E; [|reflexivity].
    apply andb_true_iff in E as [E E3]. apply andb_true_iff in E as [E1 E2].
    rewrite E1, E2, E3 in Hg. cbn [andb] in Hg. discriminate Hg. }
  rewrite Hlate in H. injection H as <- <-. rewrite Hcm0. rewrite ?Eo.
  eexists. split; [reflexivity|].
  pose proof (pos_shapeb_sound dims Hpd) as Hpdims.
  set (a2 := match dims with
             | [] => mkAP [] [] (ord (d_ap d)) true
             | _ :: _ => mkAP dims (default_strides (ord (d_ap d)) dims) (ord (d_ap d)) true
             end).
  assert (Ea2 : shp a2 = dims /\ str a2 = calc_strides dims /\ ord a2 = ord (d_ap d)).
  { unfold a2, default_strides. rewrite Hcm. destruct dims; repeat split. }
  destruct Ea2 as (A1 & A2 & A3).
  set (d2 := mkDense (d_buf d) (d_off d) (d_len d) a2 None (d_view d)).
  assert (Hsz : size dims = size sh) by lia.
  pose proof (size_pos sh Hps) as Hszp.
  assert (Hlen : size sh <= d_len d).
  { assert (Hi : inbox sh (unrank sh (size sh - 1))) by (apply unrank_inbox; [exact Hps|lia]).
    specialize (Hbnd _ Hi). rewrite Hcontig, <- rk_dot, rk_unrank in Hbnd by (auto; lia). lia. }
  assert (Ha2 : wf_ap (d_len d) a2).
  { apply (wf_ap_mono (size dims)); [lia|].
    apply (wf_ap_ext _ (mkAP dims (calc_strides dims) 0 true)); [symmetry; exact A1|symmetry; exact A2|].
    apply wf_ap_rowmajor. exact Hpdims. }
  assert (Hposd : forall c, inbox sh c -> pos d c = d_off d + rank_rm sh c).
  { intros c Hi. unfold pos. rewrite Hcontig. fold sh.
    rewrite dot_calc_strides_rank by (apply inbox_length; exact Hi). reflexivity. }
  assert (Hpos2 : forall c, inbox dims c -> pos d2 c = d_off d + rank_rm dims c).
  { intros c Hi. unfold pos, d2. cbn [d_off d_ap]. rewrite A2.
    rewrite dot_calc_strides_rank by (apply inbox_length; exact Hi). reflexivity. }
  split.
  - exists φ. apply (Rphi_set φ σ ς t d x); [exact Hφ|exact Ht|exact Hx|].
    split; [|split; [|split; [exact Hv|split]]].
    + destruct Hwf as (Hw & _ & _). split; [exact Hw|]. split; [exact Ha2|].
      intros o0 Ho0. unfold d2 in Ho0. cbn [d_old] in Ho0. discriminate Ho0.
    + cbn [s_shape s_cells]. split; [exact A1|]. split; [exact Ha2|].
      split; [rewrite Hl, <- Hs, Hsz; reflexivity|].
      intros c Hi. change (d_off d2 + dot (str (d_ap d2)) c) with (pos d2 c). rewrite (Hpos2 c Hi).
      pose proof (rank_rm_bound dims c Hpdims Hi) as Hr.
      set (c0 := unrank sh (rank_rm dims c)).
      assert (Hi0 : inbox sh c0) by (apply unrank_inbox; [exact Hps|lia]).
      assert (Hr0 : rank_rm sh c0 = rank_rm dims c) by (apply rank_unrank; [exact Hps|lia]).
      rewrite <- Hr0, <- (Hposd c0 Hi0). cbn [d2 d_buf]. unfold pos. rewrite Hs in Hi0. rewrite (Hc c0 Hi0).
      rewrite <- Hs. reflexivity.
    + unfold pend_ok. cbn [d2 d_old s_pending s_undo]. split; reflexivity.
    + intros Hnv p k Hk Hr. destruct (Hcov Hnv p k Hk Hr) as (c0 & Hi0 & ->).
      pose proof (rank_rm_bound sh c0 Hps Hi0) as Hr0.
      exists (unrank dims (rank_rm sh c0)).
      assert (Hi : inbox dims (unrank dims (rank_rm sh c0))) by (apply unrank_inbox; [exact Hpdims|lia]).
      split; [cbn [d2 d_ap]; rewrite A1; exact Hi|].
      rewrite (Hposd c0 Hi0), (Hpos2 _ Hi), rank_unrank by (auto; lia). reflexivity.
  - apply RM_set; [exact HRM|]. split; [cbn [d2 d_ap]; rewrite A3; exact Hcm|].
    intros o0 Ho0. unfold d2 in Ho0. cbn [d_old] in Ho0. discriminate Ho0.
Qed.


(* ====================================================================================== *)
(*  9. one step of the fragment; histories                                                 *)
(* ====================================================================================== *)
(* the operations covered *)
Definition in_fragment (o : op V) : bool :=
  match o with
  | ONew _ order _ _ => order =? 0
  | OAt _ _ _ | OSetAt _ _ _ _ | OMemset _ _ _ | OZero _ _ | OUT _ _ | OClone _ _ | OT _ _ _ | OSlice _ _ _ _ | OMaterialize _ _ _
  | OTranspose _ _ | OCopy _ _ _ | OSafeT _ _ _ => true
  | _ => false
  end.

(* what has to be added to guard_op for the simulation to hold (see the *_guard_gap examples) *)
Definition extra_ok (σ : store V) (o : op V) : bool :=
  match o with
  | ONew _ _ sh data => zlen data =? size sh
  | OUT _ t => is_some (get_t σ t)
  | OSlice _ t sl hint => slice_hint_ok σ t sl hint
  | OMaterialize _ t same => mat_hint_ok σ t same
  | OTranspose _ t => transpose_extra σ t          (* proof restriction, see sim_OTranspose_pending *)
  | OCopy _ dt st => copy_extra σ dt st            (* proof restriction, see sim_OCopy_partial *)
  | _ => true
  end.

Theorem step_sim σ ς o σ' r : R σ ς -> RM σ -> in_fragment o = true ->
  guard_op σ o = GOk -> extra_ok σ o = true ->
  step_model σ o = (σ', r) ->
  exists ς', step_spec ς o = Some (ς', r) /\ R σ' ς' /\ RM σ'.
Proof.
  intros HR HRM Hf Hg He H. destruct o; try discriminate Hf.
  - cbn [in_fragment] in Hf. assert (order = 0) by lia. subst order.
    cbn [extra_ok] in He. unfold Run.guard_op in Hg.
    destruct (pos_shapeb sh) eqn:Ep; [|discriminate].
    destruct (sim_ONew0 σ ς sh data σ' r HR Ep ltac:(lia) H) as (ς' & E & HR').
    exists ς'. split; [exact E|]. split; [exact HR'|]. apply (RM_ONew0 σ sh data σ' r ltac:(lia) HRM H).
  - destruct (sim_OSlice σ ς t sl hint σ' r HR Hg He H) as (ς' & E & HR').
    exists ς'. split; [exact E|]. split; [exact HR'|]. apply (RM_OSlice σ t sl hint σ' r HRM H).
  - destruct (sim_OT σ ς t axes σ' r HR Hg H) as (ς' & E & HR').
    exists ς'. split; [exact E|]. split; [exact HR'|]. apply (RM_OT σ ς t axes σ' r HR HRM Hg H).
  - destruct (sim_OUT σ ς t σ' r HR He H) as (ς' & E & HR').
    exists ς'. split; [exact E|]. split; [exact HR'|]. apply (RM_OUT σ t σ' r HRM H).
  - cbn [extra_ok] in He. unfold transpose_extra in He.
    destruct (get_t σ t) as [d|] eqn:Ht.
    + destruct (d_old d) as [o|] eqn:Eo.
      * apply andb_true_iff in He as [E1 E2]. apply negb_true_iff in E1.
        apply (sim_OTranspose_pending σ ς t d o σ' r HR HRM Ht Eo Hg E1 ltac:(lia) H).
      * destruct (sim_OTranspose_partial σ ς t σ' r HR Hg ltac:(unfold transpose_nopending; rewrite Ht, Eo; reflexivity) H)
          as (ς' & E & HR' & ->).
        exists ς'. split; [exact E|]. split; [exact HR'|exact HRM].
    + unfold Run.guard_op in Hg. change (Mem.get_t V σ t) with (get_t σ t) in Hg. rewrite Ht in Hg. discriminate Hg.
  - destruct (sim_OAt σ ς t c σ' r HR Hg H) as (ς' & E & HR').
    exists ς'. split; [exact E|]. split; [exact HR'|]. apply (RM_OAt σ t c σ' r HRM H).
  - destruct (sim_OSetAt σ ς t c v σ' r HR Hg H) as (ς' & E & HR').
    exists ς'. split; [exact E|]. split; [exact HR'|]. apply (RM_OSetAt σ t c v σ' r HRM H).
  - destruct (sim_OMemset σ ς t v σ' r HR Hg H) as (ς' & E & HR').
    exists ς'. split; [exact E|]. split; [exact HR'|]. apply (RM_OMemset σ t v σ' r HRM H).
  - destruct (sim_OZero σ ς t σ' r HR Hg H) as (ς' & E & HR').
    exists ς'. split; [exact E|]. split; [exact HR'|]. apply (RM_OZero σ t σ' r HRM H).
  - destruct (sim_OClone σ ς t σ' r HR Hg H) as (ς' & E & HR').
    exists ς'. split; [exact E|]. split; [exact HR'|]. apply (RM_OClone σ t σ' r HRM H).
  - destruct (sim_OMaterialize σ ς t same σ' r HR HRM Hg He H) as (ς' & E & HR' & Hrm).
    exists ς'. split; [exact E|]. split; [exact HR'|].
    intros t0 d0 H0. destruct (Hrm t0 d0 H0) as [Hl|Hr]; [apply (HRM t0 d0 Hl)|exact Hr].
  - destruct (sim_OCopy_partial σ ς dst src σ' r HR HRM Hg He H) as (ς' & E & HR' & Ht).
    exists ς'. split; [exact E|]. split; [exact HR'|apply (RM_tens σ σ' Ht HRM)].
  - apply (sim_OSafeT σ ς t axes σ' r HR HRM Hg H).
Qed.

Fixpoint run_model (ops : list (op V)) (σ : store V) : store V * list (outcome V) :=
  match ops with
  | [] => (σ, [])
  | o :: rest =>
    let (σ1, r) := step_model σ o in
    let (σ2, rs) := run_model rest σ1 in (σ2, r :: rs)
  end.

Fixpoint run_spec (ops : list (op V)) (ς : sstate V) : option (sstate V * list (outcome V)) :=
  match ops with
  | [] => Some (ς, [])
  | o :: rest =>
    match step_spec ς o with
    | None => None
    | Some (ς1, r) =>
      match run_spec rest ς1 with
      | None => None
      | Some (ς2, rs) => Some (ς2, r :: rs)
      end
    end
  end.

(* every step's guard, evaluated on the model state reached so far *)
Fixpoint guards_ok (σ : store V) (ops : list (op V)) : Prop :=
  match ops with
  | [] => True
  | o :: rest => guard_op σ o = GOk /\ extra_ok σ o = true /\ guards_ok (fst (step_model σ o)) rest
  end.

(* the guard classes of the steps of a history (for the counterexamples below) *)
Fixpoint guard_trace (σ : store V) (ops : list (op V)) : list gclass :=
  match ops with
  | [] => []
  | o :: rest => guard_op σ o :: guard_trace (fst (step_model σ o)) rest
  end.

(* suggested addition to the guard of OReshape (see OReshape_guard_gap): the contiguity flag of the
   operand must be sound, i.e. guard_read's GFlagUnsound must not be let through *)
Definition reshape_flag_sound (σ : store V) (t : nat) : bool :=
  match get_t σ t with Some d => flag_soundb d | None => true end.

Lemma guards_ok_firstn k : forall ops σ, guards_ok σ ops -> guards_ok σ (firstn k ops).
Proof.
  induction k as [|k IH]; intros [|o ops] σ H; cbn [firstn guards_ok]; auto.
  destruct H as (H1 & H2 & H3). auto.
Qed.

Lemma forallb_firstn {A} (f : A -> bool) k : forall l, forallb f l = true -> forallb f (firstn k l) = true.
Proof.
  induction k as [|k IH]; intros [|a l] H; cbn [firstn forallb] in *; auto.
  apply andb_true_iff in H as [H1 H2]. rewrite H1. cbn [andb]. auto.
Qed.

Lemma history_sim : forall ops σ ς, R σ ς -> RM σ -> forallb in_fragment ops = true -> guards_ok σ ops ->
  exists ς', run_spec ops ς = Some (ς', snd (run_model ops σ)) /\ R (fst (run_model ops σ)) ς' /\
             RM (fst (run_model ops σ)).
Proof.
  induction ops as [|o ops IH]; intros σ ς HR HRM Hf Hg.
  - exists ς. split; [reflexivity|]. split; [exact HR|exact HRM].
  - cbn [forallb] in Hf. apply andb_true_iff in Hf as [Hf1 Hf2].
    destruct Hg as (Hg1 & Hg2 & Hg3).
    cbn [run_model run_spec]. destruct (step_model σ o) as [σ1 r] eqn:Es.
    destruct (step_sim σ ς o σ1 r HR HRM Hf1 Hg1 Hg2 Es) as (ς1 & E1 & HR1 & HRM1).
    rewrite E1. cbn [fst] in Hg3. destruct (IH σ1 ς1 HR1 HRM1 Hf2 Hg3) as (ς2 & E2 & HR2 & HRM2).
    rewrite E2. destruct (run_model ops σ1) as [σ2 rs]. cbn [fst snd] in *.
    exists ς2. split; [reflexivity|]. split; [exact HR2|exact HRM2].
Qed.

(* MODEL and SPEC, run side by side from the empty state over a history of the fragment whose
   guards all hold: after EVERY step (= for every prefix) the SPEC is defined, the outcomes are
   the same, and every tensor has the same shape and the same logical contents *)
Theorem history_refines : forall ops,
  forallb in_fragment ops = true -> guards_ok (empty_store V) ops ->
  forall k,
    let pre := firstn k ops in
    let σ := fst (run_model pre (empty_store V)) in
    exists ς, run_spec pre (empty_sstate V) = Some (ς, snd (run_model pre (empty_store V))) /\
      ntens_model V σ = ntens_spec V ς /\
      (forall t d x, get_t σ t = Some d -> sget ς t = Some x ->
         shp (d_ap d) = s_shape x /\ logical V σ t = map Ok (slogical V vzero ς x)) /\
      (forall t, fst (fst (fst (fst (fst (fst (obs_model V σ t))))))
                 = (fst (obs_spec V vzero ς t), map Ok (snd (obs_spec V vzero ς t)))).
Proof.
  intros ops Hf Hg k pre σ.
  destruct (history_sim pre (empty_store V) (empty_sstate V) R_empty RM_empty
              (forallb_firstn _ k ops Hf) (guards_ok_firstn k ops _ Hg)) as (ς & E & HR & _).
  fold σ in HR. exists ς. split; [exact E|]. split; [|split].
  - destruct HR as (φ & Hl & _). exact Hl.
  - intros t d x Ht Hx. apply (R_obs σ ς t d x HR Ht Hx).
  - intro t. unfold obs_model, obs_spec. change (Mem.get_t V σ t) with (get_t σ t).
    change (Spec.sget V ς t) with (sget ς t).
    destruct (get_t σ t) as [d|] eqn:Ht.
    + destruct HR as (φ & Hφ). destruct (get_sget φ σ ς t d Hφ Ht) as [x Hx]. rewrite Hx.
      destruct (R_obs σ ς t d x (ex_intro _ φ Hφ) Ht Hx) as [Hs Hlg]. cbn [fst snd]. congruence.
    + destruct (sget ς t) as [x|] eqn:Hx; [|reflexivity].
      destruct HR as (φ & Hl & _). apply nth_error_Some_lt in Hx. apply nth_error_None in Ht. lia.
Qed.

End Refine.

(* ====================================================================================== *)
(*  10. where guard_op = GOk is not enough (V := Z)                                        *)
(* ====================================================================================== *)
(* ONew: the guard only asks for a positive shape.  A backing whose length is not the size of the
   shape makes the implementation panic (non-scalar shape) or build a tensor whose window is longer
   than its one element (scalar shape); the SPEC leaves both undetermined (None).  Extra guard:
   zlen data =? size sh. *)
Example ONew_guard_gap :
  guard_op Z (empty_store Z) (ONew Z 0 [2] [1; 2; 3]) = GOk /\
  option_map snd (step_spec Z 0 (empty_sstate Z) (ONew Z 0 [2] [1; 2; 3]))
    <> Some (snd (step_model Z 0 (empty_store Z) (ONew Z 0 [2] [1; 2; 3]))) /\
  guard_op Z (empty_store Z) (ONew Z 0 [] [1; 2; 3]) = GOk /\
  option_map snd (step_spec Z 0 (empty_sstate Z) (ONew Z 0 [] [1; 2; 3]))
    <> Some (snd (step_model Z 0 (empty_store Z) (ONew Z 0 [] [1; 2; 3]))).
Proof. vm_compute. repeat split; discriminate. Qed.

(* OUT has no guard at all: on a tensor index that does not exist the implementation panics and
   the SPEC is undetermined.  Extra guard: is_some (get_t σ t). *)
Example OUT_guard_gap :
  guard_op Z (empty_store Z) (OUT Z 0) = GOk /\
  option_map snd (step_spec Z 0 (empty_sstate Z) (OUT Z 0))
    <> Some (snd (step_model Z 0 (empty_store Z) (OUT Z 0))).
Proof. vm_compute. split; [reflexivity|discriminate]. Qed.

(* OSlice: the SPEC accepts ANY hint that deletes droppable axes only; the simulation needs the
   hint to be the shape the implementation produced (slice_hint_ok).  With another admissible hint
   the two shapes differ: *)
Example OSlice_hint_gap :
  let o0 := ONew Z 0 [2; 3] [1; 2; 3; 4; 5; 6] in
  let o := OSlice Z 0 [Some (0, 1, 1)] [1; 3] in
  let σ := fst (step_model Z 0 (empty_store Z) o0) in
  guard_op Z σ o = GOk /\ slice_hint_ok Z σ 0 [Some (0, 1, 1)] [1; 3] = false /\
  fst (fst (fst (fst (fst (fst (fst (obs_model Z (fst (step_model Z 0 σ o)) 1%nat))))))) = [3] /\
  match step_spec Z 0 (empty_sstate Z) o0 with
  | Some (ς, _) => match step_spec Z 0 ς o with
                   | Some (ς', _) => fst (obs_spec Z 0 ς' 1%nat) = [1; 3]
                   | None => False
                   end
  | None => False
  end.
Proof. vm_compute. repeat split. Qed.

(* OReshape (NOT in the fragment): a REAL gap.  Reshape reads the window of its operand in storage
   order.  guard_op lets an operand with an unsound contiguity flag through (guard_transpose maps
   GFlagUnsound to GOk).  A slice along axis 0 of a lazily transposed matrix is such an operand:
   its window has gaps, its strides are not the default ones, but AP.S does not mark it
   non-contiguous.  All four guards are GOk, all four outcomes agree, and after the Reshape the
   implementation holds [1;2;3;4] where the SPEC says [1;4;2;5].  Extra guard: reshape_flag_sound
   (false here), i.e. treat GFlagUnsound as a finding class for OReshape. *)
Example OReshape_guard_gap :
  let ops := [ONew Z 0 [2; 3] [1; 2; 3; 4; 5; 6]; OT Z 0 []; OSlice Z 0 [Some (0, 2, 1)] [2; 2];
              OReshape Z 1 [4] false] in
  let σ := fst (run_model Z 0 ops (empty_store Z)) in
  (* since the guard of OReshape was strengthened (Run.v) the last step is flagged *)
  guard_trace Z 0 (empty_store Z) ops = [GOk; GOk; GOk; GFlagUnsound] /\
  reshape_flag_sound Z (fst (run_model Z 0 (firstn 3 ops) (empty_store Z))) 1%nat = false /\
  match run_spec Z 0 ops (empty_sstate Z) with
  | Some (ς, outs) =>
    outs = snd (run_model Z 0 ops (empty_store Z)) /\
    fst (obs_spec Z 0 ς 1%nat) = [4] /\ fst (fst (fst (fst (fst (fst (fst (obs_model Z σ 1%nat))))))) = [4] /\
    logical Z σ 1%nat = map Ok [1; 2; 3; 4] /\ snd (obs_spec Z 0 ς 1%nat) = [1; 4; 2; 5] /\
    logical Z σ 1%nat <> map Ok (snd (obs_spec Z 0 ς 1%nat))
  | None => False
  end.
Proof. vm_compute. repeat split. discriminate. Qed.

(* ORollAxis (NOT in the fragment): a REAL gap, for safe = false and safe = true alike.  RollAxis goes
   through AP.T; on a vector-shaped operand with non-unit strides (here: every second row of a
   column vector) AP.T overwrites the strides with ones.  guard_T / guard_safeT test for that
   (GVectorAxes); the guard of ORollAxis does not.  All guards GOk, outcomes equal, the result holds
   [1;2;3] where the SPEC says [1;3;5].  Extra guard: rollaxis_vector_ok (false here). *)
Definition rollaxis_vector_ok (σ : store Z) (t : nat) : bool :=
  match get_t Z σ t with
  | Some d => negb (is_vector (shp (d_ap d)) && negb (allones (str (d_ap d))))
  | None => true
  end.

Example ORollAxis_guard_gap :
  let pre := [ONew Z 0 [6; 1] [1; 2; 3; 4; 5; 6]; OSlice Z 0 [Some (0, 6, 2)] [3; 1]] in
  let check safe res :=
    let ops := pre ++ [ORollAxis Z 1 1 0 safe] in
    let σ := fst (run_model Z 0 ops (empty_store Z)) in
    guard_trace Z 0 (empty_store Z) ops = [GOk; GOk; GVectorAxes] /\
    match run_spec Z 0 ops (empty_sstate Z) with
    | Some (ς, outs) =>
      outs = snd (run_model Z 0 ops (empty_store Z)) /\
      logical Z σ res = map Ok [1; 2; 3] /\ obs_spec Z 0 ς res = ([1; 3], [1; 3; 5])
    | None => False
    end in
  rollaxis_vector_ok (fst (run_model Z 0 pre (empty_store Z))) 1%nat = false /\
  check false 1%nat /\ check true 2%nat.
Proof. vm_compute. repeat split. Qed.
