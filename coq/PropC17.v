(* PropC17.v — property C17: every element-type specialisation of every generated kernel is the
   same canonical function.  All statements are decided by reflection on the table produced by kx
   (KernelTable.v); the checking functions are in Kernel.v. *)
From Coq Require Import String.
From TV Require Import Base Kernel KernelTable.

(* 1. any two kernels of one family and one element class have equal signatures and bodies *)
Theorem C17_all_kernels_uniform : uniformb kernels = true.
Proof. vm_compute. reflexivity. Qed.
Print Assumptions C17_all_kernels_uniform.

(* 2. across classes, bodies coincide under norm_class, up to the named table class_specific *)
Theorem C17_classes_consistent : classes_consistentb kernels = true.
Proof. vm_compute. reflexivity. Qed.
Print Assumptions C17_classes_consistent.

(* 2'. no entry of class_specific is superfluous *)
Theorem C17_class_specific_tight : forallb (class_entry_tightb kernels) class_specific = true.
Proof. vm_compute. reflexivity. Qed.
Print Assumptions C17_class_specific_tight.

(* 3. every kernel is the instance of its loop schema at its operator and class *)
Theorem C17_all_kernels_canonical :
  forallb (fun k => canonicalb k || in_untemplated k || in_exceptions k) kernels = true.
Proof. vm_compute. reflexivity. Qed.
Print Assumptions C17_all_kernels_canonical.

(* 3'. the exceptions are exactly the described deviations: not canonical, and equal to the
       template with the deviation built in *)
Theorem C17_exceptions_exact :
  forallb (fun k => if in_exceptions k then deviantb k && negb (canonicalb k) else true) kernels = true.
Proof. vm_compute. reflexivity. Qed.
Print Assumptions C17_exceptions_exact.

(* 3''. no template is vacuous: each (family, class) it provides has a kernel; no family is both
        templated and listed as untemplated; names, suffixes and element types agree *)
Theorem C17_templates_used : templates_usedb kernels = true.
Proof. vm_compute. reflexivity. Qed.
Print Assumptions C17_templates_used.

Theorem C17_untemplated_disjoint :
  forallb (fun f => match lookup f templates with None => true | Some _ => false end) untemplated = true.
Proof. vm_compute. reflexivity. Qed.
Print Assumptions C17_untemplated_disjoint.

Theorem C17_well_named : forallb well_namedb kernels = true.
Proof. vm_compute. reflexivity. Qed.
Print Assumptions C17_well_named.

(* 4. dispatch: method + type case + scalar case select the kernel family++suffix of the right
      variant, operands in the order a, b, [incr / retVal], iterators *)
Theorem C17_dispatch_canonical : forallb dispatch_okb dispatch = true.
Proof. vm_compute. reflexivity. Qed.
Print Assumptions C17_dispatch_canonical.

(* 4'. the rows excused by known_dispatch_deviations are exactly the (tmp, mask) calls *)
Theorem C17_dispatch_deviations_exact :
  forallb (fun d => if dispatch_matchb d then true else dispatch_deviantb d) dispatch = true.
Proof. vm_compute. reflexivity. Qed.
Print Assumptions C17_dispatch_deviations_exact.

(* 4''. error results are not thrown away, except by the methods in known_err_dropped,
        and each of those really does *)
Theorem C17_dispatch_errors : forallb (dispatch_err_okb kernels) dispatch = true.
Proof. vm_compute. reflexivity. Qed.
Print Assumptions C17_dispatch_errors.

Theorem C17_known_err_dropped_tight :
  forallb (fun m => existsb (fun d => if String.eqb (d_method d) m then drops_errb kernels d else false) dispatch)
          known_err_dropped = true.
Proof. vm_compute. reflexivity. Qed.
Print Assumptions C17_known_err_dropped_tight.

(* 5. the table is the real thing *)
Theorem C17_table_nonempty : (2000 <? Z.of_nat (length kernels))%Z = true.
Proof. vm_compute. reflexivity. Qed.
Print Assumptions C17_table_nonempty.

(* no statement or expression was left untranslated *)
Theorem C17_no_opaque : forallb (fun k => negb (existsb stmt_has_opaque (k_body k))) kernels = true.
Proof. vm_compute. reflexivity. Qed.
Print Assumptions C17_no_opaque.

(* propositional forms, through the soundness of the equality tests (Kernel.v) *)
Definition uniform_prop := uniformb_sound kernels C17_all_kernels_uniform.
Check uniform_prop.
Print Assumptions uniform_prop.

Definition canonical_prop := canonical_sound kernels C17_all_kernels_canonical.
Check canonical_prop.
Print Assumptions canonical_prop.
