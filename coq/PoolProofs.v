(* PoolProofs.v — C19 lemmas: caller-owned slices are never changed by the transposition family;
   a tensor is changed only by operations that name it as destination (frame statements lifted
   from MemProofs.v to "every OTHER live tensor"). *)
From TV Require Import Base Index AP Iter Mem Run Pool IndexProofs IterProofs APProofs MemProofs.

(* --- caller slices --- *)
Inductive pop := PT (t : nat) (axes : list Z) (before after : option dense) (ok : bool)
               | PUT (t : nat) (before : option dense)
               | PTranspose (t : nat) (before : option dense).

Definition papply (p : pstate) (o : pop) : pstate :=
  match o with
  | PT t axes b a ok => pstep_T p t axes b a ok
  | PUT t b => pstep_UT p t b
  | PTranspose t b => pstep_transpose p t b
  end.

Lemma papply_prefix p o : exists extra, p_slices (papply p o) = p_slices p ++ extra.
Proof.
  destruct o as [t axes b a ok|t b|t b]; cbn.
  - unfold pstep_T. destruct axes; cbn; [exists []; rewrite app_nil_r|eexists]; reflexivity.
  - exists []. rewrite app_nil_r. reflexivity.
  - exists []. rewrite app_nil_r. reflexivity.
Qed.

(* every slice handed to the library keeps its contents over ANY history of T / UT / Transpose *)
Theorem caller_slices_unchanged : forall ops p i s,
  nth_error (p_slices p) i = Some s ->
  nth_error (p_slices (fold_left papply ops p)) i = Some s.
Proof.
  induction ops as [|o ops IH]; intros p i s H; cbn [fold_left]; [exact H|].
  apply IH. destruct (papply_prefix p o) as [extra E]. rewrite E.
  rewrite nth_error_app1; [exact H|]. apply nth_error_Some. congruence.
Qed.

Section Frames.
Variable V : Type.
Variable vzero : V.

(* a whole-tensor write through tensor t leaves the metadata of EVERY tensor and the cells of
   every tensor living in another allocation unchanged *)
Theorem memset_other_tensors : forall (σ : store V) t d v u du,
  get_t V σ t = Some d -> wf_dense V σ d ->
  (is_materializable d = true \/ d_len d = size (shp (d_ap d))) ->
  get_t V σ u = Some du -> d_buf du <> d_buf d ->
  exists σ', m_memset V σ t v = Ok σ' /\ tens V σ' = tens V σ /\
             forall c, cell V σ' du c = cell V σ du c.
Proof.
  intros σ t d v u du Ht Hwf Hc Hu Hb.
  destruct (m_memset_frame V σ t d v Ht Hwf Hc) as (σ' & E & (Hf & Hother & _ & _)).
  exists σ'. split; [exact E|]. destruct Hf as (Ht' & _ & _). split; [exact Ht'|].
  intro c. unfold cell, Mem.win_get.
  destruct ((dot (str (d_ap du)) c <? 0) || (d_len du <=? dot (str (d_ap du)) c)); [reflexivity|].
  apply (Hother (d_buf du) (d_off du + dot (str (d_ap du)) c) Hb).
Qed.

(* the lazy transposition family changes the metadata of its own tensor only, and no buffer *)
Theorem UT_only_own_tensor : forall (σ : store V) t σ' u,
  m_UT V σ t = Ok σ' -> u <> t -> get_t V σ' u = get_t V σ u /\ bufs V σ' = bufs V σ.
Proof.
  intros σ t σ' u H Hu. unfold m_UT in H. destruct (Mem.get_t V σ t) as [d|] eqn:E; [|discriminate].
  injection H as <-. split; [|reflexivity]. unfold Mem.get_t, set_t. cbn.
  apply nth_error_upd_other. congruence.
Qed.

Theorem T_only_own_tensor : forall (σ : store V) t axes d σ' u,
  get_t V σ t = Some d -> d_old d = None -> m_T V σ t axes = Ok σ' -> u <> t ->
  get_t V σ' u = get_t V σ u /\ bufs V σ' = bufs V σ.
Proof.
  intros σ t axes d σ' u Ht Ho H Hu. unfold m_T in H. rewrite Ht in H.
  destruct (ap_T (d_ap d) axes) as [tr ax| | |]; try discriminate.
  - rewrite Ho in H. injection H as <-. split; [|reflexivity]. unfold Mem.get_t, set_t. cbn.
    apply nth_error_upd_other. congruence.
  - injection H as <-. split; reflexivity.
Qed.
End Frames.
